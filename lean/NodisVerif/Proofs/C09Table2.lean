import NodisVerif.Proofs.C09Table1
import NodisVerif.Proofs.C09Float
import NodisVerif.Model.Handler2
/-
  C09 (WATCH soundness), the handler table of Model/Handler2.lean (`Handler2.table2`: lists, hashes,
  sets): every closure a handler hands to `execCommand` tells the watchers about every key whose logical
  content it changes (`SignalsChanges`). Same recipe as C09Table1.lean: `Frame [] st (b st now ch).store`
  from the `frame_*` table of C09Writers2.lean, plus `Frame []` lemmas for the read-only API functions
  and for `Api.hincrbyfloat` (this file).

  This file: helpers, read-only API functions, HINCRBYFLOAT at the API level, the list and hash handlers.
  C09Table2b.lean: the set handlers and the table theorems.
-/
set_option linter.unusedSectionVars false
set_option linter.unusedVariables false

namespace NodisVerif.Proofs.C08Step
open Resp Server
open NodisVerif NodisVerif.Store NodisVerif.Api
open NodisVerif.Proofs.C09Writers

/-! ## helpers -/

/-- `call r k` when the continuation makes further API calls: the frame of `r` followed by the frame of
    the continuation -/
theorem frame_call2 {st : MState} (hp : st.pebble = true) (r : MState × Out) (k : MState → Out → BodyOut)
    (h : Frame [] st r.1) (hk : ∀ s o, s.pebble = true → Frame [] s (k s o).store) :
    Frame [] st (Handler.call r k).store := by
  obtain ⟨s1, o⟩ := r
  unfold Handler.call
  split
  · next heq => cases heq; exact h
  · next heq => cases heq; exact h.trans0 (hk _ _ (h.pebble hp))

/-- `h : (if c then errReply else .exec f) = .exec b` -/
theorem ite_exec2 {c : Prop} [Decidable c] {f b : Body}
    (h : (if c then Handler.errReply else HRes.exec f) = .exec b) : ¬ c ∧ f = b := by
  split at h
  · cases h
  · next hc => cases h; exact ⟨hc, rfl⟩

set_option hygiene false in
/-- a closure that makes one API call and then only renders the reply: reduce to the frame of the call -/
macro "one_call" : tactic => `(tactic|
  refine signals_of_frame fun st now ch hp =>
    frame_call _ _ (fun _ _ => by first | rfl | ((repeat' split) <;> rfl)) ?_)

/-! ## read-only API functions: lists -/

theorem frame_llen (s : MState) (now : Int) (key : Bytes) : Frame [] s (Api.llen s now key).1 := by
  unfold Api.llen
  rk s now key
  split
  · exact h
  · split <;> exact h

theorem frame_lindex (s : MState) (now : Int) (key : Bytes) (i : Int) : Frame [] s (Api.lindex s now key i).1 := by
  unfold Api.lindex
  rk s now key
  split
  · exact h
  · split <;> exact h

theorem frame_lrange (s : MState) (now : Int) (key : Bytes) (a b : Int) :
    Frame [] s (Api.lrange s now key a b).1 := by
  unfold Api.lrange
  rk s now key
  split
  · exact h
  · split <;> exact h

/-! ## read-only API functions: hashes -/

theorem frame_hget (s : MState) (now : Int) (key field : Bytes) : Frame [] s (Api.hget s now key field).1 := by
  unfold Api.hget
  rk s now key
  split
  · exact h
  · split <;> exact h

/-- the generic hash reader (HLEN, HKEYS, HVALS, HGETALL, HEXISTS, HSTRLEN, HMGET, HSCAN) -/
theorem frame_hread (f : AList Bytes → Out) (d : Out) (s : MState) (now : Int) (key : Bytes) :
    Frame [] s (Api.hread f d s now key).1 := by
  unfold Api.hread
  rk s now key
  split
  · exact h
  · split <;> exact h

theorem frame_hlen (s : MState) (now : Int) (key : Bytes) : Frame [] s (Api.hlen s now key).1 :=
  frame_hread _ _ s now key
theorem frame_hkeys (s : MState) (now : Int) (key : Bytes) : Frame [] s (Api.hkeys s now key).1 :=
  frame_hread _ _ s now key
theorem frame_hvals (s : MState) (now : Int) (key : Bytes) : Frame [] s (Api.hvals s now key).1 :=
  frame_hread _ _ s now key
theorem frame_hgetall (s : MState) (now : Int) (key : Bytes) : Frame [] s (Api.hgetall s now key).1 :=
  frame_hread _ _ s now key
theorem frame_hexists (s : MState) (now : Int) (key field : Bytes) : Frame [] s (Api.hexists s now key field).1 :=
  frame_hread _ _ s now key
theorem frame_hstrlen (s : MState) (now : Int) (key field : Bytes) : Frame [] s (Api.hstrlen s now key field).1 :=
  frame_hread _ _ s now key
theorem frame_hmget (s : MState) (now : Int) (key : Bytes) (fields : List Bytes) :
    Frame [] s (Api.hmget s now key fields).1 :=
  frame_hread _ _ s now key

/-! ## read-only API functions: sets -/

theorem frame_scard (s : MState) (now : Int) (key : Bytes) : Frame [] s (Api.scard s now key).1 :=
  frame_sread _ _ s now key
theorem frame_smembers (s : MState) (now : Int) (key : Bytes) : Frame [] s (Api.smembers s now key).1 :=
  frame_sread _ _ s now key
theorem frame_sismember (s : MState) (now : Int) (key m : Bytes) : Frame [] s (Api.sismember s now key m).1 :=
  frame_sread _ _ s now key

theorem frame_srandmember (s : MState) (now : Int) (key : Bytes) (count : Int) (choice : List Bytes) :
    Frame [] s (Api.srandmember s now key count choice).1 := by
  unfold Api.srandmember
  rk s now key
  split
  · exact h
  · split
    · exact h
    · split
      · exact h
      · repeat' (first | exact h | split)

/-! ## HINCRBYFLOAT at the API level -/

/-
  FULL STATEMENT (false in the model):
    theorem frame_hincrbyfloat (s) (hp : s.pebble = true) (now key field delta) :
      Frame [] s (Api.hincrbyfloat s now key field delta).1
  Region: the key is not live (so `writeKey` creates it as an empty hash) AND the increment itself is not
  an integer-valued double the model can format (`formatFloat delta = none`): the model then stops with
  `.unsupported` ("outside the model's float fragment") after the record was created. This is a limitation
  of the model's float fragment, not a behaviour of the Go code (Go formats every finite value), and the
  RESP handler never reaches it (`signals_hIncrByFloatH`: its increments are `F64.ofInt?` of an integer).
  On a live key every `.unsupported` exit leaves the store as the lookup left it.
-/
theorem frame_hincrbyfloat (s : MState) (hp : s.pebble = true) (now : Int) (key field : Bytes) (delta : F64)
    (hreg : live s now key = true ∨ (Api.formatFloat delta).isSome = true) :
    Frame [] s (Api.hincrbyfloat s now key field delta).1 := by
  unfold Api.hincrbyfloat
  wk_some s now key (Val.hash [])
  · split
    · exact h
    · split
      · split
        · exact h
        · exact (h.setVal hp _ _).finish _ _
      · split
        · exact h
        · exact h.finish _ _
        · split
          · exact h
          · split
            · exact h
            · exact (h.setVal hp _ _).finish _ _
  · simp only [asHash_of_valOf hv]
    have hin : (Api.formatFloat delta).isSome = true := by
      rcases hreg with h' | h'
      · rw [hl] at h'; cases h'
      · exact h'
    have hg : DsHash.hget [] field = none := rfl
    simp only [hg]
    split
    · next hn => rw [hn] at hin; cases hin
    · exact (h.setVal hp _ _).finish _ _

/-- (was `frame_hincrbyfloat_finding`, a witness of the model's old float limit: 0.5 could not be formatted and the
    model stopped with `.unsupported` before signalling.) Since Model/FloatDec.lean `HIncrByFloat(k, f, 0.5)` on the
    empty Pebble store creates the hash, stores "0.5" and signals `k` -/
theorem frame_hincrbyfloat_fraction :
    let s : MState := { pebble := true }
    let s' := (Api.hincrbyfloat s 0 [107] [102] 0x3fe0000000000000).1
    changed s s' [107] ∧ [107] ∈ s'.signalled ∧ s'.flushed = false := by decide +kernel

/-- the doubles INCRBYFLOAT / HINCRBYFLOAT accept as increments in the model (`ofInt?` of an integer) can
    be formatted (cf. `C09Float.ofInt_formattable`, which is about `0 + x`) -/
theorem ofInt_formattable_self (n : Int) (x : F64) (h : F64.ofInt? n = some x) :
    (Api.formatFloat x).isSome = true := by
  unfold F64.ofInt? at h
  split at h
  · cases h
  · next hle =>
    cases h
    generalize hneg : decide (n < 0) = neg
    generalize hm : n.natAbs = m at hle
    have hm' : m ≤ 2 ^ 53 := by omega
    by_cases h0 : m = 0
    · subst h0
      cases neg <;> decide
    by_cases h53 : m = 2 ^ 53
    · have hx : F64.roundPack neg m 0 = C09Float.pack neg 1076 0 := by
        rw [C09Float.roundPack_eq, if_neg h0, h53, show (2 : Nat) ^ 53 = 2 ^ 52 * 2 ^ 1 by decide,
          C09Float.rpCore_exact (2 ^ 52) 1 0 (by omega) (by omega) (by omega) (by omega)]
        exact C09Float.rpFinish_normal neg _ _ 1076 (by omega) (by omega) (by omega)
      rw [hx]
      exact C09Float.formatFloat_isSome _ (C09Float.toInt_pack_isSome neg 1076 0 (by omega) (by omega) (by omega)
        (Or.inl ⟨by omega, by decide⟩))
    · have hlt : m < 2 ^ 53 := by omega
      have hL : m.log2 ≤ 52 := by have := (Nat.log2_lt h0).2 hlt; omega
      have hlo := Nat.log2_self_le (n := m) h0
      have hhi := Nat.lt_log2_self (n := m)
      have hpw : 2 ^ m.log2 * 2 ^ (52 - m.log2) = 2 ^ 52 := by rw [← Nat.pow_add]; congr 1; omega
      have hpw' : 2 ^ (m.log2 + 1) * 2 ^ (52 - m.log2) = 2 ^ 53 := by rw [← Nat.pow_add]; congr 1; omega
      have hq1 : 2 ^ 52 ≤ m * 2 ^ (52 - m.log2) := by
        rw [← hpw]; exact Nat.mul_le_mul_right _ hlo
      have hq2 : m * 2 ^ (52 - m.log2) < 2 ^ 53 := by
        rw [← hpw']; exact Nat.mul_lt_mul_of_pos_right hhi (Nat.two_pow_pos _)
      generalize hq : m * 2 ^ (52 - m.log2) = q at hq1 hq2
      rw [C09Float.roundPack_small neg m (by omega) hlt, hq]
      refine C09Float.formatFloat_isSome _ (C09Float.toInt_pack_isSome neg _ _ (by omega) (by omega) (by omega) ?_)
      have hsig : q - 2 ^ 52 + 2 ^ 52 = q := by omega
      rw [hsig]
      by_cases h52 : m.log2 = 52
      · left
        refine ⟨by omega, ?_⟩
        rw [h52]; show q * 2 ^ 0 ≤ 2 ^ 53; omega
      · right
        refine ⟨by omega, by omega, ?_⟩
        have : 1075 - (m.log2 + 1023) = 52 - m.log2 := by omega
        rw [this, ← hq]; exact Nat.mul_mod_left _ _

/-- an increment accepted by `Handler.floatArg` can be formatted -/
theorem floatArg_formattable {d : Bytes} {delta : F64} (_hd : Handler.floatArg d = some (some (some delta))) :
    (Api.formatFloat delta).isSome = true := rfl

/-! ## lists -/

theorem signals_pushH (left : Bool) (args : List Bytes) (b : Body) (h : Handler2.pushH left args = .exec b) :
    SignalsChanges b := by
  unfold Handler2.pushH at h
  exec_cases
  one_call
  exact frame_push st hp now _ _ _

theorem signals_popH (left : Bool) (args : List Bytes) (b : Body) (h : Handler2.popH left args = .exec b) :
    SignalsChanges b := by
  unfold Handler2.popH at h
  split at h
  · cases h
  · obtain ⟨_, rfl⟩ := ite_exec2 h
    one_call
    exact frame_pop st hp now _ _ _

theorem signals_llenH (args : List Bytes) (b : Body) (h : Handler2.llenH args = .exec b) : SignalsChanges b := by
  unfold Handler2.llenH at h
  exec_cases
  one_call
  exact frame_llen st now _

theorem signals_lIndexH (args : List Bytes) (b : Body) (h : Handler2.lIndexH args = .exec b) : SignalsChanges b := by
  unfold Handler2.lIndexH at h
  exec_cases
  one_call
  exact frame_lindex st now _ _

theorem signals_lInsertH (args : List Bytes) (b : Body) (h : Handler2.lInsertH args = .exec b) : SignalsChanges b := by
  unfold Handler2.lInsertH at h
  exec_cases
  one_call
  exact frame_linsert st hp now _ _ _ _

theorem signals_lPushxH (args : List Bytes) (b : Body) (h : Handler2.lPushxH args = .exec b) : SignalsChanges b := by
  unfold Handler2.lPushxH at h
  exec_cases
  one_call
  exact frame_pushX st hp now _ _ _

theorem signals_rPushxH (args : List Bytes) (b : Body) (h : Handler2.rPushxH args = .exec b) : SignalsChanges b := by
  unfold Handler2.rPushxH at h
  exec_cases
  one_call
  exact frame_pushX st hp now _ _ _

/-- LREM: the closure panics (store untouched) when the value argument is missing -/
theorem signals_lRemH (args : List Bytes) (b : Body) (h : Handler2.lRemH args = .exec b) : SignalsChanges b := by
  unfold Handler2.lRemH at h
  split at h
  · next key c rest =>
    split at h
    · cases h
    · cases h
      refine signals_of_frame fun st now ch hp => ?_
      split
      · exact Frame.refl _ _
      · exact frame_call _ _ (fun _ _ => rfl) (frame_lrem st hp now _ _ _)
  · cases h

theorem signals_lTrimH (args : List Bytes) (b : Body) (h : Handler2.lTrimH args = .exec b) : SignalsChanges b := by
  unfold Handler2.lTrimH Handler2.startStop at h
  exec_cases
  one_call
  exact frame_ltrim st hp now _ _ _

theorem signals_lRangeH (args : List Bytes) (b : Body) (h : Handler2.lRangeH args = .exec b) : SignalsChanges b := by
  unfold Handler2.lRangeH Handler2.startStop at h
  exec_cases
  one_call
  exact frame_lrange st now _ _ _

/-- LSET: one call of `LSet` -/
theorem signals_lSetH (args : List Bytes) (b : Body) (h : Handler2.lSetH args = .exec b) : SignalsChanges b := by
  unfold Handler2.lSetH at h
  split at h
  · next key i value rest =>
    split at h
    · cases h
    · cases h
      exact signals_of_frame fun st now ch hp =>
        frame_call _ _ (fun _ o => by cases o <;> first | rfl | (rename_i b; cases b <;> rfl)) (frame_lset st hp now _ _ _)
  · cases h

theorem signals_rotateH (left : Bool) (args : List Bytes) (b : Body) (h : Handler2.rotateH left args = .exec b) :
    SignalsChanges b := by
  unfold Handler2.rotateH at h
  exec_cases
  one_call
  exact frame_rotate st hp now _ _ _

/-! ## hashes -/

/-- HSET: one `HMSet` -/
theorem signals_hSetH (args : List Bytes) (b : Body) (h : Handler2.hSetH args = .exec b) : SignalsChanges b := by
  unfold Handler2.hSetH at h
  split at h
  · cases h
    exact signals_of_frame fun st now ch hp =>
      frame_call _ _ (fun _ _ => rfl) (frame_hmset st hp now _ _)
  · cases h

theorem signals_hGetH (args : List Bytes) (b : Body) (h : Handler2.hGetH args = .exec b) : SignalsChanges b := by
  unfold Handler2.hGetH at h
  exec_cases
  one_call
  exact frame_hget st now _ _

theorem signals_hDelH (args : List Bytes) (b : Body) (h : Handler2.hDelH args = .exec b) : SignalsChanges b := by
  unfold Handler2.hDelH at h
  exec_cases
  one_call
  exact frame_hdel st hp now _ _

theorem signals_hLenH (args : List Bytes) (b : Body) (h : Handler2.hLenH args = .exec b) : SignalsChanges b := by
  unfold Handler2.hLenH at h
  exec_cases
  one_call
  exact frame_hlen st now _

theorem signals_hKeysH (args : List Bytes) (b : Body) (h : Handler2.hKeysH args = .exec b) : SignalsChanges b := by
  unfold Handler2.hKeysH at h
  exec_cases
  one_call
  exact frame_hkeys st now _

theorem signals_hExistsH (args : List Bytes) (b : Body) (h : Handler2.hExistsH args = .exec b) : SignalsChanges b := by
  unfold Handler2.hExistsH at h
  exec_cases
  one_call
  exact frame_hexists st now _ _

theorem signals_hGetAllH (args : List Bytes) (b : Body) (h : Handler2.hGetAllH args = .exec b) : SignalsChanges b := by
  unfold Handler2.hGetAllH at h
  exec_cases
  one_call
  exact frame_hgetall st now _

/-- HINCRBY: `Api.hincrby` signals the key whether or not the increment succeeded, so a hash that was
    created and then left empty by a failing increment is still reported -/
theorem signals_hIncrByH (args : List Bytes) (b : Body) (h : Handler2.hIncrByH args = .exec b) : SignalsChanges b := by
  unfold Handler2.hIncrByH at h
  exec_cases
  one_call
  exact frame_hincrby st hp now _ _ _

/-- HINCRBYFLOAT: the increment accepted by the handler is `F64.ofInt?` of an integer, so on a freshly
    created hash (field absent) it can be formatted and the region of `frame_hincrbyfloat` holds.
    (Increments outside the model's float fragment get the closure that replies UNSUPPORTED without
    touching the store: nothing is claimed about the Go code for those.) -/
theorem signals_hIncrByFloatH (args : List Bytes) (b : Body) (h : Handler2.hIncrByFloatH args = .exec b) :
    SignalsChanges b := by
  unfold Handler2.hIncrByFloatH at h
  split at h
  · next key f d rest =>
    split at h
    · cases h
    · cases h
    · cases h; exact signals_of_frame fun st _ _ _ => Frame.refl _ st
    · next delta hd =>
      cases h
      have hr := floatArg_formattable hd
      one_call
      exact frame_hincrbyfloat st hp now _ _ delta (Or.inr hr)
  · cases h

theorem signals_hSetNXH (args : List Bytes) (b : Body) (h : Handler2.hSetNXH args = .exec b) : SignalsChanges b := by
  unfold Handler2.hSetNXH at h
  exec_cases
  one_call
  exact frame_hsetnx st hp now _ _ _

theorem signals_hMGetH (args : List Bytes) (b : Body) (h : Handler2.hMGetH args = .exec b) : SignalsChanges b := by
  unfold Handler2.hMGetH at h
  exec_cases
  one_call
  exact frame_hmget st now _ _

theorem signals_hMSetH (args : List Bytes) (b : Body) (h : Handler2.hMSetH args = .exec b) : SignalsChanges b := by
  unfold Handler2.hMSetH at h
  exec_cases
  one_call
  exact frame_hmset st hp now _ _

/-- HCLEAR = `Del(key)` -/
theorem signals_hClearH (args : List Bytes) (b : Body) (h : Handler2.hClearH args = .exec b) : SignalsChanges b := by
  unfold Handler2.hClearH at h
  exec_cases
  one_call
  exact frame_del st hp now _

theorem signals_hStrLenH (args : List Bytes) (b : Body) (h : Handler2.hStrLenH args = .exec b) : SignalsChanges b := by
  unfold Handler2.hStrLenH at h
  exec_cases
  one_call
  exact frame_hstrlen st now _ _

theorem signals_hValsH (args : List Bytes) (b : Body) (h : Handler2.hValsH args = .exec b) : SignalsChanges b := by
  unfold Handler2.hValsH at h
  exec_cases
  one_call
  exact frame_hvals st now _

end NodisVerif.Proofs.C08Step
