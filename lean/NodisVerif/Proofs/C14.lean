import NodisVerif.Model.Codec
import NodisVerif.Model.WF
namespace NodisVerif.Proofs.C14
open Varint Codec

theorem uvarint_putUvarint (n : Nat) (h : n < 2 ^ 64) (rest : Bytes) :
    uvarint (putUvarint n ++ rest) = (n, ((putUvarint n).length : Int)) := by
  sorry

theorem varint_putVarint (x : Int) (h : inInt64 x = true) (rest : Bytes) :
    varint (putVarint x ++ rest) = (x, ((putVarint x).length : Int)) := by
  sorry

theorem decodeKey_encodeKey (name : Bytes) (exp : Int) (h : inInt64 exp = true) :
    decodeKey (encodeKey name exp) = some (name, exp) := by
  sorry

theorem str_roundtrip (v : Bytes) : decodeEntry (encodeEntry (.str v)) = some (.str v) := by
  sorry

theorem list_roundtrip (l : LList) (h : l.WF) :
    decodeEntry (encodeEntry (.list l)) = some (.list l) := by
  sorry

theorem hash_roundtrip (m : AList Bytes) (h : AList.Sorted m) :
    decodeEntry (encodeEntry (.hash m)) = some (.hash m) := by
  sorry

theorem set_roundtrip (m : AList Unit) (h : AList.Sorted m) :
    decodeEntry (encodeEntry (.set m)) = some (.set m) := by
  sorry

theorem zset_roundtrip (z : ZSet) (h : z.WF) :
    decodeEntry (encodeEntry (.zset z)) = some (.zset z) := by
  sorry

end NodisVerif.Proofs.C14
