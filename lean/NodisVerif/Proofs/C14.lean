import NodisVerif.Model.Codec
import NodisVerif.Model.WF
import NodisVerif.Proofs.VarintLemmas
import NodisVerif.Proofs.CodecLemmas
import NodisVerif.Proofs.ZSetLemmas
import NodisVerif.Proofs.C14Counterexamples
/-
  C14 helper lemmas.

  STATUS
  * uvarint_putUvarint, varint_putVarint, decodeKey_encodeKey, str_roundtrip: proved.
  * the collection round trips need every length-prefixed chunk to be shorter than 2^63 bytes
    (a Go slice length is an int; `List` lengths in the model are unbounded, and a chunk of
    ≥ 2^63 bytes gets a length prefix that `binary.Uvarint` rejects as a 64-bit overflow).
    Without that guard the statements are false: refutations in `Proofs/C14Counterexamples.lean`
    (`list_roundtrip_false`, `set_roundtrip_false`, `hash_roundtrip_false`,
    `zset_roundtrip_false`), and the variants with the missing length bound are proved below
    under the names `<name>_partial`.
-/
namespace NodisVerif.Proofs.C14
open Varint Codec CodecLemmas AListLemmas

theorem uvarint_putUvarint (n : Nat) (h : n < 2 ^ 64) (rest : Bytes) :
    uvarint (putUvarint n ++ rest) = (n, ((putUvarint n).length : Int)) :=
  VarintLemmas.uvarint_putUvarint n h rest

theorem varint_putVarint (x : Int) (h : inInt64 x = true) (rest : Bytes) :
    varint (putVarint x ++ rest) = (x, ((putVarint x).length : Int)) :=
  VarintLemmas.varint_putVarint x h rest

theorem decodeKey_encodeKey (name : Bytes) (exp : Int) (h : inInt64 exp = true) :
    decodeKey (encodeKey name exp) = some (name, exp) := by
  unfold decodeKey encodeKey
  rw [VarintLemmas.varint_putVarint exp h name]
  have hp := VarintLemmas.putVarint_length_pos exp
  have : ¬ ((putVarint exp).length : Int) ≤ 0 := by omega
  simp only [this, if_false, Int.toNat_natCast, List.drop_left]

theorem str_roundtrip (v : Bytes) : decodeEntry (encodeEntry (.str v)) = some (.str v) := by
  simp [decodeEntry, encodeEntry, Val.typeCode, encodeVal]





/-! ### the same statements with the missing bound: every length-prefixed chunk is shorter
    than 2^63 bytes (its length is an int64 whose zig-zag fits a uint64) -/

theorem list_roundtrip_partial (l : LList) (h : l.WF)
    (hlen : ∀ v ∈ l.items, v.length < 2 ^ 63) :
    decodeEntry (encodeEntry (.list l)) = some (.list l) := by
  have e : decodeEntry (encodeEntry (.list l))
      = (decodeList (encodeList l) DsList.empty ((encodeList l).length + 1)).map .list := rfl
  rw [e]
  unfold encodeList
  rw [forEach_all, decodeList_flatMap l.items _ _ hlen (by omega), rpush_eq]
  unfold LList.WF at h
  cases l with
  | mk items length =>
    simp only [DsList.empty, List.nil_append, Option.map_some, Option.some.injEq, Val.list.injEq,
      LList.mk.injEq, true_and] at h ⊢
    omega

theorem set_roundtrip_partial (m : AList Unit) (h : AList.Sorted m)
    (hlen : ∀ p ∈ m, p.1.length < 2 ^ 63) :
    decodeEntry (encodeEntry (.set m)) = some (.set m) := by
  have e : decodeEntry (encodeEntry (.set m))
      = (decodeSet (encodeSet m) [] ((encodeSet m).length + 1)).map .set := rfl
  rw [e, decodeSet_all m [] _ hlen (by simpa using sorted_pairwise m h) (by omega)]
  simp

/-- exact bound: the item `varint(len field) ++ field ++ value` is shorter than 2^63 bytes -/
theorem hash_roundtrip_partial (m : AList Bytes) (h : AList.Sorted m)
    (hlen : ∀ p ∈ m, (lenPrefixed p.1 ++ p.2).length < 2 ^ 63) :
    decodeEntry (encodeEntry (.hash m)) = some (.hash m) := by
  have e : decodeEntry (encodeEntry (.hash m))
      = (decodeHash (encodeHash m) [] ((encodeHash m).length + 1)).map .hash := rfl
  have hlen' : ∀ p ∈ m, p.1.length < 2 ^ 63 ∧ (lenPrefixed p.1 ++ p.2).length < 2 ^ 63 := by
    intro p hp
    have h1 := hlen p hp
    refine ⟨?_, h1⟩
    rw [List.length_append, lenPrefixed_length] at h1
    omega
  rw [e, decodeHash_all m [] _ hlen' (by simpa using sorted_pairwise m h) (by omega)]
  simp

/-- simple sufficient bound: field and value together leave room for the 10-byte varint -/
theorem hash_roundtrip_partial' (m : AList Bytes) (h : AList.Sorted m)
    (hlen : ∀ p ∈ m, p.1.length + p.2.length + 10 < 2 ^ 63) :
    decodeEntry (encodeEntry (.hash m)) = some (.hash m) := by
  apply hash_roundtrip_partial m h
  intro p hp
  have h1 := hlen p hp
  have h2 := VarintLemmas.putVarint_length_le (p.1.length : Int) (inInt64_len _ (by omega))
  rw [List.length_append, lenPrefixed_length]
  omega

theorem zset_roundtrip_partial (z : ZSet) (h : z.WF)
    (hlen : ∀ p ∈ z.dict, p.1.length + 8 < 2 ^ 63) :
    decodeEntry (encodeEntry (.zset z)) = some (.zset z) := by
  have e : decodeEntry (encodeEntry (.zset z))
      = (decodeZSet (encodeZSet ⟨z.dict, []⟩) ⟨[], []⟩
          ((encodeZSet ⟨z.dict, []⟩).length + 1)).map .zset := rfl
  have hlen' : ∀ p ∈ z.dict, (u64le p.2 ++ p.1).length < 2 ^ 63 := by
    intro p hp
    have := hlen p hp
    rw [List.length_append, u64le_length]
    omega
  rw [e, decodeZSet_all z.dict [] [] _ hlen'
    (by simpa using sorted_pairwise z.dict h.dictSorted) (by omega),
    ZSetLemmas.insAll_eq_chain z h]
  simp

end NodisVerif.Proofs.C14
