import NodisVerif.Proofs.LinkedListRun
/-
  Unconditional part: under the invariant every method returns (no walk runs out of fuel), keeps the
  invariant, and the only panic is SetValue on bytes whose decoding panics — also for LRem with
  count = MinInt64 on lists of more than 2^63 nodes, where the sequence model is not followed.
-/
namespace NodisVerif.LinkedList

theorem slice_some_bounds {b : Bytes} {lo hi : Int} {v : Bytes} (h : Codec.slice? b lo hi = some v) :
    0 ≤ lo ∧ lo ≤ hi ∧ hi ≤ b.length := by
  unfold Codec.slice? at h
  split at h
  · assumption
  · cases h

theorem from_some_length {b : Bytes} {lo : Int} {rest : Bytes} (h : Codec.from? b lo = some rest) :
    0 ≤ lo ∧ (rest.length : Int) ≤ b.length - lo := by
  unfold Codec.from? Codec.slice? at h
  split at h
  · rename_i hb
    simp only [Option.some.injEq] at h
    subst h
    refine ⟨hb.1, ?_⟩
    simp only [List.length_take, List.length_drop]
    omega
  · cases h

/-- the decoding loop of SetValue never runs out of `len(list) + 1` units of fuel -/
theorem setValue_no_fuel (fuel : Nat) (b : Bytes) (l : PList) (c : List Nat) (hi : InvC l c)
    (hf : b.length < fuel) : setValue b l fuel ≠ .fuel := by
  induction fuel generalizing b l c with
  | zero => omega
  | succ fuel ih =>
    cases b with
    | nil => simp [setValue]
    | cons x xs =>
      unfold setValue
      generalize Varint.varint (x :: xs) = vn
      obtain ⟨vLen, n⟩ := vn
      simp only
      by_cases hn : n = 0
      · simp [hn]
      · simp only [hn, ↓reduceIte]
        cases hs : Codec.slice? (x :: xs) n (n + vLen) with
        | none => simp
        | some v =>
          cases hfr : Codec.from? (x :: xs) (n + vLen) with
          | none => simp
          | some rest =>
            simp only
            obtain ⟨l1, c1, e1, hi1, _, _⟩ := rpush_refines l c hi [v]
            simp only [e1, Res.bind_ok]
            have h1 := slice_some_bounds hs
            have h2 := from_some_length hfr
            exact ih rest l1 c1 hi1 (by omega)

theorem minInt64_neg : ¬ minInt64 > 0 ∧ minInt64 < 0 := by unfold minInt64; omega

/-- one call of any method under the invariant: it returns and the invariant holds again, or it is a
    SetValue whose bytes make the decoding loop panic (in Go: slice bounds out of range) -/
theorem step_total (l : PList) (c : List Nat) (hi : InvC l c) (op : Op) :
    (∃ l' c' r, stepP l op = .ok (l', r) ∧ InvC l' c') ∨
    (∃ b, op = .setValue b ∧ stepP l op = .panic ∧ stepD (absL l) op = none) := by
  by_cases hok : OpOk (absL l) op
  · cases hd : stepD (absL l) op with
    | some Lr =>
      obtain ⟨L', r⟩ := Lr
      obtain ⟨l', c', e, hi', _⟩ := step_refines l c hi op hok L' r hd
      exact Or.inl ⟨l', c', r, e, hi'⟩
    | none =>
      cases op with
      | setValue b =>
        right
        refine ⟨b, rfl, ?_, rfl⟩
        simp only [stepD, Option.map_eq_none_iff] at hd
        have hnf := setValue_no_fuel (b.length + 1) b l c hi (by omega)
        rcases setValue_fails _ b l c hi hd with hp | hfu
        · simp [stepP, hp, Res.bind]
        · exact absurd hfu hnf
      | _ => simp [stepD] at hd
  · cases op with
    | lrem count v =>
      simp only [OpOk, Classical.not_imp] at hok
      obtain ⟨hc, _⟩ := hok
      subst hc
      obtain ⟨l', c', e, hi', _, _⟩ := lremAll_spec l c hi v
      left
      refine ⟨l', c', .int (((abs l).length - ((abs l).filter (· ≠ v)).length : Nat) : Int), ?_, hi'⟩
      have := minInt64_neg
      simp only [stepP, lrem, this.1, ↓reduceIte, this.2, e, Res.bind]
    | _ => exact absurd trivial hok

/-- any finite sequence of method calls from a list satisfying the invariant: never out of fuel; if it
    returns, the invariant holds -/
theorem run_total (ops : List Op) (l : PList) (c : List Nat) (hi : InvC l c) :
    runP l ops ≠ .fuel ∧ ∀ l' rs, runP l ops = .ok (l', rs) → ∃ c', InvC l' c' := by
  induction ops generalizing l c with
  | nil =>
    refine ⟨by simp [runP], ?_⟩
    intro l' rs h
    simp only [runP, Res.ok.injEq, Prod.mk.injEq] at h
    exact ⟨c, h.1 ▸ hi⟩
  | cons op rest ih =>
    rcases step_total l c hi op with ⟨l1, c1, r, e, hi1⟩ | ⟨b, _, e, _⟩
    · obtain ⟨hnf, hok⟩ := ih l1 c1 hi1
      simp only [runP, e, Res.bind]
      constructor
      · cases h : runP l1 rest with
        | ok a => simp
        | panic => simp
        | fuel => exact absurd h hnf
      · intro l' rs h
        cases h2 : runP l1 rest with
        | ok a =>
          obtain ⟨l2, rs2⟩ := a
          rw [h2] at h
          simp only [Res.ok.injEq, Prod.mk.injEq] at h
          obtain ⟨c', hc'⟩ := hok l2 rs2 h2
          exact ⟨c', h.1 ▸ hc'⟩
        | panic => rw [h2] at h; cases h
        | fuel => rw [h2] at h; cases h
    · simp only [runP, e, Res.bind]
      exact ⟨by simp, by intro l' rs h; cases h⟩

end NodisVerif.LinkedList
