import NodisVerif.Proofs.C09IncrSys
/-
  C09 — the invariant of the optimistic-increment system is preserved by every move.
-/
namespace NodisVerif.Proofs.C09Incr
open NodisVerif.Proofs.C08Step NodisVerif.Proofs.AListLemmas2 Store Resp Server

variable (k : Bytes)

theorem script_get (x : Bytes) : scriptTable "GET" [x] = some (.exec (getBody x)) := rfl
theorem script_set (x v : Bytes) : scriptTable "SET" [x, v] = some (.exec (setBody x v)) := rfl

theorem update_same (ph : String → Phase) (i : String) (p : Phase) : (fun j => if j = i then p else ph j) i = p := by
  simp
theorem update_other (ph : String → Phase) (i j : String) (p : Phase) (h : j ≠ i) :
    (fun j => if j = i then p else ph j) j = ph j := by
  simp [h]

/-- idle → WATCH k -/
theorem inv_idle (v0 : Nat) (s : Sys) (h : Inv k v0 s) (i : String) (now : Int) (hp : s.ph i = .idle) :
    Inv k v0 (sysStep k s (i, now)) := by
  have hi := h.conns i
  rw [hp] at hi
  obtain ⟨hst, hq⟩ := hi
  have e : step scriptTable s.sv (cmdOf k i now .idle) = (watchLoop i [k] s.sv, [okTok]) :=
    step_watch scriptTable s.sv _ rfl (by show (s.sv.conn i).state % 2 ≠ 1; rw [hst]; decide) (by simp [cmdOf])
  simp only [sysStep, hp, e, nextPhase]
  refine ⟨h.wf.watchLoop i [k], ?_, ?_, ?_⟩
  · show (watchLoop i [k] s.sv).store.flushed = false
    rw [watchLoop_store]; exact h.nofl
  · show CounterIs k (watchLoop i [k] s.sv).store (v0 + s.wins)
    rw [watchLoop_store]; exact h.cnt
  · intro j
    by_cases hj : j = i
    · subst hj
      simp only [if_true, Bool.false_eq_true, if_false]
      refine ⟨?_, ?_, ?_⟩
      · rw [(watchLoop_state_queue _ _ _).1]; exact hst
      · rw [(watchLoop_state_queue _ _ _).2]; exact hq
      · exact (watchLoop_registered j j k [k] s.sv).mpr (Or.inr ⟨rfl, by simp⟩)
    · simp only [if_neg hj, Bool.false_eq_true, if_false]
      exact (h.conns j).transfer k (watchLoop_conn_other i j hj [k] s.sv)
        (fun r => (watchLoop_registered i j k [k] s.sv).mpr (Or.inl r))

/-- watched → GET k -/
theorem inv_watched (v0 : Nat) (s : Sys) (h : Inv k v0 s) (i : String) (now : Int) (hp : s.ph i = .watched)
    (hb : ((v0 + s.wins : Nat) : Int) ≤ int64Max) :
    Inv k v0 (sysStep k s (i, now)) := by
  have hi := h.conns i
  rw [hp] at hi
  obtain ⟨hst, hq, hreg⟩ := hi
  let c : Cmd := cmdOf k i now .watched
  have hr : runsNow (s.sv.conn c.id).state := Or.inl hst
  obtain ⟨g1, g2, g3, g4, g5⟩ := getBody_out k s.sv.store now none (v0 + s.wins) h.cnt hb
  have e0 := step_runs scriptTable s.sv c (show ¬ special "GET" by decide) (getBody k) (script_get k) hr
  have hst' : ((runBody s.sv c.now c.ch (getBody k)).1.conn c.id).state = 0 := by
    rw [(runBody_flagged s.sv c.now c.ch (getBody k)).state]; exact hst
  rw [afterHandler_noerr _ _ _ (Or.inr hst')] at e0
  have houts : stepOuts scriptTable s.sv c = [outOf s.sv.store now none (getBody k)] := by
    have hr' : runsNow (s.sv.conn i).state := Or.inl hst
    simp [stepOuts, c, cmdOf, script_get, hr']
  have hquiet : ∀ x, ¬ stepTouches scriptTable s.sv c x := by
    rintro x ⟨o, ho, hx⟩
    rw [houts] at ho
    simp only [List.mem_singleton] at ho
    subst ho
    rw [g4, g5, h.nofl] at hx
    rcases hx with hx | hx <;> cases hx
  have e : step scriptTable s.sv (cmdOf k i now .watched) =
      ((runBody s.sv now none (getBody k)).1, replyOf (outOf s.sv.store now none (getBody k))) := e0
  have hstore : (step scriptTable s.sv c).1.store = storeAfter (outOf s.sv.store now none (getBody k)) := by
    rw [e]; exact runBody_store _ _ _ _
  have hsame : (step scriptTable s.sv c).1.conn i = s.sv.conn i := by
    have f := runBody_flaggedR h.wf.sorted now none (getBody k)
    rw [e]
    refine f.same i (fun x hx => hquiet x ?_)
    rw [stepTouches_eq, houts]; exact hx.1
  have hwf' := h.wf.step scriptTable c
  simp only [sysStep, hp, nextPhase]
  refine ⟨hwf', ?_, ?_, ?_⟩
  · show (step scriptTable s.sv c).1.store.flushed = false
    rw [hstore]; rfl
  · show CounterIs k (step scriptTable s.sv c).1.store (v0 + s.wins)
    rw [hstore]; exact g3
  · intro j
    by_cases hj : j = i
    · subst hj
      simp only [if_true, Bool.false_eq_true, if_false]
      show ConnInv k (step scriptTable s.sv c).1 (v0 + s.wins) j (.read (counterOf (step scriptTable s.sv c).2))
      have : (step scriptTable s.sv c).2 = replyOf (outOf s.sv.store now none (getBody k)) := by rw [e]
      rw [this, g1]
      refine ⟨by rw [hsame]; exact hst, by rw [hsame]; exact hq, ?_, fun _ => rfl⟩
      have f := runBody_flagged s.sv now none (getBody k)
      rw [e]
      exact (registered_congr f.registry j k).mpr hreg
    · simp only [if_neg hj, Bool.false_eq_true, if_false]
      have o := others_of_quiet k h.wf c hquiet j hj
      exact (h.conns j).transfer k o.1 o.2

/-- read v → MULTI -/
theorem inv_read (v0 : Nat) (s : Sys) (h : Inv k v0 s) (i : String) (now : Int) (v : Nat) (hp : s.ph i = .read v) :
    Inv k v0 (sysStep k s (i, now)) := by
  have hi := h.conns i
  rw [hp] at hi
  obtain ⟨hst, hq, hreg, hcl⟩ := hi
  let c : Cmd := cmdOf k i now (.read v)
  have e : step scriptTable s.sv c = (s.sv.setConn i { (s.sv.conn i) with state := (s.sv.conn i).state + 1 }, [okTok]) := by
    have hn : ¬ ((s.sv.conn i).state % 2 = 1) := by rw [hst]; decide
    simp only [step, dispatch_multi scriptTable s.sv c rfl, multi_eq]
    rw [show c.id = i from rfl, if_neg hn]
    rw [afterHandler_noerr _ _ _ (Or.inl (by simp [okTok, isErr]))]
  have houts : stepOuts scriptTable s.sv c = [] := by simp [stepOuts, c, cmdOf]
  have hwf' := h.wf.step scriptTable c
  simp only [sysStep, hp, nextPhase]
  show Inv k v0 { sv := (step scriptTable s.sv c).1, ph := _, wins := _ }
  refine ⟨hwf', ?_, ?_, ?_⟩
  · show (step scriptTable s.sv c).1.store.flushed = false
    rw [e]; exact h.nofl
  · show CounterIs k (step scriptTable s.sv c).1.store (v0 + s.wins)
    rw [e]; exact h.cnt
  · intro j
    by_cases hj : j = i
    · subst hj
      simp only [if_true, Bool.false_eq_true, if_false]
      show ConnInv k (step scriptTable s.sv c).1 (v0 + s.wins) j (.inMulti v)
      rw [e]
      refine ⟨?_, ?_, hreg, ?_⟩
      · rw [conn_setConn_same]; simp [hst, multiPrepare]
      · rw [conn_setConn_same]; exact hq
      · rw [conn_setConn_same]; exact hcl
    · simp only [if_neg hj, Bool.false_eq_true, if_false]
      have o := others_of_quiet k h.wf c (quiet_of_no_outs houts) j hj
      exact (h.conns j).transfer k o.1 o.2

/-- inMulti v → SET k (v+1), queued -/
theorem inv_inMulti (v0 : Nat) (s : Sys) (h : Inv k v0 s) (i : String) (now : Int) (v : Nat) (hp : s.ph i = .inMulti v) :
    Inv k v0 (sysStep k s (i, now)) := by
  have hi := h.conns i
  rw [hp] at hi
  obtain ⟨hst, hq, hreg, hcl⟩ := hi
  let c : Cmd := cmdOf k i now (.inMulti v)
  have e : step scriptTable s.sv c =
      (s.sv.setConn i { (s.sv.conn i) with queue := (s.sv.conn i).queue ++ [setBody k (formatInt ((v + 1 : Nat) : Int))] },
       [queuedTok]) :=
    step_queued scriptTable s.sv c (show ¬ special "SET" by decide) _ (script_set k _) (by show (s.sv.conn i).state % 2 = 1; rw [hst]; rfl)
  have houts : stepOuts scriptTable s.sv c = [] := by
    have hr : ¬ runsNow (s.sv.conn i).state := by rw [hst]; decide
    simp [stepOuts, c, cmdOf, script_set, hr]
  have hwf' := h.wf.step scriptTable c
  simp only [sysStep, hp, nextPhase]
  show Inv k v0 { sv := (step scriptTable s.sv c).1, ph := _, wins := _ }
  refine ⟨hwf', ?_, ?_, ?_⟩
  · show (step scriptTable s.sv c).1.store.flushed = false
    rw [e]; exact h.nofl
  · show CounterIs k (step scriptTable s.sv c).1.store (v0 + s.wins)
    rw [e]; exact h.cnt
  · intro j
    by_cases hj : j = i
    · subst hj
      simp only [if_true, Bool.false_eq_true, if_false]
      show ConnInv k (step scriptTable s.sv c).1 (v0 + s.wins) j (.queued v)
      rw [e]
      refine ⟨?_, ?_, hreg, ?_⟩
      · rw [conn_setConn_same]; exact hst
      · rw [conn_setConn_same]; simp [hq]
      · rw [conn_setConn_same]; exact hcl
    · simp only [if_neg hj, Bool.false_eq_true, if_false]
      have o := others_of_quiet k h.wf c (quiet_of_no_outs houts) j hj
      exact (h.conns j).transfer k o.1 o.2

end NodisVerif.Proofs.C09Incr
