/-
  Linearizability of operations whose bodies run under a readers/writer lock — generic development.

  An abstract object is a sequential specification `apply : State → Op → State × Ret` with a set of
  read-only operations. A concurrent execution is a list of events over operation ids

      inv i o   operation i is invoked with operation o
      acq i     i takes the lock (exclusive if `¬ readOnly o`, shared otherwise)
      eff i     the body of i runs: shared state σ ↦ (apply σ o).1, the result (apply σ o).2 is kept
      rel i     i releases the lock
      res i r   i replies r

  Well-formedness is the acceptance by a small executable transition system (`step`, `run`):
  per operation the events come in the order  inv (acq rel)* acq eff rel (acq rel)* res  (an operation
  may take and give back the lock several times — a retry loop — but its body runs exactly once, under
  the lock; the plain order inv acq eff rel res is the special case); `acq` of a writer needs the lock
  free, `acq` of a reader needs it free of writers; `res i r` returns the result computed at `eff i`.

  Main theorem `locked_bodies_linearizable`: the history (inv / res events) of a well-formed execution
  is linearizable, the order of the `eff` events being the linearization.
  Core-only, first-order: lists, `Nat` ids.
-/
namespace NodisVerif.Lin

/-- a sequential specification -/
structure Obj (State Op Ret : Type) where
  apply : State → Op → State × Ret
  readOnly : Op → Bool
  ro : ∀ s o, readOnly o = true → (apply s o).1 = s

inductive Ev (Op Ret : Type)
  | inv (i : Nat) (o : Op)
  | acq (i : Nat)
  | eff (i : Nat)
  | rel (i : Nat)
  | res (i : Nat) (r : Ret)
deriving DecidableEq, Repr

/-- what is known of one operation -/
structure OpSt (Op Ret : Type) where
  op : Op
  locked : Bool := false
  result : Option Ret := none      -- set by `eff`
  replied : Bool := false

/-- a sequential history: (id, operation, result) in execution order -/
abbrev SeqHist (Op Ret : Type) := List (Nat × Op × Ret)

structure Cfg (State Op Ret : Type) where
  σ : State
  ops : Nat → Option (OpSt Op Ret) := fun _ => none
  /-- who holds the lock now, with `true` = exclusively -/
  holders : List (Nat × Bool) := []
  /-- ghost: the operations in the order of their `eff` events -/
  lin : SeqHist Op Ret := []

def upd {α : Type} (f : Nat → Option α) (i : Nat) (a : α) : Nat → Option α :=
  fun j => if j = i then some a else f j

/-- may the lock be taken (exclusively if `x`) while `holders` have it? -/
def lockFree (holders : List (Nat × Bool)) (x : Bool) : Bool :=
  if x then holders.isEmpty else holders.all (fun p => !p.2)

section
variable {State Op Ret : Type} [DecidableEq Ret]

/-- one event; `chk = false` switches the lock discipline off (used to state what it buys) -/
def step (O : Obj State Op Ret) (chk : Bool) (c : Cfg State Op Ret) : Ev Op Ret → Option (Cfg State Op Ret)
  | .inv i o =>
    match c.ops i with
    | some _ => none
    | none => some { c with ops := upd c.ops i { op := o } }
  | .acq i =>
    match c.ops i with
    | none => none
    | some st =>
      if st.locked || st.replied then none else
      if chk && !lockFree c.holders (!O.readOnly st.op) then none else
      some { c with ops := upd c.ops i { st with locked := true },
                    holders := (i, !O.readOnly st.op) :: c.holders }
  | .eff i =>
    match c.ops i with
    | none => none
    | some st =>
      if !st.locked || st.result.isSome then none else
      some { c with σ := (O.apply c.σ st.op).1,
                    ops := upd c.ops i { st with result := some (O.apply c.σ st.op).2 },
                    lin := c.lin ++ [(i, st.op, (O.apply c.σ st.op).2)] }
  | .rel i =>
    match c.ops i with
    | none => none
    | some st =>
      if !st.locked then none else
      some { c with ops := upd c.ops i { st with locked := false },
                    holders := c.holders.filter (fun p => p.1 != i) }
  | .res i r =>
    match c.ops i with
    | none => none
    | some st =>
      if st.locked || st.replied then none else
      if st.result = some r then some { c with ops := upd c.ops i { st with replied := true } } else none

def run (O : Obj State Op Ret) (chk : Bool) (c : Cfg State Op Ret) : List (Ev Op Ret) → Option (Cfg State Op Ret)
  | [] => some c
  | e :: es => (step O chk c e).bind fun c' => run O chk c' es

/-- the execution is well-formed from the initial state `σ0` -/
def WF (O : Obj State Op Ret) (σ0 : State) (es : List (Ev Op Ret)) : Prop :=
  (run O true { σ := σ0 } es).isSome = true

instance (O : Obj State Op Ret) (σ0 : State) (es : List (Ev Op Ret)) : Decidable (WF O σ0 es) := by
  unfold WF; infer_instance

end

/-! ## histories and linearizability -/

section
variable {State Op Ret : Type}

def Ev.isHist : Ev Op Ret → Bool
  | .inv _ _ | .res _ _ => true
  | _ => false

/-- the history of an execution: its invocations and replies -/
def hist (es : List (Ev Op Ret)) : List (Ev Op Ret) := es.filter Ev.isHist

/-- the ids in the order of their `eff` events -/
def effOrder (es : List (Ev Op Ret)) : List Nat :=
  es.filterMap fun e => match e with | .eff i => some i | _ => none

/-- real-time precedence: the reply of `i` comes before the invocation of `j` -/
def Prec (h : List (Ev Op Ret)) (i j : Nat) : Prop := ∃ r o, [Ev.res i r, Ev.inv j o].Sublist h

/-- `i` comes before `j` in `l` -/
def Before (l : List Nat) (i j : Nat) : Prop := [i, j].Sublist l

/-- `lin` is a legal sequential execution from `s`: every result is the one `apply` computes -/
def Legal (O : Obj State Op Ret) : State → SeqHist Op Ret → Prop
  | _, [] => True
  | s, x :: l => (O.apply s x.2.1).2 = x.2.2 ∧ Legal O (O.apply s x.2.1).1 l

/-- the state after a sequential history -/
def final (O : Obj State Op Ret) : State → SeqHist Op Ret → State
  | s, [] => s
  | s, x :: l => final O (O.apply s x.2.1).1 l

def ids (lin : SeqHist Op Ret) : List Nat := lin.map (·.1)

/-- `lin` is a linearization of the history `h` from the initial state `s0` -/
structure IsLin (O : Obj State Op Ret) (s0 : State) (h : List (Ev Op Ret)) (lin : SeqHist Op Ret) : Prop where
  /-- a total order: every operation at most once -/
  nodup : (ids lin).Nodup
  /-- only operations that were invoked, with the operation they were invoked with -/
  invoked : ∀ x ∈ lin, Ev.inv x.1 x.2.1 ∈ h
  /-- every completed operation is there, with the result it returned (pending ones may be there) -/
  complete : ∀ i r, Ev.res i r ∈ h → ∃ o, (i, o, r) ∈ lin
  /-- real-time precedence is respected -/
  realtime : ∀ i j, Prec h i j → j ∈ ids lin → Before (ids lin) i j
  /-- it is a legal sequential execution of `apply` producing exactly the recorded results -/
  legal : Legal O s0 lin

def Linearizable (O : Obj State Op Ret) (s0 : State) (h : List (Ev Op Ret)) : Prop :=
  ∃ lin, IsLin O s0 h lin

end

end NodisVerif.Lin

/-! ## proofs -/

namespace NodisVerif.Lin

theorem pair_sublist_snoc {α : Type} {a b e : α} {l : List α} (h : [a, b].Sublist (l ++ [e])) :
    [a, b].Sublist l ∨ (a ∈ l ∧ b = e) := by
  rw [List.sublist_append_iff] at h
  obtain ⟨l1, l2, e12, h1, h2⟩ := h
  match l2, h2, e12 with
  | [], _, e12 => simp at e12; subst e12; exact Or.inl h1
  | [x], h2, e12 =>
    have : x = e := by simpa using h2
    subst this
    match l1, e12, h1 with
    | [a'], e12, h1 => simp at e12; obtain ⟨rfl, rfl⟩ := e12; exact Or.inr ⟨by simpa using h1, rfl⟩
    | [], e12, _ => simp at e12
    | _ :: _ :: _, e12, _ => simp at e12
  | x :: y :: l2', h2, _ => have := h2.length_le; simp at this

theorem pair_sublist_mem {α : Type} {a b : α} {l : List α} (h : [a, b].Sublist l) : a ∈ l ∧ b ∈ l :=
  ⟨h.subset (by simp), h.subset (by simp)⟩

theorem upd_same {α : Type} (f : Nat → Option α) (i : Nat) (a : α) : upd f i a i = some a := by simp [upd]
theorem upd_ne {α : Type} (f : Nat → Option α) {i j : Nat} (a : α) (h : j ≠ i) : upd f i a j = f j := by
  simp [upd, h]

section
variable {State Op Ret : Type}

theorem prec_snoc {es : List (Ev Op Ret)} {e : Ev Op Ret} {i j : Nat} (h : Prec (es ++ [e]) i j) :
    Prec es i j ∨ ((∃ r, Ev.res i r ∈ es) ∧ ∃ o, e = Ev.inv j o) := by
  obtain ⟨r, o, h⟩ := h
  rcases pair_sublist_snoc h with h | ⟨h1, h2⟩
  · exact Or.inl ⟨r, o, h⟩
  · exact Or.inr ⟨⟨r, h1⟩, o, h2.symm⟩

theorem prec_res_mem {es : List (Ev Op Ret)} {i j : Nat} (h : Prec es i j) : ∃ r, Ev.res i r ∈ es := by
  obtain ⟨r, o, h⟩ := h
  exact ⟨r, (pair_sublist_mem h).1⟩

theorem prec_of_hist {es : List (Ev Op Ret)} {i j : Nat} (h : Prec (hist es) i j) : Prec es i j := by
  obtain ⟨r, o, h⟩ := h
  exact ⟨r, o, h.trans List.filter_sublist⟩

theorem before_snoc_left {l : List Nat} {i j : Nat} (x : Nat) (h : Before l i j) : Before (l ++ [x]) i j :=
  List.sublist_append_of_sublist_left h

theorem before_snoc_new {l : List Nat} {i j : Nat} (h : i ∈ l) : Before (l ++ [j]) i j := by
  have h1 : [i].Sublist l := List.singleton_sublist.2 h
  exact h1.append (List.Sublist.refl [j])

variable {O : Obj State Op Ret}

theorem legal_snoc (s : State) (l : SeqHist Op Ret) (x : Nat × Op × Ret) :
    Legal O s (l ++ [x]) ↔ Legal O s l ∧ (O.apply (final O s l) x.2.1).2 = x.2.2 := by
  induction l generalizing s with
  | nil => simp [Legal, final]
  | cons y l ih => simp only [List.cons_append, Legal, final, ih, and_assoc]

theorem final_snoc (s : State) (l : SeqHist Op Ret) (x : Nat × Op × Ret) :
    final O s (l ++ [x]) = (O.apply (final O s l) x.2.1).1 := by
  induction l generalizing s with
  | nil => simp [final]
  | cons y l ih => simp only [List.cons_append, final, ih]

theorem ids_snoc (l : SeqHist Op Ret) (x : Nat × Op × Ret) : ids (l ++ [x]) = ids l ++ [x.1] := by
  simp [ids]

theorem mem_ids {l : SeqHist Op Ret} {i : Nat} : i ∈ ids l ↔ ∃ o r, (i, o, r) ∈ l := by
  simp [ids]

theorem effOrder_snoc (es : List (Ev Op Ret)) (e : Ev Op Ret) :
    effOrder (es ++ [e]) = effOrder es ++ (match e with | .eff i => [i] | _ => []) := by
  unfold effOrder
  rw [List.filterMap_append]
  cases e <;> simp

/-- what every execution (lock discipline on or off) keeps true: `es` is the execution so far -/
structure Inv (O : Obj State Op Ret) (σ0 : State) (es : List (Ev Op Ret)) (c : Cfg State Op Ret) : Prop where
  legal : Legal O σ0 c.lin
  fin : final O σ0 c.lin = c.σ
  nodup : (ids c.lin).Nodup
  linOps : ∀ i o r, (i, o, r) ∈ c.lin ↔ ∃ st, c.ops i = some st ∧ st.op = o ∧ st.result = some r
  opsInv : ∀ i st, c.ops i = some st → Ev.inv i st.op ∈ es
  invOps : ∀ i o, Ev.inv i o ∈ es → ∃ st, c.ops i = some st ∧ st.op = o
  resOps : ∀ i r, Ev.res i r ∈ es → ∃ st, c.ops i = some st ∧ st.result = some r ∧ st.replied = true
  rt : ∀ i j, Prec es i j → j ∈ ids c.lin → Before (ids c.lin) i j
  order : ids c.lin = effOrder es

theorem Inv.init (σ0 : State) : Inv O σ0 [] { σ := σ0 } where
  legal := trivial
  fin := rfl
  nodup := by simp [ids]
  linOps := by intro i o r; simp
  opsInv := by intro i st h; cases h
  invOps := by intro i o h; cases h
  resOps := by intro i r h; cases h
  rt := by intro i j h; obtain ⟨r, h⟩ := prec_res_mem h; cases h
  order := rfl

/-- an event that leaves σ and the log alone and only touches the flags of operation `i` -/
theorem Inv.frame {σ0 : State} {es : List (Ev Op Ret)} {c c' : Cfg State Op Ret} {e : Ev Op Ret}
    (hi : Inv O σ0 es c) {i : Nat} {st st' : OpSt Op Ret} (hst : c.ops i = some st)
    (hop : st'.op = st.op) (hres : st'.result = st.result) (hrep : st.replied = true → st'.replied = true)
    (hσ : c'.σ = c.σ) (hlin : c'.lin = c.lin) (hops : c'.ops = upd c.ops i st')
    (he1 : ∀ j o, e ≠ .inv j o) (he2 : ∀ j, e ≠ .eff j)
    (he3 : ∀ j r, e = .res j r → j = i ∧ st.result = some r ∧ st'.replied = true) : Inv O σ0 (es ++ [e]) c' where
  legal := by rw [hlin]; exact hi.legal
  fin := by rw [hlin, hσ]; exact hi.fin
  nodup := by rw [hlin]; exact hi.nodup
  linOps := by
    intro j o r
    rw [hlin, hi.linOps, hops]
    by_cases hj : j = i
    · subst hj; rw [upd_same, hst]
      constructor
      · rintro ⟨s1, h1, h2, h3⟩; cases h1; exact ⟨st', rfl, hop.trans h2, hres.trans h3⟩
      · rintro ⟨s1, h1, h2, h3⟩; cases h1; exact ⟨st, rfl, hop.symm.trans h2, hres.symm.trans h3⟩
    · rw [upd_ne _ _ hj]
  opsInv := by
    intro j sj h
    rw [hops] at h
    refine List.mem_append_left _ ?_
    by_cases hj : j = i
    · subst hj; rw [upd_same] at h; cases h; rw [hop]; exact hi.opsInv j st hst
    · rw [upd_ne _ _ hj] at h; exact hi.opsInv j sj h
  invOps := by
    intro j o h
    rcases List.mem_append.1 h with h | h
    · obtain ⟨sj, h1, h2⟩ := hi.invOps j o h
      rw [hops]
      by_cases hj : j = i
      · subst hj; rw [hst] at h1; cases h1; exact ⟨st', upd_same _ _ _, hop.trans h2⟩
      · exact ⟨sj, by rw [upd_ne _ _ hj]; exact h1, h2⟩
    · simp at h; exact absurd h.symm (he1 j o)
  resOps := by
    intro j r h
    rw [hops]
    rcases List.mem_append.1 h with h | h
    · obtain ⟨sj, h1, h2, h3⟩ := hi.resOps j r h
      by_cases hj : j = i
      · subst hj; rw [hst] at h1; cases h1; exact ⟨st', upd_same _ _ _, hres.trans h2, hrep h3⟩
      · exact ⟨sj, by rw [upd_ne _ _ hj]; exact h1, h2, h3⟩
    · simp at h
      obtain ⟨rfl, h2, h3⟩ := he3 j r h.symm
      exact ⟨st', upd_same _ _ _, hres.trans h2, h3⟩
  rt := by
    intro a b h hb
    rw [hlin] at hb ⊢
    rcases prec_snoc h with h | ⟨_, o, h⟩
    · exact hi.rt a b h hb
    · exact absurd h (he1 b o)
  order := by
    rw [hlin, hi.order, effOrder_snoc]
    cases e with
    | eff j => exact absurd rfl (he2 j)
    | _ => simp

end
end NodisVerif.Lin

namespace NodisVerif.Lin
section
variable {State Op Ret : Type} [DecidableEq Ret] {O : Obj State Op Ret}

theorem Inv.step {σ0 : State} {es : List (Ev Op Ret)} {c c' : Cfg State Op Ret} {e : Ev Op Ret} {chk : Bool}
    (hi : Inv O σ0 es c) (hs : step O chk c e = some c') : Inv O σ0 (es ++ [e]) c' := by
  cases e with
  | inv i o =>
    simp only [Lin.step] at hs
    split at hs
    · cases hs
    · rename_i hnone
      cases hs
      have hfresh : i ∉ ids c.lin := by
        intro h
        obtain ⟨o', r', h⟩ := mem_ids.1 h
        obtain ⟨st, h1, _⟩ := (hi.linOps i o' r').1 h
        rw [hnone] at h1; cases h1
      exact {
        legal := hi.legal
        fin := hi.fin
        nodup := hi.nodup
        linOps := by
          intro j o' r
          show (j, o', r) ∈ c.lin ↔ ∃ st, upd c.ops i { op := o } j = some st ∧ st.op = o' ∧ st.result = some r
          by_cases hj : j = i
          · subst hj; rw [upd_same]
            constructor
            · intro h; exact absurd (mem_ids.2 ⟨o', r, h⟩) hfresh
            · rintro ⟨st, h1, _, h3⟩; cases h1; cases h3
          · rw [upd_ne _ _ hj]; exact hi.linOps j o' r
        opsInv := by
          intro j sj h
          change upd c.ops i { op := o } j = some sj at h
          by_cases hj : j = i
          · subst hj; rw [upd_same] at h; cases h; simp
          · rw [upd_ne _ _ hj] at h; exact List.mem_append_left _ (hi.opsInv j sj h)
        invOps := by
          intro j o' h
          show ∃ st, upd c.ops i { op := o } j = some st ∧ st.op = o'
          by_cases hj : j = i
          · subst hj
            rcases List.mem_append.1 h with h | h
            · obtain ⟨sj, h1, _⟩ := hi.invOps j o' h; rw [hnone] at h1; cases h1
            · simp at h; exact ⟨_, upd_same _ _ _, h.symm⟩
          · rcases List.mem_append.1 h with h | h
            · rw [upd_ne _ _ hj]; exact hi.invOps j o' h
            · simp at h; exact absurd h.1 hj
        resOps := by
          intro j r h
          show ∃ st, upd c.ops i { op := o } j = some st ∧ _
          rcases List.mem_append.1 h with h | h
          · obtain ⟨sj, h1, h2⟩ := hi.resOps j r h
            have hj : j ≠ i := by intro e; subst e; rw [hnone] at h1; cases h1
            exact ⟨sj, by rw [upd_ne _ _ hj]; exact h1, h2⟩
          · simp at h
        rt := by
          intro a b h hb
          rcases prec_snoc h with h | ⟨_, o', h⟩
          · exact hi.rt a b h hb
          · cases h; exact absurd hb hfresh
        order := by
          show ids c.lin = _
          rw [hi.order, effOrder_snoc]; simp }
  | acq i =>
    simp only [Lin.step] at hs
    split at hs
    · cases hs
    · rename_i st hst
      split at hs
      · cases hs
      · split at hs
        · cases hs
        · cases hs
          exact hi.frame (st' := { st with locked := true }) hst rfl rfl (fun h => h) rfl rfl rfl
            nofun nofun nofun
  | rel i =>
    simp only [Lin.step] at hs
    split at hs
    · cases hs
    · rename_i st hst
      split at hs
      · cases hs
      · cases hs
        exact hi.frame (st' := { st with locked := false }) hst rfl rfl (fun h => h) rfl rfl rfl
          nofun nofun nofun
  | res i r =>
    simp only [Lin.step] at hs
    split at hs
    · cases hs
    · rename_i st hst
      split at hs
      · cases hs
      · split at hs
        · rename_i hr
          cases hs
          refine hi.frame (st' := { st with replied := true }) hst rfl rfl (fun _ => rfl) rfl rfl rfl
            nofun nofun ?_
          intro j r' h; cases h; exact ⟨rfl, hr, rfl⟩
        · cases hs
  | eff i =>
    simp only [Lin.step] at hs
    split at hs
    · cases hs
    · rename_i st hst
      split at hs
      · cases hs
      · rename_i hg
        cases hs
        have hnone : st.result = none := by
          cases h : st.result with
          | none => rfl
          | some x => simp [h] at hg
        have hfresh : i ∉ ids c.lin := by
          intro h
          obtain ⟨o', r', h⟩ := mem_ids.1 h
          obtain ⟨s1, h1, _, h3⟩ := (hi.linOps i o' r').1 h
          rw [hst] at h1; cases h1; rw [hnone] at h3; cases h3
        exact {
          legal := (legal_snoc _ _ _).2 ⟨hi.legal, by rw [hi.fin]⟩
          fin := by
            show final O σ0 (c.lin ++ [_]) = _
            rw [final_snoc, hi.fin]
          nodup := by
            show (ids (c.lin ++ [_])).Nodup
            rw [ids_snoc, List.nodup_append]
            refine ⟨hi.nodup, by simp, ?_⟩
            intro a ha b hb e
            simp at hb; subst hb; subst e; exact hfresh ha
          linOps := by
            intro j o' r
            show (j, o', r) ∈ c.lin ++ [_] ↔ ∃ s1, upd c.ops i _ j = some s1 ∧ _
            rw [List.mem_append]
            by_cases hj : j = i
            · subst hj; rw [upd_same]
              constructor
              · rintro (h | h)
                · exact absurd (mem_ids.2 ⟨o', r, h⟩) hfresh
                · simp at h; exact ⟨_, rfl, h.1.symm, by rw [h.2]⟩
              · rintro ⟨s1, h1, h2, h3⟩
                cases h1
                simp only [Option.some.injEq] at h3
                right; simp [← h2, ← h3]
            · rw [upd_ne _ _ hj, ← hi.linOps]
              constructor
              · rintro (h | h)
                · exact h
                · simp at h; exact absurd h.1 hj
              · intro h; exact Or.inl h
          opsInv := by
            intro j sj h
            change upd c.ops i _ j = some sj at h
            refine List.mem_append_left _ ?_
            by_cases hj : j = i
            · subst hj; rw [upd_same] at h; cases h; exact hi.opsInv j st hst
            · rw [upd_ne _ _ hj] at h; exact hi.opsInv j sj h
          invOps := by
            intro j o' h
            show ∃ s1, upd c.ops i _ j = some s1 ∧ _
            rcases List.mem_append.1 h with h | h
            · obtain ⟨sj, h1, h2⟩ := hi.invOps j o' h
              by_cases hj : j = i
              · subst hj; rw [hst] at h1; cases h1; exact ⟨_, upd_same _ _ _, h2⟩
              · exact ⟨sj, by rw [upd_ne _ _ hj]; exact h1, h2⟩
            · simp at h
          resOps := by
            intro j r h
            show ∃ s1, upd c.ops i _ j = some s1 ∧ _
            rcases List.mem_append.1 h with h | h
            · obtain ⟨sj, h1, h2, h3⟩ := hi.resOps j r h
              have hj : j ≠ i := by
                intro e; subst e; rw [hst] at h1; cases h1; rw [hnone] at h2; cases h2
              exact ⟨sj, by rw [upd_ne _ _ hj]; exact h1, h2, h3⟩
            · simp at h
          rt := by
            intro a b h hb
            change b ∈ ids (c.lin ++ [_]) at hb
            show Before (ids (c.lin ++ [_])) a b
            rw [ids_snoc] at hb ⊢
            have hp : Prec es a b := by
              rcases prec_snoc h with h | ⟨_, o', h⟩
              · exact h
              · cases h
            rcases List.mem_append.1 hb with hb | hb
            · exact before_snoc_left _ (hi.rt a b hp hb)
            · simp at hb; subst hb
              obtain ⟨r, hr⟩ := prec_res_mem hp
              obtain ⟨sa, h1, h2, _⟩ := hi.resOps a r hr
              exact before_snoc_new (mem_ids.2 ⟨sa.op, r, (hi.linOps a sa.op r).2 ⟨sa, h1, rfl, h2⟩⟩)
          order := by
            show ids (c.lin ++ [_]) = _
            rw [ids_snoc, hi.order, effOrder_snoc] }

theorem Inv.run {σ0 : State} {pre es : List (Ev Op Ret)} {c c' : Cfg State Op Ret} {chk : Bool}
    (hi : Inv O σ0 pre c) (hs : run O chk c es = some c') : Inv O σ0 (pre ++ es) c' := by
  induction es generalizing pre c with
  | nil => simp [Lin.run] at hs; subst hs; simpa using hi
  | cons e es ih =>
    simp only [Lin.run] at hs
    cases h1 : Lin.step O chk c e with
    | none => simp [h1] at hs
    | some c1 =>
      rw [h1] at hs
      have := ih (hi.step h1) hs
      simpa using this

end
end NodisVerif.Lin

namespace NodisVerif.Lin
section
variable {State Op Ret : Type} [DecidableEq Ret] {O : Obj State Op Ret}

theorem run_append (chk : Bool) (c : Cfg State Op Ret) (a b : List (Ev Op Ret)) :
    run O chk c (a ++ b) = (run O chk c a).bind fun c' => run O chk c' b := by
  induction a generalizing c with
  | nil => simp [Lin.run]
  | cons e a ih =>
    simp only [List.cons_append, Lin.run]
    cases Lin.step O chk c e with
    | none => rfl
    | some c1 => simpa using ih c1

/-- induction over an execution, last event last -/
theorem run_induct {chk : Bool} {c0 : Cfg State Op Ret} {P : List (Ev Op Ret) → Cfg State Op Ret → Prop}
    (h0 : P [] c0)
    (hstep : ∀ es c e c', run O chk c0 es = some c → P es c → step O chk c e = some c' → P (es ++ [e]) c') :
    ∀ es c, run O chk c0 es = some c → P es c := by
  suffices ∀ (n : Nat) (es : List (Ev Op Ret)) (c : Cfg State Op Ret), es.length = n →
      run O chk c0 es = some c → P es c from fun es c h => this _ es c rfl h
  intro n
  induction n with
  | zero =>
    intro es c hl h
    have : es = [] := List.length_eq_zero_iff.1 hl
    subst this
    simp [Lin.run] at h; subst h; exact h0
  | succ n ih =>
    intro es c hl h
    have hne : es ≠ [] := by intro e; subst e; simp at hl
    obtain ⟨e, a, rfl⟩ : ∃ e a, es = a ++ [e] :=
      ⟨es.getLast hne, es.dropLast, (List.dropLast_concat_getLast hne).symm⟩
    rw [run_append] at h
    cases h1 : run O chk c0 a with
    | none => simp [h1] at h
    | some c1 =>
      rw [h1] at h
      simp only [Option.bind_some, Lin.run] at h
      cases h2 : Lin.step O chk c1 e with
      | none => simp [h2] at h
      | some c2 =>
        simp [h2] at h; subst h
        exact hstep a c1 e c2 h1 (ih a c1 (by simp at hl; omega) h1) h2

theorem run_inv {σ0 : State} {es : List (Ev Op Ret)} {c : Cfg State Op Ret} {chk : Bool}
    (h : run O chk { σ := σ0 } es = some c) : Inv O σ0 es c := by
  simpa using (Inv.init (O := O) σ0).run h

omit [DecidableEq Ret] in
/-- from the invariant to the definition of a linearization -/
theorem Inv.isLin {σ0 : State} {es : List (Ev Op Ret)} {c : Cfg State Op Ret} (hi : Inv O σ0 es c) :
    IsLin O σ0 (hist es) c.lin where
  nodup := hi.nodup
  invoked := by
    intro x hx
    obtain ⟨st, h1, h2, _⟩ := (hi.linOps x.1 x.2.1 x.2.2).1 hx
    have := hi.opsInv x.1 st h1
    rw [h2] at this
    exact List.mem_filter.2 ⟨this, rfl⟩
  complete := by
    intro i r h
    obtain ⟨st, h1, h2, _⟩ := hi.resOps i r (List.mem_filter.1 h).1
    exact ⟨st.op, (hi.linOps i st.op r).2 ⟨st, h1, rfl, h2⟩⟩
  realtime := fun i j h hj => hi.rt i j (prec_of_hist h) hj
  legal := hi.legal

/-- the linearization point of a completed operation, its `eff`, lies between its invocation and
    its reply; and every `eff` comes after the invocation -/
theorem order_inv {σ0 : State} {chk : Bool} : ∀ (es : List (Ev Op Ret)) (c : Cfg State Op Ret),
    run O chk { σ := σ0 } es = some c →
      (∀ i st, c.ops i = some st → st.result.isSome = true → [Ev.inv i st.op, Ev.eff i].Sublist es) ∧
      (∀ i r, Ev.res i r ∈ es → ∃ o, [Ev.inv i o, Ev.eff i, Ev.res i r].Sublist es) := by
  refine run_induct (P := fun es c =>
      (∀ i st, c.ops i = some st → st.result.isSome = true → [Ev.inv i st.op, Ev.eff i].Sublist es) ∧
      (∀ i r, Ev.res i r ∈ es → ∃ o, [Ev.inv i o, Ev.eff i, Ev.res i r].Sublist es))
    ⟨(by intro i st h; cases h), (by intro i r h; cases h)⟩ ?_
  intro es c e c' hr ⟨ih1, ih2⟩ hs
  have hi := run_inv hr
  have keep2 : (∀ i r, e ≠ .res i r) → ∀ i r, Ev.res i r ∈ es ++ [e] →
      ∃ o, [Ev.inv i o, Ev.eff i, Ev.res i r].Sublist (es ++ [e]) := by
    intro hne i r h
    rcases List.mem_append.1 h with h | h
    · obtain ⟨o, h⟩ := ih2 i r h; exact ⟨o, List.sublist_append_of_sublist_left h⟩
    · simp at h; exact absurd h.symm (hne i r)
  have keep1 : ∀ (i : Nat) (st' : OpSt Op Ret), (∀ j st, j ≠ i → c'.ops j = some st → c.ops j = some st) →
      (∀ st, c'.ops i = some st → st.result.isSome = true →
        [Ev.inv i st.op, Ev.eff i].Sublist (es ++ [e])) →
      ∀ j st, c'.ops j = some st → st.result.isSome = true → [Ev.inv j st.op, Ev.eff j].Sublist (es ++ [e]) := by
    intro i _ hoth hme j st h1 h2
    by_cases hj : j = i
    · subst hj; exact hme st h1 h2
    · exact List.sublist_append_of_sublist_left (ih1 j st (hoth j st hj h1) h2)
  cases e with
  | inv i o =>
    simp only [Lin.step] at hs
    split at hs
    · cases hs
    · cases hs
      refine ⟨keep1 i { op := o } ?_ ?_, keep2 nofun⟩
      · intro j st hj h; change upd c.ops i _ j = some st at h; rwa [upd_ne _ _ hj] at h
      · intro st h; change upd c.ops i _ i = some st at h; rw [upd_same] at h; cases h; simp
  | acq i =>
    simp only [Lin.step] at hs
    split at hs
    · cases hs
    · rename_i st0 hst
      split at hs
      · cases hs
      · split at hs
        · cases hs
        · cases hs
          refine ⟨keep1 i st0 ?_ ?_, keep2 nofun⟩
          · intro j st hj h; change upd c.ops i _ j = some st at h; rwa [upd_ne _ _ hj] at h
          · intro st h hr'; change upd c.ops i _ i = some st at h; rw [upd_same] at h; cases h
            exact List.sublist_append_of_sublist_left (ih1 i st0 hst hr')
  | rel i =>
    simp only [Lin.step] at hs
    split at hs
    · cases hs
    · rename_i st0 hst
      split at hs
      · cases hs
      · cases hs
        refine ⟨keep1 i st0 ?_ ?_, keep2 nofun⟩
        · intro j st hj h; change upd c.ops i _ j = some st at h; rwa [upd_ne _ _ hj] at h
        · intro st h hr'; change upd c.ops i _ i = some st at h; rw [upd_same] at h; cases h
          exact List.sublist_append_of_sublist_left (ih1 i st0 hst hr')
  | eff i =>
    simp only [Lin.step] at hs
    split at hs
    · cases hs
    · rename_i st0 hst
      split at hs
      · cases hs
      · cases hs
        refine ⟨keep1 i st0 ?_ ?_, keep2 nofun⟩
        · intro j st hj h; change upd c.ops i _ j = some st at h; rwa [upd_ne _ _ hj] at h
        · intro st h _; change upd c.ops i _ i = some st at h; rw [upd_same] at h; cases h
          have h1 : [Ev.inv i st0.op].Sublist es := List.singleton_sublist.2 (hi.opsInv i st0 hst)
          exact h1.append (List.Sublist.refl [Ev.eff i])
  | res i r =>
    simp only [Lin.step] at hs
    split at hs
    · cases hs
    · rename_i st0 hst
      split at hs
      · cases hs
      · split at hs
        · rename_i hr'
          cases hs
          refine ⟨keep1 i st0 ?_ ?_, ?_⟩
          · intro j st hj h; change upd c.ops i _ j = some st at h; rwa [upd_ne _ _ hj] at h
          · intro st h hr''; change upd c.ops i _ i = some st at h; rw [upd_same] at h; cases h
            exact List.sublist_append_of_sublist_left (ih1 i st0 hst hr'')
          · intro j r' h
            rcases List.mem_append.1 h with h | h
            · obtain ⟨o, h⟩ := ih2 j r' h; exact ⟨o, List.sublist_append_of_sublist_left h⟩
            · simp at h; obtain ⟨rfl, rfl⟩ := h
              have h1 := ih1 j st0 hst (by rw [hr']; rfl)
              exact ⟨st0.op, h1.append (List.Sublist.refl [Ev.res j r'])⟩
        · cases hs

end
end NodisVerif.Lin

namespace NodisVerif.Lin
section
variable {State Op Ret : Type} [DecidableEq Ret] {O : Obj State Op Ret}

/-- what each event requires and does -/
theorem step_shape {chk : Bool} {c c' : Cfg State Op Ret} {e : Ev Op Ret} (hs : step O chk c e = some c') :
    (∃ i o, e = .inv i o ∧ c.ops i = none ∧ c' = { c with ops := upd c.ops i { op := o } }) ∨
    (∃ i st, e = .acq i ∧ c.ops i = some st ∧ st.locked = false ∧ st.replied = false ∧
      (chk = true → lockFree c.holders (!O.readOnly st.op) = true) ∧
      c' = { c with ops := upd c.ops i { st with locked := true },
                    holders := (i, !O.readOnly st.op) :: c.holders }) ∨
    (∃ i st, e = .eff i ∧ c.ops i = some st ∧ st.locked = true ∧ st.result = none ∧
      c' = { c with σ := (O.apply c.σ st.op).1,
                    ops := upd c.ops i { st with result := some (O.apply c.σ st.op).2 },
                    lin := c.lin ++ [(i, st.op, (O.apply c.σ st.op).2)] }) ∨
    (∃ i st, e = .rel i ∧ c.ops i = some st ∧ st.locked = true ∧
      c' = { c with ops := upd c.ops i { st with locked := false },
                    holders := c.holders.filter (fun p => p.1 != i) }) ∨
    (∃ i r st, e = .res i r ∧ c.ops i = some st ∧ st.locked = false ∧ st.replied = false ∧
      st.result = some r ∧ c' = { c with ops := upd c.ops i { st with replied := true } }) := by
  cases e with
  | inv i o =>
    simp only [Lin.step] at hs
    split at hs
    · cases hs
    · rename_i h; cases hs; exact Or.inl ⟨i, o, rfl, h, rfl⟩
  | acq i =>
    simp only [Lin.step] at hs
    split at hs
    · cases hs
    · rename_i st hst
      split at hs
      · cases hs
      · rename_i h1
        split at hs
        · cases hs
        · rename_i h2
          cases hs
          refine Or.inr (Or.inl ⟨i, st, rfl, hst, ?_, ?_, ?_, rfl⟩)
          · cases h : st.locked <;> simp_all
          · cases h : st.replied <;> simp_all
          · intro hc; subst hc
            cases h : lockFree c.holders (!O.readOnly st.op) <;> simp_all
  | eff i =>
    simp only [Lin.step] at hs
    split at hs
    · cases hs
    · rename_i st hst
      split at hs
      · cases hs
      · rename_i h1
        cases hs
        refine Or.inr (Or.inr (Or.inl ⟨i, st, rfl, hst, ?_, ?_, rfl⟩))
        · cases h : st.locked <;> simp_all
        · cases h : st.result <;> simp_all
  | rel i =>
    simp only [Lin.step] at hs
    split at hs
    · cases hs
    · rename_i st hst
      split at hs
      · cases hs
      · rename_i h1
        cases hs
        refine Or.inr (Or.inr (Or.inr (Or.inl ⟨i, st, rfl, hst, ?_, rfl⟩)))
        cases h : st.locked <;> simp_all
  | res i r =>
    simp only [Lin.step] at hs
    split at hs
    · cases hs
    · rename_i st hst
      split at hs
      · cases hs
      · rename_i h1
        split at hs
        · rename_i h2
          cases hs
          refine Or.inr (Or.inr (Or.inr (Or.inr ⟨i, r, st, rfl, hst, ?_, ?_, h2, rfl⟩)))
          · cases h : st.locked <;> simp_all
          · cases h : st.replied <;> simp_all
        · cases hs

/-- the lock discipline: `holders` are exactly the operations between their `acq` and `rel`, and an
    exclusive holder is alone -/
structure LockInv (O : Obj State Op Ret) (c : Cfg State Op Ret) : Prop where
  mem : ∀ i x, (i, x) ∈ c.holders ↔ ∃ st, c.ops i = some st ∧ st.locked = true ∧ x = !O.readOnly st.op
  excl : ∀ p ∈ c.holders, p.2 = true → c.holders = [p]

omit [DecidableEq Ret] in
theorem LockInv.init (σ0 : State) : LockInv O ({ σ := σ0 } : Cfg State Op Ret) where
  mem := by intro i x; simp
  excl := by intro p h; cases h

theorem LockInv.step {c c' : Cfg State Op Ret} {e : Ev Op Ret} (hi : LockInv O c)
    (hs : step O true c e = some c') : LockInv O c' := by
  rcases step_shape hs with ⟨i, o, rfl, hn, rfl⟩ | ⟨i, st, rfl, hst, hl, _, hf, rfl⟩ |
    ⟨i, st, rfl, hst, hl, _, rfl⟩ | ⟨i, st, rfl, hst, hl, rfl⟩ | ⟨i, r, st, rfl, hst, hl, _, _, rfl⟩
  · refine ⟨?_, hi.excl⟩
    intro j x
    show (j, x) ∈ c.holders ↔ ∃ st, upd c.ops i _ j = some st ∧ _
    by_cases hj : j = i
    · subst hj; rw [upd_same, hi.mem, hn]; simp
    · rw [upd_ne _ _ hj]; exact hi.mem j x
  · have hf := hf rfl
    constructor
    · intro j x
      show (j, x) ∈ (i, !O.readOnly st.op) :: c.holders ↔ ∃ s1, upd c.ops i _ j = some s1 ∧ _
      by_cases hj : j = i
      · subst hj; rw [upd_same, List.mem_cons, hi.mem, hst]
        constructor
        · rintro (h | ⟨s1, h1, h2, _⟩)
          · simp at h; exact ⟨_, rfl, rfl, h⟩
          · cases h1; rw [hl] at h2; cases h2
        · rintro ⟨s1, h1, _, h3⟩; cases h1; left; simp [h3]
      · rw [upd_ne _ _ hj, List.mem_cons, ← hi.mem]
        constructor
        · rintro (h | h)
          · simp at h; exact absurd h.1 hj
          · exact h
        · intro h; exact Or.inr h
    · intro p hp hx
      change p ∈ (i, !O.readOnly st.op) :: c.holders at hp
      show (i, !O.readOnly st.op) :: c.holders = [p]
      cases hro : O.readOnly st.op with
      | false =>
        rw [hro] at hf hp
        simp only [lockFree, Bool.not_false, if_true, List.isEmpty_iff] at hf
        rw [hf] at hp ⊢
        simp at hp; rw [hp]; rfl
      | true =>
        rw [hro] at hf hp
        simp only [lockFree, Bool.not_true, Bool.false_eq_true, if_false, List.all_eq_true] at hf
        rcases List.mem_cons.1 hp with h | h
        · subst h; simp at hx
        · have := hf p h; simp [hx] at this
  · refine ⟨?_, hi.excl⟩
    intro j x
    show (j, x) ∈ c.holders ↔ ∃ s1, upd c.ops i _ j = some s1 ∧ _
    by_cases hj : j = i
    · subst hj; rw [upd_same, hi.mem, hst]; simp
    · rw [upd_ne _ _ hj]; exact hi.mem j x
  · constructor
    · intro j x
      show (j, x) ∈ c.holders.filter _ ↔ ∃ s1, upd c.ops i _ j = some s1 ∧ _
      rw [List.mem_filter]
      by_cases hj : j = i
      · subst hj; rw [upd_same]; simp
      · rw [upd_ne _ _ hj, hi.mem]; simp [hj]
    · intro p hp hx
      change p ∈ c.holders.filter _ at hp
      show c.holders.filter _ = [p]
      obtain ⟨h1, h2⟩ := List.mem_filter.1 hp
      rw [hi.excl p h1 hx]
      simp [h2]
  · refine ⟨?_, hi.excl⟩
    intro j x
    show (j, x) ∈ c.holders ↔ ∃ s1, upd c.ops i _ j = some s1 ∧ _
    by_cases hj : j = i
    · subst hj; rw [upd_same, hi.mem, hst]; simp
    · rw [upd_ne _ _ hj]; exact hi.mem j x

theorem run_lockInv {σ0 : State} : ∀ (es : List (Ev Op Ret)) (c : Cfg State Op Ret),
    run O true { σ := σ0 } es = some c → LockInv O c :=
  run_induct (P := fun _ c => LockInv O c) (LockInv.init σ0) (fun _ _ _ _ _ ih hs => ih.step hs)

omit [DecidableEq Ret] in
/-- two operations inside their `acq … rel` intervals at the same time are both readers -/
theorem LockInv.both_readers {c : Cfg State Op Ret} (hi : LockInv O c) {i j : Nat} {si sj : OpSt Op Ret}
    (h1 : c.ops i = some si) (h2 : c.ops j = some sj) (l1 : si.locked = true) (l2 : sj.locked = true)
    (hne : i ≠ j) : O.readOnly si.op = true ∧ O.readOnly sj.op = true := by
  have m1 := (hi.mem i _).2 ⟨si, h1, l1, rfl⟩
  have m2 := (hi.mem j _).2 ⟨sj, h2, l2, rfl⟩
  constructor
  · cases h : O.readOnly si.op with
    | true => rfl
    | false =>
      rw [h] at m1
      rw [hi.excl _ m1 rfl] at m2
      simp at m2; exact absurd m2.1.symm hne
  · cases h : O.readOnly sj.op with
    | true => rfl
    | false =>
      rw [h] at m2
      rw [hi.excl _ m2 rfl] at m1
      simp at m1; exact absurd m1.1 hne

end
end NodisVerif.Lin

namespace NodisVerif.Lin
section
variable {State Op Ret : Type} [DecidableEq Ret] {O : Obj State Op Ret}

/-! ## the main theorem -/

/-- Every execution accepted by the transition system has a linearizable history, and the linearization
    is the order of the `eff` events; the sequential execution ends in the shared state. (The lock
    discipline is not used here: it is what makes `eff` one atomic event — see `Proofs/LinSplit.lean`.) -/
theorem run_linearizable {σ0 : State} {chk : Bool} {es : List (Ev Op Ret)} {c : Cfg State Op Ret}
    (h : run O chk { σ := σ0 } es = some c) :
    IsLin O σ0 (hist es) c.lin ∧ ids c.lin = effOrder es ∧ final O σ0 c.lin = c.σ :=
  ⟨(run_inv h).isLin, (run_inv h).order, (run_inv h).fin⟩

/-- THEOREM. The history of every well-formed execution (any number of operations, any interleaving)
    is linearizable; the linearization is the order of the `eff` events. -/
theorem locked_bodies_linearizable (O : Obj State Op Ret) (σ0 : State) (es : List (Ev Op Ret))
    (h : WF O σ0 es) :
    ∃ lin, IsLin O σ0 (hist es) lin ∧ ids lin = effOrder es := by
  unfold WF at h
  cases hr : run O true { σ := σ0 } es with
  | none => rw [hr] at h; cases h
  | some c => exact ⟨c.lin, (run_linearizable hr).1, (run_linearizable hr).2.1⟩

theorem wf_linearizable (O : Obj State Op Ret) (σ0 : State) (es : List (Ev Op Ret)) (h : WF O σ0 es) :
    Linearizable O σ0 (hist es) := by
  obtain ⟨lin, h1, _⟩ := locked_bodies_linearizable O σ0 es h
  exact ⟨lin, h1⟩

/-- the linearization point `eff i` of a completed operation lies between `inv i` and `res i` -/
theorem lin_point_between {σ0 : State} {chk : Bool} {es : List (Ev Op Ret)} {c : Cfg State Op Ret}
    (h : run O chk { σ := σ0 } es = some c) {i : Nat} {r : Ret} (hr : Ev.res i r ∈ es) :
    ∃ o, [Ev.inv i o, Ev.eff i, Ev.res i r].Sublist es :=
  (order_inv es c h).2 i r hr

/-- the lock discipline of a well-formed execution: at every moment, two operations that are both
    between their `acq` and their `rel` are both readers -/
theorem intervals_disjoint {σ0 : State} {es : List (Ev Op Ret)} {c : Cfg State Op Ret}
    (h : run O true { σ := σ0 } es = some c) {i j : Nat} {si sj : OpSt Op Ret}
    (h1 : c.ops i = some si) (h2 : c.ops j = some sj) (l1 : si.locked = true) (l2 : sj.locked = true)
    (hne : i ≠ j) : O.readOnly si.op = true ∧ O.readOnly sj.op = true :=
  (run_lockInv es c h).both_readers h1 h2 l1 l2 hne

/-- a prefix of a well-formed execution is well-formed -/
theorem run_prefix {chk : Bool} {c0 c : Cfg State Op Ret} {a b : List (Ev Op Ret)}
    (h : run O chk c0 (a ++ b) = some c) : ∃ c1, run O chk c0 a = some c1 ∧ run O chk c1 b = some c := by
  rw [run_append] at h
  cases h1 : run O chk c0 a with
  | none => simp [h1] at h
  | some c1 => exact ⟨c1, rfl, by simpa [h1] using h⟩

/-! ## the history itself is well-formed: ids are invoked once -/

/-- the invocations of an execution -/
def invs (es : List (Ev Op Ret)) : List (Nat × Op) :=
  es.filterMap fun e => match e with | .inv i o => some (i, o) | _ => none

omit [DecidableEq Ret] in
theorem mem_invs {es : List (Ev Op Ret)} {i : Nat} {o : Op} : (i, o) ∈ invs es ↔ Ev.inv i o ∈ es := by
  unfold invs
  rw [List.mem_filterMap]
  constructor
  · rintro ⟨e, he, h⟩
    cases e <;> simp at h
    obtain ⟨rfl, rfl⟩ := h; exact he
  · intro h; exact ⟨_, h, rfl⟩

theorem invs_nodup {σ0 : State} {chk : Bool} : ∀ (es : List (Ev Op Ret)) (c : Cfg State Op Ret),
    run O chk { σ := σ0 } es = some c → ((invs es).map Prod.fst).Nodup := by
  refine run_induct (P := fun es _ => ((invs es).map Prod.fst).Nodup) (by simp [invs]) ?_
  intro es c e c' hr ih hs
  have hi := run_inv hr
  have happ : invs (es ++ [e]) = invs es ++ invs [e] := by simp [invs, List.filterMap_append]
  rcases step_shape hs with ⟨i, o, rfl, hn, rfl⟩ | ⟨i, st, rfl, _⟩ | ⟨i, st, rfl, _⟩ | ⟨i, st, rfl, _⟩ |
    ⟨i, r, st, rfl, _⟩
  · rw [happ]
    simp only [invs, List.filterMap_cons, List.filterMap_nil, List.map_append, List.map_cons, List.map_nil]
    rw [List.nodup_append]
    refine ⟨ih, by simp, ?_⟩
    intro a ha b hb e
    simp at hb; subst hb; subst e
    obtain ⟨p, hp, rfl⟩ := List.mem_map.1 ha
    obtain ⟨st, h1, _⟩ := hi.invOps p.1 p.2 (mem_invs.1 hp)
    rw [hn] at h1; cases h1
  all_goals (rw [happ]; simpa [invs] using ih)

end
end NodisVerif.Lin
