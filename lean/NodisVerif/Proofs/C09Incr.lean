import NodisVerif.Proofs.C09Run
import NodisVerif.Proofs.C15Decimal
import NodisVerif.Model.Handler
/-
  C09 — the optimistic increment script: facts about `Api.get` / `Api.set` on a store whose key k
  holds a decimal counter (or is missing).
-/
namespace NodisVerif.Proofs.C09Incr
open NodisVerif.Proofs.AListLemmas2 Store Resp

variable (k : Bytes)

/-- key `k` is a live string record without deadline holding exactly `b` -/
def StrAt (st : MState) (b : Bytes) : Prop :=
  ∃ m, getMeta st k = some m ∧ m.isOk = true ∧ m.exp = 0 ∧ m.value = some (.str b)

/-- the counter stored under `k` is `n` (a missing key counts as 0, as for INCR) -/
def CounterIs (st : MState) (n : Nat) : Prop :=
  (getMeta st k = none ∧ n = 0) ∨ StrAt k st (formatInt (n : Int))

/-- GET k -/
def getBody : Body := fun s now _ =>
  Handler.call (Api.get s now k) fun s o =>
    Handler.done s [match o with | .bytes b => Handler.optBulk b | _ => Tok.nullBulk]

/-- SET k v -/
def setBody (v : Bytes) : Body := fun s now _ =>
  Handler.call (Api.set s now k v false) fun s _ => Handler.done s [Handler.ok]

theorem getMeta_putMeta_same (s : MState) (key : Bytes) (m : Meta) : getMeta (putMeta s key m) key = some m := by
  simp [getMeta, putMeta, get?_set_same]

theorem getMeta_putMeta_other (s : MState) (key x : Bytes) (m : Meta) (h : x ≠ key) :
    getMeta (putMeta s key m) x = getMeta s x := by
  simp [getMeta, putMeta, get?_set_other _ _ _ _ h]

/-- a map over the index that keeps the keys -/
theorem get?_map_val {V : Type} (g : Bytes → V → V) : ∀ (l : AList V) (x : Bytes),
    AList.get? (l.map fun p => (p.1, g p.1 p.2)) x = (AList.get? l x).map (g x) := by
  intro l
  induction l with
  | nil => intro x; rfl
  | cons p rest ih =>
    intro x
    obtain ⟨a, b⟩ := p
    simp only [List.map_cons, AList.get?]
    split
    · next h => subst h; rfl
    · exact ih x

/-- `setVal` on the record itself, for both backends -/
theorem getMeta_setVal_same (s : MState) (key : Bytes) (v : Val) :
    getMeta (Api.setVal s key v) key = (getMeta s key).map (fun m => { m with value := some v }) := by
  unfold Api.setVal
  cases h : getMeta s key with
  | none => simp [h]
  | some m =>
    simp only [Option.map_some]
    split
    · exact getMeta_putMeta_same _ _ _
    · let g : Bytes → Meta → Meta := fun _ m' =>
        if m'.oid = m.oid ∧ m'.value.isSome then { m' with value := some v } else m'
      have e : (putMeta s key { m with value := some v }).index.map (fun (x : Bytes × Meta) =>
          match x with
          | (k, m') => if m'.oid = m.oid ∧ m'.value.isSome then (k, { m' with value := some v }) else (k, m')) =
        (putMeta s key { m with value := some v }).index.map (fun p => (p.1, g p.1 p.2)) := by
        apply List.map_congr_left
        rintro ⟨a, b⟩ _
        simp only [g]
        split <;> rfl
      simp only [getMeta]
      rw [e, get?_map_val g]
      have := getMeta_putMeta_same s key { m with value := some v }
      simp only [getMeta] at this
      rw [this]
      simp [g]

theorem setVal_signalled (s : MState) (key : Bytes) (v : Val) : (Api.setVal s key v).signalled = s.signalled := by
  unfold Api.setVal
  cases getMeta s key with
  | none => rfl
  | some m => simp only; split <;> rfl

theorem setVal_flushed (s : MState) (key : Bytes) (v : Val) : (Api.setVal s key v).flushed = s.flushed := by
  unfold Api.setVal
  cases getMeta s key with
  | none => rfl
  | some m => simp only; split <;> rfl

theorem getMeta_setExp_same (s : MState) (key : Bytes) (e : Int) :
    getMeta (Api.setExp s key e) key = (getMeta s key).map (fun m => { m with exp := e }) := by
  unfold Api.setExp
  cases h : getMeta s key with
  | none => simp [h]
  | some m => simp [getMeta_putMeta_same]

theorem setExp_fields (s : MState) (key : Bytes) (e : Int) :
    (Api.setExp s key e).signalled = s.signalled ∧ (Api.setExp s key e).flushed = s.flushed := by
  unfold Api.setExp
  cases getMeta s key <;> exact ⟨rfl, rfl⟩

theorem getMeta_signal_same (s : MState) (key : Bytes) :
    getMeta (signal s key) key = (getMeta s key).map Meta.markModified := by
  show getMeta (modMeta s key Meta.markModified) key = _
  unfold modMeta
  cases h : getMeta s key with
  | none => simp [h]
  | some m => simp [getMeta_putMeta_same]

theorem signal_fields (s : MState) (key : Bytes) :
    (signal s key).signalled = key :: s.signalled ∧ (signal s key).flushed = s.flushed := by
  refine ⟨rfl, ?_⟩
  show (modMeta s key Meta.markModified).flushed = _
  unfold modMeta
  cases getMeta s key <;> rfl

theorem emit_fields (s : MState) (op : FeedOp) :
    getMeta (emit s op) = getMeta s ∧ (emit s op).signalled = s.signalled ∧ (emit s op).flushed = s.flushed := by
  unfold emit; split <;> exact ⟨rfl, rfl, rfl⟩

theorem markModified_fields (m : Meta) : m.markModified.isOk = m.isOk ∧ m.markModified.exp = m.exp ∧
    m.markModified.value = m.value := by
  refine ⟨?_, rfl, rfl⟩
  simp only [Meta.markModified, Meta.isOk]
  split
  · rfl
  · have : (m.state + 2) % 2 = m.state % 2 := by omega
    rw [this]

/-! ### GET -/

/-- `readKey` on a live hot record without deadline: only the access counter moves -/
theorem readKey_live (st : MState) (now : Int) (m : Meta) (hm : getMeta st k = some m) (hok : m.isOk = true)
    (he : m.exp = 0) (hv : m.value.isSome = true) :
    (readKey st now k).2 = true ∧ getMeta (readKey st now k).1 k = some { m with count := m.count + 1 } ∧
    (readKey st now k).1.signalled = st.signalled ∧ (readKey st now k).1.flushed = st.flushed := by
  have hexp : ({ m with count := m.count + 1 } : Meta).expired now = false := by simp [Meta.expired, he]
  have hok' : ({ m with count := m.count + 1 } : Meta).isOk = true := hok
  unfold readKey
  simp only [hm, hok', hexp, if_true, hv, Bool.false_eq_true, if_false]
  refine ⟨trivial, getMeta_putMeta_same _ _ _, ?_, ?_⟩
  · simp only [putMeta, lockR]; split <;> rfl
  · simp only [putMeta, lockR]; split <;> rfl

theorem readKey_missing (st : MState) (now : Int) (hm : getMeta st k = none) : readKey st now k = (st, false) := by
  unfold readKey; simp [hm]

/-- GET on a store whose counter is n: the reply carries n, the counter is still n, nothing is
    signalled, nothing flushed -/
theorem get_counter (st : MState) (now : Int) (n : Nat) (h : CounterIs k st n) :
    ((Api.get st now k).2 = .bytes none ∧ n = 0 ∨ (Api.get st now k).2 = .bytes (some (formatInt (n : Int)))) ∧
    CounterIs k (Api.get st now k).1 n ∧
    (Api.get st now k).1.signalled = st.signalled ∧ (Api.get st now k).1.flushed = st.flushed := by
  rcases h with ⟨hm, hn⟩ | ⟨m, hm, hok, he, hv⟩
  · unfold Api.get
    rw [readKey_missing k st now hm]
    exact ⟨Or.inl ⟨rfl, hn⟩, Or.inl ⟨hm, hn⟩, rfl, rfl⟩
  · obtain ⟨h1, h2, h3, h4⟩ := readKey_live k st now m hm hok he (by rw [hv]; rfl)
    unfold Api.get
    generalize readKey st now k = r at h1 h2 h3 h4
    obtain ⟨s1, ok⟩ := r
    simp only at h1 h2 h3 h4
    subst h1
    have hs : Api.asStr s1 k = some (some (formatInt (n : Int))) := by
      simp [Api.asStr, valOf, h2, hv]
    simp only [Bool.not_true, Bool.false_eq_true, if_false, hs]
    exact ⟨Or.inr trivial, Or.inr ⟨_, h2, hok, he, hv⟩, h3, h4⟩

/-- GET on a live string: exactly the stored bytes -/
theorem get_strAt (st : MState) (now : Int) (b : Bytes) (h : StrAt k st b) :
    (Api.get st now k).2 = .bytes (some b) ∧ StrAt k (Api.get st now k).1 b := by
  obtain ⟨m, hm, hok, he, hv⟩ := h
  obtain ⟨h1, h2, _, _⟩ := readKey_live k st now m hm hok he (by rw [hv]; rfl)
  unfold Api.get
  generalize readKey st now k = r at h1 h2
  obtain ⟨s1, ok⟩ := r
  simp only at h1 h2
  subst h1
  have hs : Api.asStr s1 k = some (some b) := by
    simp [Api.asStr, valOf, h2, hv]
  simp only [Bool.not_true, Bool.false_eq_true, if_false, hs]
  exact ⟨trivial, _, h2, hok, he, hv⟩

/-! ### SET -/

/-- after `writeKey … (some (.str []))` on a missing key or a live hot string: the record is live,
    holds a string, and nothing was signalled -/
theorem writeKey_for_set (st : MState) (now : Int) (h : getMeta st k = none ∨ ∃ b, StrAt k st b) :
    ∃ m, getMeta (writeKey st now k (some (.str []))).1 k = some m ∧ m.isOk = true ∧
      (∃ b, m.value = some (.str b)) ∧
      (writeKey st now k (some (.str []))).1.signalled = st.signalled ∧
      (writeKey st now k (some (.str []))).1.flushed = st.flushed := by
  rcases h with hm | ⟨b, m, hm, hok, he, hv⟩
  · simp only [getMeta] at hm
    simp only [writeKey, getMeta, hm, newKeyWith, fresh]
    refine ⟨_, getMeta_putMeta_same _ _ _, ?_, ⟨[], rfl⟩, rfl, rfl⟩
    simp [Meta.isOk, Meta.markModified, Meta.setValue]
  · have hexp : ({ m with count := m.count + 1 } : Meta).expired now = false := by simp [Meta.expired, he]
    have hok' : ({ m with count := m.count + 1 } : Meta).isOk = true := hok
    have hv' : ({ m with count := m.count + 1 } : Meta).value.isSome = true := by simp [hv]
    unfold writeKey
    simp only [hm, hok', hexp, if_true, hv', Bool.false_eq_true, if_false]
    refine ⟨_, getMeta_putMeta_same _ _ _, hok, ⟨b, hv⟩, ?_, ?_⟩
    · simp only [putMeta, lockW]; split
      · rfl
      · split <;> rfl
    · simp only [putMeta, lockW]; split
      · rfl
      · split <;> rfl

/-- SET k v (no KEEPTTL) on a missing key or a live string: it does not panic, afterwards `k` holds
    exactly `v` without deadline, and `k` was signalled -/
theorem set_counter (st : MState) (now : Int) (v : Bytes) (h : getMeta st k = none ∨ ∃ b, StrAt k st b) :
    (Api.set st now k v false).2 = .unit ∧ StrAt k (Api.set st now k v false).1 v ∧
    (Api.set st now k v false).1.signalled = k :: st.signalled ∧
    (Api.set st now k v false).1.flushed = st.flushed := by
  obtain ⟨m, h1, hok, hval, h3, h4⟩ := writeKey_for_set k st now h
  unfold Api.set
  generalize writeKey st now k (some (Val.str [])) = r at h1 h3 h4
  obtain ⟨s1, ok⟩ := r
  simp only at h1 h3 h4
  have hs : ∃ x, Api.asStr s1 k = some x := by
    obtain ⟨b, hv⟩ := hval
    exact ⟨some b, by simp [Api.asStr, valOf, h1, hv]⟩
  obtain ⟨x, hx⟩ := hs
  simp only [hx, Bool.not_false, if_true]
  obtain ⟨e1, e2, e3⟩ := emit_fields (signal (Api.setExp (Api.setVal s1 k (Val.str v)) k 0) k) (Api.opSet k v false)
  refine ⟨trivial, ?_, ?_, ?_⟩
  · refine ⟨(({ m with value := some (Val.str v) } : Meta)).markModified |> fun mm => { mm with exp := 0 }, ?_, ?_, rfl, rfl⟩
    · rw [e1, getMeta_signal_same, getMeta_setExp_same, getMeta_setVal_same, h1]
      simp [Meta.markModified]
    · have := (markModified_fields ({ m with value := some (Val.str v) } : Meta)).1
      simp only [Meta.isOk, Meta.markModified] at this ⊢
      rw [this]; exact hok
  · rw [e2, (signal_fields _ _).1, (setExp_fields _ _ _).1, setVal_signalled, h3]
  · rw [e3, (signal_fields _ _).2, (setExp_fields _ _ _).2, setVal_flushed, h4]

end NodisVerif.Proofs.C09Incr
