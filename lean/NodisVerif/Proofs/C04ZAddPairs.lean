import NodisVerif.Proofs.C04Seq
import NodisVerif.Proofs.C01Store
import NodisVerif.Proofs.ZAddPairs
import NodisVerif.Spec.ZAdd
/-
  C04, the ZADD command after the repair of A-48 / A-52 (`Api.zaddPairs`, one transaction for all pairs):
  the loop keeps the sorted-set invariant, and its result - member ↦ score map, counters, reply - is the
  reference semantics of Spec/ZAdd.lean (Redis' option rules on a plain association list).
-/
namespace NodisVerif.Proofs.C04
open AListLemmas ZSetLemmas DsZSet
open NodisVerif.Api

/-! ## the invariant -/

theorem inv_zaddStep (nx xx gt lt : Bool) {a : ZAcc} (h : Inv a.z) (p : Bytes × F64) (hs : F64.isNaN p.2 = false) :
    Inv (zaddStep nx xx gt lt a p).z := by
  unfold zaddStep
  split
  · split
    · exact h
    · exact inv_zAdd h p.1 p.2 hs
  · split
    · exact h
    · exact inv_zAdd h p.1 p.2 hs

theorem inv_zaddFold (nx xx gt lt : Bool) : ∀ (ps : List (Bytes × F64)) (a : ZAcc), Inv a.z →
    (∀ p ∈ ps, F64.isNaN p.2 = false) → Inv (ps.foldl (zaddStep nx xx gt lt) a).z
  | [], _, h, _ => h
  | p :: ps, a, h, hn => by
    rw [List.foldl_cons]
    exact inv_zaddFold nx xx gt lt ps _ (inv_zaddStep nx xx gt lt h p (hn p List.mem_cons_self))
      (fun q hq => hn q (List.mem_cons_of_mem _ hq))

/-! ## the loop against the reference -/

/-- the model's loop state and the reference's result describe the same map and counters -/
structure Rel (a : ZAcc) (r : Spec.ZAdd.Res) : Prop where
  map : ∀ k, zScore a.z k = Spec.ZAdd.find r.map k
  added : a.added = r.added
  changed : a.changed = r.changed

theorem find_put (m : Spec.ZAdd.Map) (k : Bytes) (v : F64) (x : Bytes) :
    Spec.ZAdd.find (Spec.ZAdd.put m k v) x = if x = k then some v else Spec.ZAdd.find m x := by
  unfold Spec.ZAdd.find Spec.ZAdd.put
  by_cases h : x = k
  · subst h; simp [List.find?]
  · have : ¬ k = x := fun e => h e.symm
    simp [List.find?, h, this]

/-- a written pair: the member now has exactly the given score, the others keep theirs -/
theorem zScore_zAdd_written (z : ZSet) (m : Bytes) (s : F64)
    (h : ∀ old, zScore z m = some old → F64.eq s old = false) (x : Bytes) :
    zScore (zAdd z m s).1 x = if x = m then some s else zScore z x := by
  unfold zScore at h ⊢
  unfold zAdd
  cases hget : AList.get? z.dict m with
  | none =>
    dsimp only
    by_cases hx : x = m
    · rw [if_pos hx, hx]; exact get?_set_self m s z.dict
    · rw [if_neg hx]; exact get?_set_other m x s hx z.dict
  | some old =>
    dsimp only
    rw [if_neg (by rw [h old hget]; simp)]
    dsimp only
    by_cases hx : x = m
    · rw [if_pos hx, hx]; exact get?_set_self m s z.dict
    · rw [if_neg hx]; exact get?_set_other m x s hx z.dict

theorem rel_step (nx xx gt lt : Bool) {a : ZAcc} {r : Spec.ZAdd.Res} (h : Rel a r) (p : Bytes × F64) :
    Rel (zaddStep nx xx gt lt a p) (Spec.ZAdd.step nx xx gt lt r p) := by
  unfold zaddStep Spec.ZAdd.step
  rw [← h.map p.1]
  cases hsc : zScore a.z p.1 with
  | none =>
    dsimp only
    cases xx with
    | true => simpa using h
    | false =>
      simp only [Bool.false_eq_true, if_false]
      refine ⟨fun k => ?_, by simp [h.added], h.changed⟩
      dsimp only
      rw [zScore_zAdd_written a.z p.1 p.2 (by intro old ho; rw [hsc] at ho; cases ho) k, find_put, h.map k]
  | some old =>
    dsimp only
    cases nx with
    | true => simpa using h
    | false =>
      by_cases hgt : (gt && !(F64.gt p.2 old)) = true
      · simp only [hgt, Bool.or_true, Bool.true_or, if_true, Bool.false_eq_true, if_false]
        exact h
      · by_cases hlt : (lt && !(F64.lt p.2 old)) = true
        · simp only [hlt, hgt, Bool.or_true, Bool.true_or, if_true, Bool.false_eq_true, if_false]
          exact h
        · by_cases heq : F64.eq p.2 old = true
          · simp only [heq, hlt, hgt, Bool.or_true, Bool.true_or, if_true, Bool.false_eq_true, if_false]
            exact h
          · have hgt' : (gt && !(F64.gt p.2 old)) = false := by simpa using hgt
            have hlt' : (lt && !(F64.lt p.2 old)) = false := by simpa using hlt
            have heq' : F64.eq p.2 old = false := by simpa using heq
            simp only [heq', hlt', hgt', Bool.or_false, Bool.false_eq_true, if_false]
            refine ⟨fun k => ?_, h.added, by simp [h.changed]⟩
            dsimp only
            rw [zScore_zAdd_written a.z p.1 p.2
              (by intro o ho; rw [hsc] at ho; cases ho; exact heq') k, find_put, h.map k]

theorem rel_fold (nx xx gt lt : Bool) : ∀ (ps : List (Bytes × F64)) (a : ZAcc) (r : Spec.ZAdd.Res), Rel a r →
    Rel (ps.foldl (zaddStep nx xx gt lt) a) (ps.foldl (Spec.ZAdd.step nx xx gt lt) r)
  | [], _, _, h => h
  | p :: ps, a, r, h => by
    rw [List.foldl_cons, List.foldl_cons]
    exact rel_fold nx xx gt lt ps _ _ (rel_step nx xx gt lt h p)

theorem find_eq_get? : ∀ (d : AList F64) (k : Bytes), Spec.ZAdd.find d k = AList.get? d k
  | [], _ => rfl
  | (k', v) :: rest, k => by
    unfold Spec.ZAdd.find
    by_cases h : k' = k
    · simp [List.find?, AList.get?, h]
    · simp only [List.find?, AList.get?, h, decide_false, if_false]
      exact find_eq_get? rest k

/-- the loop of `zAddPairs` started on `z` computes the reference's ZADD on `z.dict` -/
theorem zaddFold_spec (nx xx gt lt : Bool) (z : ZSet) (pairs : List (Bytes × F64)) :
    Rel (pairs.foldl (zaddStep nx xx gt lt) { z := z, added := 0, changed := 0, ops := [] })
      (Spec.ZAdd.zadd nx xx gt lt z.dict pairs) :=
  rel_fold nx xx gt lt pairs _ _ ⟨fun k => (find_eq_get? z.dict k).symm, rfl, rfl⟩

/-! ## the stored value after the tail `setVal; signal; emit …` -/

theorem getMeta_emitFold (key : Bytes) (k : Bytes) : ∀ (ops : List (Bytes × F64)) (s : MState),
    Store.getMeta (ops.foldl (fun s (p : Bytes × F64) => Store.emit s (opZAdd key p.1 p.2)) s) k = Store.getMeta s k
  | [], _ => rfl
  | p :: ops, s => by
    rw [List.foldl_cons, getMeta_emitFold key k ops, C01.getMeta_emit]

theorem asZSet_tail (s : MState) (key : Bytes) (z z' : ZSet) (ops : List (Bytes × F64)) (h : asZSet s key = some z) :
    asZSet (ops.foldl (fun s (p : Bytes × F64) => Store.emit s (opZAdd key p.1 p.2))
      (Store.signal (setVal s key (.zset z')) key)) key = some z' := by
  have hm : ∃ m, Store.getMeta s key = some m := by
    unfold asZSet Store.valOf at h
    cases hg : Store.getMeta s key with
    | none => rw [hg] at h; simp at h
    | some m => exact ⟨m, rfl⟩
  obtain ⟨m, hm⟩ := hm
  unfold asZSet Store.valOf
  rw [getMeta_emitFold, C01.getMeta_signal_same, C01.getMeta_setVal_same s key _ m hm]
  simp [Meta.markModified]

/-- `zaddPairs` on a key that holds (or, without XX, is given) the sorted set `z`: the reply and the stored value
    are those of the loop -/
theorem zaddPairs_some (s : MState) (now : Int) (key : Bytes) (nx xx gt lt ch : Bool) (pairs : List (Bytes × F64))
    (hne : pairs ≠ []) (z : ZSet)
    (hz : asZSet (Store.writeKey s now key (if xx then none else some (.zset DsZSet.empty))).1 key = some z)
    (hok : xx = true → (Store.writeKey s now key none).2 = true) :
    (zaddPairs s now key nx xx gt lt ch pairs).2 =
      .int (if ch then (pairs.foldl (zaddStep nx xx gt lt) { z := z, added := 0, changed := 0, ops := [] }).added +
          (pairs.foldl (zaddStep nx xx gt lt) { z := z, added := 0, changed := 0, ops := [] }).changed
        else (pairs.foldl (zaddStep nx xx gt lt) { z := z, added := 0, changed := 0, ops := [] }).added) ∧
    asZSet (zaddPairs s now key nx xx gt lt ch pairs).1 key =
      some (pairs.foldl (zaddStep nx xx gt lt) { z := z, added := 0, changed := 0, ops := [] }).z := by
  unfold zaddPairs
  have hne' : pairs.isEmpty = false := by cases pairs <;> simp_all
  rw [if_neg (by simp [hne'])]
  have hxo : (xx && !(Store.writeKey s now key (if xx then none else some (.zset DsZSet.empty))).2) = false := by
    cases xx with
    | false => rfl
    | true => simp only [if_true] at hz ⊢; simp [hok rfl]
  generalize Store.writeKey s now key (if xx then none else some (.zset DsZSet.empty)) = w at hz hxo ⊢
  obtain ⟨s1, ok⟩ := w
  dsimp only at hz hxo ⊢
  rw [if_neg (by simp [hxo])]
  rw [hz]
  dsimp only
  split
  · next hemp =>
    refine ⟨rfl, ?_⟩
    rw [hz, Proofs.ZAddPairs.zaddFold_ops_nil nx xx gt lt pairs _ (by simpa using hemp)]
  · exact ⟨rfl, asZSet_tail s1 key z _ _ hz⟩

end NodisVerif.Proofs.C04
