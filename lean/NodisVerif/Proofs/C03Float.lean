import NodisVerif.Proofs.C03Seq
import NodisVerif.Model.FloatDec
/-
  C03 helper (HINCRBYFLOAT) on the decimal float text of Model/FloatDec.lean: `Api.hincrbyfloat` against the hash
  content, in the style of `hincrby_rel` (Proofs/C03Seq.lean).
-/
namespace NodisVerif.Proofs.C03Seq
open NodisVerif
open NodisVerif.Proofs.AListLemmas NodisVerif.Proofs.AListLemmas2 NodisVerif.Proofs.C03 NodisVerif.Proofs.C03Api
open Store Api

/-- ds/hash `HIncrByFloat` on the content: `none` = outside the model (the field holds a hexadecimal float or more
    than 800 digits), `some none` = "ERR hash value is not …" (ParseFloat error, syntax or range),
    `some (some (h', sum))` = new content and reply. A missing field is set to FormatFloat(delta) itself. -/
def hfloatStep (h : AList Bytes) (f : Bytes) (delta : F64) : Option (Option (AList Bytes × F64)) :=
  match DsHash.hget h f with
  | none => some (some ((DsHash.hset h f (FloatDec.formatShortest delta)).1, delta))
  | some old =>
    match Api.parseFloatText old with
    | none => none
    | some none => some none
    | some (some o) => some (some ((DsHash.hset h f (FloatDec.formatShortest (F64.add o delta))).1, F64.add o delta))

theorem hincrbyfloat_rel (s : MState) (now : Int) (key f : Bytes) (delta : F64) (h : AList Bytes)
    (hr : HashRel s key now h) (hi : IndexSorted s) :
    (Api.hincrbyfloat s now key f delta).2 =
      (match hfloatStep h f delta with
       | none => .unsupported
       | some none => .many [.f64 0, .err true]
       | some (some (_, v)) => .many [.f64 v, .err false]) ∧
    HashRel (Api.hincrbyfloat s now key f delta).1 key now
      (match hfloatStep h f delta with | some (some (h', _)) => h' | _ => h) ∧
    IndexSorted (Api.hincrbyfloat s now key f delta).1 := by
  obtain ⟨hot1, hi1⟩ := open_hash s now key h hr hi
  unfold Api.hincrbyfloat hfloatStep
  rw [pair_eta (writeKey s now key (some (.hash [])))]
  simp only
  rw [asHash_hot hot1]
  simp only [Api.formatFloat, F64.add?]
  cases hg : DsHash.hget h f with
  | none =>
    simp only
    obtain ⟨c1, c2⟩ := close_write _ key _ (.hash (DsHash.hset h f (FloatDec.formatShortest delta)).1) now
      { typ := 8, key := key, args := [Bytes.toHex f, toString delta] } hot1 hi1
    exact ⟨by first | rfl | trivial, ⟨set_preserves_sorted h hr.1 f _, Or.inr ⟨set_ne_nil h f _, c1⟩⟩, c2⟩
  | some old =>
    have hne : h ≠ [] := by
      intro e; subst e
      simp [DsHash.hget, AList.get?] at hg
    simp only
    cases hp : Api.parseFloatText old with
    | none =>
      simp only
      exact ⟨by first | rfl | trivial, ⟨hr.1, Or.inr ⟨hne, hot1⟩⟩, hi1⟩
    | some r =>
      cases r with
      | none =>
        simp only
        obtain ⟨c1, c2⟩ := close_signal _ key _ now
          { typ := 8, key := key, args := [Bytes.toHex f, toString delta] } hot1 hi1
        exact ⟨by first | rfl | trivial, ⟨hr.1, Or.inr ⟨hne, c1⟩⟩, c2⟩
      | some o =>
        simp only
        obtain ⟨c1, c2⟩ := close_write _ key _ (.hash (DsHash.hset h f (FloatDec.formatShortest (F64.add o delta))).1) now
          { typ := 8, key := key, args := [Bytes.toHex f, toString delta] } hot1 hi1
        exact ⟨by first | rfl | trivial, ⟨set_preserves_sorted h hr.1 f _, Or.inr ⟨set_ne_nil h f _, c1⟩⟩, c2⟩

/-- non-vacuity: field "f" holds "10.5"; +0.1 gives 10.6 with text "10.6"; a field holding "1e400" is an error;
    on a missing field the increment 0.1 itself is stored as "0.1"; hexadecimal text is outside the model -/
theorem hfloatStep_examples :
    hfloatStep [([102], Bytes.ofString "10.5")] [102] 0x3FB999999999999A =
      some (some ([([102], Bytes.ofString "10.6")], 0x4025333333333333)) ∧
    hfloatStep [([102], Bytes.ofString "1e400")] [102] 1 = some none ∧
    hfloatStep [] [102] 0x3FB999999999999A = some (some ([([102], Bytes.ofString "0.1")], 0x3FB999999999999A)) ∧
    hfloatStep [([102], Bytes.ofString "0x1p3")] [102] 1 = none :=
  ⟨by decide +kernel, by decide +kernel, by decide +kernel, by decide +kernel⟩

end NodisVerif.Proofs.C03Seq
