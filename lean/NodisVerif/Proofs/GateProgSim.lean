import NodisVerif.Proofs.GateProgEff
import NodisVerif.Proofs.GateInv
/-
  The program model of the EXEC gate refines the gate protocol: the global invariant `Inv`, the refinement relation
  `R` between a configuration of the program and a state of `Model/Gate.lean`, and `sim_step`: every step of the
  program emits events that `Gate.step` accepts, and re-establishes both.
-/
namespace NodisVerif.GateProg
open NodisVerif.Gate (G T GMode Ev GState)

structure Inv (c : Cfg) : Prop where
  ok : ∀ g, ok (c.loc g) (c.sh.conn g).commit = true
  /-- execMu is held by exactly the goroutines that think so -/
  mu : ∀ g m, (g, m) ∈ c.sh.execMu ↔ (c.loc g).held = some m
  /-- a writer is alone -/
  xalone : ∀ h ∈ c.sh.execMu, h.2 = .x → c.sh.execMu = [h]
  act : ∀ x g, (x, g) ∈ c.sh.active ↔ (c.loc g).tx = some x
  actu : ∀ x g g', (x, g) ∈ c.sh.active → (x, g') ∈ c.sh.active → g = g'
  emb : ∀ g, (c.loc g).emb = true → c.sh.clients.contains g = false

/-- the gate state the tracer has been told about -/
def R (c : Cfg) (gs : GState) : Prop :=
  gs.clients = c.sh.clients ∧ gs.active = c.sh.active ∧
  ∀ g m, (g, m) ∈ gs.holders ↔ ((c.loc g).held = some m ∧ (c.loc g).rep = true)

theorem loc_put (c : Cfg) (s' : Shared) (t : Tid) (l' : Loc) (g : Tid) :
    (Cfg.mk s' (put c.thr t l')).loc g = if g = t then l' else c.loc g := by
  unfold Cfg.loc
  by_cases h : g = t
  · subst h; simp [assoc_put_same]
  · simp [h, assoc_put_other _ _ _ _ h]

theorem loc_init (g : Tid) : ({} : Cfg).loc g = {} := rfl

theorem inv_init : Inv {} where
  ok := fun g => by rw [loc_init]; rfl
  mu := fun g m => by
    rw [loc_init]
    constructor
    · intro h; cases h
    · intro h; cases h
  xalone := fun h hh => by cases hh
  act := fun x g => by
    rw [loc_init]
    constructor
    · intro h; cases h
    · intro h; cases h
  actu := fun x g g' h => by cases h
  emb := fun g h => rfl

theorem R_init : R {} {} := ⟨rfl, rfl, fun g m => by
  rw [loc_init]
  constructor
  · intro h; cases h
  · intro h; exact absurd h.1 (by intro h; cases h)⟩

section
variable {c : Cfg} {t : Tid} {ch : Choice} {s' : Shared} {l' : Loc} {evs : List Ev}

/-- the part of the invariant that does not talk about execMu or the transactions, after a transition of `t` -/
theorem ok_after (hi : Inv c) (hs : tstep c.sh t (c.loc t) ch = some (s', l', evs)) (g : Tid) :
    ok ((Cfg.mk s' (put c.thr t l')).loc g) (s'.conn g).commit = true := by
  rw [loc_put]
  by_cases hg : g = t
  · subst hg; simp only [if_true]; exact ok_step (hi.ok g) hs
  · simp only [hg, if_false]
    rw [(tstep_conn_other hs hg).2.1]; exact hi.ok g

/-- execMu, the transactions, `held` and `tx` of the thread unchanged -/
theorem inv_keep (hi : Inv c) (hs : tstep c.sh t (c.loc t) ch = some (s', l', evs))
    (h1 : s'.execMu = c.sh.execMu) (h2 : s'.active = c.sh.active)
    (h3 : ∀ g, g ≠ t → s'.clients.contains g = c.sh.clients.contains g)
    (h4 : l'.held = (c.loc t).held) (h6 : l'.tx = (c.loc t).tx)
    (h7 : l'.emb = true → s'.clients.contains t = false) : Inv (Cfg.mk s' (put c.thr t l')) := by
  refine ⟨ok_after hi hs, fun g m => ?_, ?_, fun x g => ?_, ?_, fun g => ?_⟩
  · show (g, m) ∈ s'.execMu ↔ _
    rw [loc_put, h1, hi.mu]
    by_cases hg : g = t
    · subst hg; simp [h4]
    · simp [hg]
  · show ∀ h ∈ s'.execMu, _ → s'.execMu = _
    rw [h1]; exact hi.xalone
  · show (x, g) ∈ s'.active ↔ _
    rw [loc_put, h2, hi.act]
    by_cases hg : g = t
    · subst hg; simp [h6]
    · simp [hg]
  · show ∀ x g g', (x, g) ∈ s'.active → (x, g') ∈ s'.active → _
    rw [h2]; exact hi.actu
  · show _ → s'.clients.contains g = false
    rw [loc_put]
    by_cases hg : g = t
    · subst hg; simpa using h7
    · simp only [hg, if_false]; rw [h3 g hg]; exact hi.emb g

/-- … and nothing the tracer knows about changes -/
theorem R_keep {gs : GState} (hr : R c gs) (h2 : s'.active = c.sh.active) (h3 : s'.clients = c.sh.clients)
    (h4 : l'.held = (c.loc t).held) (h5 : l'.rep = (c.loc t).rep) : R (Cfg.mk s' (put c.thr t l')) gs := by
  refine ⟨by rw [hr.1]; exact h3.symm, by rw [hr.2.1]; exact h2.symm, fun g m => ?_⟩
  rw [loc_put, hr.2.2]
  by_cases hg : g = t
  · subst hg; simp [h4, h5]
  · simp [hg]

end

theorem holds_R {c : Cfg} {gs : GState} (hr : R c gs) (g : Tid) :
    gs.holds g = true ↔ ((c.loc g).held.isSome = true ∧ (c.loc g).rep = true) := by
  rw [Gate.holds_iff]
  constructor
  · rintro ⟨m, hm⟩
    have := (hr.2.2 g m).1 hm
    simp [this.1, this.2]
  · rintro ⟨h1, h2⟩
    obtain ⟨m, hm⟩ := Option.isSome_iff_exists.1 h1
    exact ⟨m, (hr.2.2 g m).2 ⟨hm, h2⟩⟩

theorem allowed_R {c : Cfg} {gs : GState} (hi : Inv c) (hr : R c gs) (g : Tid)
    (hc : (c.loc g).emb = true ∨ ((c.loc g).held.isSome = true ∧ (c.loc g).rep = true)) : gs.allowed g = true := by
  unfold GState.allowed GState.isClient
  rcases hc with hc | hc
  · rw [hr.1, hi.emb g hc]; rfl
  · rw [(holds_R hr g).2 hc]; simp

theorem no_active_R {c : Cfg} {gs : GState} (hi : Inv c) (hr : R c gs) (g : Tid) (h : (c.loc g).tx = none) :
    gs.active.any (·.2 == g) = false := by
  rw [hr.2.1]
  cases hany : c.sh.active.any (·.2 == g) with
  | false => rfl
  | true =>
    simp only [List.any_eq_true, beq_iff_eq] at hany
    obtain ⟨⟨x, g'⟩, hm, rfl⟩ := hany
    have := (hi.act x g').1 hm
    rw [h] at this; cases this

/-- the `serve` the tracer derives from a report with a connection -/
theorem serve_step {c : Cfg} {gs : GState} (hi : Inv c) (hr : R c gs) (t : Tid) (h : (c.loc t).tx = none) :
    Gate.step gs (.serve t) = some { gs with clients := (c.sh.serve t).clients } := by
  simp only [Gate.step, GState.isClient, Shared.serve, hr.1]
  by_cases hc : c.sh.clients.contains t = true
  · simp only [hc, if_true]; rw [← hr.1]
  · have hc' : c.sh.clients.contains t = false := by simpa using hc
    have := no_active_R hi hr t h
    have hm : t ∉ c.sh.clients := by simpa using hc'
    simp [hm, this]

theorem serve_contains (s : Shared) (t g : Tid) (hg : g ≠ t) : (s.serve t).clients.contains g = s.clients.contains g := by
  unfold Shared.serve
  split
  · rfl
  · simp [hg]

end NodisVerif.GateProg
