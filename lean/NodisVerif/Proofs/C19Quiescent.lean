import NodisVerif.Proofs.C19ScanIter
import NodisVerif.Model.WF
/-
  C19 helpers, part 5: the full SCAN iteration against a store that nobody else touches, and the
  facts about single calls that the property theorems quote.
-/
namespace NodisVerif.Proofs.C19Quiescent
open NodisVerif.Spec.Scan NodisVerif.Proofs.C19Iter NodisVerif.Proofs.C19Scan NodisVerif.Proofs.C19ScanIter
open NodisVerif.Proofs.AListLemmas NodisVerif.Proofs.AListLemmas2

/-- `AList.Sorted` is decidable (used for the concrete witnesses) -/
def decSorted {V : Type} : (l : AList V) → Decidable (AList.Sorted l)
  | [] => isTrue trivial
  | [_] => isTrue trivial
  | (a, _) :: (b, w) :: rest =>
    have : Decidable (AList.Sorted ((b, w) :: rest)) := decSorted ((b, w) :: rest)
    inferInstanceAs (Decidable (Bytes.lt a b = true ∧ AList.Sorted ((b, w) :: rest)))

instance {V : Type} (l : AList V) : Decidable (AList.Sorted l) := decSorted l

/-- what SCAN is expected to report about one index record: the name matches, the record has not
    expired, and its cached type is the requested one (TYPE given) -/
def Eligible (now : Int) (pat : Bytes) (typ : Nat) (e : Bytes × Meta) : Bool :=
  Glob.matched pat e.1 && !e.2.expired now && (typ == 0 || e.2.vtype == typ)

/-- the names a complete SCAN iteration is expected to report, in index order -/
def eligibleNames (now : Int) (pat : Bytes) (typ : Nat) (idx : AList Meta) : List Bytes :=
  (idx.filter (Eligible now pat typ)).map (·.1)

theorem keep_proj (now : Int) (pat : Bytes) (typ : Nat) (e : Bytes × Meta) :
    keep now pat typ (proj e) = Eligible now pat typ e := by
  have hexp : vexpired (proj e) now = e.2.expired now := rfl
  simp only [keep, Eligible, proj]
  congr 1
  by_cases h1 : typ = 0
  · simp [h1]
  · by_cases h2 : e.2.vtype = typ
    · simp [h2]
    · simp [h1, h2]

theorem kept_viewOf (now : Int) (pat : Bytes) (typ : Nat) (idx : AList Meta) :
    kept now pat typ (viewOf idx) = eligibleNames now pat typ idx := by
  unfold kept eligibleNames viewOf
  rw [List.filter_map, List.map_map]
  have : (keep now pat typ ∘ proj) = Eligible now pat typ := by
    funext e; exact keep_proj now pat typ e
  rw [this]
  rfl

theorem viewOf_take (idx : AList Meta) (k : Nat) : (viewOf idx).take k = viewOf (idx.take k) := by
  simp [viewOf, List.map_take]

theorem viewOf_drop (idx : AList Meta) (k : Nat) : (viewOf idx).drop k = viewOf (idx.drop k) := by
  simp [viewOf, List.map_drop]

theorem view_length (s : MState) : (view s).length = s.index.length := by simp [view, viewOf]

/-- the state invariant used for whole iterations: the index is a proper btree -/
def Inv (s : MState) : Prop := AList.Sorted s.index

theorem scanStep_inv (now : Int) (pat : Bytes) (count : Int) (typ : Nat) (s : MState) (c : Int) (h : Inv s) :
    Inv (scanStep now pat count typ s c).1 :=
  (scan_frame s h now c pat count typ).sorted h

theorem scanStep_view (now : Int) (pat : Bytes) (count : Int) (typ : Nat) (s : MState) (c : Int) (h : Inv s) :
    view (scanStep now pat count typ s c).1 = view s :=
  (scan_frame s h now c pat count typ).view

/-- a whole iteration of SCAN commands on a store = the iteration of `scanPure` on its view -/
theorem iterate_scan_eq (now : Int) (pat : Bytes) (count : Int) (typ : Nat) (s : MState) (hs : AList.Sorted s.index)
    (fuel : Nat) (c : Int) :
    iterateFrom (scanStep now pat count typ) fuel s c = iterateFrom (pstep (view s) now pat typ count) fuel () c :=
  iterateFrom_view_inv (scanStep now pat count typ) view (fun v c => scanPure v now c pat count typ) Inv
    (scanStep_inv now pat count typ) (scanStep_view now pat count typ) (scanStep_out now pat count typ) fuel s c hs

/-! ## count > 0 -/

/-- number of SCAN calls of a full iteration over `n` records with COUNT k > 0 -/
def callsScan (n k : Nat) : Nat :=
  if n = 0 then 1 else (n + k - 1) / k + (if Missed n k 0 then 0 else 1)

theorem scan_full_pos (s : MState) (hs : AList.Sorted s.index) (hn : (s.index.length : Int) < I63)
    (now : Int) (pat : Bytes) (typ : Nat) (k : Nat) (hk0 : 0 < k) (hk : (k : Int) < I63) :
    FullIteration (fun fuel => iterateS (scanStep now pat (k : Int) typ) fuel s)
      (callsScan s.index.length k)
      (eligibleNames now pat typ (if Missed s.index.length k 0 then s.index.dropLast else s.index)) := by
  intro fuel hfuel
  unfold iterateS terminated calls visited
  simp only
  rw [iterate_scan_eq now pat k typ s hs]
  by_cases hn0 : s.index.length = 0
  · have hnil : s.index = [] := List.eq_nil_of_length_eq_zero hn0
    simp only [callsScan, hn0, if_true] at hfuel ⊢
    obtain ⟨g, rfl⟩ : ∃ g, fuel = g + 1 := ⟨fuel - 1, by omega⟩
    rw [iterateFrom_last _ g () 0 () [] (by
      simp only [pstep]; rw [scanPure_end _ _ _ _ _ _ (by rw [view_length]; omega)])]
    simp [hnil, eligibleNames, Missed]
  · have hlen := view_length s
    have h := iter_scan (view s) now pat typ (by rw [hlen]; exact hn) k hk0 hk fuel 0 0 (Or.inl ⟨rfl, rfl⟩)
      (by rw [hlen]; omega) (by
        simp only [callsScan, hn0, if_false] at hfuel
        rw [hlen]; simpa using hfuel)
    rw [hlen] at h
    obtain ⟨h1, h2, h3⟩ := h
    refine ⟨h1, ?_, ?_⟩
    · rw [h3]; simp [callsScan, hn0]
    · rw [h2]
      simp only [List.drop_zero, Nat.sub_zero]
      by_cases hm : Missed s.index.length k 0
      · simp only [hm, if_true]
        rw [view, viewOf_take, kept_viewOf, List.dropLast_eq_take]
      · simp only [hm, if_false]
        rw [List.take_of_length_le (by rw [hlen]; omega), view, kept_viewOf]

theorem callsScan_le (n k : Nat) (hk0 : 0 < k) : callsScan n k ≤ n + 1 := by
  unfold callsScan
  split
  · omega
  · rename_i h
    have : (n + k - 1) / k ≤ n := by
      apply Nat.div_le_of_le_mul
      obtain ⟨k', rfl⟩ : ∃ k', k = k' + 1 := ⟨k - 1, by omega⟩
      obtain ⟨n', rfl⟩ : ∃ n', n = n' + 1 := ⟨n - 1, by omega⟩
      have : (k' + 1) * (n' + 1) = k' * n' + k' + n' + 1 := by
        simp [Nat.add_mul, Nat.mul_add]; omega
      omega
    split <;> omega

/-! ## count < 0 : unlimited -/

theorem scan_full_neg (s : MState) (hs : AList.Sorted s.index) (hn : (s.index.length : Int) < I63)
    (now : Int) (pat : Bytes) (typ : Nat) (count : Int) (hc : -I63 ≤ count) (hneg : count < 0) :
    FullIteration (fun fuel => iterateS (scanStep now pat count typ) fuel s)
      (if s.index.length = 0 then 1 else 2) (eligibleNames now pat typ s.index) := by
  intro fuel hfuel
  unfold iterateS terminated calls visited
  simp only
  rw [iterate_scan_eq now pat count typ s hs]
  have hlen := view_length s
  by_cases hn0 : s.index.length = 0
  · have hnil : s.index = [] := List.eq_nil_of_length_eq_zero hn0
    simp only [hn0, if_true] at hfuel ⊢
    obtain ⟨g, rfl⟩ : ∃ g, fuel = g + 1 := ⟨fuel - 1, by omega⟩
    rw [iterateFrom_last _ g () 0 () [] (by
      simp only [pstep]; rw [scanPure_end _ _ _ _ _ _ (by rw [hlen]; omega)])]
    simp [hnil, eligibleNames]
  · simp only [hn0, if_false] at hfuel ⊢
    obtain ⟨g, rfl⟩ : ∃ g, fuel = g + 1 + 1 := ⟨fuel - 2, by omega⟩
    have hne : ((view s).length : Int) ≠ 0 := by rw [hlen]; omega
    rw [iterateFrom_next _ (g + 1) () 0 () _ _ (by
      simp only [pstep]
      rw [scanPure_unl (view s) now pat typ (by rw [hlen]; exact hn) 0 count hc hneg (by omega) (by rw [hlen]; omega)]) hne]
    rw [iter_final (view s) now pat typ count g]
    simp [startOf, view, kept_viewOf]

/-! ## count = 0 -/

/-- with COUNT 0 nothing is visited and, on an index of two or more records, the cursor stays 1 -/
theorem scan_zero_stuck (s : MState) (hs : AList.Sorted s.index) (hn : (s.index.length : Int) < I63)
    (h2 : 2 ≤ s.index.length) (now : Int) (pat : Bytes) (typ : Nat) :
    ∀ fuel, iterateS (scanStep now pat 0 typ) fuel s = (List.replicate fuel [], false) := by
  intro fuel
  unfold iterateS
  rw [iterate_scan_eq now pat 0 typ s hs]
  have hlen := view_length s
  have key : ∀ (fuel : Nat) (c : Int), (c = 0 ∨ c = 1) →
      iterateFrom (pstep (view s) now pat typ 0) fuel () c = (List.replicate fuel [], false) := by
    intro fuel
    induction fuel with
    | zero => intro c _; rfl
    | succ f ih =>
      intro c hc
      have hst : startOf c = 0 := by unfold startOf; omega
      have : scanPure (view s) now c pat ((0 : Nat) : Int) typ = (1, []) := by
        rw [scanPure_lim (view s) now pat typ (by rw [hlen]; exact hn) c 0 (by unfold I63; omega) (by omega)
          (by rw [hlen]; omega), hst]
        simp [kept, hlen]; intro h0; rw [h0] at h2; simp at h2
      simp only [Int.natCast_zero] at this
      rw [iterateFrom_next _ f () c () 1 [] (by simp only [pstep, this]) (by omega)]
      rw [ih 1 (Or.inr rfl)]
      simp [List.replicate_succ]
  exact key fuel 0 (Or.inl rfl)

/-- with COUNT 0 and exactly one record: two calls, nothing reported -/
theorem scan_zero_one (s : MState) (hs : AList.Sorted s.index) (h1 : s.index.length = 1)
    (now : Int) (pat : Bytes) (typ : Nat) :
    FullIteration (fun fuel => iterateS (scanStep now pat 0 typ) fuel s) 2 [] := by
  intro fuel hfuel
  unfold iterateS terminated calls visited
  simp only
  rw [iterate_scan_eq now pat 0 typ s hs]
  have hlen := view_length s
  obtain ⟨g, rfl⟩ : ∃ g, fuel = g + 1 + 1 := ⟨fuel - 2, by omega⟩
  have : scanPure (view s) now 0 pat ((0 : Nat) : Int) typ = (1, []) := by
    rw [scanPure_lim (view s) now pat typ (by rw [hlen, h1]; unfold I63; omega) 0 0 (by unfold I63; omega) (by omega)
      (by rw [hlen]; omega)]
    simp [kept, hlen, h1, startOf]
  simp only [Int.natCast_zero] at this
  rw [iterateFrom_next _ (g + 1) () 0 () 1 [] (by simp only [pstep, this]) (by omega)]
  have h := iter_final (view s) now pat typ 0 g
  rw [hlen, h1] at h
  simp only [Int.natCast_one] at h
  rw [h]
  simp

/-! ## single calls -/

/-- everything a call (any cursor, any count, any state) reports is the name of an eligible record -/
theorem goPure_sound (now : Int) (pat : Bytes) (typ : Nat) (keyLen : Int) :
    ∀ (ents : List VEnt) (cursor iter count : Int) (acc : List Bytes) (x : Bytes),
      x ∈ (goPure now pat typ keyLen ents cursor iter count acc).2 →
      x ∈ acc ∨ ∃ e ∈ ents, e.1 = x ∧ keep now pat typ e = true := by
  intro ents
  induction ents with
  | nil => intro cursor iter count acc x hx; simp [goPure] at hx; exact Or.inl hx
  | cons e rest ih =>
    intro cursor iter count acc x hx
    rw [goPure] at hx
    simp only at hx
    have lift : (x ∈ acc ∨ ∃ e' ∈ rest, e'.1 = x ∧ keep now pat typ e' = true) →
        x ∈ acc ∨ ∃ e' ∈ e :: rest, e'.1 = x ∧ keep now pat typ e' = true := by
      rintro (h | ⟨e', he', h⟩)
      · exact Or.inl h
      · exact Or.inr ⟨e', List.mem_cons_of_mem _ he', h⟩
    split at hx
    · exact lift (ih _ _ _ _ _ hx)
    · split at hx
      · simp at hx; exact Or.inl hx
      · split at hx
        · simp at hx; exact Or.inl hx
        · split at hx
          · rename_i hk
            rcases ih _ _ _ _ _ hx with h | h
            · rcases List.mem_cons.mp h with rfl | h
              · exact Or.inr ⟨e, List.mem_cons_self, rfl, hk⟩
              · exact Or.inl h
            · exact lift (Or.inr h)
          · exact lift (ih _ _ _ _ _ hx)

theorem scanPure_sound (v : List VEnt) (now cursor : Int) (pat : Bytes) (count : Int) (typ : Nat) (x : Bytes)
    (hx : x ∈ (scanPure v now cursor pat count typ).2) : ∃ e ∈ v, e.1 = x ∧ keep now pat typ e = true := by
  unfold scanPure at hx
  simp only at hx
  split at hx
  · simp at hx
  · split at hx
    · simp at hx
    · rcases goPure_sound now pat typ _ v cursor 0 count [] x hx with h | h
      · simp at h
      · exact h

theorem scan_sound (s : MState) (now cursor : Int) (pat : Bytes) (count : Int) (typ : Nat) (x : Bytes)
    (hx : x ∈ (scanStep now pat count typ s cursor).2.2) :
    ∃ m, (x, m) ∈ s.index ∧ Eligible now pat typ (x, m) = true := by
  rw [scanStep_out] at hx
  obtain ⟨e, he, rfl, hk⟩ := scanPure_sound _ _ _ _ _ _ _ hx
  simp only [view, viewOf, List.mem_map] at he
  obtain ⟨⟨k, m⟩, hmem, rfl⟩ := he
  exact ⟨m, hmem, by rw [← keep_proj]; exact hk⟩

/-- the eligible names of a proper index are pairwise different -/
theorem eligibleNames_nodup (now : Int) (pat : Bytes) (typ : Nat) (idx : AList Meta) (hs : AList.Sorted idx) :
    (eligibleNames now pat typ idx).Nodup := by
  have hsub : (eligibleNames now pat typ idx).Sublist (AList.keys idx) := by
    unfold eligibleNames AList.keys
    exact List.Sublist.map _ List.filter_sublist
  exact hsub.nodup (keys_nodup idx hs)

end NodisVerif.Proofs.C19Quiescent
