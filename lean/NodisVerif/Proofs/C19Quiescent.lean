import NodisVerif.Proofs.C19ScanIter
import NodisVerif.Model.WF
/-
  C19 helpers, part 5: the full SCAN iteration against a store that nobody else touches, and the
  facts about single calls that the property theorems quote.
-/
namespace NodisVerif.Proofs.C19Quiescent
open NodisVerif.Spec.Scan NodisVerif.Proofs.C19Iter NodisVerif.Proofs.C19Scan NodisVerif.Proofs.C19ScanIter
open NodisVerif.Proofs.AListLemmas NodisVerif.Proofs.AListLemmas2

/-- `AList.Sorted` is decidable (used for the concrete witnesses) -/
def decSorted {V : Type} : (l : AList V) → Decidable (AList.Sorted l)
  | [] => isTrue trivial
  | [_] => isTrue trivial
  | (a, _) :: (b, w) :: rest =>
    have : Decidable (AList.Sorted ((b, w) :: rest)) := decSorted ((b, w) :: rest)
    inferInstanceAs (Decidable (Bytes.lt a b = true ∧ AList.Sorted ((b, w) :: rest)))

instance {V : Type} (l : AList V) : Decidable (AList.Sorted l) := decSorted l

/-- what SCAN is expected to report about one index record of store `s`: the name matches, the
    record has not expired, and (TYPE given) its value has the requested type — the cached type,
    or for a record whose value was never loaded the type of the value in the backend (`etype`) -/
def Eligible (s : MState) (now : Int) (pat : Bytes) (typ : Nat) (e : Bytes × Meta) : Bool :=
  Glob.matched pat e.1 && !e.2.expired now && (typ == 0 || etype s typ e == typ)

/-- the names a complete SCAN iteration is expected to report, in index order -/
def eligibleNames (s : MState) (now : Int) (pat : Bytes) (typ : Nat) (idx : AList Meta) : List Bytes :=
  (idx.filter (Eligible s now pat typ)).map (·.1)

theorem keep_proj (s : MState) (now : Int) (pat : Bytes) (typ : Nat) (e : Bytes × Meta) :
    keep now pat typ (proj s typ e) = Eligible s now pat typ e := by
  simp only [keep, Eligible, proj]
  congr 1
  by_cases h1 : typ = 0
  · simp [h1]
  · by_cases h2 : etype s typ e = typ
    · simp [h2]
    · simp [h1, h2]

theorem kept_viewOf (s : MState) (now : Int) (pat : Bytes) (typ : Nat) (idx : AList Meta) :
    kept now pat typ (viewOf s typ idx) = eligibleNames s now pat typ idx := by
  unfold kept eligibleNames viewOf
  rw [List.filter_map, List.map_map]
  have : (keep now pat typ ∘ proj s typ) = Eligible s now pat typ := by
    funext e; exact keep_proj s now pat typ e
  rw [this]
  rfl

theorem view_length (s : MState) (typ : Nat) : (view s typ).length = s.index.length := by simp [view, viewOf]

/-- the state invariant used for whole iterations: the index is a proper btree -/
def Inv (s : MState) : Prop := AList.Sorted s.index

theorem scanStep_inv (now : Int) (pat : Bytes) (count : Int) (typ : Nat) (s : MState) (c : Int) (h : Inv s) :
    Inv (scanStep now pat count typ s c).1 :=
  (scan_frame s h now c pat count typ).sorted h

theorem scanStep_view (now : Int) (pat : Bytes) (count : Int) (typ : Nat) (s : MState) (c : Int) (h : Inv s) :
    view (scanStep now pat count typ s c).1 typ = view s typ :=
  (scan_frame s h now c pat count typ).view_eq

/-- a whole iteration of SCAN commands on a store = the iteration of `scanPure` on its view -/
theorem iterate_scan_eq (now : Int) (pat : Bytes) (count : Int) (typ : Nat) (s : MState) (hs : AList.Sorted s.index)
    (fuel : Nat) (c : Int) :
    iterateFrom (scanStep now pat count typ) fuel s c = iterateFrom (pstep (view s typ) now pat typ count) fuel () c :=
  iterateFrom_view_inv (scanStep now pat count typ) (fun s => view s typ) (fun v c => scanPure v now c pat count typ) Inv
    (scanStep_inv now pat count typ) (scanStep_view now pat count typ) (scanStep_out now pat count typ) fuel s c hs

/-! ## count > 0 -/

/-- number of SCAN calls of a full iteration over `n` records with COUNT k > 0: ⌈n / k⌉, and one
    call on an empty index -/
def callsScan (n k : Nat) : Nat := if n = 0 then 1 else (n + k - 1) / k

theorem scan_full_pos (s : MState) (hs : AList.Sorted s.index) (hn : (s.index.length : Int) < I63)
    (now : Int) (pat : Bytes) (typ : Nat) (k : Nat) (hk0 : 0 < k) (hk : (k : Int) < I63) :
    FullIteration (fun fuel => iterateS (scanStep now pat (k : Int) typ) fuel s)
      (callsScan s.index.length k) (eligibleNames s now pat typ s.index) := by
  intro fuel hfuel
  unfold iterateS terminated calls visited
  simp only
  rw [iterate_scan_eq now pat k typ s hs]
  have hlen := view_length s typ
  by_cases hn0 : s.index.length = 0
  · have hnil : s.index = [] := List.eq_nil_of_length_eq_zero hn0
    simp only [callsScan, hn0, if_true] at hfuel ⊢
    obtain ⟨g, rfl⟩ : ∃ g, fuel = g + 1 := ⟨fuel - 1, by omega⟩
    rw [iterateFrom_last _ g () 0 () [] (by
      simp only [pstep]; rw [scanPure_empty _ _ _ _ _ _ (by rw [hlen]; exact hn0)])]
    simp [hnil, eligibleNames]
  · have h := iter_scan (view s typ) now pat typ (by rw [hlen]; exact hn) k hk0 hk fuel 0 0 (Or.inl ⟨rfl, rfl⟩)
      (by rw [hlen]; omega) (by
        simp only [callsScan, hn0, if_false] at hfuel
        rw [hlen]; simpa using hfuel)
    rw [hlen] at h
    obtain ⟨h1, h2, h3⟩ := h
    refine ⟨h1, ?_, ?_⟩
    · rw [h3]; simp [callsScan, hn0]
    · rw [h2]
      simp only [List.drop_zero]
      rw [view, kept_viewOf]

theorem callsScan_le (n k : Nat) (hk0 : 0 < k) : callsScan n k ≤ max n 1 := by
  unfold callsScan
  split
  · omega
  · rename_i h
    have : (n + k - 1) / k ≤ n := by
      apply Nat.div_le_of_le_mul
      obtain ⟨k', rfl⟩ : ∃ k', k = k' + 1 := ⟨k - 1, by omega⟩
      obtain ⟨n', rfl⟩ : ∃ n', n = n' + 1 := ⟨n - 1, by omega⟩
      have : (k' + 1) * (n' + 1) = k' * n' + k' + n' + 1 := by
        simp [Nat.add_mul, Nat.mul_add]; omega
      omega
    omega

/-- `callsScan n k` is the ceiling of n / k -/
theorem callsScan_ceil (n k : Nat) (hk0 : 0 < k) (hn : 0 < n) :
    n ≤ callsScan n k * k ∧ (callsScan n k - 1) * k < n := by
  unfold callsScan
  rw [if_neg (by omega)]
  have h1 := Nat.div_add_mod (n + k - 1) k
  have h2 := Nat.mod_lt (n + k - 1) hk0
  generalize (n + k - 1) / k = q at h1
  generalize (n + k - 1) % k = r at h1 h2
  rw [Nat.mul_comm] at h1
  constructor
  · omega
  · obtain ⟨q', rfl⟩ | rfl : (∃ q', q = q' + 1) ∨ q = 0 := by
      cases q with | zero => right; rfl | succ q' => left; exact ⟨q', rfl⟩
    · simp only [Nat.add_sub_cancel]
      rw [Nat.add_mul] at h1
      omega
    · simp; omega

/-! ## count < 0 : unlimited -/

theorem scan_full_neg (s : MState) (hs : AList.Sorted s.index) (hn : (s.index.length : Int) < I63)
    (now : Int) (pat : Bytes) (typ : Nat) (count : Int) (hc : -I63 ≤ count) (hneg : count < 0) :
    FullIteration (fun fuel => iterateS (scanStep now pat count typ) fuel s) 1 (eligibleNames s now pat typ s.index) := by
  intro fuel hfuel
  unfold iterateS terminated calls visited
  simp only
  rw [iterate_scan_eq now pat count typ s hs]
  have hlen := view_length s typ
  obtain ⟨g, rfl⟩ : ∃ g, fuel = g + 1 := ⟨fuel - 1, by omega⟩
  by_cases hn0 : s.index.length = 0
  · have hnil : s.index = [] := List.eq_nil_of_length_eq_zero hn0
    rw [iterateFrom_last _ g () 0 () [] (by
      simp only [pstep]; rw [scanPure_empty _ _ _ _ _ _ (by rw [hlen]; exact hn0)])]
    simp [hnil, eligibleNames]
  · rw [iterateFrom_last _ g () 0 () _ (by
      simp only [pstep]
      rw [scanPure_unl (view s typ) now pat typ (by rw [hlen]; exact hn) 0 count hc hneg (by omega)
        (by rw [hlen]; omega) (by rw [hlen]; omega)])]
    simp [startOf, view, kept_viewOf]

/-! ## count = 0 -/

/-- with COUNT 0 nothing is visited and, on a non-empty index, the cursor stays 1 -/
theorem scan_zero_stuck (s : MState) (hs : AList.Sorted s.index) (hn : (s.index.length : Int) < I63)
    (h1 : 1 ≤ s.index.length) (now : Int) (pat : Bytes) (typ : Nat) :
    ∀ fuel, iterateS (scanStep now pat 0 typ) fuel s = (List.replicate fuel [], false) := by
  intro fuel
  unfold iterateS
  rw [iterate_scan_eq now pat 0 typ s hs]
  have hlen := view_length s typ
  have key : ∀ (fuel : Nat) (c : Int), (c = 0 ∨ c = 1) →
      iterateFrom (pstep (view s typ) now pat typ 0) fuel () c = (List.replicate fuel [], false) := by
    intro fuel
    induction fuel with
    | zero => intro c _; rfl
    | succ f ih =>
      intro c hc
      have hst : startOf c = 0 := by unfold startOf; omega
      have : scanPure (view s typ) now c pat ((0 : Nat) : Int) typ = (1, []) := by
        rw [scanPure_lim (view s typ) now pat typ (by rw [hlen]; exact hn) c 0 (by unfold I63; omega) (by omega)
          (by rw [hlen]; omega) (by rw [hlen]; omega), hst]
        simp only [kept, Nat.sub_zero, Nat.le_zero_eq, List.length_eq_zero_iff]
        have hne : ¬ (view s typ = []) := by
          intro h0; rw [h0] at hlen; simp at hlen; omega
        simp [hne]
      simp only [Int.natCast_zero] at this
      rw [iterateFrom_next _ f () c () 1 [] (by simp only [pstep, this]) (by omega)]
      rw [ih 1 (Or.inr rfl)]
      simp [List.replicate_succ]
  exact key fuel 0 (Or.inl rfl)

/-! ## single calls -/

/-- everything a call (any cursor, any count, any view) reports is the name of a kept entry -/
theorem goPure_sound (now : Int) (pat : Bytes) (typ : Nat) :
    ∀ (ents : List VEnt) (cursor iter count : Int) (acc : List Bytes) (x : Bytes),
      x ∈ (goPure now pat typ ents cursor iter count acc).2 →
      x ∈ acc ∨ ∃ e ∈ ents, e.1 = x ∧ keep now pat typ e = true := by
  intro ents
  induction ents with
  | nil => intro cursor iter count acc x hx; simp [goPure] at hx; exact Or.inl hx
  | cons e rest ih =>
    intro cursor iter count acc x hx
    rw [goPure] at hx
    simp only at hx
    have lift : (x ∈ acc ∨ ∃ e' ∈ rest, e'.1 = x ∧ keep now pat typ e' = true) →
        x ∈ acc ∨ ∃ e' ∈ e :: rest, e'.1 = x ∧ keep now pat typ e' = true := by
      rintro (h | ⟨e', he', h⟩)
      · exact Or.inl h
      · exact Or.inr ⟨e', List.mem_cons_of_mem _ he', h⟩
    split at hx
    · exact lift (ih _ _ _ _ _ hx)
    · split at hx
      · simp at hx; exact Or.inl hx
      · split at hx
        · rename_i hk
          rcases ih _ _ _ _ _ hx with h | h
          · rcases List.mem_cons.mp h with rfl | h
            · exact Or.inr ⟨e, List.mem_cons_self, rfl, hk⟩
            · exact Or.inl h
          · exact lift (Or.inr h)
        · exact lift (ih _ _ _ _ _ hx)

theorem scanPure_sound (v : List VEnt) (now cursor : Int) (pat : Bytes) (count : Int) (typ : Nat) (x : Bytes)
    (hx : x ∈ (scanPure v now cursor pat count typ).2) : ∃ e ∈ v, e.1 = x ∧ keep now pat typ e = true := by
  unfold scanPure at hx
  simp only at hx
  split at hx
  · simp at hx
  · split at hx
    · simp at hx
    · rcases goPure_sound now pat typ v cursor 0 count [] x hx with h | h
      · simp at h
      · exact h

theorem scan_sound (s : MState) (now cursor : Int) (pat : Bytes) (count : Int) (typ : Nat) (x : Bytes)
    (hx : x ∈ (scanStep now pat count typ s cursor).2.2) :
    ∃ m, (x, m) ∈ s.index ∧ Eligible s now pat typ (x, m) = true := by
  rw [scanStep_out] at hx
  obtain ⟨e, he, rfl, hk⟩ := scanPure_sound _ _ _ _ _ _ _ hx
  simp only [view, viewOf, List.mem_map] at he
  obtain ⟨⟨k, m⟩, hmem, rfl⟩ := he
  exact ⟨m, hmem, by rw [← keep_proj]; exact hk⟩

/-- the eligible names of a proper index are pairwise different -/
theorem eligibleNames_nodup (s : MState) (now : Int) (pat : Bytes) (typ : Nat) (idx : AList Meta) (hs : AList.Sorted idx) :
    (eligibleNames s now pat typ idx).Nodup := by
  have hsub : (eligibleNames s now pat typ idx).Sublist (AList.keys idx) := by
    unfold eligibleNames AList.keys
    exact List.Sublist.map _ List.filter_sublist
  exact hsub.nodup (keys_nodup idx hs)

/-! ## stores that differ only in which values are in memory -/

/-- forget the in-memory value of a record -/
def forgetValue (e : Bytes × Meta) : Bytes × Meta := (e.1, { e.2 with value := none })

/-- "differ only in hot/cold-ness": same index once every in-memory value is forgotten -/
def HotColdVariant (s t : MState) : Prop := s.index.map forgetValue = t.index.map forgetValue

/-- a record without cached type has no value in memory (`setValue` sets both) -/
def Coherent (s : MState) : Prop := ∀ e ∈ s.index, e.2.vtype = 0 → e.2.value = none

theorem map_congr_of_map_eq {α β γ : Type} (f : α → β) (g g' : α → γ) : ∀ (l1 l2 : List α),
    l1.map f = l2.map f → (∀ a ∈ l1, ∀ b ∈ l2, f a = f b → g a = g' b) → l1.map g = l2.map g' := by
  intro l1
  induction l1 with
  | nil => intro l2 h _; cases l2 with | nil => rfl | cons b r => simp at h
  | cons a r ih =>
    intro l2 h hp
    cases l2 with
    | nil => simp at h
    | cons b r2 =>
      simp only [List.map_cons, List.cons.injEq] at h ⊢
      exact ⟨hp a List.mem_cons_self b List.mem_cons_self h.1,
        ih r2 h.2 (fun a' ha b' hb => hp a' (List.mem_cons_of_mem _ ha) b' (List.mem_cons_of_mem _ hb))⟩

/-- hot/cold variants over the same backend present the same view to every SCAN -/
theorem view_eq_of_hotCold (s t : MState) (h : HotColdVariant s t) (hd : s.disk = t.disk) (hp : s.pebble = t.pebble)
    (cs : Coherent s) (ct : Coherent t) (typ : Nat) : view s typ = view t typ := by
  unfold view viewOf
  apply map_congr_of_map_eq forgetValue (proj s typ) (proj t typ) s.index t.index h
  intro a ha b hb hab
  have h1 : a.1 = b.1 := by have := congrArg (fun e => e.1) hab; exact this
  have hexp : a.2.exp = b.2.exp := by have := congrArg (fun e => e.2.exp) hab; exact this
  have hvt : a.2.vtype = b.2.vtype := by have := congrArg (fun e => e.2.vtype) hab; exact this
  have het : etype s typ a = etype t typ b := by
    unfold etype
    by_cases hc : typ ≠ 0 ∧ a.2.vtype = 0
    · have va : a.2.value = none := cs a ha hc.2
      have vb : b.2.value = none := ct b hb (by rw [← hvt]; exact hc.2)
      have hl : Store.loadValue s a.1 a.2 = Store.loadValue t b.1 b.2 := by
        simp only [Store.loadValue, Store.diskGet, hd, hp, h1, hexp]
      rw [if_pos ⟨hc.1, hc.2, by rw [va]; rfl⟩, if_pos ⟨hc.1, by rw [← hvt]; exact hc.2, by rw [vb]; rfl⟩, hl, hvt]
    · have hc' : ¬ (typ ≠ 0 ∧ a.2.vtype = 0 ∧ a.2.value.isNone = true) := fun x => hc ⟨x.1, x.2.1⟩
      have hc'' : ¬ (typ ≠ 0 ∧ b.2.vtype = 0 ∧ b.2.value.isNone = true) := fun x => hc ⟨x.1, by rw [hvt]; exact x.2.1⟩
      rw [if_neg hc', if_neg hc'', hvt]
  simp only [proj, h1, hexp, het]

theorem hotCold_sorted {s t : MState} (h : HotColdVariant s t) : AList.Sorted s.index ↔ AList.Sorted t.index := by
  have hk : ∀ (l : AList Meta), AList.Sorted l ↔ (l.map forgetValue).Pairwise KeyLt := by
    intro l; rw [sorted_iff_pairwise, List.pairwise_map]; exact Iff.rfl
  unfold HotColdVariant at h
  rw [hk, hk, h]

end NodisVerif.Proofs.C19Quiescent
