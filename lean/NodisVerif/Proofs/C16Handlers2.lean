import NodisVerif.Proofs.C16Handlers
/-
  C16, handler level, part 2: SET, MSET, KEYS, SCAN, MGET (partial + finding), `table1_one_reply`.
-/
namespace NodisVerif.Proofs.C16Handlers
open NodisVerif NodisVerif.Resp NodisVerif.Handler

/-! ## shape of API results (dead branches of the handlers) -/

/-- `Api.get` returns only `.bytes _` or `.panic`: the third alternative of the `match` in
    `setString` (GET option) and in `mGet.go` is dead -/
theorem get_out (s : MState) (now : Int) (k : Bytes) :
    (∃ b, (Api.get s now k).2 = Out.bytes b) ∨ (Api.get s now k).2 = Out.panic := by
  unfold Api.get
  generalize Store.readKey s now k = r
  obtain ⟨s', okk⟩ := r
  dsimp only
  split
  · exact Or.inl ⟨_, rfl⟩
  · split
    · exact Or.inr rfl
    · exact Or.inl ⟨_, rfl⟩

/-- `Api.keys` always returns `.slist`: the `| _ => []` alternative of `Handler.keys` is dead -/
theorem keys_out (s : MState) (now : Int) (pat : Bytes) : ∃ ks, (Api.keys s now pat).2 = Out.slist ks :=
  ⟨_, rfl⟩

/-- `Api.scan` always returns `.many [.int next, .slist ks]`: the `| _ => done s []` alternative of
    `Handler.scan` is dead -/
theorem scan_out (s : MState) (now cursor : Int) (pat : Bytes) (count : Int) (typ : Nat) :
    ∃ next ks, (Api.scan s now cursor pat count typ).2 = Out.many [Out.int next, Out.slist ks] := by
  unfold Api.scan
  dsimp only
  split
  · exact ⟨_, _, rfl⟩
  · split
    · exact ⟨_, _, rfl⟩
    · generalize Api.scan.go now pat typ _ _ _ _ _ _ _ = r
      obtain ⟨a, b, c⟩ := r
      exact ⟨_, _, rfl⟩

/-! ## SET -/

theorem one_reply_setString (args : List Bytes) : OneReply (Handler.setString args) := by
  unfold Handler.setString
  split
  · rename_i key value rest
    intro s now ch
    show Good _
    dsimp only
    generalize (ite (opt (key :: value :: rest) "GET" > 1) _ _ : MState × Option Bytes × Bool) = X
    obtain ⟨s1, getR, gp⟩ := X
    dsimp only
    split
    · exact good_panic_nil _
    · generalize (ite (opt (key :: value :: rest) "NX" > 1) _ _ : MState × Option Bool) = wr
      obtain ⟨s2, w⟩ := wr
      cases w with
      | none => exact good_panic_nil _
      | some b =>
        cases b with
        | false => exact good_done_scalar _ _ rfl
        | true =>
          dsimp only
          repeat' split
          all_goals first
            | exact good_panic_nil _
            | exact good_done_scalar _ _ rfl
            | (apply good_call_all; intro s o; apply good_done_scalar; scal)
  · exact oneReply_errReply

/-! ## MSET -/

theorem good_mSet_go (now : Int) : ∀ (ps : List (Bytes × Bytes)) (s : MState), Good (mSet.go now ps s) := by
  intro ps
  induction ps with
  | nil => intro s; rw [mSet.go]; exact good_done_scalar _ _ rfl
  | cons p ps ih =>
    intro s
    obtain ⟨k, v⟩ := p
    rw [mSet.go]
    split
    · exact good_panic_nil _
    · exact ih _

theorem one_reply_mSet (args : List Bytes) : OneReply (Handler.mSet args) := by
  unfold Handler.mSet
  split
  · exact oneReply_errReply
  · intro s now ch
    exact good_mSet_go now _ _

/-! ## KEYS -/

theorem one_reply_keys (args : List Bytes) : OneReply (Handler.keys args) := by
  unfold Handler.keys
  split
  · intro s now ch
    apply good_call
    intro _
    exact good_done _ _ (oneValue_bulkList _)
  · exact oneReply_errReply

/-! ## SCAN -/

/-- the reply of SCAN: `*2`, the cursor, and the array of keys -/
theorem oneValue_scanReply (c : Bytes) (ks : List Bytes) :
    oneValue ([Tok.arr 2, Tok.bulk c] ++ bulkList ks) = true := by
  have := oneValue_arr_flatten [[Tok.bulk c], bulkList ks] (by
    intro v hv
    simp only [List.mem_cons, List.mem_nil_iff, or_false] at hv
    rcases hv with rfl | rfl
    · exact oneValue_scalar _ rfl
    · exact oneValue_bulkList ks)
  simpa using this

theorem good_scan_body (s : MState) (now cursor : Int) (pat : Bytes) (count : Int) (typ : Nat) :
    Good (call (Api.scan s now cursor pat count typ) fun s o =>
            match o with
            | .many [.int next, .slist ks] => done s ([.arr 2, .bulk (formatInt next)] ++ bulkList ks)
            | _ => done s []) := by
  apply good_call
  intro _
  obtain ⟨next, ks, h⟩ := scan_out s now cursor pat count typ
  rw [h]
  exact good_done _ _ (oneValue_scanReply _ ks)

theorem one_reply_scan (args : List Bytes) : OneReply (Handler.scan args) := by
  unfold Handler.scan
  split
  · exact oneReply_errReply
  · split
    · exact oneReply_errReply
    · dsimp only
      split
      · trivial
      · split
        · trivial
        · exact oneReply_errReply
        · split
          · exact oneReply_errReply
          · split
            · trivial
            · intro s now ch
              exact good_scan_body _ _ _ _ _ _

/-! ## MGET

  Full-strength statement (FALSE in the model, see `one_reply_mGet_finding`):
      theorem one_reply_mGet (args : List Bytes) : OneReply (Handler.mGet args)
  MGET writes the array header `*n` first and then one element per key; a key of the wrong type
  panics in `Api.get` after `j` elements have been written, and the recovered panic appends one
  error.  The reply `*n, e₁ … e_j, -WRONGTYPE` is one value iff `j = n - 1`. -/

/-- position of the first key whose `Api.get` panics, in the running store -/
def mGetPanicAt (now : Int) : List Bytes → MState → Option Nat
  | [], _ => none
  | k :: rest, s =>
    match Api.get s now k with
    | (_, .panic) => some 0
    | (s', _) => (mGetPanicAt now rest (commit s')).map (· + 1)

/-- the finding region's complement: no operand panics, or only the last one does -/
def MGetOK (args : List Bytes) (s : MState) (now : Int) : Prop :=
  mGetPanicAt now args s = none ∨ mGetPanicAt now args s = some (args.length - 1)

instance (args : List Bytes) (s : MState) (now : Int) : Decidable (MGetOK args s now) := by
  unfold MGetOK; infer_instance

theorem scalar_optBulk (b : Option Bytes) : isScalar (optBulk b) = true := by
  cases b <;> rfl

/-- what the loop writes: the accumulated tokens plus one scalar per key up to the panic -/
theorem mGet_go_spec (now : Int) : ∀ (ks : List Bytes) (s : MState) (acc : List Tok),
    match mGetPanicAt now ks s with
    | none => (mGet.go now ks s acc).panicked = false ∧
        ∃ xs : List Tok, xs.length = ks.length ∧ (∀ t ∈ xs, isScalar t = true) ∧
          (mGet.go now ks s acc).toks = acc ++ xs
    | some j => (mGet.go now ks s acc).panicked = true ∧ j < ks.length ∧
        ∃ xs : List Tok, xs.length = j ∧ (∀ t ∈ xs, isScalar t = true) ∧
          (mGet.go now ks s acc).toks = acc ++ xs := by
  intro ks
  induction ks with
  | nil =>
    intro s acc
    rw [mGetPanicAt, mGet.go]
    exact ⟨rfl, [], rfl, by simp, by simp [done]⟩
  | cons k rest ih =>
    intro s acc
    rw [mGetPanicAt, mGet.go]
    have hg := get_out s now k
    generalize Api.get s now k = r at hg
    obtain ⟨s', o⟩ := r
    rcases hg with ⟨b, hb⟩ | hp
    · dsimp only at hb
      subst hb
      dsimp only
      have := ih (commit s') (acc ++ [optBulk b])
      cases hpa : mGetPanicAt now rest (commit s') with
      | none =>
        rw [hpa] at this
        obtain ⟨h1, xs, hl, hs, ht⟩ := this
        refine ⟨h1, optBulk b :: xs, by simp [hl], ?_, by rw [ht]; simp⟩
        intro t ht'
        cases ht' with
        | head => exact scalar_optBulk b
        | tail _ h' => exact hs t h'
      | some j =>
        rw [hpa] at this
        obtain ⟨h1, hj, xs, hl, hs, ht⟩ := this
        refine ⟨h1, by simp only [List.length_cons]; omega, optBulk b :: xs, by simp [hl], ?_, by rw [ht]; simp⟩
        intro t ht'
        cases ht' with
        | head => exact scalar_optBulk b
        | tail _ h' => exact hs t h'
    · dsimp only at hp
      subst hp
      dsimp only
      exact ⟨rfl, by simp, [], rfl, by simp, by simp⟩

/-- exact characterisation: the MGET closure's reply is one value iff no operand panics or only the
    last one does -/
theorem mGet_go_oneValue_iff (now : Int) (args : List Bytes) (s : MState) :
    oneValue (replyOf (mGet.go now args s [Tok.arr args.length])) = true ↔ MGetOK args s now := by
  have hspec := mGet_go_spec now args s [Tok.arr args.length]
  unfold MGetOK
  cases hpa : mGetPanicAt now args s with
  | none =>
    rw [hpa] at hspec
    obtain ⟨h1, xs, hl, hs, ht⟩ := hspec
    simp only [true_or, iff_true]
    unfold replyOf
    rw [h1, ht]
    simp only [Bool.false_eq_true, if_false, List.cons_append, List.nil_append]
    rw [← hl]
    exact oneValue_arr_scalars xs hs
  | some j =>
    rw [hpa] at hspec
    obtain ⟨h1, hj, xs, hl, hs, ht⟩ := hspec
    unfold replyOf
    rw [h1, ht]
    simp only [if_true, List.cons_append, List.nil_append, reduceCtorEq, false_or, Option.some.injEq]
    by_cases hlast : j = args.length - 1
    · simp only [hlast, iff_true]
      have hlen : (args.length : Int) = ((xs ++ [Tok.err 1]).length : Nat) := by
        simp only [List.length_append, List.length_cons, List.length_nil]; omega
      rw [hlen]
      apply oneValue_arr_scalars
      intro t ht'
      rw [List.mem_append] at ht'
      rcases ht' with h' | h'
      · exact hs t h'
      · simp only [List.mem_cons, List.mem_nil_iff, or_false] at h'; subst h'; rfl
    · have : oneValue (Tok.arr args.length :: (xs ++ [Tok.err 1])) = false := by
        apply oneValue_arr_short
        simp only [List.length_append, List.length_cons, List.length_nil]
        omega
      rw [this]
      simp [hlast]

/-- `OneReply` restricted to the (store, clock) pairs satisfying `P` -/
def OneReplyOn (P : MState → Int → Prop) : HRes → Prop
  | .direct ts => oneValue ts = true
  | .exec b => ∀ (s : MState) (now : Int) (ch : Choice), P s now → oneValue (replyOf (b s now ch)) = true
  | .crash => True

/-- MGET outside the finding region: every argument vector, every store and clock in which no
    operand other than the last one is of the wrong type -/
theorem one_reply_mGet_partial (args : List Bytes) : OneReplyOn (MGetOK args) (Handler.mGet args) := by
  unfold Handler.mGet
  split
  · exact oneReply_errReply
  · intro s now ch h
    exact (mGet_go_oneValue_iff now args s).2 h

/-- MGET inside the finding region: the reply is NOT one value -/
theorem one_reply_mGet_region (args : List Bytes) (hne : args ≠ []) (s : MState) (now : Int) (ch : Choice)
    (h : ¬ MGetOK args s now) :
    ∃ b, Handler.mGet args = HRes.exec b ∧ oneValue (replyOf (b s now ch)) = false := by
  unfold Handler.mGet
  have : args.isEmpty = false := by cases args <;> simp_all
  rw [if_neg (by simp [this])]
  refine ⟨_, rfl, ?_⟩
  cases hc : oneValue (replyOf (mGet.go now args s [Tok.arr args.length])) with
  | false => rfl
  | true => exact absurd ((mGet_go_oneValue_iff now args s).1 hc) h

/-- weaker, hypothesis-on-the-run form: a MGET closure that does not panic writes one value -/
theorem one_reply_mGet_nopanic (args : List Bytes) (s : MState) (now : Int)
    (h : (mGet.go now args s [Tok.arr args.length]).panicked = false) :
    oneValue (replyOf (mGet.go now args s [Tok.arr args.length])) = true := by
  apply (mGet_go_oneValue_iff now args s).2
  left
  have hspec := mGet_go_spec now args s [Tok.arr args.length]
  cases hpa : mGetPanicAt now args s with
  | none => rfl
  | some j => rw [hpa] at hspec; rw [hspec.1] at h; cases h

/-- the witness store: the reachable store after `LPUSH a x` on the empty store -/
def findingStore : MState := (Api.push true {} 0 [97] [[120]]).1

/-- FINDING: `MGET a b` where `a` holds a list: the closure writes `*2` and then panics; the reply
    `*2, -WRONGTYPE` is an incomplete array -/
theorem one_reply_mGet_finding_reply :
    ∃ b, Handler.mGet [[97], [98]] = HRes.exec b ∧
      replyOf (b findingStore 0 none) = [Tok.arr 2, Tok.err 1] :=
  ⟨_, rfl, by decide⟩

theorem one_reply_mGet_finding :
    ∃ b, Handler.mGet [[97], [98]] = HRes.exec b ∧ oneValue (replyOf (b findingStore 0 none)) = false := by
  obtain ⟨b, hb, hr⟩ := one_reply_mGet_finding_reply
  refine ⟨b, hb, ?_⟩
  rw [hr]
  exact oneValue_arr_short 2 [Tok.err 1] (by decide)

/-- hence the full-strength statement fails for MGET -/
theorem not_one_reply_mGet : ¬ OneReply (Handler.mGet [[97], [98]]) := by
  intro h
  obtain ⟨b, hb, hr⟩ := one_reply_mGet_finding
  rw [hb] at h
  have := h findingStore 0 none
  rw [hr] at this
  cases this

/-- the witness is inside the region -/
theorem finding_in_region : ¬ MGetOK [[97], [98]] findingStore 0 := by decide

/-- the last-key subtlety: `MGET b a` with the wrong-typed key LAST is one value (`*2, $-1, -WRONGTYPE`) -/
theorem mGet_last_key_panics_ok :
    ∃ b, Handler.mGet [[98], [97]] = HRes.exec b ∧
      replyOf (b findingStore 0 none) = [Tok.arr 2, Tok.nullBulk, Tok.err 1] ∧
      oneValue (replyOf (b findingStore 0 none)) = true := by
  refine ⟨_, rfl, by decide, ?_⟩
  exact (mGet_go_oneValue_iff 0 [[98], [97]] findingStore).2 (by decide)

/-! ## the dispatch table -/

theorem table1_one_reply (name : String) (args : List Bytes) (r : HRes)
    (h : Handler.table1 name args = some r) (hm : name ≠ "MGET") : OneReply r := by
  unfold Handler.table1 at h
  split at h <;> first
    | (exact absurd rfl hm)
    | (cases h; done)
    | (cases h
       first
       | exact one_reply_ping _ | exact one_reply_echo _ | exact one_reply_dbSize | exact one_reply_flushDB
       | exact one_reply_del _ | exact one_reply_exists_ _ | exact one_reply_expire _ | exact one_reply_expireAt _
       | exact one_reply_keys _ | exact one_reply_randomKey | exact one_reply_ttl _ | exact one_reply_pttl _
       | exact one_reply_persist _ | exact one_reply_rename _ | exact one_reply_renameNx _ | exact one_reply_typ _
       | exact one_reply_scan _ | exact one_reply_setString _ | exact one_reply_mSet _
       | exact one_reply_appendString _ | exact one_reply_setex _ | exact one_reply_setnx _
       | exact one_reply_getString _ | exact one_reply_getSet _ | exact one_reply_setRange _
       | exact one_reply_getRange _ | exact one_reply_strLen _ | exact one_reply_incrDecr _ _
       | exact one_reply_incrDecrBy _ _ | exact one_reply_incrByFloat _ | exact one_reply_setBit _
       | exact one_reply_getBit _ | exact one_reply_bitCount _)

/-- MGET through the table: one reply on the complement of the finding region -/
theorem table1_one_reply_mGet (args : List Bytes) (r : HRes)
    (h : Handler.table1 "MGET" args = some r) : OneReplyOn (MGetOK args) r := by
  have : Handler.table1 "MGET" args = some (Handler.mGet args) := rfl
  rw [this] at h
  cases h
  exact one_reply_mGet_partial args

/-- non-vacuity of the MGET region complement: an all-absent MGET on the empty store, and the
    wrong-typed-key-last case -/
example : MGetOK [[98], [99]] {} 0 := by decide
example : MGetOK [[98], [97]] findingStore 0 := by decide

/- UNPROVED: nothing. Every handler of `Handler.table1` has its `one_reply_<handler>` theorem at full
   strength except `mGet`, which is false in the model (`one_reply_mGet_finding`, `not_one_reply_mGet`)
   and is proved on the exact complement of the finding region (`one_reply_mGet_partial`,
   `mGet_go_oneValue_iff`). -/

end NodisVerif.Proofs.C16Handlers
