import NodisVerif.Proofs.C16Handlers
/-
  C16, handler level, part 2: SET, MSET, KEYS, SCAN, MGET, `table1_one_reply`.
-/
namespace NodisVerif.Proofs.C16Handlers
open NodisVerif NodisVerif.Resp NodisVerif.Handler

/-! ## shape of API results (dead branches of the handlers) -/

/-- `Api.get` returns only `.bytes _` or `.panic`: the third alternative of the `match` in
    `setString` (GET option) and in `mGet.go` is dead -/
theorem get_out (s : MState) (now : Int) (k : Bytes) :
    (∃ b, (Api.get s now k).2 = Out.bytes b) ∨ (Api.get s now k).2 = Out.panic := by
  unfold Api.get
  generalize Store.readKey s now k = r
  obtain ⟨s', okk⟩ := r
  dsimp only
  split
  · exact Or.inl ⟨_, rfl⟩
  · split
    · exact Or.inr rfl
    · exact Or.inl ⟨_, rfl⟩

/-- `Api.keys` always returns `.slist`: the `| _ => []` alternative of `Handler.keys` is dead -/
theorem keys_out (s : MState) (now : Int) (pat : Bytes) : ∃ ks, (Api.keys s now pat).2 = Out.slist ks :=
  ⟨_, rfl⟩

/-- `Api.scan` always returns `.many [.int next, .slist ks]`: the `| _ => done s []` alternative of
    `Handler.scan` is dead -/
theorem scan_out (s : MState) (now cursor : Int) (pat : Bytes) (count : Int) (typ : Nat) :
    ∃ next ks, (Api.scan s now cursor pat count typ).2 = Out.many [Out.int next, Out.slist ks] := by
  unfold Api.scan
  dsimp only
  split
  · exact ⟨_, _, rfl⟩
  · split
    · exact ⟨_, _, rfl⟩
    · generalize Api.scan.go now pat typ _ _ _ _ _ _ = r
      obtain ⟨a, b, c⟩ := r
      exact ⟨_, _, rfl⟩

/-! ## SET -/

theorem one_reply_setString (args : List Bytes) : OneReply (Handler.setString args) := by
  unfold Handler.setString
  split
  · rename_i key value rest
    intro s now ch
    show Good _
    dsimp only
    generalize (ite (opt (key :: value :: rest) "GET" > 1) _ _ : MState × Option Bytes × Bool) = X
    obtain ⟨s1, getR, gp⟩ := X
    dsimp only
    split
    · exact good_panic_nil _
    · generalize (ite (opt (key :: value :: rest) "NX" > 1) _ _ : MState × Option Bool) = wr
      obtain ⟨s2, w⟩ := wr
      cases w with
      | none => exact good_panic_nil _
      | some b =>
        cases b with
        | false => exact good_done_scalar _ _ rfl
        | true =>
          dsimp only
          repeat' split
          all_goals first
            | exact good_panic_nil _
            | exact good_done_scalar _ _ rfl
            | (apply good_call_all; intro s o; apply good_done_scalar; scal)
  · exact oneReply_errReply

/-! ## MSET -/

theorem good_mSet_go (now : Int) : ∀ (ps : List (Bytes × Bytes)) (s : MState), Good (mSet.go now ps s) := by
  intro ps
  induction ps with
  | nil => intro s; rw [mSet.go]; exact good_done_scalar _ _ rfl
  | cons p ps ih =>
    intro s
    obtain ⟨k, v⟩ := p
    rw [mSet.go]
    split
    · exact good_panic_nil _
    · exact ih _

theorem one_reply_mSet (args : List Bytes) : OneReply (Handler.mSet args) := by
  unfold Handler.mSet
  split
  · exact oneReply_errReply
  · intro s now ch
    exact good_mSet_go now _ _

/-! ## KEYS -/

theorem one_reply_keys (args : List Bytes) : OneReply (Handler.keys args) := by
  unfold Handler.keys
  split
  · intro s now ch
    apply good_call
    intro _
    exact good_done _ _ (oneValue_bulkList _)
  · exact oneReply_errReply

/-! ## SCAN -/

/-- the reply of SCAN: `*2`, the cursor, and the array of keys -/
theorem oneValue_scanReply (c : Bytes) (ks : List Bytes) :
    oneValue ([Tok.arr 2, Tok.bulk c] ++ bulkList ks) = true := by
  have := oneValue_arr_flatten [[Tok.bulk c], bulkList ks] (by
    intro v hv
    simp only [List.mem_cons, List.mem_nil_iff, or_false] at hv
    rcases hv with rfl | rfl
    · exact oneValue_scalar _ rfl
    · exact oneValue_bulkList ks)
  simpa using this

theorem good_scan_body (s : MState) (now cursor : Int) (pat : Bytes) (count : Int) (typ : Nat) :
    Good (call (Api.scan s now cursor pat count typ) fun s o =>
            match o with
            | .many [.int next, .slist ks] => done s ([.arr 2, .bulk (formatInt next)] ++ bulkList ks)
            | _ => done s []) := by
  apply good_call
  intro _
  obtain ⟨next, ks, h⟩ := scan_out s now cursor pat count typ
  rw [h]
  exact good_done _ _ (oneValue_scanReply _ ks)

theorem one_reply_scan (args : List Bytes) : OneReply (Handler.scan args) := by
  unfold Handler.scan
  split
  · exact oneReply_errReply
  · split
    · exact oneReply_errReply
    · dsimp only
      split
      · trivial
      · split
        · trivial
        · exact oneReply_errReply
        · split
          · exact oneReply_errReply
          · split
            · trivial
            · intro s now ch
              exact good_scan_body _ _ _ _ _ _

/-! ## MGET

  MGET reads every key first and writes the array only at the end: a key of the wrong type panics in
  `Api.get` before anything has been written, and the recovered panic writes the single error. -/

theorem scalar_optBulk (b : Option Bytes) : isScalar (optBulk b) = true := by
  cases b <;> rfl

/-- the loop invariant: `acc` holds one scalar token per key processed so far (the third alternative
    of the `match` is dead by `get_out`, so the count is never off) -/
theorem good_mGet_go (args : List Bytes) (now : Int) : ∀ (ks : List Bytes) (s : MState) (acc : List Tok),
    (∀ t ∈ acc, isScalar t = true) → acc.length + ks.length = args.length →
    Good (mGet.go args now ks s acc) := by
  intro ks
  induction ks with
  | nil =>
    intro s acc hs hl
    rw [mGet.go]
    apply good_done
    have hlen : args.length = acc.length := by simpa using hl.symm
    rw [hlen]
    exact oneValue_arr_scalars acc hs
  | cons k rest ih =>
    intro s acc hs hl
    rw [mGet.go]
    have hg := get_out s now k
    generalize Api.get s now k = r at hg
    obtain ⟨s', o⟩ := r
    rcases hg with ⟨b, hb⟩ | hp
    · dsimp only at hb
      subst hb
      dsimp only
      apply ih
      · intro t ht
        rw [List.mem_append] at ht
        rcases ht with h' | h'
        · exact hs t h'
        · simp only [List.mem_cons, List.mem_nil_iff, or_false] at h'
          subst h'
          exact scalar_optBulk b
      · simp only [List.length_append, List.length_cons, List.length_nil] at hl ⊢
        omega
    · dsimp only at hp
      subst hp
      dsimp only
      exact good_panic_nil _

theorem one_reply_mGet (args : List Bytes) : OneReply (Handler.mGet args) := by
  unfold Handler.mGet
  split
  · exact oneReply_errReply
  · intro s now ch
    exact good_mGet_go args now args s [] (by simp) (by simp)

/-- a sample store: the reachable store after `LPUSH a x` on the empty store -/
def findingStore : MState := (Api.push true {} 0 [97] [[120]]).1

/-- `MGET a b` where `a` holds a list: nothing is written before the panic, the reply is the single
    recovered error -/
example : ∃ b, Handler.mGet [[97], [98]] = HRes.exec b ∧
    replyOf (b findingStore 0 none) = [Tok.err 1] :=
  ⟨_, rfl, by decide⟩

/-- `MGET b c` on the empty store: `*2, $-1, $-1` -/
example : ∃ b, Handler.mGet [[98], [99]] = HRes.exec b ∧
    replyOf (b {} 0 none) = [Tok.arr 2, Tok.nullBulk, Tok.nullBulk] :=
  ⟨_, rfl, by decide⟩

/-! ## the dispatch table -/

theorem table1_one_reply (name : String) (args : List Bytes) (r : HRes)
    (h : Handler.table1 name args = some r) : OneReply r := by
  unfold Handler.table1 at h
  split at h <;> first
    | (cases h; done)
    | (cases h
       first
       | exact one_reply_ping _ | exact one_reply_echo _ | exact one_reply_dbSize | exact one_reply_flushDB
       | exact one_reply_del _ | exact one_reply_exists_ _ | exact one_reply_expire _ | exact one_reply_expireAt _
       | exact one_reply_keys _ | exact one_reply_randomKey | exact one_reply_ttl _ | exact one_reply_pttl _
       | exact one_reply_persist _ | exact one_reply_rename _ | exact one_reply_renameNx _ | exact one_reply_typ _
       | exact one_reply_scan _ | exact one_reply_setString _ | exact one_reply_mSet _
       | exact one_reply_appendString _ | exact one_reply_setex _ | exact one_reply_setnx _
       | exact one_reply_getString _ | exact one_reply_getSet _ | exact one_reply_mGet _ | exact one_reply_setRange _
       | exact one_reply_getRange _ | exact one_reply_strLen _ | exact one_reply_incrDecr _ _
       | exact one_reply_incrDecrBy _ _ | exact one_reply_incrByFloat _ | exact one_reply_setBit _
       | exact one_reply_getBit _ | exact one_reply_bitCount _)

/- UNPROVED: nothing. Every handler of `Handler.table1`, MGET included, has its `one_reply_<handler>`
   theorem at full strength. -/

end NodisVerif.Proofs.C16Handlers
