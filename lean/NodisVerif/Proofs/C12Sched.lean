import NodisVerif.Proofs.C12Rename
/-
  C12: any eviction schedule is invisible.
-/
namespace NodisVerif.Proofs.C11
open NodisVerif.Store NodisVerif.Codec NodisVerif.Spec.Persist
open NodisVerif.Proofs.AListLemmas NodisVerif.Proofs.AListLemmas2 NodisVerif.Proofs.C11AList

/-! ### which commands never leave a nil string behind -/

def Act.NilOut (a : Act) (v : Val) : Prop :=
  match a with
  | .keep _ => v ≠ .strNil
  | .put v' _ _ _ => v'.getD v ≠ .strNil
  | .drop _ _ _ => True

@[simp] theorem nilOut_keep (r : Out) (v : Val) : (Act.keep r).NilOut v ↔ v ≠ .strNil := Iff.rfl
@[simp] theorem nilOut_put (v' : Option Val) (e' : Option Int) (ops : List FeedOp) (r : Out) (v : Val) :
    (Act.put v' e' ops r).NilOut v ↔ v'.getD v ≠ .strNil := Iff.rfl
@[simp] theorem nilOut_drop (v' : Val) (ops : List FeedOp) (r : Out) (v : Val) :
    (Act.drop v' ops r).NilOut v ↔ True := Iff.rfl
@[simp] theorem nilOut_ite (c : Prop) [Decidable c] (a b : Act) (v : Val) :
    (if c then a else b).NilOut v ↔ (c → a.NilOut v) ∧ (¬ c → b.NilOut v) := by
  split <;> simp_all

theorem nilSafe_of (f : TxForm) (h1 : ∀ v e, v ≠ .strNil → (f.dec v e).NilOut v)
    (h2 : ∀ v0, f.ctor = some v0 → (f.dec v0 0).NilOut v0) : f.NilSafe := by
  intro L hL c hc
  unfold TxForm.spec txSpec at hc
  cases L with
  | some p =>
    obtain ⟨v, e⟩ := p
    have hv := hL v e rfl
    have := h1 v e hv
    simp only at hc
    cases hd : f.dec v e with
    | keep r => rw [hd] at hc; cases hc
    | put v' e' ops r =>
      rw [hd] at hc this
      simp only [Act.eff, Option.some.injEq] at hc
      rw [← hc]; exact this
    | drop v' ops r => rw [hd] at hc; simp [Act.eff] at hc
  | none =>
    cases hct : f.ctor with
    | none => rw [hct] at hc; cases hc
    | some v0 =>
      rw [hct] at hc
      have := h2 v0 hct
      simp only at hc
      cases hd : f.dec v0 0 with
      | keep r =>
        rw [hd] at hc this
        simp only [Act.eff, Option.getD_none, Option.some.injEq] at hc
        rw [← hc]; exact this
      | put v' e' ops r =>
        rw [hd] at hc this
        simp only [Act.eff, Option.getD_some, Option.some.injEq] at hc
        rw [← hc]; exact this
      | drop v' ops r => rw [hd] at hc; simp [Act.eff] at hc

theorem addInt_some {x : DsStr.S} {d : Int} {v' : DsStr.S} {n : Int} (h : DsStr.addInt x d = some (v', n)) :
    ∃ b, v' = some b := by
  unfold DsStr.addInt at h
  simp only at h
  split at h
  · cases h
  · split at h
    · simp only [Option.some.injEq, Prod.mk.injEq] at h
      exact ⟨_, h.1.symm⟩
    · cases h

theorem decAddInt_nilOut (k : Bytes) (d : Int) (neg : Bool) (v : Val) (e : Int) (hv : v ≠ .strNil) :
    (decAddInt k d neg v e).NilOut v := by
  have go : ∀ b : Bytes, (match (match (if neg then DsStr.decr (some b) d else DsStr.incr (some b) d) with
        | none => none
        | some (v', n) => some (some (Api.strVal v'), (none : Option Int), [Api.opSet k (formatInt n) false],
            Out.many [.int n, .err false])) with
      | some (v', e', ops, r) => Act.put v' e' ops r
      | none => Act.keep (Out.many [.int 0, .err true])).NilOut (.str b) := by
    intro b
    cases hr : (if neg then DsStr.decr (some b) d else DsStr.incr (some b) d) with
    | none => simp
    | some q =>
      obtain ⟨v', n⟩ := q
      have : ∃ b', v' = some b' := by
        cases neg
        · exact addInt_some (by simpa [DsStr.incr] using hr)
        · exact addInt_some (by simpa [DsStr.decr] using hr)
      obtain ⟨b', rfl⟩ := this
      simp [Api.strVal]
  cases v with
  | str b => exact go b
  | strNil => exact absurd rfl hv
  | _ => simp [decAddInt, decStrWrite]

namespace Cmd

/-- none of the listed commands ever leaves a nil string behind (a fresh string key starts with the
    empty, non-nil value); only a `raw` transaction has to say so itself -/
def NilOK : Cmd → Prop
  | raw f => f.NilSafe
  | _ => True

set_option linter.unusedSimpArgs false in
theorem nilSafe (c : Cmd) (now : Int) (hc : c.NilOK) : (c.form now).NilSafe := by
  by_cases hraw : ∃ f, c = raw f
  · obtain ⟨f, rfl⟩ := hraw; exact hc
  apply nilSafe_of
  · intro v e hv
    cases c
    case raw f => exact absurd ⟨f, rfl⟩ hraw
    case incrBy k d neg => exact decAddInt_nilOut k d neg v e hv
    all_goals
      cases v <;>
      simp_all [form, decGet, decStrRead, decStrWrite, decSet, decSetXX, decGetSet, decAppend,
        decExpire, decPersist, decPush, decListMut, decListRead, decHset, decHdel, decHashRead, decSadd,
        decSrem, decSetRead, decZaddWith, decZsetRead, Api.strVal, DsStr.append, NilOK]
  · intro v0 h0
    cases c
    case raw f => exact absurd ⟨f, rfl⟩ hraw
    case incrBy k d neg =>
      simp only [form, Option.some.injEq] at h0
      subst h0
      exact decAddInt_nilOut k d neg (.str []) 0 (fun c => nomatch c)
    all_goals
      simp_all [form, decGet, decStrRead, decStrWrite, decSet, decSetXX, decGetSet, decAppend,
        decExpire, decPersist, decPush, decListMut, decListRead, decHset, decHdel, decHashRead, decSadd,
        decSrem, decSetRead, decZaddWith, decZsetRead, Api.strVal, DsStr.append, NilOK]
    all_goals (subst h0; simp [decPush, decHset, decSadd, decZaddWith, DsStr.append, Api.strVal])

end Cmd

/-! ### schedules -/

/-- one step of a run: a client command, or a memory-reclamation pass of the server -/
inductive Step
  | cmd (c : Cmd) (now : Int)
  | del (keys : List Bytes) (now : Int)
  | keys (pat : Bytes) (now : Int)
  | rename (key dst : Bytes) (now : Int)
  | gc (now : Int)
  | flush (now : Int)

namespace Step
def time : Step → Int
  | cmd _ now => now | del _ now => now | keys _ now => now | rename _ _ now => now
  | gc now => now | flush now => now

def isPass : Step → Bool
  | gc _ => true | flush _ => true | _ => false

/-- new state and the replies sent (a pass sends none) -/
def exec : Step → MState → MState × List Out
  | cmd c now, s => ((c.run s now).1, [(c.run s now).2])
  | del ks now, s => ((Api.del s now ks).1, [(Api.del s now ks).2])
  | keys pat now, s => ((Api.keys s now pat).1, [(Api.keys s now pat).2])
  | rename key dst now, s => ((Api.rename s now key dst).1, [(Api.rename s now key dst).2])
  | gc now, s => (Store.gc s now, [])
  | flush now, s => (Store.flush s now, [])

/-- argument side conditions of the step; on Pebble: outside the nil-string region -/
def OK (pebble : Bool) : Step → Prop
  | cmd c _ => c.WF ∧ (pebble = true → c.NilOK)
  | _ => True
end Step

def runSteps : List Step → MState → MState × List Out
  | [], s => (s, [])
  | st :: rest, s => ((runSteps rest (st.exec s).1).1, (st.exec s).2 ++ (runSteps rest (st.exec s).1).2)

/-- the same run without any pass -/
def stripPasses (steps : List Step) : List Step := steps.filter (fun st => !st.isPass)

/-- time does not run backwards -/
def TimesOK : Int → List Step → Prop
  | _, [] => True
  | t, st :: rest => t ≤ st.time ∧ TimesOK st.time rest

def endTime : Int → List Step → Int
  | t, [] => t
  | _, st :: rest => endTime st.time rest

theorem sched_core : ∀ (steps : List Step) (t : Int) (s1 s2 : MState), Sim t s1 s2 → s1.pebble = s2.pebble →
    LNil s2 t → TimesOK t steps → (∀ st ∈ steps, st.OK s2.pebble) →
    (runSteps steps s1).2 = (runSteps (stripPasses steps) s2).2 ∧
    Sim (endTime t steps) (runSteps steps s1).1 (runSteps (stripPasses steps) s2).1 := by
  intro steps
  induction steps with
  | nil => intro t s1 s2 h _ _ _ _; exact ⟨rfl, h⟩
  | cons st rest ih =>
    intro t s1 s2 h hp hl hto hok
    obtain ⟨ht, hto'⟩ := hto
    have hok' : ∀ st' ∈ rest, st'.OK s2.pebble := fun st' hs => hok st' (by simp [hs])
    have hst := hok st (by simp)
    cases st with
    | cmd c now =>
      change t ≤ now at ht
      change TimesOK now rest at hto'
      obtain ⟨hwf, hnil⟩ := hst
      obtain ⟨hr, hsim⟩ := c.sim hwf h ht
      have sp1 := c.spec_run hwf h.inv1 ht
      have sp2 := c.spec_run hwf h.inv2 ht
      have hl2 : LNil (c.run s2 now).1 t := by
        intro hp2
        have hp2' : s2.pebble = true := by rw [← sp2.peb]; exact hp2
        exact lnil_tx (c.nilSafe now (hnil hp2')) ht sp2 hl hp2
      have := ih now (c.run s1 now).1 (c.run s2 now).1 (hsim.mono ht) (by rw [sp1.peb, sp2.peb, hp])
        (hl2.mono ht) hto' (by rw [sp2.peb]; exact hok')
      simp only [runSteps, stripPasses, List.filter_cons, Step.isPass, Bool.not_false, if_true, Step.exec,
        endTime, Step.time]
      exact ⟨by rw [hr]; congr 1; exact this.1, this.2⟩
    | del ks now =>
      change t ≤ now at ht
      change TimesOK now rest at hto'
      have e1 := del_eq s1 now ks
      have e2 := del_eq s2 now ks
      obtain ⟨hc, hsim⟩ := del_sim ht ks (s1, 0) (s2, 0) h rfl
      obtain ⟨_, hl2, hp2⟩ := del_lnil ht ks (s2, 0) h.inv2 hl
      obtain ⟨_, _, hp1⟩ := del_lnil ht ks (s1, 0) h.inv1 (h.lnil hp hl)
      have := ih now (Api.del s1 now ks).1 (Api.del s2 now ks).1 (by rw [e1, e2]; exact hsim.mono ht)
        (by rw [e1, e2]; show (ks.foldl (delStep now) (s1, 0)).1.pebble = (ks.foldl (delStep now) (s2, 0)).1.pebble
            rw [hp1, hp2]; exact hp)
        (by rw [e2]; exact hl2.mono ht) hto' (by rw [e2]; show ∀ st' ∈ rest, st'.OK (ks.foldl (delStep now) (s2, 0)).1.pebble
                                                 rw [hp2]; exact hok')
      simp only [runSteps, stripPasses, List.filter_cons, Step.isPass, Bool.not_false, if_true, Step.exec,
        endTime, Step.time]
      refine ⟨?_, this.2⟩
      rw [this.1]
      congr 2
      rw [e1, e2]
      show Out.int _ = Out.int _
      rw [hc]
    | keys pat now =>
      change t ≤ now at ht
      change TimesOK now rest at hto'
      have e1 := keys_reply h.inv1 ht pat
      have e2 := keys_reply h.inv2 ht pat
      have := ih now s1 s2 (h.mono ht) hp (hl.mono ht) hto' hok'
      simp only [runSteps, stripPasses, List.filter_cons, Step.isPass, Bool.not_false, if_true, Step.exec,
        endTime, Step.time, e1, e2]
      refine ⟨?_, this.2⟩
      rw [this.1, h.logical ht]
      rfl
    | rename key dst now =>
      change t ≤ now at ht
      change TimesOK now rest at hto'
      obtain ⟨hr, hsim⟩ := rename_sim h ht key dst
      have p1 := (rename_spec h.inv1 ht key dst).peb
      have p2 := (rename_spec h.inv2 ht key dst).peb
      have := ih now (Api.rename s1 now key dst).1 (Api.rename s2 now key dst).1 (hsim.mono ht)
        (by rw [p1, p2, hp]) ((rename_lnil h.inv2 ht key dst hl).mono ht) hto' (by rw [p2]; exact hok')
      simp only [runSteps, stripPasses, List.filter_cons, Step.isPass, Bool.not_false, if_true, Step.exec,
        endTime, Step.time]
      exact ⟨by rw [hr]; congr 1; exact this.1, this.2⟩
    | gc now =>
      change t ≤ now at ht
      change TimesOK now rest at hto'
      have ps := gc_spec_at h.inv1 ht (LNil.at h.inv1 ht (h.lnil hp hl))
      have hsim : Sim now (Store.gc s1 now) s2 :=
        ⟨ps.inv.mono ht, h.inv2.mono ht, fun t' ht' k => by rw [ps.look t' ht' k]; exact h.look t' (Int.le_trans ht ht') k⟩
      have := ih now (Store.gc s1 now) s2 hsim (by rw [ps.peb, hp]) (hl.mono ht) hto' hok'
      simp only [runSteps, stripPasses, List.filter_cons, Step.isPass, Bool.not_true, Bool.false_eq_true,
        if_false, Step.exec, endTime, Step.time, List.nil_append]
      exact this
    | flush now =>
      change t ≤ now at ht
      change TimesOK now rest at hto'
      have ps := (flush_spec h.inv1 ht).1
      have hsim : Sim now (Store.flush s1 now) s2 :=
        ⟨ps.inv, h.inv2.mono ht, fun t' ht' k => by rw [ps.look t' ht' k]; exact h.look t' (Int.le_trans ht ht') k⟩
      have := ih now (Store.flush s1 now) s2 hsim (by rw [ps.peb, hp]) (hl.mono ht) hto' hok'
      simp only [runSteps, stripPasses, List.filter_cons, Step.isPass, Bool.not_true, Bool.false_eq_true,
        if_false, Step.exec, endTime, Step.time, List.nil_append]
      exact this

/-- every state a run reaches satisfies the invariant and shows no nil string -/
theorem run_inv_lnil : ∀ (steps : List Step) (t : Int) (s : MState), StoreInvX s none t → LNil s t →
    TimesOK t steps → (∀ st ∈ steps, st.OK s.pebble) →
    StoreInvX (runSteps steps s).1 none (endTime t steps) ∧ LNil (runSteps steps s).1 (endTime t steps) ∧
    (runSteps steps s).1.pebble = s.pebble := by
  intro steps
  induction steps with
  | nil => intro t s h hl _ _; exact ⟨h, hl, rfl⟩
  | cons st rest ih =>
    intro t s h hl hto hok
    obtain ⟨ht, hto'⟩ := hto
    have hok' : ∀ st' ∈ rest, st'.OK s.pebble := fun st' hs => hok st' (by simp [hs])
    have hst := hok st (by simp)
    have fin : ∀ (s' : MState) (now : Int), t ≤ now → StoreInvX s' none t → LNil s' t → s'.pebble = s.pebble →
        TimesOK now rest →
        StoreInvX (runSteps rest s').1 none (endTime now rest) ∧ LNil (runSteps rest s').1 (endTime now rest) ∧
        (runSteps rest s').1.pebble = s.pebble := by
      intro s' now hn hi hl' hp' hto''
      obtain ⟨a, b, c⟩ := ih now s' (hi.mono hn) (hl'.mono hn) hto'' (by rw [hp']; exact hok')
      exact ⟨a, b, by rw [c, hp']⟩
    cases st with
    | cmd c now =>
      change t ≤ now at ht
      change TimesOK now rest at hto'
      obtain ⟨hwf, hnil⟩ := hst
      have sp := c.spec_run hwf h ht
      have hl2 : LNil (c.run s now).1 t := by
        intro hp2
        have hp2' : s.pebble = true := by rw [← sp.peb]; exact hp2
        exact lnil_tx (c.nilSafe now (hnil hp2')) ht sp hl hp2
      exact fin _ now ht sp.inv hl2 sp.peb hto'
    | del ks now =>
      change t ≤ now at ht
      change TimesOK now rest at hto'
      obtain ⟨a, b, c⟩ := del_lnil ht ks (s, 0) h hl
      have e := del_eq s now ks
      show StoreInvX (runSteps rest (Api.del s now ks).1).1 none _ ∧ _
      rw [e]
      exact fin _ now ht a b c hto'
    | keys pat now =>
      change t ≤ now at ht
      change TimesOK now rest at hto'
      exact fin s now ht h hl rfl hto'
    | rename key dst now =>
      change t ≤ now at ht
      change TimesOK now rest at hto'
      have r := rename_spec h ht key dst
      exact fin _ now ht r.inv (rename_lnil h ht key dst hl) r.peb hto'
    | gc now =>
      change t ≤ now at ht
      change TimesOK now rest at hto'
      have ps := gc_spec_at h ht (LNil.at h ht hl)
      have hl2 : LNil (Store.gc s now) now := by
        intro hp t' ht' k v e hlk
        rw [ps.look t' ht' k] at hlk
        exact hl (by rw [← ps.peb]; exact hp) t' (Int.le_trans ht ht') k v e hlk
      obtain ⟨a, b, c⟩ := ih now (Store.gc s now) (ps.inv.mono ht) hl2 hto' (by rw [ps.peb]; exact hok')
      exact ⟨a, b, c.trans ps.peb⟩
    | flush now =>
      change t ≤ now at ht
      change TimesOK now rest at hto'
      have ps := (flush_spec h ht).1
      have hl2 : LNil (Store.flush s now) now := by
        intro hp t' ht' k v e hlk
        rw [ps.look t' ht' k] at hlk
        exact hl (by rw [← ps.peb]; exact hp) t' (Int.le_trans ht ht') k v e hlk
      obtain ⟨a, b, c⟩ := ih now (Store.flush s now) ps.inv hl2 hto' (by rw [ps.peb]; exact hok')
      exact ⟨a, b, c.trans ps.peb⟩

theorem empty_lnil (pebble : Bool) (t : Int) : LNil (empty pebble) t := by
  intro _ t' _ k v e hl
  simp [lookup, getMeta, empty, AList.get?] at hl

end NodisVerif.Proofs.C11
