import NodisVerif.Proofs.FloatDecLen
import NodisVerif.Proofs.C20ZIncr
/-
  C20, HIncrByFloat (within the model's integer-valued float fragment).
-/
namespace NodisVerif.Proofs.C20
open NodisVerif NodisVerif.Store NodisVerif.Spec.Persist NodisVerif.Proofs.C11

variable {now : Int} {p r : MState}

theorem toInt?_bound {x : F64} {n : Int} (h : F64.toInt? x = some n) : inInt64 n = true := by
  have hm : F64.manBits x < 2 ^ 52 := by
    unfold F64.manBits
    rw [UInt64.toNat_and]
    have := @Nat.and_le_right x.toNat (0xFFFFFFFFFFFFF : UInt64).toNat
    have h2 : (0xFFFFFFFFFFFFF : UInt64).toNat = 4503599627370495 := by decide
    omega
  unfold inInt64 int64Min int64Max
  simp only [decide_eq_true_eq]
  unfold F64.toInt? at h
  simp only at h
  split at h
  · split at h
    · cases h; omega
    · cases h
  · split at h
    · cases h
    · split at h
      · split at h
        · rename_i hv
          unfold F64.pow2_53 at hv
          cases h
          split <;> omega
        · cases h
      · split at h
        · cases h
        · split at h
          · cases h
            have : (F64.manBits x + 2 ^ 52) / 2 ^ (1075 - F64.expBits x) ≤ F64.manBits x + 2 ^ 52 := Nat.div_le_self _ _
            generalize (F64.manBits x + 2 ^ 52) / 2 ^ (1075 - F64.expBits x) = v at this ⊢
            split <;> omega
          · cases h

/-- FormatFloat(x,'f',-1,64) is at most 1000 bytes long (Proofs/FloatDecLen.lean; the integer-only model had 21).
    Used only for the codec's size side condition. -/
theorem formatFloat_length {x : F64} {t : Bytes} (h : Api.formatFloat x = some t) : t.length ≤ 1000 := by
  unfold Api.formatFloat at h
  cases h
  exact Proofs.FloatDecLen.formatShortest_length x

def opHIncrByFloat (k f : Bytes) (delta : F64) : FeedOp :=
  { typ := 8, key := k, args := [Bytes.toHex f, toString delta] }

/-- new text and sum / `inr true` = "not a float" (notified, nothing changes) / `inr false` = outside the model -/
def hibfCalc (h : AList Bytes) (field : Bytes) (delta : F64) : Sum (Bytes × F64) Bool :=
  match DsHash.hget h field with
  | none => (match Api.formatFloat delta with | none => .inr false | some t => .inl (t, delta))
  | some old =>
    match Api.parseFloatText old with
    | none => .inr false
    | some none => .inr true
    | some (some o) =>
      match F64.add? o delta with
      | none => .inr false
      | some sum => (match Api.formatFloat sum with | none => .inr false | some t => .inl (t, sum))

def decHibf (key field : Bytes) (delta : F64) (v : Val) (_ : Int) : Act :=
  match v with
  | .hash h =>
    match hibfCalc h field delta with
    | .inl (t, x) => .put (some (.hash (DsHash.hset h field t).1)) none [opHIncrByFloat key field delta]
        (.many [.f64 x, .err false])
    | .inr true => .put none none [opHIncrByFloat key field delta] (.many [.f64 0, .err true])
    | .inr false => .keep .unsupported
  | _ => .keep .panic

def hibfF (key field : Bytes) (delta : F64) : TxForm :=
  ⟨true, some (.hash []), .unit, Cmd.pan, decHibf key field delta, key⟩

theorem hincrbyfloat_eq (s : MState) (now : Int) (key field : Bytes) (delta : F64) :
    Api.hincrbyfloat s now key field delta = (hibfF key field delta).run s now := by
  unfold Api.hincrbyfloat TxForm.run hibfF keyTx
  simp only [if_true, Option.isNone_some, Bool.and_false, Bool.false_eq_true, if_false]
  generalize writeKey s now key (some (.hash [])) = q
  obtain ⟨s1, ok⟩ := q
  simp only [Api.asHash]
  cases valOf s1 key with
  | none => rfl
  | some v =>
    cases v <;> try rfl
    rename_i h
    simp only [decHibf, hibfCalc]
    cases DsHash.hget h field with
    | none =>
      simp only
      cases Api.formatFloat delta <;> rfl
    | some old =>
      simp only
      cases Api.parseFloatText old with
      | none => rfl
      | some o =>
        cases o with
        | none => rfl
        | some o =>
          simp only
          cases F64.add? o delta with
          | none => rfl
          | some sum =>
            simp only
            cases Api.formatFloat sum <;> rfl

theorem hibfCalc_len {h : AList Bytes} {field : Bytes} {delta : F64} {t : Bytes} {x : F64}
    (hc : hibfCalc h field delta = .inl (t, x)) : t.length ≤ 1000 := by
  unfold hibfCalc at hc
  split at hc
  · split at hc
    · cases hc
    · rename_i hf; simp only [Sum.inl.injEq, Prod.mk.injEq] at hc; rw [← hc.1]; exact formatFloat_length hf
  · split at hc
    · cases hc
    · cases hc
    · split at hc
      · cases hc
      · split at hc
        · cases hc
        · rename_i hf; simp only [Sum.inl.injEq, Prod.mk.injEq] at hc; rw [← hc.1]; exact formatFloat_length hf

theorem hibfF_ok (key field : Bytes) (delta : F64) (hb : field.length + 1040 < 2 ^ 63) : (hibfF key field delta).OK := by
  refine ⟨(fun h => nomatch h), (fun w h => by cases h; exact good_emptyHash), fun w e hg _ => ?_⟩
  cases w with
  | hash h =>
    show (decHibf key field delta (.hash h) e).GoodA
    unfold decHibf
    simp only
    cases hc : hibfCalc h field delta with
    | inl q =>
      obtain ⟨t, x⟩ := q
      have := hibfCalc_len hc
      exact ⟨(fun w hw => by cases hw; exact good_hset h field t hg (by omega)), (fun _ he => nomatch he)⟩
    | inr b =>
      cases b
      · trivial
      · exact ⟨(fun _ hw => nomatch hw), (fun _ he => nomatch he)⟩
  | _ => trivial

theorem hibfF_nilSafe (key field : Bytes) (delta : F64) : (hibfF key field delta).NilSafe := by
  apply nilSafe_of
  · intro v e hv
    cases v <;> simp_all [hibfF, decHibf]
    split <;> simp
  · intro v0 h0
    simp only [hibfF, Option.some.injEq] at h0
    subst h0
    simp only [hibfF, decHibf]
    split <;> simp

/-- region: the key is missing and the increment is outside the model's float fragment (the key is
    created, the model answers `.unsupported`) -/
def HIncrByFloatCreatesAndFails (L : Option (Val × Int)) (delta : F64) : Prop :=
  L = none ∧ Api.formatFloat delta = none

theorem hincrbyfloat_main (hs : Same now p r) (hl : p.listeners = true) (hfd : p.feed = [])
    (c : Feed.CallInfo) (hc : c.method = "HIncrByFloat") (k f : Bytes) (delta : F64)
    (hb : f.length + 1040 < 2 ^ 63) (hreg : ¬ HIncrByFloatCreatesAndFails (lookup p now k) delta) :
    Replay now r c (Api.hincrbyfloat p now k f delta) ∧ (Api.hincrbyfloat p now k f delta).1.listeners = true ∧
    ∀ op ∈ (Api.hincrbyfloat p now k f delta).1.feed.reverse, op.key = k := by
  rw [hincrbyfloat_eq]
  have hok := hibfF_ok k f delta hb
  have hem1 : ∀ x raw, Feed.emission c (.many [x, .err true]) raw = [] := by
    intro x raw; unfold Feed.emission; simp [hc, Feed.keepTTLMethods]
  have hem2 : ∀ x raw, Feed.emission c (.many [x, .err false]) raw = raw := by
    intro x raw; unfold Feed.emission; simp [hc, Feed.keepTTLMethods]
  have hem3 : Feed.emission c .panic [] = [] := by
    unfold Feed.emission; simp [hc, Feed.keepTTLMethods]
  have hem4 : Feed.emission c .unsupported [] = [] := by
    unfold Feed.emission; simp [hc, Feed.keepTTLMethods]
  have hap : ∀ r0, Feed.applyOp r0 now (opHIncrByFloat k f delta) = some ((hibfF k f delta).run r0 now).1 := by
    intro r0
    simp [Feed.applyOp, opHIncrByFloat, pB_toHex, pF_toString, ← hincrbyfloat_eq]
  refine ⟨?_, congrArg Prod.snd (form_feed hok hs.invP hl), ?_⟩
  · refine main_form hs hl hfd (hibfF k f delta) hok (Feed.emission c)
      (fun hn e => post_nonil (hibfF_nilSafe k f delta) now _ (fun e0 => hn k e0) e) ?_
    intro r0 hi _ hK
    have hreg0 : ¬ HIncrByFloatCreatesAndFails (lookup r0 now k) delta := by rw [hK k]; exact hreg
    show Replays r0 now (Feed.emission c ((hibfF k f delta).spec (lookup r0 now k)).1 ((hibfF k f delta).ops (lookup r0 now k)))
      (upd (lookup r0 now) k ((hibfF k f delta).post now (lookup r0 now k)))
    have one : Replays r0 now [opHIncrByFloat k f delta]
        (upd (lookup r0 now) k ((hibfF k f delta).post now (lookup r0 now k))) := Replays.one hi hok (hap r0)
    have hlive := live_lookup r0 now k
    have hgo : ∀ h e, (lookup r0 now k = none ∧ h = [] ∧ e = 0) ∨ lookup r0 now k = some (.hash h, e) →
        Replays r0 now (Feed.emission c ((hibfF k f delta).spec (lookup r0 now k)).1 ((hibfF k f delta).ops (lookup r0 now k)))
          (upd (lookup r0 now) k ((hibfF k f delta).post now (lookup r0 now k))) := by
      intro h e hL
      cases hcalc : hibfCalc h f delta with
      | inl q =>
        obtain ⟨t, x⟩ := q
        have : Feed.emission c ((hibfF k f delta).spec (lookup r0 now k)).1 ((hibfF k f delta).ops (lookup r0 now k)) =
            [opHIncrByFloat k f delta] := by
          rcases hL with ⟨h0, rfl, rfl⟩ | h0 <;> rw [h0] <;>
            simp [TxForm.ops, TxForm.spec, txSpec, hibfF, decHibf, hcalc, Act.ops, Act.reply, hem2]
        rw [this]; exact one
      | inr b =>
        have hnil : Feed.emission c ((hibfF k f delta).spec (lookup r0 now k)).1 ((hibfF k f delta).ops (lookup r0 now k)) = [] ∧
            (hibfF k f delta).post now (lookup r0 now k) = lookup r0 now k := by
          rcases hL with ⟨h0, rfl, rfl⟩ | h0
          · exfalso
            apply hreg0
            refine ⟨h0, ?_⟩
            simp only [hibfCalc, DsHash.hget, AList.get?] at hcalc
            cases hf : Api.formatFloat delta with
            | none => rfl
            | some t => rw [hf] at hcalc; cases hcalc
          · rw [h0] at hlive ⊢
            have hl0 := hlive _ _ rfl
            cases b <;>
              simp [TxForm.ops, TxForm.post, TxForm.spec, txSpec, hibfF, decHibf, hcalc, Act.ops, Act.reply, Act.eff,
                hem1, hem4, hl0]
        rw [hnil.1, hnil.2, upd_self]; exact Replays.nil hi
    have hother : ∀ v e, (∀ h, v ≠ .hash h) →
        Feed.emission c ((hibfF k f delta).spec (some (v, e))).1 ((hibfF k f delta).ops (some (v, e))) = [] ∧
        (hibfF k f delta).post now (some (v, e)) = some (v, e) := by
      intro v e hv
      cases v <;> first | exact absurd rfl (hv _) |
        exact ⟨by simp [TxForm.ops, TxForm.spec, txSpec, hibfF, decHibf, Act.ops, Act.reply, hem3], rfl⟩
    cases hL : lookup r0 now k with
    | none => rw [← hL]; exact hgo [] 0 (Or.inl ⟨hL, rfl, rfl⟩)
    | some cc =>
      obtain ⟨v, e⟩ := cc
      by_cases hh : ∃ h, v = .hash h
      · obtain ⟨h, rfl⟩ := hh
        rw [← hL]; exact hgo h e (Or.inr hL)
      · obtain ⟨h1, h2⟩ := hother v e (fun h hc => hh ⟨h, hc⟩)
        rw [h1, h2, ← hL, upd_self]
        exact Replays.nil hi
  · intro op hop
    rw [(form_raw hok hs.invP hl hfd).1] at hop
    unfold TxForm.ops at hop
    have hk : ∀ v e, ∀ o ∈ Act.ops ((hibfF k f delta).dec v e), o.key = k := by
      intro v e o ho
      cases v with
      | hash h =>
        simp only [hibfF, decHibf] at ho
        split at ho
        · simp [Act.ops] at ho; subst ho; rfl
        · simp [Act.ops] at ho; subst ho; rfl
        · cases ho
      | _ => cases ho
    split at hop
    · exact hk _ _ op hop
    · exact hk _ _ op hop
    · cases hop

end NodisVerif.Proofs.C20
