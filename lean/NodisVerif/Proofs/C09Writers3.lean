import NodisVerif.Proofs.C09Writers2
import NodisVerif.Proofs.ZAddPairs
/-
  C09 "writers signal" table, part 3: sorted-set family, and the example showing that the Pebble
  hypothesis is necessary (see C09Writers.lean for the definitions and the Frame calculus).
-/
set_option linter.unusedSectionVars false
set_option linter.unusedVariables false

namespace NodisVerif.Proofs.C09Writers
open NodisVerif NodisVerif.Store NodisVerif.Api NodisVerif.Proofs.AListLemmas2

theorem asZSet_of_valOf {s : MState} {key : Bytes} {z : ZSet} (hv : valOf s key = some (.zset z)) :
    asZSet s key = some z := by simp [asZSet, hv]
theorem valOf_of_asZSet {s : MState} {key : Bytes} {z : ZSet} (h : asZSet s key = some z) :
    valOf s key = some (.zset z) := by
  unfold asZSet at h
  split at h
  · next v hv => cases h; exact hv
  · cases h

/-! ### removing nothing leaves the sorted set as it was -/

/-- a counting fold: each step either does nothing or bumps the counter -/
theorem fold_count {α β : Type} (f : α × Int → β → α × Int)
    (hf : ∀ acc x, f acc x = acc ∨ (f acc x).2 = acc.2 + 1) : ∀ (xs : List β) (acc : α × Int),
    acc.2 ≤ (xs.foldl f acc).2 ∧ ((xs.foldl f acc).2 ≤ acc.2 → (xs.foldl f acc).1 = acc.1) := by
  intro xs
  induction xs with
  | nil => intro acc; exact ⟨Int.le_refl _, fun _ => rfl⟩
  | cons x xs ih =>
    intro acc
    rw [List.foldl_cons]
    rcases hf acc x with e | e
    · rw [e]; exact ih acc
    · have := ih (f acc x)
      refine ⟨by omega, fun hle => ?_⟩
      omega

theorem zRem_noop (z : ZSet) (ms : List Bytes) (h : ¬ (DsZSet.zRem z ms).2 > 0) : (DsZSet.zRem z ms).1 = z := by
  unfold DsZSet.zRem at h ⊢
  refine (fold_count _ (fun acc x => ?_) ms (z, 0)).2 (by dsimp only; omega)
  split
  · exact Or.inr rfl
  · exact Or.inl rfl

theorem take_nil_drop {α : Type} : ∀ (n : Nat) (l : List α), l.take n = [] → l.drop n = l
  | 0, _, _ => rfl
  | _ + 1, [], _ => rfl
  | _ + 1, _ :: _, h => by simp at h

/-- `ZRemRangeByRank` after its index normalisation -/
def rankAux (z : ZSet) (a b : Int) : ZSet × Int :=
  if a > b ∨ a ≥ DsZSet.zCard z then (z, 0) else
  let (sl, rem) := DsZSet.slRemoveRangeByRank z.sl (a + 1) (b + 1)
  ({ dict := rem.foldl (fun d it => AList.erase d it.2) z.dict, sl := sl }, rem.length)

theorem rankAux_noop (z : ZSet) (a b : Int) (h : ¬ (rankAux z a b).2 > 0) : (rankAux z a b).1 = z := by
  unfold rankAux at h ⊢
  split
  · rfl
  · next hc =>
    rw [if_neg hc] at h
    simp only [DsZSet.slRemoveRangeByRank] at h ⊢
    generalize (if a + 1 ≤ 1 then 0 else _ : Nat) = i0 at h ⊢
    generalize (if b + 1 < (i0 : Int) + 1 then 0 else _ : Nat) = cnt at h ⊢
    have hnil : (List.drop i0 z.sl).take cnt = [] := by
      cases hx : (List.drop i0 z.sl).take cnt with
      | nil => rfl
      | cons x l => rw [hx] at h; simp at h
    rw [hnil, take_nil_drop _ _ hnil, List.take_append_drop]
    rfl

theorem zRemRangeByRank_noop (z : ZSet) (start stop : Int) (h : ¬ (DsZSet.zRemRangeByRank z start stop).2 > 0) :
    (DsZSet.zRemRangeByRank z start stop).1 = z :=
  rankAux_noop z _ _ h

theorem takeWhile_append_drop {α : Type} (p : α → Bool) : ∀ (l : List α),
    l.takeWhile p ++ l.drop (l.takeWhile p).length = l
  | [] => rfl
  | a :: l => by
    cases hp : p a
    · simp [List.takeWhile, hp]
    · simp [List.takeWhile, hp, takeWhile_append_drop p l]

theorem zRemRangeByScore_noop (z : ZSet) (min max : F64) (mode : Nat)
    (h : ¬ (DsZSet.zRemRangeByScore z min max mode).2 > 0) : (DsZSet.zRemRangeByScore z min max mode).1 = z := by
  unfold DsZSet.zRemRangeByScore DsZSet.slRemoveRange at h ⊢
  dsimp only at h ⊢
  generalize (List.takeWhile _ (List.drop _ z.sl)) = rem at h ⊢
  have hnil : rem = [] := by
    cases rem with
    | nil => rfl
    | cons a l => simp at h
  subst hnil
  simp only [List.length_nil, List.drop_zero, List.foldl_nil, takeWhile_append_drop]


/-! ## sorted-set family -/

/-- the key currently holds an existing but EMPTY sorted set (the record is live and its value has no
    member). NOT KNOWN TO BE REACHABLE through the API any more: the two producers of such records
    (`ZADD LT|GT` on a missing key, a panicking `ZUNIONSTORE`) were repaired; see the section
    "is the region reachable?" below. -/
def holdsEmptyZSet (s : MState) (now : Int) (key : Bytes) : Bool :=
  match asZSet (Store.writeKey s now key none).1 key with
  | some z => DsZSet.zCard z = 0
  | none => false

set_option hygiene false in
/-- `wk_none` that also rewrites a region hypothesis `hreg` -/
macro "wk_none_reg " s:term:max now:term:max key:term:max : tactic => `(tactic|
  (have h := frame_writeKey_none $s $now $key
   unfold holdsEmptyZSet at hreg
   generalize Store.writeKey $s $now $key none = w at h hreg ⊢
   obtain ⟨s1, ok⟩ := w
   dsimp only at h hreg ⊢))

section zset
variable (s : MState) (hp : s.pebble = true) (now : Int)
include hp

/-- ZADD / ZADD NX (any total update function): the key is created if missing and always signalled -/
theorem frame_zaddWith (f : ZSet → Bytes → F64 → ZSet × Int) (key m : Bytes) (sc : F64) :
    Frame [] s (Api.zaddWith f s now key m sc).1 := by
  unfold Api.zaddWith
  wk_some s now key (Val.zset DsZSet.empty)
  · split
    · exact h
    · exact (h.setVal hp _ _).finish _ _
  · simp only [asZSet_of_valOf hv]
    exact (h.setVal hp _ _).finish _ _

theorem frame_zaddXX (key m : Bytes) (sc : F64) : Frame [] s (Api.zaddXX s now key m sc).1 := by
  unfold Api.zaddXX
  wk_none s now key
  split
  · exact h
  · split
    · exact h
    · split
      · exact h
      · exact (h.setVal hp _ _).finish _ _

/-- ZADD LT|GT (any comparison update `f`): never creates a key (`writeKey` with a nil constructor, reply 0
    when the key is missing); signals exactly when `f` reports a changed score -/
theorem frame_zaddCmp (f : ZSet → Bytes → F64 → ZSet × Bool) (key m : Bytes) (sc : F64) :
    Frame [] s (Api.zaddCmp f s now key m sc).1 := by
  unfold Api.zaddCmp
  wk_none s now key
  split
  · exact h
  · split
    · exact h
    · split
      · exact (h.setVal hp _ _).finish _ _
      · exact h

/-- zAddPairs (the ZADD command): ONE transaction for all pairs. The key is signalled whenever a member was written;
    a key created by the command (no XX) always has its first pair written, so it is signalled too -/
theorem frame_zaddPairs (key : Bytes) (nx xx gt lt ch : Bool) (pairs : List (Bytes × F64)) :
    Frame [] s (Api.zaddPairs s now key nx xx gt lt ch pairs).1 := by
  have hfe : ∀ (ops : List (Bytes × F64)) (S : MState), Frame [] S (ops.foldl (fun s (p : Bytes × F64) =>
      emit s (Api.opZAdd key p.1 p.2)) S) :=
    fun ops S => frame_foldl_state _ (fun s x => frame_emit s _) ops S
  unfold Api.zaddPairs
  split
  · exact Frame.refl _ _
  · next hne =>
    cases xx with
    | true =>
      simp only [if_true]
      wk_none s now key
      split
      · exact h
      · split
        · exact h
        · split
          · exact h
          · exact ((h.setVal hp _ _).signal _).trans0 (hfe _ _)
    | false =>
      simp only [Bool.false_eq_true, if_false, Bool.false_and]
      wk_some s now key (Val.zset DsZSet.empty)
      · split
        · exact h
        · split
          · exact h
          · exact ((h.setVal hp _ _).signal _).trans0 (hfe _ _)
      · simp only [asZSet_of_valOf hv]
        have hne' : pairs ≠ [] := by intro h0; rw [h0] at hne; exact hne rfl
        have hops := Proofs.ZAddPairs.zaddFold_empty_ops_ne nx gt lt pairs hne'
          { z := DsZSet.empty, added := 0, changed := 0, ops := [] } rfl
        rw [if_neg (by simpa using hops)]
        exact ((h.setVal hp _ _).signal _).trans0 (hfe _ _)

theorem frame_zincrby (key m : Bytes) (delta : F64) : Frame [] s (Api.zincrby s now key m delta).1 := by
  unfold Api.zincrby
  wk_some s now key (Val.zset DsZSet.empty)
  · split
    · exact h
    · split
      · exact h
      · exact (h.setVal hp _ _).finish _ _
  · simp only [asZSet_of_valOf hv]
    -- on a freshly created sorted set the member is new: no float addition, no `.unsupported` exit
    have : AList.get? DsZSet.empty.dict m = none := rfl
    simp only [this]
    exact (h.setVal hp _ _).finish _ _

/-
  FULL STATEMENTS (false), for f ∈ {zrem, zremRangeByRank, zremRangeByScore}:
    theorem writers_signal_zrem (s) (hp : s.pebble = true) (now key members) (k) :
      changed s (Api.zrem s now key members).1 k → k ∈ (Api.zrem s now key members).1.signalled
  Region: the key holds an existing EMPTY sorted set (`holdsEmptyZSet`): nothing is removed
  (r = 0), yet `zCard z' = 0` makes the call unlink the record (`delKey`), and the signal is only sent
  when r > 0. The region is NOT KNOWN TO BE REACHABLE through the API (see "is the region reachable?"
  below), so these are `_partial` theorems with a `_region_witness` on a hand-written store, not findings.
-/
theorem frame_zrem (key : Bytes) (members : List Bytes) (hreg : holdsEmptyZSet s now key = false) :
    Frame [] s (Api.zrem s now key members).1 := by
  unfold Api.zrem
  wk_none_reg s now key
  split
  · exact h
  · split
    · exact h
    · next z hz =>
      split
      · exact ((h.setVal hp _ _).delKeyIf _ _).finish _ _
      · next hr =>
        rw [zRem_noop z members hr]
        simp only [hz, decide_eq_false_iff_not] at hreg
        rw [if_neg hreg]
        exact h.trans0 (frame_setVal_same s1 (h.pebble hp) key _ (valOf_of_asZSet hz))

theorem frame_zremRangeByRank (key : Bytes) (start stop : Int) (hreg : holdsEmptyZSet s now key = false) :
    Frame [] s (Api.zremRangeByRank s now key start stop).1 := by
  unfold Api.zremRangeByRank
  wk_none_reg s now key
  split
  · exact h
  · split
    · exact h
    · next z hz =>
      split
      · exact ((h.setVal hp _ _).delKeyIf _ _).finish _ _
      · next hr =>
        rw [zRemRangeByRank_noop z start stop hr]
        simp only [hz, decide_eq_false_iff_not] at hreg
        rw [if_neg hreg]
        exact h.trans0 (frame_setVal_same s1 (h.pebble hp) key _ (valOf_of_asZSet hz))

theorem frame_zremRangeByScore (key : Bytes) (min max : F64) (mode : Int) (hreg : holdsEmptyZSet s now key = false) :
    Frame [] s (Api.zremRangeByScore s now key min max mode).1 := by
  unfold Api.zremRangeByScore
  wk_none_reg s now key
  split
  · exact h
  · split
    · exact h
    · next z hz =>
      split
      · exact ((h.setVal hp _ _).delKeyIf _ _).finish _ _
      · next hr =>
        rw [zRemRangeByScore_noop z min max _ hr]
        simp only [hz, decide_eq_false_iff_not] at hreg
        rw [if_neg hreg]
        exact h.trans0 (frame_setVal_same s1 (h.pebble hp) key _ (valOf_of_asZSet hz))

end zset

/-! ### Z*STORE: the nested computation only reads -/

theorem frame_zunionCore_go (now : Int) (weights : List F64) (agg : Bytes) :
    ∀ (ks : List (Bytes × Nat)) (s : MState) (acc : Option (AList F64)),
    Frame [] s (Api.zunionCore.go now weights agg ks s acc).1
  | [], s, acc => by unfold Api.zunionCore.go; exact Frame.refl _ _
  | (k, i) :: rest, s, acc => by
    unfold Api.zunionCore.go
    rk s now k
    split
    · exact h.trans0 (frame_zunionCore_go now weights agg rest s1 acc)
    · split
      · exact h
      · split
        · exact h
        · exact h.trans0 (frame_zunionCore_go now weights agg rest s1 _)

theorem frame_zunionCore (s : MState) (now : Int) (keys : List Bytes) (weights : List F64) (agg : Bytes) :
    Frame [] s (Api.zunionCore s now keys weights agg).1 := by
  unfold Api.zunionCore
  exact frame_zunionCore_go now weights agg _ s _

theorem frame_zinter_inner (now : Int) (i : Nat) :
    ∀ (js : List (Bytes × Nat)) (s : MState) (m : Bytes), Frame [] s (Api.zinterCore.go.inner now i js s m).1
  | [], s, m => by unfold Api.zinterCore.go.inner; exact Frame.refl _ _
  | (o, j) :: more, s, m => by
    unfold Api.zinterCore.go.inner
    rk s now o
    split
    · exact h.trans0 (frame_zinter_inner now i more s1 m)
    · split
      · exact h
      · split
        · exact h
        · split
          · exact h.trans0 (frame_zinter_inner now i more s1 m)
          · exact h

theorem frame_zinter_outer (now : Int) (keys : List Bytes) (weights : List F64) (agg : Bytes) (i : Nat) :
    ∀ (its : List Item) (s : MState) (acc : Option (AList F64)),
    Frame [] s (Api.zinterCore.go.outer now keys weights agg i its s acc).1
  | [], s, acc => by unfold Api.zinterCore.go.outer; exact Frame.refl _ _
  | it :: more, s, acc => by
    unfold Api.zinterCore.go.outer
    have h := frame_zinter_inner now i keys.zipIdx s it.2
    generalize Api.zinterCore.go.inner now i keys.zipIdx s it.2 = r at h ⊢
    obtain ⟨s1, o⟩ := r
    cases o with
    | none => exact h
    | some found => exact h.trans0 (frame_zinter_outer now keys weights agg i more s1 _)

theorem frame_zinterCore_go (now : Int) (keys : List Bytes) (weights : List F64) (agg : Bytes) :
    ∀ (ks : List (Bytes × Nat)) (s : MState) (acc : Option (AList F64)),
    Frame [] s (Api.zinterCore.go now keys weights agg ks s acc).1
  | [], s, acc => by unfold Api.zinterCore.go; exact Frame.refl _ _
  | (k, i) :: rest, s, acc => by
    unfold Api.zinterCore.go
    rk s now k
    split
    · exact h
    · split
      · exact h
      · split
        · exact h
        · next items _ =>
          have h2 := h.trans0 (frame_zinter_outer now keys weights agg i items s1 acc)
          generalize Api.zinterCore.go.outer now keys weights agg i items s1 acc = r at h2 ⊢
          obtain ⟨s2, o⟩ := r
          cases o with
          | none => exact h2
          | some acc' => exact h2.trans0 (frame_zinterCore_go now keys weights agg rest s2 acc')

theorem frame_zinterCore (s : MState) (now : Int) (keys : List Bytes) (weights : List F64) (agg : Bytes) :
    Frame [] s (Api.zinterCore s now keys weights agg).1 := by
  unfold Api.zinterCore
  exact frame_zinterCore_go now keys weights agg _ s _

/-- the tail of Z*STORE (`step`): unlink-and-signal on an empty result, else replace the value and signal -/
theorem frame_zstore_step {D : List Bytes} {s s1 : MState} (h : Frame D s s1) (dst : Bytes) (items : List Item)
    (typ : Nat) (hD : ∀ k ∈ D, k = dst) :
    Frame [] s
      (if items.isEmpty then
        (emit { delKey s1 dst with signalled := dst :: s1.signalled } { typ := 2, key := dst }, Out.int 0)
       else
        (emit (signal (modMeta (fresh s1).2 dst fun m =>
            ({ m with oid := (fresh s1).1 }.setValue
              (.zset (items.foldl (fun (z : ZSet) (it : Item) => (DsZSet.zAdd z it.2 it.1).1) DsZSet.empty)))) dst)
          { typ := typ, key := dst }, Out.int items.length)).1 := by
  split
  · exact h.delSignal dst _ hD
  · exact (h.fresh.modMeta dst _).finish dst _ (by simpa using hD)

/-- ZUNIONSTORE / ZINTERSTORE: the operands are read first (the nested computation, read-only); a panic or
    an `.unsupported` exit happens BEFORE the destination is looked up or created; only on success is the
    destination (created and) replaced — or unlinked on an empty result — and signalled -/
theorem frame_zstore (union : Bool) (s : MState) (hp : s.pebble = true) (now : Int) (dst : Bytes) (keys : List Bytes)
    (weights : List F64) (agg : Bytes) : Frame [] s (Api.zstore union s now dst keys weights agg).1 := by
  unfold Api.zstore
  dsimp only
  have h1 : Frame [] s ((if union = true then Api.zunionCore else Api.zinterCore) s now keys weights agg).1 := by
    cases union
    · exact frame_zinterCore s now keys weights agg
    · exact frame_zunionCore s now keys weights agg
  generalize (if union = true then Api.zunionCore else Api.zinterCore) s now keys weights agg = r at h1 ⊢
  obtain ⟨s1, o⟩ := r
  rcases o with _ | _ | items
  · exact h1
  · exact h1
  · dsimp only
    have h2 := h1.commit.seq (frame_writeKey_some (commit s1) now dst (.zset DsZSet.empty))
    generalize writeKey (commit s1) now dst (some (.zset DsZSet.empty)) = w at h2 ⊢
    obtain ⟨s2, ok⟩ := w
    exact frame_zstore_step h2 dst items _ (by simp)

/-! ## the table: sorted-set family -/

theorem writers_signal_zaddWith (f : ZSet → Bytes → F64 → ZSet × Int) (s : MState) (hp : s.pebble = true) (now : Int)
    (key m : Bytes) (sc : F64) (k : Bytes) :
    changed s (Api.zaddWith f s now key m sc).1 k → k ∈ (Api.zaddWith f s now key m sc).1.signalled :=
  (frame_zaddWith s hp now f key m sc).sound k

theorem writers_signal_zadd (s : MState) (hp : s.pebble = true) (now : Int) (key m : Bytes) (sc : F64) (k : Bytes) :
    changed s (Api.zadd s now key m sc).1 k → k ∈ (Api.zadd s now key m sc).1.signalled :=
  writers_signal_zaddWith DsZSet.zAdd s hp now key m sc k

theorem writers_signal_zaddNX (s : MState) (hp : s.pebble = true) (now : Int) (key m : Bytes) (sc : F64) (k : Bytes) :
    changed s (Api.zaddNX s now key m sc).1 k → k ∈ (Api.zaddNX s now key m sc).1.signalled :=
  writers_signal_zaddWith DsZSet.zAddNX s hp now key m sc k

theorem writers_signal_zaddXX (s : MState) (hp : s.pebble = true) (now : Int) (key m : Bytes) (sc : F64) (k : Bytes) :
    changed s (Api.zaddXX s now key m sc).1 k → k ∈ (Api.zaddXX s now key m sc).1.signalled :=
  (frame_zaddXX s hp now key m sc).sound k

/-- ZADD LT|GT (any comparison update `f`), full strength: no region (the call no longer creates keys) -/
theorem writers_signal_zaddCmp (f : ZSet → Bytes → F64 → ZSet × Bool) (s : MState) (hp : s.pebble = true)
    (now : Int) (key m : Bytes) (sc : F64) (k : Bytes) :
    changed s (Api.zaddCmp f s now key m sc).1 k → k ∈ (Api.zaddCmp f s now key m sc).1.signalled :=
  (frame_zaddCmp s hp now f key m sc).sound k

theorem writers_signal_zaddLT (s : MState) (hp : s.pebble = true) (now : Int) (key m : Bytes) (sc : F64) (k : Bytes) :
    changed s (Api.zaddLT s now key m sc).1 k → k ∈ (Api.zaddLT s now key m sc).1.signalled :=
  writers_signal_zaddCmp DsZSet.zAddLT s hp now key m sc k

theorem writers_signal_zaddGT (s : MState) (hp : s.pebble = true) (now : Int) (key m : Bytes) (sc : F64) (k : Bytes) :
    changed s (Api.zaddGT s now key m sc).1 k → k ∈ (Api.zaddGT s now key m sc).1.signalled :=
  writers_signal_zaddCmp DsZSet.zAddGT s hp now key m sc k

/-- the former witness input (`ZADD k LT 0 m` on a missing key) now leaves the store logically untouched -/
theorem zaddLT_missing_unchanged :
    let s : MState := { pebble := true }
    let r := Api.zaddLT s 0 [107] [109] 0
    r.2 = .int 0 ∧ ¬ changed s r.1 [107] := by
  dsimp only
  exact ⟨rfl, by decide⟩

theorem zaddGT_missing_unchanged :
    let s : MState := { pebble := true }
    let r := Api.zaddGT s 0 [107] [109] 0
    r.2 = .int 0 ∧ ¬ changed s r.1 [107] := by
  dsimp only
  exact ⟨rfl, by decide⟩

theorem writers_signal_zincrby (s : MState) (hp : s.pebble = true) (now : Int) (key m : Bytes) (delta : F64) (k : Bytes) :
    changed s (Api.zincrby s now key m delta).1 k → k ∈ (Api.zincrby s now key m delta).1.signalled :=
  (frame_zincrby s hp now key m delta).sound k

/-- ZREM outside the region: the key does not hold an existing empty sorted set -/
theorem writers_signal_zrem_partial (s : MState) (hp : s.pebble = true) (now : Int) (key : Bytes) (members : List Bytes)
    (hreg : holdsEmptyZSet s now key = false) (k : Bytes) :
    changed s (Api.zrem s now key members).1 k → k ∈ (Api.zrem s now key members).1.signalled :=
  (frame_zrem s hp now key members hreg).sound k

theorem writers_signal_zremRangeByRank_partial (s : MState) (hp : s.pebble = true) (now : Int) (key : Bytes)
    (start stop : Int) (hreg : holdsEmptyZSet s now key = false) (k : Bytes) :
    changed s (Api.zremRangeByRank s now key start stop).1 k →
    k ∈ (Api.zremRangeByRank s now key start stop).1.signalled :=
  (frame_zremRangeByRank s hp now key start stop hreg).sound k

theorem writers_signal_zremRangeByScore_partial (s : MState) (hp : s.pebble = true) (now : Int) (key : Bytes)
    (min max : F64) (mode : Int) (hreg : holdsEmptyZSet s now key = false) (k : Bytes) :
    changed s (Api.zremRangeByScore s now key min max mode).1 k →
    k ∈ (Api.zremRangeByScore s now key min max mode).1.signalled :=
  (frame_zremRangeByScore s hp now key min max mode hreg).sound k

/-! ### is the region `holdsEmptyZSet` reachable?

  NOT KNOWN TO BE. The two API paths that used to leave an existing empty sorted set behind are gone:
  `ZADD LT|GT` no longer creates the key (`zaddLT_missing_unchanged`), and Z*STORE creates the destination only
  after the nested computation succeeded and then either fills it with a non-empty result or unlinks it.
  Every remaining writer of a sorted-set value writes a NON-EMPTY one (lemmas below): `zadd` / `zaddNX`
  / `zincrby` always end with the member present; `zaddXX` / `zaddLT` / `zaddGT` only act on an existing
  set and never shrink it; Z*STORE writes the fold of `zAdd` over a non-empty item list; ZREM & co unlink
  the record as soon as the set is empty; the codec rebuilds a stored set with `zAdd`. The exits between
  `writeKey … (some empty)` and the write-back (`.panic` on a wrong type, `.unsupported` in `zincrby`) need an
  EXISTING record (of another type / with the member already present), so they do not follow a creation
  (`frame_zaddWith`, `frame_zincrby` above use exactly this).
  No invariant over whole API runs is proved here; the statement "no reachable store satisfies
  `holdsEmptyZSet`" is left open, which is why the three `_partial` theorems keep their hypothesis. The
  hypothesis cannot simply be dropped: on the hand-written (possibly unreachable) store below the three
  calls do change the key without signalling (`…_region_witness`). -/

theorem dict_ne_nil_of_get {z : ZSet} {m : Bytes} {x : F64} (h : AList.get? z.dict m = some x) : z.dict ≠ [] := by
  intro e; rw [e] at h; cases h

theorem set_ne_nil {α : Type} (d : AList α) (m : Bytes) (x : α) : AList.set d m x ≠ [] := by
  cases d with
  | nil => simp [AList.set]
  | cons a l =>
    obtain ⟨k, v⟩ := a
    simp only [AList.set]
    (repeat' split) <;> simp

/-- `zAdd` always leaves the member present: the result is never empty -/
theorem zAdd_nonempty (z : ZSet) (m : Bytes) (sc : F64) : (DsZSet.zAdd z m sc).1.dict ≠ [] := by
  unfold DsZSet.zAdd
  split
  · next old h =>
    split
    · exact dict_ne_nil_of_get h
    · exact set_ne_nil _ _ _
  · exact set_ne_nil _ _ _

theorem contains_ne_nil {z : ZSet} {m : Bytes} (h : AList.contains z.dict m = true) : z.dict ≠ [] := by
  intro e; rw [e] at h; cases h

theorem zAddNX_nonempty (z : ZSet) (m : Bytes) (sc : F64) : (DsZSet.zAddNX z m sc).1.dict ≠ [] := by
  unfold DsZSet.zAddNX
  split
  · exact zAdd_nonempty z m sc
  · next h => exact contains_ne_nil (by simpa using h)

theorem zAddXX_nonempty (z : ZSet) (m : Bytes) (sc : F64) (hz : z.dict ≠ []) : (DsZSet.zAddXX z m sc).1.dict ≠ [] := by
  unfold DsZSet.zAddXX
  split
  · exact zAdd_nonempty z m sc
  · exact hz

theorem zAddLT_nonempty (z : ZSet) (m : Bytes) (sc : F64) (hz : z.dict ≠ []) : (DsZSet.zAddLT z m sc).1.dict ≠ [] := by
  unfold DsZSet.zAddLT
  split
  · split
    · exact zAdd_nonempty z m sc
    · exact hz
  · exact hz

theorem zAddGT_nonempty (z : ZSet) (m : Bytes) (sc : F64) (hz : z.dict ≠ []) : (DsZSet.zAddGT z m sc).1.dict ≠ [] := by
  unfold DsZSet.zAddGT
  split
  · split
    · exact zAdd_nonempty z m sc
    · exact hz
  · exact hz

theorem zIncrByWith_nonempty (z : ZSet) (m : Bytes) (x : F64) : (DsZSet.zIncrByWith z m x).dict ≠ [] :=
  zAdd_nonempty z m x

/-- the value Z*STORE writes for a non-empty result is a non-empty sorted set -/
theorem zstore_fold_nonempty (items : List Item) (z : ZSet) (h : items ≠ [] ∨ z.dict ≠ []) :
    (items.foldl (fun (z : ZSet) (it : Item) => (DsZSet.zAdd z it.2 it.1).1) z).dict ≠ [] := by
  induction items generalizing z with
  | nil =>
    rcases h with h | h
    · exact absurd rfl h
    · exact h
  | cons it rest ih => exact ih _ (Or.inr (zAdd_nonempty z it.2 it.1))

/-- a hand-written store in which `k` holds an existing empty sorted set — POSSIBLY UNREACHABLE STATE (no
    sequence of API calls producing it from the empty store is known, see above) -/
def emptyZSetStore : MState :=
  { pebble := true, index := [([107], { exp := 0, value := some (.zset DsZSet.empty), state := 1 })] }

theorem emptyZSetStore_spec : emptyZSetStore.pebble = true ∧ emptyZSetStore.signalled = [] ∧
    holdsEmptyZSet emptyZSetStore 0 [107] = true := by decide

/-- the hypothesis of the three `_partial` theorems is necessary (on a possibly unreachable state): on
    `emptyZSetStore` ZREM / ZREMRANGEBYRANK / ZREMRANGEBYSCORE remove nothing, unlink the record, and signal
    nothing. These are NOT findings against the implementation unless the state is shown reachable. -/
theorem writers_signal_zrem_region_witness :
    let s' := (Api.zrem emptyZSetStore 0 [107] [[109]]).1
    changed emptyZSetStore s' [107] ∧ [107] ∉ s'.signalled := by decide

theorem writers_signal_zremRangeByRank_region_witness :
    let s' := (Api.zremRangeByRank emptyZSetStore 0 [107] 0 (-1)).1
    changed emptyZSetStore s' [107] ∧ [107] ∉ s'.signalled := by decide

theorem writers_signal_zremRangeByScore_region_witness :
    let s' := (Api.zremRangeByScore emptyZSetStore 0 [107] 0 0 0).1
    changed emptyZSetStore s' [107] ∧ [107] ∉ s'.signalled := by decide

/-- Z*STORE, both flavours, full strength -/
theorem writers_signal_zstore (union : Bool) (s : MState) (hp : s.pebble = true) (now : Int) (dst : Bytes)
    (keys : List Bytes) (weights : List F64) (agg : Bytes) (k : Bytes) :
    changed s (Api.zstore union s now dst keys weights agg).1 k →
    k ∈ (Api.zstore union s now dst keys weights agg).1.signalled :=
  (frame_zstore union s hp now dst keys weights agg).sound k

theorem writers_signal_zinterstore (s : MState) (hp : s.pebble = true) (now : Int) (dst : Bytes) (keys : List Bytes)
    (weights : List F64) (agg : Bytes) (k : Bytes) :
    changed s (Api.zstore false s now dst keys weights agg).1 k →
    k ∈ (Api.zstore false s now dst keys weights agg).1.signalled :=
  writers_signal_zstore false s hp now dst keys weights agg k

theorem writers_signal_zunionstore (s : MState) (hp : s.pebble = true) (now : Int) (dst : Bytes) (keys : List Bytes)
    (weights : List F64) (agg : Bytes) (k : Bytes) :
    changed s (Api.zstore true s now dst keys weights agg).1 k →
    k ∈ (Api.zstore true s now dst keys weights agg).1.signalled :=
  writers_signal_zstore true s hp now dst keys weights agg k

/-- the former witness input (`ZUNIONSTORE d 1 k` where `k` holds a string) still panics, but now before the
    destination is created: nothing changes -/
theorem zstore_panic_unchanged :
    let s : MState := { pebble := true, index := [([107], { exp := 0, value := some (.str [120]), state := 1 })] }
    let r := Api.zstore true s 0 [100] [[107]] [] []
    r.2 = .panic ∧ ¬ changed s r.1 [100] := by
  dsimp only
  exact ⟨rfl, by decide⟩

/-- a panic or `.unsupported` exit of Z*STORE never follows a creation: the store it returns is the one the
    (read-only) nested computation left -/
theorem zstore_exit_before_create (union : Bool) (s : MState) (now : Int) (dst : Bytes) (keys : List Bytes)
    (weights : List F64) (agg : Bytes)
    (h : (Api.zstore union s now dst keys weights agg).2 = .panic ∨
         (Api.zstore union s now dst keys weights agg).2 = .unsupported) :
    (Api.zstore union s now dst keys weights agg).1 =
      ((if union = true then Api.zunionCore else Api.zinterCore) s now keys weights agg).1 := by
  revert h
  unfold Api.zstore
  dsimp only
  generalize (if union = true then Api.zunionCore else Api.zinterCore) s now keys weights agg = r
  obtain ⟨s1, o⟩ := r
  rcases o with _ | _ | items
  · intro _; rfl
  · intro _; rfl
  · dsimp only
    generalize writeKey (commit s1) now dst (some (.zset DsZSet.empty)) = w
    obtain ⟨s2, ok⟩ := w
    dsimp only
    intro h
    split at h <;> rcases h with h | h <;> cases h

/-! ## the Pebble hypothesis is necessary

  NOT a finding: with the in-memory backend `Api.setVal` mutates the value OBJECT, which every index record
  with the same `oid` shares. On a (possibly unreachable) state where two hot records alias one object, SET on
  one name changes the content seen under the other name, which is not signalled. The theorems above
  therefore assume `s.pebble = true`; whether aliased states are reachable with the in-memory backend (after
  RENAME + reopen the model says they can be) is a separate question. -/
theorem hypothesis_pebble_is_necessary :
    let s : MState := { pebble := false, index :=
      [([1], { exp := 0, value := some (.str []), state := 1, oid := 7 }),
       ([2], { exp := 0, value := some (.str []), state := 1, oid := 7 })] }
    let s' := (Api.set s 0 [1] [120] false).1
    changed s s' [2] ∧ [2] ∉ s'.signalled := by decide

/-! ## non-vacuity of the region hypotheses (each is satisfied by a concrete, non-trivial input) -/

/-- a store with one live string key -/
def oneKeyStore : MState := { pebble := true, index := [([107], { exp := 0, value := some (.str [49]), state := 1 })] }

/-- the store reached from the empty store by `ZADD k 0 m`: `k` holds a one-member sorted set -/
def oneZSetStore : MState := (Api.zadd { pebble := true } 0 [107] [109] 0).1

example : oneKeyStore.pebble = true ∧ live oneKeyStore 0 [107] = true := by decide
example : live ({ pebble := true } : MState) 0 [107] = false := by decide
-- addInt: fresh key, DECRBY 5
example : inInt64 (if true then -(5 : Int) else 5) = true := by decide
-- setRange: fresh key, offset 0
example : (DsStr.setRange none 0 [120]).isSome = true := by decide
-- zrem & co: a missing key, a key holding a string, and a key holding a NON-EMPTY sorted set (reached through the
-- API) are outside the region
example : holdsEmptyZSet ({ pebble := true } : MState) 0 [107] = false := by decide
example : holdsEmptyZSet oneKeyStore 0 [107] = false := by decide
example : oneZSetStore.pebble = true ∧ holdsEmptyZSet oneZSetStore 0 [107] = false := by decide
-- … and there ZREM does remove, unlink and signal
example : let s' := (Api.zrem oneZSetStore 0 [107] [[109]]).1
    changed oneZSetStore s' [107] ∧ [107] ∈ s'.signalled := by decide
-- zaddLT / zaddGT (no hypothesis left): an existing member with a higher score is lowered and signalled
example : let s' := (Api.zaddLT (Api.zadd { pebble := true } 0 [107] [109] 0x3ff0000000000000).1 0 [107] [109] 0).1
    [107] ∈ s'.signalled := by decide
-- zstore (no hypothesis left): no operands on the empty store: integer reply 0
example : ∃ n, (Api.zstore true ({ pebble := true } : MState) 0 [100] [] [] []).2 = .int n := ⟨_, rfl⟩
-- ReadOnly is inhabited by the three set operations (readOnly_sdiff / readOnly_sinter / readOnly_sunion)

/- UNPROVED: nothing from the requested list is missing.
   Full strength (no region): zaddWith/zadd/zaddNX, zaddXX, zaddCmp/zaddLT/zaddGT, zincrby, zstore (union and inter).
   `_partial` + `_finding` (the full statement is false, witness reachable): addInt, setRange (C09Writers.lean).
   `_partial` + `_region_witness` (the full statement is false on a hand-written store that is NOT known to be
   reachable; no `_finding` is claimed): zrem, zremRangeByRank, zremRangeByScore, region `holdsEmptyZSet`.
   OPEN: an invariant "no reachable Pebble store has a live empty sorted set" (only the data-structure lemmas
   `zAdd_nonempty` … `zstore_fold_nonempty` are proved); with it the three `_partial` hypotheses would be
   discharged on reachable stores. -/

end NodisVerif.Proofs.C09Writers
