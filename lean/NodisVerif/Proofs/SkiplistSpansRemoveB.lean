import NodisVerif.Proofs.SkiplistSpansRemove
import NodisVerif.Proofs.SkiplistRemove
import NodisVerif.Proofs.SkiplistRange
import NodisVerif.Proofs.SkiplistRun
/-
  The full invariant `InvSpans` (structure + span discipline of nil links) holds for `makeSkiplist` and is kept by
  `remove`, `removeRangeByRank`, `removeRange`.
-/
namespace NodisVerif.Skiplist
open NodisVerif.DsZSet (Item nodeLt slRemove)
open NodisVerif.Proofs.C04 (ILt)
open NodisVerif.Proofs.ZSetLemmas (Good)
open Remove

theorem makeSkiplist_invSpans : InvSpans makeSkiplist := by
  refine ⟨[], makeSkiplist_isChain, ?_⟩
  intro A u B hsp i l _ hl _
  have hA : A = [] ∧ u = 0 := by
    cases A with
    | nil => simp at hsp; exact ⟨rfl, hsp.1.symm⟩
    | cons a A => simp at hsp
  obtain ⟨rfl, rfl⟩ := hA
  obtain ⟨nd, hn, hli⟩ := (getLevel_ok_iff _ _ _ _).1 hl
  simp [makeSkiplist] at hn
  subst hn
  simp [newNode, List.getElem?_replicate] at hli
  obtain ⟨_, rfl⟩ := hli
  simp [makeSkiplist]

/-! ### the loops -/

theorem removeRankLoop_invSpans (stop : Int) (update : List (Option Nat)) :
    ∀ (C A : List Nat) (sl : SL) (fuel : Nat) (i : Int) (removed : List Item),
      IsChain sl (A ++ C) → NilSpans sl (A ++ C) → UpdateFor sl.heap sl.level (0 :: A) update →
      ∀ res, removeRankLoop stop update fuel sl C.head? i removed = .ok res → InvSpans res.1 := by
  intro C
  induction C with
  | nil =>
    intro A sl fuel i removed hc hn _ res hres
    cases fuel with
    | zero => simp [removeRankLoop, throw, throwThe, MonadExceptOf.throw] at hres
    | succ f =>
      simp [removeRankLoop, pure, Except.pure] at hres
      subst hres
      exact ⟨_, hc, hn⟩
  | cons n C ih =>
    intro A sl fuel i removed hc hn hupd res hres
    cases fuel with
    | zero => simp [removeRankLoop, throw, throwThe, MonadExceptOf.throw] at hres
    | succ f =>
      by_cases hi : i ≤ stop
      · obtain ⟨nd, l0, sl1, hnd, hitem, hl0, hf, hrem, hc1, hupd1, _, _, _⟩ := remove_step hc update hupd
        have hn1 := removeNode_nilSpans hc hn A n C rfl update hupd sl1 hrem
        simp only [List.head?_cons, removeRankLoop] at hres
        simp [hi, bind, Except.bind, hnd, hl0, hrem, hf] at hres
        exact ih A sl1 f _ _ hc1 hn1 hupd1 res hres
      · simp [removeRankLoop, hi, pure, Except.pure] at hres
        subst hres
        exact ⟨_, hc, hn⟩

theorem removeRangeLoop_invSpans (max : F64) (limit : Int) (mode : Nat) (update : List (Option Nat)) :
    ∀ (C A : List Nat) (sl : SL) (fuel : Nat) (removed : List Item),
      IsChain sl (A ++ C) → NilSpans sl (A ++ C) → UpdateFor sl.heap sl.level (0 :: A) update →
      ∀ res, removeRangeLoop max limit mode update fuel sl C.head? removed = .ok res → InvSpans res.1 := by
  intro C
  induction C with
  | nil =>
    intro A sl fuel removed hc hn _ res hres
    cases fuel with
    | zero => simp [removeRangeLoop, throw, throwThe, MonadExceptOf.throw] at hres
    | succ f =>
      simp [removeRangeLoop, pure, Except.pure] at hres
      subst hres
      exact ⟨_, hc, hn⟩
  | cons n C ih =>
    intro A sl fuel removed hc hn hupd res hres
    cases fuel with
    | zero => simp [removeRangeLoop, throw, throwThe, MonadExceptOf.throw] at hres
    | succ f =>
      obtain ⟨nd, l0, sl1, hnd, hitem, hl0, hf, hrem, hc1, hupd1, _, _, _⟩ := remove_step hc update hupd
      have hn1 := removeNode_nilSpans hc hn A n C rfl update hupd sl1 hrem
      simp only [List.head?_cons, removeRangeLoop] at hres
      by_cases hst : maxStop max mode nd = true
      · simp [bind, Except.bind, hnd, hst, pure, Except.pure] at hres
        subst hres
        exact ⟨_, hc, hn⟩
      · by_cases hlim : limit > 0 ∧ ((removed.length + 1 : Nat) : Int) = limit
        · simp [bind, Except.bind, hnd, hst, hl0, hrem, hlim, pure, Except.pure] at hres
          subst hres
          exact ⟨_, hc1, hn1⟩
        · simp only [bind, Except.bind, hnd, hst, hl0, hrem, hf, List.length_cons] at hres
          rw [if_neg (by simp), if_neg hlim] at hres
          exact ih A sl1 f _ hc1 hn1 hupd1 res hres

/-! ### the operations -/

theorem removeRangeByRank_invSpans {sl : SL} (h : InvSpans sl) (start stop : Int) :
    ∃ sl' removed, removeRangeByRank sl start stop = .ok (sl', removed) ∧ InvSpans sl' ∧
      (abs sl', removed) = DsZSet.slRemoveRangeByRank (abs sl) start stop := by
  obtain ⟨sl', removed, hrun, _, heq⟩ := removeRangeByRank_refines h.inv start stop
  refine ⟨sl', removed, hrun, ?_, heq⟩
  obtain ⟨c, hc, hn⟩ := h
  have hcond : CondUpTo sl c (startCond start) (start - 1).toNat := by
    intro q n nd _ _ hq
    simp only [startCond, decide_eq_decide]
    omega
  obtain ⟨x, acc, update, rank, l0, hs, hupd, hacc, hl0, hf⟩ := search_split hc _ _ hcond
  have hsplit : c.take (start - 1).toNat ++ c.drop (start - 1).toNat = c := List.take_append_drop _ _
  simp only [removeRangeByRank, bind, Except.bind, hs, hl0, hf] at hrun
  exact removeRankLoop_invSpans stop update (c.drop (start - 1).toNat) (c.take (start - 1).toNat) sl _ _ _
    (by rw [hsplit]; exact hc) (by rw [hsplit]; exact hn) hupd _ hrun

theorem removeRange_invSpans {sl : SL} (h : InvSpans sl) (min max : F64) (limit : Int) (mode : Nat) :
    ∃ sl' removed, removeRange sl min max limit mode = .ok (sl', removed) ∧ InvSpans sl' ∧
      (if limit ≤ 0 then (abs sl', removed) = DsZSet.slRemoveRange (abs sl) min max mode
       else
        let pre := (abs sl).takeWhile fun n => !(if mode % 2 = 1 then F64.lt min n.1 else F64.le min n.1)
        let rest := (abs sl).drop pre.length
        let rem := rest.takeWhile fun n => !(if mode / 2 % 2 = 1 then F64.le max n.1 else F64.lt max n.1)
        removed = rem.take limit.toNat ∧ abs sl' = pre ++ rem.drop limit.toNat ++ rest.drop rem.length) := by
  obtain ⟨sl', removed, hrun, _, heq⟩ := removeRange_refines h.inv min max limit mode
  refine ⟨sl', removed, hrun, ?_, heq⟩
  obtain ⟨c, hc, hn⟩ := h
  obtain ⟨x, acc, update, rank, l0, hs, hupd, hacc, hl0, hf⟩ := search_split hc _ _ (condUpTo_min hc min mode)
  generalize ((c.map (itemAt sl.heap)).takeWhile (preI min mode)).length = k at hupd hf
  have hsplit : c.take k ++ c.drop k = c := List.take_append_drop _ _
  simp only [removeRange, bind, Except.bind, hs, hl0, hf] at hrun
  exact removeRangeLoop_invSpans max limit mode update (c.drop k) (c.take k) sl _ _
    (by rw [hsplit]; exact hc) (by rw [hsplit]; exact hn) hupd _ hrun

theorem remove_invSpans {sl : SL} (h : InvSpans sl) (m : Bytes) (s : F64) :
    ∃ sl' b, remove sl m s = .ok (sl', b) ∧ InvSpans sl' ∧ abs sl' = DsZSet.slRemove (abs sl) m s := by
  obtain ⟨sl', b, hrun', _, habs', _⟩ := remove_refines h.inv m s
  refine ⟨sl', b, hrun', ?_, habs'⟩
  obtain ⟨c, hc, hn⟩ := h
  have hpw := List.pairwise_map.1 hc.sorted
  obtain ⟨C1, C2, hsp, hC1, hC2⟩ :=
    split_prefix (fun a b => ILt (itemAt sl.heap a) (itemAt sl.heap b))
      (fun y => nodeLt (itemAt sl.heap y) s m) c hpw
      (fun a ha b hb hab hlt => less_closed m s _ _ (hc.good a ha) (hc.good b hb) hab hlt)
  have hcond : CondUpTo sl c (lessCond m s) C1.length := by
    intro q n nd hq hn h1
    have hq' : c[q - 1]? = some n := by
      rw [List.getElem?_cons] at hq
      have : ¬ q = 0 := by omega
      simpa [this] using hq
    rw [hsp, List.getElem?_append] at hq'
    show nodeLt nd.item s m = decide (q ≤ C1.length)
    rw [← itemAt_of_getElem hn]
    by_cases hlt : q - 1 < C1.length
    · rw [if_pos hlt] at hq'
      have := hC1 n (List.mem_iff_getElem?.2 ⟨_, hq'⟩)
      simp only [this]
      exact (decide_eq_true (by omega)).symm
    · rw [if_neg hlt] at hq'
      have := hC2 n (List.mem_iff_getElem?.2 ⟨_, hq'⟩)
      simp only [this]
      exact (decide_eq_false (by omega)).symm
  obtain ⟨x, acc, update, rank, hrun, _, _, hur, _, hlast, _⟩ := search_spec hc (lessCond m s) C1.length hcond
  have htake : (0 :: c).take (C1.length + 1) = 0 :: C1 := by
    rw [hsp]; simp
  rw [htake] at hur hlast
  have hupd : UpdateFor sl.heap sl.level (0 :: C1) update := by
    intro i hi
    obtain ⟨A, u, B, h1, h2, h3, h4, _⟩ := hur i hi
    exact ⟨A, u, B, h1, h2, h3, h4⟩
  obtain ⟨P, hP⟩ := List.getLast?_eq_some_iff.1 hlast
  obtain ⟨l0, hl0, hl0f⟩ := level0_next hc P x C2 (by rw [hsp, ← List.cons_append, hP]; simp)
  cases C2 with
  | nil =>
    simp only [List.head?_nil] at hl0f
    simp [remove, hrun, hl0, hl0f, bind, Except.bind, pure, Except.pure] at hrun'
    rw [← hrun'.1]
    exact ⟨c, hc, hn⟩
  | cons n B =>
    simp only [List.head?_cons] at hl0f
    have hnc : n ∈ c := by rw [hsp]; simp
    have hnlt := hc.bound n hnc
    have hnd : sl.heap[n]? = some sl.heap[n] := by simp [hnlt]
    by_cases hmatch : F64.eq s sl.heap[n].score = true ∧ sl.heap[n].member = m
    · obtain ⟨sl1, hrm, hc1, _⟩ := removeNode_spec hc C1 n B hsp update hupd
      have hn1 := removeNode_nilSpans hc hn C1 n B hsp update hupd sl1 hrm
      simp [remove, hrun, hl0, hl0f, (getNode_ok_iff sl.heap n _).2 hnd, hmatch, hrm, bind, Except.bind, pure,
        Except.pure] at hrun'
      rw [← hrun'.1]
      exact ⟨_, hc1, hn1⟩
    · simp [remove, hrun, hl0, hl0f, (getNode_ok_iff sl.heap n _).2 hnd, hmatch, bind, Except.bind, pure,
        Except.pure] at hrun'
      rw [← hrun'.1]
      exact ⟨c, hc, hn⟩

end NodisVerif.Skiplist
