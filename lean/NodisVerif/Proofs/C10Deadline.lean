import NodisVerif.Proofs.C10Factor
/-
  C10 helper lemmas, part 6: what a write command does to the deadline of a live key.
-/
namespace NodisVerif.Proofs.C10
open NodisVerif Store
open NodisVerif.Proofs.AListLemmas NodisVerif.Proofs.AListLemmas2

theorem live_iff {s : MState} {now : Int} {k : Bytes} {m : Meta} :
    live s now k = some m ↔ getMeta s k = some m ∧ m.isOk = true ∧ m.expired now = false := by
  unfold live
  cases hg : getMeta s k with
  | none => simp
  | some m0 =>
    simp only [Option.filter]
    constructor
    · intro h
      split at h
      · rename_i hc
        simp only [Option.some.injEq] at h; subst h
        simp only [Bool.and_eq_true, Bool.not_eq_true'] at hc
        exact ⟨rfl, hc.1, hc.2⟩
      · cases h
    · rintro ⟨h1, h2, h3⟩
      simp only [Option.some.injEq] at h1; subst h1
      simp [h2, h3]

theorem vis_of_live {s : MState} {now : Int} {k : Bytes} {m : Meta} (h : live s now k = some m) :
    vis now s k = some (recOf s k m) := by
  obtain ⟨h1, _, h3⟩ := live_iff.mp h
  rw [vis_eq_of_getMeta h1]; simp [h3]

theorem live_none_vis {s : MState} {now : Int} {k : Bytes} (h : live s now k = none) :
    rkOk (vis now s k) = false := by
  cases hg : getMeta s k with
  | none => rw [vis_none_of_getMeta hg]; rfl
  | some m =>
    rw [vis_eq_of_getMeta hg]
    split
    · rfl
    · rename_i he
      have : m.isOk = false := by
        cases hok : m.isOk with
        | false => rfl
        | true =>
          have := live_iff.mpr ⟨hg, hok, by simpa using he⟩
          rw [h] at this; cases this
      simp [rkOk, recOf, this]

/-- after a successful lookup of a live key: reply, value, deadline -/
theorem writeKey_liveWith {s : MState} {now : Int} {k : Bytes} {m : Meta} {v : Val}
    (h : LiveWith s now k m v) (hs : AList.Sorted s.index) (mk : Option Val) :
    (writeKey s now k mk).2 = true ∧ valOf (writeKey s now k mk).1 k = some v ∧
    Api.expOf (writeKey s now k mk).1 k = m.exp ∧ (getMeta (writeKey s now k mk).1 k).isSome = true ∧
    AList.Sorted (writeKey s now k mk).1.index ∧ frame (writeKey s now k mk).1 = frame s := by
  obtain ⟨hl, hv⟩ := h
  obtain ⟨a1, a2, a3, a4⟩ := writeKey_spec s now k mk hs
  have hvis := vis_of_live hl
  obtain ⟨_, hok, _⟩ := live_iff.mp hl
  have hr : rkOk (vis now s k) = true := by
    rw [hvis]
    rcases hv with hv | ⟨hv, oid, hld⟩
    · simp [rkOk, recOf, hok, hv]
    · simp [rkOk, recOf, hok, hv, hld]
  have hpost : vis now (writeKey s now k mk).1 k = some (touch (recOf s k m)) := by
    rw [a2, if_pos rfl, if_pos hr, hvis]; rfl
  have htv : (touch (recOf s k m)).value = some v ∧ (touch (recOf s k m)).exp = m.exp := by
    rcases hv with hv | ⟨hv, oid, hld⟩
    · simp [touch, recOf, hv]
    · simp [touch, recOf, hv, hld]
  obtain ⟨m1, hm1, _, _⟩ := vis_some_getMeta hpost
  refine ⟨by rw [a1, hr]; rfl, ?_, ?_, by rw [hm1]; rfl, a4, by rw [a3, if_pos hr]⟩
  · rw [valOf_of_vis hpost]; exact htv.1
  · rw [expOf_of_vis hpost]; exact htv.2

theorem readKey_liveWith {s : MState} {now : Int} {k : Bytes} {m : Meta} {v : Val}
    (h : LiveWith s now k m v) (hs : AList.Sorted s.index) :
    (readKey s now k).2 = true ∧ valOf (readKey s now k).1 k = some v ∧
    Api.expOf (readKey s now k).1 k = m.exp := by
  obtain ⟨hl, hv⟩ := h
  obtain ⟨a1, a2, _, _⟩ := readKey_spec s now k hs
  have hvis := vis_of_live hl
  obtain ⟨_, hok, _⟩ := live_iff.mp hl
  have hr : rkOk (vis now s k) = true := by
    rw [hvis]
    rcases hv with hv | ⟨hv, oid, hld⟩
    · simp [rkOk, recOf, hok, hv]
    · simp [rkOk, recOf, hok, hv, hld]
  have hpost : vis now (readKey s now k).1 k = some (touch (recOf s k m)) := by
    rw [a2, if_pos rfl, if_pos hr, hvis]; rfl
  have htv : (touch (recOf s k m)).value = some v ∧ (touch (recOf s k m)).exp = m.exp := by
    rcases hv with hv | ⟨hv, oid, hld⟩
    · simp [touch, recOf, hv]
    · simp [touch, recOf, hv, hld]
  refine ⟨by rw [a1, hr], ?_, ?_⟩
  · rw [valOf_of_vis hpost]; exact htv.1
  · rw [expOf_of_vis hpost]; exact htv.2

/-- a key with no visible record: the lookup fails -/
theorem readKey_absent {s : MState} {now : Int} {k : Bytes} (h : live s now k = none)
    (hs : AList.Sorted s.index) : (readKey s now k).2 = false := by
  rw [(readKey_spec s now k hs).1]; exact live_none_vis h

theorem writeKey_absent {s : MState} {now : Int} {k : Bytes} (h : live s now k = none)
    (hs : AList.Sorted s.index) : (writeKey s now k none).2 = false := by
  rw [(writeKey_spec s now k none hs).1, live_none_vis h]; rfl

/-! ### deadlines through `applyAct` -/

theorem expOf_setVal (s : MState) (k k' : Bytes) (v : Val) : Api.expOf (Api.setVal s k v) k' = Api.expOf s k' := by
  unfold Api.expOf; rw [getMeta_setVal_exp]

theorem expOf_signal (s : MState) (k k' : Bytes) : Api.expOf (signal s k) k' = Api.expOf s k' := by
  unfold Api.expOf
  rw [getMeta_signal]
  split
  · rename_i h; subst h; cases getMeta s k <;> rfl
  · rfl

theorem expOf_emit (s : MState) (op : FeedOp) (k : Bytes) : Api.expOf (emit s op) k = Api.expOf s k := by
  unfold Api.expOf; rw [getMeta_emit]

theorem expOf_emits (ops : List FeedOp) : ∀ (s : MState) (k : Bytes),
    Api.expOf (ops.foldl emit s) k = Api.expOf s k := by
  induction ops with
  | nil => intro s k; rfl
  | cons op rest ih => intro s k; simp only [List.foldl_cons]; rw [ih, expOf_emit]

theorem expOf_delKey (s : MState) (k : Bytes) (hs : AList.Sorted s.index) : Api.expOf (delKey s k) k = 0 := by
  unfold Api.expOf; rw [getMeta_delKey s k k hs]; simp

theorem present_setExp {s : MState} {k : Bytes} (e : Int) (h : (getMeta s k).isSome = true) :
    (getMeta (Api.setExp s k e) k).isSome = true := by
  rw [getMeta_setExp, if_pos rfl]
  obtain ⟨m, hm⟩ := Option.isSome_iff_exists.mp h
  rw [hm]; rfl

theorem expOf_applyAct (s : MState) (k : Bytes) (a : Act) (hp : (getMeta s k).isSome = true)
    (hs : AList.Sorted s.index) :
    Api.expOf (applyAct s k a).1 k = if a.del then 0 else a.exp.getD (Api.expOf s k) := by
  obtain ⟨val, exp, del, sig, ops, out⟩ := a
  simp only [applyAct]
  rw [expOf_emits]
  cases val with
  | none =>
    cases exp with
    | none =>
      cases del <;> cases sig <;>
        simp [expOf_signal, expOf_delKey, hs]
    | some e =>
      have p1 := present_setExp e hp
      have s1 := sorted_setExp s k e hs
      cases del <;> cases sig <;>
        simp [expOf_signal, expOf_delKey, expOf_setExp, hp, s1]
  | some v =>
    have p0 := present_setVal v hp
    have s0 := sorted_setVal s k v hs
    cases exp with
    | none =>
      cases del <;> cases sig <;>
        simp [expOf_signal, expOf_delKey, expOf_setVal, s0]
    | some e =>
      have s1 := sorted_setExp _ k e s0
      cases del <;> cases sig <;>
        simp [expOf_signal, expOf_delKey, expOf_setExp, p0, s1]

/-- a write command on a live key: reply and new deadline, read off the command's action -/
theorem writeCmd_liveWith {s : MState} {now : Int} {k : Bytes} {m : Meta} {v : Val}
    (h : LiveWith s now k m v) (hs : AList.Sorted s.index) (mk : Option Val) (miss : Out)
    (body : Option Val → Int → Act) :
    (writeCmd mk miss body s now k).2 = (body (some v) m.exp).out ∧
    Api.expOf (writeCmd mk miss body s now k).1 k =
      (if (body (some v) m.exp).del then 0 else (body (some v) m.exp).exp.getD m.exp) := by
  obtain ⟨a, b, c, d, e, _⟩ := writeKey_liveWith h hs mk
  unfold writeCmd
  simp only [a, Bool.not_true, Bool.false_eq_true, if_false, b, c]
  exact ⟨rfl, by rw [expOf_applyAct _ k _ d e, c]⟩

theorem readCmd_liveWith {s : MState} {now : Int} {k : Bytes} {m : Meta} {v : Val}
    (h : LiveWith s now k m v) (hs : AList.Sorted s.index) (miss : Out) (f : Option Val → Int → Out) :
    (readCmd miss f s now k).2 = f (some v) m.exp := by
  obtain ⟨a, b, c⟩ := readKey_liveWith h hs
  unfold readCmd
  simp only [a, Bool.not_true, Bool.false_eq_true, if_false, b, c]

theorem readCmd_absent {s : MState} {now : Int} {k : Bytes} (h : live s now k = none)
    (hs : AList.Sorted s.index) (miss : Out) (f : Option Val → Int → Out) :
    (readCmd miss f s now k).2 = miss := by
  unfold readCmd
  simp only [readKey_absent h hs, Bool.not_false, if_true]

theorem writeCmd_absent {s : MState} {now : Int} {k : Bytes} (h : live s now k = none)
    (hs : AList.Sorted s.index) (miss : Out) (body : Option Val → Int → Act) :
    (writeCmd none miss body s now k).2 = miss := by
  unfold writeCmd
  simp only [writeKey_absent h hs, Bool.not_false, if_true]

/-- a creating lookup on a key with no visible record publishes a fresh record without deadline -/
theorem writeKey_fresh {s : MState} {now : Int} {k : Bytes} (h : live s now k = none)
    (hs : AList.Sorted s.index) (c : Val) :
    (writeKey s now k (some c)).2 = true ∧ valOf (writeKey s now k (some c)).1 k = some c ∧
    Api.expOf (writeKey s now k (some c)).1 k = 0 ∧ (getMeta (writeKey s now k (some c)).1 k).isSome = true ∧
    AList.Sorted (writeKey s now k (some c)).1.index ∧
    vis now (writeKey s now k (some c)).1 k = some (freshRec s.nextId c) := by
  obtain ⟨a1, a2, _, a4⟩ := writeKey_spec s now k (some c) hs
  have hr := live_none_vis h
  have hpost : vis now (writeKey s now k (some c)).1 k = some (freshRec s.nextId c) := by
    rw [a2, if_pos rfl, hr]; rfl
  obtain ⟨m1, hm1, _, _⟩ := vis_some_getMeta hpost
  refine ⟨by rw [a1, hr]; rfl, ?_, ?_, by rw [hm1]; rfl, a4, hpost⟩
  · rw [valOf_of_vis hpost]; rfl
  · rw [expOf_of_vis hpost]; rfl

theorem writeCmd_fresh {s : MState} {now : Int} {k : Bytes} (h : live s now k = none)
    (hs : AList.Sorted s.index) (c : Val) (miss : Out) (body : Option Val → Int → Act) :
    (writeCmd (some c) miss body s now k).2 = (body (some c) 0).out ∧
    Api.expOf (writeCmd (some c) miss body s now k).1 k =
      (if (body (some c) 0).del then 0 else (body (some c) 0).exp.getD 0) := by
  obtain ⟨a, b, c', d, e, _⟩ := writeKey_fresh h hs c
  unfold writeCmd
  simp only [a, Bool.not_true, Bool.false_eq_true, if_false, b, c']
  exact ⟨rfl, by rw [expOf_applyAct _ k _ d e, c']⟩

/-- a write command whose action never sets a deadline and never deletes keeps the deadline -/
theorem writeCmd_keeps {s : MState} {now : Int} {k : Bytes} {m : Meta} {v : Val}
    (h : LiveWith s now k m v) (hs : AList.Sorted s.index) (mk : Option Val) (miss : Out)
    (body : Option Val → Int → Act) (hb : ∀ v e, (body v e).exp = none ∧ (body v e).del = false) :
    Api.expOf (writeCmd mk miss body s now k).1 k = m.exp := by
  rw [(writeCmd_liveWith h hs mk miss body).2, (hb _ _).1, (hb _ _).2]; rfl

theorem actOn_keeps {α : Type} (proj : Option Val → Option α) (f : α → Int → Act)
    (hf : ∀ x e, (f x e).exp = none ∧ (f x e).del = false) :
    ∀ v e, (actOn proj f v e).exp = none ∧ (actOn proj f v e).del = false := by
  intro v e
  unfold actOn
  split
  · exact hf _ _
  · exact ⟨rfl, rfl⟩

/-! ### TTL arithmetic -/

theorem ttlF_eq (now e : Int) (v : Option Val) : ttlF now v e = .int (Spec.ttlNs now (some e)) := by
  unfold ttlF Spec.ttlNs
  by_cases h0 : e = 0
  · simp [h0]
  · simp only [h0, if_false]
    have hd : e * 1000000 - now * 1000000 = (e - now) * 1000000 := by omega
    rw [hd]
    have hle : (if (e - now) * 1000000 > int64Max then int64Max else (e - now) * 1000000) ≤ int64Max := by
      split <;> omega
    generalize (if (e - now) * 1000000 > int64Max then int64Max else (e - now) * 1000000) = d at hle ⊢
    unfold int64Max at hle ⊢
    split
    · have : (d + 500000000) / 1000000000 * 1000000000 = d - d % 1000000000 := by omega
      rw [this]
      split
      · exfalso; omega
      · rfl
    · have : (d + 500000000) / 1000000000 * 1000000000 = d + 1000000000 - d % 1000000000 := by omega
      rw [this]
      split <;> rfl

theorem pttlF_eq (now e : Int) (v : Option Val) : pttlF now v e = .int (Spec.pttl now (some e)) := by
  unfold pttlF Spec.pttl
  simp only
  split <;> rfl

theorem wrap64_id (x : Int) (hx : inInt64 x = true) : wrap64 x = x := by
  unfold inInt64 int64Min int64Max at hx
  have hx := of_decide_eq_true hx
  unfold wrap64 int64Max
  simp only
  split <;> omega

/-! ### the key is live after a (non-deleting) write: needed to chain commands (SET … EX = SET; EXPIRE) -/

theorem liveWith_of_vis {s : MState} {now : Int} {k : Bytes} {r : View.Rec} {v : Val}
    (hv : vis now s k = some r) (hok : r.ok = true) (hval : r.value = some v) :
    ∃ m, LiveWith s now k m v ∧ m.exp = r.exp := by
  obtain ⟨m, hm, he, hr⟩ := vis_some_getMeta hv
  subst hr
  simp only [recOf] at hok hval
  exact ⟨m, ⟨live_iff.mpr ⟨hm, hok, he⟩, Or.inl hval⟩, rfl⟩

theorem writeKey_view {s : MState} {now : Int} {k : Bytes} {mk : Option Val} (hs : AList.Sorted s.index)
    (hok : (writeKey s now k mk).2 = true) :
    ∃ r, vis now (writeKey s now k mk).1 k = some r ∧ r.ok = true ∧ r.value.isSome = true := by
  obtain ⟨a1, a2, _, _⟩ := writeKey_spec s now k mk hs
  rw [a1] at hok
  by_cases hr : rkOk (vis now s k) = true
  · cases hv : vis now s k with
    | none => rw [hv] at hr; simp [rkOk] at hr
    | some r =>
      rw [hv] at hr
      refine ⟨touch r, by rw [a2, if_pos rfl, hv, if_pos hr]; rfl, ?_, touch_hot r hr⟩
      simp only [rkOk, Bool.and_eq_true] at hr
      unfold touch
      split
      · rfl
      · exact hr.1
  · simp only [hr, Bool.false_or] at hok
    obtain ⟨v, hv⟩ := Option.isSome_iff_exists.mp hok
    subst hv
    exact ⟨freshRec s.nextId v, by rw [a2, if_pos rfl, if_neg hr], rfl, rfl⟩

theorem vis_emits (now : Int) (ops : List FeedOp) : ∀ (s : MState) (k : Bytes),
    vis now (ops.foldl emit s) k = vis now s k := by
  induction ops with
  | nil => intro s k; rfl
  | cons op rest ih => intro s k; simp only [List.foldl_cons]; rw [ih, vis_emit]

/-- the view of the key after a non-deleting action on a visible hot record -/
theorem vis_applyAct {s : MState} {now : Int} {k : Bytes} {r : View.Rec} (a : Act)
    (hv : vis now s k = some r) (hot : r.value.isSome = true) (hdel : a.del = false)
    (hexp : ∀ e, a.exp = some e → ¬ (e ≠ 0 ∧ e ≤ now)) :
    ∃ r', vis now (applyAct s k a).1 k = some r' ∧ r'.ok = r.ok ∧ r'.exp = a.exp.getD r.exp ∧
      r'.value = (match a.val with | some v => some v | none => r.value) := by
  obtain ⟨val, exp, del, sig, ops, out⟩ := a
  simp only at hdel hexp
  subst hdel
  simp only [applyAct, Bool.false_eq_true, if_false]
  rw [vis_emits]
  -- setVal
  have step1 : ∃ r1, vis now (match val with | some v => Api.setVal s k v | none => s) k = some r1 ∧
      r1.ok = r.ok ∧ r1.exp = r.exp ∧ r1.value = (match val with | some v => some v | none => r.value) := by
    cases val with
    | none => exact ⟨r, hv, rfl, rfl, rfl⟩
    | some v =>
      obtain ⟨m, hm, _, _⟩ := vis_some_getMeta hv
      refine ⟨setValRec s.pebble m.oid v (k = k) r, by rw [vis_setVal now s k k v m hm, hv]; rfl, ?_, ?_, ?_⟩
      · simp only [setValRec, decide_true, if_true]; split <;> rfl
      · simp only [setValRec, decide_true, if_true]; split <;> rfl
      · simp only [setValRec, decide_true, if_true]
        split
        · rfl
        · simp only [sharedRec]; split <;> rfl
  obtain ⟨r1, h1, o1, e1, v1⟩ := step1
  have hot1 : r1.value.isSome = true := by
    rw [v1]; cases val with
    | none => exact hot
    | some _ => rfl
  -- setExp
  have step2 : ∃ r2, vis now (match exp with
        | some e => Api.setExp (match val with | some v => Api.setVal s k v | none => s) k e
        | none => (match val with | some v => Api.setVal s k v | none => s)) k = some r2 ∧
      r2.ok = r.ok ∧ r2.exp = exp.getD r.exp ∧ r2.value = r1.value := by
    cases exp with
    | none => exact ⟨r1, h1, o1, e1, rfl⟩
    | some e =>
      refine ⟨{ r1 with exp := e }, ?_, o1, rfl, rfl⟩
      rw [vis_setExp now _ k k e r1 h1 hot1, if_pos rfl, if_neg (hexp e rfl)]
  obtain ⟨r2, h2, o2, e2, v2⟩ := step2
  cases sig with
  | false => exact ⟨r2, h2, o2, e2, by rw [v2, v1]⟩
  | true =>
    simp only [if_true]
    refine ⟨markModRec r2, ?_, o2, e2, by rw [← v1, ← v2]; rfl⟩
    rw [vis_signal, if_pos rfl]
    exact congrArg (Option.map markModRec) h2

/-- after a write command whose action writes the value `v'` and does not delete, the key is live with `v'` -/
theorem writeCmd_liveAfter {s : MState} {now : Int} {k : Bytes} (hs : AList.Sorted s.index) (mk : Option Val)
    (miss : Out) (body : Option Val → Int → Act) (v' : Val)
    (hok : (writeKey s now k mk).2 = true)
    (hval : (body (valOf (writeKey s now k mk).1 k) (Api.expOf (writeKey s now k mk).1 k)).val = some v')
    (hdel : (body (valOf (writeKey s now k mk).1 k) (Api.expOf (writeKey s now k mk).1 k)).del = false)
    (hexp : ∀ e, (body (valOf (writeKey s now k mk).1 k) (Api.expOf (writeKey s now k mk).1 k)).exp = some e →
      ¬ (e ≠ 0 ∧ e ≤ now)) :
    ∃ m', LiveWith (writeCmd mk miss body s now k).1 now k m' v' := by
  obtain ⟨r, hv, hokr, hot⟩ := writeKey_view hs hok
  obtain ⟨r', h', o', _, v''⟩ := vis_applyAct
    (body (valOf (writeKey s now k mk).1 k) (Api.expOf (writeKey s now k mk).1 k)) hv hot hdel hexp
  rw [hval] at v''
  have : (writeCmd mk miss body s now k).1 =
      (applyAct (writeKey s now k mk).1 k
        (body (valOf (writeKey s now k mk).1 k) (Api.expOf (writeKey s now k mk).1 k))).1 := by
    unfold writeCmd
    simp only [hok, Bool.not_true, Bool.false_eq_true, if_false]
  rw [this]
  obtain ⟨m', hl, _⟩ := liveWith_of_vis h' (by rw [o', hokr]) v''
  exact ⟨m', hl⟩

end NodisVerif.Proofs.C10
