import NodisVerif.Proofs.GateProgRefine
/-
  Every schedule of the program model: the emitted trace is a run of the gate protocol (`sim_run`), and the reached
  configuration satisfies `Inv` and is related to the reached gate state.
-/
namespace NodisVerif.GateProg
open NodisVerif.Gate (G T GMode Ev GState)

theorem gate_run_append (gs : GState) (a b : List Ev) :
    Gate.run gs (a ++ b) = (Gate.run gs a).bind fun gs' => Gate.run gs' b := by
  induction a generalizing gs with
  | nil => rfl
  | cons e es ih =>
    simp only [List.cons_append, Gate.run]
    cases Gate.step gs e with
    | none => rfl
    | some s1 => exact ih s1

theorem sim_step {c c' : Cfg} {t : Tid} {ch : Choice} {evs : List Ev} {gs : GState}
    (hi : Inv c) (hr : R c gs) (hs : step c t ch = some (c', evs)) :
    ∃ gs', Gate.run gs evs = some gs' ∧ Inv c' ∧ R c' gs' := by
  unfold step at hs
  split at hs
  · cases hs
  · rename_i s l e heq
    cases hs
    exact sim_tstep hi hr heq

theorem sim_run : ∀ (sch : List (Tid × Choice)) (c : Cfg) (gs : GState), Inv c → R c gs →
    ∃ gs', Gate.run gs (run c sch).2 = some gs' ∧ Inv (run c sch).1 ∧ R (run c sch).1 gs'
  | [], c, gs, hi, hr => ⟨gs, rfl, hi, hr⟩
  | (t, ch) :: sch, c, gs, hi, hr => by
    simp only [run]
    cases hst : step c t ch with
    | none => exact sim_run sch c gs hi hr
    | some p =>
      obtain ⟨c', e⟩ := p
      obtain ⟨gs1, h1, hi1, hr1⟩ := sim_step hi hr hst
      obtain ⟨gs2, h2, hi2, hr2⟩ := sim_run sch c' gs1 hi1 hr1
      refine ⟨gs2, ?_, hi2, hr2⟩
      show Gate.run gs (e ++ (run c' sch).2) = some gs2
      rw [gate_run_append, h1]; exact h2

theorem run_append (c : Cfg) (a b : List (Tid × Choice)) :
    run c (a ++ b) = ((run (run c a).1 b).1, (run c a).2 ++ (run (run c a).1 b).2) := by
  induction a generalizing c with
  | nil => simp [run]
  | cons x xs ih =>
    obtain ⟨t, ch⟩ := x
    simp only [List.cons_append, run]
    cases step c t ch with
    | none => exact ih c
    | some p => simp only [ih p.1, List.append_assoc]

/-- reachable configurations -/
theorem reach_inv (sch : List (Tid × Choice)) :
    ∃ gs, Gate.run {} (run {} sch).2 = some gs ∧ Inv (run {} sch).1 ∧ R (run {} sch).1 gs :=
  sim_run sch {} {} inv_init R_init

end NodisVerif.GateProg
