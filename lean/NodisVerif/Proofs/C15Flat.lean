import NodisVerif.Model.RespReader
/-
  C15, part 1: every reader primitive depends on the source only through its flattening.
  `SEq` = same byte stream ahead, same window; `REq` = same outcome up to `SEq`.
-/
namespace NodisVerif.Proofs.C15
open Resp RespReader

@[simp] theorem srcFlat_nil : srcFlat [] = [] := rfl
@[simp] theorem srcFlat_cons (c : Bytes) (r : Source) : srcFlat (c :: r) = c ++ srcFlat r := by
  simp [srcFlat]
theorem srcFlat_single (b : Bytes) : srcFlat [b] = b := by simp

/-- `Read` at end of stream -/
theorem srcRead_none (src : Source) (k : Nat) : srcRead src k = none ↔ srcFlat src = [] := by
  induction src with
  | nil => simp [srcRead]
  | cons c r ih =>
    cases c with
    | nil => simp [srcRead, ih]
    | cons x xs => simp only [srcRead]; split <;> simp

/-- a successful `Read` returns a non-empty prefix of the stream, at most `k` bytes -/
theorem srcRead_some {src : Source} {k : Nat} (hk : 0 < k) {bs : Bytes} {src' : Source}
    (h : srcRead src k = some (bs, src')) :
    bs ≠ [] ∧ bs.length ≤ k ∧ srcFlat src = bs ++ srcFlat src' := by
  induction src with
  | nil => simp [srcRead] at h
  | cons c r ih =>
    cases c with
    | nil => simp only [srcRead] at h; simpa using ih h
    | cons x xs =>
      simp only [srcRead] at h
      split at h
      · simp only [Option.some.injEq, Prod.mk.injEq] at h
        obtain ⟨rfl, rfl⟩ := h
        refine ⟨by simp, by assumption, by simp⟩
      · simp only [Option.some.injEq, Prod.mk.injEq] at h
        obtain ⟨rfl, rfl⟩ := h
        refine ⟨?_, ?_, ?_⟩
        · cases k with
          | zero => omega
          | succ k => simp
        · simp [List.length_take]; omega
        · simp only [srcFlat_cons]
          rw [← List.append_assoc, List.take_append_drop]

/-- states that agree on the byte stream ahead and on the window -/
def SEq (s t : RState) : Prop := srcFlat s.src = srcFlat t.src ∧ s.before = t.before ∧ s.win = t.win

theorem SEq.refl (s : RState) : SEq s s := ⟨rfl, rfl, rfl⟩
theorem SEq.symm {s t : RState} (h : SEq s t) : SEq t s := ⟨h.1.symm, h.2.1.symm, h.2.2.symm⟩
theorem SEq.trans {s t u : RState} (h : SEq s t) (g : SEq t u) : SEq s u :=
  ⟨h.1.trans g.1, h.2.1.trans g.2.1, h.2.2.trans g.2.2⟩

/-- outcomes that agree up to `SEq` -/
def REq {α : Type} : Res α → Res α → Prop
  | .ok a s, .ok b t => a = b ∧ SEq s t
  | .err e s, .err f t => e = f ∧ SEq s t
  | .panic, .panic => True
  | _, _ => False

theorem REq.refl {α} (r : Res α) : REq r r := by
  cases r <;> simp [REq, SEq.refl]
theorem REq.symm {α} {r s : Res α} (h : REq r s) : REq s r := by
  match r, s, h with
  | .ok _ _, .ok _ _, ⟨h1, h2⟩ => exact ⟨h1.symm, h2.symm⟩
  | .err _ _, .err _ _, ⟨h1, h2⟩ => exact ⟨h1.symm, h2.symm⟩
  | .panic, .panic, _ => trivial
theorem REq.trans {α} {r s t : Res α} (h : REq r s) (g : REq s t) : REq r t := by
  match r, s, t, h, g with
  | .ok _ _, .ok _ _, .ok _ _, ⟨h1, h2⟩, ⟨g1, g2⟩ => exact ⟨h1.trans g1, h2.trans g2⟩
  | .err _ _, .err _ _, .err _ _, ⟨h1, h2⟩, ⟨g1, g2⟩ => exact ⟨h1.trans g1, h2.trans g2⟩
  | .panic, .panic, .panic, _, _ => trivial

theorem REq.cases {α} {r s : Res α} (h : REq r s) :
    (∃ a p q, r = .ok a p ∧ s = .ok a q ∧ SEq p q) ∨
    (∃ e p q, r = .err e p ∧ s = .err e q ∧ SEq p q) ∨
    (r = .panic ∧ s = .panic) := by
  match r, s, h with
  | .ok a p, .ok _ q, ⟨h1, h2⟩ => subst h1; exact .inl ⟨a, p, q, rfl, rfl, h2⟩
  | .err e p, .err _ q, ⟨h1, h2⟩ => subst h1; exact .inr (.inl ⟨e, p, q, rfl, rfl, h2⟩)
  | .panic, .panic, _ => exact .inr (.inr ⟨rfl, rfl⟩)

theorem REq.ok {α} {a : α} {p q : RState} (h : SEq p q) : REq (.ok a p) (.ok a q) := ⟨rfl, h⟩
theorem REq.err {α} {e : RErr} {p q : RState} (h : SEq p q) : REq (.err e p : Res α) (.err e q) := ⟨rfl, h⟩
theorem REq.panic {α} : REq (.panic : Res α) .panic := trivial

theorem SEq.remaining {s t : RState} (h : SEq s t) : remaining s = remaining t := by
  simp [RespReader.remaining, h.1]

theorem SEq.malloc {s t : RState} (h : SEq s t) : SEq (malloc s) (malloc t) := by
  obtain ⟨h1, h2, h3⟩ := h
  exact ⟨h1, by simp [RespReader.malloc, h2, h3], rfl⟩

/-! ### readByte -/

theorem readByte_nil {st : RState} (h : srcFlat st.src = []) : readByte st = .err .eof st := by
  simp [readByte, (srcRead_none st.src 1).mpr h]

theorem readByte_cons {st : RState} {b : UInt8} {t : Bytes} (h : srcFlat st.src = b :: t) :
    ∃ src', srcFlat src' = t ∧ readByte st = .ok () ⟨src', st.before, st.win ++ [b]⟩ := by
  unfold readByte
  cases hr : srcRead st.src 1 with
  | none => rw [(srcRead_none _ _).mp hr] at h; cases h
  | some p =>
    obtain ⟨bs, src'⟩ := p
    obtain ⟨h1, h2, h3⟩ := srcRead_some (by decide) hr
    rw [h] at h3
    match bs, h1, h2 with
    | [x], _, _ =>
      simp at h3
      obtain ⟨rfl, rfl⟩ := h3
      exact ⟨src', rfl, rfl⟩

theorem readByte_congr {s t : RState} (h : SEq s t) : REq (readByte s) (readByte t) := by
  obtain ⟨h1, h2, h3⟩ := h
  cases hf : srcFlat s.src with
  | nil =>
    rw [readByte_nil hf, readByte_nil (h1 ▸ hf)]
    exact REq.err ⟨h1, h2, h3⟩
  | cons b r =>
    obtain ⟨s', e1, e2⟩ := readByte_cons hf
    obtain ⟨t', e3, e4⟩ := readByte_cons (h1 ▸ hf)
    rw [e2, e4]
    exact REq.ok ⟨by simp [e1, e3], h2, by simp [h3]⟩

/-! ### readByteN: the only primitive whose number of `Read` calls depends on the chunking -/

/-- what `readByteN` does, as a function of the flattened stream -/
def readByteNF (flat : Bytes) (before : Option UInt8) (win : Bytes) (n : Nat) : Res Unit :=
  if win.length ≥ n then .ok () ⟨[flat], before, win⟩
  else if flat.length ≥ n - win.length then
    .ok () ⟨[flat.drop (n - win.length)], before, win ++ flat.take (n - win.length)⟩
  else .err .eof ⟨[], before, win ++ flat⟩

theorem readByteN_spec (n : Nat) : ∀ (fuel : Nat) (st : RState), remaining st < fuel →
    REq (readByteN st n fuel) (readByteNF (srcFlat st.src) st.before st.win n) := by
  intro fuel
  induction fuel with
  | zero => intro st h; omega
  | succ fuel ih =>
    intro st hf
    unfold readByteN
    by_cases hw : st.win.length ≥ n
    · simp only [hw, if_true, readByteNF]
      exact REq.ok ⟨by simp, rfl, rfl⟩
    · simp only [hw, if_false]
      cases hr : srcRead st.src (n - st.win.length) with
      | none =>
        have h0 := (srcRead_none _ _).mp hr
        simp only [readByteNF, hw, if_false, h0]
        have : ¬ ([] : Bytes).length ≥ n - st.win.length := by simp; omega
        simp only [this, if_false]
        exact REq.err ⟨by simp [h0], rfl, by simp⟩
      | some p =>
        obtain ⟨bs, src'⟩ := p
        obtain ⟨h1, h2, h3⟩ := srcRead_some (by omega) hr
        have hlen : 0 < bs.length := List.length_pos_iff.mpr h1
        simp only
        refine REq.trans (ih ⟨src', st.before, st.win ++ bs⟩ ?_) ?_
        · simp only [remaining, h3, List.length_append] at hf ⊢; omega
        · simp only [readByteNF, h3, hw, if_false, List.length_append]
          generalize st.win = w at *
          generalize srcFlat src' = f at *
          by_cases hc : w.length + bs.length ≥ n
          · have hb : bs.length = n - w.length := by omega
            have : bs.length + f.length ≥ n - w.length := by omega
            simp only [hc, if_true, this]
            refine REq.ok ⟨?_, rfl, ?_⟩
            · simp [← hb]
            · simp [← hb]
          · simp only [hc, if_false]
            have hk : n - w.length = bs.length + (n - (w.length + bs.length)) := by omega
            by_cases hd : f.length ≥ n - (w.length + bs.length)
            · have : bs.length + f.length ≥ n - w.length := by omega
              simp only [hd, if_true, this]
              refine REq.ok ⟨?_, rfl, ?_⟩
              · rw [hk]; simp [List.drop_append]
              · rw [hk]; simp [List.take_append]
                exact (List.take_of_length_le (by omega)).symm
            · have : ¬ bs.length + f.length ≥ n - w.length := by omega
              simp only [hd, if_false, this]
              exact REq.err ⟨rfl, rfl, by simp⟩

theorem readByteN_congr {s t : RState} (h : SEq s t) (n : Nat) {f g : Nat}
    (hf : remaining s < f) (hg : remaining t < g) : REq (readByteN s n f) (readByteN t n g) := by
  refine REq.trans (readByteN_spec n f s hf) (REq.symm ?_)
  obtain ⟨h1, h2, h3⟩ := h
  rw [h1, h2, h3]
  exact readByteN_spec n g t hg

end NodisVerif.Proofs.C15
