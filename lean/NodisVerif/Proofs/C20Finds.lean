import NodisVerif.Proofs.C20Seq
/-
  C20: read-only methods emit nothing; silence implies no change; concrete witnesses (findings).
-/
namespace NodisVerif.Proofs.C20
open NodisVerif NodisVerif.Store NodisVerif.Spec.Persist NodisVerif.Proofs.C11

/-! ### read-only methods -/

/-- the single-key read-only methods (and EXISTS / KEYS / RANDOMKEY) with their arguments -/
inductive Read
  | exists_ (ks : List Bytes) | keys (pat : Bytes) | randomKey (choice : Option Bytes)
  | ttl (k : Bytes) | pttl (k : Bytes) | type (k : Bytes)
  | get (k : Bytes) | getBit (k : Bytes) (o : Int) | bitCount (k : Bytes) (a b : Int) (bit : Bool)
  | getRange (k : Bytes) (a b : Int) | strLen (k : Bytes)
  | llen (k : Bytes) | lindex (k : Bytes) (i : Int) | lrange (k : Bytes) (a b : Int)
  | hget (k f : Bytes)
  /-- HLen HKeys HVals HGetAll HExists HStrLen HMGet HScan -/
  | hread (f : AList Bytes → Out) (dflt : Out) (k : Bytes)
  /-- SCard SMembers SIsMember SScan -/
  | sread (f : AList Unit → Out) (dflt : Out) (k : Bytes)
  | srandmember (k : Bytes) (n : Int) (choice : List Bytes)
  /-- ZCard ZRank ZRevRank Z[Rev]RankWithScore ZScore Z[Rev]Range[WithScores] Z[Rev]RangeByScore[WithScores]
      ZExists ZCount ZMax ZMin ZScan -/
  | zread (f : ZSet → Out) (dflt : Out) (k : Bytes)

def Read.run : Read → MState → Int → Api.R
  | .exists_ ks, s, now => Api.exists_ s now ks
  | .keys pat, s, now => Api.keys s now pat
  | .randomKey ch, s, now => Api.randomKey s now ch
  | .ttl k, s, now => Api.ttl s now k
  | .pttl k, s, now => Api.pttl s now k
  | .type k, s, now => Api.type_ s now k
  | .get k, s, now => Api.get s now k
  | .getBit k o, s, now => Api.getBit s now k o
  | .bitCount k a b bit, s, now => Api.bitCount s now k a b bit
  | .getRange k a b, s, now => Api.getRange s now k a b
  | .strLen k, s, now => Api.strLen s now k
  | .llen k, s, now => Api.llen s now k
  | .lindex k i, s, now => Api.lindex s now k i
  | .lrange k a b, s, now => Api.lrange s now k a b
  | .hget k f, s, now => Api.hget s now k f
  | .hread f d k, s, now => Api.hread f d s now k
  | .sread f d k, s, now => Api.sread f d s now k
  | .srandmember k n ch, s, now => Api.srandmember s now k n ch
  | .zread f d k, s, now => Api.zread f d s now k

theorem fl_exists (now : Int) (ks : List Bytes) : ∀ (s : MState) (n : Int),
    fl (ks.foldl (fun (acc : MState × Int) key =>
      ((readKey acc.1 now key).1, if (readKey acc.1 now key).2 then acc.2 + 1 else acc.2)) (s, n)).1 = fl s := by
  induction ks with
  | nil => intro s n; rfl
  | cons k rest ih => intro s n; simp only [List.foldl_cons]; rw [ih]; exact fl_readKey s now k

/-- a read-only method leaves the feed alone -/
theorem read_fl (q : Read) (s : MState) (now : Int) : fl (q.run s now).1 = fl s := by
  cases q with
  | exists_ ks =>
    show fl (Api.exists_ s now ks).1 = fl s
    unfold Api.exists_
    exact fl_exists now ks s 0
  | keys pat => rfl
  | randomKey ch => simp only [Read.run, Api.randomKey]; split <;> rfl
  | ttl k | pttl k | type k | get k | getBit k _ | bitCount k _ _ _ | getRange k _ _ | strLen k | llen k
  | lindex k _ | lrange k _ _ | hget k _ | hread _ _ k | sread _ _ k | srandmember k _ _ | zread _ _ k =>
    have hrk := fl_readKey s now k
    simp only [Read.run, Api.ttl, Api.pttl, Api.type_, Api.get, Api.getBit, Api.bitCount, Api.getRange, Api.strLen,
      Api.llen, Api.lindex, Api.lrange, Api.hget, Api.hread, Api.sread, Api.srandmember, Api.zread]
    generalize readKey s now k = q at hrk
    obtain ⟨s1, ok⟩ := q
    simp only at hrk ⊢
    repeat' split
    all_goals exact hrk

/-- a read-only method hands nothing to a watcher -/
theorem read_silent (q : Read) (s : MState) (now : Int) (hfd : s.feed = []) (c : Feed.CallInfo)
    (hc : plainMethod c.method = true) :
    Feed.emission c (q.run s now).2 (q.run s now).1.feed.reverse = [] := by
  rw [emission_plain hc, show (q.run s now).1.feed = s.feed from congrArg Prod.fst (read_fl q s now), hfd]
  rfl

/-! ### silence implies no change -/

theorem Same.refl {now : Int} {p : MState} (h : StoreInv p now) (hn : NoNil p now) : Same now p p :=
  ⟨h, h, rfl, hn⟩

/-- a covered call that hands nothing to the watchers has not changed the logical keyspace -/
theorem silent_unchanged (c : Call) (hwf : c.WF) {now : Int} {p : MState} (hi : StoreInv p now) (hn : NoNil p now)
    (hl : p.listeners = true) (hfd : p.feed = []) (hreg : ¬ c.Region (lookup p now))
    (hsil : Feed.emission c.info (c.run p now).2 (c.run p now).1.feed.reverse = []) :
    logical (c.run p now).1 now = logical p now := by
  obtain ⟨⟨r', a, s⟩, _⟩ := call_main c hwf (Same.refl hi hn) hl hfd hreg
  rw [hsil] at a
  simp only [Feed.applyAll, Option.some.injEq] at a
  subst a
  exact s.eq

/-! ### findings: concrete witnesses -/

/-- a watched empty primary (in-memory backend) -/
def w0 : MState := emptyWatched false
/-- ... after SADD k m / HSET k f v / RPUSH k a / ZADD k m 1.0 / SET k v (drained) -/
def wSet : MState := drain (Api.sadd w0 0 [107] [[109]]).1
def wHash : MState := drain (Api.hset w0 0 [107] [102] [118]).1
def wList : MState := drain (Api.push false w0 0 [107] [[97]]).1
def wZSet : MState := drain (Api.zadd w0 0 [107] [109] 0x3ff0000000000000).1
def wStr : MState := drain (Api.set w0 0 [107] [118] false).1

theorem not_replay_of_silent {now : Int} (res : Api.R) {c : Feed.CallInfo} {r : MState}
    (hsil : Feed.emission c res.2 res.1.feed.reverse = []) (hne : logical res.1 now ≠ logical r now) :
    ¬ Replay now r c res := by
  rintro ⟨r', a, s⟩
  rw [hsil] at a
  simp only [Feed.applyAll, Option.some.injEq] at a
  subst a
  exact hne s.eq

/-- (a) `DecrBy k (-2^63)` on a missing key: the key is created, then the counter overflows; the
    primary is left with an empty string under `k`, nothing is emitted, the replica never sees the key -/
theorem decrBy_creates_and_fails_finding :
    (Call.decrBy [107] (-9223372036854775808)).Region (lookup w0 0) ∧
    logical w0 0 = [] ∧
    ((Call.decrBy [107] (-9223372036854775808)).run w0 0).1.feed.length = 0 ∧
    logical ((Call.decrBy [107] (-9223372036854775808)).run w0 0).1 0 = [([107], .str [], 0)] ∧
    ¬ Replay 0 (empty false) (Call.decrBy [107] (-9223372036854775808)).info
        ((Call.decrBy [107] (-9223372036854775808)).run w0 0) := by
  refine ⟨by show AddIntCreatesAndFails _ _ _; decide, by decide, by decide, by decide, ?_⟩
  refine not_replay_of_silent _ ?_ (by decide)
  have : ((Call.decrBy [107] (-9223372036854775808)).run w0 0).1.feed = [] :=
    List.eq_nil_of_length_eq_zero (by decide)
  rw [this]
  exact emission_keep_nil (by decide) _

/-- (a) `SetRange k 2^31 ""` on a missing key: created, then the call panics (growth beyond 1 GiB) -/
theorem setRange_creates_and_panics_finding :
    (Call.setRange [107] 2147483648 []).Region (lookup w0 0) ∧
    ((Call.setRange [107] 2147483648 []).run w0 0).1.feed.length = 0 ∧
    logical ((Call.setRange [107] 2147483648 []).run w0 0).1 0 = [([107], .str [], 0)] ∧
    ¬ Replay 0 (empty false) (Call.setRange [107] 2147483648 []).info
        ((Call.setRange [107] 2147483648 []).run w0 0) := by
  refine ⟨by show SetRangeCreatesAndPanics _ _ _; decide, by decide, by decide, ?_⟩
  refine not_replay_of_silent _ ?_ (by decide)
  have : ((Call.setRange [107] 2147483648 []).run w0 0).1.feed = [] :=
    List.eq_nil_of_length_eq_zero (by decide)
  rw [this]
  exact emission_keep_nil (by decide) _

/-- in the model `SetRange k 0 ""` on a missing key *does* emit a SET record (with the empty value) -/
theorem setRange_zero_emits :
    ((Call.setRange [107] 0 []).run w0 0).1.feed.map (·.typ) = [25] ∧
    ¬ (Call.setRange [107] 0 []).Region (lookup w0 0) :=
  ⟨by decide, by show ¬ SetRangeCreatesAndPanics _ _ _; decide⟩

/-- (b) `HMSet k {}` on a missing key creates an empty hash and emits nothing -/
theorem hmset_empty_finding :
    (Call.hmset [107] []).Region (lookup w0 0) ∧
    ((Call.hmset [107] []).run w0 0).1.feed.length = 0 ∧
    logical ((Call.hmset [107] []).run w0 0).1 0 = [([107], .hash [], 0)] ∧
    ¬ Replay 0 (empty false) (Call.hmset [107] []).info ((Call.hmset [107] []).run w0 0) := by
  refine ⟨by show HMSetCreatesEmpty _ _; decide, by decide, by decide, ?_⟩
  refine not_replay_of_silent _ ?_ (by decide)
  have : ((Call.hmset [107] []).run w0 0).1.feed = [] := List.eq_nil_of_length_eq_zero (by decide)
  rw [this]
  exact emission_plain (by decide) _ _

/-- (b) in the model `SAdd k` / `LPush k` without members *do* emit a record (without fields), and
    the replica creates the same empty collection -/
theorem sadd_lpush_empty_emit :
    ((Call.sadd [107] []).run w0 0).1.feed.map (fun op => (op.typ, op.args)) = [(23, [])] ∧
    logical ((Call.sadd [107] []).run w0 0).1 0 = [([107], .set [], 0)] ∧
    ((Call.lpush [107] []).run w0 0).1.feed.map (fun op => (op.typ, op.args)) = [(14, [])] ∧
    logical ((Call.lpush [107] []).run w0 0).1 0 = [([107], .list DsList.empty, 0)] :=
  ⟨by decide, by decide, by decide, by decide⟩

/-- (c) "commands that change nothing emit nothing" fails: records are emitted although the logical
    keyspace is unchanged — SADD of a present member, SREM of an absent one, HDEL of an absent field,
    LINSERT with an absent pivot, LREM of an absent element, ZADD with the score the member already
    has, SETBIT with a negative offset, SET to the value the key already holds -/
theorem emits_although_unchanged_finding :
    ((Call.sadd [107] [[109]]).run wSet 0).1.feed.map (·.typ) = [23] ∧
      logical ((Call.sadd [107] [[109]]).run wSet 0).1 0 = logical wSet 0 ∧
    ((Call.srem [107] [[120]]).run wSet 0).1.feed.map (·.typ) = [24] ∧
      logical ((Call.srem [107] [[120]]).run wSet 0).1 0 = logical wSet 0 ∧
    ((Call.hdel [107] [[120]]).run wHash 0).1.feed.map (·.typ) = [6] ∧
      logical ((Call.hdel [107] [[120]]).run wHash 0).1 0 = logical wHash 0 ∧
    ((Call.linsert [107] [120] [121] true).run wList 0).1.feed.map (·.typ) = [11] ∧
      logical ((Call.linsert [107] [120] [121] true).run wList 0).1 0 = logical wList 0 ∧
    ((Call.lrem [107] [120] 0).run wList 0).1.feed.map (·.typ) = [16] ∧
      logical ((Call.lrem [107] [120] 0).run wList 0).1 0 = logical wList 0 ∧
    ((Call.zadd [107] [109] 0x3ff0000000000000).run wZSet 0).1.feed.map (·.typ) = [26] ∧
      logical ((Call.zadd [107] [109] 0x3ff0000000000000).run wZSet 0).1 0 = logical wZSet 0 ∧
    ((Call.setBit [107] (-1) true).run wStr 0).1.feed.map (·.typ) = [25] ∧
      logical ((Call.setBit [107] (-1) true).run wStr 0).1 0 = logical wStr 0 ∧
    ((Call.set [107] [118] true).run wStr 0).1.feed.map (·.typ) = [25] ∧
      logical ((Call.set [107] [118] true).run wStr 0).1 0 = logical wStr 0 := by
  refine ⟨by decide, by decide, by decide, by decide, by decide, by decide, by decide, by decide, by decide,
    by decide, by decide, by decide, by decide, by decide, by decide, by decide⟩

/-- ... while these do keep silent when nothing changes: PERSIST without deadline, EXPIRE NX with a
    deadline, HSETNX of a present field, LSET out of range, ZADD XX of an absent member, SETXX / LPUSHX /
    DEL / RENAME on a missing key -/
theorem silent_examples :
    ((Call.persist [107]).run wStr 0).1.feed.length = 0 ∧
    ((Call.hsetNX [107] [102] [119]).run wHash 0).1.feed.length = 0 ∧
    ((Call.lset [107] 5 [98]).run wList 0).1.feed.length = 0 ∧
    ((Call.zaddXX [107] [120] 0).run wZSet 0).1.feed.length = 0 ∧
    ((Call.setXX [120] [118] false).run wStr 0).1.feed.length = 0 ∧
    ((Call.lpushX [120] [118]).run wStr 0).1.feed.length = 0 ∧
    ((Call.del [[120]]).run wStr 0).1.feed.length = 0 ∧
    ((Call.rename [120] [121]).run wStr 0).1.feed.length = 0 := by
  refine ⟨by decide, by decide, by decide, by decide, by decide, by decide, by decide, by decide⟩

/-! ### applying a record late -/

/-- a hash `k = {f: v}` with deadline 10 (watched primary, drained) -/
def wHashExp : MState :=
  drain (Api.expireAt (drain (Api.hset w0 0 [107] [102] [118]).1) 0 [107] 10).1

/-- records must be applied before the clock passes a deadline the record does not carry.  At time 5
    the primary runs `HSet k g w` on a hash that expires at 10 and hands over one HSET record.  A replica
    in the same state that applies the record at time 5 agrees with the primary at every later time
    (theorem); a replica that applies it at time 20 finds the key expired, creates a fresh hash without
    deadline, and from then on shows `k = {g: w}` while the primary shows nothing. -/
theorem late_apply_finding :
    logical wHashExp 5 = [([107], .hash [([102], [118])], 10)] ∧
    (Api.hset wHashExp 5 [107] [103] [119]).1.feed.map (·.typ) = [10] ∧
    logical (Api.hset wHashExp 5 [107] [103] [119]).1 5 = [([107], .hash [([102], [118]), ([103], [119])], 10)] ∧
    logical (Api.hset wHashExp 5 [107] [103] [119]).1 20 = [] ∧
    (∃ r', Feed.applyAll wHashExp 5 [opHSet [107] [103] [119]] = some r' ∧
      logical r' 5 = logical (Api.hset wHashExp 5 [107] [103] [119]).1 5 ∧ logical r' 20 = []) ∧
    (∃ r', Feed.applyAll wHashExp 20 [opHSet [107] [103] [119]] = some r' ∧
      logical r' 20 = [([107], .hash [([103], [119])], 0)]) := by
  have hap : ∀ t, Feed.applyAll wHashExp t [opHSet [107] [103] [119]] = some (Api.hset wHashExp t [107] [103] [119]).1 := by
    intro t
    simp only [Feed.applyAll, applyOp_hset, Option.bind_eq_bind, Option.bind_some]
    rw [show (hsetF t [107] [103] [119]).run wHashExp t = Api.hset wHashExp t [107] [103] [119] from
      (hset_eq wHashExp t [107] [103] [119]).symm]
  refine ⟨by decide, by decide, by decide, by decide, ⟨_, hap 5, rfl, by decide⟩, ⟨_, hap 20, by decide⟩⟩

end NodisVerif.Proofs.C20
