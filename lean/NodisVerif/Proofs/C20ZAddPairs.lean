import NodisVerif.Proofs.C20ZSet
import NodisVerif.Proofs.ZAddPairs
/-
  C20, the ZADD command after the repair of A-48 / A-52: `Api.zaddPairs` (all pairs of one command in one
  transaction, one ZADD record per member actually written). The replica applies the records one after the other
  as plain ZADDs and arrives at the primary's sorted set.
-/
namespace NodisVerif.Proofs.C20
open NodisVerif NodisVerif.Store NodisVerif.Spec.Persist NodisVerif.Proofs.C11
open NodisVerif.Api (ZAcc zaddStep)

variable {now : Int} {p r : MState}

/-- the loop of `zAddPairs` -/
def zpFold (nx xx gt lt : Bool) (z : ZSet) (pairs : List (Bytes × F64)) : ZAcc :=
  pairs.foldl (zaddStep nx xx gt lt) { z := z, added := 0, changed := 0, ops := [] }

def zpReply (ch : Bool) (a : ZAcc) : Int := if ch then a.added + a.changed else a.added

/-- what the replica does with the records: plain ZADDs in order -/
def zaddsAll (z : ZSet) (ops : List (Bytes × F64)) : ZSet := ops.foldl (fun z q => (DsZSet.zAdd z q.1 q.2).1) z

/-! ### the loop: the sorted set is the plain ZADDs of the written pairs, which are among the given pairs -/

theorem zaddStep_all (nx xx gt lt : Bool) (z0 : ZSet) (a : ZAcc) (q : Bytes × F64) (h : a.z = zaddsAll z0 a.ops) :
    (zaddStep nx xx gt lt a q).z = zaddsAll z0 (zaddStep nx xx gt lt a q).ops := by
  unfold zaddStep
  split <;> split <;> first | exact h | (simp only [zaddsAll, List.foldl_append, List.foldl_cons, List.foldl_nil]; rw [← zaddsAll, ← h])

theorem zaddStep_sub (nx xx gt lt : Bool) (a : ZAcc) (q : Bytes × F64) (P : Bytes × F64 → Prop) (hq : P q)
    (h : ∀ x ∈ a.ops, P x) : ∀ x ∈ (zaddStep nx xx gt lt a q).ops, P x := by
  unfold zaddStep
  split <;> split <;> first | exact h | (intro x hx; rcases List.mem_append.1 hx with hx | hx; exact h x hx; simp at hx; rw [hx]; exact hq)

theorem zaddFold_all (nx xx gt lt : Bool) (z0 : ZSet) (P : Bytes × F64 → Prop) : ∀ (ps : List (Bytes × F64)) (a : ZAcc),
    a.z = zaddsAll z0 a.ops → (∀ x ∈ a.ops, P x) → (∀ x ∈ ps, P x) →
    (ps.foldl (zaddStep nx xx gt lt) a).z = zaddsAll z0 (ps.foldl (zaddStep nx xx gt lt) a).ops ∧
    ∀ x ∈ (ps.foldl (zaddStep nx xx gt lt) a).ops, P x
  | [], _, h1, h2, _ => ⟨h1, h2⟩
  | q :: ps, a, h1, h2, h3 => by
    rw [List.foldl_cons]
    exact zaddFold_all nx xx gt lt z0 P ps _ (zaddStep_all nx xx gt lt z0 a q h1)
      (zaddStep_sub nx xx gt lt a q P (h3 q List.mem_cons_self) h2) (fun x hx => h3 x (List.mem_cons_of_mem _ hx))

theorem zpFold_all (nx xx gt lt : Bool) (z : ZSet) (pairs : List (Bytes × F64)) (P : Bytes × F64 → Prop)
    (hP : ∀ x ∈ pairs, P x) :
    (zpFold nx xx gt lt z pairs).z = zaddsAll z (zpFold nx xx gt lt z pairs).ops ∧
    ∀ x ∈ (zpFold nx xx gt lt z pairs).ops, P x :=
  zaddFold_all nx xx gt lt z P pairs _ rfl (fun _ h => nomatch h) hP

/-! ### the transaction form -/

def decZaddPairs (key : Bytes) (nx xx gt lt ch : Bool) (pairs : List (Bytes × F64)) (v : Val) (_ : Int) : Act :=
  match v with
  | .zset z =>
    if (zpFold nx xx gt lt z pairs).ops.isEmpty then .keep (.int (zpReply ch (zpFold nx xx gt lt z pairs)))
    else .put (some (.zset (zpFold nx xx gt lt z pairs).z)) none
      ((zpFold nx xx gt lt z pairs).ops.map fun q => Api.opZAdd key q.1 q.2) (.int (zpReply ch (zpFold nx xx gt lt z pairs)))
  | _ => .keep .panic

def zaddPairsF (key : Bytes) (nx xx gt lt ch : Bool) (pairs : List (Bytes × F64)) : TxForm :=
  ⟨true, if xx then none else some (.zset DsZSet.empty), .int 0, Cmd.pan, decZaddPairs key nx xx gt lt ch pairs, key⟩

theorem zaddPairs_eq (s : MState) (now : Int) (key : Bytes) (nx xx gt lt ch : Bool) (pairs : List (Bytes × F64))
    (hne : pairs ≠ []) :
    Api.zaddPairs s now key nx xx gt lt ch pairs = (zaddPairsF key nx xx gt lt ch pairs).run s now := by
  have hne' : pairs.isEmpty = false := by cases pairs <;> simp_all
  have hbody : ∀ s1, (match Api.asZSet s1 key with
      | none => (s1, Out.panic)
      | some z =>
        if (zpFold nx xx gt lt z pairs).ops.isEmpty then (s1, .int (zpReply ch (zpFold nx xx gt lt z pairs))) else
        ((zpFold nx xx gt lt z pairs).ops.foldl (fun s (q : Bytes × F64) => emit s (Api.opZAdd key q.1 q.2))
          (signal (Api.setVal s1 key (.zset (zpFold nx xx gt lt z pairs).z)) key),
          .int (zpReply ch (zpFold nx xx gt lt z pairs)))) =
      match valOf s1 key with
      | some v => runAct s1 key (decZaddPairs key nx xx gt lt ch pairs v (Api.expOf s1 key))
      | none => Cmd.pan s1 := by
    intro s1; simp only [Api.asZSet]
    cases valOf s1 key with
    | none => rfl
    | some v =>
      cases v <;> try rfl
      rename_i z
      simp only [decZaddPairs]
      split
      · rfl
      · simp only [runAct, optSetVal, optSetExp, emits, List.foldl_map]
  cases xx with
  | false =>
    refine Eq.trans ?_ (create_shape s now key _ _ _ _ _ hbody)
    unfold Api.zaddPairs
    simp only [hne', Bool.false_eq_true, if_false, Bool.false_and]
    rfl
  | true =>
    refine Eq.trans ?_ (write_shape s now key _ _ _ _ hbody)
    unfold Api.zaddPairs
    simp only [hne', Bool.false_eq_true, if_false, if_true, Bool.true_and]
    rfl

/-- representable pairs: no NaN score, member of representable length -/
def PairOK (q : Bytes × F64) : Prop := F64.isNaN q.2 = false ∧ q.1.length + 8 < 2 ^ 63

theorem good_zaddAll : ∀ (ops : List (Bytes × F64)), (∀ q ∈ ops, PairOK q) → ∀ z, Good (.zset z) → Good (.zset (zaddsAll z ops))
  | [], _, _, hg => hg
  | q :: ops, hb, z, hg => by
    simp only [zaddsAll, List.foldl_cons]
    exact good_zaddAll ops (fun q' hq' => hb q' (List.mem_cons_of_mem _ hq')) _
      (good_zadd z q.1 q.2 hg (hb q List.mem_cons_self).1 (hb q List.mem_cons_self).2)

theorem zaddPairsF_ok (key : Bytes) (nx xx gt lt ch : Bool) (pairs : List (Bytes × F64)) (hb : ∀ q ∈ pairs, PairOK q) :
    (zaddPairsF key nx xx gt lt ch pairs).OK := by
  refine ⟨(fun h => nomatch h), (fun w h => ?_), fun w e hg _ => ?_⟩
  · cases xx with
    | true => simp [zaddPairsF] at h
    | false => simp only [zaddPairsF, Bool.false_eq_true, if_false, Option.some.injEq] at h; subst h; exact good_emptyZSet
  · cases w with
    | zset z =>
      show (decZaddPairs key nx xx gt lt ch pairs (.zset z) e).GoodA
      unfold decZaddPairs
      simp only
      split
      · trivial
      · refine ⟨(fun w hw => ?_), (fun _ he => nomatch he)⟩
        cases hw
        obtain ⟨h1, h2⟩ := zpFold_all nx xx gt lt z pairs PairOK hb
        rw [h1]
        exact good_zaddAll _ h2 z hg
    | _ => trivial

theorem zaddPairsF_nilSafe (key : Bytes) (nx xx gt lt ch : Bool) (pairs : List (Bytes × F64)) :
    (zaddPairsF key nx xx gt lt ch pairs).NilSafe := by
  apply nilSafe_of
  · intro v e hv
    cases v <;> simp_all [zaddPairsF, decZaddPairs] <;> split <;> simp_all
  · intro v0 h0
    cases xx with
    | true => simp [zaddPairsF] at h0
    | false =>
      simp only [zaddPairsF, Bool.false_eq_true, if_false, Option.some.injEq] at h0
      subst h0
      simp only [zaddPairsF, decZaddPairs]
      split <;> simp_all

/-- the replica applies the ZADD records one after the other -/
theorem replays_zadds (k : Bytes) : ∀ (ops : List (Bytes × F64)),
    (∀ q ∈ ops, PairOK q) → ∀ (r : MState) (z : ZSet) (e : Int),
    StoreInv r now → lookup r now k = some (.zset z, e) →
    Replays r now (ops.map fun q => Api.opZAdd k q.1 q.2)
      (upd (lookup r now) k (some (.zset (zaddsAll z ops), e))) := by
  intro ops
  induction ops with
  | nil =>
    intro _ r z e hi hL
    have := Replays.nil hi
    refine this.congr ?_
    show lookup r now = upd (lookup r now) k (some (.zset z, e))
    rw [← hL, upd_self]
  | cons q rest ih =>
    intro hb r z e hi hL
    simp only [List.map_cons]
    refine Replays.cons (g := zaddF now k q.1 q.2) hi (zaddF_ok now k q.1 q.2 (hb q (by simp)).1 (hb q (by simp)).2)
      (applyOp_zadd r now k q.1 q.2) ?_
    intro r1 i1 l1
    have hpost : (zaddF now k q.1 q.2).post now (lookup r now k) = some (.zset (DsZSet.zAdd z q.1 q.2).1, e) := by
      rw [zaddF_post k q.1 q.2 (live_lookup r now k), hL]; rfl
    have hkey : (zaddF now k q.1 q.2).key = k := rfl
    have hL1 : lookup r1 now k = some (.zset (DsZSet.zAdd z q.1 q.2).1, e) := by
      rw [l1 k, hkey, upd_same, hpost]
    have := ih (fun q' hq' => hb q' (List.mem_cons_of_mem _ hq')) r1 _ e i1 hL1
    refine this.congr ?_
    funext k'
    by_cases hk : k' = k
    · subst hk; simp [upd, zaddsAll]
    · rw [upd_other _ _ _ hk, upd_other _ _ _ hk, l1 k', hkey, upd_other _ _ _ hk]

/-- REPLAY of the ZADD command's transaction: on a drained primary with a watcher, the records `zAddPairs` emits
    (one ZADD per member written, in order), applied by a replica that agrees with the primary, lead to a replica that
    agrees with the primary again - every option set, every non-empty list of representable pairs. The records are
    handed over unchanged (`plainMethod`: the emission is the identity, as for ZAdd). -/
theorem zaddPairs_replay (hs : Same now p r) (hl : p.listeners = true) (hfd : p.feed = [])
    (c : Feed.CallInfo) (hc : plainMethod c.method = true) (k : Bytes) (nx xx gt lt ch : Bool)
    (pairs : List (Bytes × F64)) (hne : pairs ≠ []) (hb : ∀ q ∈ pairs, PairOK q) :
    Replay now r c (Api.zaddPairs p now k nx xx gt lt ch pairs) := by
  rw [zaddPairs_eq p now k nx xx gt lt ch pairs hne]
  refine main_form hs hl hfd (zaddPairsF k nx xx gt lt ch pairs) (zaddPairsF_ok k nx xx gt lt ch pairs hb) (Feed.emission c)
    (fun hn e => post_nonil (zaddPairsF_nilSafe k nx xx gt lt ch pairs) now _ (fun e0 => hn k e0) e) ?_
  intro r0 hi hn hK
  rw [emission_plain hc]
  show Replays r0 now ((zaddPairsF k nx xx gt lt ch pairs).ops (lookup r0 now k))
    (upd (lookup r0 now) k ((zaddPairsF k nx xx gt lt ch pairs).post now (lookup r0 now k)))
  have hlive := live_lookup r0 now k
  cases hL : lookup r0 now k with
  | none =>
    cases xx with
    | true =>
      rw [show (zaddPairsF k nx true gt lt ch pairs).ops none = [] from rfl,
        show (zaddPairsF k nx true gt lt ch pairs).post now none = none from rfl, ← hL, upd_self]
      exact Replays.nil hi
    | false =>
      have hne0 : (zpFold nx false gt lt DsZSet.empty pairs).ops ≠ [] :=
        Proofs.ZAddPairs.zaddFold_empty_ops_ne nx gt lt pairs hne _ rfl
      have hemp : (zpFold nx false gt lt DsZSet.empty pairs).ops.isEmpty = false := by
        cases h : (zpFold nx false gt lt DsZSet.empty pairs).ops with
        | nil => exact absurd h hne0
        | cons _ _ => rfl
      obtain ⟨h1, h2⟩ := zpFold_all nx false gt lt DsZSet.empty pairs PairOK hb
      have hops : (zaddPairsF k nx false gt lt ch pairs).ops none =
          (zpFold nx false gt lt DsZSet.empty pairs).ops.map fun q => Api.opZAdd k q.1 q.2 := by
        simp [TxForm.ops, zaddPairsF, decZaddPairs, Act.ops, hemp]
      have hpost : (zaddPairsF k nx false gt lt ch pairs).post now none =
          some (.zset (zpFold nx false gt lt DsZSet.empty pairs).z, 0) := by
        simp [TxForm.post, TxForm.spec, txSpec, zaddPairsF, decZaddPairs, Act.eff, filt_zero, hemp]
      rw [hops, hpost, h1]
      generalize (zpFold nx false gt lt DsZSet.empty pairs).ops = ops at hne0 h2
      cases ops with
      | nil => exact absurd rfl hne0
      | cons q rest =>
        simp only [List.map_cons]
        refine Replays.cons (g := zaddF now k q.1 q.2) hi
          (zaddF_ok now k q.1 q.2 (h2 q (by simp)).1 (h2 q (by simp)).2) (applyOp_zadd r0 now k q.1 q.2) ?_
        intro r1 i1 l1
        have hkey : (zaddF now k q.1 q.2).key = k := rfl
        have hL1 : lookup r1 now k = some (.zset (DsZSet.zAdd DsZSet.empty q.1 q.2).1, 0) := by
          rw [l1 k, hkey, upd_same, zaddF_post k q.1 q.2 (live_lookup r0 now k), hL]; rfl
        have := replays_zadds (now := now) k rest (fun q' hq' => h2 q' (List.mem_cons_of_mem _ hq')) r1 _ 0 i1 hL1
        refine this.congr ?_
        funext k'
        by_cases hk : k' = k
        · subst hk; simp [upd, zaddsAll]
        · rw [upd_other _ _ _ hk, upd_other _ _ _ hk, l1 k', hkey, upd_other _ _ _ hk]
  | some cc =>
    obtain ⟨w, e⟩ := cc
    rw [hL] at hlive
    have hl0 := hlive w e rfl
    cases w with
    | zset z =>
      obtain ⟨h1, h2⟩ := zpFold_all nx xx gt lt z pairs PairOK hb
      cases hemp : (zpFold nx xx gt lt z pairs).ops.isEmpty with
      | true =>
        have hops : (zaddPairsF k nx xx gt lt ch pairs).ops (some (.zset z, e)) = [] := by
          simp [TxForm.ops, zaddPairsF, decZaddPairs, Act.ops, hemp]
        have hpost : (zaddPairsF k nx xx gt lt ch pairs).post now (some (.zset z, e)) = some (.zset z, e) := by
          simp [TxForm.post, TxForm.spec, txSpec, zaddPairsF, decZaddPairs, Act.eff, hemp]
        rw [hops, hpost, ← hL, upd_self]
        exact Replays.nil hi
      | false =>
        have hops : (zaddPairsF k nx xx gt lt ch pairs).ops (some (.zset z, e)) =
            (zpFold nx xx gt lt z pairs).ops.map fun q => Api.opZAdd k q.1 q.2 := by
          simp [TxForm.ops, zaddPairsF, decZaddPairs, Act.ops, hemp]
        have hpost : (zaddPairsF k nx xx gt lt ch pairs).post now (some (.zset z, e)) =
            some (.zset (zpFold nx xx gt lt z pairs).z, e) := by
          simp [TxForm.post, TxForm.spec, txSpec, zaddPairsF, decZaddPairs, Act.eff, hemp, hl0]
        rw [hops, hpost, h1]
        exact replays_zadds k _ h2 r0 z e hi hL
    | _ =>
      all_goals
        rw [show (zaddPairsF k nx xx gt lt ch pairs).ops (some (_, e)) = [] from rfl,
          show (zaddPairsF k nx xx gt lt ch pairs).post now (some (_, e)) = some (_, e) from rfl, ← hL, upd_self]
        exact Replays.nil hi

end NodisVerif.Proofs.C20
