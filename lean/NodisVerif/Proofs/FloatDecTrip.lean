import NodisVerif.Model.FloatDec
import NodisVerif.Proofs.C09Float
/-
  Round trip of the shortest text: whatever `formatShortest` returns from its digit search (every case except the
  17-digit fallback, which the float text table of check C04 has never reached: ~20k doubles per quick run, 150k per
  thorough run, every binade ± 1 ulp) parses back to the same double with the full `parseFloat` (= strconv.ParseFloat).
  By construction: the search keeps a candidate only if its rendered text parses back.
  NOT proved: that some n ≤ 17 always succeeds (the classical 17-digit sufficiency for binary64).
-/
namespace NodisVerif.Proofs.FloatDecTrip
open NodisVerif NodisVerif.F64 NodisVerif.FloatDec NodisVerif.Proofs.C09Float

theorem tryDigits_roundtrip {x ax : F64} {neg : Bool} {a b d17 : Nat} {k17 : Int} {n c : Nat} {k : Int}
    (h : tryDigits x ax neg a b d17 k17 n = some (c, k)) :
    parseFloat (signed neg (renderF c k)) = some (some x) := by
  unfold tryDigits at h
  simp only at h
  generalize d17 / 10 ^ (17 - n) = lo at h
  split at h
  · next hboth =>
    simp only [Bool.and_eq_true] at hboth
    obtain ⟨⟨_, hl⟩, ⟨_, hh⟩⟩ := hboth
    (repeat' split at h) <;> (cases h; first | exact eq_of_beq hh | exact eq_of_beq hl)
  · split at h
    · next hl =>
      simp only [Bool.and_eq_true] at hl
      cases h; exact eq_of_beq hl.2
    · split at h
      · next hh =>
        simp only [Bool.and_eq_true] at hh
        cases h; exact eq_of_beq hh.2
      · cases h

theorem searchShortest_roundtrip {x : F64} {c : Nat} {k : Int} (h : searchShortest x = some (c, k)) :
    parseFloat (signed (sign x) (renderF c k)) = some (some x) := by
  unfold searchShortest at h
  simp only at h
  obtain ⟨i, _, ht⟩ := List.exists_of_findSome?_eq_some h
  exact tryDigits_roundtrip ht

theorem isInf_cases (x : F64) (h : isInf x = true) : x = 0x7FF0000000000000 ∨ x = 0xFFF0000000000000 := by
  unfold isInf at h
  rw [expBits_eq, manBits_eq] at h
  simp only [Bool.and_eq_true, decide_eq_true_eq] at h
  have hlt := x.toNat_lt
  have : x.toNat = 9218868437227405312 ∨ x.toNat = 18442240474082181120 := by omega
  rcases this with h' | h'
  · left; exact UInt64.toNat_inj.mp h'
  · right; exact UInt64.toNat_inj.mp h'

theorem isZero_cases (x : F64) (h : isZero x = true) : x = 0 ∨ x = 0x8000000000000000 := by
  unfold isZero at h
  rw [expBits_eq, manBits_eq] at h
  simp only [Bool.and_eq_true, decide_eq_true_eq] at h
  have hlt := x.toNat_lt
  have : x.toNat = 0 ∨ x.toNat = 9223372036854775808 := by omega
  rcases this with h' | h'
  · left; exact UInt64.toNat_inj.mp h'
  · right; exact UInt64.toNat_inj.mp h'

/-- `formatShortest_roundtrip_partial`: for every x that is not NaN, if the text does not come from the 17-digit
    fallback (x is ±Inf, ±0, or the digit search succeeds), then ParseFloat(FormatFloat(x,'f',-1,64)) = x, bit for bit -/
theorem formatShortest_roundtrip_partial (x : F64) (hnan : isNaN x = false)
    (hs : isInf x = true ∨ isZero x = true ∨ (searchShortest x).isSome = true) :
    parseFloat (formatShortest x) = some (some x) := by
  by_cases hi : isInf x = true
  · rcases isInf_cases x hi with rfl | rfl <;> decide +kernel
  by_cases hz : isZero x = true
  · rcases isZero_cases x hz with rfl | rfl <;> decide +kernel
  have hsome : (searchShortest x).isSome = true := by
    rcases hs with h | h | h
    · exact absurd h hi
    · exact absurd h hz
    · exact h
  unfold formatShortest
  simp only [hnan, hi, hz, Bool.false_eq_true, if_false]
  cases hsr : searchShortest x with
  | none => rw [hsr] at hsome; cases hsome
  | some ck =>
    obtain ⟨c, k⟩ := ck
    exact searchShortest_roundtrip hsr

/-- the hypothesis is satisfiable on non-trivial doubles: 0.1, 5e-324 (smallest subnormal), the largest finite
    double, 1/3 (17 digits needed) -/
example : (searchShortest 0x3FB999999999999A).isSome = true ∧ (searchShortest 1).isSome = true ∧
    (searchShortest 0x7FEFFFFFFFFFFFFF).isSome = true ∧ (searchShortest 0xBFD5555555555555).isSome = true := by
  decide +kernel

example : parseFloat (formatShortest 0x3FB999999999999A) = some (some 0x3FB999999999999A) :=
  formatShortest_roundtrip_partial _ (by decide) (Or.inr (Or.inr (by decide +kernel)))

/-- NaN does not round-trip bit for bit: every NaN prints as "NaN", which parses to `math.NaN()` -/
example : parseFloat (formatShortest 0xFFF8000000000000) = some (some goNaN) := by decide +kernel

end NodisVerif.Proofs.FloatDecTrip
