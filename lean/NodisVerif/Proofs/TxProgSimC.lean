import NodisVerif.Proofs.TxProgSimB
/-
  Program model of tx.go: the transitions of `Tx.commit` (c0 … cend).
-/
namespace NodisVerif.Proofs.TxProg
open NodisVerif.Proto (Key Rec Mode Ev Hold TxSt PState assoc erase put Tx)
open NodisVerif.TxProg
open NodisVerif.Proofs.Proto

theorem absTx_commitNext (s : Shared) (l : Loc) :
    absTx (commitNext s l) = some { holds := l.rest, committing := true } := by
  unfold commitNext
  split
  · rename_i h; simp [absTx, holdsOf, waitingOf, committingOf, h]
  · rename_i h
    split
    · simp [absTx, holdsOf, waitingOf, committingOf, h]
    · split <;> simp [absTx, holdsOf, waitingOf, committingOf, h]

theorem inv_commitNext {s : Shared} {t : Tid} {l : Loc} (hown : ∀ g ∈ l.rest, owns (s.mu g.rid) t g.mode)
    (hnd : NodupRids l.rest) (hnm : ∀ g ∈ l.rest, assoc s.names g.rid = some g.key)
    (hval : ∀ g ∈ l.held, g.valid = true) : ThreadInv s t (commitNext s l) := by
  unfold commitNext
  split
  · exact ⟨by simp [holdsOf], by simp [extra], by simp [Facts], hval⟩
  · rename_i h rest hr
    rw [hr] at hown hnd hnm
    have hne : ∀ g ∈ rest, g.rid ≠ h.rid := by
      simp only [NodupRids, List.map_cons, List.nodup_cons] at hnd
      intro g hg e
      exact hnd.1 (e ▸ List.mem_map.2 ⟨g, hg, rfl⟩)
    have hn := hnm h (List.mem_cons_self ..)
    split
    · exact ⟨by simpa [holdsOf] using hown, by simp [extra], by simpa [Facts] using ⟨hn, hne⟩, hval⟩
    · split
      · exact ⟨by simpa [holdsOf] using hown, by simp [extra], by simpa [Facts] using ⟨hn, hne⟩, hval⟩
      · rename_i hm
        have hw : h.mode = .w := by cases hx : h.mode <;> simp [hx] at hm ⊢
        exact ⟨by simpa [holdsOf] using hown, by simp [extra], by simpa [Facts] using ⟨⟨hn, hne⟩, hw⟩, hval⟩

section Cases
variable {c : Cfg} {p : PState} {t : Tid} {ch : Choice} {s' : Shared} {l' : Loc} {e : Option Ev}

theorem case_c0 (hs : Sim c p) (hpc : (c.loc t).pc = .c0)
    (h : tstep c.sh t (c.loc t) ch = some (s', l', e)) : Simulated c p t s' l' e := by
  simp only [tstep, hpc] at h
  have hi := hs.thr t
  have hown : ∀ g ∈ (c.loc t).held, owns (c.sh.mu g.rid) t g.mode := by
    have := hi.own; simpa [holdsOf, hpc] using this
  cases h
  have htx := hs.tx_some t (by simp [hpc])
  simp only [holdsOf, waitingOf, committingOf, hpc] at htx
  have hnd := hs.nodup t (by simp [hpc])
  simp only [holdsOf, hpc] at hnd
  have hstep : Proto.step p (.commit t) = some (p.setTx t { holds := (c.loc t).held, committing := true }) := by
    have : (c.loc t).held.all (·.valid) = true := List.all_eq_true.2 (fun g hg => hi.val g hg)
    simp [Proto.step, htx, this]
  refine ⟨_, hstep, ?_⟩
  refine hs.update t _ _ _ (hs.reach.next hstep) hs.idx hs.pend hs.names hs.wf ?_ ?_
    (fun u hu => tx_setTx_ne _ _ hu) (fun u _ => hs.thr u)
  · rw [tx_setTx_same, absTx_commitNext]
  · exact inv_commitNext (by simpa using hown) (by simpa using hnd)
      (fun g hg => hs.holdNamed t g (by simpa [holdsOf, hpc] using hg)) (by simpa using hi.val)

/-- c2, c4, c11: the `unlock` event for the record at the head of commit's loop -/
theorem sim_unlock_cur (hs : Sim c p) (hh : holdsOf (c.loc t) = (c.loc t).cur :: (c.loc t).rest)
    (hw : waitingOf (c.loc t) = none) (hc : committingOf (c.loc t) = true)
    (hf : assoc c.sh.names (c.loc t).cur.rid = some (c.loc t).cur.key ∧ ∀ h ∈ (c.loc t).rest, h.rid ≠ (c.loc t).cur.rid)
    (hpc : (c.loc t).pc ≠ .init)
    (hheld : l'.held = (c.loc t).held) (hrest : l'.rest = (c.loc t).rest) (hcur : l'.cur = (c.loc t).cur)
    (hh' : holdsOf l' = l'.rest) (hx' : extra l' = some (l'.cur.rid, l'.cur.mode))
    (hf' : Facts c.sh l' ↔ (assoc c.sh.names l'.cur.rid = some l'.cur.key ∧ ∀ h ∈ l'.rest, h.rid ≠ l'.cur.rid))
    (habs : absTx l' = some { holds := l'.rest, committing := true }) :
    Simulated c p t c.sh l' (some (.unlock t (c.loc t).cur.rid)) := by
  have hi := hs.thr t
  have hown := hi.own
  rw [hh] at hown
  have htx := hs.tx_some t hpc
  rw [hh, hw, hc] at htx
  have hho := holdOf_head (c.loc t).cur (c.loc t).rest none true
  have hstep : Proto.step p (.unlock t (c.loc t).cur.rid) = some
      (p.setTx t { holds := (c.loc t).rest, committing := true }) := by
    simp [Proto.step, htx, hho, TxSt.delHold, filter_rid_ne hf.2]
  refine ⟨_, hstep, ?_⟩
  refine hs.update t _ _ _ (hs.reach.next hstep) hs.idx hs.pend hs.names hs.wf ?_ ?_
    (fun u hu => tx_setTx_ne _ _ hu) (fun u _ => hs.thr u)
  · rw [tx_setTx_same, habs, hrest]
  · refine ⟨?_, ?_, hf'.2 (by rw [hcur, hrest]; exact hf), by rw [hheld]; exact hi.val⟩
    · rw [hh', hrest]; intro g hg; exact hown g (List.mem_cons_of_mem _ hg)
    · rw [hx', hh', hrest, hcur]
      intro x hx; cases hx
      exact ⟨hown _ (List.mem_cons_self ..), by simp [hf.1], hf.2⟩

theorem case_c2 (hs : Sim c p) (hpc : (c.loc t).pc = .c2)
    (h : tstep c.sh t (c.loc t) ch = some (s', l', e)) : Simulated c p t s' l' e := by
  simp only [tstep, hpc] at h
  have hf := (hs.thr t).facts
  simp only [Facts, hpc] at hf
  cases h
  exact sim_unlock_cur hs (by simp [holdsOf, hpc]) (by simp [waitingOf, hpc]) (by simp [committingOf, hpc]) hf
    (by simp [hpc]) rfl rfl rfl (by simp [holdsOf]) (by simp [extra]) (by simp [Facts])
    (by simp [absTx, holdsOf, waitingOf, committingOf])

theorem case_c4 (hs : Sim c p) (hpc : (c.loc t).pc = .c4)
    (h : tstep c.sh t (c.loc t) ch = some (s', l', e)) : Simulated c p t s' l' e := by
  simp only [tstep, hpc] at h
  have hf := (hs.thr t).facts
  simp only [Facts, hpc] at hf
  cases h
  exact sim_unlock_cur hs (by simp [holdsOf, hpc]) (by simp [waitingOf, hpc]) (by simp [committingOf, hpc]) hf
    (by simp [hpc]) rfl rfl rfl (by simp [holdsOf]) (by simp [extra]) (by simp [Facts])
    (by simp [absTx, holdsOf, waitingOf, committingOf])

theorem case_c11 (hs : Sim c p) (hpc : (c.loc t).pc = .c11)
    (h : tstep c.sh t (c.loc t) ch = some (s', l', e)) : Simulated c p t s' l' e := by
  simp only [tstep, hpc] at h
  have hf := (hs.thr t).facts
  simp only [Facts, hpc] at hf
  cases h
  exact sim_unlock_cur hs (by simp [holdsOf, hpc]) (by simp [waitingOf, hpc]) (by simp [committingOf, hpc]) hf
    (by simp [hpc]) rfl rfl rfl (by simp [holdsOf]) (by simp [extra]) (by simp [Facts])
    (by simp [absTx, holdsOf, waitingOf, committingOf])

/-- c3, c12: the mutex of the record at the head is released, the loop goes on -/
theorem sim_release_cur (hs : Sim c p) (hpc : (c.loc t).pc ≠ .init) (hh : holdsOf (c.loc t) = (c.loc t).rest)
    (hw : waitingOf (c.loc t) = none) (hc : committingOf (c.loc t) = true)
    (hx : extra (c.loc t) = some ((c.loc t).cur.rid, (c.loc t).cur.mode))
    (mu' : Mu) (hwf' : wfMu mu') (hoth : ∀ u, u ≠ t → ∀ m, owns (c.sh.mu (c.loc t).cur.rid) u m → owns mu' u m) :
    Simulated c p t (c.sh.setMu (c.loc t).cur.rid mu') (commitNext (c.sh.setMu (c.loc t).cur.rid mu') (c.loc t)) none := by
  have hi := hs.thr t
  have hown := hi.own
  rw [hh] at hown
  have hxx := hi.ext _ hx
  rw [hh] at hxx
  have hnd := hs.nodup t hpc
  rw [hh] at hnd
  refine ⟨p, rfl, ?_⟩
  refine hs.update t _ _ _ hs.reach hs.idx hs.pend hs.names (wf_setMu hs.wf _ _ hwf') ?_ ?_
    (fun _ _ => rfl) (fun u hu => hs.other_mu _ _ u (hoth u hu))
  · rw [hs.tx t, absTx_commitNext]; simp [absTx, hpc, hh, hw, hc]
  · refine inv_commitNext ?_ hnd (fun g hg => hs.holdNamed t g (by rw [hh]; exact hg)) hi.val
    intro g hg
    rw [mu_setMu]; simpa [hxx.2.2 g hg] using hown g hg

theorem case_c3 (hs : Sim c p) (hpc : (c.loc t).pc = .c3)
    (h : tstep c.sh t (c.loc t) ch = some (s', l', e)) : Simulated c p t s' l' e := by
  simp only [tstep, hpc] at h
  have hx := (hs.thr t).ext ((c.loc t).cur.rid, (c.loc t).cur.mode) (by simp [extra, hpc])
  cases h
  refine sim_release_cur hs (by simp [hpc]) (by simp [holdsOf, hpc]) (by simp [waitingOf, hpc])
    (by simp [committingOf, hpc]) (by simp [extra, hpc]) _ ?_ ?_
  · split
    · exact wf_unlock _
    · exact wf_runlock (hs.wf _) t
  · intro u hu m ho
    split
    · exact owns_unlock (hs.wf _) hu hx.1 ho
    · exact owns_runlock hu ho

theorem case_c12 (hs : Sim c p) (hpc : (c.loc t).pc = .c12)
    (h : tstep c.sh t (c.loc t) ch = some (s', l', e)) : Simulated c p t s' l' e := by
  simp only [tstep, hpc] at h
  have hx := (hs.thr t).ext ((c.loc t).cur.rid, (c.loc t).cur.mode) (by simp [extra, hpc])
  cases h
  exact sim_release_cur hs (by simp [hpc]) (by simp [holdsOf, hpc]) (by simp [waitingOf, hpc])
    (by simp [committingOf, hpc]) (by simp [extra, hpc]) _ (wf_unlock _)
    (fun u hu m ho => owns_unlock (hs.wf _) hu hx.1 ho)

theorem case_c5 (hs : Sim c p) (hpc : (c.loc t).pc = .c5)
    (h : tstep c.sh t (c.loc t) ch = some (s', l', e)) : Simulated c p t s' l' e := by
  simp only [tstep, hpc] at h
  have hi := hs.thr t
  have hown := hi.own
  simp only [holdsOf, hpc] at hown
  have hf := hi.facts
  simp only [Facts, hpc] at hf
  cases h
  refine ⟨p, rfl, ?_⟩
  refine hs.update t _ _ _ hs.reach hs.idx hs.pend hs.names (wf_setMu hs.wf _ _ (wf_runlock (hs.wf _) t)) ?_ ?_
    (fun _ _ => rfl) (fun u hu => hs.other_mu _ _ u (fun m ho => owns_runlock hu ho))
  · rw [hs.tx t]; simp [absTx, hpc, holdsOf, waitingOf, committingOf]
  · refine ⟨?_, by simp [extra], by simpa [Facts] using hf, hi.val⟩
    simp only [holdsOf]
    intro g hg
    rw [mu_setMu]; simpa [hf.2 g hg] using hown g hg

theorem case_c6 (hs : Sim c p) (hpc : (c.loc t).pc = .c6)
    (h : tstep c.sh t (c.loc t) ch = some (s', l', e)) : Simulated c p t s' l' e := by
  simp only [tstep, hpc] at h
  have hi := hs.thr t
  have hown := hi.own
  simp only [holdsOf, hpc] at hown
  have hf := hi.facts
  simp only [Facts, hpc] at hf
  split at h <;> cases h
  · rename_i hcond
    have hcan : (c.sh.mu (c.loc t).cur.rid).canLock = true := by
      simp only [Bool.and_eq_true] at hcond; exact hcond.2
    refine ⟨p, rfl, ?_⟩
    refine hs.update t _ _ _ hs.reach hs.idx hs.pend hs.names (wf_setMu hs.wf _ _ (wf_lock hcan t)) ?_ ?_
      (fun _ _ => rfl)
      (fun u _ => hs.other_mu _ _ u (fun m ho => absurd ho (not_owns_canLock hcan u m)))
    · rw [hs.tx t]; simp [absTx, hpc, holdsOf, waitingOf, committingOf]
    · refine ⟨?_, ?_, by simpa [Facts] using hf, hi.val⟩
      · simp only [holdsOf]
        intro g hg
        rw [mu_setMu]; simpa [hf.2 g hg] using hown g hg
      · simp only [extra, holdsOf]
        intro x hx; cases hx
        exact ⟨by simp [mu_setMu, owns, Mu.lock], by simp [hf.1], hf.2⟩
  · have hnd := hs.nodup t (by simp [hpc])
    simp only [holdsOf, hpc] at hnd
    refine ⟨p, rfl, hs.silent t _ _ rfl rfl rfl rfl ?_
      (inv_commitNext hown hnd (fun g hg => hs.holdNamed t g (by simpa [holdsOf, hpc] using hg)) hi.val)⟩
    rw [absTx_commitNext]; simp [absTx, hpc, holdsOf, waitingOf, committingOf]

theorem case_c7 (hs : Sim c p) (hpc : (c.loc t).pc = .c7)
    (h : tstep c.sh t (c.loc t) ch = some (s', l', e)) : Simulated c p t s' l' e := by
  simp only [tstep, hpc] at h
  have hi := hs.thr t
  have hown := hi.own
  simp only [holdsOf, hpc] at hown
  have hf := hi.facts
  simp only [Facts, hpc] at hf
  have hx := hi.ext ((c.loc t).cur.rid, .w) (by simp [extra, hpc])
  cases h
  have htx := hs.tx_some t (by simp [hpc])
  simp only [holdsOf, waitingOf, committingOf, hpc] at htx
  have hfree := hs.free_of_extra (t := t) (r := (c.loc t).cur.rid) (m := .w) (by simp [extra, hpc])
  simp only [hf.1, Option.getD_some]
  have hstep : Proto.step p (.trylock t (c.loc t).cur.key (c.loc t).cur.rid) = some
      (p.setTx t { holds := ⟨(c.loc t).cur.rid, (c.loc t).cur.key, .w,
          c.sh.lookup (c.loc t).cur.key == some (c.loc t).cur.rid⟩ :: (c.loc t).rest, committing := true }) := by
    simp [Proto.step, htx, hs.names, hf.1, hfree, TxSt.setHold, filter_rid_ne hf.2, hs.lookup]
  refine ⟨_, hstep, ?_⟩
  refine hs.update t _ _ _ (hs.reach.next hstep) hs.idx hs.pend hs.names hs.wf ?_ ?_
    (fun u hu => tx_setTx_ne _ _ hu) (fun u _ => hs.thr u)
  · rw [tx_setTx_same]; simp [absTx, holdsOf, waitingOf, committingOf]
  · refine ⟨?_, by simp [extra], by simpa [Facts] using hf, hi.val⟩
    simp only [holdsOf]
    intro g hg
    rcases List.mem_cons.1 hg with rfl | hg
    · exact hx.1
    · exact hown g hg

/-- c8, c10: `store.mu` is taken / given back -/
theorem case_c8 (hs : Sim c p) (hpc : (c.loc t).pc = .c8)
    (h : tstep c.sh t (c.loc t) ch = some (s', l', e)) : Simulated c p t s' l' e := by
  simp only [tstep, hpc] at h
  have hi := hs.thr t
  have hown := hi.own
  simp only [holdsOf, hpc] at hown
  have hf := hi.facts
  simp only [Facts, hpc] at hf
  split at h <;> cases h
  exact ⟨p, rfl, hs.silent t _ _ rfl rfl rfl rfl (by simp [absTx, hpc, holdsOf, waitingOf, committingOf])
    ⟨by simpa [holdsOf] using hown, by simp [extra], by simpa [Facts] using hf, hi.val⟩⟩

theorem case_c10 (hs : Sim c p) (hpc : (c.loc t).pc = .c10)
    (h : tstep c.sh t (c.loc t) ch = some (s', l', e)) : Simulated c p t s' l' e := by
  simp only [tstep, hpc] at h
  have hi := hs.thr t
  have hown := hi.own
  simp only [holdsOf, hpc] at hown
  have hf := hi.facts
  simp only [Facts, hpc] at hf
  cases h
  exact ⟨p, rfl, hs.silent t _ _ rfl rfl rfl rfl (by simp [absTx, hpc, holdsOf, waitingOf, committingOf])
    ⟨by simpa [holdsOf] using hown, by simp [extra], by simpa [Facts] using hf, hi.val⟩⟩

theorem case_c9 (hs : Sim c p) (hpc : (c.loc t).pc = .c9)
    (h : tstep c.sh t (c.loc t) ch = some (s', l', e)) : Simulated c p t s' l' e := by
  simp only [tstep, hpc] at h
  have hi := hs.thr t
  have hown := hi.own
  simp only [holdsOf, hpc] at hown
  have hf := hi.facts
  simp only [Facts, hpc] at hf
  simp only [hf.1.1, Option.getD_some] at h
  have hinv' : ThreadInv c.sh t { (c.loc t) with pc := .c10 } :=
    ⟨by simpa [holdsOf] using hown, by simp [extra], by simpa [Facts] using hf.1, hi.val⟩
  split at h <;> cases h
  · rename_i hp
    have hp : assoc c.sh.pending (c.loc t).cur.key = some (c.loc t).cur.rid := by simpa using hp
    have htx := hs.tx_some t (by simp [hpc])
    simp only [holdsOf, waitingOf, committingOf, hpc] at htx
    have hho := holdOf_head (c.loc t).cur (c.loc t).rest none true
    have hstep : Proto.step p (.drop t (c.loc t).cur.key (c.loc t).cur.rid) = some
        { p with pending := erase p.pending (c.loc t).cur.key } := by
      simp [Proto.step, htx, hho, hf.2, hs.pend, hp]
    exact sim_maps hs hstep rfl (by simp [hs.idx]) (by simp [hs.pend]) rfl rfl rfl
      (by simp [absTx, hpc, holdsOf, waitingOf, committingOf]) hinv'
  · exact ⟨p, rfl, hs.silent t _ _ rfl rfl rfl rfl (by simp [absTx, hpc, holdsOf, waitingOf, committingOf]) hinv'⟩

theorem case_cend (hs : Sim c p) (hpc : (c.loc t).pc = .cend)
    (h : tstep c.sh t (c.loc t) ch = some (s', l', e)) : Simulated c p t s' l' e := by
  simp only [tstep, hpc] at h
  cases h
  have htx := hs.tx_some t (by simp [hpc])
  simp only [holdsOf, waitingOf, committingOf, hpc] at htx
  have hstep : Proto.step p (.fin t) = some { p with txs := erase p.txs t } := by
    simp [Proto.step, htx]
  refine ⟨_, hstep, ?_⟩
  refine hs.update t _ _ _ (hs.reach.next hstep) hs.idx hs.pend hs.names hs.wf ?_ ?_ ?_ (fun u _ => hs.thr u)
  · simp [PState.tx, assoc_erase, absTx]
  · exact ⟨by simp [holdsOf], by simp [extra], by simp [Facts], by simp⟩
  · intro u hu; simp [PState.tx, assoc_erase, hu]

end Cases

end NodisVerif.Proofs.TxProg
