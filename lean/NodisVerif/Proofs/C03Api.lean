import NodisVerif.Model.Api
import NodisVerif.Spec.HashSet
import NodisVerif.Proofs.C03
namespace NodisVerif.Proofs.C03Api
open NodisVerif.Proofs.AListLemmas NodisVerif.Proofs.AListLemmas2 NodisVerif.Proofs.C03
open Store Api

def IndexSorted (s : MState) : Prop := AList.Sorted s.index

def Hot (s : MState) (k : Bytes) (v : Val) (now : Int) : Prop :=
  ∃ m, getMeta s k = some m ∧ m.isOk = true ∧ m.expired now = false ∧ m.value = some v

def Absent (s : MState) (k : Bytes) (now : Int) : Prop :=
  ∀ m, getMeta s k = some m → m.isOk = false ∨ m.expired now = true

theorem getMeta_putMeta_same (s : MState) (k : Bytes) (m : Meta) : getMeta (putMeta s k m) k = some m := by
  simp [getMeta, putMeta, get?_set_same]

theorem getMeta_putMeta_other (s : MState) (k k' : Bytes) (m : Meta) (h : k ≠ k') :
    getMeta (putMeta s k' m) k = getMeta s k := by
  simp [getMeta, putMeta, get?_set_other _ _ _ _ h]

theorem lockW_index (s : MState) (k : Bytes) : (lockW s k).index = s.index := by
  unfold lockW; split
  · rfl
  · split <;> rfl
theorem lockR_index (s : MState) (k : Bytes) : (lockR s k).index = s.index := by
  unfold lockR; split <;> rfl
theorem getMeta_lockW (s : MState) (k k' : Bytes) : getMeta (lockW s k') k = getMeta s k := by
  simp [getMeta, lockW_index]
theorem getMeta_lockR (s : MState) (k k' : Bytes) : getMeta (lockR s k') k = getMeta s k := by
  simp [getMeta, lockR_index]

theorem readKey_hot (s : MState) (now : Int) (k : Bytes) (m : Meta) (hm : getMeta s k = some m)
    (hok : m.isOk = true) (hexp : m.expired now = false) (hv : m.value.isSome = true) :
    readKey s now k = (putMeta (lockR s k) k { m with count := m.count + 1 }, true) := by
  unfold readKey
  rw [hm]
  have h1 : ({ m with count := m.count + 1 } : Meta).isOk = true := hok
  have h2 : ({ m with count := m.count + 1 } : Meta).expired now = false := hexp
  simp only [h1, h2, if_true, Bool.false_eq_true, if_false, hv]

theorem writeKey_hot (s : MState) (now : Int) (k : Bytes) (mk : Option Val) (m : Meta) (hm : getMeta s k = some m)
    (hok : m.isOk = true) (hexp : m.expired now = false) (hv : m.value.isSome = true) :
    writeKey s now k mk = (putMeta (lockW s k) k { m with count := m.count + 1 }, true) := by
  unfold writeKey
  rw [hm]
  have h1 : ({ m with count := m.count + 1 } : Meta).isOk = true := hok
  have h2 : ({ m with count := m.count + 1 } : Meta).expired now = false := hexp
  simp only [h1, h2, if_true, Bool.false_eq_true, if_false, hv]


/-! ### generic map-over-entries lemmas -/

theorem get?_map_entries {V : Type} (g : Bytes → V → V) : ∀ (l : AList V) (x : Bytes),
    AList.get? (l.map fun p => (p.1, g p.1 p.2)) x = (AList.get? l x).map (g x) := by
  intro l
  induction l with
  | nil => intro x; rfl
  | cons a rest ih =>
    intro x
    obtain ⟨k, v⟩ := a
    simp only [List.map_cons, AList.get?]
    split
    · next e => subst e; rfl
    · exact ih x

theorem sorted_map_entries {V : Type} (g : Bytes → V → V) (l : AList V) (h : AList.Sorted l) :
    AList.Sorted (l.map fun p => (p.1, g p.1 p.2)) := by
  rw [sorted_iff_pairwise] at h ⊢
  rw [List.pairwise_map]
  exact h

/-- the index after `setVal`, in entry-wise form -/
def setValG (oid : Nat) (v : Val) (_k : Bytes) (m' : Meta) : Meta :=
  if m'.oid = oid ∧ m'.value.isSome then { m' with value := some v } else m'

theorem setVal_index (s : MState) (key : Bytes) (v : Val) (m : Meta) (hm : getMeta s key = some m) :
    (setVal s key v).index =
      if s.pebble ∨ m.oid = 0 then AList.set s.index key { m with value := some v }
      else (AList.set s.index key { m with value := some v }).map fun p => (p.1, setValG m.oid v p.1 p.2) := by
  unfold setVal
  rw [hm]
  by_cases hc : s.pebble = true ∨ m.oid = 0
  · rw [if_pos hc]
    show MState.index (if (putMeta s key { m with value := some v }).pebble = true ∨ m.oid = 0 then _ else _) = _
    rw [if_pos (show (putMeta s key { m with value := some v }).pebble = true ∨ m.oid = 0 from hc)]
    rfl
  · rw [if_neg hc]
    show MState.index (if (putMeta s key { m with value := some v }).pebble = true ∨ m.oid = 0 then _ else _) = _
    rw [if_neg (show ¬ ((putMeta s key { m with value := some v }).pebble = true ∨ m.oid = 0) from hc)]
    show List.map _ _ = List.map _ _
    congr 1
    funext p
    obtain ⟨k, m'⟩ := p
    simp only [setValG]
    split <;> rfl

theorem getMeta_setVal_same (s : MState) (key : Bytes) (v : Val) (m : Meta) (hm : getMeta s key = some m) :
    getMeta (setVal s key v) key = some { m with value := some v } := by
  unfold getMeta
  rw [setVal_index s key v m hm]
  split
  · exact get?_set_same _ _ _
  · rw [get?_map_entries, get?_set_same]
    simp [setValG]

theorem getMeta_setVal_none (s : MState) (key k : Bytes) (v : Val) (hk : getMeta s k = none) (hne : k ≠ key) :
    getMeta (setVal s key v) k = none := by
  cases hm : getMeta s key with
  | none => unfold setVal; rw [hm]; exact hk
  | some m =>
    unfold getMeta at hk ⊢
    rw [setVal_index s key v m hm]
    split
    · rw [get?_set_other _ _ _ _ hne]; exact hk
    · rw [get?_map_entries, get?_set_other _ _ _ _ hne, hk]; rfl

theorem setVal_sorted (s : MState) (key : Bytes) (v : Val) (h : IndexSorted s) : IndexSorted (setVal s key v) := by
  cases hm : getMeta s key with
  | none => unfold setVal; rw [hm]; exact h
  | some m =>
    unfold IndexSorted
    rw [setVal_index s key v m hm]
    split
    · exact set_preserves_sorted _ h _ _
    · exact sorted_map_entries _ _ (set_preserves_sorted _ h _ _)

theorem putMeta_sorted (s : MState) (k : Bytes) (m : Meta) (h : IndexSorted s) : IndexSorted (putMeta s k m) :=
  set_preserves_sorted _ h _ _

theorem lockW_sorted (s : MState) (k : Bytes) (h : IndexSorted s) : IndexSorted (lockW s k) := by
  unfold IndexSorted; rw [lockW_index]; exact h
theorem lockR_sorted (s : MState) (k : Bytes) (h : IndexSorted s) : IndexSorted (lockR s k) := by
  unfold IndexSorted; rw [lockR_index]; exact h

/-! signal / emit / delKey -/

theorem getMeta_emit (s : MState) (op : FeedOp) (k : Bytes) : getMeta (emit s op) k = getMeta s k := by
  unfold emit; split <;> rfl

theorem getMeta_signal_same (s : MState) (k : Bytes) : getMeta (signal s k) k = (getMeta s k).map Meta.markModified := by
  unfold signal modMeta
  cases hm : getMeta s k with
  | none => simp [getMeta] at hm ⊢; exact hm
  | some m => simp only [Option.map_some]; exact getMeta_putMeta_same s k _

theorem getMeta_signal_other (s : MState) (k k' : Bytes) (h : k ≠ k') : getMeta (signal s k') k = getMeta s k := by
  unfold signal modMeta
  cases hm : getMeta s k' with
  | none => rfl
  | some m => exact getMeta_putMeta_other s k k' _ h

/-- `unpersist` only touches the backend -/
theorem unpersist_index (s : MState) (k : Bytes) (m : Meta) : (unpersist s k m).index = s.index := by
  unfold unpersist
  split <;> rfl

theorem delKey_index (s : MState) (k : Bytes) : (delKey s k).index = AList.erase s.index k := by
  unfold delKey
  split
  · simp only [unpersist_index]
  · rfl

theorem getMeta_delKey_same (s : MState) (k : Bytes) (h : IndexSorted s) : getMeta (delKey s k) k = none := by
  unfold getMeta; rw [delKey_index]; exact get?_erase_same s.index h k

theorem getMeta_delKey_other (s : MState) (k k' : Bytes) (h : k ≠ k') : getMeta (delKey s k') k = getMeta s k := by
  unfold getMeta; rw [delKey_index]; exact get?_erase_other s.index k' k h

theorem markModified_isOk (m : Meta) : m.markModified.isOk = m.isOk := by
  simp only [Meta.markModified, Meta.isOk]
  split
  · rfl
  · congr 1
    apply propext
    constructor <;> intro h <;> omega

theorem markModified_expired (m : Meta) (now : Int) : m.markModified.expired now = m.expired now := rfl
theorem markModified_value (m : Meta) : m.markModified.value = m.value := rfl

/-- the common tail of every mutating hash/set command on a hot key -/
theorem hot_after_write (s : MState) (k : Bytes) (v v' : Val) (now : Int) (op : FeedOp) (h : Hot s k v now) :
    Hot (emit (signal (setVal s k v') k) op) k v' now := by
  obtain ⟨m, hm, hok, hexp, _⟩ := h
  refine ⟨({ m with value := some v' } : Meta).markModified, ?_, ?_, ?_, ?_⟩
  · rw [getMeta_emit, getMeta_signal_same, getMeta_setVal_same s k v' m hm]; rfl
  · rw [markModified_isOk]; exact hok
  · rw [markModified_expired]; exact hexp
  · rfl

/-- the tail when the collection became empty: the key ceases to exist -/
theorem gone_after_delete (s : MState) (k : Bytes) (v' : Val) (op : FeedOp) (h : IndexSorted s) :
    getMeta (emit (signal (delKey (setVal s k v') k) k) op) k = none := by
  rw [getMeta_emit, getMeta_signal_same, getMeta_delKey_same _ _ (setVal_sorted s k v' h)]; rfl

theorem hot_after_writeKey (s : MState) (now : Int) (k : Bytes) (mk : Option Val) (v : Val) (h : Hot s k v now) :
    (writeKey s now k mk).2 = true ∧ Hot (writeKey s now k mk).1 k v now := by
  obtain ⟨m, hm, hok, hexp, hv⟩ := h
  rw [writeKey_hot s now k mk m hm hok hexp (by simp [hv])]
  exact ⟨rfl, _, getMeta_putMeta_same _ _ _, hok, hexp, hv⟩

theorem sorted_after_writeKey_hot (s : MState) (now : Int) (k : Bytes) (mk : Option Val) (v : Val) (h : Hot s k v now)
    (hs : IndexSorted s) : IndexSorted (writeKey s now k mk).1 := by
  obtain ⟨m, hm, hok, hexp, hv⟩ := h
  rw [writeKey_hot s now k mk m hm hok hexp (by simp [hv])]
  exact putMeta_sorted _ _ _ (lockW_sorted _ _ hs)

theorem hot_after_readKey (s : MState) (now : Int) (k : Bytes) (v : Val) (h : Hot s k v now) :
    (readKey s now k).2 = true ∧ Hot (readKey s now k).1 k v now := by
  obtain ⟨m, hm, hok, hexp, hv⟩ := h
  rw [readKey_hot s now k m hm hok hexp (by simp [hv])]
  exact ⟨rfl, _, getMeta_putMeta_same _ _ _, hok, hexp, hv⟩

theorem valOf_hot {s : MState} {k : Bytes} {v : Val} {now : Int} (h : Hot s k v now) : valOf s k = some v := by
  obtain ⟨m, hm, _, _, hv⟩ := h
  simp [valOf, hm, hv]

theorem asSet_hot {s : MState} {k : Bytes} {st : AList Unit} {now : Int} (h : Hot s k (.set st) now) : asSet s k = some st := by
  simp [asSet, valOf_hot h]

theorem asHash_hot {s : MState} {k : Bytes} {hh : AList Bytes} {now : Int} (h : Hot s k (.hash hh) now) : asHash s k = some hh := by
  simp [asHash, valOf_hot h]


theorem writeKey_hot_pair (s : MState) (now : Int) (k : Bytes) (mk : Option Val) (v : Val) (h : Hot s k v now) :
    writeKey s now k mk = ((writeKey s now k mk).1, true) :=
  Prod.ext rfl (hot_after_writeKey s now k mk v h).1

theorem readKey_hot_pair (s : MState) (now : Int) (k : Bytes) (v : Val) (h : Hot s k v now) :
    readKey s now k = ((readKey s now k).1, true) :=
  Prod.ext rfl (hot_after_readKey s now k v h).1

/-- common tail of SREM / SPOP / HDEL: store the new value, unlink the key when it became empty -/
theorem tail_state (s1 : MState) (key : Bytes) (v v' : Val) (now : Int) (op : FeedOp) (c : Prop) [Decidable c]
    (h : Hot s1 key v now) (hs : IndexSorted s1) :
    (c → getMeta (emit (signal (if c then delKey (setVal s1 key v') key else setVal s1 key v') key) op) key = none) ∧
    (¬ c → Hot (emit (signal (if c then delKey (setVal s1 key v') key else setVal s1 key v') key) op) key v' now) := by
  constructor
  · intro hc; rw [if_pos hc]; exact gone_after_delete s1 key v' op hs
  · intro hc; rw [if_neg hc]; exact hot_after_write s1 key v v' now op h

/-! ### SPOP / SRANDMEMBER -/

/-- the accepted-choice test of `Api.spop` -/
def spopValid (st : AList Unit) (count : Int) (choice : List Bytes) : Bool :=
  let count := if count = 0 then 1 else count
  let want : Nat := if count ≤ 0 then 0 else min count.toNat st.length
  choice.all (DsSet.mem st) && distinct choice && choice.length = want

def invalidChoice : Out := .str (Bytes.ofString "INVALID-CHOICE")

theorem spop_hot_valid (s : MState) (now : Int) (key : Bytes) (count : Int) (choice : List Bytes) (st : AList Unit)
    (h : Hot s key (.set st) now) (hv : spopValid st count choice = true) :
    spop s now key count choice =
      let s1 := (writeKey s now key none).1
      let st' := (DsSet.srem st choice).1
      let s2 := setVal s1 key (.set st')
      let s3 := if DsSet.scard st' = 0 then delKey s2 key else s2
      (emit (signal s3 key) { typ := 24, key := key, args := choice.map Bytes.toHex }, .slist choice) := by
  unfold spop
  rw [writeKey_hot_pair s now key none _ h]
  simp only [Bool.not_true, Bool.false_eq_true, if_false]
  rw [asSet_hot (hot_after_writeKey s now key none _ h).2]
  simp only
  unfold spopValid at hv
  simp only at hv
  rw [hv]
  simp

theorem spop_hot_invalid (s : MState) (now : Int) (key : Bytes) (count : Int) (choice : List Bytes) (st : AList Unit)
    (h : Hot s key (.set st) now) (hv : spopValid st count choice = false) :
    spop s now key count choice = ((writeKey s now key none).1, invalidChoice) := by
  unfold spop
  rw [writeKey_hot_pair s now key none _ h]
  simp only [Bool.not_true, Bool.false_eq_true, if_false]
  rw [asSet_hot (hot_after_writeKey s now key none _ h).2]
  simp only
  unfold spopValid at hv
  simp only at hv
  rw [hv]
  simp [invalidChoice]

/-- the accepted-choice test of `Api.srandmember` -/
def srandValid (st : AList Unit) (count : Int) (choice : List Bytes) : Bool :=
  if count = 0 then choice.isEmpty
  else if count > 0 then choice.all (DsSet.mem st) && distinct choice && choice.length = min count.toNat st.length
  else choice.all (DsSet.mem st) && choice.length = (-count).toNat

theorem srandmember_hot (s : MState) (now : Int) (key : Bytes) (count : Int) (choice : List Bytes) (st : AList Unit)
    (h : Hot s key (.set st) now) :
    srandmember s now key count choice =
      ((readKey s now key).1,
        if count < 0 ∧ st.isEmpty then .panic
        else if srandValid st count choice then .slist choice else invalidChoice) := by
  unfold srandmember
  rw [readKey_hot_pair s now key _ h]
  simp only [Bool.not_true, Bool.false_eq_true, if_false]
  rw [asSet_hot (hot_after_readKey s now key _ h).2]
  simp only
  split
  · rfl
  · unfold srandValid invalidChoice
    exact (apply_ite (Prod.mk _) _ _ _).symm

theorem distinct_iff_nodup : ∀ (l : List Bytes), distinct l = true ↔ l.Nodup := by
  intro l
  induction l with
  | nil => simp [distinct]
  | cons x xs ih =>
    simp only [distinct, Bool.and_eq_true, Bool.not_eq_true', List.nodup_cons, ih]
    simp

/-! ### SREM / HDEL / SMOVE on a hot key -/

theorem srem_hot (s : MState) (now : Int) (key : Bytes) (members : List Bytes) (st : AList Unit)
    (h : Hot s key (.set st) now) :
    srem s now key members =
      let s1 := (writeKey s now key none).1
      let st' := (DsSet.srem st members).1
      let s2 := setVal s1 key (.set st')
      let s3 := if DsSet.scard st' = 0 then delKey s2 key else s2
      (emit (signal s3 key) { typ := 24, key := key, args := members.map Bytes.toHex }, .int (DsSet.srem st members).2) := by
  unfold srem
  rw [writeKey_hot_pair s now key none _ h]
  simp only [Bool.not_true, Bool.false_eq_true, if_false]
  rw [asSet_hot (hot_after_writeKey s now key none _ h).2]

theorem hdel_hot (s : MState) (now : Int) (key : Bytes) (fields : List Bytes) (hh : AList Bytes)
    (h : Hot s key (.hash hh) now) :
    hdel s now key fields =
      let s1 := (writeKey s now key none).1
      let h' := (DsHash.hdel hh fields).1
      let s2 := setVal s1 key (.hash h')
      let s3 := if DsHash.hlen h' = 0 then delKey s2 key else s2
      (emit (signal s3 key) { typ := 6, key := key, args := fields.map Bytes.toHex }, .int (DsHash.hdel hh fields).2) := by
  unfold hdel
  rw [writeKey_hot_pair s now key none _ h]
  simp only [Bool.not_true, Bool.false_eq_true, if_false]
  rw [asHash_hot (hot_after_writeKey s now key none _ h).2]

/-- a sorted list all of whose lookups fail is empty -/
theorem eq_nil_of_get?_none {V : Type} (m : AList V) (h : ∀ x, AList.get? m x = none) : m = [] := by
  cases m with
  | nil => rfl
  | cons a rest =>
    obtain ⟨k, v⟩ := a
    have := h k
    simp [AList.get?] at this

theorem delAll_nil {V : Type} (m : AList V) (hs : AList.Sorted m) (ks : List Bytes)
    (hall : ∀ x, AList.contains m x = true → x ∈ ks) : (ks.foldl delStep (m, 0)).1 = [] := by
  obtain ⟨_, h2, _⟩ := foldl_delStep ks m 0 hs
  apply eq_nil_of_get?_none
  intro x
  rw [h2 x]
  split
  · rfl
  · next hx =>
    cases hc : AList.contains m x with
    | true => exact absurd (hall x hc) hx
    | false => exact (contains_eq_false_iff m x).mp hc

theorem getMeta_newKeyWith_other (s : MState) (key : Bytes) (old : Option Meta) (v : Val) (k : Bytes) (h : k ≠ key) :
    getMeta (newKeyWith s key old v) k = getMeta s k := by
  unfold newKeyWith fresh
  simp only
  rw [getMeta_putMeta_other _ _ _ _ h]
  unfold getMeta
  split
  · rw [unpersist_index]
  · rfl

theorem getMeta_writeKey_other (s : MState) (now : Int) (key : Bytes) (mk : Option Val) (k : Bytes) (h : k ≠ key) :
    getMeta (writeKey s now key mk).1 k = getMeta s k := by
  unfold writeKey
  split
  · simp only
    repeat' split
    all_goals simp only [getMeta_newKeyWith_other _ _ _ _ _ h, getMeta_putMeta_other _ _ _ _ h, getMeta_lockW]
  · split
    · simp only [getMeta_newKeyWith_other _ _ _ _ _ h]
    · rfl

theorem getMeta_readKey_other (s : MState) (now : Int) (key : Bytes) (k : Bytes) (h : k ≠ key) :
    getMeta (readKey s now key).1 k = getMeta s k := by
  unfold readKey
  split
  · simp only
    repeat' split
    all_goals simp only [getMeta_putMeta_other _ _ _ _ h, getMeta_lockR]
  · rfl


/-! ### reads of several keys: what a read preserves -/

theorem readKey_absent (s : MState) (now : Int) (k : Bytes) (h : Absent s k now) :
    (readKey s now k).2 = false ∧ Absent (readKey s now k).1 k now := by
  unfold readKey
  cases hm : getMeta s k with
  | none => exact ⟨rfl, fun m hm' => by rw [hm] at hm'; cases hm'⟩
  | some m0 =>
    have h1 : ({ m0 with count := m0.count + 1 } : Meta).isOk = m0.isOk := rfl
    have h2 : ({ m0 with count := m0.count + 1 } : Meta).expired now = m0.expired now := rfl
    have hA : ∀ m, getMeta (putMeta (lockR s k) k { m0 with count := m0.count + 1 }) k = some m →
        m.isOk = false ∨ m.expired now = true := by
      intro m hm'
      rw [getMeta_putMeta_same] at hm'
      cases hm'
      exact h m0 hm
    simp only [h1, h2]
    rcases h m0 hm with hok | hexp
    · simp only [hok, Bool.false_eq_true, if_false]
      exact ⟨by first | rfl | trivial, hA⟩
    · cases hok : m0.isOk with
      | false => simp only [Bool.false_eq_true, if_false]; exact ⟨by first | rfl | trivial, hA⟩
      | true => simp only [hexp, if_true]; exact ⟨by first | rfl | trivial, hA⟩

/-- `s'` still classifies every key the way `s` did -/
def Pres (s s' : MState) (now : Int) : Prop :=
  (∀ k, Absent s k now → Absent s' k now) ∧ (∀ k v, Hot s k v now → Hot s' k v now)

theorem Pres.refl (s : MState) (now : Int) : Pres s s now := ⟨fun _ h => h, fun _ _ h => h⟩
theorem Pres.trans {s1 s2 s3 : MState} {now : Int} (a : Pres s1 s2 now) (b : Pres s2 s3 now) : Pres s1 s3 now :=
  ⟨fun k h => b.1 k (a.1 k h), fun k v h => b.2 k v (a.2 k v h)⟩

theorem pres_readKey (s : MState) (now : Int) (k' : Bytes) : Pres s (readKey s now k').1 now := by
  constructor
  · intro k h
    by_cases e : k = k'
    · subst e; exact (readKey_absent s now k h).2
    · intro m hm
      rw [getMeta_readKey_other s now k' k e] at hm
      exact h m hm
  · intro k v h
    by_cases e : k = k'
    · subst e; exact (hot_after_readKey s now k v h).2
    · obtain ⟨m, hm, rest⟩ := h
      exact ⟨m, by rw [getMeta_readKey_other s now k' k e]; exact hm, rest⟩

/-- operand classification: `none` = the key is missing (not indexed, deleted, or expired),
    `some st` = the key holds the set `st` in memory -/
def classify (s : MState) (now : Int) (k : Bytes) (v : Option (AList Unit)) : Prop :=
  match v with
  | none => Absent s k now
  | some st => Hot s k (.set st) now

def Classified (s : MState) (now : Int) : List Bytes → List (Option (AList Unit)) → Prop
  | [], [] => True
  | k :: ks, v :: vs => classify s now k v ∧ Classified s now ks vs
  | _, _ => False

theorem classify_pres {s s' : MState} {now : Int} (p : Pres s s' now) {k : Bytes} {v : Option (AList Unit)}
    (h : classify s now k v) : classify s' now k v := by
  cases v with
  | none => exact p.1 k h
  | some st => exact p.2 k _ h

theorem classified_pres {s s' : MState} {now : Int} (p : Pres s s' now) : ∀ (ks : List Bytes) (vs : List (Option (AList Unit))),
    Classified s now ks vs → Classified s' now ks vs := by
  intro ks
  induction ks with
  | nil => intro vs h; cases vs <;> exact h
  | cons k ks ih =>
    intro vs h
    cases vs with
    | nil => exact h
    | cons v vs => exact ⟨classify_pres p h.1, ih vs h.2⟩

/-- reading one classified operand -/
theorem readKey_classified (s : MState) (now : Int) (k : Bytes) (v : Option (AList Unit)) (h : classify s now k v) :
    (readKey s now k).2 = v.isSome ∧ (∀ st, v = some st → asSet (readKey s now k).1 k = some st) := by
  cases v with
  | none => exact ⟨(readKey_absent s now k h).1, fun _ e => by cases e⟩
  | some st =>
    refine ⟨(hot_after_readKey s now k _ h).1, ?_⟩
    intro st' e
    cases e
    exact asSet_hot (hot_after_readKey s now k _ h).2

def readStep (now : Int) (acc : MState × List (Option (Option (AList Unit)))) (k : Bytes) :
    MState × List (Option (Option (AList Unit))) :=
  let (s, ok) := readKey acc.1 now k
  (s, acc.2 ++ [if ok then some (asSet s k) else none])

theorem readMany_eq (s : MState) (now : Int) (keys : List Bytes) : readMany s now keys = keys.foldl (readStep now) (s, []) := rfl

theorem foldl_readStep (now : Int) : ∀ (ks : List Bytes) (vs : List (Option (AList Unit))) (s : MState)
    (acc : List (Option (Option (AList Unit)))), Classified s now ks vs →
    (ks.foldl (readStep now) (s, acc)).2 = acc ++ vs.map (Option.map some) ∧
    Pres s (ks.foldl (readStep now) (s, acc)).1 now := by
  intro ks
  induction ks with
  | nil =>
    intro vs s acc h
    cases vs with
    | nil => exact ⟨by simp, Pres.refl s now⟩
    | cons v vs => exact absurd h (by simp [Classified])
  | cons k ks ih =>
    intro vs s acc h
    cases vs with
    | nil => exact absurd h (by simp [Classified])
    | cons v vs =>
      obtain ⟨hk, hrest⟩ := h
      obtain ⟨r1, r2⟩ := readKey_classified s now k v hk
      have hstep : readStep now (s, acc) k = ((readKey s now k).1, acc ++ [v.map some]) := by
        unfold readStep
        show ((readKey s now k).1, acc ++ [if (readKey s now k).2 = true then some (asSet (readKey s now k).1 k) else none]) = _
        rw [r1]
        cases v with
        | none => rfl
        | some st => simp [r2 st rfl]
      simp only [List.foldl_cons]
      rw [hstep]
      have p1 := pres_readKey s now k
      obtain ⟨i1, i2⟩ := ih vs (readKey s now k).1 (acc ++ [v.map some]) (classified_pres p1 ks vs hrest)
      refine ⟨?_, p1.trans i2⟩
      rw [i1]
      simp

theorem readMany_classified (s : MState) (now : Int) (ks : List Bytes) (vs : List (Option (AList Unit)))
    (h : Classified s now ks vs) :
    (readMany s now ks).2 = vs.map (Option.map some) ∧ Pres s (readMany s now ks).1 now := by
  rw [readMany_eq]
  have := foldl_readStep now ks vs s [] h
  simpa using this

/-- no operand read this way is wrong-typed -/
theorem no_wrong_type (f : Option (Option (AList Unit)) → Bool) (hf1 : ∀ x, f (some (some x)) = false)
    (hf2 : f none = false) (vs : List (Option (AList Unit))) :
    (vs.map (Option.map some)).any f = false := by
  induction vs with
  | nil => rfl
  | cons v vs ih =>
    cases v <;> simp [ih, hf1, hf2]

theorem present_sets (g : Option (Option (AList Unit)) → Option (AList Unit)) (hg1 : ∀ x, g (some (some x)) = some x)
    (hg2 : g none = none) (vs : List (Option (AList Unit))) :
    (vs.map (Option.map some)).filterMap g = vs.filterMap id := by
  induction vs with
  | nil => rfl
  | cons v vs ih =>
    cases v <;> simp [ih, hg1, hg2]

/-! ### SINTER / SUNION / SDIFF over classified operands -/

theorem sinter_go_classified (now : Int) : ∀ (ks : List Bytes) (vs : List (Option (AList Unit))) (s : MState)
    (acc : List (AList Unit)), Classified s now ks vs →
    (sinter.go now ks s acc).2 =
      (if vs.all Option.isSome then some (some (acc ++ vs.filterMap id)) else some none) ∧
    Pres s (sinter.go now ks s acc).1 now := by
  intro ks
  induction ks with
  | nil =>
    intro vs s acc h
    cases vs with
    | nil => exact ⟨by simp [sinter.go], by rw [sinter.go]; exact Pres.refl s now⟩
    | cons v vs => exact absurd h (by simp [Classified])
  | cons k ks ih =>
    intro vs s acc h
    cases vs with
    | nil => exact absurd h (by simp [Classified])
    | cons v vs =>
      obtain ⟨hk, hrest⟩ := h
      obtain ⟨r1, r2⟩ := readKey_classified s now k v hk
      have hp : readKey s now k = ((readKey s now k).1, v.isSome) := Prod.ext rfl r1
      have p1 := pres_readKey s now k
      rw [sinter.go, hp]
      cases v with
      | none => exact ⟨by simp, p1⟩
      | some st =>
        simp only [Option.isSome_some, Bool.not_true, Bool.false_eq_true, if_false]
        rw [r2 st rfl]
        simp only
        obtain ⟨i1, i2⟩ := ih vs _ (acc ++ [st]) (classified_pres p1 ks vs hrest)
        refine ⟨?_, p1.trans i2⟩
        rw [i1]
        simp

/-- SINTER of classified operands: empty as soon as one operand is missing -/
def interOf (vs : List (Option (AList Unit))) : List Bytes :=
  if vs.all Option.isSome then
    match vs.filterMap id with
    | [] => []
    | st :: rest => DsSet.sinter st rest
  else []

theorem sinter_nil_others (st : AList Unit) : DsSet.sinter st [] = DsSet.members st := by
  simp [DsSet.sinter]

theorem smembers_classified (s : MState) (now : Int) (k : Bytes) (v : Option (AList Unit)) (h : classify s now k v) :
    (smembers s now k).2 = .slist (match v with | none => [] | some st => DsSet.members st) := by
  obtain ⟨r1, r2⟩ := readKey_classified s now k v h
  have hp : readKey s now k = ((readKey s now k).1, v.isSome) := Prod.ext rfl r1
  unfold smembers sread
  rw [hp]
  cases v with
  | none => simp
  | some st =>
    simp only [Option.isSome_some, Bool.not_true, Bool.false_eq_true, if_false]
    rw [r2 st rfl]

theorem sinter_classified (s : MState) (now : Int) (keys : List Bytes) (vals : List (Option (AList Unit)))
    (h : Classified s now keys vals) : (sinter s now keys).2 = .slist (interOf vals) := by
  match keys, vals, h with
  | [], [], _ => simp [sinter, interOf]
  | [k], [v], h =>
    rw [sinter, smembers_classified s now k v h.1]
    cases v with
    | none => simp [interOf]
    | some st => simp [interOf, sinter_nil_others]
  | k0 :: k1 :: rest, v0 :: v1 :: vs, h =>
    obtain ⟨h0, hrest⟩ := h
    obtain ⟨r1, r2⟩ := readKey_classified s now k0 v0 h0
    have hp : readKey s now k0 = ((readKey s now k0).1, v0.isSome) := Prod.ext rfl r1
    have p1 := pres_readKey s now k0
    rw [sinter]
    case x => intro hh; cases hh
    rw [hp]
    cases v0 with
    | none => simp [interOf]
    | some st0 =>
      simp only [Option.isSome_some, Bool.not_true, Bool.false_eq_true, if_false]
      obtain ⟨g1, g2⟩ := sinter_go_classified now (k1 :: rest) (v1 :: vs) _ [] (classified_pres p1 _ _ hrest)
      have hgp : sinter.go now (k1 :: rest) (readKey s now k0).1 [] =
          ((sinter.go now (k1 :: rest) (readKey s now k0).1 []).1,
           if (v1 :: vs).all Option.isSome then some (some ([] ++ (v1 :: vs).filterMap id)) else some none) :=
        Prod.ext rfl g1
      rw [hgp]
      by_cases hall : (v1 :: vs).all Option.isSome = true
      · rw [if_pos hall]
        simp only
        have hot0 : Hot (sinter.go now (k1 :: rest) (readKey s now k0).1 []).1 k0 (.set st0) now :=
          g2.2 k0 _ (p1.2 k0 _ h0)
        rw [asSet_hot hot0]
        have hall' : (some st0 :: v1 :: vs).all Option.isSome = true := by
          simpa using hall
        simp only [interOf]
        rw [if_pos hall']
        simp
      · rw [if_neg hall]
        have hall' : ¬ (some st0 :: v1 :: vs).all Option.isSome = true := by
          simpa using hall
        simp only [interOf]
        rw [if_neg hall']


/-- SUNION of classified operands: missing operands are skipped -/
def unionOf (vs : List (Option (AList Unit))) : List Bytes :=
  match vs.filterMap id with
  | [] => []
  | st :: rest => DsSet.sunion st rest

theorem sunion_nil_others (st : AList Unit) : DsSet.sunion st [] = DsSet.members st := by
  simp [DsSet.sunion]

theorem sunion_classified (s : MState) (now : Int) (keys : List Bytes) (vals : List (Option (AList Unit)))
    (h : Classified s now keys vals) : (sunion s now keys).2 = .slist (unionOf vals) := by
  match keys, vals, h with
  | [], [], _ => simp [sunion, unionOf]
  | [k], [v], h =>
    rw [sunion, smembers_classified s now k v h.1]
    cases v with
    | none => simp [unionOf]
    | some st => simp [unionOf, sunion_nil_others]
  | k0 :: k1 :: rest, v0 :: v1 :: vs, h =>
    obtain ⟨m1, m2⟩ := readMany_classified s now _ _ h
    have hp : readMany s now (k0 :: k1 :: rest) =
        ((readMany s now (k0 :: k1 :: rest)).1, (v0 :: v1 :: vs).map (Option.map some)) := Prod.ext rfl m1
    rw [sunion]
    case x_1 => intro hh; cases hh
    case x_2 => intro k hh; cases hh
    rw [hp]
    simp only
    rw [no_wrong_type _ (fun _ => rfl) rfl, present_sets _ (fun _ => rfl) rfl]
    simp only [Bool.false_eq_true, if_false, unionOf]
    cases List.filterMap id (v0 :: v1 :: vs) with
    | nil => rfl
    | cons st more => rfl

/-- SDIFF of classified operands: a missing first operand is the empty set, missing later operands are skipped -/
def diffOf : List (Option (AList Unit)) → List Bytes
  | [] => []
  | none :: _ => []
  | some st :: rest => DsSet.sdiff st (rest.filterMap id)

theorem sdiff_classified (s : MState) (now : Int) (keys : List Bytes) (vals : List (Option (AList Unit)))
    (h : Classified s now keys vals) : (sdiff s now keys).2 = .slist (diffOf vals) := by
  match keys, vals, h with
  | [], [], _ => simp [sdiff, diffOf]
  | k0 :: rest, v0 :: vs, h =>
    obtain ⟨h0, hrest⟩ := h
    obtain ⟨r1, r2⟩ := readKey_classified s now k0 v0 h0
    have hp : readKey s now k0 = ((readKey s now k0).1, v0.isSome) := Prod.ext rfl r1
    have p1 := pres_readKey s now k0
    rw [sdiff, hp]
    cases v0 with
    | none => simp [diffOf]
    | some st0 =>
      simp only [Option.isSome_some, Bool.not_true, Bool.false_eq_true, if_false]
      obtain ⟨m1, m2⟩ := readMany_classified (readKey s now k0).1 now rest vs (classified_pres p1 _ _ hrest)
      have hp2 : readMany (readKey s now k0).1 now rest =
          ((readMany (readKey s now k0).1 now rest).1, vs.map (Option.map some)) := Prod.ext rfl m1
      rw [hp2]
      simp only
      rw [asSet_hot (m2.2 k0 _ (p1.2 k0 _ h0))]
      simp only
      rw [no_wrong_type _ (fun _ => rfl) rfl, present_sets _ (fun _ => rfl) rfl]
      simp [diffOf]


/-! ### SMOVE of the last member (the store-level theorem `smove_src_gone` is in C03Seq) -/

theorem srem_singleton_last (st : AList Unit) (member : Bytes) (hsorted : AList.Sorted st)
    (hmem : DsSet.mem st member = true) (hlast : ∀ x, DsSet.mem st x = true → x = member) :
    DsSet.srem st [member] = ([], 1) := by
  have h1 : DsSet.srem st [member] = (AList.erase st member, 1) := by
    simp [DsSet.srem, hmem]
  have h2 : (DsSet.srem st [member]).1 = [] := by
    rw [srem_eq_fold]
    apply delAll_nil st hsorted
    intro x hx
    simp [hlast x hx]
  rw [h1] at h2 ⊢
  simp only at h2
  rw [h2]

/-! ### the abstract set denoted by an operand: a missing key is the empty set -/

def den : Option (AList Unit) → Spec.BSet
  | none => Spec.BSet.empty
  | some st => DsSet.mem st

theorem den_none : den none = Spec.BSet.empty := rfl
theorem den_some (st : AList Unit) : den (some st) = DsSet.mem st := rfl
theorem fm_none (vs : List (Option (AList Unit))) : (none :: vs).filterMap id = vs.filterMap id := rfl
theorem fm_some (st : AList Unit) (vs : List (Option (AList Unit))) : (some st :: vs).filterMap id = st :: vs.filterMap id := rfl

theorem all_den_iff (x : Bytes) : ∀ (vs : List (Option (AList Unit))),
    (∀ v ∈ vs, den v x = true) ↔ vs.all Option.isSome = true ∧ ∀ o ∈ vs.filterMap id, DsSet.mem o x = true := by
  intro vs
  induction vs with
  | nil => simp
  | cons v vs ih =>
    cases v with
    | none => simp [den_none, Spec.BSet.empty]
    | some st =>
      simp only [List.mem_cons, forall_eq_or_imp, ih, den_some, List.all_cons, Option.isSome_some, Bool.true_and,
        fm_some]
      constructor
      · rintro ⟨a, b, c⟩; exact ⟨b, a, c⟩
      · rintro ⟨b, a, c⟩; exact ⟨a, b, c⟩

theorem any_den_iff (x : Bytes) : ∀ (vs : List (Option (AList Unit))),
    (∃ v ∈ vs, den v x = true) ↔ ∃ o ∈ vs.filterMap id, DsSet.mem o x = true := by
  intro vs
  induction vs with
  | nil => simp
  | cons v vs ih =>
    cases v with
    | none =>
      simp only [List.mem_cons, exists_eq_or_imp, den_none, Spec.BSet.empty, Bool.false_eq_true, false_or, ih,
        fm_none]
    | some st =>
      simp only [List.mem_cons, exists_eq_or_imp, den_some, ih, fm_some]

theorem mem_interOf (v0 : Option (AList Unit)) (vs : List (Option (AList Unit))) (x : Bytes) :
    x ∈ interOf (v0 :: vs) ↔ Spec.BSet.interAll (den v0) (vs.map den) x = true := by
  simp only [Spec.BSet.interAll, Bool.and_eq_true, List.all_eq_true, List.mem_map, forall_exists_index, and_imp,
    forall_apply_eq_imp_iff₂]
  rw [all_den_iff x vs]
  cases v0 with
  | none => simp [interOf, den_none, Spec.BSet.empty]
  | some st0 =>
    simp only [interOf, List.all_cons, Option.isSome_some, Bool.true_and, fm_some, den_some]
    by_cases hall : vs.all Option.isSome = true
    · rw [if_pos hall, mem_sinter]
      simp [hall]
    · rw [if_neg hall]
      simp [hall]

theorem mem_unionOf (v0 : Option (AList Unit)) (vs : List (Option (AList Unit))) (x : Bytes) :
    x ∈ unionOf (v0 :: vs) ↔ Spec.BSet.unionAll (den v0) (vs.map den) x = true := by
  have key : x ∈ unionOf (v0 :: vs) ↔ ∃ o ∈ (v0 :: vs).filterMap id, DsSet.mem o x = true := by
    unfold unionOf
    cases (v0 :: vs).filterMap id with
    | nil => simp
    | cons st rest => simp only [mem_sunion, List.mem_cons, exists_eq_or_imp]
  rw [key, ← any_den_iff x (v0 :: vs)]
  simp only [Spec.BSet.unionAll, Bool.or_eq_true, List.any_eq_true, List.mem_map, List.mem_cons, exists_eq_or_imp]
  constructor
  · rintro (h | ⟨v, hv, h⟩)
    · exact Or.inl h
    · exact Or.inr ⟨den v, ⟨v, hv, rfl⟩, h⟩
  · rintro (h | ⟨_, ⟨v, hv, rfl⟩, h⟩)
    · exact Or.inl h
    · exact Or.inr ⟨v, hv, h⟩

theorem mem_diffOf (v0 : Option (AList Unit)) (vs : List (Option (AList Unit))) (x : Bytes) :
    x ∈ diffOf (v0 :: vs) ↔ Spec.BSet.diffAll (den v0) (vs.map den) x = true := by
  have hany : (∃ f ∈ vs.map den, f x = true) ↔ ∃ o ∈ vs.filterMap id, DsSet.mem o x = true := by
    rw [← any_den_iff x vs]
    constructor
    · rintro ⟨_, hf, h⟩
      obtain ⟨v, hv, rfl⟩ := List.mem_map.mp hf
      exact ⟨v, hv, h⟩
    · rintro ⟨v, hv, h⟩
      exact ⟨den v, List.mem_map.mpr ⟨v, hv, rfl⟩, h⟩
  cases v0 with
  | none => simp [diffOf, Spec.BSet.diffAll, den_none, Spec.BSet.empty]
  | some st0 =>
    simp only [diffOf, mem_sdiff, Spec.BSet.diffAll, den_some, Bool.and_eq_true, Bool.not_eq_true']
    constructor
    · rintro ⟨h1, h2⟩
      refine ⟨h1, ?_⟩
      cases hb : (List.map den vs).any (fun o => o x) with
      | false => rfl
      | true =>
        obtain ⟨o, ho, hx⟩ := hany.mp (List.any_eq_true.mp hb)
        rw [h2 o ho] at hx
        cases hx
    · rintro ⟨h1, h2⟩
      refine ⟨h1, ?_⟩
      intro o ho
      cases hm : DsSet.mem o x with
      | false => rfl
      | true =>
        have := List.any_eq_true.mpr (hany.mpr ⟨o, ho, hm⟩)
        rw [h2] at this
        cases this

theorem interOf_nodup (vs : List (Option (AList Unit))) (hs : ∀ st, some st ∈ vs → AList.Sorted st) : (interOf vs).Nodup := by
  unfold interOf
  split
  · cases hf : vs.filterMap id with
    | nil => exact List.nodup_nil
    | cons st rest =>
      apply sinter_nodup
      apply hs
      have : st ∈ vs.filterMap id := by rw [hf]; simp
      simpa using this
  · exact List.nodup_nil

theorem unionOf_nodup (vs : List (Option (AList Unit))) (hs : ∀ st, some st ∈ vs → AList.Sorted st) : (unionOf vs).Nodup := by
  unfold unionOf
  cases hf : vs.filterMap id with
  | nil => exact List.nodup_nil
  | cons st rest =>
    apply sunion_nodup
    apply hs
    have : st ∈ vs.filterMap id := by rw [hf]; simp
    simpa using this

theorem diffOf_nodup (vs : List (Option (AList Unit))) (hs : ∀ st, some st ∈ vs → AList.Sorted st) : (diffOf vs).Nodup := by
  match vs with
  | [] => exact List.nodup_nil
  | none :: _ => exact List.nodup_nil
  | some st :: rest => exact sdiff_nodup st (hs st (by simp)) _


/-! ### soundness of the relational random selectors -/

theorem spopValid_iff (st : AList Unit) (count : Int) (choice : List Bytes) :
    spopValid st count choice = true ↔
      Spec.AdmissibleDistinct (DsSet.mem st) st.length (if count = 0 then 1 else count.toNat) choice := by
  unfold spopValid Spec.AdmissibleDistinct
  simp only [Bool.and_eq_true, List.all_eq_true, distinct_iff_nodup, decide_eq_true_eq]
  have hw : (if (if count = 0 then 1 else count) ≤ 0 then 0 else min (if count = 0 then 1 else count).toNat st.length)
      = min (if count = 0 then 1 else count.toNat) st.length := by
    by_cases h0 : count = 0
    · simp [h0]
    · simp only [h0, if_false]
      by_cases h1 : count ≤ 0
      · have : count.toNat = 0 := by omega
        simp [h1, this]
      · simp [h1]
  rw [hw]
  exact and_assoc

theorem srandValid_nonneg_iff (st : AList Unit) (count : Int) (hc : 0 ≤ count) (choice : List Bytes) :
    srandValid st count choice = true ↔ Spec.AdmissibleDistinct (DsSet.mem st) st.length count.toNat choice := by
  unfold srandValid Spec.AdmissibleDistinct
  by_cases h0 : count = 0
  · subst h0
    simp only [if_true, Int.toNat_zero, Nat.zero_min, List.isEmpty_iff]
    constructor
    · rintro rfl; simp
    · rintro ⟨_, _, h⟩; exact List.length_eq_zero_iff.mp h
  · have hpos : count > 0 := by omega
    simp only [h0, if_false, hpos, if_true, Bool.and_eq_true, List.all_eq_true, distinct_iff_nodup, decide_eq_true_eq]
    exact and_assoc

theorem srandValid_neg_iff (st : AList Unit) (count : Int) (hc : count < 0) (choice : List Bytes) :
    srandValid st count choice = true ↔ Spec.AdmissibleRepeated (DsSet.mem st) (-count).toNat choice := by
  unfold srandValid Spec.AdmissibleRepeated
  have h0 : ¬ count = 0 := by omega
  have h1 : ¬ count > 0 := by omega
  simp only [h0, if_false, h1, Bool.and_eq_true, List.all_eq_true, decide_eq_true_eq]

/-- a repetition-free list of members enumerates "the listed members that are present" -/
theorem choice_enumerates (st : AList Unit) (choice : List Bytes) (hn : choice.Nodup)
    (hall : ∀ x ∈ choice, DsSet.mem st x = true) : Spec.Enumerates choice (Spec.listed choice (DsSet.mem st)) := by
  refine ⟨hn, fun x => ?_⟩
  simp only [Spec.listed, Bool.and_eq_true, decide_eq_true_eq]
  exact ⟨fun h => ⟨h, hall x h⟩, fun h => h.1⟩

theorem spop_sound (s : MState) (now : Int) (key : Bytes) (count : Int) (choice : List Bytes) (st : AList Unit)
    (h : Hot s key (.set st) now) (hi : IndexSorted s) (hst : AList.Sorted st) :
    (Spec.AdmissibleDistinct (DsSet.mem st) st.length (if count = 0 then 1 else count.toNat) choice →
      (spop s now key count choice).2 = .slist choice ∧
      (choice.length = st.length → getMeta (spop s now key count choice).1 key = none) ∧
      (choice.length ≠ st.length → ∃ st', Hot (spop s now key count choice).1 key (.set st') now ∧
          AList.Sorted st' ∧ DsSet.mem st' = Spec.BSet.removeAll (DsSet.mem st) choice ∧
          st'.length + choice.length = st.length)) ∧
    (¬ Spec.AdmissibleDistinct (DsSet.mem st) st.length (if count = 0 then 1 else count.toNat) choice →
      (spop s now key count choice).2 = invalidChoice ∧ Hot (spop s now key count choice).1 key (.set st) now) := by
  have hw := hot_after_writeKey s now key none _ h
  have hsw := sorted_after_writeKey_hot s now key none _ h hi
  constructor
  · intro hadm
    have hv := (spopValid_iff st count choice).mpr hadm
    obtain ⟨hall, hn, _⟩ := hadm
    rw [spop_hot_valid s now key count choice st h hv]
    obtain ⟨q1, q2, q3, q4⟩ := srem_spec st hst choice
    have hcnt := q3 choice (choice_enumerates st choice hn hall)
    simp only [DsSet.scard] at q4
    obtain ⟨t1, t2⟩ := tail_state (writeKey s now key none).1 key (.set st) (.set (DsSet.srem st choice).1) now
      { typ := 24, key := key, args := choice.map Bytes.toHex } (DsSet.scard (DsSet.srem st choice).1 = 0) hw.2 hsw
    refine ⟨rfl, ?_, ?_⟩
    · intro hlen
      apply t1
      simp only [DsSet.scard]
      omega
    · intro hlen
      refine ⟨(DsSet.srem st choice).1, ?_, q1, q2, by omega⟩
      apply t2
      simp only [DsSet.scard]
      omega
  · intro hadm
    have hv : spopValid st count choice = false := by
      cases hb : spopValid st count choice with
      | false => rfl
      | true => exact absurd ((spopValid_iff st count choice).mp hb) hadm
    rw [spop_hot_invalid s now key count choice st h hv]
    exact ⟨rfl, hw.2⟩

theorem srandmember_sound (s : MState) (now : Int) (key : Bytes) (count : Int) (choice : List Bytes) (st : AList Unit)
    (h : Hot s key (.set st) now) :
    Hot (srandmember s now key count choice).1 key (.set st) now ∧
    (0 ≤ count →
      (Spec.AdmissibleDistinct (DsSet.mem st) st.length count.toNat choice → (srandmember s now key count choice).2 = .slist choice) ∧
      (¬ Spec.AdmissibleDistinct (DsSet.mem st) st.length count.toNat choice → (srandmember s now key count choice).2 = invalidChoice)) ∧
    (count < 0 → st ≠ [] →
      (Spec.AdmissibleRepeated (DsSet.mem st) (-count).toNat choice → (srandmember s now key count choice).2 = .slist choice) ∧
      (¬ Spec.AdmissibleRepeated (DsSet.mem st) (-count).toNat choice → (srandmember s now key count choice).2 = invalidChoice)) ∧
    (count < 0 → st = [] → (srandmember s now key count choice).2 = .panic) := by
  rw [srandmember_hot s now key count choice st h]
  refine ⟨(hot_after_readKey s now key _ h).2, ?_, ?_, ?_⟩
  · intro hc
    have hnp : ¬ (count < 0 ∧ st.isEmpty = true) := by omega
    simp only [hnp, if_false]
    constructor
    · intro hadm
      rw [if_pos ((srandValid_nonneg_iff st count hc choice).mpr hadm)]
    · intro hadm
      rw [if_neg (fun hb => hadm ((srandValid_nonneg_iff st count hc choice).mp hb))]
  · intro hc hne
    have hnp : ¬ (count < 0 ∧ st.isEmpty = true) := by
      rintro ⟨_, he⟩
      exact hne (List.isEmpty_iff.mp he)
    simp only [hnp, if_false]
    constructor
    · intro hadm
      rw [if_pos ((srandValid_neg_iff st count hc choice).mpr hadm)]
    · intro hadm
      rw [if_neg (fun hb => hadm ((srandValid_neg_iff st count hc choice).mp hb))]
  · intro hc he
    subst he
    simp [hc]


/-! ### SREM / HDEL through the API: reply, and the key ceases to exist when emptied -/

theorem contains_ne_nil {V : Type} (m : AList V) (x : Bytes) (h : AList.contains m x = true) : m.length ≠ 0 := by
  intro h0
  have : m = [] := List.length_eq_zero_iff.mp h0
  subst this
  simp [AList.contains, AList.get?] at h

theorem srem_api (s : MState) (now : Int) (key : Bytes) (members : List Bytes) (st : AList Unit)
    (h : Hot s key (.set st) now) (hi : IndexSorted s) (hst : AList.Sorted st) :
    (srem s now key members).2 = .int (DsSet.srem st members).2 ∧
    ((∀ x, DsSet.mem st x = true → x ∈ members) → getMeta (srem s now key members).1 key = none) ∧
    ((∃ x, DsSet.mem st x = true ∧ x ∉ members) →
      Hot (srem s now key members).1 key (.set (DsSet.srem st members).1) now) := by
  have hw := hot_after_writeKey s now key none _ h
  have hsw := sorted_after_writeKey_hot s now key none _ h hi
  rw [srem_hot s now key members st h]
  obtain ⟨t1, t2⟩ := tail_state (writeKey s now key none).1 key (.set st) (.set (DsSet.srem st members).1) now
    { typ := 24, key := key, args := members.map Bytes.toHex } (DsSet.scard (DsSet.srem st members).1 = 0) hw.2 hsw
  refine ⟨rfl, ?_, ?_⟩
  · intro hall
    apply t1
    have : (DsSet.srem st members).1 = [] := by
      rw [srem_eq_fold]; exact delAll_nil st hst members hall
    simp [DsSet.scard, this]
  · rintro ⟨x, hx, hnot⟩
    apply t2
    obtain ⟨_, q2, _, _⟩ := srem_spec st hst members
    have hm : DsSet.mem (DsSet.srem st members).1 x = true := by
      rw [q2]; simp [Spec.BSet.removeAll, hx, hnot]
    have := contains_ne_nil _ x hm
    simp only [DsSet.scard]
    omega

theorem hdel_api (s : MState) (now : Int) (key : Bytes) (fields : List Bytes) (hh : AList Bytes)
    (h : Hot s key (.hash hh) now) (hi : IndexSorted s) (hst : AList.Sorted hh) :
    (hdel s now key fields).2 = .int (DsHash.hdel hh fields).2 ∧
    ((∀ x, DsHash.hexists hh x = true → x ∈ fields) → getMeta (hdel s now key fields).1 key = none) ∧
    ((∃ x, DsHash.hexists hh x = true ∧ x ∉ fields) →
      Hot (hdel s now key fields).1 key (.hash (DsHash.hdel hh fields).1) now) := by
  have hw := hot_after_writeKey s now key none _ h
  have hsw := sorted_after_writeKey_hot s now key none _ h hi
  rw [hdel_hot s now key fields hh h]
  obtain ⟨t1, t2⟩ := tail_state (writeKey s now key none).1 key (.hash hh) (.hash (DsHash.hdel hh fields).1) now
    { typ := 6, key := key, args := fields.map Bytes.toHex } (DsHash.hlen (DsHash.hdel hh fields).1 = 0) hw.2 hsw
  refine ⟨rfl, ?_, ?_⟩
  · intro hall
    apply t1
    have : (DsHash.hdel hh fields).1 = [] := by
      rw [hdel_eq_fold]; exact delAll_nil hh hst fields hall
    simp [DsHash.hlen, this]
  · rintro ⟨x, hx, hnot⟩
    apply t2
    obtain ⟨_, q2, _, _⟩ := hdel_spec hh hst fields
    have hm : AList.contains (DsHash.hdel hh fields).1 x = true := by
      have := congrFun q2 x
      simp only [DsHash.hget, Spec.Map.delAll, hnot, if_false] at this
      simp only [AList.contains, this]
      exact hx
    have := contains_ne_nil _ x hm
    simp only [DsHash.hlen]
    omega


/-! ### writes to a missing key -/

theorem writeKey_absent_none (s : MState) (now : Int) (k : Bytes) (h : Absent s k now) :
    (writeKey s now k none).2 = false ∧ Absent (writeKey s now k none).1 k now := by
  unfold writeKey
  cases hm : getMeta s k with
  | none => exact ⟨rfl, fun m hm' => by rw [hm] at hm'; cases hm'⟩
  | some m0 =>
    have h1 : ({ m0 with count := m0.count + 1 } : Meta).isOk = m0.isOk := rfl
    have h2 : ({ m0 with count := m0.count + 1 } : Meta).expired now = m0.expired now := rfl
    have hA : ∀ m, getMeta (putMeta (lockW s k) k { m0 with count := m0.count + 1 }) k = some m →
        m.isOk = false ∨ m.expired now = true := by
      intro m hm'
      rw [getMeta_putMeta_same] at hm'
      cases hm'
      exact h m0 hm
    simp only [h1, h2]
    rcases h m0 hm with hok | hexp
    · simp only [hok, Bool.false_eq_true, if_false]
      exact ⟨by first | rfl | trivial, hA⟩
    · cases hok : m0.isOk with
      | false => simp only [Bool.false_eq_true, if_false]; exact ⟨by first | rfl | trivial, hA⟩
      | true => simp only [hexp, if_true]; exact ⟨by first | rfl | trivial, hA⟩

theorem spop_absent (s : MState) (now : Int) (key : Bytes) (count : Int) (choice : List Bytes)
    (h : Absent s key now) : (spop s now key count choice).2 = .slist [] := by
  have hp : writeKey s now key none = ((writeKey s now key none).1, false) :=
    Prod.ext rfl (writeKey_absent_none s now key h).1
  unfold spop
  rw [hp]
  rfl

/-! ### SMOVE: the destination check made before the member leaves the source -/

/-- a write access without a constructor (`writeKey … none`) only locks / counts: it preserves the
    classification of every key -/
theorem pres_writeKey_none (s : MState) (now : Int) (k' : Bytes) : Pres s (writeKey s now k' none).1 now := by
  constructor
  · intro k h
    by_cases e : k = k'
    · subst e; exact (writeKey_absent_none s now k h).2
    · intro m hm
      rw [getMeta_writeKey_other s now k' none k e] at hm
      exact h m hm
  · intro k v h
    by_cases e : k = k'
    · subst e; exact (hot_after_writeKey s now k none v h).2
    · obtain ⟨m, hm, rest⟩ := h
      exact ⟨m, by rw [getMeta_writeKey_other s now k' none k e]; exact hm, rest⟩

/-- the destination of SMOVE is acceptable: it is missing, or it holds a set -/
def DstOk (s : MState) (dst : Bytes) (now : Int) : Prop :=
  Absent s dst now ∨ ∃ d, Hot s dst (.set d) now

/-- the destination of SMOVE exists and holds a value of another type -/
def DstWrong (s : MState) (dst : Bytes) (now : Int) : Prop :=
  ∃ v, Hot s dst v now ∧ ∀ d, v ≠ .set d

theorem dstOk_pres {s s' : MState} {now : Int} (p : Pres s s' now) {dst : Bytes} (h : DstOk s dst now) :
    DstOk s' dst now := by
  rcases h with ha | ⟨d, hd⟩
  · exact Or.inl (p.1 dst ha)
  · exact Or.inr ⟨d, p.2 dst _ hd⟩

theorem dstWrong_pres {s s' : MState} {now : Int} (p : Pres s s' now) {dst : Bytes} (h : DstWrong s dst now) :
    DstWrong s' dst now := by
  obtain ⟨v, hv, hne⟩ := h
  exact ⟨v, p.2 dst v hv, hne⟩

/-- the test `dok && asSet(dst) = nil` of `Api.smove` -/
theorem smove_check_ok (s : MState) (now : Int) (dst : Bytes) (h : DstOk s dst now) :
    ((writeKey s now dst none).2 && (asSet (writeKey s now dst none).1 dst).isNone) = false := by
  rcases h with ha | ⟨d, hd⟩
  · rw [(writeKey_absent_none s now dst ha).1]; rfl
  · rw [asSet_hot (hot_after_writeKey s now dst none _ hd).2]; simp

theorem smove_check_wrong (s : MState) (now : Int) (dst : Bytes) (h : DstWrong s dst now) :
    ((writeKey s now dst none).2 && (asSet (writeKey s now dst none).1 dst).isNone) = true := by
  obtain ⟨v, hv, hne⟩ := h
  obtain ⟨a, b⟩ := hot_after_writeKey s now dst none v hv
  rw [a]
  simp only [asSet, valOf_hot b]
  cases v with
  | set d => exact absurd rfl (hne d)
  | _ => rfl

end NodisVerif.Proofs.C03Api
