import NodisVerif.Proofs.C04Cursor
/-
  ZRANGEBYSCORE / ZREVRANGEBYSCORE: closed form of the model's offset/limit loop, and comparison
  with the reference.
-/
namespace NodisVerif.Proofs.C04
open AListLemmas ZSetLemmas DsZSet

/-- the `zRange` consumer keeps the item (it is not an excluded bound) -/
def keepB (min max : F64) (mode : Nat) (c : Item) : Bool :=
  !decide ((mode % 2 = 1 ∧ F64.eq c.1 min = true) ∨ (mode / 2 % 2 = 1 ∧ F64.eq c.1 max = true))

/-- inside the closed interval (the loop's continuation test) -/
def inC (min max : F64) (c : Item) : Bool := F64.le min c.1 && F64.ge max c.1

/-- LIMIT count: a positive `limit` stops the collection at `limit` items (of which `n` are already
    collected); zero is handled by the caller; negative = no limit -/
def lim (limit : Int) (n : Nat) (l : List Item) : List Item :=
  if limit > 0 then l.take (limit.toNat - n) else l

theorem inC_unfold (min max : F64) (c : Item) :
    (F64.le min c.1 && F64.le c.1 max) = inC min max c := rfl

/-- the loop in closed form: take the leading items inside the closed interval, drop the excluded
    bounds, then drop `offset`, then keep `limit` -/
theorem loopS_closed (min max : F64) (mode : Nat) (limit : Int) :
    ∀ (S : List Item) (offset : Int) (fuel : Nat) (acc : List Item), S.length < fuel →
      (limit > 0 → (acc.length : Int) < limit) →
      loopS min max mode limit S offset fuel acc
        = acc.reverse ++ lim limit acc.length
            (((S.takeWhile (inC min max)).filter (keepB min max mode)).drop offset.toNat) := by
  intro S
  induction S with
  | nil =>
    intro offset fuel acc _ _
    simp [loopS, lim]
  | cons c rest ih =>
    intro offset fuel acc hf hacc
    obtain ⟨f, rfl⟩ : ∃ f, fuel = f + 1 := ⟨fuel - 1, by omega⟩
    have hf' : rest.length < f := by simp only [List.length_cons] at hf; omega
    simp only [loopS, inC_unfold]
    by_cases hin : inC min max c = true
    · simp only [hin, Bool.not_true, Bool.false_eq_true, if_false, List.takeWhile_cons, if_true]
      by_cases hex : (mode % 2 = 1 ∧ F64.eq c.1 min = true) ∨ (mode / 2 % 2 = 1 ∧ F64.eq c.1 max = true)
      · have hk : keepB min max mode c = false := by simp only [keepB, hex, decide_true, Bool.not_true]
        rw [if_pos hex, ih offset f acc hf' hacc, List.filter_cons, hk]
        simp
      · have hk : keepB min max mode c = true := by simp only [keepB, hex, decide_false, Bool.not_false]
        rw [if_neg hex, List.filter_cons, hk, if_pos rfl]
        by_cases hoff : offset > 0
        · rw [if_pos hoff, ih (offset - 1) f acc hf' hacc]
          have : offset.toNat = (offset - 1).toNat + 1 := by omega
          rw [this, List.drop_succ_cons]
        · rw [if_neg hoff]
          have h0 : offset.toNat = 0 := by omega
          rw [h0, List.drop_zero]
          by_cases hstop : limit > 0 ∧ (((c :: acc).length : Nat) : Int) = limit
          · rw [if_pos hstop]
            have h1 : limit.toNat - acc.length = 1 := by
              have := hstop.2
              simp only [List.length_cons] at this
              omega
            simp [lim, hstop.1, h1]
          · rw [if_neg hstop, ih offset f (c :: acc) hf' (by
              intro hl
              have := hacc hl
              simp only [List.length_cons] at hstop ⊢
              omega)]
            rw [h0, List.drop_zero]
            unfold lim
            by_cases hl : limit > 0
            · have := hacc hl
              have h2 : limit.toNat - acc.length = (limit.toNat - (c :: acc).length) + 1 := by
                simp only [List.length_cons] at hstop ⊢
                omega
              simp only [hl, if_true, h2, List.take_succ_cons, List.reverse_cons, List.append_assoc,
                List.singleton_append]
            · simp only [hl, if_false, List.reverse_cons, List.append_assoc, List.singleton_append]
    · have hin' : inC min max c = false := by simpa using hin
      simp [hin', lim]

/-- a stream that starts inside the closed interval and leaves it once: `R` inside, then `B`
    whose items are all outside -/
theorem takeWhile_inC_stream (min max : F64) (R B : List Item)
    (hR : ∀ a ∈ R, inC min max a = true) (hB : ∀ b ∈ B, inC min max b = false) :
    (R ++ B).takeWhile (inC min max) = R := by
  induction R with
  | nil =>
    cases B with
    | nil => rfl
    | cons b B => simp [hB b (by simp)]
  | cons a R ih =>
    simp only [List.cons_append, List.takeWhile_cons, hR a (by simp), if_true]
    rw [ih (fun x hx => hR x (by simp [hx]))]

/-! ### IEEE comparisons on non-NaN values -/

theorem le_eq_not_gt (x a : F64) (hx : F64.isNaN x = false) (ha : F64.isNaN a = false) :
    F64.le x a = !F64.gt x a := by
  simp only [F64.le, F64.gt, F64.lt, hx, ha, Bool.not_false, Bool.true_and]
  rw [Bool.eq_iff_iff]
  simp only [decide_eq_true_eq, Bool.not_eq_true', decide_eq_false_iff_not]
  omega

theorem lt_eq_not_ge (x a : F64) (hx : F64.isNaN x = false) (ha : F64.isNaN a = false) :
    F64.lt x a = !F64.ge x a := by
  simp only [F64.le, F64.ge, F64.lt, hx, ha, Bool.not_false, Bool.true_and]
  rw [Bool.eq_iff_iff]
  simp only [decide_eq_true_eq, Bool.not_eq_true', decide_eq_false_iff_not]
  omega

theorem inC_eq (min max : F64) (hmin : F64.isNaN min = false) (a : Item) (ha : Good a) :
    inC min max a = (!F64.gt min a.1 && F64.ge max a.1) := by
  unfold inC
  rw [le_eq_not_gt min a.1 hmin ha]

theorem head_le (l : List Item) (hpw : l.Pairwise ILt) (hg : ∀ a ∈ l, Good a) (h : Item)
    (hh : l.head? = some h) : ∀ a ∈ l, F64.key h.1 ≤ F64.key a.1 := by
  cases l with
  | nil => simp at hh
  | cons x rest =>
    simp only [List.head?_cons, Option.some.injEq] at hh
    subst hh
    intro a ha
    rcases List.mem_cons.mp ha with rfl | ha'
    · exact Int.le_refl _
    · exact key_le_of_ilt x a (hg x (by simp)) (hg a ha) ((List.pairwise_cons.mp hpw).1 a ha')

theorem le_last (l : List Item) (hpw : l.Pairwise ILt) (hg : ∀ a ∈ l, Good a) (t : Item)
    (ht : l.getLast? = some t) : ∀ a ∈ l, F64.key a.1 ≤ F64.key t.1 := by
  obtain ⟨ys, rfl⟩ := List.getLast?_eq_some_iff.mp ht
  intro a ha
  rcases List.mem_append.mp ha with ha' | ha'
  · exact key_le_of_ilt a t (hg a ha) (hg t (by simp))
      ((List.pairwise_append.mp hpw).2.2 a ha' t (by simp))
  · simp only [List.mem_singleton] at ha'
    subst ha'
    exact Int.le_refl _

/-- a non-empty closed range makes `hasInRange` true -/
theorem hasInRange_of_mem (l : List Item) (hpw : l.Pairwise ILt) (hg : ∀ a ∈ l, Good a)
    (min max : F64) (hmin : F64.isNaN min = false) (hmax : F64.isNaN max = false)
    (r : Item) (hr : r ∈ l) (hin : inC min max r = true) : hasInRange l min max = true := by
  have hrn : F64.isNaN r.1 = false := hg r hr
  simp only [inC, F64.le, F64.ge, hmin, hmax, hrn, Bool.not_false, Bool.true_and, Bool.and_eq_true,
    decide_eq_true_eq] at hin
  unfold hasInRange
  have hne : l ≠ [] := List.ne_nil_of_mem hr
  obtain ⟨t, ht⟩ : ∃ t, l.getLast? = some t := by
    cases h : l.getLast? with
    | none => exact absurd (List.getLast?_eq_none_iff.mp h) hne
    | some t => exact ⟨t, rfl⟩
  obtain ⟨h, hh⟩ : ∃ h, l.head? = some h := by
    cases l with
    | nil => exact absurd rfl hne
    | cons x _ => exact ⟨x, rfl⟩
  have h1 := head_le l hpw hg h hh r hr
  have h2 := le_last l hpw hg t ht r hr
  have htn : F64.isNaN t.1 = false := hg t (List.mem_of_getLast? ht)
  have hhn : F64.isNaN h.1 = false := hg h (List.mem_of_head? hh)
  rw [ht, hh]
  simp only [F64.gt, F64.lt, hmin, hmax, htn, hhn, Bool.not_false, Bool.true_and,
    decide_eq_true_eq]
  have e1 : ¬ F64.key max < F64.key min := by omega
  have e2 : ¬ F64.key t.1 < F64.key min := by omega
  have e3 : ¬ F64.key max < F64.key h.1 := by omega
  simp [e1, e2, e3]

/-- monotonicity of the two walk predicates along a sorted chain -/
theorem gtMin_down (l : List Item) (hg : ∀ a ∈ l, Good a) (min : F64) (hmin : F64.isNaN min = false) :
    ∀ a ∈ l, ∀ b ∈ l, ILt a b → F64.gt min b.1 = true → F64.gt min a.1 = true := by
  intro a ha b hb hab
  have hk := key_le_of_ilt a b (hg a ha) (hg b hb) hab
  have han : F64.isNaN a.1 = false := hg a ha
  have hbn : F64.isNaN b.1 = false := hg b hb
  simp only [F64.gt, F64.lt, han, hbn, hmin, Bool.not_false, Bool.true_and, decide_eq_true_eq]
  omega

theorem geMax_down (l : List Item) (hg : ∀ a ∈ l, Good a) (max : F64) (hmax : F64.isNaN max = false) :
    ∀ a ∈ l, ∀ b ∈ l, ILt a b → F64.ge max b.1 = true → F64.ge max a.1 = true := by
  intro a ha b hb hab
  have hk := key_le_of_ilt a b (hg a ha) (hg b hb) hab
  have han : F64.isNaN a.1 = false := hg a ha
  have hbn : F64.isNaN b.1 = false := hg b hb
  simp only [F64.ge, F64.le, han, hbn, hmax, Bool.not_false, Bool.true_and, decide_eq_true_eq]
  omega

theorem filter_inC_eq (l : List Item) (hg : ∀ a ∈ l, Good a) (min max : F64)
    (hmin : F64.isNaN min = false) :
    l.filter (inC min max) = l.filter (fun a => !F64.gt min a.1 && F64.ge max a.1) := by
  apply List.filter_congr
  intro a ha
  exact inC_eq min max hmin a (hg a ha)

/-! ### where the score walk starts -/

/-- items above the closed range (met by an ascending walk after the range) -/
def aboveRange (l : List Item) (min max : F64) : List Item :=
  (l.dropWhile fun n => F64.gt min n.1).dropWhile fun n => F64.ge max n.1

/-- items below the closed range among those not above `max` (met by a descending walk) -/
def belowRange (l : List Item) (min max : F64) : List Item :=
  (l.takeWhile fun n => F64.ge max n.1).takeWhile fun n => F64.gt min n.1

theorem first_decomp (l : List Item) (hpw : l.Pairwise ILt) (hg : ∀ a ∈ l, Good a)
    (min max : F64) (hmin : F64.isNaN min = false) (hmax : F64.isNaN max = false) :
    (l.dropWhile fun n => F64.gt min n.1) = l.filter (inC min max) ++ aboveRange l min max ∧
    l.filter (inC min max) = (l.dropWhile fun n => F64.gt min n.1).takeWhile fun n => F64.ge max n.1 := by
  obtain ⟨_, hA2⟩ := filter_downclosed ILt (fun n => F64.gt min n.1) l hpw (gtMin_down l hg min hmin)
  have hsub : (l.dropWhile fun n => F64.gt min n.1).Sublist l := List.dropWhile_sublist _
  obtain ⟨hB1, _⟩ := filter_downclosed ILt (fun n => F64.ge max n.1) _ (hpw.sublist hsub)
    (fun a ha b hb => geMax_down l hg max hmax a (hsub.subset ha) b (hsub.subset hb))
  have hR : l.filter (inC min max)
      = (l.dropWhile fun n => F64.gt min n.1).takeWhile fun n => F64.ge max n.1 := by
    rw [filter_inC_eq l hg min max hmin, ← hB1, ← hA2, List.filter_filter]
    apply List.filter_congr
    intro a _
    exact Bool.and_comm _ _
  refine ⟨?_, hR⟩
  rw [hR]
  unfold aboveRange
  exact (List.takeWhile_append_dropWhile).symm

theorem last_decomp (l : List Item) (hpw : l.Pairwise ILt) (hg : ∀ a ∈ l, Good a)
    (min max : F64) (hmin : F64.isNaN min = false) (hmax : F64.isNaN max = false) :
    (l.takeWhile fun n => F64.ge max n.1) = belowRange l min max ++ l.filter (inC min max) ∧
    l.filter (inC min max) = (l.takeWhile fun n => F64.ge max n.1).dropWhile fun n => F64.gt min n.1 := by
  obtain ⟨hA1, _⟩ := filter_downclosed ILt (fun n => F64.ge max n.1) l hpw (geMax_down l hg max hmax)
  have hsub : (l.takeWhile fun n => F64.ge max n.1).Sublist l := List.takeWhile_sublist _
  obtain ⟨_, hB2⟩ := filter_downclosed ILt (fun n => F64.gt min n.1) _ (hpw.sublist hsub)
    (fun a ha b hb => gtMin_down l hg min hmin a (hsub.subset ha) b (hsub.subset hb))
  have hR : l.filter (inC min max)
      = (l.takeWhile fun n => F64.ge max n.1).dropWhile fun n => F64.gt min n.1 := by
    rw [filter_inC_eq l hg min max hmin, ← hB2, ← hA1, List.filter_filter]
  refine ⟨?_, hR⟩
  rw [hR]
  unfold belowRange
  exact (List.takeWhile_append_dropWhile).symm

theorem cursorAt_cur (sl : List Item) (k : Nat) (c : Cursor) (desc : Bool)
    (h : cursorAt sl k = some c) : (ostream desc (cursorAt sl k)).head? = some c.cur := by
  rw [h]; rfl

/-- the ascending walk starts at the first item of the closed range and then sees the rest of the
    chain; it does not start at all when the range is empty -/
theorem first_stream (l : List Item) (hpw : l.Pairwise ILt) (hg : ∀ a ∈ l, Good a)
    (min max : F64) (hmin : F64.isNaN min = false) (hmax : F64.isNaN max = false) :
    ostream false (getFirstInRange l min max) =
      if l.filter (inC min max) = [] then [] else l.filter (inC min max) ++ aboveRange l min max := by
  obtain ⟨hD, hR⟩ := first_decomp l hpw hg min max hmin hmax
  have hstream := ostream_cursorAt_asc l (l.takeWhile fun n => F64.gt min n.1).length
  rw [drop_takeWhile_length] at hstream
  unfold getFirstInRange
  by_cases hRe : l.filter (inC min max) = []
  · rw [if_pos hRe]
    by_cases hhas : hasInRange l min max = true
    · simp only [hhas, Bool.not_true, Bool.false_eq_true, if_false]
      cases hc : cursorAt l (l.takeWhile fun n => F64.gt min n.1).length with
      | none => rfl
      | some c =>
        simp only
        have hcur := cursorAt_cur l _ c false hc
        rw [hstream] at hcur
        -- the head of the rest is not ≤ max because the range is empty
        have hnot : F64.ge max c.cur.1 = false := by
          rw [hR] at hRe
          cases hd : (l.dropWhile fun n => F64.gt min n.1) with
          | nil => rw [hd] at hcur; simp at hcur
          | cons x rest =>
            rw [hd] at hcur hRe
            simp only [List.head?_cons, Option.some.injEq] at hcur
            subst hcur
            simp only [List.takeWhile_cons] at hRe
            cases hx : F64.ge max c.cur.1 with
            | false => rfl
            | true => rw [hx] at hRe; simp at hRe
        have hcg : F64.isNaN c.cur.1 = false := by
          have : c.cur ∈ l.dropWhile fun n => F64.gt min n.1 := List.mem_of_head? hcur
          exact hg c.cur ((List.dropWhile_sublist _).subset this)
        rw [lt_eq_not_ge max c.cur.1 hmax hcg, hnot]
        rfl
    · simp [hhas, ostream]
  · rw [if_neg hRe]
    obtain ⟨r, hr⟩ := List.exists_mem_of_ne_nil _ hRe
    have hhas := hasInRange_of_mem l hpw hg min max hmin hmax r (List.mem_filter.mp hr).1
      (List.mem_filter.mp hr).2
    simp only [hhas, Bool.not_true, Bool.false_eq_true, if_false]
    cases hc : cursorAt l (l.takeWhile fun n => F64.gt min n.1).length with
    | none =>
      rw [hc] at hstream
      rw [hD] at hstream
      have : l.filter (inC min max) ++ aboveRange l min max = [] := hstream.symm
      simp only [List.append_eq_nil_iff] at this
      exact absurd this.1 hRe
    | some c =>
      simp only
      have hcur := cursorAt_cur l _ c false hc
      rw [hstream, hD] at hcur
      have hcR : c.cur ∈ l.filter (inC min max) := by
        cases hf : l.filter (inC min max) with
        | nil => exact absurd hf hRe
        | cons x rest =>
          rw [hf] at hcur
          simp only [List.cons_append, List.head?_cons, Option.some.injEq] at hcur
          subst hcur
          simp
      have hcg : Good c.cur := hg c.cur (List.mem_filter.mp hcR).1
      have hcin := (List.mem_filter.mp hcR).2
      rw [inC_eq min max hmin c.cur hcg] at hcin
      simp only [Bool.and_eq_true] at hcin
      rw [lt_eq_not_ge max c.cur.1 hmax hcg, hcin.2]
      simp only [Bool.not_true, Bool.false_eq_true, if_false]
      rw [← hc, hstream, hD]

theorem take_takeWhile_length {α : Type} (p : α → Bool) : ∀ (l : List α),
    l.take (l.takeWhile p).length = l.takeWhile p := by
  intro l
  induction l with
  | nil => rfl
  | cons a l ih =>
    by_cases h : p a = true
    · simp [h, ih]
    · simp [h]

theorem all_of_dropWhile_nil {α : Type} (p : α → Bool) : ∀ (l : List α),
    l.dropWhile p = [] → ∀ x ∈ l, p x = true := by
  intro l
  induction l with
  | nil => intro _ x hx; simp at hx
  | cons a l ih =>
    intro h x hx
    by_cases ha : p a = true
    · simp only [List.dropWhile_cons, ha, if_true] at h
      rcases List.mem_cons.mp hx with rfl | hx
      · exact ha
      · exact ih h x hx
    · simp [ha] at h

/-- the descending walk starts at the last item of the closed range and then sees the chain
    backwards; it does not start at all when the range is empty -/
theorem last_stream (l : List Item) (hpw : l.Pairwise ILt) (hg : ∀ a ∈ l, Good a)
    (min max : F64) (hmin : F64.isNaN min = false) (hmax : F64.isNaN max = false) :
    ostream true (getLastInRange l min max) =
      if l.filter (inC min max) = [] then []
      else (l.filter (inC min max)).reverse ++ (belowRange l min max).reverse := by
  obtain ⟨hT, hR⟩ := last_decomp l hpw hg min max hmin hmax
  have hk_le : (l.takeWhile fun n => F64.ge max n.1).length ≤ l.length :=
    (List.takeWhile_sublist _).length_le
  have hstream : 0 < (l.takeWhile fun n => F64.ge max n.1).length →
      ostream true (cursorAt l ((l.takeWhile fun n => F64.ge max n.1).length - 1))
        = (l.takeWhile fun n => F64.ge max n.1).reverse := by
    intro hpos
    rw [ostream_cursorAt_desc, if_pos (by omega)]
    have : (l.takeWhile fun n => F64.ge max n.1).length - 1 + 1
        = (l.takeWhile fun n => F64.ge max n.1).length := by omega
    rw [this, take_takeWhile_length]
  unfold getLastInRange
  by_cases hRe : l.filter (inC min max) = []
  · rw [if_pos hRe]
    by_cases hhas : hasInRange l min max = true
    · simp only [hhas, Bool.not_true, Bool.false_eq_true, if_false]
      by_cases hk : (l.takeWhile fun n => F64.ge max n.1).length = 0
      · simp [hk, ostream]
      · rw [if_neg hk]
        cases hc : cursorAt l ((l.takeWhile fun n => F64.ge max n.1).length - 1) with
        | none => rfl
        | some c =>
          simp only
          have hcur := cursorAt_cur l _ c true hc
          rw [hstream (by omega)] at hcur
          have hcT : c.cur ∈ l.takeWhile fun n => F64.ge max n.1 := by
            have := List.mem_of_head? hcur
            exact List.mem_reverse.mp this
          have hall := all_of_dropWhile_nil _ _ (by rw [← hR]; exact hRe)
          have : F64.gt min c.cur.1 = true := hall c.cur hcT
          rw [this]
          rfl
    · simp [hhas, ostream]
  · rw [if_neg hRe]
    obtain ⟨r, hr⟩ := List.exists_mem_of_ne_nil _ hRe
    have hhas := hasInRange_of_mem l hpw hg min max hmin hmax r (List.mem_filter.mp hr).1
      (List.mem_filter.mp hr).2
    simp only [hhas, Bool.not_true, Bool.false_eq_true, if_false]
    have hk : ¬ (l.takeWhile fun n => F64.ge max n.1).length = 0 := by
      intro h0
      have : (l.takeWhile fun n => F64.ge max n.1) = [] := List.eq_nil_of_length_eq_zero h0
      rw [this] at hT
      have := hT.symm
      simp only [List.append_eq_nil_iff] at this
      exact hRe this.2
    rw [if_neg hk]
    have hs : ostream true (cursorAt l ((l.takeWhile fun n => F64.ge max n.1).length - 1))
        = (l.filter (inC min max)).reverse ++ (belowRange l min max).reverse := by
      rw [hstream (by omega), hT, List.reverse_append]
    cases hc : cursorAt l ((l.takeWhile fun n => F64.ge max n.1).length - 1) with
    | none =>
      rw [hc] at hs
      have : (l.filter (inC min max)).reverse ++ (belowRange l min max).reverse = [] := hs.symm
      simp only [List.append_eq_nil_iff, List.reverse_eq_nil_iff] at this
      exact absurd this.1 hRe
    | some c =>
      simp only
      have hcur := cursorAt_cur l _ c true hc
      rw [hs] at hcur
      have hcR : c.cur ∈ l.filter (inC min max) := by
        cases hf : (l.filter (inC min max)).reverse with
        | nil => exact absurd (List.reverse_eq_nil_iff.mp hf) hRe
        | cons x rest =>
          rw [hf] at hcur
          simp only [List.cons_append, List.head?_cons, Option.some.injEq] at hcur
          subst hcur
          have : c.cur ∈ (l.filter (inC min max)).reverse := by rw [hf]; simp
          exact List.mem_reverse.mp this
      have hcg : Good c.cur := hg c.cur (List.mem_filter.mp hcR).1
      have hcin := (List.mem_filter.mp hcR).2
      rw [inC_eq min max hmin c.cur hcg] at hcin
      simp only [Bool.and_eq_true, Bool.not_eq_true'] at hcin
      rw [hcin.1]
      simp only [Bool.false_eq_true, if_false]
      rw [← hc, hs]

end NodisVerif.Proofs.C04
