import NodisVerif.Proofs.C11Main
/-
  C12: what a pass does to the dirty bit — a rejected write keeps the record hot and modified,
  a pass without rejected writes leaves nothing modified.
-/
namespace NodisVerif.Proofs.C11
open NodisVerif.Store NodisVerif.Codec NodisVerif.Spec.Persist
open NodisVerif.Proofs.AListLemmas NodisVerif.Proofs.AListLemmas2 NodisVerif.Proofs.C11AList

/-- one gc step whose write the backend rejects: the record is put back exactly as it was and the
    backend is not touched; only the fault counter moves -/
theorem gcStep_failed_eq {s : MState} {now : Int} {k : Bytes} {m : Meta} (hok : m.isOk = true)
    (hexp0 : m.expired now = false) (hmod : m.isModified = true) (hf : 0 < s.failSet) :
    gcStep now s (k, m) = putMeta { s with failSet := s.failSet - 1 } k m := by
  unfold gcStep
  simp only [hok, Bool.not_true, Bool.or_false, hexp0, Bool.false_eq_true, if_false, hmod, if_true,
    persist_fail s k m hf, Bool.not_false]

/-- the same for a flush step -/
theorem flushStep_failed_eq {s : MState} {now : Int} {k : Bytes} {m : Meta} (hok : m.isOk = true)
    (hexp0 : m.expired now = false) (hmod : m.isModified = true) (hf : 0 < s.failSet) :
    flushStep now s (k, m) = putMeta { s with failSet := s.failSet - 1 } k m := by
  unfold flushStep
  simp only [hok, Bool.not_true, Bool.or_false, hexp0, Bool.false_eq_true, if_false, hmod,
    persist_fail s k m hf]

/-- one gc step, the backend rejects the write: the record stays as it is (hot, modified, same value,
    same `stored`), the backend is unchanged -/
theorem gcStep_failed {s : MState} {t now : Int} (h : StoreInvX s none t) {k : Bytes} {m : Meta}
    (hm : AList.get? s.index k = some m) (hexp0 : m.expired now = false) (hmod : m.isModified = true)
    (hf : 0 < s.failSet) :
    ∃ m1, AList.get? (gcStep now s (k, m)).index k = some m1 ∧ m1.isModified = true ∧
      m1.value = m.value ∧ m1.exp = m.exp ∧ (gcStep now s (k, m)).failSet = s.failSet - 1 ∧
      m1 = m ∧ (gcStep now s (k, m)).disk = s.disk := by
  rw [gcStep_failed_eq (h.recs k m hm).ok hexp0 hmod hf]
  exact ⟨m, by simp [putMeta, get?_set], hmod, rfl, rfl, rfl, rfl, rfl⟩

/-- one gc step without a rejected write leaves the record (if it is still there) unmodified -/
theorem gcStep_clean {s : MState} {t now : Int} (h : StoreInvX s none t) {k : Bytes} {m : Meta}
    (hm : AList.get? s.index k = some m) (hf : s.failSet = 0) :
    ∀ m', AList.get? (gcStep now s (k, m)).index k = some m' → m'.isModified = false := by
  have r := h.recs k m hm
  unfold gcStep
  simp only [r.ok, Bool.not_true, Bool.or_false]
  by_cases hexp : m.expired now = true
  · rw [if_pos hexp]
    intro m' hm'
    have u1 := (unpersist_spec h hm).1
    simp only [u1, get?_erase _ h.idxSorted, if_true] at hm'
    cases hm'
  · rw [if_neg hexp]
    by_cases hmod : m.isModified = true
    · rw [if_pos hmod]
      have hsome : m.value.isSome = true := by
        simp only [Meta.isModified, Bool.and_eq_true] at hmod; exact hmod.1
      obtain ⟨v, hv⟩ := Option.isSome_iff_exists.mp hsome
      have ps := persist_spec h hm hv
      generalize persist s k m = pr at ps
      obtain ⟨s1, m1, ok⟩ := pr
      cases ok with
      | false => have := (ps.fail rfl).1; omega
      | true =>
        simp only [Bool.not_true, Bool.false_eq_true, if_false]
        intro m' hm'
        simp only [putMeta, get?_set, if_true, Option.some.injEq] at hm'
        subst hm'
        exact (resetRec_facts m1).2.1
    · rw [if_neg hmod]
      simp only [Bool.not_true, Bool.false_eq_true, if_false]
      intro m' hm'
      simp only [putMeta, get?_set, if_true, Option.some.injEq] at hm'
      subst hm'
      exact (resetRec_facts m).2.1

/-- a pass during which the backend rejects nothing leaves no record marked modified: every live
    record is cold or clean, i.e. (invariant) in the backend with its current value and deadline -/
theorem gc_clean {s : MState} {t now : Int} (h : StoreInvX s none t) (ht : t ≤ now) (hnil : NilFree s)
    (hc : s.closed = false) (hf : s.failSet = 0) :
    ∀ k m', AList.get? (gc s now).index k = some m' → m'.isModified = false := by
  rw [gc_eq]
  simp only [hc, Bool.false_eq_true, if_false]
  obtain ⟨nd, hget, hnone⟩ := index_pass_facts h.idxSorted
  have key := fold_pass (gcStep now)
    (fun cur => StoreInvX cur none t ∧ cur.pebble = s.pebble ∧ cur.failSet = 0)
    (fun cur k => ∀ m', AList.get? cur.index k = some m' → m'.isModified = false)
    (fun _ m => NilOK s.pebble m)
    (by
      intro cur k m ⟨p1, p2, p3⟩ he hm
      have sp := gcStep_spec (now := now) p1 ht hm (fun _ => by rw [p2]; exact he)
      refine ⟨⟨sp.inv, by rw [sp.peb, p2], sp.fs0 p3⟩, gcStep_clean p1 hm p3, sp.idx, ?_⟩
      intro k' hk hq m' hm'
      rw [sp.idx k' hk] at hm'
      exact hq m' hm')
    s.index nd (fun p hp => hnil p.1 p.2 (hget p hp)) s ⟨h, rfl, hf⟩ hget
  obtain ⟨_, q, i, _⟩ := key
  intro k m' hm'
  rw [(syncShared_fields _).1] at hm'
  by_cases hk : k ∈ s.index.map (·.1)
  · obtain ⟨p, hp, rfl⟩ := List.mem_map.mp hk
    exact q p hp m' hm'
  · rw [i k hk, hnone k hk] at hm'; cases hm'

/-- a step uses up at most one injected failure -/
theorem gcStep_failSet {s : MState} {t now : Int} (h : StoreInvX s none t) {k : Bytes} {m : Meta}
    (hm : AList.get? s.index k = some m) : s.failSet ≤ (gcStep now s (k, m)).failSet + 1 := by
  have r := h.recs k m hm
  unfold gcStep
  simp only [r.ok, Bool.not_true, Bool.or_false]
  by_cases hexp : m.expired now = true
  · rw [if_pos hexp]
    have u4 := (unpersist_spec h hm).2.2.2.1
    show s.failSet ≤ (unpersist s k m).failSet + 1
    omega
  · rw [if_neg hexp]
    by_cases hmod : m.isModified = true
    · rw [if_pos hmod]
      have hsome : m.value.isSome = true := by
        simp only [Meta.isModified, Bool.and_eq_true] at hmod; exact hmod.1
      obtain ⟨v, hv⟩ := Option.isSome_iff_exists.mp hsome
      have ps := persist_spec h hm hv
      generalize persist s k m = pr at ps
      obtain ⟨s1, m1, ok⟩ := pr
      cases ok with
      | false =>
        have := (ps.fail rfl).2.1
        simp only at this
        simp only [Bool.not_false, if_true, putMeta]
        omega
      | true =>
        have := (ps.ok rfl).1
        simp only [Bool.not_true, Bool.false_eq_true, if_false, putMeta]
        omega
    · rw [if_neg hmod]
      simp only [Bool.not_true, Bool.false_eq_true, if_false, putMeta]
      omega

/-- records whose names are not in the list are not touched by the steps of a pass -/
theorem fold_gc_untouched {t now : Int} (ht : t ≤ now) (l : List (Bytes × Meta))
    (nd : (l.map (·.1)).Nodup) (cur : MState) (h : StoreInvX cur none t)
    (hnil : ∀ p ∈ l, NilOK cur.pebble p.2) (hget : ∀ p ∈ l, AList.get? cur.index p.1 = some p.2) :
    ∀ k', k' ∉ l.map (·.1) → AList.get? (l.foldl (gcStep now) cur).index k' = AList.get? cur.index k' := by
  have key := fold_pass (gcStep now)
    (fun c => StoreInvX c none t ∧ c.pebble = cur.pebble) (fun _ _ => True) (fun _ m => NilOK cur.pebble m)
    (by
      intro c k m ⟨p1, p2⟩ he hm
      have sp := gcStep_spec (now := now) p1 ht hm (fun _ => by rw [p2]; exact he)
      exact ⟨⟨sp.inv, by rw [sp.peb, p2]⟩, trivial, sp.idx, fun _ _ _ => trivial⟩)
    l nd hnil cur ⟨h, rfl⟩ hget
  exact key.2.2.1

/-- if the backend rejects every write of a pass, every live modified record is still hot, still
    marked modified and still holds its value afterwards -/
theorem fold_all_fail {t now : Int} (ht : t ≤ now) : ∀ (l : List (Bytes × Meta)), (l.map (·.1)).Nodup →
    ∀ cur, StoreInvX cur none t → (∀ p ∈ l, NilOK cur.pebble p.2) →
    (∀ p ∈ l, AList.get? cur.index p.1 = some p.2) → l.length ≤ cur.failSet →
    ∀ p ∈ l, p.2.expired now = false → p.2.isModified = true →
      ∃ m1, AList.get? (l.foldl (gcStep now) cur).index p.1 = some m1 ∧ m1.isModified = true ∧
        m1.value = p.2.value ∧ m1.exp = p.2.exp := by
  intro l
  induction l with
  | nil => intro _ _ _ _ _ _ p hp; cases hp
  | cons a rest ih =>
    intro nd cur h hnil hget hlen p hp hal hmod
    obtain ⟨k, m⟩ := a
    simp only [List.map_cons, List.nodup_cons] at nd
    obtain ⟨hk, nd'⟩ := nd
    have hm := hget (k, m) (by simp)
    have sp := gcStep_spec (now := now) h ht hm (fun _ => hnil (k, m) (by simp))
    have hfs := gcStep_failSet (now := now) h hm
    simp only [List.length_cons] at hlen
    have hget' : ∀ q ∈ rest, AList.get? (gcStep now cur (k, m)).index q.1 = some q.2 := by
      intro q hq
      have hne : q.1 ≠ k := by
        intro e; apply hk; rw [← e]; exact List.mem_map.mpr ⟨q, hq, rfl⟩
      rw [sp.idx q.1 hne]; exact hget q (by simp [hq])
    have hnil' : ∀ q ∈ rest, NilOK (gcStep now cur (k, m)).pebble q.2 := by
      intro q hq; rw [sp.peb]; exact hnil q (by simp [hq])
    simp only [List.foldl_cons]
    rcases List.mem_cons.mp hp with rfl | hp
    · obtain ⟨m1, g1, g2, g3, g4, _⟩ := gcStep_failed (now := now) h hm hal hmod (by omega)
      refine ⟨m1, ?_, g2, g3, g4⟩
      rw [fold_gc_untouched ht rest nd' _ sp.inv hnil' hget' k hk]
      exact g1
    · exact ih nd' _ sp.inv hnil' hget' (by omega) p hp hal hmod

theorem gc_all_fail {s : MState} {t now : Int} (h : StoreInvX s none t) (ht : t ≤ now) (hnil : NilFree s)
    (hc : s.closed = false) (hf : s.index.length ≤ s.failSet) {k : Bytes} {m : Meta}
    (hm : AList.get? s.index k = some m) (hal : m.expired now = false) (hmod : m.isModified = true) :
    ∃ m1, AList.get? (gc s now).index k = some m1 ∧ m1.isModified = true ∧ m1.value = m.value ∧
      m1.exp = m.exp := by
  rw [gc_eq]
  simp only [hc, Bool.false_eq_true, if_false]
  obtain ⟨nd, hget, _⟩ := index_pass_facts h.idxSorted
  rw [(syncShared_fields _).1]
  exact fold_all_fail ht s.index nd s h (fun p hp => hnil p.1 p.2 (hget p hp)) hget hf (k, m)
    (mem_of_get? _ _ _ hm) hal hmod

/-- backend entries of a name that is not in the list are not touched by the steps of a pass -/
theorem fold_gc_disk_untouched {t now : Int} (ht : t ≤ now) (l : List (Bytes × Meta))
    (nd : (l.map (·.1)).Nodup) (cur : MState) (h : StoreInvX cur none t)
    (hnil : ∀ p ∈ l, NilOK cur.pebble p.2) (hget : ∀ p ∈ l, AList.get? cur.index p.1 = some p.2)
    (k : Bytes) (hk : k ∉ l.map (·.1)) :
    ∀ dk e, e.name = k →
      (AList.get? (l.foldl (gcStep now) cur).disk dk = some e ↔ AList.get? cur.disk dk = some e) := by
  have key := fold_pass (gcStep now)
    (fun c => StoreInvX c none t ∧ c.pebble = cur.pebble ∧
      ∀ dk e, e.name = k → (AList.get? c.disk dk = some e ↔ AList.get? cur.disk dk = some e))
    (fun _ _ => True) (fun k' m => NilOK cur.pebble m ∧ k' ≠ k)
    (by
      intro c k' m ⟨p1, p2, p3⟩ he hm
      have sp := gcStep_spec (now := now) p1 ht hm (fun _ => by rw [p2]; exact he.1)
      refine ⟨⟨sp.inv, by rw [sp.peb, p2], fun dk e hn => ?_⟩, trivial, sp.idx, fun _ _ _ => trivial⟩
      rw [sp.disk dk e (by rw [hn]; exact fun c => he.2 c.symm)]
      exact p3 dk e hn)
    l nd (fun p hp => ⟨hnil p hp, fun c => hk (by rw [← c]; exact List.mem_map.mpr ⟨p, hp, rfl⟩)⟩)
    cur ⟨h, rfl, fun _ _ _ => Iff.rfl⟩ hget
  exact key.1.2.2

/-- if the backend rejects every write of a pass, the record of every live modified key is exactly
    what it was (in particular `stored`), and the backend entries of that name are untouched -/
theorem fold_all_fail_keeps {t now : Int} (ht : t ≤ now) : ∀ (l : List (Bytes × Meta)), (l.map (·.1)).Nodup →
    ∀ cur, StoreInvX cur none t → (∀ p ∈ l, NilOK cur.pebble p.2) →
    (∀ p ∈ l, AList.get? cur.index p.1 = some p.2) → l.length ≤ cur.failSet →
    ∀ p ∈ l, p.2.expired now = false → p.2.isModified = true →
      AList.get? (l.foldl (gcStep now) cur).index p.1 = some p.2 ∧
      ∀ dk e, e.name = p.1 →
        (AList.get? (l.foldl (gcStep now) cur).disk dk = some e ↔ AList.get? cur.disk dk = some e) := by
  intro l
  induction l with
  | nil => intro _ _ _ _ _ _ p hp; cases hp
  | cons a rest ih =>
    intro nd cur h hnil hget hlen p hp hal hmod
    obtain ⟨k, m⟩ := a
    simp only [List.map_cons, List.nodup_cons] at nd
    obtain ⟨hk, nd'⟩ := nd
    have hm := hget (k, m) (by simp)
    have sp := gcStep_spec (now := now) h ht hm (fun _ => hnil (k, m) (by simp))
    have hfs := gcStep_failSet (now := now) h hm
    simp only [List.length_cons] at hlen
    have hget' : ∀ q ∈ rest, AList.get? (gcStep now cur (k, m)).index q.1 = some q.2 := by
      intro q hq
      have hne : q.1 ≠ k := by
        intro e; apply hk; rw [← e]; exact List.mem_map.mpr ⟨q, hq, rfl⟩
      rw [sp.idx q.1 hne]; exact hget q (by simp [hq])
    have hnil' : ∀ q ∈ rest, NilOK (gcStep now cur (k, m)).pebble q.2 := by
      intro q hq; rw [sp.peb]; exact hnil q (by simp [hq])
    simp only [List.foldl_cons]
    rcases List.mem_cons.mp hp with rfl | hp
    · obtain ⟨m1, g1, _, _, _, _, g6, g7⟩ := gcStep_failed (now := now) h hm hal hmod (by omega)
      subst g6
      refine ⟨?_, fun dk e hn => ?_⟩
      · rw [fold_gc_untouched ht rest nd' _ sp.inv hnil' hget' k hk]
        exact g1
      · rw [fold_gc_disk_untouched ht rest nd' _ sp.inv hnil' hget' k hk dk e hn, g7]
    · obtain ⟨i1, i2⟩ := ih nd' _ sp.inv hnil' hget' (by omega) p hp hal hmod
      refine ⟨i1, fun dk e hn => ?_⟩
      have hne : p.1 ≠ k := by
        intro e; apply hk; rw [← e]; exact List.mem_map.mpr ⟨p, hp, rfl⟩
      rw [i2 dk e hn]
      exact sp.disk dk e (by rw [hn]; exact hne)

/-- a pass during which the backend rejects every write: the record of a live modified key is
    exactly what it was, and every backend entry of that name is still in place (on Pebble: the very
    same entry; in memory: the same shared object) -/
theorem gc_all_fail_keeps {s : MState} {t now : Int} (h : StoreInvX s none t) (ht : t ≤ now) (hnil : NilFree s)
    (hc : s.closed = false) (hf : s.index.length ≤ s.failSet) {k : Bytes} {m : Meta}
    (hm : AList.get? s.index k = some m) (hal : m.expired now = false) (hmod : m.isModified = true) :
    AList.get? (gc s now).index k = some m ∧
    ∀ dk e0, AList.get? s.disk dk = some e0 → e0.name = k →
      ∃ e, AList.get? (gc s now).disk dk = some e ∧ e.name = e0.name ∧ e.exp = e0.exp ∧ e.oid = e0.oid ∧
        (s.pebble = true → e = e0) := by
  have hpb : (s.index.foldl (gcStep now) s).pebble = s.pebble := by
    have := (gc_spec h ht hnil).peb
    rw [gc_eq] at this
    simp only [hc, Bool.false_eq_true, if_false] at this
    rw [(syncShared_fields _).2.1] at this
    exact this
  rw [gc_eq]
  simp only [hc, Bool.false_eq_true, if_false]
  obtain ⟨nd, hget, _⟩ := index_pass_facts h.idxSorted
  obtain ⟨a, b⟩ := fold_all_fail_keeps ht s.index nd s h (fun p hp => hnil p.1 p.2 (hget p hp)) hget hf (k, m)
    (mem_of_get? _ _ _ hm) hal hmod
  refine ⟨by rw [(syncShared_fields _).1]; exact a, fun dk e0 he0 hn => ?_⟩
  have he1 := (b dk e0 hn).mpr he0
  cases hp : s.pebble with
  | true =>
    rw [syncShared_peb (by rw [hpb]; exact hp)]
    exact ⟨e0, he1, rfl, rfl, rfl, fun _ => rfl⟩
  | false =>
    refine ⟨ssEnt _ e0, by rw [get?_syncShared_disk (by rw [hpb]; exact hp), he1]; rfl, by simp, by simp, by simp,
      fun c => by cases c⟩

end NodisVerif.Proofs.C11
