import NodisVerif.Spec.Scan
/-
  C19 helpers, part 1: generic facts about the client loop `Spec.Scan.iterateFrom`.
-/
namespace NodisVerif.Proofs.C19Iter
open NodisVerif.Spec.Scan

variable {α σ τ : Type}

theorem iterateFrom_zero (step : σ → Int → σ × Int × List α) (s : σ) (c : Int) :
    iterateFrom step 0 s c = ([], false) := rfl

theorem iterateFrom_succ (step : σ → Int → σ × Int × List α) (fuel : Nat) (s : σ) (c : Int) :
    iterateFrom step (fuel + 1) s c =
      if (step s c).2.1 = 0 then ([(step s c).2.2], true)
      else ((step s c).2.2 :: (iterateFrom step fuel (step s c).1 (step s c).2.1).1,
            (iterateFrom step fuel (step s c).1 (step s c).2.1).2) := rfl

/-- a call that answers 0 ends the iteration -/
theorem iterateFrom_last (step : σ → Int → σ × Int × List α) (f : Nat) (s : σ) (c : Int) (s' : σ) (b : List α)
    (h : step s c = (s', 0, b)) : iterateFrom step (f + 1) s c = ([b], true) := by
  rw [iterateFrom_succ, h]; simp

/-- a call that answers a non-zero cursor is followed by the call with that cursor -/
theorem iterateFrom_next (step : σ → Int → σ × Int × List α) (f : Nat) (s : σ) (c : Int) (s' : σ) (n : Int) (b : List α)
    (h : step s c = (s', n, b)) (hn : n ≠ 0) :
    iterateFrom step (f + 1) s c = (b :: (iterateFrom step f s' n).1, (iterateFrom step f s' n).2) := by
  rw [iterateFrom_succ, h]; simp [hn]

/-- what the first call reports has been seen -/
theorem mem_visited_first (step : σ → Int → σ × Int × List α) (f : Nat) (s : σ) (c : Int) (x : α)
    (h : x ∈ (step s c).2.2) : x ∈ visited (iterateFrom step (f + 1) s c) := by
  rw [iterateFrom_succ]
  unfold visited
  split <;> simp [h]

/-- more patience does not change a terminated iteration -/
theorem iterateFrom_mono (step : σ → Int → σ × Int × List α) :
    ∀ (fuel : Nat) (s : σ) (c : Int), (iterateFrom step fuel s c).2 = true →
      ∀ fuel', fuel ≤ fuel' → iterateFrom step fuel' s c = iterateFrom step fuel s c := by
  intro fuel
  induction fuel with
  | zero => intro s c h; simp [iterateFrom_zero] at h
  | succ f ih =>
    intro s c h fuel' hle
    obtain ⟨g, rfl⟩ : ∃ g, fuel' = g + 1 := ⟨fuel' - 1, by omega⟩
    rw [iterateFrom_succ] at h ⊢
    rw [iterateFrom_succ step f]
    by_cases h0 : (step s c).2.1 = 0
    · simp [h0]
    · simp only [h0, if_false] at h ⊢
      rw [ih _ _ h g (by omega)]

/-- the number of calls never exceeds the fuel -/
theorem calls_le_fuel (step : σ → Int → σ × Int × List α) :
    ∀ (fuel : Nat) (s : σ) (c : Int), (iterateFrom step fuel s c).1.length ≤ fuel := by
  intro fuel
  induction fuel with
  | zero => intro s c; simp [iterateFrom_zero]
  | succ f ih =>
    intro s c
    rw [iterateFrom_succ]
    by_cases h0 : (step s c).2.1 = 0
    · simp [h0]
    · simp only [h0, if_false, List.length_cons]
      have := ih (step s c).1 (step s c).2.1
      omega

/-- a server whose replies depend on its state only through a `view` that its own calls do not
    change behaves, for a whole iteration, like the stateless server `g (view s)` -/
theorem iterateFrom_view (step : σ → Int → σ × Int × List α) (view : σ → τ) (g : τ → Int → Int × List α)
    (hview : ∀ s c, view (step s c).1 = view s)
    (hout : ∀ s c, (step s c).2 = g (view s) c) :
    ∀ (fuel : Nat) (s : σ) (c : Int),
      iterateFrom step fuel s c = iterateFrom (fun (_ : Unit) c => ((), g (view s) c)) fuel () c := by
  intro fuel
  induction fuel with
  | zero => intro s c; rfl
  | succ f ih =>
    intro s c
    rw [iterateFrom_succ, iterateFrom_succ]
    simp only [hout]
    by_cases h0 : (g (view s) c).1 = 0
    · simp [h0]
    · simp only [h0, if_false]
      rw [ih, hview]

/-- the same with an invariant of the server state -/
theorem iterateFrom_view_inv (step : σ → Int → σ × Int × List α) (view : σ → τ) (g : τ → Int → Int × List α)
    (Inv : σ → Prop) (hinv : ∀ s c, Inv s → Inv (step s c).1)
    (hview : ∀ s c, Inv s → view (step s c).1 = view s)
    (hout : ∀ s c, (step s c).2 = g (view s) c) :
    ∀ (fuel : Nat) (s : σ) (c : Int), Inv s →
      iterateFrom step fuel s c = iterateFrom (fun (_ : Unit) c => ((), g (view s) c)) fuel () c := by
  intro fuel
  induction fuel with
  | zero => intro s c _; rfl
  | succ f ih =>
    intro s c hs
    rw [iterateFrom_succ, iterateFrom_succ]
    simp only [hout]
    by_cases h0 : (g (view s) c).1 = 0
    · simp [h0]
    · simp only [h0, if_false]
      rw [ih _ _ (hinv s c hs), hview s c hs]

/-- two servers that step in lock-step (related states stay related and give equal replies)
    produce the same iteration -/
theorem iterateFrom_rel {σ₁ σ₂ : Type} (step₁ : σ₁ → Int → σ₁ × Int × List α) (step₂ : σ₂ → Int → σ₂ × Int × List α)
    (R : σ₁ → σ₂ → Prop)
    (hstep : ∀ s t c, R s t → R (step₁ s c).1 (step₂ t c).1 ∧ (step₁ s c).2 = (step₂ t c).2) :
    ∀ (fuel : Nat) (s : σ₁) (t : σ₂) (c : Int), R s t →
      iterateFrom step₁ fuel s c = iterateFrom step₂ fuel t c := by
  intro fuel
  induction fuel with
  | zero => intro s t c _; rfl
  | succ f ih =>
    intro s t c hR
    obtain ⟨hR', ho⟩ := hstep s t c hR
    rw [iterateFrom_succ, iterateFrom_succ, ho]
    by_cases h0 : (step₂ t c).2.1 = 0
    · simp [h0]
    · simp only [h0, if_false]
      rw [ih _ _ _ hR']

/-- every batch of an iteration is a batch of some call -/
theorem mem_visited (step : σ → Int → σ × Int × List α) (P : α → Prop) (Inv : σ → Prop)
    (hinv : ∀ s c, Inv s → Inv (step s c).1)
    (hP : ∀ s c, Inv s → ∀ x ∈ (step s c).2.2, P x) :
    ∀ (fuel : Nat) (s : σ) (c : Int), Inv s → ∀ x ∈ visited (iterateFrom step fuel s c), P x := by
  intro fuel
  induction fuel with
  | zero => intro s c _ x hx; simp [visited, iterateFrom_zero] at hx
  | succ f ih =>
    intro s c hs x hx
    rw [iterateFrom_succ] at hx
    by_cases h0 : (step s c).2.1 = 0
    · simp only [h0, if_true, visited, List.flatten_cons, List.flatten_nil, List.append_nil] at hx
      exact hP s c hs x hx
    · simp only [h0, if_false, visited, List.flatten_cons, List.mem_append] at hx
      rcases hx with hx | hx
      · exact hP s c hs x hx
      · exact ih _ _ (hinv s c hs) x hx

end NodisVerif.Proofs.C19Iter
