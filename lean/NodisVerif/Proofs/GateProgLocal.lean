import NodisVerif.Model.GateProg
/-
  The local invariant of the program model of the EXEC gate: for every pc, which side of execMu the goroutine holds,
  whether that has been reported, whether a transaction is open, and whether the connection is in EXEC's commit phase.
  `ok_step`: every transition of a thread preserves it.
-/
namespace NodisVerif.GateProg
open NodisVerif.Gate (G T GMode Ev)

def gateIs (l : Loc) (h : Option GMode) (r : Bool) : Bool := l.held == h && l.rep == r

def isBpop : Cmd → Bool
  | .bpop _ => true
  | _ => false

/-- the gate of a client command outside a blocking pop's look: EXEC exclusive, BLPOP / BRPOP none, everything else shared -/
def cmdGate (l : Loc) : Bool :=
  match l.cmd with
  | .exec => gateIs l (some .x) true
  | .bpop _ => gateIs l none false
  | _ => gateIs l (some .s) true

/-- inside the handler of a client command, no transaction open, not in EXEC's commit phase -/
def frame (l : Loc) (commit : Bool) : Bool := !l.emb && l.tx.isNone && !commit && cmdGate l

/-- kinds of body pcs: 0 = b0, bret-like (no look gate), 1 = inside a transaction or between pops (under look's gate),
    2 = look's gate taken / released but not reported, 3 = look without its gate (p0, p5), 4 = unwatchAll as a body -/
def bodyOk (l : Loc) (commit : Bool) (kind : Nat) : Bool :=
  match l.ctx with
  | .embedded => l.emb && !commit &&
      (if l.inLook then
        (if l.neg then gateIs l none false && (kind == 0 || kind == 1 || kind == 3)
         else match kind with
          | 0 => gateIs l none false
          | 1 => gateIs l (some .s) true
          | 2 => gateIs l (some .s) false
          | 3 => gateIs l none false
          | _ => false)
       else gateIs l none false && (kind == 0 || kind == 1))
  | .execLoop => !l.emb && l.cmd == .exec && gateIs l (some .x) true && commit && (!l.inLook || l.neg) && kind != 2
      && (l.inLook || kind == 0 || kind == 1 || kind == 4) && (kind != 4 || !l.inLook)
  | .direct => !l.emb && !commit && l.cmd != .exec && (l.inLook == isBpop l.cmd) &&
      (if l.inLook then !l.neg &&
        (match kind with
          | 0 => gateIs l none false
          | 1 => gateIs l (some .s) true
          | 2 => gateIs l (some .s) false
          | 3 => gateIs l none false
          | _ => false)
       else gateIs l (some .s) true && (kind == 0 || kind == 1 || kind == 4))

def ok (l : Loc) (commit : Bool) : Bool :=
  match l.pc with
  | .idle => gateIs l none false && l.tx.isNone && !commit
  | .sw => gateIs l none false && l.tx.isNone && !commit && !l.emb
  | .xIn => gateIs l (some .x) false && l.tx.isNone && !commit && !l.emb && l.cmd == .exec
  | .sIn => gateIs l (some .s) false && l.tx.isNone && !commit && !l.emb && l.cmd != .exec && !isBpop l.cmd
  | .bServe => gateIs l none false && l.tx.isNone && !commit && !l.emb && isBpop l.cmd
  | .call => frame l commit
  | .ec => frame l commit && l.cmd != .exec
  | .b0 => bodyOk l commit 0 && l.tx.isNone && !l.inLook
  | .b1 => bodyOk l commit 1 && l.tx.isNone
  | .b2 | .g1 | .g2 | .g3 | .b3 => bodyOk l commit 1 && l.tx.isSome
  | .bret => bodyOk l commit 0 && l.tx.isNone
  | .p0 | .p5 => bodyOk l commit 3 && l.tx.isNone && l.inLook
  | .p1 | .p4 => bodyOk l commit 2 && l.tx.isNone && l.inLook
  | .p2 => bodyOk l commit 1 && l.tx.isNone && l.inLook
  | .p3 => bodyOk l commit 1 && l.tx.isNone && l.inLook && !l.neg
  | .w1 | .w2 | .w3 => frame l commit
  | .u1 | .u2 | .u3 =>
    match l.after with
    | .bodyEnd => bodyOk l commit 4 && l.tx.isNone && !l.inLook
    | _ => frame l commit
  | .e1 | .e3 | .e4 => frame l commit && l.cmd == .exec
  | .e5 | .e6 => !l.emb && l.cmd == .exec && gateIs l (some .x) true && l.tx.isNone && commit
  | .ec1 | .edef => !l.emb && l.cmd == .exec && gateIs l (some .x) true && l.tx.isNone
  | .ec2 => !l.emb && l.cmd == .exec && gateIs l (some .x) true && l.tx.isSome
  | .dOut => l.held.isSome && l.rep && l.tx.isNone && !commit && !l.emb
  | .dUnlock => l.held.isSome && !l.rep && l.tx.isNone && !commit && !l.emb
  | .dRec | .flush => gateIs l none false && l.tx.isNone && !commit && !l.emb

end NodisVerif.GateProg

namespace NodisVerif.GateProg

theorem assoc_put_same {β} (l : List (Nat × β)) (a : Nat) (b : β) : assoc (put l a b) a = some b := by
  simp [assoc, put]

theorem assoc_put_other {β} (l : List (Nat × β)) (a a' : Nat) (b : β) (h : a' ≠ a) :
    assoc (put l a b) a' = assoc l a' := by
  have h' : (a == a') = false := by simpa using fun e => h e.symm
  simp only [assoc, put, List.find?_cons, h', List.find?_filter]
  congr 2
  funext x
  by_cases hx : x.1 = a'
  · simp [hx, h]
  · simp [hx]

@[simp] theorem conn_setConn_same (s : Shared) (t : Tid) (c : ConnSt) : (s.setConn t c).conn t = c := by
  simp [Shared.conn, Shared.setConn, assoc_put_same]

theorem conn_setConn_other (s : Shared) (t t' : Tid) (c : ConnSt) (h : t' ≠ t) : (s.setConn t c).conn t' = s.conn t' := by
  simp [Shared.conn, Shared.setConn, assoc_put_other _ _ _ _ h]

@[simp] theorem conn_serve (s : Shared) (t t' : Tid) : (s.serve t).conn t' = s.conn t' := by
  unfold Shared.serve; split <;> rfl

/-- marking watch flags changes nothing but `watch` -/
def sameButWatch (a b : ConnSt) : Prop :=
  a.prep = b.prep ∧ a.commit = b.commit ∧ a.err = b.err ∧ a.queue = b.queue ∧ a.werr = b.werr

theorem markAll_conn (conns : List (Tid × ConnSt)) (k : Key) (cl : List Tid) (t : Tid) :
    sameButWatch ((assoc (markAll conns k cl) t).getD {}) ((assoc conns t).getD {}) := by
  induction cl generalizing conns with
  | nil => simp [markAll, sameButWatch]
  | cons c cs ih =>
    simp only [markAll]
    have := ih (put conns c { (assoc conns c).getD {} with watch := kput ((assoc conns c).getD {}).watch k true })
    by_cases h : t = c
    · subst h
      rw [assoc_put_same] at this
      simpa [sameButWatch] using this
    · rw [assoc_put_other _ _ _ _ h] at this
      exact this

end NodisVerif.GateProg
