import NodisVerif.Proofs.C16ParseBase
/-
  C16, reader side, part 2: the reader's fuel (nesting bound) is monotone; one-token parse lemmas.
-/
namespace NodisVerif.Proofs.C16Parse
open NodisVerif NodisVerif.Resp NodisVerif.Spec.RespReply

/-! ### `seqN` -/

theorem seqN_mono {α σ : Type} (p q : σ → Option (α × σ)) (h : ∀ s r, p s = some r → q s = some r) :
    ∀ k s r, seqN p k s = some r → seqN q k s = some r := by
  intro k
  induction k with
  | zero => intro s r hr; simpa [seqN] using hr
  | succ k ih =>
    intro s r hr
    simp only [seqN] at hr ⊢
    cases hp : p s with
    | none => simp [hp] at hr
    | some vs =>
      obtain ⟨v, s'⟩ := vs
      simp only [hp] at hr
      simp only [h s _ hp]
      cases hk : seqN p k s' with
      | none => simp [hk] at hr
      | some ws =>
        obtain ⟨ws, s''⟩ := ws
        simp only [hk] at hr
        simp only [ih s' _ hk]
        exact hr

/-- reading `j + k` values = reading `j`, then `k` from what is left -/
theorem seqN_add {α σ : Type} (p : σ → Option (α × σ)) (j k : Nat) (s s' s'' : σ) (vs ws : List α)
    (h1 : seqN p j s = some (vs, s')) (h2 : seqN p k s' = some (ws, s'')) :
    seqN p (j + k) s = some (vs ++ ws, s'') := by
  induction j generalizing s vs with
  | zero =>
    simp only [seqN, Option.some.injEq, Prod.mk.injEq] at h1
    obtain ⟨rfl, rfl⟩ := h1
    simpa using h2
  | succ j ih =>
    rw [show j + 1 + k = (j + k) + 1 by omega]
    simp only [seqN] at h1 ⊢
    cases hp : p s with
    | none => simp [hp] at h1
    | some a =>
      obtain ⟨v, t⟩ := a
      simp only [hp] at h1
      cases hj : seqN p j t with
      | none => simp [hj] at h1
      | some b =>
        obtain ⟨us, t'⟩ := b
        simp only [hj, Option.some.injEq, Prod.mk.injEq] at h1
        obtain ⟨rfl, rfl⟩ := h1
        simp only [ih t us hj, List.cons_append]

/-! ### fuel monotonicity -/

/-- the reader's step with the recursive call abstracted -/
def body (p : Bytes → Option (Value × Bytes)) (t : UInt8) (bs : Bytes) : Option (Value × Bytes) :=
  match splitLine bs with
  | none => none
  | some (line, rest) =>
    if t = 43 then
      if cleanLine line then some (.simple line, rest) else none
    else if t = 45 then
      if cleanLine line then some (.error line, rest) else none
    else if t = 58 then
      match parseDec line with
      | none => none
      | some n => some (.int n, rest)
    else if t = 36 then
      match parseDec line with
      | none => none
      | some n =>
        if n = -1 then some (.nullBulk, rest)
        else if n < 0 then none
        else match takeBulk n.toNat rest with
          | none => none
          | some (b, rest') => some (.bulk b, rest')
    else if t = 42 then
      match parseDec line with
      | none => none
      | some n =>
        if n = -1 then some (.nullArray, rest)
        else if n < 0 then none
        else match seqN p n.toNat rest with
          | none => none
          | some (xs, rest') => some (.array xs, rest')
    else none

theorem parseFuel_succ_cons (f : Nat) (t : UInt8) (bs : Bytes) :
    parseFuel (f + 1) (t :: bs) = body (parseFuel f) t bs := by
  rw [parseFuel]; rfl

theorem body_mono (p q : Bytes → Option (Value × Bytes)) (h : ∀ s r, p s = some r → q s = some r)
    (t : UInt8) (bs : Bytes) (r : Value × Bytes) (hr : body p t bs = some r) : body q t bs = some r := by
  by_cases ht : t = 42
  · subst ht
    unfold body at hr ⊢
    cases hs : splitLine bs with
    | none => simp [hs] at hr
    | some lr =>
      obtain ⟨line, rest⟩ := lr
      simp only [hs] at hr ⊢
      have e1 : ¬ (42 : UInt8) = 43 := by decide
      have e2 : ¬ (42 : UInt8) = 45 := by decide
      have e3 : ¬ (42 : UInt8) = 58 := by decide
      have e4 : ¬ (42 : UInt8) = 36 := by decide
      simp only [e1, e2, e3, e4, if_false, if_true] at hr ⊢
      cases hd : parseDec line with
      | none => simp [hd] at hr
      | some n =>
        simp only [hd] at hr ⊢
        by_cases hn1 : n = -1
        · simpa [hn1] using hr
        · by_cases hn0 : n < 0
          · simp [hn1, hn0] at hr
          · simp only [hn1, hn0, if_false] at hr ⊢
            cases hq : seqN p n.toNat rest with
            | none => simp [hq] at hr
            | some a =>
              rw [seqN_mono p q h _ _ _ hq]
              rw [hq] at hr
              exact hr
  · have : body q t bs = body p t bs := by
      unfold body
      simp only [ht, if_false]
    rw [this]; exact hr

theorem parseFuel_succ (f : Nat) : ∀ bs r, parseFuel f bs = some r → parseFuel (f + 1) bs = some r := by
  induction f with
  | zero => intro bs r h; simp [parseFuel] at h
  | succ f ih =>
    intro bs r h
    cases bs with
    | nil => simp [parseFuel] at h
    | cons t bs =>
      rw [parseFuel_succ_cons] at h ⊢
      exact body_mono _ _ ih t bs r h

theorem parseFuel_le (f g : Nat) (hfg : f ≤ g) (bs : Bytes) (r : Value × Bytes)
    (h : parseFuel f bs = some r) : parseFuel g bs = some r := by
  induction hfg with
  | refl => exact h
  | step _ ih => exact parseFuel_succ _ _ _ ih

/-! ### one header token -/

theorem body_simple (p) (s rest : Bytes) (h : cleanLine s = true) :
    body p 43 (s ++ 13 :: 10 :: rest) = some (.simple s, rest) := by
  have h13 := ((cleanLine_iff s).1 h).1
  simp [body, splitLine_append _ _ h13, h]

theorem body_error (p) (s rest : Bytes) (h : cleanLine s = true) :
    body p 45 (s ++ 13 :: 10 :: rest) = some (.error s, rest) := by
  have h13 := ((cleanLine_iff s).1 h).1
  simp [body, splitLine_append _ _ h13, h]

theorem body_int (p) (n : Int) (rest : Bytes) :
    body p 58 (formatInt n ++ 13 :: 10 :: rest) = some (.int n, rest) := by
  simp [body, splitLine_append _ _ (formatInt_no_cr n), parseDec_formatInt]

theorem body_bulk (p) (b rest : Bytes) :
    body p 36 (formatInt (b.length : Int) ++ 13 :: 10 :: (b ++ 13 :: 10 :: rest)) = some (.bulk b, rest) := by
  have h1 : ¬ ((b.length : Int) = -1) := by omega
  have h2 : ¬ ((b.length : Int) < 0) := by omega
  simp [body, splitLine_append _ _ (formatInt_no_cr _), parseDec_formatInt, h1, h2, takeBulk_append]

theorem body_nullBulk (p) (rest : Bytes) :
    body p 36 (45 :: 49 :: 13 :: 10 :: rest) = some (.nullBulk, rest) := by
  have := splitLine_append (formatInt (-1)) rest (formatInt_no_cr _)
  rw [formatInt_neg_one] at this
  have hd := parseDec_formatInt (-1)
  rw [formatInt_neg_one] at hd
  simp only [List.cons_append, List.nil_append] at this
  simp [body, this, hd]

theorem body_nullArray (p) (rest : Bytes) :
    body p 42 (45 :: 49 :: 13 :: 10 :: rest) = some (.nullArray, rest) := by
  have := splitLine_append (formatInt (-1)) rest (formatInt_no_cr _)
  rw [formatInt_neg_one] at this
  have hd := parseDec_formatInt (-1)
  rw [formatInt_neg_one] at hd
  simp only [List.cons_append, List.nil_append] at this
  simp [body, this, hd]

theorem body_array (p) (n : Int) (hn : 0 ≤ n) (rest : Bytes) :
    body p 42 (formatInt n ++ 13 :: 10 :: rest) =
      match seqN p n.toNat rest with
      | none => none
      | some (xs, rest') => some (.array xs, rest') := by
  have h1 : ¬ (n = -1) := by omega
  have h2 : ¬ (n < 0) := by omega
  simp [body, splitLine_append _ _ (formatInt_no_cr _), parseDec_formatInt, h1, h2]

end NodisVerif.Proofs.C16Parse
