import NodisVerif.Proofs.C09Own
/-
  C09 — schedule-level lemmas: invariants carried along `run`.
-/
namespace NodisVerif.Proofs.C08Step
open Resp Server
open NodisVerif.Proofs.AListLemmas2

/-- `P s m` holds for every command `m` of the schedule, `s` being the server state that serves it -/
def AllSteps (H : Table) (P : Server → Cmd → Prop) : Server → List Cmd → Prop
  | _, [] => True
  | sv, m :: rest => P sv m ∧ AllSteps H P (step H sv m).1 rest

/-- `P s m` holds for some command `m` of the schedule, `s` being the server state that serves it -/
def SomeStep (H : Table) (P : Server → Cmd → Prop) : Server → List Cmd → Prop
  | _, [] => False
  | sv, m :: rest => P sv m ∨ SomeStep H P (step H sv m).1 rest

theorem AllSteps.of_forall (H : Table) {P : Server → Cmd → Prop} : ∀ (ms : List Cmd) (sv : Server),
    (∀ m ∈ ms, ∀ s, P s m) → AllSteps H P sv ms := by
  intro ms; induction ms with
  | nil => intro _ _; trivial
  | cons m rest ih => intro sv h; exact ⟨h m (by simp) sv, ih _ (fun m' hm' => h m' (List.mem_cons_of_mem _ hm'))⟩

theorem AllSteps.imp (H : Table) {P Q : Server → Cmd → Prop} (hpq : ∀ s m, P s m → Q s m) :
    ∀ (ms : List Cmd) (sv : Server), AllSteps H P sv ms → AllSteps H Q sv ms := by
  intro ms; induction ms with
  | nil => intro _ _; trivial
  | cons m rest ih => intro sv h; exact ⟨hpq _ _ h.1, ih _ h.2⟩

/-- the decomposition view: the schedule splits as `m1 ++ m :: m2` with `P` at `m` -/
theorem SomeStep.of_split (H : Table) {P : Server → Cmd → Prop} : ∀ (m1 : List Cmd) (m : Cmd) (m2 : List Cmd) (sv : Server),
    P (run H sv m1).1 m → SomeStep H P sv (m1 ++ m :: m2) := by
  intro m1; induction m1 with
  | nil => intro m m2 sv h; exact Or.inl h
  | cons a rest ih => intro m m2 sv h; exact Or.inr (ih m m2 _ h)

theorem SomeStep.split (H : Table) {P : Server → Cmd → Prop} : ∀ (ms : List Cmd) (sv : Server),
    SomeStep H P sv ms → ∃ m1 m m2, ms = m1 ++ m :: m2 ∧ P (run H sv m1).1 m := by
  intro ms; induction ms with
  | nil => intro _ h; exact h.elim
  | cons a rest ih =>
    intro sv h
    rcases h with h | h
    · exact ⟨[], a, rest, rfl, h⟩
    · obtain ⟨m1, m, m2, e, hp⟩ := ih _ h
      exact ⟨a :: m1, m, m2, by rw [e]; rfl, hp⟩

/-- connection `i` does not end its watches at this step -/
def notClearedBy (i : String) (s : Server) (m : Cmd) : Prop := ¬ (m.id = i ∧ clearsWatch s m)

/-- a true flag stays true as long as the connection does not end its watches -/
theorem run_flag_sticky (H : Table) (i : String) (x : Bytes) : ∀ (ms : List Cmd) (sv : Server), RegWF sv →
    AList.get? (sv.conn i).watch x = some true → AllSteps H (notClearedBy i) sv ms →
    AList.get? ((run H sv ms).1.conn i).watch x = some true := by
  intro ms; induction ms with
  | nil => intro sv _ h _; exact h
  | cons m rest ih =>
    intro sv hwf h ha
    exact ih _ (hwf.step H m) ((step_keeps H hwf m i ha.1).mono x h) ha.2

/-- a registration stays as long as the connection does not end its watches -/
theorem run_registered_sticky (H : Table) (i : String) (x : Bytes) : ∀ (ms : List Cmd) (sv : Server), RegWF sv →
    registered sv i x → AllSteps H (notClearedBy i) sv ms → registered (run H sv ms).1 i x := by
  intro ms; induction ms with
  | nil => intro sv _ h _; exact h
  | cons m rest ih =>
    intro sv hwf h ha
    exact ih _ (hwf.step H m) ((step_keeps H hwf m i ha.1).reg x h) ha.2

/-- registered for x, and some step of the schedule touches x: the flag is true at the end -/
theorem run_touch_flags (H : Table) (i : String) (x : Bytes) : ∀ (ms : List Cmd) (sv : Server), RegWF sv →
    registered sv i x → AllSteps H (notClearedBy i) sv ms → SomeStep H (fun s m => stepTouches H s m x) sv ms →
    AList.get? ((run H sv ms).1.conn i).watch x = some true := by
  intro ms; induction ms with
  | nil => intro sv _ _ _ h; exact h.elim
  | cons m rest ih =>
    intro sv hwf hr ha hs
    have K := step_keeps H hwf m i ha.1
    rcases hs with hs | hs
    · exact run_flag_sticky H i x rest _ (hwf.step H m) (K.hit x hs hr) ha.2
    · exact ih _ (hwf.step H m) (K.reg x hr) ha.2 hs

/-- no step touches a key that `i` watches at that moment: a clean watch map stays clean -/
theorem run_keeps_clean (H : Table) (i : String) : ∀ (ms : List Cmd) (sv : Server), RegWF sv →
    Clean (sv.conn i).watch →
    AllSteps H (fun s m => ∀ x, AList.contains (s.conn i).watch x = true → ¬ stepTouches H s m x) sv ms →
    Clean ((run H sv ms).1.conn i).watch := by
  intro ms; induction ms with
  | nil => intro sv _ h _; exact h
  | cons m rest ih =>
    intro sv hwf h ha
    exact ih _ (hwf.step H m) (step_keeps_clean H hwf m i h ha.1) ha.2

/-- no WATCH by `i`: an empty watch map stays empty -/
theorem run_keeps_unwatched (H : Table) (i : String) : ∀ (ms : List Cmd) (sv : Server), RegWF sv →
    (sv.conn i).watch = [] → (∀ m ∈ ms, ¬ (m.id = i ∧ m.name = "WATCH")) →
    ((run H sv ms).1.conn i).watch = [] := by
  intro ms; induction ms with
  | nil => intro sv _ h _; exact h
  | cons m rest ih =>
    intro sv hwf h ha
    exact ih _ (hwf.step H m) (step_keeps_unwatched H hwf m i h (ha m (by simp)))
      (fun m' hm' => ha m' (List.mem_cons_of_mem _ hm'))

/-- WATCH accepted -/
theorem step_watch (H : Table) (sv : Server) (c : Cmd) (hn : c.name = "WATCH")
    (hacc : (sv.conn c.id).state % 2 ≠ 1) (hne : c.args ≠ []) :
    step H sv c = (watchLoop c.id c.args sv, [okTok]) := by
  simp only [step, dispatch_watch H sv c hn, watch_eq, if_neg hacc]
  rw [if_neg (by simpa using hne)]
  rw [afterHandler_noerr _ _ _ (Or.inl (by simp [okTok, isErr]))]

end NodisVerif.Proofs.C08Step
