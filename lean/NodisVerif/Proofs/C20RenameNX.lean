import NodisVerif.Proofs.C20Key2
/-
  C20: RENAMENX.  The record is a RENAME; it is only emitted when the destination does not exist, and
  then RENAME on the replica has the same effect.
-/
namespace NodisVerif.Proofs.C20
open NodisVerif NodisVerif.Store NodisVerif.Spec.Persist NodisVerif.Proofs.C11
open NodisVerif.Proofs.AListLemmas NodisVerif.Proofs.AListLemmas2

variable {now : Int} {p r : MState}

/-- everything `renameNX` does after the two lookups -/
def nxTail (s2 : MState) (m : Meta) (key dst : Bytes) : MState :=
  let s := delKey s2 key
  let kid := (fresh s).1
  let s := (fresh s).2
  let d : Meta := { exp := m.exp, value := none, kid := kid, oid := m.oid }
  let d := match m.value with | some v => d.setValue v | none => d
  let s := match getMeta s dst with | some dead => unpersist s dst dead | none => s
  let s := putMeta s dst d.markModified
  { s with signalled := dst :: key :: s.signalled }

def opRename (key dst : Bytes) : FeedOp := { typ := 32, key := key, args := [Bytes.toHex dst] }

theorem renameNX_eq (s : MState) (now : Int) (key dst : Bytes) :
    Api.renameNX s now key dst =
      (if (writeKey s now dst none).2 then ((writeKey s now dst none).1, .err true) else
       if !(writeKey (writeKey s now dst none).1 now key none).2 then
         ((writeKey (writeKey s now dst none).1 now key none).1, .err true) else
       match getMeta (writeKey (writeKey s now dst none).1 now key none).1 key with
       | none => ((writeKey (writeKey s now dst none).1 now key none).1, .err true)
       | some m => (emit (nxTail (writeKey (writeKey s now dst none).1 now key none).1 m key dst)
           (opRename key dst), .err false)) := by
  unfold Api.renameNX
  generalize writeKey s now dst none = r1
  obtain ⟨s1, dok⟩ := r1
  simp only
  cases dok with
  | true => rfl
  | false =>
    simp only [Bool.false_eq_true, if_false]
    generalize writeKey s1 now key none = r2
    obtain ⟨s2, ok⟩ := r2
    simp only
    cases ok with
    | false => rfl
    | true =>
      simp only [Bool.not_true, Bool.false_eq_true, if_false]
      cases getMeta s2 key with
      | none => rfl
      | some m => rfl

theorem nxTail_eq {s2 : MState} {m : Meta} {v : Val} {key dst : Bytes} (hv : m.value = some v) :
    nxTail s2 m key dst =
      { putMeta (dropEntries { delKey s2 key with nextId := (delKey s2 key).nextId + 1 } dst) dst
          (renameRec { exp := m.exp, value := none, kid := (delKey s2 key).nextId } m v) with
        signalled := dst :: key :: (delKey s2 key).signalled } := by
  unfold nxTail
  simp only [hv, fresh]
  unfold dropEntries
  cases getMeta { delKey s2 key with nextId := (delKey s2 key).nextId + 1 } dst with
  | none => rfl
  | some dead =>
    simp only [unpersist]
    cases dead.stored <;> rfl

theorem fl_nxTail (s2 : MState) (m : Meta) (key dst : Bytes) : fl (nxTail s2 m key dst) = fl s2 := by
  unfold nxTail
  simp only [fresh]
  split
  · simp only [unpersist]
    split <;> exact fl_delKey s2 key
  · exact fl_delKey s2 key

/-- the logical keyspace after RENAMENX key dst -/
def renameNXK (now : Int) (K : Bytes → Option (Val × Int)) (key dst : Bytes) : Bytes → Option (Val × Int) :=
  fun k' => match K dst, K key with
    | none, some c => if k' = dst then filt c now else if k' = key then none else K k'
    | _, _ => K k'

def renameNXOps (K : Bytes → Option (Val × Int)) (key dst : Bytes) : List FeedOp :=
  match K dst, K key with
  | none, some _ => [opRename key dst]
  | _, _ => []

theorem renameNX_spec {s : MState} (h : StoreInv s now) (key dst : Bytes) :
    StoreInv (Api.renameNX s now key dst).1 now ∧
    (∀ k', lookup (Api.renameNX s now key dst).1 now k' = renameNXK now (lookup s now) key dst k') ∧
    (s.listeners = true →
      fl (Api.renameNX s now key dst).1 = ((renameNXOps (lookup s now) key dst).reverse ++ s.feed, true)) := by
  rw [renameNX_eq]
  have ht : now ≤ now := Int.le_refl now
  have ks1 := writeKey_spec h ht dst none (fun _ hc => nomatch hc)
  have hfl1 := fl_writeKey s now dst none
  generalize writeKey s now dst none = r1 at ks1 hfl1
  obtain ⟨s1, dok⟩ := r1
  simp only at hfl1 ⊢
  have flnil : ∀ sX : MState, fl sX = fl s → s.listeners = true → fl sX = ([].reverse ++ s.feed, true) := by
    intro sX hx hl; rw [hx]; simp [fl, hl]
  cases hLd : lookup s now dst with
  | some cd =>
    obtain ⟨hok, hl, _⟩ := ks1.hit cd.1 cd.2 hLd
    simp only at hok
    simp only [hok, if_true, renameNXK, renameNXOps, hLd]
    refine ⟨ks1.inv, fun k' => ?_, flnil s1 hfl1⟩
    by_cases hk : k' = dst
    · subst hk; rw [hl now ht]
    · exact ks1.other now ht k' hk
  | none =>
    obtain ⟨hok, hl⟩ := ks1.miss hLd rfl
    simp only at hok
    simp only [hok, Bool.false_eq_true, if_false]
    have hsame1 : ∀ t', now ≤ t' → ∀ k', lookup s1 t' k' = lookup s t' k' := by
      intro t' ht' k'
      by_cases hk : k' = dst
      · subst hk; exact hl t' ht'
      · exact ks1.other t' ht' k' hk
    have ks2 := writeKey_spec ks1.inv ht key none (fun _ hc => nomatch hc)
    have hfl2 := fl_writeKey s1 now key none
    generalize writeKey s1 now key none = r2 at ks2 hfl2
    obtain ⟨s2, ok⟩ := r2
    simp only at hfl2 ⊢
    have hfl2' : fl s2 = fl s := hfl2.trans hfl1
    have hsame2 : ∀ t', now ≤ t' → ∀ k', lookup s2 t' k' = lookup s1 t' k' := by
      intro t' ht' k'
      by_cases hk : k' = key
      · subst hk
        cases hL2 : lookup s1 now k' with
        | none => exact (ks2.miss hL2 rfl).2 t' ht'
        | some c2 => exact (ks2.hit c2.1 c2.2 hL2).2.1 t' ht'
      · exact ks2.other t' ht' k' hk
    cases hLk : lookup s now key with
    | none =>
      have hLk1 : lookup s1 now key = none := by rw [hsame1 now ht]; exact hLk
      obtain ⟨hok2, _⟩ := ks2.miss hLk1 rfl
      simp only at hok2
      simp only [hok2, Bool.not_false, if_true, renameNXK, renameNXOps, hLd, hLk]
      refine ⟨ks2.inv, fun k' => ?_, flnil s2 hfl2'⟩
      rw [hsame2 now ht, hsame1 now ht]
    | some c =>
      obtain ⟨v, e⟩ := c
      have hLk1 : lookup s1 now key = some (v, e) := by rw [hsame1 now ht]; exact hLk
      obtain ⟨hok2, _, m, hm, hv, he, _⟩ := ks2.hit v e hLk1
      simp only at hok2 hm
      have hgm : getMeta s2 key = some m := hm
      simp only [hok2, Bool.not_true, Bool.false_eq_true, if_false, hgm, renameNXK, renameNXOps, hLd, hLk]
      have hkd : key ≠ dst := by intro c; subst c; rw [hLd] at hLk; cases hLk
      have hdk : dst ≠ key := fun c => hkd c.symm
      have r1 := ks2.inv.recs key m hm
      obtain ⟨d1, d2, d3⟩ := delKey_sub ks2.inv hm
      have i3 : StoreInvX (delKey s2 key) none now := inv_delKey ks2.inv key (fun _ _ => by simp)
      have look3 : ∀ k', lookup (delKey s2 key) now k' = if k' = key then none else lookup s now k' := by
        intro k'
        rw [lookup_delKey ks2.inv ht]
        by_cases hk : k' = key
        · simp [hk]
        · simp only [hk, if_false]; rw [hsame2 now ht, hsame1 now ht]
      have hfree : (delKey s2 key).pebble = false →
          0 < m.oid ∧ m.oid < (delKey s2 key).nextId ∧
          (∀ k' m', AList.get? (delKey s2 key).index k' = some m' → m'.oid ≠ m.oid) ∧
          (∀ dk e', AList.get? (delKey s2 key).disk dk = some e' → e'.oid ≠ m.oid) := by
        intro hp
        rw [(delKey_fields _ _).1] at hp
        have o2 := ks2.inv.oids hp
        have := o2.recR key m hm
        refine ⟨this.1, by rw [d3]; exact this.2, ?_, ?_⟩
        · intro k' m' hk' ho
          rw [d1] at hk'
          by_cases hkk : k' = key
          · simp [hkk] at hk'
          · simp only [hkk, if_false] at hk'
            exact hkk (o2.recInj k' m' key m hk' hm ho)
        · intro dk e' he' ho
          obtain ⟨a, b⟩ := d2 dk e' he'
          exact b (o2.entRec dk e' key m a hm ho)
      rw [nxTail_eq hv]
      obtain ⟨n1, n2, n3, n4, n5, n6⟩ :=
        renameRec_facts { exp := m.exp, value := none, kid := (delKey s2 key).nextId } m v
      have ib := inv_bump i3 ((delKey s2 key).nextId + 1) (by omega)
      obtain ⟨iF, _, lF⟩ := inv_install_drop ib dst (mF := renameRec
          { exp := m.exp, value := none, kid := (delKey s2 key).nextId } m v) n1 n3
        (by rw [n2]; exact r1.expR) (r1.good v hv) n4 n6
        (by
          intro hp
          obtain ⟨a, b, c, dd⟩ := hfree hp
          rw [n5]
          exact ⟨a, by show m.oid < (delKey s2 key).nextId + 1; omega,
            fun k' m' _ hk' => c k' m' hk', fun dk e' he' _ => dd dk e' he'⟩)
      have emitL : ∀ (sX : MState) (sg : List Bytes) (op : FeedOp) (t' : Int) (k' : Bytes),
          lookup (emit { sX with signalled := sg } op) t' k' = lookup sX t' k' := by
        intro sX sg op t' k'
        obtain ⟨a, b, c, _, _⟩ := emit_fields { sX with signalled := sg } op
        rw [lookup_congr a b c]
        exact lookup_congr rfl rfl rfl _ _
      have emitI : ∀ (sX : MState) (sg : List Bytes) (op : FeedOp), StoreInvX sX none now →
          StoreInvX (emit { sX with signalled := sg } op) none now := by
        intro sX sg op hi
        exact inv_emits (ops := [op]) (hi.congr (s' := { sX with signalled := sg }) rfl rfl rfl rfl)
      refine ⟨emitI _ _ _ iF, fun k' => ?_, fun hlis => ?_⟩
      · rw [emitL]
        by_cases hk : k' = dst
        · subst hk
          simp only [if_true]
          rw [lookup_putMeta_same, view_put n1 n3, n2, he]
        · simp only [hk, if_false]
          rw [lF now ht k' hk]
          have : lookup { delKey s2 key with nextId := (delKey s2 key).nextId + 1 } now k'
              = lookup (delKey s2 key) now k' := lookup_congr rfl rfl rfl _ _
          rw [this, look3]
      · rw [← nxTail_eq hv]
        have h3 := fl_nxTail s2 m key dst
        have hl3 : (nxTail s2 m key dst).listeners = true := (congrArg Prod.snd (h3.trans hfl2')).trans hlis
        have hf3 : (nxTail s2 m key dst).feed = s.feed := congrArg Prod.fst (h3.trans hfl2')
        rw [fl_emit _ _ hl3, hf3]
        rfl

theorem renameNXK_nonil {K : Bytes → Option (Val × Int)} (hK : ∀ k e, K k ≠ some (.strNil, e)) (key dst : Bytes)
    (k : Bytes) (e : Int) : renameNXK now K key dst k ≠ some (.strNil, e) := by
  unfold renameNXK
  cases hd : K dst with
  | some _ => exact hK k e
  | none =>
    cases hL : K key with
    | none => exact hK k e
    | some c =>
      simp only
      split
      · intro hc
        have := filt_some hc
        subst this
        exact hK key e hL
      · split
        · simp
        · exact hK k e

theorem renameNX_main (hs : Same now p r) (hl : p.listeners = true) (hfd : p.feed = [])
    (c : Feed.CallInfo) (hc : plainMethod c.method = true) (key dst : Bytes) :
    Replay now r c (Api.renameNX p now key dst) ∧ (Api.renameNX p now key dst).1.listeners = true ∧
    ∀ op ∈ (Api.renameNX p now key dst).1.feed.reverse, op.key = key := by
  obtain ⟨i1, l1, f1⟩ := renameNX_spec hs.invP key dst
  have f1' := f1 hl
  have hfeed : (Api.renameNX p now key dst).1.feed = _ := congrArg Prod.fst f1'
  refine ⟨?_, congrArg Prod.snd f1', ?_⟩
  · unfold Replay
    rw [emission_plain hc, hfeed, hfd]
    simp only [List.append_nil, List.reverse_reverse]
    refine main_of i1 l1 (renameNXK_nonil hs.nonil key dst) ?_
    have hK : lookup r now = lookup p now := funext hs.look
    unfold renameNXOps
    cases hd : lookup p now dst with
    | some cd =>
      simp only
      refine ⟨r, rfl, hs.invR, fun k' => ?_⟩
      rw [hK]; simp [renameNXK, hd]
    | none =>
      cases hk : lookup p now key with
      | none =>
        simp only
        refine ⟨r, rfl, hs.invR, fun k' => ?_⟩
        rw [hK]; simp [renameNXK, hd, hk]
      | some cc =>
        simp only
        obtain ⟨i2, l2⟩ := rename_look hs.invR key dst
        rw [hK] at l2
        have hkd : key ≠ dst := by intro c; subst c; rw [hd] at hk; cases hk
        refine ⟨_, by simp [Feed.applyAll, Feed.applyOp, opRename, pB_toHex], i2, fun k' => ?_⟩
        rw [l2 k']
        simp [renameK, renameNXK, hd, hk, hkd]
  · intro op hop
    rw [hfeed, hfd] at hop
    simp only [List.append_nil, List.reverse_reverse] at hop
    unfold renameNXOps at hop
    split at hop
    · simp at hop; subst hop; rfl
    · cases hop

end NodisVerif.Proofs.C20
