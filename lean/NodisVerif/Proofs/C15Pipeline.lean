import NodisVerif.Proofs.C15Parse
import NodisVerif.Proofs.C15Congr
/-
  C15, parts 3 and 5: pipelines through the per-connection loop; independence of connections.
-/
namespace NodisVerif.Proofs.C15
open Resp RespReader Spec.RespEnc

/-- what a client can send as one command within the protocol limits: every bulk at most 512 MiB
    (`maxBulk`), element count an int64 -/
def Encodable (name : Bytes) (args : List Bytes) : Prop :=
  (name.length : Int) ≤ maxBulk ∧ (∀ a ∈ args, (a.length : Int) ≤ maxBulk) ∧
  ((1 + args.length : Nat) : Int) ≤ int64Max

/-- the command the server must act on -/
def expected (c : Bytes × List Bytes) : Cmd := { name := upper c.1, args := c.2 }

theorem readAll_eof (src : Source) (h : srcFlat src = []) (f : Nat) (acc : List Cmd) :
    readAll src (f + 1) acc = (acc.reverse, some .eof, false) := by
  have : readCommand src = .err .eof { src := src } := by
    simp only [readCommand, readByte_nil (st := { src := src }) h]
  simp only [readAll, this]

theorem readAll_pipeline_prefix : ∀ (cmds : List (Bytes × List Bytes)) (rest : Bytes) (src : Source)
    (f : Nat) (acc : List Cmd), (∀ c ∈ cmds, Encodable c.1 c.2) →
    srcFlat src = encodePipeline cmds ++ rest →
    readAll src (cmds.length + f) acc = readAll [rest] f ((cmds.map expected).reverse ++ acc) := by
  intro cmds
  induction cmds with
  | nil =>
    intro rest src f acc _ hf
    simp only [List.length_nil, Nat.zero_add, List.map_nil, List.reverse_nil, List.nil_append]
    exact readAll_congr f acc (by simpa [encodePipeline] using hf)
  | cons c cs ih =>
    intro rest src f acc hc hf
    have hf' : srcFlat src = encodeCommand c.1 c.2 ++ (encodePipeline cs ++ rest) := by
      simpa [encodePipeline] using hf
    obtain ⟨h1, h2, h3⟩ := hc c (by simp)
    obtain ⟨st, e, hs, _⟩ := readCommand_encode c.1 c.2 _ src h1 h2 h3 hf'
    have : (c :: cs).length + f = (cs.length + f) + 1 := by simp; omega
    rw [this]
    conv => lhs; rw [readAll]
    simp only [e]
    rw [ih rest st.src f _ (fun x hx => hc x (by simp [hx])) hs]
    simp only [List.map_cons, List.reverse_cons, List.append_assoc, List.cons_append, List.nil_append, expected]

/-! ### connections: each connection is read by its own goroutine with its own `Reader` -/

/-- one connection: the bytes still to come, the commands read so far, and how it ended -/
structure Conn where
  src  : Source
  cmds : List Cmd := []                       -- most recent first
  done : Option (Option RErr × Bool) := none   -- `some (e, panicked)` once the loop has ended

/-- one iteration of the `handleConn` loop -/
def Conn.step (c : Conn) : Conn :=
  match c.done with
  | some _ => c
  | none =>
    match readCommand c.src with
    | .ok cmd st => { c with src := st.src, cmds := cmd :: c.cmds }
    | .err e _ => { c with done := some (some e, false) }
    | .panic => { c with done := some (none, true) }

def Conn.steps : Nat → Conn → Conn
  | 0, c => c
  | k + 1, c => Conn.steps k c.step

/-- what `readAll` reports for a connection -/
def Conn.result (c : Conn) : List Cmd × Option RErr × Bool :=
  match c.done with
  | some (e, p) => (c.cmds.reverse, e, p)
  | none => (c.cmds.reverse, none, false)

/-- a scheduler run: at each tick the scheduler picks one connection (by number) which then performs
    one loop iteration -/
def runSched (conns : Nat → Conn) : List Nat → (Nat → Conn)
  | [] => conns
  | i :: rest => runSched (fun j => if j = i then (conns j).step else conns j) rest

theorem steps_done (k : Nat) (c : Conn) (x) (h : c.done = some x) : Conn.steps k c = c := by
  induction k with
  | zero => rfl
  | succ k ih => simp only [Conn.steps]; rw [show c.step = c by simp [Conn.step, h]]; exact ih

theorem steps_result : ∀ (k : Nat) (src : Source) (acc : List Cmd),
    (Conn.steps k { src := src, cmds := acc }).result = readAll src k acc := by
  intro k
  induction k with
  | zero => intro src acc; rfl
  | succ k ih =>
    intro src acc
    simp only [Conn.steps, Conn.step, readAll]
    cases readCommand src with
    | ok cmd st => exact ih st.src (cmd :: acc)
    | err e st => simp only; rw [steps_done k _ _ rfl]; rfl
    | panic => simp only; rw [steps_done k _ _ rfl]; rfl

theorem runSched_eq : ∀ (sched : List Nat) (conns : Nat → Conn) (i : Nat),
    runSched conns sched i = Conn.steps (sched.count i) (conns i) := by
  intro sched
  induction sched with
  | nil => intro conns i; rfl
  | cons j rest ih =>
    intro conns i
    simp only [runSched, ih, List.count_cons]
    by_cases h : i = j
    · subst h; simp [Conn.steps]
    · have : ¬ (j == i) = true := by simpa using fun e => h e.symm
      simp [h, this]

end NodisVerif.Proofs.C15
