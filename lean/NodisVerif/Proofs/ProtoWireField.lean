import NodisVerif.Proofs.ProtoWireLoop
/-
  C20 / wire encoding: what Unmarshal's loop does on the bytes Marshal emits for ONE field — it puts
  the field's value into the field's slot and leaves everything else alone.
-/
namespace NodisVerif.Proofs.ProtoWire
open NodisVerif Varint Codec NodisVerif.ProtoWire

/-- the field `(no, k)` sits in schema `S` behind `pre`, whose numbers differ from `no` -/
structure At (S pre : Schema) (no : Nat) (k : Kind) (post : Schema) : Prop where
  eq : S = pre ++ (no, k) :: post
  fresh : ∀ e ∈ pre, e.1 ≠ no
  lo : 1 ≤ no
  hi : no ≤ 536870911

theorem stepField_at {no : Nat} {k : Kind} {post : Schema} {v : PVal} {tl : List PVal} {wt : Nat} {b : Bytes} :
    ∀ (pre : Schema) (pv : List PVal), pv.length = pre.length → (∀ e ∈ pre, e.1 ≠ no) →
    stepField (pre ++ (no, k) :: post) (pv ++ v :: tl) no wt b =
      match consumeField k v wt b with
      | .ok v' rest => .ok (pv ++ v' :: tl) rest
      | .unknown => .unknown
      | .err => .err := by
  intro pre
  induction pre with
  | nil =>
    intro pv hl _
    have : pv = [] := List.eq_nil_of_length_eq_zero (by simpa using hl)
    subst this
    simp only [List.nil_append, stepField, if_true]
    cases consumeField k v wt b <;> rfl
  | cons e pre ih =>
    intro pv hl hf
    obtain ⟨n', k'⟩ := e
    cases pv with
    | nil => simp at hl
    | cons p pv =>
      have hne : n' ≠ no := hf (n', k') (List.mem_cons_self ..)
      simp only [List.cons_append, stepField, hne, if_false]
      rw [ih pv (by simpa using hl) (fun e he => hf e (List.mem_cons_of_mem _ he))]
      cases consumeField k v wt b <;> rfl

theorem tag_ne_nil (no wt : Nat) (x : Bytes) : tag no wt ++ x ≠ [] := by
  intro h
  have := congrArg List.length h
  have hp := VarintLemmas.putUvarint_length_pos (no * 8 + wt)
  simp only [tag, List.length_append, List.length_nil] at this
  omega

/-- one tagged occurrence of a known field with its expected wire type -/
theorem dec_known {S pre post : Schema} {no : Nat} {k : Kind} (hat : At S pre no k post)
    {pv tl : List PVal} (hpv : pv.length = pre.length) {wt : Nat} (hwt : wt < 8) (hwt4 : wt ≠ 4)
    {v v' : PVal} {x rest : Bytes} (u : Bytes) (hc : consumeField k v wt x = .ok v' rest) :
    dec S (tag no wt ++ x) ⟨pv ++ v :: tl, u⟩ = dec S rest ⟨pv ++ v' :: tl, u⟩ := by
  apply dec_step S (tag_ne_nil no wt x)
  unfold step
  rw [consumeVarint_tag no wt hat.hi hwt]
  have h1 : (no * 8 + wt) / 8 = no := by omega
  have h2 : (no * 8 + wt) % 8 = wt := by omega
  have h3 : ¬ (no < 1 ∨ no > 536870911) := by have := hat.lo; have := hat.hi; omega
  simp only [h1, h2, h3, hwt4, if_false]
  rw [hat.eq, stepField_at pre pv hpv hat.fresh, hc]

/-! ### the scalar kinds -/

theorem putUvarint_one : putUvarint 1 = [1] := by
  rw [putUvarint]; rfl

section
variable {S pre post : Schema} {no : Nat} {pv tl : List PVal} (u rest : Bytes)

theorem dec_str (hat : At S pre no .str post) (hpv : pv.length = pre.length) (cur : PVal) (s : Bytes)
    (hv : validUTF8 s = true) (hs : s.length < 2 ^ 63) :
    dec S (chunk no s ++ rest) ⟨pv ++ cur :: tl, u⟩ = dec S rest ⟨pv ++ .bytes s :: tl, u⟩ := by
  unfold chunk
  rw [List.append_assoc]
  apply dec_known hat hpv (by omega) (by omega)
  simp only [consumeField, ne_eq, not_true_eq_false, if_false]
  rw [consumeBytes_lenDelim s (by omega)]
  simp only [hv, if_true]

theorem dec_bytes (hat : At S pre no .bytes post) (hpv : pv.length = pre.length) (cur : PVal) (s : Bytes)
    (hs : s.length < 2 ^ 63) :
    dec S (chunk no s ++ rest) ⟨pv ++ cur :: tl, u⟩ = dec S rest ⟨pv ++ .bytes s :: tl, u⟩ := by
  unfold chunk
  rw [List.append_assoc]
  apply dec_known hat hpv (by omega) (by omega)
  simp only [consumeField, ne_eq, not_true_eq_false, if_false]
  rw [consumeBytes_lenDelim s (by omega)]

theorem dec_int (hat : At S pre no .int64 post) (hpv : pv.length = pre.length) (cur : PVal) (i : Int)
    (hi : inInt64 i = true) :
    dec S ((tag no 0 ++ putUvarint (toU64 i)) ++ rest) ⟨pv ++ cur :: tl, u⟩
      = dec S rest ⟨pv ++ .int i :: tl, u⟩ := by
  rw [List.append_assoc]
  apply dec_known hat hpv (by omega) (by omega)
  simp only [consumeField, ne_eq, not_true_eq_false, if_false]
  rw [consumeVarint_put _ (toU64_lt i)]
  simp only [ofU64_toU64 i hi]

theorem dec_bool (hat : At S pre no .bool post) (hpv : pv.length = pre.length) (cur : PVal) :
    dec S ((tag no 0 ++ [1]) ++ rest) ⟨pv ++ cur :: tl, u⟩ = dec S rest ⟨pv ++ .bool true :: tl, u⟩ := by
  rw [List.append_assoc]
  apply dec_known hat hpv (by omega) (by omega)
  simp only [consumeField, ne_eq, not_true_eq_false, if_false]
  rw [← putUvarint_one, consumeVarint_put 1 (by omega)]
  rfl

theorem dec_double (hat : At S pre no .double post) (hpv : pv.length = pre.length) (cur : PVal) (x : UInt64) :
    dec S ((tag no 1 ++ u64le x) ++ rest) ⟨pv ++ cur :: tl, u⟩ = dec S rest ⟨pv ++ .f64 x :: tl, u⟩ := by
  rw [List.append_assoc]
  apply dec_known hat hpv (by omega) (by omega)
  simp only [consumeField, ne_eq, not_true_eq_false, if_false]
  rw [consumeFixed64_u64le]

/-! ### the repeated kinds -/

theorem dec_repBytes (hat : At S pre no .repBytes post) (hpv : pv.length = pre.length) :
    ∀ (l acc : List Bytes), (∀ s ∈ l, s.length < 2 ^ 63) →
    dec S (l.flatMap (chunk no) ++ rest) ⟨pv ++ .list acc :: tl, u⟩
      = dec S rest ⟨pv ++ .list (acc ++ l) :: tl, u⟩ := by
  intro l
  induction l with
  | nil => intro acc _; simp
  | cons s l ih =>
    intro acc hs
    have h1 := hs s (List.mem_cons_self ..)
    rw [List.flatMap_cons, List.append_assoc]
    have : dec S (chunk no s ++ (l.flatMap (chunk no) ++ rest)) ⟨pv ++ .list acc :: tl, u⟩
        = dec S (l.flatMap (chunk no) ++ rest) ⟨pv ++ .list (acc ++ [s]) :: tl, u⟩ := by
      unfold chunk
      rw [List.append_assoc]
      apply dec_known hat hpv (by omega) (by omega)
      simp only [consumeField, ne_eq, not_true_eq_false, if_false]
      rw [consumeBytes_lenDelim s (by omega)]
      rfl
    rw [this, ih (acc ++ [s]) (fun t ht => hs t (List.mem_cons_of_mem _ ht))]
    simp

theorem dec_repStr (hat : At S pre no .repStr post) (hpv : pv.length = pre.length) :
    ∀ (l acc : List Bytes), (∀ s ∈ l, s.length < 2 ^ 63) → (∀ s ∈ l, validUTF8 s = true) →
    dec S (l.flatMap (chunk no) ++ rest) ⟨pv ++ .list acc :: tl, u⟩
      = dec S rest ⟨pv ++ .list (acc ++ l) :: tl, u⟩ := by
  intro l
  induction l with
  | nil => intro acc _ _; simp
  | cons s l ih =>
    intro acc hs hv
    have h1 := hs s (List.mem_cons_self ..)
    have h2 := hv s (List.mem_cons_self ..)
    rw [List.flatMap_cons, List.append_assoc]
    have : dec S (chunk no s ++ (l.flatMap (chunk no) ++ rest)) ⟨pv ++ .list acc :: tl, u⟩
        = dec S (l.flatMap (chunk no) ++ rest) ⟨pv ++ .list (acc ++ [s]) :: tl, u⟩ := by
      unfold chunk
      rw [List.append_assoc]
      apply dec_known hat hpv (by omega) (by omega)
      simp only [consumeField, ne_eq, not_true_eq_false, if_false]
      rw [consumeBytes_lenDelim s (by omega)]
      simp only [h2, if_true]
      rfl
    rw [this, ih (acc ++ [s]) (fun t ht => hs t (List.mem_cons_of_mem _ ht))
      (fun t ht => hv t (List.mem_cons_of_mem _ ht))]
    simp

theorem encStrs_valid (no : Nat) : ∀ (l : List Bytes), (∀ s ∈ l, validUTF8 s = true) →
    encStrs no l = (l.flatMap (chunk no), false) := by
  intro l
  induction l with
  | nil => intro _; rfl
  | cons s l ih =>
    intro hv
    have h2 := hv s (List.mem_cons_self ..)
    simp only [encStrs, h2, if_true, ih (fun t ht => hv t (List.mem_cons_of_mem _ ht)), List.flatMap_cons]

theorem dec_repDouble (hat : At S pre no .repDouble post) (hpv : pv.length = pre.length) (l : List UInt64)
    (hl : 8 * l.length < 2 ^ 63) :
    dec S ((tag no 2 ++ putUvarint (8 * l.length) ++ l.flatMap u64le) ++ rest) ⟨pv ++ .f64s [] :: tl, u⟩
      = dec S rest ⟨pv ++ .f64s l :: tl, u⟩ := by
  rw [List.append_assoc, List.append_assoc]
  apply dec_known hat hpv (by omega) (by omega)
  simp only [consumeField, if_true]
  have e : putUvarint (8 * l.length) ++ (l.flatMap u64le ++ rest) = lenDelim (l.flatMap u64le) ++ rest := by
    unfold lenDelim
    rw [flatMap_u64le_length, List.append_assoc]
  rw [e, consumeBytes_lenDelim _ (by rw [flatMap_u64le_length]; omega)]
  simp only [unpack64_flatMap, PVal.asF64s, List.nil_append]

end

end NodisVerif.Proofs.ProtoWire
