import NodisVerif.Proofs.C04Seq
/-
  The signed-zero deviation is the *only* deviation: for every operation sequence with non-NaN
  scores, the real state is shadowed by a well-formed state with the same chain, the same members
  and IEEE-equal scores (the two dictionaries can differ only in the sign bit of a zero).
-/
namespace NodisVerif.Proofs.C04
open AListLemmas ZSetLemmas DsZSet

/-- same keys, IEEE-equal (hence non-NaN) scores, position by position -/
inductive DictSim : AList F64 → AList F64 → Prop
  | nil : DictSim [] []
  | cons (k : Bytes) (v v' : F64) (r r' : AList F64) :
      F64.eq v v' = true → DictSim r r' → DictSim ((k, v) :: r) ((k, v') :: r')

/-- the real state `a` and its shadow `b` -/
def Sim (a b : ZSet) : Prop := a.sl = b.sl ∧ DictSim a.dict b.dict

theorem eq_refl_of_notNaN (s : F64) (hs : F64.isNaN s = false) : F64.eq s s = true := by
  simp [F64.eq, hs]

/-- IEEE-equal values are interchangeable in every comparison -/
theorem eq_congr (a b : F64) (h : F64.eq a b = true) (x : F64) :
    F64.lt x a = F64.lt x b ∧ F64.lt a x = F64.lt b x ∧ F64.eq x a = F64.eq x b ∧
    F64.eq a x = F64.eq b x := by
  simp only [F64.eq, Bool.and_eq_true, Bool.not_eq_true', beq_iff_eq] at h
  obtain ⟨⟨ha, hb⟩, hk⟩ := h
  simp only [F64.lt, F64.eq, ha, hb, hk, Bool.not_false, Bool.and_true, Bool.true_and]
  exact ⟨trivial, trivial, trivial, trivial⟩

theorem DictSim.length_eq {d d' : AList F64} (h : DictSim d d') : d.length = d'.length := by
  induction h with
  | nil => rfl
  | cons k v v' r r' _ _ ih => simp [ih]

theorem DictSim.refl_of (d : AList F64) (hn : ∀ p ∈ d, F64.isNaN p.2 = false) : DictSim d d := by
  induction d with
  | nil => exact DictSim.nil
  | cons p r ih =>
    obtain ⟨k, v⟩ := p
    exact DictSim.cons k v v r r (eq_refl_of_notNaN v (hn (k, v) (by simp)))
      (ih (fun q hq => hn q (by simp [hq])))

theorem DictSim.get? {d d' : AList F64} (h : DictSim d d') (m : Bytes) :
    (AList.get? d m = none ∧ AList.get? d' m = none) ∨
    ∃ s s', AList.get? d m = some s ∧ AList.get? d' m = some s' ∧ F64.eq s s' = true := by
  induction h with
  | nil => left; exact ⟨rfl, rfl⟩
  | cons k v v' r r' hv _ ih =>
    simp only [AList.get?]
    by_cases hk : k = m
    · right; exact ⟨v, v', by simp [hk], by simp [hk], hv⟩
    · simp only [hk, if_false]; exact ih

theorem DictSim.set {d d' : AList F64} (h : DictSim d d') (m : Bytes) (s s' : F64)
    (hs : F64.eq s s' = true) : DictSim (AList.set d m s) (AList.set d' m s') := by
  induction h with
  | nil => exact DictSim.cons m s s' [] [] hs DictSim.nil
  | cons k v v' r r' hv hr ih =>
    simp only [AList.set]
    by_cases hk : k = m
    · simp only [hk, if_true]; exact DictSim.cons m s s' r r' hs hr
    · simp only [hk, if_false]
      by_cases hlt : Bytes.lt m k = true
      · simp only [hlt, if_true]
        exact DictSim.cons m s s' _ _ hs (DictSim.cons k v v' r r' hv hr)
      · rw [if_neg hlt, if_neg hlt]
        exact DictSim.cons k v v' _ _ hv ih

theorem DictSim.erase {d d' : AList F64} (h : DictSim d d') (m : Bytes) :
    DictSim (AList.erase d m) (AList.erase d' m) := by
  induction h with
  | nil => exact DictSim.nil
  | cons k v v' r r' hv hr ih =>
    simp only [AList.erase]
    by_cases hk : k = m
    · simp only [hk, if_true]; exact hr
    · simp only [hk, if_false]; exact DictSim.cons k v v' _ _ hv ih

theorem DictSim.foldl_erase (rem : List Item) : ∀ {d d' : AList F64}, DictSim d d' →
    DictSim (rem.foldl (fun d it => AList.erase d it.2) d) (rem.foldl (fun d it => AList.erase d it.2) d') := by
  induction rem with
  | nil => intro d d' h; exact h
  | cons a rem ih => intro d d' h; exact ih (h.erase a.2)

theorem set_same {V : Type} (m : Bytes) (o : V) : ∀ (d : AList V), d.Pairwise KeyLt →
    AList.get? d m = some o → AList.set d m o = d := by
  intro d
  induction d with
  | nil => intro _ h; simp [AList.get?] at h
  | cons p r ih =>
    intro hpw hget
    obtain ⟨k, w⟩ := p
    obtain ⟨h1, h2⟩ := List.pairwise_cons.mp hpw
    simp only [AList.get?] at hget
    unfold AList.set
    by_cases hk : k = m
    · simp only [hk, if_true, Option.some.injEq] at hget ⊢
      rw [hget]
    · simp only [hk, if_false] at hget ⊢
      have hmem : (m, o) ∈ r := (get?_iff_mem m o r h2).mp hget
      have hlt : Bytes.lt k m = true := h1 (m, o) hmem
      rw [if_neg (by rw [lt_asymm k m hlt]; simp), ih h2 hget]

theorem nodeLt_congr (n : Item) (a b : F64) (h : F64.eq a b = true) (m : Bytes) :
    nodeLt n a m = nodeLt n b m := by
  obtain ⟨h1, _, h3, _⟩ := eq_congr a b h n.1
  simp only [nodeLt, h1, h3]

theorem slRemove_congr (m : Bytes) (a b : F64) (h : F64.eq a b = true) : ∀ (l : List Item),
    slRemove l m a = slRemove l m b := by
  intro l
  induction l with
  | nil => rfl
  | cons n rest ih =>
    simp only [slRemove, nodeLt_congr n a b h m, ih, (eq_congr a b h n.1).2.2.2]

/-! ### every operation keeps a shadow -/

theorem sim_zAdd {z w : ZSet} (hs : Sim z w) (hw : Inv w) (m : Bytes) (s : F64)
    (hn : F64.isNaN s = false) : ∃ w', Inv w' ∧ Sim (zAdd z m s).1 w' := by
  obtain ⟨hsl, hd⟩ := hs
  have hss := eq_refl_of_notNaN s hn
  rcases hd.get? m with ⟨h1, h2⟩ | ⟨old, old', h1, h2, he⟩
  · refine ⟨(zAdd w m s).1, inv_zAdd hw m s hn (by intro o ho; rw [h2] at ho; cases ho), ?_⟩
    unfold zAdd
    rw [h1, h2]
    exact ⟨by simp only; rw [hsl], hd.set m s s hss⟩
  · by_cases hne : F64.ne s old = true
    · have hne' : F64.ne s old' = true := by
        unfold F64.ne at hne ⊢
        rw [← (eq_congr old old' he s).2.2.1]; exact hne
      refine ⟨(zAdd w m s).1, inv_zAdd hw m s hn ?_, ?_⟩
      · intro o ho heq
        rw [h2] at ho
        cases ho
        unfold F64.ne at hne'
        rw [heq] at hne'
        cases hne'
      · unfold zAdd
        rw [h1, h2]
        simp only [hne, hne', if_true]
        exact ⟨by simp only; rw [hsl, slRemove_congr m old old' he], hd.set m s s hss⟩
    · refine ⟨w, hw, ?_⟩
      unfold zAdd
      rw [h1]
      simp only [hne, Bool.false_eq_true, if_false]
      refine ⟨hsl, ?_⟩
      have heq : F64.eq s old = true := by simpa [F64.ne] using hne
      have heq' : F64.eq s old' = true := by rw [← (eq_congr old old' he s).2.2.1]; exact heq
      have := hd.set m s old' heq'
      rw [set_same m old' w.dict hw.dictPW h2] at this
      exact this

theorem sim_contains {z w : ZSet} (hs : Sim z w) (m : Bytes) :
    AList.contains z.dict m = AList.contains w.dict m := by
  unfold AList.contains
  rcases hs.2.get? m with ⟨h1, h2⟩ | ⟨old, old', h1, h2, _⟩ <;> rw [h1, h2] <;> rfl

theorem sim_remStep {acc acc' : ZSet × Int} (hs : Sim acc.1 acc'.1) (hc : acc.2 = acc'.2) (m : Bytes) :
    Sim (remStep acc m).1 (remStep acc' m).1 ∧ (remStep acc m).2 = (remStep acc' m).2 := by
  unfold remStep
  rcases hs.2.get? m with ⟨h1, h2⟩ | ⟨old, old', h1, h2, he⟩
  · rw [h1, h2]; exact ⟨hs, hc⟩
  · rw [h1, h2]
    exact ⟨⟨by simp only; rw [hs.1, slRemove_congr m old old' he], hs.2.erase m⟩, by simp only; rw [hc]⟩

theorem sim_foldl_remStep : ∀ (ms : List Bytes) (acc acc' : ZSet × Int), Sim acc.1 acc'.1 →
    acc.2 = acc'.2 →
    Sim (ms.foldl remStep acc).1 (ms.foldl remStep acc').1 ∧
      (ms.foldl remStep acc).2 = (ms.foldl remStep acc').2 := by
  intro ms
  induction ms with
  | nil => intro acc acc' h hc; exact ⟨h, hc⟩
  | cons m ms ih =>
    intro acc acc' h hc
    obtain ⟨h1, h2⟩ := sim_remStep h hc m
    exact ih _ _ h1 h2

theorem sim_zCard {z w : ZSet} (hs : Sim z w) : zCard z = zCard w := by
  unfold zCard; rw [hs.2.length_eq]

theorem sim_zRemRangeByScore {z w : ZSet} (hs : Sim z w) (min max : F64) (mode : Nat) :
    Sim (zRemRangeByScore z min max mode).1 (zRemRangeByScore w min max mode).1 ∧
    (zRemRangeByScore z min max mode).2 = (zRemRangeByScore w min max mode).2 := by
  unfold zRemRangeByScore
  simp only
  rw [hs.1]
  exact ⟨⟨rfl, DictSim.foldl_erase _ hs.2⟩, rfl⟩

theorem sim_zRemRangeByRank {z w : ZSet} (hs : Sim z w) (start stop : Int) :
    Sim (zRemRangeByRank z start stop).1 (zRemRangeByRank w start stop).1 ∧
    (zRemRangeByRank z start stop).2 = (zRemRangeByRank w start stop).2 := by
  rw [zRemRangeByRank_core, zRemRangeByRank_core, sim_zCard hs]
  unfold remByRankCore
  rw [sim_zCard hs, hs.1]
  split
  · exact ⟨hs, rfl⟩
  · exact ⟨⟨rfl, DictSim.foldl_erase _ hs.2⟩, rfl⟩

/-- scores that are written must not be NaN -/
def Op.NoNaN (op : Op) : Prop :=
  match op.score? with
  | some (_, s) => F64.isNaN s = false
  | none => True

theorem sim_apply {z w : ZSet} (hs : Sim z w) (hw : Inv w) (op : Op) (hn : op.NoNaN) :
    ∃ w', Inv w' ∧ Sim (op.apply z) w' := by
  cases op with
  | add m s => exact sim_zAdd hs hw m s hn
  | incrBy m s => exact sim_zAdd hs hw m s hn
  | addXX m s =>
    simp only [Op.apply, zAddXX, sim_contains hs m]
    split
    · exact sim_zAdd hs hw m s hn
    · exact ⟨w, hw, hs⟩
  | addNX m s =>
    simp only [Op.apply, zAddNX, sim_contains hs m]
    split
    · exact sim_zAdd hs hw m s hn
    · exact ⟨w, hw, hs⟩
  | addLT m s =>
    simp only [Op.apply, zAddLT]
    rcases hs.2.get? m with ⟨h1, _⟩ | ⟨old, old', h1, _, he⟩
    · rw [h1]; exact ⟨w, hw, hs⟩
    · rw [h1]
      simp only
      split
      · exact sim_zAdd hs hw m s hn
      · exact ⟨w, hw, hs⟩
  | addGT m s =>
    simp only [Op.apply, zAddGT]
    rcases hs.2.get? m with ⟨h1, _⟩ | ⟨old, old', h1, _, he⟩
    · rw [h1]; exact ⟨w, hw, hs⟩
    · rw [h1]
      simp only
      split
      · exact sim_zAdd hs hw m s hn
      · exact ⟨w, hw, hs⟩
  | rem ms =>
    refine ⟨(zRem w ms).1, inv_zRem hw ms, ?_⟩
    exact (sim_foldl_remStep ms (z, 0) (w, 0) hs rfl).1
  | remRangeByScore min max mode =>
    exact ⟨_, inv_zRemRangeByScore hw min max mode, (sim_zRemRangeByScore hs min max mode).1⟩
  | remRangeByRank start stop =>
    exact ⟨_, inv_zRemRangeByRank hw start stop, (sim_zRemRangeByRank hs start stop).1⟩

theorem sim_run : ∀ (ops : List Op) (z w : ZSet), Sim z w → Inv w → (∀ op ∈ ops, op.NoNaN) →
    ∃ w', Inv w' ∧ Sim (run z ops) w' := by
  intro ops
  induction ops with
  | nil => intro z w hs hw _; exact ⟨w, hw, hs⟩
  | cons op ops ih =>
    intro z w hs hw hn
    obtain ⟨w', hw', hs'⟩ := sim_apply hs hw op (hn op (by simp))
    exact ih (op.apply z) w' hs' hw' (fun o ho => hn o (by simp [ho]))

/-! ### queries do not see the difference (except ZSCORE's sign of zero) -/

theorem slGetRank_congr (sl : List Item) (m : Bytes) (a b : F64) (h : F64.eq a b = true) :
    slGetRank sl m a = slGetRank sl m b := by
  unfold slGetRank
  have : (fun (n : Item) => F64.lt n.1 a || (F64.eq n.1 a && Bytes.le n.2 m))
      = fun n => F64.lt n.1 b || (F64.eq n.1 b && Bytes.le n.2 m) := by
    funext n
    obtain ⟨h1, _, h3, _⟩ := eq_congr a b h n.1
    rw [h1, h3]
  rw [this]

theorem sim_queries {z w : ZSet} (hs : Sim z w) :
    (∀ start stop desc, forEachByRank z start stop desc = forEachByRank w start stop desc) ∧
    (∀ min max offset limit desc mode,
      rangeByScore z min max offset limit desc mode = rangeByScore w min max offset limit desc mode) ∧
    (∀ min max mode, zCount z min max mode = zCount w min max mode) ∧
    (∀ m, zRank z m = zRank w m) ∧ (∀ m, zRevRank z m = zRevRank w m) ∧
    zCard z = zCard w ∧
    (∀ m, (zScore z m = none ∧ zScore w m = none) ∨
      ∃ s s', zScore z m = some s ∧ zScore w m = some s' ∧ F64.eq s s' = true) := by
  have hc := sim_zCard hs
  have hfe : ∀ start stop desc, forEachByRank z start stop desc = forEachByRank w start stop desc := by
    intro start stop desc
    unfold forEachByRank
    rw [hc, hs.1]
  have hrank : ∀ m desc, getRank z m desc = getRank w m desc := by
    intro m desc
    unfold getRank
    rcases hs.2.get? m with ⟨h1, h2⟩ | ⟨old, old', h1, h2, he⟩
    · rw [h1, h2]
    · rw [h1, h2]
      simp only
      rw [hs.1, slGetRank_congr w.sl m old old' he]
  refine ⟨hfe, ?_, ?_, ?_, ?_, hc, ?_⟩
  · intro min max offset limit desc mode
    unfold rangeByScore
    rw [hs.1]
  · intro min max mode
    unfold zCount
    rw [hc, hfe]
  · intro m
    unfold zRank
    rw [sim_contains hs m, hrank]
  · intro m
    unfold zRevRank
    rw [sim_contains hs m, hrank]
  · intro m
    exact hs.2.get? m

end NodisVerif.Proofs.C04
