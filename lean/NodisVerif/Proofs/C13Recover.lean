import NodisVerif.Proofs.C13Calls
/-
  C13, part 2: what `newStore` (`Store.reopen`) makes of a backend content — `recovered` — and its
  characterisation: the record of a name is built from the entry of that name scanned LAST, the
  entries it shadows are deleted, the kept entry stays.
-/
namespace NodisVerif.C13
open NodisVerif NodisVerif.Store
open NodisVerif.Proofs.AListLemmas NodisVerif.Proofs.AListLemmas2 NodisVerif.Proofs.C13

/-- a backend content as Pebble holds it: sorted by encoded key, every entry under the encoding of
    its own (name, deadline) -/
def DiskWF (d : AList DiskEntry) : Prop :=
  AList.Sorted d ∧ ∀ k e, (k, e) ∈ d → k = Codec.encodeKey e.name e.exp

/-- the store `newStore` builds on the Pebble content `d` -/
def reopened (d : AList DiskEntry) : MState := reopen { disk := d, pebble := true }

/-- the logical content of `name` after reopening on `d`: deadline of the record `newStore` built for
    the name, and the value the backend (as `newStore` left it) returns for that record -/
def recovered (d : AList DiskEntry) (name : Bytes) : Option (Int × Val) :=
  match AList.get? (reopened d).index name with
  | none => none
  | some m => (diskGet (reopened d) name m.exp).map fun e => (m.exp, e.val)

/-- the entry of `name` that a scan of `d` meets last -/
def lastFor : AList DiskEntry → Bytes → Option DiskEntry
  | [], _ => none
  | (_, e) :: rest, name =>
    match lastFor rest name with
    | some e' => some e'
    | none => if e.name = name then some e else none

/-! ### `lastFor` -/

theorem lastFor_mem : ∀ (d : AList DiskEntry) (name : Bytes) (e : DiskEntry),
    lastFor d name = some e → e.name = name ∧ ∃ k, (k, e) ∈ d := by
  intro d
  induction d with
  | nil => intro name e h; cases h
  | cons a rest ih =>
    intro name e h
    obtain ⟨k, e0⟩ := a
    simp only [lastFor] at h
    cases hr : lastFor rest name with
    | some e' =>
      rw [hr] at h
      simp only [Option.some.injEq] at h
      subst h
      obtain ⟨h1, k', h2⟩ := ih name e' hr
      exact ⟨h1, k', List.mem_cons_of_mem _ h2⟩
    | none =>
      rw [hr] at h
      simp only at h
      split at h
      · simp only [Option.some.injEq] at h
        subst h
        exact ⟨by assumption, k, List.mem_cons_self⟩
      · cases h

theorem lastFor_isSome_of_mem : ∀ (d : AList DiskEntry) (name : Bytes) (k : Bytes) (e : DiskEntry),
    (k, e) ∈ d → e.name = name → ∃ e', lastFor d name = some e' := by
  intro d
  induction d with
  | nil => intro name k e h; cases h
  | cons a rest ih =>
    intro name k e h hn
    obtain ⟨k0, e0⟩ := a
    simp only [lastFor]
    cases hr : lastFor rest name with
    | some e' => exact ⟨e', rfl⟩
    | none =>
      rcases List.mem_cons.mp h with h | h
      · simp only [Prod.mk.injEq] at h
        obtain ⟨_, h2⟩ := h
        subst h2
        exact ⟨e, by simp [hn]⟩
      · obtain ⟨e', he'⟩ := ih name k e h hn
        rw [hr] at he'
        cases he'

theorem lastFor_none_iff (d : AList DiskEntry) (name : Bytes) :
    lastFor d name = none ↔ ∀ k e, (k, e) ∈ d → e.name ≠ name := by
  constructor
  · intro h k e hm hn
    obtain ⟨e', he'⟩ := lastFor_isSome_of_mem d name k e hm hn
    rw [h] at he'
    cases he'
  · intro h
    cases hl : lastFor d name with
    | none => rfl
    | some e =>
      obtain ⟨h1, k, h2⟩ := lastFor_mem d name e hl
      exact absurd h1 (h k e h2)

theorem lastFor_cons_of_some {a : Bytes × DiskEntry} {rest : AList DiskEntry} {name : Bytes} {e : DiskEntry}
    (h : lastFor rest name = some e) : lastFor (a :: rest) name = some e := by
  obtain ⟨k, e0⟩ := a
  simp only [lastFor, h]

/-- erasing an entry that is not the last of `name` does not change which one is last -/
theorem lastFor_erase : ∀ (d : AList DiskEntry) (K name : Bytes),
    (∀ e, (K, e) ∈ d → lastFor d name ≠ some e) → lastFor (AList.erase d K) name = lastFor d name := by
  intro d
  induction d with
  | nil => intro K name _; rfl
  | cons a rest ih =>
    intro K name h
    obtain ⟨k, e⟩ := a
    simp only [AList.erase]
    by_cases hk : k = K
    · simp only [hk, if_true]
      subst hk
      have h1 := h e List.mem_cons_self
      simp only [lastFor] at h1 ⊢
      cases hr : lastFor rest name with
      | some e' => rfl
      | none =>
        rw [hr] at h1
        simp only at h1 ⊢
        split
        · rename_i hn
          simp [hn] at h1
        · rfl
    · simp only [hk, if_false]
      have hrest : ∀ e', (K, e') ∈ rest → lastFor rest name ≠ some e' := by
        intro e' hm hl
        exact h e' (List.mem_cons_of_mem _ hm) (lastFor_cons_of_some hl)
      simp only [lastFor, ih K name hrest]

/-- a write under a key whose present and new entry belong to other names -/
theorem lastFor_set_other : ∀ (d : AList DiskEntry) (K name : Bytes) (ent : DiskEntry),
    ent.name ≠ name → (∀ e, (K, e) ∈ d → e.name ≠ name) →
    lastFor (AList.set d K ent) name = lastFor d name := by
  intro d
  induction d with
  | nil =>
    intro K name ent hn _
    simp [AList.set, lastFor, hn]
  | cons a rest ih =>
    intro K name ent hn h
    obtain ⟨k, e⟩ := a
    simp only [AList.set]
    by_cases hk : k = K
    · simp only [hk, if_true]
      subst hk
      have h1 := h e List.mem_cons_self
      simp [lastFor, hn, h1]
    · simp only [hk, if_false]
      by_cases hlt : Bytes.lt K k = true
      · simp only [hlt, if_true]
        rw [lastFor]
        cases hr : lastFor ((k, e) :: rest) name with
        | some e' => rfl
        | none => simp [hn]
      · rw [if_neg hlt]
        simp only [lastFor, ih K name ent hn (fun e' hm => h e' (List.mem_cons_of_mem _ hm))]

/-! ### well-formedness is kept by the calls -/

theorem diskWF_nil : DiskWF [] := ⟨trivial, fun _ _ h => by cases h⟩

theorem diskWF_set {d : AList DiskEntry} (h : DiskWF d) (ent : DiskEntry) :
    DiskWF (AList.set d (Codec.encodeKey ent.name ent.exp) ent) := by
  refine ⟨set_preserves_sorted d h.1 _ _, ?_⟩
  intro k e hm
  rcases mem_set d _ _ _ hm with h1 | h1
  · simp only [Prod.mk.injEq] at h1
    obtain ⟨a, b⟩ := h1
    subst b; exact a
  · exact h.2 k e h1

theorem diskWF_erase {d : AList DiskEntry} (h : DiskWF d) (K : Bytes) : DiskWF (AList.erase d K) :=
  ⟨erase_preserves_sorted d h.1 K, fun k e hm => h.2 k e (mem_of_mem_erase d K _ hm)⟩

theorem diskWF_after {d : AList DiskEntry} (h : DiskWF d) {pebble : Bool} {c : DiskCall} (hc : c.Exact pebble) :
    DiskWF (diskAfter d c) := by
  cases c with
  | set n dl e =>
    obtain ⟨h1, h2, _⟩ := hc
    subst h1 h2
    exact diskWF_set h e
  | del n dl => exact diskWF_erase h _

theorem diskWF_run {d : AList DiskEntry} (h : DiskWF d) {pebble : Bool} :
    ∀ (cs : List DiskCall), (∀ c ∈ cs, c.Exact pebble) → DiskWF (runCalls d cs) := by
  intro cs
  induction cs generalizing d with
  | nil => intro _; exact h
  | cons c cs ih =>
    intro hc
    rw [runCalls_cons]
    exact ih (diskWF_after h (hc c List.mem_cons_self)) (fun c' hc' => hc c' (List.mem_cons_of_mem _ hc'))

/-- in a well-formed backend the entry found under (name, deadline) carries that name and deadline -/
theorem wf_entry {d : AList DiskEntry} (h : DiskWF d) {n : Bytes} {x : Int} {e : DiskEntry}
    (hm : (Codec.encodeKey n x, e) ∈ d) : e.name = n ∧ e.exp = x := by
  have := h.2 _ _ hm
  obtain ⟨a, b⟩ := encodeKey_inj this
  exact ⟨a.symm, b.symm⟩

/-! ### a call for one name does not touch the last entry of another -/

theorem lastFor_after_other {d : AList DiskEntry} (h : DiskWF d) {pebble : Bool} {c : DiskCall}
    (hc : c.Exact pebble) {name : Bytes} (hn : c.name ≠ name) :
    lastFor (diskAfter d c) name = lastFor d name := by
  cases c with
  | set n dl e =>
    obtain ⟨h1, h2, _⟩ := hc
    simp only [DiskCall.name] at hn
    apply lastFor_set_other
    · rw [h1]; exact hn
    · intro e' hm
      rw [(wf_entry h hm).1]; exact hn
  | del n dl =>
    simp only [DiskCall.name] at hn
    apply lastFor_erase
    intro e' hm hl
    have a := (wf_entry h hm).1
    have b := (lastFor_mem d name e' hl).1
    exact hn (a.symm.trans b)

/-! ### the scan of `newStore` -/

/-- the record `newStore` creates for a stored entry -/
def coldOf (e : DiskEntry) : Meta :=
  { exp := e.exp, value := none, state := 1, kid := e.kid, oid := e.oid, stored := some e.exp }

def reopenStep (acc : AList Meta × List (Bytes × Int)) (p : Bytes × DiskEntry) : AList Meta × List (Bytes × Int) :=
  (AList.set acc.1 p.2.name (coldOf p.2),
    match AList.get? acc.1 p.2.name with
    | some old => (match old.stored with | some oe => (p.2.name, oe) :: acc.2 | none => acc.2)
    | none => acc.2)

theorem reopen_eq (s : MState) :
    reopen s = { (s.disk.foldl reopenStep ([], [])).2.foldl (fun s p => diskDelete s p.1 p.2) s with
      index := (s.disk.foldl reopenStep ([], [])).1, closed := false, feed := [], signalled := [] } := by
  unfold reopen
  rfl

/-- the index built by the scan: per name the record of the entry met last -/
theorem scan_index (name : Bytes) : ∀ (l : AList DiskEntry) (acc : AList Meta × List (Bytes × Int)),
    AList.get? (l.foldl reopenStep acc).1 name
      = match lastFor l name with
        | some e => some (coldOf e)
        | none => AList.get? acc.1 name := by
  intro l
  induction l with
  | nil => intro acc; rfl
  | cons a rest ih =>
    intro acc
    obtain ⟨k, e⟩ := a
    rw [List.foldl_cons, ih, lastFor]
    cases hr : lastFor rest name with
    | some e' => rfl
    | none =>
      simp only [reopenStep, get?_set]
      by_cases hn : e.name = name
      · simp [hn]
      · have : ¬ name = e.name := fun x => hn x.symm
        simp [hn, this]

theorem scan_sorted : ∀ (l : AList DiskEntry) (acc : AList Meta × List (Bytes × Int)),
    AList.Sorted acc.1 → AList.Sorted (l.foldl reopenStep acc).1 := by
  intro l
  induction l with
  | nil => intro acc h; exact h
  | cons a rest ih =>
    intro acc h
    rw [List.foldl_cons]
    exact ih _ (set_preserves_sorted _ h _ _)

/-- `(n, x)` is an entry of `d` followed, later in the scan, by another entry of the same name -/
def Shadowed : AList DiskEntry → Bytes → Int → Prop
  | [], _, _ => False
  | (_, e) :: rest, n, x => (e.name = n ∧ e.exp = x ∧ ∃ q ∈ rest, q.2.name = n) ∨ Shadowed rest n x

theorem shadowed_has_entry : ∀ (d : AList DiskEntry) (n : Bytes) (x : Int), Shadowed d n x → ∃ q ∈ d, q.2.name = n := by
  intro d
  induction d with
  | nil => intro n x h; cases h
  | cons a rest ih =>
    intro n x h
    obtain ⟨k, e⟩ := a
    rcases h with ⟨_, _, q, hq, hn⟩ | h
    · exact ⟨q, List.mem_cons_of_mem _ hq, hn⟩
    · obtain ⟨q, hq, hn⟩ := ih n x h
      exact ⟨q, List.mem_cons_of_mem _ hq, hn⟩

/-- what the scan collects for deletion are shadowed entries -/
theorem scan_shadowed : ∀ (l : AList DiskEntry) (acc : AList Meta × List (Bytes × Int)) (n : Bytes) (x : Int),
    (n, x) ∈ (l.foldl reopenStep acc).2 →
      (n, x) ∈ acc.2 ∨ (∃ m, AList.get? acc.1 n = some m ∧ m.stored = some x ∧ ∃ q ∈ l, q.2.name = n)
        ∨ Shadowed l n x := by
  intro l
  induction l with
  | nil => intro acc n x h; exact Or.inl h
  | cons a rest ih =>
    intro acc n x h
    obtain ⟨k, e⟩ := a
    rw [List.foldl_cons] at h
    rcases ih _ n x h with h1 | ⟨m, h1, h2, q, hq, hqn⟩ | h1
    · -- collected at this step, or before
      simp only [reopenStep] at h1
      cases hg : AList.get? acc.1 e.name with
      | none => simp only [hg] at h1; exact Or.inl h1
      | some old =>
        simp only [hg] at h1
        cases hs : old.stored with
        | none => simp only [hs] at h1; exact Or.inl h1
        | some oe =>
          simp only [hs] at h1
          rcases List.mem_cons.mp h1 with h1 | h1
          · simp only [Prod.mk.injEq] at h1
            obtain ⟨a1, a2⟩ := h1
            subst a1 a2
            exact Or.inr (Or.inl ⟨old, hg, hs, (k, e), List.mem_cons_self, rfl⟩)
          · exact Or.inl h1
    · simp only [reopenStep, get?_set] at h1
      by_cases hn : n = e.name
      · simp only [hn, if_true, Option.some.injEq] at h1
        subst h1
        simp only [coldOf, Option.some.injEq] at h2
        refine Or.inr (Or.inr (Or.inl ⟨hn.symm, h2, q, hq, hqn⟩))
      · simp only [hn, if_false] at h1
        exact Or.inr (Or.inl ⟨m, h1, h2, q, List.mem_cons_of_mem _ hq, hqn⟩)
    · exact Or.inr (Or.inr (Or.inr h1))

/-- a shadowed entry is not the last of its name -/
theorem shadowed_not_last : ∀ (d : AList DiskEntry), DiskWF d → ∀ (n : Bytes) (x : Int), Shadowed d n x →
    ∀ e, lastFor d n = some e → e.exp ≠ x := by
  intro d
  induction d with
  | nil => intro _ n x h; cases h
  | cons a rest ih =>
    intro hwf n x h e hl hx
    obtain ⟨k, e0⟩ := a
    have hwf' : DiskWF rest := ⟨sorted_tail hwf.1, fun k e hm => hwf.2 k e (List.mem_cons_of_mem _ hm)⟩
    have hrest : (∃ q ∈ rest, q.2.name = n) := by
      rcases h with ⟨_, _, hq⟩ | h
      · exact hq
      · exact shadowed_has_entry rest n x h
    obtain ⟨q, hq, hqn⟩ := hrest
    obtain ⟨e', he'⟩ := lastFor_isSome_of_mem rest n q.1 q.2 hq hqn
    have hl' : lastFor ((k, e0) :: rest) n = some e' := lastFor_cons_of_some he'
    rw [hl'] at hl
    simp only [Option.some.injEq] at hl
    subst hl
    rcases h with ⟨h1, h2, _⟩ | h
    · -- the head entry is (n, x): an entry of the tail cannot sit under the same key
      obtain ⟨hn', k', hm'⟩ := lastFor_mem rest n e' he'
      have hk' : k' = Codec.encodeKey e'.name e'.exp := hwf.2 k' e' (List.mem_cons_of_mem _ hm')
      have hk : k = Codec.encodeKey e0.name e0.exp := hwf.2 k e0 List.mem_cons_self
      have hlt : Bytes.lt k k' = true := (sorted_cons (k, e0) rest hwf.1).2 (k', e') hm'
      have : k = k' := by rw [hk, hk', h1, h2, hn', hx]
      exact lt_ne _ _ hlt this
    · exact ih hwf' n x h e' he' hx

/-! ### the deletes of `newStore` -/

def eraseAll (d : AList DiskEntry) (sh : List (Bytes × Int)) : AList DiskEntry :=
  sh.foldl (fun d p => AList.erase d (Codec.encodeKey p.1 p.2)) d

theorem deletes_disk : ∀ (sh : List (Bytes × Int)) (s : MState),
    (sh.foldl (fun s p => diskDelete s p.1 p.2) s).disk = eraseAll s.disk sh := by
  intro sh
  induction sh with
  | nil => intro s; rfl
  | cons p rest ih =>
    intro s
    simp only [List.foldl_cons, eraseAll]
    rw [ih]
    rfl

theorem deletes_pebble : ∀ (sh : List (Bytes × Int)) (s : MState),
    (sh.foldl (fun s p => diskDelete s p.1 p.2) s).pebble = s.pebble := by
  intro sh
  induction sh with
  | nil => intro s; rfl
  | cons p rest ih => intro s; simp only [List.foldl_cons]; rw [ih]; rfl

/-- deleting entries none of which is the last of its name keeps every name's last entry -/
theorem eraseAll_spec : ∀ (sh : List (Bytes × Int)) (d : AList DiskEntry), DiskWF d →
    (∀ p ∈ sh, ∀ e, lastFor d p.1 = some e → e.exp ≠ p.2) →
    DiskWF (eraseAll d sh) ∧ ∀ name, lastFor (eraseAll d sh) name = lastFor d name := by
  intro sh
  induction sh with
  | nil => intro d h _; exact ⟨h, fun _ => rfl⟩
  | cons p rest ih =>
    intro d hwf h
    have hstep : ∀ name, lastFor (AList.erase d (Codec.encodeKey p.1 p.2)) name = lastFor d name := by
      intro name
      apply lastFor_erase
      intro e hm hl
      obtain ⟨a, b⟩ := wf_entry hwf hm
      have c := (lastFor_mem d name e hl).1
      have hname : name = p.1 := c.symm.trans a
      subst hname
      exact h p List.mem_cons_self e hl b
    have hwf' := diskWF_erase hwf (Codec.encodeKey p.1 p.2)
    obtain ⟨r1, r2⟩ := ih _ hwf' (by
      intro q hq e hl
      rw [hstep] at hl
      exact h q (List.mem_cons_of_mem _ hq) e hl)
    refine ⟨r1, ?_⟩
    intro name
    show lastFor (eraseAll (AList.erase d (Codec.encodeKey p.1 p.2)) rest) name = _
    rw [r2, hstep]

/-- the list of entries `newStore` deletes on `d` -/
def shadowedList (d : AList DiskEntry) : List (Bytes × Int) := (d.foldl reopenStep ([], [])).2

theorem reopened_disk (d : AList DiskEntry) : (reopened d).disk = eraseAll d (shadowedList d) := by
  unfold reopened
  rw [reopen_eq]
  simp only
  rw [deletes_disk]
  rfl

theorem reopened_index (d : AList DiskEntry) : (reopened d).index = (d.foldl reopenStep ([], [])).1 := by
  unfold reopened
  rw [reopen_eq]

theorem shadowedList_harmless {d : AList DiskEntry} (h : DiskWF d) :
    ∀ p ∈ shadowedList d, ∀ e, lastFor d p.1 = some e → e.exp ≠ p.2 := by
  intro p hp e hl
  obtain ⟨n, x⟩ := p
  rcases scan_shadowed d ([], []) n x hp with h1 | ⟨m, h1, _⟩ | h1
  · cases h1
  · simp [AList.get?] at h1
  · exact shadowed_not_last d h n x h1 e hl

/-- reopening keeps the backend well-formed and keeps every name's last entry -/
theorem reopened_spec {d : AList DiskEntry} (h : DiskWF d) :
    DiskWF (reopened d).disk ∧ ∀ name, lastFor (reopened d).disk name = lastFor d name := by
  rw [reopened_disk]
  exact eraseAll_spec _ d h (shadowedList_harmless h)

/-- **characterisation**: the recovered content of a name is the entry of that name scanned last -/
theorem recovered_eq {d : AList DiskEntry} (h : DiskWF d) (name : Bytes) :
    recovered d name = (lastFor d name).map fun e => (e.exp, e.val) := by
  unfold recovered
  rw [reopened_index, scan_index]
  cases hl : lastFor d name with
  | none => simp [AList.get?]
  | some e =>
    simp only [Option.map_some]
    obtain ⟨hwf', hlast⟩ := reopened_spec h
    have hl' := hlast name
    rw [hl] at hl'
    obtain ⟨hn, k, hm⟩ := lastFor_mem _ _ _ hl'
    have hk := hwf'.2 k e hm
    have hg : AList.get? (reopened d).disk k = some e := get?_of_mem _ hwf'.1 k e hm
    simp only [diskGet, coldOf]
    rw [← hn, ← hk, hg]
    rfl

theorem recovered_none_iff {d : AList DiskEntry} (h : DiskWF d) (name : Bytes) :
    recovered d name = none ↔ ∀ k e, (k, e) ∈ d → e.name ≠ name := by
  rw [recovered_eq h, Option.map_eq_none_iff, lastFor_none_iff]

/-- whatever is recovered for a name is one whole entry of the backend stored under that name -/
theorem recovered_some_mem {d : AList DiskEntry} (h : DiskWF d) {name : Bytes} {x : Int} {v : Val}
    (hr : recovered d name = some (x, v)) :
    ∃ e, (Codec.encodeKey name x, e) ∈ d ∧ e.name = name ∧ e.exp = x ∧ e.val = v := by
  rw [recovered_eq h] at hr
  cases hl : lastFor d name with
  | none => rw [hl] at hr; cases hr
  | some e =>
    rw [hl] at hr
    simp only [Option.map_some, Option.some.injEq, Prod.mk.injEq] at hr
    obtain ⟨hn, k, hm⟩ := lastFor_mem _ _ _ hl
    have hk := h.2 k e hm
    refine ⟨e, ?_, hn, hr.1, hr.2⟩
    rw [← hn, ← hr.1, ← hk]
    exact hm

/-- a name with exactly one entry on disk is recovered as that entry -/
theorem recovered_of_only {d : AList DiskEntry} (h : DiskWF d) {name : Bytes} {e : DiskEntry} {k : Bytes}
    (hm : (k, e) ∈ d) (hn : e.name = name)
    (honly : ∀ k' e', (k', e') ∈ d → e'.name = name → e' = e) :
    recovered d name = some (e.exp, e.val) := by
  rw [recovered_eq h]
  obtain ⟨e', he'⟩ := lastFor_isSome_of_mem d name k e hm hn
  obtain ⟨h1, k', h2⟩ := lastFor_mem _ _ _ he'
  rw [he', honly k' e' h2 h1]
  rfl

/-- calls for other names do not change what is recovered for a name -/
theorem recovered_after_other {d : AList DiskEntry} (h : DiskWF d) {pebble : Bool} {c : DiskCall}
    (hc : c.Exact pebble) {name : Bytes} (hn : c.name ≠ name) :
    recovered (diskAfter d c) name = recovered d name := by
  rw [recovered_eq (diskWF_after h hc), recovered_eq h, lastFor_after_other h hc hn]

theorem recovered_run_other {pebble : Bool} {name : Bytes} : ∀ (cs : List DiskCall) {d : AList DiskEntry}, DiskWF d →
    (∀ c ∈ cs, c.Exact pebble) → (∀ c ∈ cs, c.name ≠ name) →
    recovered (runCalls d cs) name = recovered d name := by
  intro cs
  induction cs with
  | nil => intro d _ _ _; rfl
  | cons c cs ih =>
    intro d h hc hn
    rw [runCalls_cons, ih (diskWF_after h (hc c List.mem_cons_self))
      (fun c' hc' => hc c' (List.mem_cons_of_mem _ hc')) (fun c' hc' => hn c' (List.mem_cons_of_mem _ hc'))]
    exact recovered_after_other h (hc c List.mem_cons_self) (hn c List.mem_cons_self)

/-- reopening twice: the backend `newStore` leaves behind is recovered exactly as the one it found -/
theorem recovered_reopened {d : AList DiskEntry} (h : DiskWF d) (name : Bytes) :
    recovered (reopened d).disk name = recovered d name := by
  obtain ⟨hwf', hlast⟩ := reopened_spec h
  rw [recovered_eq hwf', recovered_eq h, hlast]

end NodisVerif.C13
