import NodisVerif.Proofs.C09Writers
/-
  C09 "writers signal" table, part 2: list, hash and set families (see C09Writers.lean for the
  definitions and the Frame calculus).
-/
set_option linter.unusedSectionVars false

namespace NodisVerif.Proofs.C09Writers
open NodisVerif NodisVerif.Store NodisVerif.Api NodisVerif.Proofs.AListLemmas2

theorem asList_of_valOf {s : MState} {key : Bytes} {l : LList} (hv : valOf s key = some (.list l)) :
    asList s key = some l := by simp [asList, hv]
theorem asHash_of_valOf {s : MState} {key : Bytes} {x : AList Bytes} (hv : valOf s key = some (.hash x)) :
    asHash s key = some x := by simp [asHash, hv]
theorem asSet_of_valOf {s : MState} {key : Bytes} {x : AList Unit} (hv : valOf s key = some (.set x)) :
    asSet s key = some x := by simp [asSet, hv]
theorem valOf_of_asSet {s : MState} {key : Bytes} {x : AList Unit} (h : asSet s key = some x) :
    valOf s key = some (.set x) := by
  unfold asSet at h
  split at h
  · next v hv => cases h; exact hv
  · cases h

theorem valOf_putMeta_other (s : MState) (key : Bytes) (m : Meta) (k : Bytes) (hk : k ≠ key) :
    valOf (putMeta s key m) k = valOf s k := by
  simp only [valOf, getMeta_putMeta_other s key m k hk]

/-- a hot value survives a `writeKey` with a nil constructor on any key (it locks, counts, loads a cold
    record; it never replaces a value that is present) -/
theorem valOf_writeKey_none (s : MState) (now : Int) (key k : Bytes) (v : Val) (hv : valOf s k = some v) :
    valOf (writeKey s now key none).1 k = some v := by
  by_cases hk : k = key
  · subst hk
    unfold writeKey
    split
    · next m0 hm =>
      have hm0 : m0.value = some v := by simpa [valOf, hm] using hv
      have h1 : valOf (putMeta (lockW s k) k { m0 with count := m0.count + 1 }) k = some v := by
        simp only [valOf, getMeta_putMeta_same, Option.bind_some, hm0]
      simp only []
      split
      · split
        · exact h1
        · split
          · exact h1
          · next hn => simp [hm0] at hn
      · exact h1
    · exact hv
  · have hL : valOf (lockW s key) k = valOf s k := by simp only [valOf, getMeta_congr (index_lockW s key) k]
    unfold writeKey
    split
    · simp only []
      split
      · split
        · rw [valOf_putMeta_other _ _ _ _ hk, hL]; exact hv
        · split
          · rw [valOf_putMeta_other _ _ _ _ hk, hL]; exact hv
          · split
            · rw [valOf_putMeta_other _ _ _ _ hk, valOf_putMeta_other _ _ _ _ hk, hL]; exact hv
            · rw [valOf_putMeta_other _ _ _ _ hk, hL]; exact hv
      · rw [valOf_putMeta_other _ _ _ _ hk, hL]; exact hv
    · exact hv

/-- a left fold over the state alone whose every step is a closed frame -/
theorem frame_foldl_state {β : Type} (f : MState → β → MState) (hf : ∀ s x, Frame [] s (f s x)) :
    ∀ (xs : List β) (s : MState), Frame [] s (xs.foldl f s)
  | [], _ => Frame.refl _ _
  | x :: xs, s => by
    rw [List.foldl_cons]
    exact (hf s x).trans0 (frame_foldl_state f hf xs (f s x))

/-! ## list family -/
section list
variable (s : MState) (hp : s.pebble = true) (now : Int)
include hp

theorem frame_push (left : Bool) (key : Bytes) (values : List Bytes) :
    Frame [] s (Api.push left s now key values).1 := by
  unfold Api.push
  wk_some s now key (Val.list DsList.empty)
  · split
    · exact h
    · exact (h.setVal hp _ _).finish _ _
  · simp only [asList_of_valOf hv]
    exact (h.setVal hp _ _).finish _ _

theorem frame_pop (left : Bool) (key : Bytes) (count : Int) : Frame [] s (Api.pop left s now key count).1 := by
  unfold Api.pop
  wk_none s now key
  split
  · exact h
  · split
    · exact h
    · split <;> exact ((h.setVal hp _ _).delKeyIf _ _).finish _ _

theorem frame_linsert (key pivot data : Bytes) (before : Bool) :
    Frame [] s (Api.linsert s now key pivot data before).1 := by
  unfold Api.linsert
  wk_none s now key
  split
  · exact h
  · split
    · exact h
    · exact (h.setVal hp _ _).finish _ _

theorem frame_pushX (left : Bool) (key data : Bytes) : Frame [] s (Api.pushX left s now key data).1 := by
  unfold Api.pushX
  wk_none s now key
  split
  · exact h
  · split
    · exact h
    · exact (h.setVal hp _ _).finish _ _

theorem frame_lrem (key data : Bytes) (count : Int) : Frame [] s (Api.lrem s now key data count).1 := by
  unfold Api.lrem
  wk_none s now key
  split
  · exact h
  · split
    · exact h
    · exact ((h.setVal hp _ _).delKeyIf _ _).finish _ _

theorem frame_lset (key : Bytes) (index : Int) (data : Bytes) : Frame [] s (Api.lset s now key index data).1 := by
  unfold Api.lset
  wk_none s now key
  split
  · exact h
  · split
    · exact h
    · split
      · exact h
      · exact (h.setVal hp _ _).finish _ _

theorem frame_ltrim (key : Bytes) (start stop : Int) : Frame [] s (Api.ltrim s now key start stop).1 := by
  unfold Api.ltrim
  wk_none s now key
  split
  · exact h
  · split
    · exact h
    · exact ((h.setVal hp _ _).delKeyIf _ _).finish _ _

theorem frame_rotate (left : Bool) (src dst : Bytes) : Frame [] s (Api.rotate left s now src dst).1 := by
  unfold Api.rotate
  wk_none s now src
  split
  · exact h
  · split
    · exact h
    · next l hl =>
      -- the added destination probe `writeKey … dst none`: one more closed frame
      have h := h.writeKeyNone now dst
      generalize Store.writeKey s1 now dst none = w2 at h ⊢
      obtain ⟨s2, dok⟩ := w2
      dsimp only at h ⊢
      split
      · exact h
      split
      · exact h
      · next vs hvs =>
        have hS := ((h.setVal hp src (Val.list (if left = true then DsList.lpop l 1 else DsList.rpop l 1).1)).delKeyIf
          (DsList.llen (if left = true then DsList.lpop l 1 else DsList.rpop l 1).1 = 0) src).signal src
        refine hS.trans0 ?_
        have hpS := hS.pebble hp
        generalize signal _ src = S at hpS ⊢
        clear hS h
        wk_some S now dst (Val.list DsList.empty)
        · split
          · exact h
          · exact ((h.setVal hpS _ _).signal _).emit _
        · simp only [asList_of_valOf hv]
          exact ((h.setVal hpS _ _).signal _).emit _

end list


/-! ## hash family -/
section hash
variable (s : MState) (hp : s.pebble = true) (now : Int)
include hp

theorem frame_hset (key field value : Bytes) : Frame [] s (Api.hset s now key field value).1 := by
  unfold Api.hset
  wk_some s now key (Val.hash [])
  · split
    · exact h
    · exact (h.setVal hp _ _).finish _ _
  · simp only [asHash_of_valOf hv]
    exact (h.setVal hp _ _).finish _ _

theorem frame_hdel (key : Bytes) (fields : List Bytes) : Frame [] s (Api.hdel s now key fields).1 := by
  unfold Api.hdel
  wk_none s now key
  split
  · exact h
  · split
    · exact h
    · exact ((h.setVal hp _ _).delKeyIf _ _).finish _ _

theorem frame_hincrby (key field : Bytes) (delta : Int) : Frame [] s (Api.hincrby s now key field delta).1 := by
  unfold Api.hincrby
  wk_some s now key (Val.hash [])
  · split
    · exact h
    · split
      · exact h.finish _ _
      · exact (h.setVal hp _ _).finish _ _
  · simp only [asHash_of_valOf hv]
    split
    · exact h.finish _ _
    · exact (h.setVal hp _ _).finish _ _

theorem frame_hsetnx (key field value : Bytes) : Frame [] s (Api.hsetnx s now key field value).1 := by
  unfold Api.hsetnx
  wk_some s now key (Val.hash [])
  · split
    · exact h
    · split
      · exact h
      · exact (h.setVal hp _ _).finish _ _
  · simp only [asHash_of_valOf hv]
    -- a freshly created hash has no field: the "field exists" exit cannot be taken after a creation
    have : DsHash.hexists [] field = false := rfl
    simp only [this, Bool.false_eq_true, if_false]
    exact (h.setVal hp _ _).finish _ _

theorem frame_hmset (key : Bytes) (pairs : List (Bytes × Bytes)) : Frame [] s (Api.hmset s now key pairs).1 := by
  have hfe : ∀ S : MState, Frame [] S (pairs.foldl (fun s (x : Bytes × Bytes) =>
      emit s { typ := 10, key := key, args := [Bytes.toHex x.1, Bytes.toHex x.2] }) S) :=
    fun S => frame_foldl_state _ (fun s x => frame_emit s _) pairs S
  unfold Api.hmset
  wk_some s now key (Val.hash [])
  · split
    · exact h
    · exact ((h.setVal hp _ _).signal _).trans0 (hfe _)
  · simp only [asHash_of_valOf hv]
    exact ((h.setVal hp _ _).signal _).trans0 (hfe _)

end hash

/-! ## set family -/

theorem srem_single_zero {st st' : AList Unit} {member : Bytes} {m : Int}
    (h : DsSet.srem st [member] = (st', m)) (hm : m = 0) : st' = st := by
  simp only [DsSet.srem, List.foldl_cons, List.foldl_nil] at h
  split at h
  · cases h; omega
  · cases h; rfl

section set
variable (s : MState) (hp : s.pebble = true) (now : Int)
include hp

theorem frame_sadd (key : Bytes) (members : List Bytes) : Frame [] s (Api.sadd s now key members).1 := by
  unfold Api.sadd
  wk_some s now key (Val.set [])
  · split
    · exact h
    · exact (h.setVal hp _ _).finish _ _
  · simp only [asSet_of_valOf hv]
    exact (h.setVal hp _ _).finish _ _

theorem frame_srem (key : Bytes) (members : List Bytes) : Frame [] s (Api.srem s now key members).1 := by
  unfold Api.srem
  wk_none s now key
  split
  · exact h
  · split
    · exact h
    · exact ((h.setVal hp _ _).delKeyIf _ _).finish _ _

theorem frame_spop (key : Bytes) (count : Int) (choice : List Bytes) :
    Frame [] s (Api.spop s now key count choice).1 := by
  unfold Api.spop
  wk_none s now key
  split
  · exact h
  · split
    · exact h
    · repeat' (first | exact h | exact ((h.setVal hp _ _).delKeyIf _ _).finish _ _ | split)

theorem frame_smove (src dst member : Bytes) : Frame [] s (Api.smove s now src dst member).1 := by
  unfold Api.smove
  wk_none s now src
  split
  · exact h
  · split
    · exact h
    · next st hst =>
      -- the added destination probe `writeKey … dst none`: one more closed frame, the source value stays
      have hv2 := valOf_writeKey_none s1 now dst src _ (valOf_of_asSet hst)
      have h := h.writeKeyNone now dst
      generalize Store.writeKey s1 now dst none = w2 at h hv2 ⊢
      obtain ⟨s2, dok⟩ := w2
      dsimp only at h hv2 ⊢
      split
      · exact h
      split
      · next hm =>
        -- nothing was removed: the value written back is the value that was there
        have e : (DsSet.srem st [member]).1 = st := srem_single_zero (m := (DsSet.srem st [member]).2) rfl hm
        rw [e]
        exact h.trans0 (frame_setVal_same s2 (h.pebble hp) src _ hv2)
      · have hS := ((h.setVal hp src (Val.set (DsSet.srem st [member]).1)).delKeyIf
          (DsSet.scard (DsSet.srem st [member]).1 = 0) src).signal src
        refine hS.trans0 ?_
        have hpS := hS.pebble hp
        generalize signal _ src = S at hpS ⊢
        clear hS h
        wk_some S now dst (Val.set [])
        · split
          · exact h
          · exact (h.setVal hpS _ _).finish _ _
        · simp only [asSet_of_valOf hv]
          exact (h.setVal hpS _ _).finish _ _

end set

/-! ### the read-only set algebra and S*STORE -/

set_option hygiene false in
/-- after `readKey s now key`: introduces `s1 ok`, `h : Frame [] s s1` -/
macro "rk " s:term:max now:term:max key:term:max : tactic => `(tactic|
  (have h := frame_readKey $s $now $key
   generalize Store.readKey $s $now $key = w at h ⊢
   obtain ⟨s1, ok⟩ := w
   dsimp only at h ⊢))

/-- an API function that only reads: whatever it returns, no record changes logically -/
def ReadOnly (op : MState → Int → List Bytes → R) : Prop :=
  ∀ (s : MState) (now : Int) (keys : List Bytes), s.pebble = true → Frame [] s (op s now keys).1

theorem frame_sread (f : AList Unit → Out) (d : Out) (s : MState) (now : Int) (key : Bytes) :
    Frame [] s (Api.sread f d s now key).1 := by
  unfold Api.sread
  rk s now key
  split
  · exact h
  · split <;> exact h

theorem frame_readMany (s : MState) (now : Int) (keys : List Bytes) : Frame [] s (Api.readMany s now keys).1 := by
  unfold Api.readMany
  have key : ∀ (ks : List Bytes) (acc : MState × List (Option (Option (AList Unit)))),
      Frame [] acc.1 (ks.foldl (fun (acc : MState × List (Option (Option (AList Unit)))) k =>
        let (s, ok) := readKey acc.1 now k
        (s, acc.2 ++ [if ok then some (asSet s k) else none])) acc).1 := by
    intro ks
    induction ks with
    | nil => intro acc; exact Frame.refl _ _
    | cons k ks ih =>
      intro acc
      rw [List.foldl_cons]
      refine Frame.trans0 ?_ (ih _)
      dsimp only
      rk acc.1 now k
      exact h
  exact key keys (s, [])

theorem readOnly_sdiff : ReadOnly Api.sdiff := by
  intro s now keys _
  unfold Api.sdiff
  split
  · exact Frame.refl _ _
  · next k0 rest =>
    rk s now k0
    split
    · exact h
    · have h2 := h.trans0 (frame_readMany s1 now rest)
      generalize Api.readMany s1 now rest = r at h2 ⊢
      obtain ⟨s2, others⟩ := r
      dsimp only at h2 ⊢
      split
      · exact h2
      · split <;> exact h2

theorem frame_sinter_go (now : Int) : ∀ (ks : List Bytes) (s : MState) (acc : List (AList Unit)),
    Frame [] s (Api.sinter.go now ks s acc).1
  | [], s, acc => by unfold Api.sinter.go; exact Frame.refl _ _
  | k :: more, s, acc => by
    unfold Api.sinter.go
    rk s now k
    split
    · exact h
    · split
      · exact h
      · exact h.trans0 (frame_sinter_go now more s1 _)

theorem readOnly_sinter : ReadOnly Api.sinter := by
  intro s now keys _
  unfold Api.sinter
  split
  · exact Frame.refl _ _
  · exact frame_sread _ _ s now _
  · next k0 rest _ =>
    rk s now k0
    split
    · exact h
    · have h2 := h.trans0 (frame_sinter_go now rest s1 [])
      generalize Api.sinter.go now rest s1 [] = r at h2 ⊢
      obtain ⟨s2, o⟩ := r
      dsimp only at h2 ⊢
      split
      · next heq => cases heq; exact h2
      · next heq => cases heq; exact h2
      · next heq =>
        cases heq
        split <;> exact h2

theorem readOnly_sunion : ReadOnly Api.sunion := by
  intro s now keys _
  unfold Api.sunion
  split
  · exact Frame.refl _ _
  · exact frame_sread _ _ s now _
  · have h2 := frame_readMany s now keys
    generalize Api.readMany s now keys = r at h2 ⊢
    obtain ⟨s2, all⟩ := r
    dsimp only at h2 ⊢
    split
    · exact h2
    · split <;> exact h2

/-- S*STORE for any read-only set operation: compute, `Del(dst)`, `SAdd(dst, …)` -/
theorem frame_sstore (op : MState → Int → List Bytes → R) (hop : ReadOnly op) (s : MState) (hp : s.pebble = true)
    (now : Int) (dst : Bytes) (keys : List Bytes) : Frame [] s (Api.sstore op s now dst keys).1 := by
  unfold Api.sstore
  split
  · exact Frame.refl _ _
  · have h1 := hop s now keys hp
    generalize op s now keys = r at h1 ⊢
    obtain ⟨s1, o⟩ := r
    dsimp only at h1 ⊢
    split
    · next heq =>
      cases heq
      have hc := h1.commit
      have h2 := hc.trans0 (frame_del (commit s1) (hc.pebble hp) now [dst])
      generalize Api.del (commit s1) now [dst] = r2 at h2 ⊢
      obtain ⟨s2, o2⟩ := r2
      dsimp only at h2 ⊢
      split
      · exact h2
      · exact h2.commit.trans0 (frame_sadd (commit s2) (h2.commit.pebble hp) now dst _)
    · next heq => cases heq; exact h1

/-! ## the table: list, hash and set families -/

theorem writers_signal_push (s : MState) (hp : s.pebble = true) (now : Int) (left : Bool) (key : Bytes) (values : List Bytes) (k : Bytes) :
    changed s (Api.push left s now key values).1 k → k ∈ (Api.push left s now key values).1.signalled :=
  (frame_push s hp now left key values).sound k

theorem writers_signal_pop (s : MState) (hp : s.pebble = true) (now : Int) (left : Bool) (key : Bytes) (count : Int) (k : Bytes) :
    changed s (Api.pop left s now key count).1 k → k ∈ (Api.pop left s now key count).1.signalled :=
  (frame_pop s hp now left key count).sound k

theorem writers_signal_pushX (s : MState) (hp : s.pebble = true) (now : Int) (left : Bool) (key data : Bytes) (k : Bytes) :
    changed s (Api.pushX left s now key data).1 k → k ∈ (Api.pushX left s now key data).1.signalled :=
  (frame_pushX s hp now left key data).sound k

theorem writers_signal_linsert (s : MState) (hp : s.pebble = true) (now : Int) (key pivot data : Bytes) (before : Bool) (k : Bytes) :
    changed s (Api.linsert s now key pivot data before).1 k → k ∈ (Api.linsert s now key pivot data before).1.signalled :=
  (frame_linsert s hp now key pivot data before).sound k

theorem writers_signal_lrem (s : MState) (hp : s.pebble = true) (now : Int) (key data : Bytes) (count : Int) (k : Bytes) :
    changed s (Api.lrem s now key data count).1 k → k ∈ (Api.lrem s now key data count).1.signalled :=
  (frame_lrem s hp now key data count).sound k

theorem writers_signal_lset (s : MState) (hp : s.pebble = true) (now : Int) (key : Bytes) (index : Int) (data : Bytes) (k : Bytes) :
    changed s (Api.lset s now key index data).1 k → k ∈ (Api.lset s now key index data).1.signalled :=
  (frame_lset s hp now key index data).sound k

theorem writers_signal_ltrim (s : MState) (hp : s.pebble = true) (now : Int) (key : Bytes) (start stop : Int) (k : Bytes) :
    changed s (Api.ltrim s now key start stop).1 k → k ∈ (Api.ltrim s now key start stop).1.signalled :=
  (frame_ltrim s hp now key start stop).sound k

theorem writers_signal_rotate (s : MState) (hp : s.pebble = true) (now : Int) (left : Bool) (src dst : Bytes) (k : Bytes) :
    changed s (Api.rotate left s now src dst).1 k → k ∈ (Api.rotate left s now src dst).1.signalled :=
  (frame_rotate s hp now left src dst).sound k

theorem writers_signal_hset (s : MState) (hp : s.pebble = true) (now : Int) (key field value : Bytes) (k : Bytes) :
    changed s (Api.hset s now key field value).1 k → k ∈ (Api.hset s now key field value).1.signalled :=
  (frame_hset s hp now key field value).sound k

theorem writers_signal_hdel (s : MState) (hp : s.pebble = true) (now : Int) (key : Bytes) (fields : List Bytes) (k : Bytes) :
    changed s (Api.hdel s now key fields).1 k → k ∈ (Api.hdel s now key fields).1.signalled :=
  (frame_hdel s hp now key fields).sound k

theorem writers_signal_hincrby (s : MState) (hp : s.pebble = true) (now : Int) (key field : Bytes) (delta : Int) (k : Bytes) :
    changed s (Api.hincrby s now key field delta).1 k → k ∈ (Api.hincrby s now key field delta).1.signalled :=
  (frame_hincrby s hp now key field delta).sound k

theorem writers_signal_hsetnx (s : MState) (hp : s.pebble = true) (now : Int) (key field value : Bytes) (k : Bytes) :
    changed s (Api.hsetnx s now key field value).1 k → k ∈ (Api.hsetnx s now key field value).1.signalled :=
  (frame_hsetnx s hp now key field value).sound k

theorem writers_signal_hmset (s : MState) (hp : s.pebble = true) (now : Int) (key : Bytes) (pairs : List (Bytes × Bytes)) (k : Bytes) :
    changed s (Api.hmset s now key pairs).1 k → k ∈ (Api.hmset s now key pairs).1.signalled :=
  (frame_hmset s hp now key pairs).sound k

theorem writers_signal_sadd (s : MState) (hp : s.pebble = true) (now : Int) (key : Bytes) (members : List Bytes) (k : Bytes) :
    changed s (Api.sadd s now key members).1 k → k ∈ (Api.sadd s now key members).1.signalled :=
  (frame_sadd s hp now key members).sound k

theorem writers_signal_srem (s : MState) (hp : s.pebble = true) (now : Int) (key : Bytes) (members : List Bytes) (k : Bytes) :
    changed s (Api.srem s now key members).1 k → k ∈ (Api.srem s now key members).1.signalled :=
  (frame_srem s hp now key members).sound k

theorem writers_signal_spop (s : MState) (hp : s.pebble = true) (now : Int) (key : Bytes) (count : Int) (choice : List Bytes) (k : Bytes) :
    changed s (Api.spop s now key count choice).1 k → k ∈ (Api.spop s now key count choice).1.signalled :=
  (frame_spop s hp now key count choice).sound k

theorem writers_signal_smove (s : MState) (hp : s.pebble = true) (now : Int) (src dst member : Bytes) (k : Bytes) :
    changed s (Api.smove s now src dst member).1 k → k ∈ (Api.smove s now src dst member).1.signalled :=
  (frame_smove s hp now src dst member).sound k

/-- S*STORE over any read-only set operation -/
theorem writers_signal_sstore (op : MState → Int → List Bytes → R) (hop : ReadOnly op) (s : MState)
    (hp : s.pebble = true) (now : Int) (dst : Bytes) (keys : List Bytes) (k : Bytes) :
    changed s (Api.sstore op s now dst keys).1 k → k ∈ (Api.sstore op s now dst keys).1.signalled :=
  (frame_sstore op hop s hp now dst keys).sound k

theorem writers_signal_sdiffstore (s : MState) (hp : s.pebble = true) (now : Int) (dst : Bytes) (keys : List Bytes)
    (k : Bytes) :
    changed s (Api.sstore Api.sdiff s now dst keys).1 k → k ∈ (Api.sstore Api.sdiff s now dst keys).1.signalled :=
  writers_signal_sstore _ readOnly_sdiff s hp now dst keys k

theorem writers_signal_sinterstore (s : MState) (hp : s.pebble = true) (now : Int) (dst : Bytes) (keys : List Bytes)
    (k : Bytes) :
    changed s (Api.sstore Api.sinter s now dst keys).1 k → k ∈ (Api.sstore Api.sinter s now dst keys).1.signalled :=
  writers_signal_sstore _ readOnly_sinter s hp now dst keys k

theorem writers_signal_sunionstore (s : MState) (hp : s.pebble = true) (now : Int) (dst : Bytes) (keys : List Bytes)
    (k : Bytes) :
    changed s (Api.sstore Api.sunion s now dst keys).1 k → k ∈ (Api.sstore Api.sunion s now dst keys).1.signalled :=
  writers_signal_sstore _ readOnly_sunion s hp now dst keys k


end NodisVerif.Proofs.C09Writers
