import NodisVerif.Proofs.LinkedListUnlink
/-
  LIndex / LSet / LInsert of the pointer-level list (Model/LinkedList.lean) refine the sequence-level
  functions of Model/DsList.lean.  Core only.
-/
namespace NodisVerif.LinkedList

/-! ### LIndex -/

theorem lindexLoop_seg (h : Heap) (suf : List Nat) (p : Option Nat) (fuel : Nat) (k index : Int)
    (hf : suf.length ≤ fuel) (hs : Seg h p suf none) :
    lindexLoop fuel h (hd suf none) k index =
      .ok (if index < k then none else (suf.map (dataAt h))[(index - k).toNat]?) := by
  induction suf generalizing p fuel k with
  | nil =>
    cases fuel <;> simp [lindexLoop]
  | cons i suf ih =>
    obtain ⟨n, h1, _, h3, h4⟩ := hs
    cases fuel with
    | zero => simp at hf
    | succ fuel =>
      simp only [hd_cons, lindexLoop, rd_ok h1, Res.bind_ok, h3]
      by_cases e : k = index
      · subst e
        simp [dataAt_of h1]
      · rw [if_neg e, ih _ fuel (k + 1) (by simpa using hf) h4]
        by_cases hlt : index < k
        · rw [if_pos hlt, if_pos (by omega)]
        · rw [if_neg hlt, if_neg (by omega)]
          have : (index - k).toNat = (index - (k + 1)).toNat + 1 := by omega
          rw [this]; simp

theorem lindex_refines (l : PList) (c : List Nat) (hi : InvC l c) (index : Int) :
    lindex l index = .ok (DsList.lindex (absL l) index) := by
  unfold lindex DsList.lindex absL
  simp only
  rw [hi.head, ← hd_none, lindexLoop_seg _ c none _ _ _ (by have := hi.length_le; omega) hi.seg,
    abs_eq hi]
  simp

/-! ### LSet -/

/-- `x.data = v` leaves every segment alone -/
theorem seg_setData (h : Heap) (c : List Nat) (p q : Option Nat) (x : Nat) (n : Node) (v : Bytes)
    (hn : h[x]? = some n) (hs : Seg h p c q) : Seg (h.setIfInBounds x { n with data := v }) p c q := by
  induction c generalizing p with
  | nil => trivial
  | cons i c ih =>
    obtain ⟨m, h1, h2, h3, h4⟩ := hs
    by_cases e : x = i
    · subst e
      have : m = n := by rw [hn] at h1; cases h1; rfl
      subst this
      exact ⟨_, get_set_eq h x m _ hn, h2, h3, ih _ h4⟩
    · exact ⟨m, by rw [get_set_ne h x i _ e]; exact h1, h2, h3, ih _ h4⟩

theorem dataAt_set_data_ne (h : Heap) (x : Nat) (v : Node) (i : Nat) (hne : x ≠ i) :
    dataAt (h.setIfInBounds x v) i = dataAt h i := by
  simp [dataAt, get_set_ne h x i v hne]

theorem map_dataAt_congr_ins (h h' : Heap) (c : List Nat) (hf : ∀ i ∈ c, dataAt h' i = dataAt h i) :
    c.map (dataAt h') = c.map (dataAt h) :=
  List.map_congr_left hf

/-- the walk of LSet misses: the index is outside the part of the chain still to walk -/
theorem lsetLoop_miss (h : Heap) (suf : List Nat) (p : Option Nat) (fuel : Nat) (k index : Int) (value : Bytes)
    (hf : suf.length ≤ fuel) (hs : Seg h p suf none) (ho : index < k ∨ index ≥ k + suf.length) :
    lsetLoop fuel h (hd suf none) k index value = .ok (h, false) := by
  induction suf generalizing p fuel k with
  | nil => cases fuel <;> simp [lsetLoop]
  | cons i suf ih =>
    obtain ⟨n, h1, _, h3, h4⟩ := hs
    cases fuel with
    | zero => simp at hf
    | succ fuel =>
      simp only [hd_cons, lsetLoop, rd_ok h1, Res.bind_ok, h3]
      have e : k ≠ index := by simp only [List.length_cons] at ho; omega
      rw [if_neg e]
      exact ih _ fuel (k + 1) (by simpa using hf) h4 (by simp only [List.length_cons] at ho; omega)

/-- the walk of LSet hits -/
theorem lsetLoop_hit (h : Heap) (suf : List Nat) (p : Option Nat) (fuel : Nat) (k index : Int) (value : Bytes)
    (hf : suf.length ≤ fuel) (hs : Seg h p suf none) (hnd : suf.Nodup)
    (hk : k ≤ index) (hlt : index < k + suf.length) :
    ∃ h', lsetLoop fuel h (hd suf none) k index value = .ok (h', true) ∧ h'.size = h.size ∧
      (∀ p c q, Seg h p c q → Seg h' p c q) ∧
      (∀ i, i ∉ suf → dataAt h' i = dataAt h i) ∧
      suf.map (dataAt h') = (suf.map (dataAt h)).set (index - k).toNat value := by
  induction suf generalizing p fuel k with
  | nil => simp at hlt; omega
  | cons i suf ih =>
    obtain ⟨n, h1, _, h3, h4⟩ := hs
    obtain ⟨hni, hnd'⟩ := List.nodup_cons.mp hnd
    cases fuel with
    | zero => simp at hf
    | succ fuel =>
      simp only [hd_cons, lsetLoop, rd_ok h1, Res.bind_ok, h3]
      by_cases e : k = index
      · subst e
        simp only [if_true, setData_ok h1, Res.bind_ok]
        refine ⟨_, rfl, by simp, fun p c q hs => seg_setData h c p q i n value h1 hs, ?_, ?_⟩
        · intro j hj
          exact dataAt_set_data_ne h i _ j (fun e => hj (by simp [e]))
        · simp only [Int.sub_self, Int.toNat_zero, List.map_cons, List.set_cons_zero, List.cons.injEq]
          refine ⟨by simp [dataAt, get_set_eq h i n _ h1], ?_⟩
          exact map_dataAt_congr_ins _ _ _ (fun j hj => dataAt_set_data_ne h i _ j (fun e => hni (e ▸ hj)))
      · rw [if_neg e]
        obtain ⟨h', e1, e2, e3, e4, e5⟩ := ih _ fuel (k + 1) (by simpa using hf) h4 hnd' (by omega)
          (by simp only [List.length_cons] at hlt; omega)
        refine ⟨h', e1, e2, e3, fun j hj => e4 j (fun hm => hj (List.mem_cons_of_mem _ hm)), ?_⟩
        have : (index - k).toNat = (index - (k + 1)).toNat + 1 := by omega
        rw [this]
        simp only [List.map_cons, List.set_cons_succ, List.cons.injEq]
        exact ⟨e4 i hni, e5⟩

theorem lset_refines (l : PList) (c : List Nat) (hi : InvC l c) (index : Int) (value : Bytes) :
    ∃ l', lset l index value = .ok (l', (DsList.lset (absL l) index value).2) ∧ InvC l' c ∧
      absL l' = (DsList.lset (absL l) index value).1 ∧ l'.heap.size = l.heap.size := by
  have hfuel : c.length ≤ l.heap.size + 1 := by have := hi.length_le; omega
  have habs := abs_eq hi
  unfold lset DsList.lset
  simp only [show (absL l).length = l.length from rfl, show (absL l).items = abs l from rfl]
  generalize (if index < 0 then l.length + index else index) = ix
  by_cases ho : ix < 0 ∨ ix ≥ (abs l).length
  · rw [if_pos ho]
    have ho' : ix < 0 ∨ ix ≥ 0 + (c.length : Int) := by
      rw [habs, List.length_map] at ho; omega
    have e1 := lsetLoop_miss _ c none _ 0 ix value hfuel hi.seg ho'
    rw [hd_none, ← hi.head] at e1
    rw [e1]
    exact ⟨l, rfl, hi, rfl, rfl⟩
  · rw [if_neg ho]
    have hk : (0 : Int) ≤ ix := by omega
    have hlt : ix < 0 + (c.length : Int) := by
      rw [habs, List.length_map] at ho; omega
    obtain ⟨h', e1, e2, e3, _, e5⟩ := lsetLoop_hit _ c none _ 0 ix value hfuel hi.seg hi.nodup hk hlt
    rw [hd_none, ← hi.head] at e1
    rw [e1]
    refine ⟨{ l with heap := h' }, rfl, ?_, ?_, e2⟩
    · exact ⟨hi.nodup, e3 _ _ _ hi.seg, hi.head, hi.tail, hi.length⟩
    · have hi' : InvC { l with heap := h' } c := ⟨hi.nodup, e3 _ _ _ hi.seg, hi.head, hi.tail, hi.length⟩
      unfold absL
      rw [abs_eq hi', habs]
      simp only [Int.sub_zero] at e5
      simp only [e5]

/-! ### LInsert -/

theorem setNext_step {h : Heap} {i : Nat} {n : Node} (hn : h[i]? = some n) (v : Option Nat) :
    ∃ h', setNext h i v = .ok h' ∧ h'[i]? = some { n with next := v } ∧ (∀ j, i ≠ j → h'[j]? = h[j]?) ∧
      h'.size = h.size ∧ (∀ j, dataAt h' j = dataAt h j) :=
  ⟨_, setNext_ok hn v, get_set_eq h i n _ hn, fun j hne => get_set_ne h i j _ hne, by simp,
    fun j => dataAt_set_next h i n v hn j⟩

theorem setPrev_step {h : Heap} {i : Nat} {n : Node} (hn : h[i]? = some n) (v : Option Nat) :
    ∃ h', setPrev h i v = .ok h' ∧ h'[i]? = some { n with prev := v } ∧ (∀ j, i ≠ j → h'[j]? = h[j]?) ∧
      h'.size = h.size ∧ (∀ j, dataAt h' j = dataAt h j) :=
  ⟨_, setPrev_ok hn v, get_set_eq h i n _ hn, fun j hne => get_set_ne h i j _ hne, by simp,
    fun j => dataAt_set_prev h i n v hn j⟩

/-- `last.next = v`, the written heap given by what it holds -/
theorem seg_next_last (h h' : Heap) (a : List Nat) (y : Nat) (p q v : Option Nat) (n : Node) (hy : y ∉ a)
    (hn : h[y]? = some n) (hs : Seg h p (a ++ [y]) q) (hy' : h'[y]? = some { n with next := v })
    (hfr : ∀ j, y ≠ j → h'[j]? = h[j]?) : Seg h' p (a ++ [y]) v := by
  refine seg_frame (h.setIfInBounds y { n with next := v }) h' _ p v ?_
    (seg_setNext_last h a y p q v n hy hn hs)
  intro i _
  by_cases e : y = i
  · subst e; rw [hy', get_set_eq h y n _ hn]
  · rw [hfr i e, get_set_ne h y i _ e]

/-- `first.prev = v`, the written heap given by what it holds -/
theorem seg_prev_first (h h' : Heap) (b : List Nat) (y : Nat) (p q v : Option Nat) (n : Node) (hy : y ∉ b)
    (hn : h[y]? = some n) (hs : Seg h p (y :: b) q) (hy' : h'[y]? = some { n with prev := v })
    (hfr : ∀ j, y ≠ j → h'[j]? = h[j]?) : Seg h' v (y :: b) q := by
  refine seg_frame (h.setIfInBounds y { n with prev := v }) h' _ v q ?_
    (seg_setPrev_first h b y p q v n hy hn hs)
  intro i _
  by_cases e : y = i
  · subst e; rw [hy', get_set_eq h y n _ hn]
  · rw [hfr i e, get_set_ne h y i _ e]

theorem nodup_insert_mid {a b : List Nat} {y : Nat} (h : (a ++ b).Nodup) (hy : y ∉ a ++ b) :
    (a ++ y :: b).Nodup := by
  rw [List.nodup_append] at h ⊢
  obtain ⟨ha, hb, hd⟩ := h
  rw [List.mem_append] at hy
  refine ⟨ha, List.nodup_cons.mpr ⟨fun hm => hy (Or.inr hm), hb⟩, ?_⟩
  intro i hi j hj
  rcases List.mem_cons.mp hj with rfl | hj
  · intro e; subst e; exact hy (Or.inl hi)
  · exact hd i hi j hj

/-- `newNode.next = currentNode; currentNode.prev = newNode` -/
theorem link_new_before (h : Heap) (new x : Nat) (m n : Node) (rest : List Nat) (pv pv' : Option Nat)
    (hne : new ≠ x) (hm : h[new]? = some m) (hmp : m.prev = pv) (hn : h[x]? = some n)
    (hs : Seg h pv' (x :: rest) none) (hnr : new ∉ rest) (hxr : x ∉ rest) :
    ∃ h3 h4, setNext h new (some x) = .ok h3 ∧ setPrev h3 x (some new) = .ok h4 ∧
      Seg h4 pv (new :: x :: rest) none ∧ (∀ j, new ≠ j → x ≠ j → h4[j]? = h[j]?) ∧
      h4.size = h.size ∧ ∀ j, dataAt h4 j = dataAt h j := by
  obtain ⟨h3, e3, g3, f3, s3, d3⟩ := setNext_step hm (some x)
  have hx3 : h3[x]? = some n := by rw [f3 x hne]; exact hn
  obtain ⟨h4, e4, g4, f4, s4, d4⟩ := setPrev_step hx3 (some new)
  refine ⟨h3, h4, e3, e4, ?_, ?_, by rw [s4, s3], fun j => by rw [d4, d3]⟩
  · have hs3 : Seg h3 pv' (x :: rest) none :=
      seg_frame h h3 _ _ _ (fun i hi => f3 i (fun e => by
        subst e; rcases List.mem_cons.mp hi with e | hi
        · exact hne e
        · exact hnr hi)) hs
    refine ⟨{ m with next := some x }, by rw [f4 new (fun e => hne e.symm)]; exact g3, hmp, rfl, ?_⟩
    exact seg_prev_first h3 h4 rest x pv' none (some new) n hxr hx3 hs3 g4 f4
  · intro j hj1 hj2; rw [f4 j hj2, f3 j hj1]

/-- `newNode.prev = currentNode; currentNode.next = newNode` -/
theorem link_new_after (h : Heap) (new x : Nat) (m n : Node) (pre : List Nat) (p q nx : Option Nat)
    (hne : new ≠ x) (hm : h[new]? = some m) (hmn : m.next = nx) (hn : h[x]? = some n)
    (hs : Seg h p (pre ++ [x]) q) (hnp : new ∉ pre) (hxp : x ∉ pre) :
    ∃ h3 h4, setPrev h new (some x) = .ok h3 ∧ setNext h3 x (some new) = .ok h4 ∧
      Seg h4 p (pre ++ [x]) (some new) ∧ Seg h4 (some x) [new] nx ∧
      (∀ j, new ≠ j → x ≠ j → h4[j]? = h[j]?) ∧
      h4.size = h.size ∧ ∀ j, dataAt h4 j = dataAt h j := by
  obtain ⟨h3, e3, g3, f3, s3, d3⟩ := setPrev_step hm (some x)
  have hx3 : h3[x]? = some n := by rw [f3 x hne]; exact hn
  obtain ⟨h4, e4, g4, f4, s4, d4⟩ := setNext_step hx3 (some new)
  refine ⟨h3, h4, e3, e4, ?_, ?_, ?_, by rw [s4, s3], fun j => by rw [d4, d3]⟩
  · have hs3 : Seg h3 p (pre ++ [x]) q :=
      seg_frame h h3 _ _ _ (fun i hi => f3 i (fun e => by
        subst e; rcases List.mem_append.mp hi with hi | hi
        · exact hnp hi
        · exact hne (by simpa using hi))) hs
    exact seg_next_last h3 h4 pre x p q (some new) n hxp hx3 hs3 g4 f4
  · exact ⟨{ m with prev := some x }, by rw [f4 new (fun e => hne e.symm)]; exact g3, rfl, hmn, trivial⟩
  · intro j hj1 hj2; rw [f4 j hj2, f3 j hj1]

theorem getLast?_insert_before (a b : List Nat) (x y : Nat) :
    (a ++ y :: x :: b).getLast? = (a ++ x :: b).getLast? := by
  rw [getLast?_append', getLast?_append', lst_cons]
  exact lst_cons_indep ..

theorem insertBefore_spec (l : PList) (pre rest : List Nat) (x : Nat) (n : Node) (data : Bytes)
    (hi : InvC l (pre ++ x :: rest)) (hx : l.heap[x]? = some n) :
    ∃ l', insertAtNode l x n data true = .ok (l', l.length + 1) ∧
      InvC l' (pre ++ l.heap.size :: x :: rest) ∧ l'.heap.size = l.heap.size + 1 ∧
      (∀ i, i < l.heap.size → dataAt l'.heap i = dataAt l.heap i) ∧
      dataAt l'.heap l.heap.size = data := by
  obtain ⟨n', hx', hp, hnx⟩ := seg_mid _ pre rest x none none hi.seg
  have : n = n' := by rw [hx] at hx'; cases hx'; rfl
  subst this
  obtain ⟨hnpre, hnrest, hxpre, hxrest, hdis, _⟩ := nodup_mid hi.nodup
  have hlt := seg_lt _ _ _ _ hi.seg
  have hseg := hi.seg
  rw [seg_append] at hseg
  obtain ⟨sa, sb⟩ := hseg
  simp only [hd_cons] at sa
  have hnewc : l.heap.size ∉ pre ++ x :: rest := fun hm => by have := hlt _ hm; omega
  have hnew_pre : l.heap.size ∉ pre := fun hm => hnewc (List.mem_append_left _ hm)
  have hnew_x : l.heap.size ≠ x := fun e => hnewc (by rw [e]; simp)
  have hnew_rest : l.heap.size ∉ rest := fun hm => hnewc (by simp [hm])
  have hxlt : x < l.heap.size := hlt x (by simp)
  have sa0 := seg_push _ _ _ _ { data := data } sa
  have sb0 := seg_push _ _ _ _ { data := data } sb
  have hx0 : (l.heap.push { data := data })[x]? = some n := by rw [get_push_lt _ _ _ hxlt]; exact hx
  have hnew0 : (l.heap.push { data := data })[l.heap.size]? = some { data := data } := by simp
  have hd0 : ∀ i, i < l.heap.size → dataAt (l.heap.push { data := data }) i = dataAt l.heap i :=
    fun i hi => dataAt_push _ _ i hi
  have hdn0 : dataAt (l.heap.push { data := data }) l.heap.size = data := dataAt_of hnew0
  have hnd' : (pre ++ l.heap.size :: x :: rest).Nodup := nodup_insert_mid hi.nodup hnewc
  have hlen : l.length + 1 = ((pre ++ l.heap.size :: x :: rest).length : Int) := by
    rw [hi.length]; simp only [List.length_append, List.length_cons]; omega
  unfold insertAtNode
  rcases List.eq_nil_or_concat pre with rfl | ⟨pre', p', rfl⟩
  · simp only [lst_nil] at hp sb0
    obtain ⟨h3, h4, e3, e4, s4, f4, z4, d4⟩ := link_new_before _ l.heap.size x { data := data } n rest
      none none hnew_x hnew0 rfl hx0 sb0 hnew_rest hxrest
    simp only [if_true, hp, Res.pure_eq, Res.bind_ok, e3, e4]
    refine ⟨_, rfl, ⟨hnd', s4, rfl, ?_, hlen⟩, ?_, ?_, ?_⟩
    · simp only; rw [hi.tail]; exact (getLast?_insert_before [] rest x _).symm
    · simp only; rw [z4]; simp
    · intro i hi; simp only; rw [d4, hd0 i hi]
    · simp only; rw [d4, hdn0]
  · rw [List.concat_eq_append] at *
    simp only [lst_concat] at hp sb0
    obtain ⟨np, hp0, _, _⟩ := seg_mid _ pre' [] p' none (some x) sa0
    have hp'pre' : p' ∉ pre' := by
      rw [List.nodup_append] at hnpre
      intro hm; exact hnpre.2.2 p' hm p' (by simp) rfl
    have hp'new : p' ≠ l.heap.size := fun e => hnew_pre (by simp [← e])
    have hp'x : p' ≠ x := fun e => hxpre (by simp [← e])
    obtain ⟨h1, e1, g1, f1, z1, d1⟩ := setNext_step hp0 (some l.heap.size)
    have hnew1 : h1[l.heap.size]? = some { data := data } := by rw [f1 _ hp'new]; exact hnew0
    obtain ⟨h2, e2, g2, f2, z2, d2⟩ := setPrev_step hnew1 (some p')
    have hx2 : h2[x]? = some n := by rw [f2 x hnew_x, f1 x hp'x]; exact hx0
    have sb2 : Seg h2 (some p') (x :: rest) none := by
      refine seg_frame _ h2 _ _ _ (fun i hi => ?_) sb0
      have hi' : i ∈ pre' ++ [p'] ++ x :: rest := List.mem_append_right _ hi
      have hip : i ∉ pre' ++ [p'] := by
        intro hm
        rcases List.mem_cons.mp hi with e | hi
        · exact hxpre (e ▸ hm)
        · exact hdis i hm hi
      rw [f2 i (fun e => hnewc (e ▸ hi')), f1 i (fun e => hip (by simp [← e]))]
    obtain ⟨h3, h4, e3, e4, s4, f4, z4, d4⟩ := link_new_before h2 l.heap.size x _ n rest
      (some p') (some p') hnew_x g2 rfl hx2 sb2 hnew_rest hxrest
    have sa1 : Seg h1 none (pre' ++ [p']) (some l.heap.size) :=
      seg_next_last _ h1 pre' p' none (some x) _ np hp'pre' hp0 sa0 g1 f1
    have sa4 : Seg h4 none (pre' ++ [p']) (some l.heap.size) := by
      refine seg_frame h1 h4 _ _ _ (fun i hi => ?_) sa1
      rw [f4 i (fun e => hnew_pre (e ▸ hi)) (fun e => hxpre (e ▸ hi)), f2 i (fun e => hnew_pre (e ▸ hi))]
    simp only [if_true, hp, Res.pure_eq, Res.bind_ok, e1, e2, e3, e4]
    refine ⟨_, rfl, ⟨hnd', ?_, ?_, ?_, hlen⟩, ?_, ?_, ?_⟩
    · rw [seg_append]; simp only [hd_cons, lst_concat]; exact ⟨sa4, s4⟩
    · simp only; rw [hi.head, head?_append', head?_append']; exact hd_concat_indep ..
    · simp only; rw [hi.tail]; exact (getLast?_insert_before _ rest x _).symm
    · simp only; rw [z4, z2, z1]; simp
    · intro i hi; simp only; rw [d4, d2, d1, hd0 i hi]
    · simp only; rw [d4, d2, d1, hdn0]

theorem getLast?_insert_after (a b : List Nat) (x y r : Nat) :
    (a ++ x :: y :: r :: b).getLast? = (a ++ x :: r :: b).getLast? := by
  rw [getLast?_append', getLast?_append']
  simp only [lst_cons]

theorem insertAfter_spec (l : PList) (pre rest : List Nat) (x : Nat) (n : Node) (data : Bytes)
    (hi : InvC l (pre ++ x :: rest)) (hx : l.heap[x]? = some n) :
    ∃ l', insertAtNode l x n data false = .ok (l', l.length + 1) ∧
      InvC l' (pre ++ x :: l.heap.size :: rest) ∧ l'.heap.size = l.heap.size + 1 ∧
      (∀ i, i < l.heap.size → dataAt l'.heap i = dataAt l.heap i) ∧
      dataAt l'.heap l.heap.size = data := by
  obtain ⟨n', hx', hp, hnx⟩ := seg_mid _ pre rest x none none hi.seg
  have : n = n' := by rw [hx] at hx'; cases hx'; rfl
  subst this
  obtain ⟨hnpre, hnrest, hxpre, hxrest, hdis, _⟩ := nodup_mid hi.nodup
  have hlt := seg_lt _ _ _ _ hi.seg
  have hc0 : pre ++ x :: rest = (pre ++ [x]) ++ rest := by simp
  have hc : pre ++ x :: l.heap.size :: rest = (pre ++ [x]) ++ l.heap.size :: rest := by simp
  have hseg := hi.seg
  rw [hc0, seg_append] at hseg
  obtain ⟨sax, sr⟩ := hseg
  simp only [lst_concat] at sr
  have hnewc : l.heap.size ∉ pre ++ x :: rest := fun hm => by have := hlt _ hm; omega
  have hnew_pre : l.heap.size ∉ pre := fun hm => hnewc (List.mem_append_left _ hm)
  have hnew_x : l.heap.size ≠ x := fun e => hnewc (by rw [e]; simp)
  have hnew_rest : l.heap.size ∉ rest := fun hm => hnewc (by simp [hm])
  have hxlt : x < l.heap.size := hlt x (by simp)
  have sax0 := seg_push _ _ _ _ { data := data } sax
  have sr0 := seg_push _ _ _ _ { data := data } sr
  have hx0 : (l.heap.push { data := data })[x]? = some n := by rw [get_push_lt _ _ _ hxlt]; exact hx
  have hnew0 : (l.heap.push { data := data })[l.heap.size]? = some { data := data } := by simp
  have hd0 : ∀ i, i < l.heap.size → dataAt (l.heap.push { data := data }) i = dataAt l.heap i :=
    fun i hi => dataAt_push _ _ i hi
  have hdn0 : dataAt (l.heap.push { data := data }) l.heap.size = data := dataAt_of hnew0
  have hnd' : (pre ++ x :: l.heap.size :: rest).Nodup := by
    rw [hc]
    exact nodup_insert_mid (by rw [← hc0]; exact hi.nodup) (by rw [← hc0]; exact hnewc)
  have hlen : l.length + 1 = ((pre ++ x :: l.heap.size :: rest).length : Int) := by
    rw [hi.length]; simp only [List.length_append, List.length_cons]; omega
  have hhead : l.head = (pre ++ x :: l.heap.size :: rest).head? := by
    rw [hi.head, head?_append', head?_append']; rfl
  unfold insertAtNode
  cases rest with
  | nil =>
    simp only [hd_nil] at hnx sax0
    obtain ⟨h3, h4, e3, e4, s4, sn4, f4, z4, d4⟩ := link_new_after _ l.heap.size x { data := data } n pre
      none none none hnew_x hnew0 rfl hx0 sax0 hnew_pre hxpre
    simp only [Bool.false_eq_true, if_false, hnx, Res.pure_eq, Res.bind_ok, e3, e4]
    refine ⟨_, rfl, ⟨hnd', ?_, hhead, ?_, hlen⟩, ?_, ?_, ?_⟩
    · rw [hc, seg_append]; simp only [hd_cons, lst_concat]; exact ⟨s4, sn4⟩
    · simp
    · simp only; rw [z4]; simp
    · intro i hi; simp only; rw [d4, hd0 i hi]
    · simp only; rw [d4, hdn0]
  | cons r rest' =>
    simp only [hd_cons] at hnx sax0
    have ⟨nr, hr0, _⟩ := sr0
    have hr_rest' : r ∉ rest' := (List.nodup_cons.mp hnrest).1
    have hrnew : r ≠ l.heap.size := fun e => hnew_rest (by simp [← e])
    have hrx : r ≠ x := fun e => hxrest (by simp [← e])
    obtain ⟨h1, e1, g1, f1, z1, d1⟩ := setPrev_step hr0 (some l.heap.size)
    have hnew1 : h1[l.heap.size]? = some { data := data } := by rw [f1 _ hrnew]; exact hnew0
    obtain ⟨h2, e2, g2, f2, z2, d2⟩ := setNext_step hnew1 (some r)
    have hx2 : h2[x]? = some n := by rw [f2 x hnew_x, f1 x hrx]; exact hx0
    have sax2 : Seg h2 none (pre ++ [x]) (some r) := by
      refine seg_frame _ h2 _ _ _ (fun i hi => ?_) sax0
      have hi' : i ∈ pre ++ x :: r :: rest' := by rw [hc0]; exact List.mem_append_left _ hi
      have hir : r ≠ i := by
        intro e; subst e
        rcases List.mem_append.mp hi with hm | hm
        · exact hdis r hm (by simp)
        · exact hrx (by simpa using hm)
      rw [f2 i (fun e => hnewc (e ▸ hi')), f1 i hir]
    obtain ⟨h3, h4, e3, e4, s4, sn4, f4, z4, d4⟩ := link_new_after h2 l.heap.size x _ n pre
      none (some r) (some r) hnew_x g2 rfl hx2 sax2 hnew_pre hxpre
    have sr1 : Seg h1 (some l.heap.size) (r :: rest') none :=
      seg_prev_first _ h1 rest' r (some x) none _ nr hr_rest' hr0 sr0 g1 f1
    have sr4 : Seg h4 (some l.heap.size) (r :: rest') none := by
      refine seg_frame h1 h4 _ _ _ (fun i hi => ?_) sr1
      rw [f4 i (fun e => hnew_rest (e ▸ hi)) (fun e => hxrest (e ▸ hi)), f2 i (fun e => hnew_rest (e ▸ hi))]
    simp only [Bool.false_eq_true, if_false, hnx, Res.pure_eq, Res.bind_ok, e1, e2, e3, e4]
    refine ⟨_, rfl, ⟨hnd', ?_, hhead, ?_, hlen⟩, ?_, ?_, ?_⟩
    · rw [hc, seg_append]; simp only [hd_cons, lst_concat]
      obtain ⟨m, hm, hmp, hmn, _⟩ := sn4
      exact ⟨s4, m, hm, hmp, hmn, sr4⟩
    · simp only; rw [hi.tail]; exact (getLast?_insert_after _ _ _ _ _).symm
    · simp only; rw [z4, z2, z1]; simp
    · intro i hi; simp only; rw [d4, d2, d1, hd0 i hi]
    · simp only; rw [d4, d2, d1, hdn0]

/-- the walk of LInsert over the part `suf` of the chain still to visit -/
theorem linsertLoop_spec (pivot data : Bytes) (before : Bool) (suf : List Nat) :
    ∀ (l : PList) (pre : List Nat) (fuel : Nat), InvC l (pre ++ suf) → suf.length ≤ fuel →
      (DsList.insertAt (suf.map (dataAt l.heap)) pivot data before = none →
        linsertLoop fuel l (hd suf none) pivot data before = .ok (l, -1)) ∧
      (∀ xs, DsList.insertAt (suf.map (dataAt l.heap)) pivot data before = some xs →
        ∃ l' c', linsertLoop fuel l (hd suf none) pivot data before = .ok (l', l.length + 1) ∧
          InvC l' c' ∧ c'.map (dataAt l'.heap) = pre.map (dataAt l.heap) ++ xs ∧
          l'.length = l.length + 1 ∧ l'.heap.size = l.heap.size + 1) := by
  induction suf with
  | nil =>
    intro l pre fuel _ _
    refine ⟨fun _ => (by cases fuel <;> simp [linsertLoop]), fun xs hxs => ?_⟩
    simp [DsList.insertAt] at hxs
  | cons x rest ih =>
    intro l pre fuel hi hf
    obtain ⟨n, hx, _, hnx⟩ := seg_mid _ pre rest x none none hi.seg
    have hdx : dataAt l.heap x = n.data := dataAt_of hx
    have hlt := seg_lt _ _ _ _ hi.seg
    cases fuel with
    | zero => simp at hf
    | succ fuel =>
      simp only [hd_cons, linsertLoop, rd_ok hx, Res.bind_ok, List.map_cons, DsList.insertAt, hdx]
      by_cases e : n.data = pivot
      · simp only [if_pos e]
        refine ⟨fun h => (by cases h), fun xs hxs => ?_⟩
        cases hxs
        cases before with
        | true =>
          obtain ⟨l', e1, hi', hz, hd1, hd2⟩ := insertBefore_spec l pre rest x n data hi hx
          refine ⟨l', _, e1, hi', ?_, ?_, hz⟩
          · simp only [List.map_append, List.map_cons, if_true, hd2]
            rw [map_dataAt_congr_ins l.heap l'.heap pre (fun i hm => hd1 i (hlt i (List.mem_append_left _ hm))),
              map_dataAt_congr_ins l.heap l'.heap rest (fun i hm => hd1 i (hlt i (by simp [hm]))),
              hd1 x (hlt x (by simp)), hdx, e]
          · rw [hi'.length, hi.length]; simp only [List.length_append, List.length_cons]; omega
        | false =>
          obtain ⟨l', e1, hi', hz, hd1, hd2⟩ := insertAfter_spec l pre rest x n data hi hx
          refine ⟨l', _, e1, hi', ?_, ?_, hz⟩
          · simp only [List.map_append, List.map_cons, Bool.false_eq_true, if_false, hd2]
            rw [map_dataAt_congr_ins l.heap l'.heap pre (fun i hm => hd1 i (hlt i (List.mem_append_left _ hm))),
              map_dataAt_congr_ins l.heap l'.heap rest (fun i hm => hd1 i (hlt i (by simp [hm]))),
              hd1 x (hlt x (by simp)), hdx, e]
          · rw [hi'.length, hi.length]; simp only [List.length_append, List.length_cons]; omega
      · simp only [if_neg e, hnx]
        have hi2 : InvC l ((pre ++ [x]) ++ rest) := by simpa using hi
        obtain ⟨ih1, ih2⟩ := ih l (pre ++ [x]) fuel hi2 (by simpa using hf)
        refine ⟨fun h => ih1 (by simpa using h), fun xs hxs => ?_⟩
        cases hr : DsList.insertAt (rest.map (dataAt l.heap)) pivot data before with
        | none => rw [hr] at hxs; cases hxs
        | some ys =>
          rw [hr] at hxs
          simp only [Option.map_some, Option.some.injEq] at hxs
          subst hxs
          obtain ⟨l', c', e1, hi', hm, hl, hz⟩ := ih2 ys hr
          refine ⟨l', c', e1, hi', ?_, hl, hz⟩
          rw [hm]; simp [hdx]

theorem linsert_refines (l : PList) (c : List Nat) (hi : InvC l c) (pivot data : Bytes) (before : Bool) :
    ∃ l' c', linsert l pivot data before = .ok (l', (DsList.linsert (absL l) pivot data before).2) ∧ InvC l' c' ∧
      absL l' = (DsList.linsert (absL l) pivot data before).1 ∧ l'.heap.size ≤ l.heap.size + 1 := by
  have hfuel : c.length ≤ l.heap.size + 1 := by have := hi.length_le; omega
  obtain ⟨h1, h2⟩ := linsertLoop_spec pivot data before c l [] (l.heap.size + 1) (by simpa using hi) hfuel
  rw [hd_none, ← hi.head, ← abs_eq hi] at h1 h2
  unfold linsert DsList.linsert
  simp only [show (absL l).items = abs l from rfl, show (absL l).length = l.length from rfl]
  cases hr : DsList.insertAt (abs l) pivot data before with
  | none =>
    exact ⟨l, c, h1 hr, hi, rfl, by omega⟩
  | some xs =>
    obtain ⟨l', c', e1, hi', hm, hl, hz⟩ := h2 xs hr
    refine ⟨l', c', e1, hi', ?_, by omega⟩
    unfold absL
    rw [abs_eq hi', hm, hl]; simp

end NodisVerif.LinkedList
