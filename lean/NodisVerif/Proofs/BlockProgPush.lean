import NodisVerif.Proofs.BlockProgCor
/-
  No missed wake-up on PROGRAM STATES, from the push side: a waiter that has looked at key k in the current round and
  found it empty, and whose channel is empty, either still has an empty list at k or the push that filled it is still
  on its way to the waiter's channel (between its append and the send to this waiter).  `Seen` is an invariant of every
  schedule; at the `select` it covers all keys.
-/
namespace NodisVerif.Proofs.BlockProg
open NodisVerif.Block NodisVerif.BlockProg NodisVerif.Proofs.Block

/-- the keys the thread has popped from without success in the current round of `look` -/
def looked (l : Loc) : List Key :=
  match l.pc with
  | .l1 | .w0 | .w1 => l.keys.take l.i
  | .l2 => if l.found || l.panicking then [] else l.keys.take l.i
  | _ => []

/-- a push to k has appended its elements and has not yet sent to t's channel -/
def PendingAt (l : Loc) (t : Tid) (k : Key) : Prop :=
  l.key = k ∧ (l.pc = .p2 ∨ l.pc = .p3 ∨ (l.pc = .p4 ∧ t ∈ l.todo))

def Pending (σ : Sys) (t : Tid) (k : Key) : Prop := ∃ p, PendingAt (σ.thr p) t k

/-- THE INVARIANT: looked at k, channel empty ⇒ the list at k is empty or a push to k is on its way to the channel -/
def Seen (σ : Sys) : Prop :=
  ∀ t k, k ∈ looked (σ.thr t) → σ.sh.full t = false → σ.sh.lists k = 0 ∨ Pending σ t k

/-- after the loop of `look` the index is past the last key -/
def idxOk (l : Loc) : Prop :=
  match l.pc with
  | .w0 | .w1 => l.keys.length ≤ l.i
  | .l2 => l.found = false → l.panicking = false → l.keys.length ≤ l.i
  | _ => True

variable {s s' : Shared} {t x : Tid} {l l' : Loc} {ch : Choice} {e : Option Ev}

theorem idx_step (hF : idxOk l) (h : tstep s t l ch = some (s', l', e)) : idxOk l' := by
  unfold tstep at h
  cases hpc : l.pc <;> simp only [hpc] at h hF
  all_goals (try simp only [idxOk, hpc] at hF)
  all_goals (repeat' split at h)
  all_goals (try simp only [Option.some.injEq, Prod.mk.injEq, reduceCtorEq] at h)
  all_goals (try (obtain ⟨_, rfl, _⟩ := h))
  all_goals (try simp only [loopPc])
  all_goals (try split)
  all_goals (first | (simp [idxOk]; done) | (simp_all [idxOk]; done) |
    (simp_all [idxOk, List.getElem?_eq_none_iff]; (try intros); first | omega | grind))

/-- another thread's step does not empty t's channel -/
theorem full_other (h : tstep s x l ch = some (s', l', e)) (hne : t ≠ x) (hf : s'.full t = false) :
    s.full t = false := by
  unfold tstep at h
  cases hpc : l.pc <;> simp only [hpc] at h
  all_goals (repeat' split at h)
  all_goals (try simp only [Option.some.injEq, Prod.mk.injEq, reduceCtorEq] at h)
  all_goals (try (obtain ⟨rfl, _, _⟩ := h))
  all_goals (first | exact hf | (simpa [upd_ne _ _ hne] using hf) | skip)
  -- the send
  all_goals
    simp only [upd_apply] at hf
    split at hf
    · simp at hf
    · exact hf

/-- a list that is empty stays empty, unless the step is the append of a push to it (which is then pending) -/
theorem lists_step {k : Key} (h : tstep s x l ch = some (s', l', e)) (h0 : s.lists k = 0) :
    s'.lists k = 0 ∨ (l'.pc = .p2 ∧ l'.key = k) := by
  unfold tstep at h
  cases hpc : l.pc <;> simp only [hpc] at h
  all_goals (repeat' split at h)
  all_goals (try simp only [Option.some.injEq, Prod.mk.injEq, reduceCtorEq] at h)
  all_goals (try (obtain ⟨rfl, rfl, _⟩ := h))
  all_goals (first | exact Or.inl h0 | skip)
  all_goals
    simp only [upd_apply]
    split
    · rename_i hk; subst hk
      first | (left; simp [h0]; done) | (right; simp; done) | (simp_all; done)
    · exact Or.inl h0

/-- the push that is on its way to t's channel stays on its way until it has sent to it -/
theorem pending_step {k : Key} (h : tstep s x l ch = some (s', l', e)) (hp : PendingAt l t k)
    (hreg : t ∈ s.regOf k) (hf : s'.full t = false) : PendingAt l' t k := by
  obtain ⟨hk, hp⟩ := hp
  rcases hp with hpc | hpc | ⟨hpc, hmem⟩
  · simp only [tstep, hpc] at h
    split at h
    · simp only [Option.some.injEq, Prod.mk.injEq] at h
      obtain ⟨_, rfl, _⟩ := h
      exact ⟨hk, Or.inr (Or.inl rfl)⟩
    · simp at h
  · simp only [tstep, hpc] at h
    cases hr : s.registry l.key with
    | none => rw [← hk] at hreg; simp [Shared.regOf, hr] at hreg
    | some cl =>
      simp only [hr, Option.some.injEq, Prod.mk.injEq] at h
      obtain ⟨_, rfl, _⟩ := h
      have hcl : t ∈ cl := by rw [← hk] at hreg; simpa [Shared.regOf, hr] using hreg
      have hne : cl.isEmpty = false := by cases cl <;> simp at hcl ⊢
      exact ⟨hk, Or.inr (Or.inr ⟨by simp [hne], hcl⟩)⟩
  · simp only [tstep, hpc] at h
    cases htd : l.todo with
    | nil => rw [htd] at hmem; simp at hmem
    | cons c rest =>
      simp only [htd, Option.some.injEq, Prod.mk.injEq] at h
      obtain ⟨rfl, rfl, _⟩ := h
      have hc : t ≠ c := by
        intro hc; subst hc; simp at hf
      rw [htd] at hmem
      have hr : t ∈ rest := by simpa [hc] using hmem
      have hne : rest.isEmpty = false := by cases rest <;> simp at hr ⊢
      exact ⟨hk, Or.inr (Or.inr ⟨by simp [hne], hr⟩)⟩

/-- the thread's own step: what it has looked at grows only by a key it has just found empty -/
theorem looked_step {k : Key} (h : tstep s t l ch = some (s', l', e)) (hk : k ∈ looked l') :
    s'.full t = s.full t ∧ s'.lists = s.lists ∧ (k ∈ looked l ∨ s.lists k = 0) := by
  cases hpc : l.pc
  case l1 =>
    simp only [tstep, hpc] at h
    cases hg : l.keys[l.i]? with
    | none =>
      simp only [hg, Option.some.injEq, Prod.mk.injEq] at h
      obtain ⟨rfl, rfl, _⟩ := h
      simp only [looked] at hk
      split at hk
      · simp at hk
      · exact ⟨rfl, rfl, Or.inl (by simpa [looked, hpc] using hk)⟩
    | some k0 =>
      simp only [hg] at h
      split at h
      · simp at h
      split at h
      · simp only [Option.some.injEq, Prod.mk.injEq] at h
        obtain ⟨rfl, rfl, _⟩ := h
        simp [looked] at hk
      split at h
      · simp only [Option.some.injEq, Prod.mk.injEq] at h
        obtain ⟨rfl, rfl, _⟩ := h
        simp [looked] at hk
      · rename_i hz
        simp only [Option.some.injEq, Prod.mk.injEq] at h
        obtain ⟨rfl, rfl, _⟩ := h
        have hk' : k ∈ l.keys.take (l.i + 1) := by
          by_cases hlt : l.i + 1 < l.keys.length
          · simpa [looked, loopPc, hlt] using hk
          · simp only [looked, loopPc, hlt, if_false] at hk
            split at hk
            · simp at hk
            · exact hk
        rw [take_succ_of_get hg, List.mem_append] at hk'
        refine ⟨rfl, rfl, ?_⟩
        rcases hk' with hk' | hk'
        · exact Or.inl (by simpa [looked, hpc] using hk')
        · right
          simp only [List.mem_singleton] at hk'
          subst hk'; omega
  case l2 =>
    simp only [tstep, hpc] at h
    split at h
    · simp only [Option.some.injEq, Prod.mk.injEq] at h
      obtain ⟨rfl, rfl, _⟩ := h
      simp [looked] at hk
    · rename_i hfp
      split at h
      · simp only [Option.some.injEq, Prod.mk.injEq] at h
        obtain ⟨rfl, rfl, _⟩ := h
        simp [looked] at hk
      · simp only [Option.some.injEq, Prod.mk.injEq] at h
        obtain ⟨rfl, rfl, _⟩ := h
        refine ⟨rfl, rfl, Or.inl ?_⟩
        simp only [looked] at hk
        simp only [looked, hpc, hfp]
        simpa using hk
  case w0 =>
    simp only [tstep, hpc, Option.some.injEq, Prod.mk.injEq] at h
    obtain ⟨rfl, rfl, _⟩ := h
    exact ⟨rfl, rfl, Or.inl (by simpa [looked, hpc] using hk)⟩
  all_goals
    exfalso
    unfold tstep at h
    simp only [hpc] at h
    repeat' split at h
    all_goals (try simp only [Option.some.injEq, Prod.mk.injEq, reduceCtorEq] at h)
    all_goals (try (obtain ⟨_, rfl, _⟩ := h))
    all_goals (try simp only [loopPc] at hk)
    all_goals (try split at hk)
    all_goals (first | (simp [looked] at hk; done) | (simp_all [looked]; done))

theorem looked_sub {l : Loc} {k : Key} (hk : k ∈ looked l) : k ∈ l.keys ∧ isBody l.pc = true ∧
    (l.pc = .l1 ∨ l.pc = .l2 ∨ l.pc = .w0 ∨ l.pc = .w1) := by
  simp only [looked] at hk
  cases hpc : l.pc <;> simp only [hpc] at hk <;> try (simp at hk; done)
  all_goals (try split at hk)
  all_goals (first | (simp at hk; done) | exact ⟨List.mem_of_mem_take hk, rfl, by simp⟩)

/-- a thread that has looked at k is registered for k -/
theorem registered_of_looked {σ : Sys} {bs : BState} (hI : Inv σ bs) {t : Tid} {k : Key}
    (hk : k ∈ looked (σ.thr t)) : t ∈ σ.sh.regOf k := by
  obtain ⟨hm, hb, _⟩ := looked_sub hk
  have hC := hI.crel t k
  have : regKeys (σ.thr t) = (σ.thr t).keys := by
    simp only [regKeys]
    cases hp : (σ.thr t).pc <;> simp [hp, isBody] at hb ⊢
  rw [this] at hC
  exact List.count_pos_iff.1 (by rw [hC]; exact List.count_pos_iff.2 hm)

theorem seen_step {σ σ' : Sys} {bs : BState} (hI : Inv σ bs) (hS : Seen σ) (h : σ.step x ch = some (σ', e)) :
    Seen σ' := by
  unfold Sys.step at h
  cases hs : tstep σ.sh x (σ.thr x) ch with
  | none => simp [hs] at h
  | some r =>
    obtain ⟨s', l', e'⟩ := r
    simp only [hs, Option.some.injEq, Prod.mk.injEq] at h
    obtain ⟨rfl, rfl⟩ := h
    intro t k hk hf
    by_cases htx : t = x
    · subst htx
      simp only [upd_self] at hk
      obtain ⟨hfull, hlists, hor⟩ := looked_step hs hk
      simp only at hf
      rcases hor with hold | h0
      · rcases hS t k hold (by rw [← hfull]; exact hf) with h0 | ⟨p, hp⟩
        · left; simp only [hlists]; exact h0
        · right
          have hpt : p ≠ t := by
            intro hpt; subst hpt
            obtain ⟨_, _, hpcs⟩ := looked_sub hold
            obtain ⟨_, hq⟩ := hp
            rcases hq with hq | hq | ⟨hq, _⟩ <;> rcases hpcs with h1 | h1 | h1 | h1 <;> simp [hq] at h1
          exact ⟨p, by simpa [upd_ne _ _ hpt] using hp⟩
      · left; simp only [hlists]; exact h0
    · simp only [upd_ne _ _ htx] at hk
      have hf0 := full_other hs htx hf
      rcases hS t k hk hf0 with h0 | ⟨p, hp⟩
      · rcases lists_step hs h0 with h1 | ⟨h1, h2⟩
        · exact Or.inl h1
        · exact Or.inr ⟨x, by simpa [PendingAt] using ⟨h2, Or.inl h1⟩⟩
      · right
        by_cases hpx : p = x
        · subst hpx
          exact ⟨p, by simpa using pending_step hs hp (registered_of_looked hI hk) hf⟩
        · exact ⟨p, by simpa [upd_ne _ _ hpx] using hp⟩

theorem reach_seen {σ : Sys} {es : List Ev} (h : Reach σ es) : Seen σ ∧ ∀ t, idxOk (σ.thr t) := by
  induction h with
  | init => exact ⟨fun t k hk => by simp [looked] at hk, fun _ => by simp [idxOk]⟩
  | @step σ σ' es t ch e hr hs ih =>
    obtain ⟨bs, _, hI, _⟩ := reach_sim hr
    refine ⟨seen_step hI ih.1 hs, fun t' => ?_⟩
    unfold Sys.step at hs
    cases hts : tstep σ.sh t (σ.thr t) ch with
    | none => simp [hts] at hs
    | some r =>
      obtain ⟨s', l', e'⟩ := r
      simp only [hts, Option.some.injEq, Prod.mk.injEq] at hs
      obtain ⟨rfl, rfl⟩ := hs
      by_cases ht : t' = t
      · subst ht; simpa using idx_step (ih.2 t') hts
      · simpa [upd_ne _ _ ht] using ih.2 t'

end NodisVerif.Proofs.BlockProg
