import NodisVerif.Proofs.AListLemmas
/-
  Generic lemmas on key-sorted association lists as finite maps (used by C03).
-/
namespace NodisVerif.Proofs.AListLemmas2
open NodisVerif.Proofs.AListLemmas

variable {V : Type}

/-! ### Sorted ↔ Pairwise -/

theorem sorted_of_pairwise : ∀ (m : AList V), m.Pairwise KeyLt → AList.Sorted m := by
  intro m
  induction m with
  | nil => intro _; trivial
  | cons a rest ih =>
    intro h
    obtain ⟨h1, h2⟩ := List.pairwise_cons.mp h
    cases rest with
    | nil => trivial
    | cons b rest' =>
      obtain ⟨ka, va⟩ := a
      obtain ⟨kb, vb⟩ := b
      exact ⟨h1 (kb, vb) (by simp), ih h2⟩

theorem sorted_iff_pairwise (m : AList V) : AList.Sorted m ↔ m.Pairwise KeyLt :=
  ⟨sorted_pairwise m, sorted_of_pairwise m⟩

theorem sorted_cons_iff (a : Bytes × V) (rest : AList V) :
    AList.Sorted (a :: rest) ↔ (∀ b ∈ rest, Bytes.lt a.1 b.1 = true) ∧ AList.Sorted rest := by
  rw [sorted_iff_pairwise, sorted_iff_pairwise, List.pairwise_cons]
  rfl

theorem sorted_tail {a : Bytes × V} {rest : AList V} (h : AList.Sorted (a :: rest)) : AList.Sorted rest :=
  ((sorted_cons_iff a rest).mp h).2

/-! ### get? / contains -/

theorem contains_eq_true_iff (m : AList V) (k : Bytes) : AList.contains m k = true ↔ ∃ v, AList.get? m k = some v := by
  simp [AList.contains, Option.isSome_iff_exists]

theorem contains_eq_false_iff (m : AList V) (k : Bytes) : AList.contains m k = false ↔ AList.get? m k = none := by
  simp [AList.contains]

theorem mem_of_get? : ∀ (m : AList V) (k : Bytes) (v : V), AList.get? m k = some v → (k, v) ∈ m := by
  intro m
  induction m with
  | nil => intro k v h; simp [AList.get?] at h
  | cons a rest ih =>
    intro k v h
    obtain ⟨k', w⟩ := a
    simp only [AList.get?] at h
    split at h
    · next e => simp at h; subst e; subst h; simp
    · exact List.mem_cons_of_mem _ (ih k v h)

theorem get?_none_of_lt : ∀ (m : AList V) (k : Bytes),
    (∀ b ∈ m, Bytes.lt k b.1 = true) → AList.get? m k = none := by
  intro m
  induction m with
  | nil => intro _ _; rfl
  | cons a rest ih =>
    intro k h
    obtain ⟨k', w⟩ := a
    have h1 : Bytes.lt k k' = true := h (k', w) (by simp)
    have h2 : ¬ k' = k := fun e => lt_ne _ _ h1 e.symm
    simp only [AList.get?, h2, if_false]
    exact ih k (fun b hb => h b (List.mem_cons_of_mem _ hb))

theorem get?_of_mem : ∀ (m : AList V), AList.Sorted m → ∀ (k : Bytes) (v : V), (k, v) ∈ m → AList.get? m k = some v := by
  intro m
  induction m with
  | nil => intro _ k v h; simp at h
  | cons a rest ih =>
    intro hs k v h
    obtain ⟨k', w⟩ := a
    obtain ⟨hlt, hrest⟩ := (sorted_cons_iff _ _).mp hs
    rcases List.mem_cons.mp h with e | h'
    · cases e; simp [AList.get?]
    · have h1 : Bytes.lt k' k = true := hlt (k, v) h'
      have h2 : ¬ k' = k := lt_ne _ _ h1
      simp only [AList.get?, h2, if_false]
      exact ih hrest k v h'

/-- for a sorted list, lookup and enumeration agree -/
theorem get?_eq_some_iff_mem (m : AList V) (hs : AList.Sorted m) (k : Bytes) (v : V) :
    AList.get? m k = some v ↔ (k, v) ∈ m :=
  ⟨mem_of_get? m k v, get?_of_mem m hs k v⟩

theorem mem_keys_iff_contains : ∀ (m : AList V) (k : Bytes), k ∈ AList.keys m ↔ AList.contains m k = true := by
  intro m
  induction m with
  | nil => intro k; simp [AList.keys, AList.contains, AList.get?]
  | cons a rest ih =>
    intro k
    obtain ⟨k', w⟩ := a
    have ih' := ih k
    simp only [AList.keys, AList.contains] at ih' ⊢
    simp only [List.map_cons, List.mem_cons, AList.get?]
    by_cases e : k' = k
    · simp [e]
    · have e' : ¬ k = k' := fun h => e h.symm
      simp [e, e', ih']

/-! ### set -/

theorem get?_set_same : ∀ (m : AList V) (k : Bytes) (v : V), AList.get? (AList.set m k v) k = some v := by
  intro m
  induction m with
  | nil => intro k v; simp [AList.set, AList.get?]
  | cons a rest ih =>
    intro k v
    obtain ⟨k', w⟩ := a
    simp only [AList.set]
    split
    · next e => simp [AList.get?, e]
    · next e =>
      split
      · simp [AList.get?]
      · simp [AList.get?, e, ih]

theorem get?_set_other : ∀ (m : AList V) (k : Bytes) (v : V) (x : Bytes), x ≠ k →
    AList.get? (AList.set m k v) x = AList.get? m x := by
  intro m
  induction m with
  | nil =>
    intro k v x hx
    have : ¬ k = x := fun e => hx e.symm
    simp [AList.set, AList.get?, this]
  | cons a rest ih =>
    intro k v x hx
    obtain ⟨k', w⟩ := a
    have hx' : ¬ k = x := fun e => hx e.symm
    simp only [AList.set]
    split
    · next e =>
      have : ¬ k' = x := by rw [e]; exact hx'
      simp [AList.get?, this]
    · next e =>
      split
      · simp [AList.get?, hx']
      · simp only [AList.get?]
        split
        · rfl
        · exact ih k v x hx

theorem get?_set (m : AList V) (k : Bytes) (v : V) (x : Bytes) :
    AList.get? (AList.set m k v) x = if x = k then some v else AList.get? m x := by
  by_cases h : x = k
  · subst h; simp [get?_set_same]
  · simp [h, get?_set_other m k v x h]

theorem contains_set (m : AList V) (k : Bytes) (v : V) (x : Bytes) :
    AList.contains (AList.set m k v) x = (decide (x = k) || AList.contains m x) := by
  simp only [AList.contains, get?_set]
  by_cases h : x = k <;> simp [h]

theorem mem_set : ∀ (m : AList V) (k : Bytes) (v : V) (b : Bytes × V),
    b ∈ AList.set m k v → b = (k, v) ∨ b ∈ m := by
  intro m
  induction m with
  | nil => intro k v b h; simp [AList.set] at h; exact Or.inl h
  | cons a rest ih =>
    intro k v b h
    obtain ⟨k', w⟩ := a
    simp only [AList.set] at h
    split at h
    · next e =>
      rcases List.mem_cons.mp h with h | h
      · left; rw [h, e]
      · right; exact List.mem_cons_of_mem _ h
    · split at h
      · rcases List.mem_cons.mp h with h | h
        · left; exact h
        · right; exact h
      · rcases List.mem_cons.mp h with h | h
        · right; rw [h]; simp
        · rcases ih k v b h with h | h
          · left; exact h
          · right; exact List.mem_cons_of_mem _ h

theorem set_preserves_sorted : ∀ (m : AList V), AList.Sorted m → ∀ (k : Bytes) (v : V),
    AList.Sorted (AList.set m k v) := by
  intro m
  induction m with
  | nil => intro _ k v; trivial
  | cons a rest ih =>
    intro hs k v
    obtain ⟨k', w⟩ := a
    obtain ⟨hlt, hrest⟩ := (sorted_cons_iff _ _).mp hs
    simp only [AList.set]
    split
    · exact (sorted_cons_iff _ _).mpr ⟨hlt, hrest⟩
    · next e =>
      split
      · next hk =>
        refine (sorted_cons_iff _ _).mpr ⟨?_, hs⟩
        intro b hb
        rcases List.mem_cons.mp hb with rfl | hb
        · exact hk
        · exact lt_trans _ _ _ hk (hlt b hb)
      · next hk =>
        have hk' : Bytes.lt k' k = true := by
          cases h : Bytes.lt k' k with
          | true => rfl
          | false => exact absurd (lt_total k' k h (by simpa using hk)) e
        refine (sorted_cons_iff _ _).mpr ⟨?_, ih hrest k v⟩
        intro b hb
        rcases mem_set rest k v b hb with rfl | hb
        · exact hk'
        · exact hlt b hb

theorem length_set : ∀ (m : AList V), AList.Sorted m → ∀ (k : Bytes) (v : V),
    (AList.set m k v).length = if AList.contains m k then m.length else m.length + 1 := by
  intro m
  induction m with
  | nil => intro _ k v; simp [AList.set, AList.contains, AList.get?]
  | cons a rest ih =>
    intro hs k v
    obtain ⟨k', w⟩ := a
    obtain ⟨hlt, hrest⟩ := (sorted_cons_iff _ _).mp hs
    simp only [AList.set]
    split
    · next e => simp [AList.contains, AList.get?, e]
    · next e =>
      split
      · next hk =>
        have : AList.get? ((k', w) :: rest) k = none := by
          apply get?_none_of_lt
          intro b hb
          rcases List.mem_cons.mp hb with rfl | hb
          · exact hk
          · exact lt_trans _ _ _ hk (hlt b hb)
        simp [AList.contains, this]
      · have := ih hrest k v
        simp only [AList.contains, AList.get?, e, if_false, List.length_cons] at this ⊢
        rw [this]
        split <;> simp [*]

/-! ### erase -/

theorem get?_erase_other : ∀ (m : AList V) (k x : Bytes), x ≠ k →
    AList.get? (AList.erase m k) x = AList.get? m x := by
  intro m
  induction m with
  | nil => intro k x _; rfl
  | cons a rest ih =>
    intro k x hx
    obtain ⟨k', w⟩ := a
    simp only [AList.erase]
    split
    · next e =>
      have : ¬ k' = x := by rw [e]; exact fun h => hx h.symm
      simp [AList.get?, this]
    · simp only [AList.get?]
      split
      · rfl
      · exact ih k x hx

theorem get?_erase_same : ∀ (m : AList V), AList.Sorted m → ∀ (k : Bytes), AList.get? (AList.erase m k) k = none := by
  intro m
  induction m with
  | nil => intro _ k; rfl
  | cons a rest ih =>
    intro hs k
    obtain ⟨k', w⟩ := a
    obtain ⟨hlt, hrest⟩ := (sorted_cons_iff _ _).mp hs
    simp only [AList.erase]
    split
    · next e => subst e; exact get?_none_of_lt rest k' hlt
    · next e => simp only [AList.get?, e, if_false]; exact ih hrest k

theorem get?_erase (m : AList V) (hs : AList.Sorted m) (k x : Bytes) :
    AList.get? (AList.erase m k) x = if x = k then none else AList.get? m x := by
  by_cases h : x = k
  · subst h; simp [get?_erase_same m hs]
  · simp [h, get?_erase_other m k x h]

theorem contains_erase (m : AList V) (hs : AList.Sorted m) (k x : Bytes) :
    AList.contains (AList.erase m k) x = (!decide (x = k) && AList.contains m x) := by
  simp only [AList.contains, get?_erase m hs]
  by_cases h : x = k <;> simp [h]

theorem erase_sublist : ∀ (m : AList V) (k : Bytes), (AList.erase m k).Sublist m := by
  intro m
  induction m with
  | nil => intro k; exact List.Sublist.refl _
  | cons a rest ih =>
    intro k
    obtain ⟨k', w⟩ := a
    simp only [AList.erase]
    split
    · exact List.sublist_cons_self _ _
    · exact (ih k).cons_cons _

theorem erase_preserves_sorted (m : AList V) (hs : AList.Sorted m) (k : Bytes) : AList.Sorted (AList.erase m k) := by
  rw [sorted_iff_pairwise] at hs ⊢
  exact hs.sublist (erase_sublist m k)

theorem length_erase : ∀ (m : AList V) (k : Bytes),
    (AList.erase m k).length = if AList.contains m k then m.length - 1 else m.length := by
  intro m
  induction m with
  | nil => intro k; simp [AList.erase, AList.contains, AList.get?]
  | cons a rest ih =>
    intro k
    obtain ⟨k', w⟩ := a
    simp only [AList.erase]
    split
    · next e => simp [AList.contains, AList.get?, e]
    · next e =>
      have := ih k
      simp only [AList.contains, AList.get?, e, if_false, List.length_cons] at this ⊢
      rw [this]
      split
      · next hc =>
        have : rest.length ≠ 0 := by
          intro h0
          have : rest = [] := List.length_eq_zero_iff.mp h0
          subst this
          simp [AList.get?] at hc
        simp only [hc, if_true]
        omega
      · next hc => simp [hc]

theorem erase_of_not_contains : ∀ (m : AList V) (k : Bytes), AList.contains m k = false → AList.erase m k = m := by
  intro m
  induction m with
  | nil => intro k _; rfl
  | cons a rest ih =>
    intro k h
    obtain ⟨k', w⟩ := a
    simp only [AList.contains, AList.get?] at h
    split at h
    · simp at h
    · next e =>
      simp only [AList.erase, e, if_false]
      rw [ih k (by simpa [AList.contains] using h)]

/-! ### keys -/

theorem keys_nodup (m : AList V) (hs : AList.Sorted m) : (AList.keys m).Nodup := by
  rw [sorted_iff_pairwise] at hs
  unfold AList.keys List.Nodup
  rw [List.pairwise_map]
  exact hs.imp (fun {a b} h => lt_ne _ _ h)

theorem length_keys (m : AList V) : (AList.keys m).length = m.length := by simp [AList.keys]

/-- extensionality: two sorted association lists with the same lookups are equal -/
theorem ext_of_sorted : ∀ (m₁ m₂ : AList V), AList.Sorted m₁ → AList.Sorted m₂ →
    (∀ x, AList.get? m₁ x = AList.get? m₂ x) → m₁ = m₂ := by
  intro m₁
  induction m₁ with
  | nil =>
    intro m₂ _ _ h
    cases m₂ with
    | nil => rfl
    | cons b r =>
      obtain ⟨kb, vb⟩ := b
      have := h kb
      simp [AList.get?] at this
  | cons a rest ih =>
    intro m₂ hs1 hs2 h
    obtain ⟨ka, va⟩ := a
    cases m₂ with
    | nil =>
      have := h ka
      simp [AList.get?] at this
    | cons b r =>
      obtain ⟨kb, vb⟩ := b
      obtain ⟨hlt1, hr1⟩ := (sorted_cons_iff _ _).mp hs1
      obtain ⟨hlt2, hr2⟩ := (sorted_cons_iff _ _).mp hs2
      have hk : ka = kb := by
        by_cases e : ka = kb
        · exact e
        · exfalso
          have e' : ¬ kb = ka := fun x => e x.symm
          have h1 := h ka
          have h2 := h kb
          simp only [AList.get?, if_true, e, e', if_false] at h1 h2
          have m1 : (ka, va) ∈ r := mem_of_get? r ka va h1.symm
          have m2 : (kb, vb) ∈ rest := mem_of_get? rest kb vb h2
          have l1 := hlt2 _ m1
          have l2 := hlt1 _ m2
          simp only at l1 l2
          have := lt_asymm _ _ l1
          rw [l2] at this
          cases this
      subst hk
      have hv : va = vb := by
        have := h ka
        simpa [AList.get?] using this
      subst hv
      have : rest = r := by
        apply ih r hr1 hr2
        intro x
        by_cases e : ka = x
        · subst e
          rw [get?_none_of_lt rest ka hlt1, get?_none_of_lt r ka hlt2]
        · have := h x
          simpa [AList.get?, e] using this
      rw [this]

end NodisVerif.Proofs.AListLemmas2
