import NodisVerif.Proofs.FloatDecMono2
/-
  Correct rounding: `FloatDec.roundRat` returns a double within half a unit in the last place of num/den (the unit of
  num/den's own binade), and the even significand on an exact tie. With monotonicity and exactness (FloatDecMono,
  FloatDecRound) this is the IEEE-754 round-to-nearest-even specification of `strconv.ParseFloat`'s value.
-/
namespace NodisVerif.Proofs.FloatDecMono
open NodisVerif NodisVerif.F64 NodisVerif.FloatDec NodisVerif.Proofs.C09Float

/-- round-half-even of n / 2^sh (sh ≥ 1): within half a unit; strictly inside when n is odd and sh ≥ 2; even on a tie -/
theorem rne_error (n sh : Nat) (hsh : 1 ≤ sh) :
    let qq := if n % 2 ^ sh > 2 ^ (sh - 1) ∨ (n % 2 ^ sh = 2 ^ (sh - 1) ∧ (n >>> sh) % 2 = 1) then n >>> sh + 1 else n >>> sh
    qq * 2 ^ sh ≤ n + 2 ^ (sh - 1) ∧ n ≤ qq * 2 ^ sh + 2 ^ (sh - 1) ∧
    (n % 2 = 1 → 2 ≤ sh → qq * 2 ^ sh + 1 ≤ n + 2 ^ (sh - 1) ∧ n + 1 ≤ qq * 2 ^ sh + 2 ^ (sh - 1)) ∧
    ((qq * 2 ^ sh = n + 2 ^ (sh - 1) ∨ n = qq * 2 ^ sh + 2 ^ (sh - 1)) → qq % 2 = 0) := by
  intro qq
  have hp : 0 < 2 ^ sh := Nat.two_pow_pos _
  have e1 := Nat.div_add_mod n (2 ^ sh)
  have m1 := Nat.mod_lt n hp
  have h2 : 2 ^ sh = 2 * 2 ^ (sh - 1) := by
    have : sh = (sh - 1) + 1 := by omega
    rw [this, Nat.pow_succ, Nat.mul_comm]; simp
  have hpar : 2 ≤ sh → 2 ^ (sh - 1) % 2 = 0 := by
    intro h
    have : sh - 1 = (sh - 2) + 1 := by omega
    rw [this, Nat.pow_succ]; exact Nat.mul_mod_left _ _
  have hqq : qq = if n % 2 ^ sh > 2 ^ (sh - 1) ∨ (n % 2 ^ sh = 2 ^ (sh - 1) ∧ (n / 2 ^ sh) % 2 = 1) then n / 2 ^ sh + 1 else n / 2 ^ sh := by
    show (if _ then _ else _) = _
    rw [Nat.shiftRight_eq_div_pow]
  rw [hqq]
  generalize n / 2 ^ sh = q0 at *
  generalize n % 2 ^ sh = r at *
  generalize hH : 2 ^ (sh - 1) = H at *
  rw [h2] at e1 m1 ⊢
  have hmul : ∀ x : Nat, x * (2 * H) = 2 * H * x := fun x => Nat.mul_comm _ _
  split
  · next hc =>
    rw [hmul]
    have : 2 * H * (q0 + 1) = 2 * H * q0 + 2 * H := by rw [Nat.mul_add, Nat.mul_one]
    rw [this]
    have hXe : (2 * H * q0) % 2 = 0 := by rw [Nat.mul_assoc]; exact Nat.mul_mod_right _ _
    generalize 2 * H * q0 = X at *
    refine ⟨by omega, by omega, fun hodd h2' => ?_, fun ht => ?_⟩
    · have := hpar h2'
      have hX : (X + r) % 2 = 1 := by rw [e1]; exact hodd
      omega
    · rcases hc with hc | ⟨hc1, hc2⟩
      · omega
      · omega
  · next hc =>
    rw [hmul]
    have hXe : (2 * H * q0) % 2 = 0 := by rw [Nat.mul_assoc]; exact Nat.mul_mod_right _ _
    generalize 2 * H * q0 = X at *
    refine ⟨by omega, by omega, fun hodd h2' => ?_, fun ht => ?_⟩
    · have := hpar h2'
      have hX : (X + r) % 2 = 1 := by rw [e1]; exact hodd
      omega
    · have hr : r = H := by omega
      have : ¬ (q0 % 2 = 1) := fun h => hc (Or.inr ⟨hr, h⟩)
      omega

/-- the quotient + sticky bit handed to `roundPack` is rounded to within half a unit of the true value 2N/D -/
theorem scaled_nearest (N D : Nat) (hD : 0 < D) (hQ : 2 ^ 54 ≤ N / D) (e : Int) :
    ∃ sh : Nat, 2 ≤ sh ∧ (rndq (scaled N D 0) e).2 = e + sh ∧
      (rndq (scaled N D 0) e).1 * 2 ^ sh * D ≤ 2 * N + 2 ^ (sh - 1) * D ∧
      2 * N ≤ (rndq (scaled N D 0) e).1 * 2 ^ sh * D + 2 ^ (sh - 1) * D ∧
      (((rndq (scaled N D 0) e).1 * 2 ^ sh * D = 2 * N + 2 ^ (sh - 1) * D ∨
        2 * N = (rndq (scaled N D 0) e).1 * 2 ^ sh * D + 2 ^ (sh - 1) * D) → (rndq (scaled N D 0) e).1 % 2 = 0) := by
  have hdm := Nat.div_add_mod N D
  have hml := Nat.mod_lt N hD
  have hs0 : scaled N D 0 = 2 * (N / D) + (if N % D = 0 then 0 else 1) := by
    unfold scaled; simp only [Nat.pow_zero, Nat.mul_one]
  have hbig : 2 ^ 55 ≤ scaled N D 0 := by
    rw [hs0]; have : (2 : Nat) ^ 55 = 2 * 2 ^ 54 := by decide
    omega
  have hlog : 55 ≤ (scaled N D 0).log2 := (Nat.le_log2 (by have := Nat.two_pow_pos 55; omega)).2 hbig
  generalize hn' : scaled N D 0 = n' at *
  unfold rndq
  dsimp only
  generalize hS : max ((n'.log2 : Int) + 1 - 53) (-1074 - e) = S
  have hS3 : 3 ≤ S := by omega
  rw [if_neg (by omega)]
  refine ⟨S.toNat, by omega, by simp only; omega, ?_⟩
  generalize hshd : S.toNat = sh
  have hsh : 2 ≤ sh := by omega
  obtain ⟨r1, r2, r3, r4⟩ := rne_error n' sh (by omega)
  simp only at r1 r2 r3 r4 ⊢
  generalize (if n' % 2 ^ sh > 2 ^ (sh - 1) ∨ (n' % 2 ^ sh = 2 ^ (sh - 1) ∧ (n' >>> sh) % 2 = 1) then n' >>> sh + 1 else n' >>> sh) = qq at *
  generalize 2 ^ (sh - 1) = H at *
  generalize qq * 2 ^ sh = T at *
  by_cases hR : N % D = 0
  · -- exact quotient
    rw [if_pos hR, Nat.add_zero] at hs0
    have hN : 2 * N = n' * D := by
      rw [hs0, Nat.mul_assoc, Nat.mul_comm (N / D) D]; omega
    rw [hN]
    have a1 : T * D ≤ (n' + H) * D := Nat.mul_le_mul_right _ r1
    have a2 : n' * D ≤ (T + H) * D := Nat.mul_le_mul_right _ r2
    rw [Nat.add_mul] at a1 a2
    refine ⟨a1, a2, fun ht => r4 ?_⟩
    rcases ht with ht | ht
    · left
      have : T * D = (n' + H) * D := by rw [Nat.add_mul]; exact ht
      exact Nat.eq_of_mul_eq_mul_right hD this
    · right
      have : n' * D = (T + H) * D := by rw [Nat.add_mul]; exact ht
      exact Nat.eq_of_mul_eq_mul_right hD this
  · -- sticky: n' is odd, the true value lies strictly between n' − 1 and n' + 1
    rw [if_neg hR] at hs0
    obtain ⟨t1, t2⟩ := r3 (by omega) hsh
    have hQD : D * (N / D) < N := by omega
    have hlow : (n' - 1) * D < 2 * N := by
      have : n' - 1 = 2 * (N / D) := by omega
      rw [this, Nat.mul_assoc, Nat.mul_comm (N / D) D]; omega
    have hup : 2 * N < (n' + 1) * D := by
      have : n' + 1 = 2 * (N / D + 1) := by omega
      rw [this, Nat.mul_assoc, Nat.add_mul, Nat.one_mul, Nat.mul_comm (N / D) D]; omega
    have a1 : T * D ≤ (n' - 1 + H) * D := Nat.mul_le_mul_right _ (by omega)
    have a2 : (n' + 1) * D ≤ (T + H) * D := Nat.mul_le_mul_right _ t2
    rw [Nat.add_mul] at a1
    rw [Nat.add_mul T H D] at a2
    refine ⟨by omega, by omega, fun ht => ?_⟩
    rcases ht with ht | ht <;> omega

/-- change of vocabulary: from (N, D, sh) at scale k to (num, den) and the exponent g = sh − 1 − k -/
theorem rescale_eq (q num den kp kn sh a b : Nat) (hrel : a + kp = b + kn + (sh - 1)) (hsh : 1 ≤ sh) :
    (2 * q * 2 ^ a * den) * 2 ^ kp = (q * 2 ^ sh * (den * 2 ^ kn)) * 2 ^ b ∧
    (2 * num * 2 ^ b) * 2 ^ kp = (2 * (num * 2 ^ kp)) * 2 ^ b ∧
    (2 ^ a * den) * 2 ^ kp = (2 ^ (sh - 1) * (den * 2 ^ kn)) * 2 ^ b := by
  have h2 : 2 ^ sh = 2 * 2 ^ (sh - 1) := by
    have : sh = (sh - 1) + 1 := by omega
    rw [this, Nat.pow_succ, Nat.mul_comm]; simp
  have hM : 2 ^ a * 2 ^ kp = 2 ^ b * 2 ^ kn * 2 ^ (sh - 1) := by
    rw [← Nat.pow_add, ← Nat.pow_add, ← Nat.pow_add, hrel]
  rw [h2]
  generalize 2 ^ a = A at *
  generalize 2 ^ b = B at *
  generalize 2 ^ kp = KP at *
  generalize 2 ^ kn = KN at *
  generalize 2 ^ (sh - 1) = S1 at *
  refine ⟨?_, by ac_rfl, ?_⟩
  · calc 2 * q * A * den * KP = 2 * q * den * (A * KP) := by ac_rfl
      _ = 2 * q * den * (B * KN * S1) := by rw [hM]
      _ = q * (2 * S1) * (den * KN) * B := by ac_rfl
  · calc A * den * KP = den * (A * KP) := by ac_rfl
      _ = den * (B * KN * S1) := by rw [hM]
      _ = S1 * (den * KN) * B := by ac_rfl

/-- NEAREST: the result of `roundRat`, read as a significand q at exponent g (bit pattern = min(+Inf, (g+1074)·2^52 + q),
    q in [2^52, 2^53] unless g = −1074), is within HALF A UNIT 2^g of num/den; on an exact tie q is even -/
theorem roundRat_nearest (num den : Nat) (hnum : 0 < num) (hden : 0 < den) :
    ∃ (q : Nat) (g : Int),
      ((roundRat false num den).toNat : Int) = min (2047 * 2 ^ 52) ((g + 1074) * 2 ^ 52 + q) ∧
      -1074 ≤ g ∧ q ≤ 2 ^ 53 ∧ (-1074 < g → 2 ^ 52 ≤ q) ∧
      2 * q * 2 ^ g.toNat * den ≤ 2 * num * 2 ^ (-g).toNat + 2 ^ g.toNat * den ∧
      2 * num * 2 ^ (-g).toNat ≤ 2 * q * 2 ^ g.toNat * den + 2 ^ g.toNat * den ∧
      ((2 * q * 2 ^ g.toNat * den = 2 * num * 2 ^ (-g).toNat + 2 ^ g.toNat * den ∨
        2 * num * 2 ^ (-g).toNat = 2 * q * 2 ^ g.toNat * den + 2 ^ g.toNat * den) → q % 2 = 0) := by
  have hq := quot_big num den hnum hden
  have hD := DOf_pos num den hden
  have hpos := scaled_pos (NOf num den) (DOf num den) 0 hq hD
  obtain ⟨b1, b2, b3, _⟩ := rndq_bounds _ hpos (-(kOf num den) - 1)
  have ht := roundPack_toNat _ hpos (-(kOf num den) - 1)
  obtain ⟨sh, hsh, hg, E1, E2, E3⟩ := scaled_nearest (NOf num den) (DOf num den) hD hq (-(kOf num den) - 1)
  rw [← roundRat_eq_scaled num den hnum] at ht
  unfold Kof at ht
  generalize rndq (scaled (NOf num den) (DOf num den) 0) (-(kOf num den) - 1) = p at *
  obtain ⟨q, g⟩ := p
  simp only at *
  refine ⟨q, g, ht, b1, b2, b3, ?_⟩
  unfold NOf DOf at E1 E2 E3
  have hrel : g.toNat + (kOf num den).toNat = (-g).toNat + (-(kOf num den)).toNat + (sh - 1) := by omega
  obtain ⟨c1, c2, c3⟩ := rescale_eq q num den (kOf num den).toNat (-(kOf num den)).toNat sh g.toNat (-g).toNat hrel (by omega)
  have hkp : 0 < 2 ^ (kOf num den).toNat := Nat.two_pow_pos _
  have hb : 0 < 2 ^ (-g).toNat := Nat.two_pow_pos _
  -- the three quantities in both vocabularies
  generalize 2 * q * 2 ^ g.toNat * den = tL at *
  generalize 2 * num * 2 ^ (-g).toNat = tN at *
  generalize 2 ^ g.toNat * den = tH at *
  generalize q * 2 ^ sh * (den * 2 ^ (-(kOf num den)).toNat) = x at *
  generalize 2 * (num * 2 ^ (kOf num den).toNat) = n2 at *
  generalize 2 ^ (sh - 1) * (den * 2 ^ (-(kOf num den)).toNat) = h at *
  generalize 2 ^ (kOf num den).toNat = KP at *
  generalize 2 ^ (-g).toNat = B at *
  refine ⟨?_, ?_, ?_⟩
  · apply Nat.le_of_mul_le_mul_right _ hkp
    rw [Nat.add_mul, c1, c2, c3, ← Nat.add_mul]; exact Nat.mul_le_mul_right _ E1
  · apply Nat.le_of_mul_le_mul_right _ hkp
    rw [Nat.add_mul, c1, c2, c3, ← Nat.add_mul]; exact Nat.mul_le_mul_right _ E2
  · intro ht'
    apply E3
    rcases ht' with ht' | ht'
    · left
      apply Nat.eq_of_mul_eq_mul_right hb
      rw [Nat.add_mul, ← c1, ← c2, ← c3, ← Nat.add_mul, ht']
    · right
      apply Nat.eq_of_mul_eq_mul_right hb
      rw [Nat.add_mul, ← c1, ← c2, ← c3, ← Nat.add_mul, ht']

end NodisVerif.Proofs.FloatDecMono
