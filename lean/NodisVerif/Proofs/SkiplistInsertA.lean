import NodisVerif.Proofs.SkiplistSpecs
/-
  skiplist.insert, part A: observations of a heap (`lv` = level slots, `bk` = backward pointers, `skel` = items and
  heights) and the effect of the heap primitives on them.
-/
namespace NodisVerif.Skiplist
open NodisVerif.DsZSet (Item nodeLt)

/-- `p.level[j]` as an option -/
def lv (h : List Node) (x j : Nat) : Option Level := (h[x]?).bind fun nd => nd.level[j]?
/-- `p.backward` as an option (outer none: no such node) -/
def bk (h : List Node) (x : Nat) : Option (Option Nat) := (h[x]?).map (·.backward)
/-- score, member and height of every node -/
def skel (h : List Node) : List (F64 × Bytes × Nat) := h.map fun nd => (nd.score, nd.member, nd.level.length)

theorem getLevel_eq_lv (h : List Node) (x j : Nat) (l : Level) : getLevel h x j = .ok l ↔ lv h x j = some l := by
  rw [getLevel_ok_iff]
  unfold lv
  cases h[x]? <;> simp

theorem height_skel (h : List Node) (x : Nat) :
    height h x = match (skel h)[x]? with | some t => t.2.2 | none => 0 := by
  unfold height skel
  rw [List.getElem?_map]
  cases h[x]? <;> simp

theorem itemAt_skel (h : List Node) (x : Nat) :
    itemAt h x = match (skel h)[x]? with | some t => (t.1, t.2.1) | none => (0, []) := by
  unfold itemAt skel
  rw [List.getElem?_map]
  cases h[x]? <;> simp [Node.item]

theorem height_congr {h h' : List Node} (hs : skel h' = skel h) (x : Nat) : height h' x = height h x := by
  rw [height_skel, height_skel, hs]

theorem itemAt_congr {h h' : List Node} (hs : skel h' = skel h) (x : Nat) : itemAt h' x = itemAt h x := by
  rw [itemAt_skel, itemAt_skel, hs]

theorem length_congr {h h' : List Node} (hs : skel h' = skel h) : h'.length = h.length := by
  have := congrArg List.length hs
  simpa [skel] using this

theorem above_congr {h h' : List Node} (hs : skel h' = skel h) (i x : Nat) : above h' i x = above h i x := by
  unfold above
  rw [height_congr hs]

theorem lv_eq_none_iff (h : List Node) (x j : Nat) : lv h x j = none ↔ height h x ≤ j := by
  unfold lv height
  cases h[x]? <;> simp

theorem lv_isSome_iff (h : List Node) (x j : Nat) : (∃ l, lv h x j = some l) ↔ j < height h x := by
  have := lv_eq_none_iff h x j
  cases hl : lv h x j with
  | none => simp [hl] at this; simp; omega
  | some l => simp [hl] at this; simp; omega

theorem height_lt_length (h : List Node) (x j : Nat) (hj : j < height h x) : x < h.length := by
  unfold height at hj
  cases hx : h[x]? with
  | none => simp [hx] at hj
  | some nd => exact (List.getElem?_eq_some_iff.1 hx).1

theorem bk_isSome_iff (h : List Node) (x : Nat) : (∃ b, bk h x = some b) ↔ x < h.length := by
  unfold bk
  cases hx : h[x]? with
  | none => simp; exact List.getElem?_eq_none_iff.1 hx
  | some nd => simp; exact (List.getElem?_eq_some_iff.1 hx).1

theorem modLevel_spec (h : List Node) (n i : Nat) (f : Level → Level) (hi : i < height h n) :
    ∃ h', modLevel h n i f = .ok h' ∧ skel h' = skel h ∧ (∀ x, bk h' x = bk h x) ∧
      ∀ x j, lv h' x j = if x = n ∧ j = i then (lv h n i).map f else lv h x j := by
  unfold height at hi
  cases hn : h[n]? with
  | none => simp [hn] at hi
  | some nd =>
    simp [hn] at hi
    have hnl : n < h.length := (List.getElem?_eq_some_iff.1 hn).1
    have hli : nd.level[i]? = some nd.level[i] := by simp [hi]
    have hge : h[n] = nd := (List.getElem?_eq_some_iff.1 hn).2
    refine ⟨h.set n { nd with level := nd.level.set i (f nd.level[i]) }, ?_, ?_, ?_, ?_⟩
    · unfold modLevel
      simp [hn, hli, pure, Except.pure]
    · unfold skel
      apply List.ext_getElem?
      intro k
      simp only [List.getElem?_map, List.getElem?_set]
      by_cases hk : n = k
      · subst hk; simp [hnl, hge]
      · simp [hk]
    · intro x
      unfold bk
      simp only [List.getElem?_set]
      by_cases hk : n = x
      · subst hk; simp [hnl, hge]
      · simp [hk]
    · intro x j
      unfold lv
      simp only [List.getElem?_set]
      by_cases hk : n = x
      · subst hk
        simp only [hnl, hn, if_true, Option.bind_some, true_and, List.getElem?_set]
        by_cases hj : i = j
        · subst hj; simp [hi]
        · have : ¬ j = i := fun e => hj e.symm
          simp [hj, this]
      · have : ¬ x = n := fun e => hk e.symm
        simp [hk, this]

theorem setBackward_spec (h : List Node) (n : Nat) (b : Option Nat) (hn : n < h.length) :
    ∃ h', setBackward h n b = .ok h' ∧ skel h' = skel h ∧ (∀ x j, lv h' x j = lv h x j) ∧
      ∀ x, bk h' x = if x = n then some b else bk h x := by
  have hnd : h[n]? = some h[n] := by simp [hn]
  refine ⟨h.set n { h[n] with backward := b }, ?_, ?_, ?_, ?_⟩
  · unfold setBackward
    simp [hnd, pure, Except.pure]
  · unfold skel
    apply List.ext_getElem?
    intro k
    simp only [List.getElem?_map, List.getElem?_set]
    by_cases hk : n = k
    · subst hk; simp [hn]
    · simp [hk]
  · intro x j
    unfold lv
    simp only [List.getElem?_set]
    by_cases hk : n = x
    · subst hk; simp [hn]
    · simp [hk]
  · intro x
    unfold bk
    simp only [List.getElem?_set]
    by_cases hk : n = x
    · subst hk; simp [hn]
    · have : ¬ x = n := fun e => hk e.symm
      simp [hk, this]

theorem skel_append_new (h : List Node) (lvl : Nat) (s : F64) (m : Bytes) :
    skel (h ++ [newNode lvl s m]) = skel h ++ [(s, m, lvl)] := by
  simp [skel, newNode]

theorem lv_append_new (h : List Node) (lvl : Nat) (s : F64) (m : Bytes) (x j : Nat) :
    lv (h ++ [newNode lvl s m]) x j =
      if x = h.length then (if j < lvl then some {} else none) else lv h x j := by
  unfold lv
  rw [List.getElem?_append]
  by_cases hx : x < h.length
  · have : x ≠ h.length := by omega
    simp [hx, this]
  · by_cases hx2 : x = h.length
    · subst hx2
      simp [newNode, List.getElem?_replicate]
    · have h1 : h[x]? = none := List.getElem?_eq_none_iff.2 (by omega)
      have h2 : ([newNode lvl s m] : List Node)[x - h.length]? = none :=
        List.getElem?_eq_none_iff.2 (by simp; omega)
      simp [hx, hx2, h2]

theorem bk_append_new (h : List Node) (lvl : Nat) (s : F64) (m : Bytes) (x : Nat) :
    bk (h ++ [newNode lvl s m]) x = if x = h.length then some none else bk h x := by
  unfold bk
  rw [List.getElem?_append]
  by_cases hx : x < h.length
  · have : x ≠ h.length := by omega
    simp [hx, this]
  · by_cases hx2 : x = h.length
    · subst hx2
      simp [newNode]
    · have h1 : h[x]? = none := List.getElem?_eq_none_iff.2 (by omega)
      have h2 : ([newNode lvl s m] : List Node)[x - h.length]? = none :=
        List.getElem?_eq_none_iff.2 (by simp; omega)
      simp [hx, hx2, h2]

end NodisVerif.Skiplist
