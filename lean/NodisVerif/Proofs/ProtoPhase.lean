import NodisVerif.Proofs.ProtoReg
/-
  Locking protocol: the phases of a transaction (inactive → growing → committing → inactive) along a
  trace, and list positions versus decompositions of a trace. Used by Proofs/ProtoTrace.lean (C07).
-/
namespace NodisVerif.Proofs.Proto
open NodisVerif.Proto

/-- `none`: not active; `some false`: growing (may still acquire); `some true`: its commit has begun -/
def phase (s : PState) (t : Tx) : Option Bool := (s.tx t).map (·.committing)

theorem phase_of_tx {s : PState} {t : Tx} {st : TxSt} (h : s.tx t = some st) : phase s t = some st.committing := by
  simp [phase, h]

theorem phase_eq_some {s : PState} {t : Tx} {b : Bool} : phase s t = some b ↔
    ∃ st, s.tx t = some st ∧ st.committing = b := by
  unfold phase; cases s.tx t <;> simp

theorem phase_eq_none {s : PState} {t : Tx} : phase s t = none ↔ s.tx t = none := by
  unfold phase; cases s.tx t <;> simp

/-- the phase automaton: only `begin t`, `commit t`, `fin t` change the phase of `t` -/
theorem phase_step {s s' : PState} {e : Ev} (hs : step s e = some s') (t : Tx) :
    (e = .begin t ∧ phase s t = none ∧ phase s' t = some false) ∨
    (e = .fin t ∧ phase s t ≠ none ∧ phase s' t = none) ∨
    (e = .commit t ∧ phase s t = some false ∧ phase s' t = some true) ∨
    (e ≠ .begin t ∧ e ≠ .fin t ∧ e ≠ .commit t ∧ phase s' t = phase s t) := by
  by_cases he : evTx e = some t
  · cases e with
    | begin u =>
      simp only [evTx, Option.some.injEq] at he; subst he
      obtain ⟨h1, rfl⟩ := step_begin.1 hs
      exact Or.inl ⟨rfl, phase_eq_none.2 h1, by simp [phase, tx_setTx_same]⟩
    | fin u =>
      simp only [evTx, Option.some.injEq] at he; subst he
      obtain ⟨st, h1, _, _, rfl⟩ := step_fin.1 hs
      refine Or.inr (Or.inl ⟨rfl, by simp [phase, h1], ?_⟩)
      simp [phase, PState.tx, assoc_erase]
    | commit u =>
      simp only [evTx, Option.some.injEq] at he; subst he
      obtain ⟨st, h1, hc, _, _, rfl⟩ := step_commit.1 hs
      exact Or.inr (Or.inr (Or.inl ⟨rfl, by simp [phase, h1, hc], by simp [phase, tx_setTx_same]⟩))
    | look u k r =>
      obtain ⟨_, _, _, _, _, rfl⟩ := step_look.1 hs
      exact Or.inr (Or.inr (Or.inr ⟨nofun, nofun, nofun, rfl⟩))
    | claim u k r m =>
      simp only [evTx, Option.some.injEq] at he; subst he
      obtain ⟨st, h1, _, _, _, _, rfl⟩ := step_claim.1 hs
      refine Or.inr (Or.inr (Or.inr ⟨nofun, nofun, nofun, ?_⟩))
      rw [phase_of_tx (tx_setTx_same _ _ _), phase_of_tx h1]; rfl
    | wait u k r m =>
      simp only [evTx, Option.some.injEq] at he; subst he
      obtain ⟨st, h1, _, _, _, _, _, rfl⟩ := step_wait.1 hs
      refine Or.inr (Or.inr (Or.inr ⟨nofun, nofun, nofun, ?_⟩))
      rw [phase_of_tx (tx_setTx_same _ _ _), phase_of_tx h1]
    | lock u k r m =>
      simp only [evTx, Option.some.injEq] at he; subst he
      obtain ⟨st, h1, _, _, rfl⟩ := step_lock.1 hs
      refine Or.inr (Or.inr (Or.inr ⟨nofun, nofun, nofun, ?_⟩))
      rw [phase_of_tx (tx_setTx_same _ _ _), phase_of_tx h1]; rfl
    | valid u k r ok =>
      simp only [evTx, Option.some.injEq] at he; subst he
      obtain ⟨st, _, h1, _, _, _, ⟨_, rfl⟩ | ⟨_, _, rfl⟩⟩ := step_valid.1 hs
      · exact Or.inr (Or.inr (Or.inr ⟨nofun, nofun, nofun, rfl⟩))
      · refine Or.inr (Or.inr (Or.inr ⟨nofun, nofun, nofun, ?_⟩))
        rw [phase_of_tx (tx_setTx_same _ _ _), phase_of_tx h1]; rfl
    | publish u k r =>
      obtain ⟨_, _, _, _, _, _, _, _, _, _, rfl⟩ := step_publish.1 hs
      exact Or.inr (Or.inr (Or.inr ⟨nofun, nofun, nofun, rfl⟩))
    | unlink u k r =>
      obtain ⟨_, _, _, _, _, _, _, _, _, rfl⟩ := step_unlink.1 hs
      exact Or.inr (Or.inr (Or.inr ⟨nofun, nofun, nofun, rfl⟩))
    | trylock u k r =>
      simp only [evTx, Option.some.injEq] at he; subst he
      obtain ⟨st, h1, _, _, _, rfl⟩ := step_trylock.1 hs
      refine Or.inr (Or.inr (Or.inr ⟨nofun, nofun, nofun, ?_⟩))
      rw [phase_of_tx (tx_setTx_same _ _ _), phase_of_tx h1]; rfl
    | drop u k r =>
      obtain ⟨_, _, _, _, _, _, _, _, rfl⟩ := step_drop.1 hs
      exact Or.inr (Or.inr (Or.inr ⟨nofun, nofun, nofun, rfl⟩))
    | unlock u r =>
      simp only [evTx, Option.some.injEq] at he; subst he
      obtain ⟨st, _, h1, _, _, rfl⟩ := step_unlock.1 hs
      refine Or.inr (Or.inr (Or.inr ⟨nofun, nofun, nofun, ?_⟩))
      rw [phase_of_tx (tx_setTx_same _ _ _), phase_of_tx h1]; rfl
    | clear => cases he
  · refine Or.inr (Or.inr (Or.inr ⟨?_, ?_, ?_, ?_⟩))
    · intro c; subst c; exact he rfl
    · intro c; subst c; exact he rfl
    · intro c; subst c; exact he rfl
    · unfold phase; rw [tx_step_other hs he]

/-- once committing, committing until `fin` -/
theorem phase_true_run {s s' : PState} {es : List Ev} {t : Tx} (hs : runAll s es = some s')
    (hp : phase s t = some true) (hnf : ∀ e ∈ es, e ≠ .fin t) : phase s' t = some true := by
  induction es generalizing s with
  | nil => simp [runAll] at hs; subst hs; exact hp
  | cons e es ih =>
    obtain ⟨s1, h1, h2⟩ := runAll_cons_some hs
    refine ih h2 ?_ (fun x hx => hnf x (List.mem_cons_of_mem _ hx))
    rcases phase_step h1 t with ⟨_, a, _⟩ | ⟨a, _, _⟩ | ⟨_, a, _⟩ | ⟨_, _, _, a⟩
    · rw [hp] at a; cases a
    · exact absurd a (hnf e List.mem_cons_self)
    · rw [hp] at a; cases a
    · rw [a]; exact hp

/-- committing or gone stays committing or gone until the next `begin` -/
theorem phase_done_run {s s' : PState} {es : List Ev} {t : Tx} (hs : runAll s es = some s')
    (hp : phase s t ≠ some false) (hnb : ∀ e ∈ es, e ≠ .begin t) : phase s' t ≠ some false := by
  induction es generalizing s with
  | nil => simp [runAll] at hs; subst hs; exact hp
  | cons e es ih =>
    obtain ⟨s1, h1, h2⟩ := runAll_cons_some hs
    refine ih h2 ?_ (fun x hx => hnb x (List.mem_cons_of_mem _ hx))
    rcases phase_step h1 t with ⟨a, _, _⟩ | ⟨_, _, a⟩ | ⟨_, _, a⟩ | ⟨_, _, _, a⟩
    · exact absurd a (hnb e List.mem_cons_self)
    · rw [a]; nofun
    · rw [a]; nofun
    · rw [a]; exact hp

/-- an active transaction has begun -/
theorem active_has_begin {s s' : PState} {es : List Ev} {t : Tx} (hs : runAll s es = some s')
    (hp : phase s t = none) (hp' : phase s' t ≠ none) : .begin t ∈ es := by
  induction es generalizing s with
  | nil => simp [runAll] at hs; subst hs; exact absurd hp hp'
  | cons e es ih =>
    obtain ⟨s1, h1, h2⟩ := runAll_cons_some hs
    rcases phase_step h1 t with ⟨a, _, _⟩ | ⟨_, _, a⟩ | ⟨_, a, _⟩ | ⟨_, _, _, a⟩
    · rw [a]; exact List.mem_cons_self
    · exact List.mem_cons_of_mem _ (ih h2 a)
    · rw [hp] at a; cases a
    · exact List.mem_cons_of_mem _ (ih h2 (a.trans hp))

/-- induction over a trace, last step last -/
theorem trace_induct {P : List Ev → PState → Prop} (s0 : PState) (h0 : P [] s0)
    (hstep : ∀ es s e s', runAll s0 es = some s → P es s → step s e = some s' → P (es ++ [e]) s') :
    ∀ es s, runAll s0 es = some s → P es s := by
  suffices ∀ (n : Nat) (es : List Ev) (s : PState), es.length = n → runAll s0 es = some s → P es s from
    fun es s h => this _ es s rfl h
  intro n
  induction n with
  | zero =>
    intro es s hl he
    have : es = [] := List.length_eq_zero_iff.1 hl
    subst this
    simp [runAll] at he; subst he; exact h0
  | succ n ih =>
    intro es s hl he
    have hne : es ≠ [] := by intro c; subst c; simp at hl
    obtain ⟨e, a, rfl⟩ : ∃ e a, es = a ++ [e] :=
      ⟨es.getLast hne, es.dropLast, (List.dropLast_concat_getLast hne).symm⟩
    obtain ⟨s1, h1, h2⟩ := runAll_append_some he
    rw [runAll_single] at h2
    have hl' : a.length = n := by simp at hl; omega
    exact hstep a s1 e s h1 (ih a s1 hl' h1) h2

/-- a committing transaction has a `commit` in the trace with no `fin` of it after -/
theorem committing_has_commit {s0 : PState} {t : Tx} (h0 : phase s0 t ≠ some true) :
    ∀ es s, runAll s0 es = some s → phase s t = some true →
      ∃ pre post, es = pre ++ .commit t :: post ∧ ∀ e ∈ post, e ≠ .fin t := by
  refine trace_induct (P := fun es s => phase s t = some true →
      ∃ pre post, es = pre ++ .commit t :: post ∧ ∀ e ∈ post, e ≠ .fin t) s0 (fun h => absurd h h0) ?_
  intro es s e s' _ ih hs hp
  rcases phase_step hs t with ⟨_, _, a⟩ | ⟨_, _, a⟩ | ⟨a, _, _⟩ | ⟨_, b, _, a⟩
  · rw [hp] at a; cases a
  · rw [hp] at a; cases a
  · exact ⟨es, [], by rw [a], by intro x hx; cases hx⟩
  · obtain ⟨pre, post, rfl, hnf⟩ := ih (a.symm.trans hp)
    refine ⟨pre, post ++ [e], by simp, ?_⟩
    intro x hx
    rcases List.mem_append.1 hx with hx | hx
    · exact hnf x hx
    · simp at hx; subst hx; exact b

/-! ## positions in a trace -/

theorem split_at {α : Type} {l : List α} {i : Nat} {a : α} (h : l[i]? = some a) :
    ∃ pre post, l = pre ++ a :: post ∧ pre.length = i := by
  induction l generalizing i with
  | nil => simp at h
  | cons x l ih =>
    cases i with
    | zero => simp at h; subst h; exact ⟨[], l, rfl, rfl⟩
    | succ i =>
      simp at h
      obtain ⟨pre, post, rfl, hl⟩ := ih h
      exact ⟨x :: pre, post, rfl, by simp [hl]⟩

theorem getElem?_mid {α : Type} (pre post : List α) (a : α) : (pre ++ a :: post)[pre.length]? = some a := by
  simp

theorem mem_getElem?_lt {α : Type} {pre post : List α} {x : α} (h : x ∈ pre) :
    ∃ j, j < pre.length ∧ (pre ++ post)[j]? = some x := by
  obtain ⟨j, hj, e⟩ := List.mem_iff_getElem.1 h
  exact ⟨j, hj, by rw [List.getElem?_append_left hj, List.getElem?_eq_getElem hj, e]⟩

/-- two positions of a list: the list is `pre ++ a :: mid ++ b :: post`, and `mid` is what lies between -/
theorem split_two {α : Type} {l : List α} {i c : Nat} {a b : α} (hi : l[i]? = some a) (hc : l[c]? = some b)
    (hic : i < c) : ∃ pre mid post, l = pre ++ a :: (mid ++ b :: post) ∧ pre.length = i ∧
      pre.length + 1 + mid.length = c ∧
      (∀ x ∈ mid, ∃ j, i < j ∧ j < c ∧ l[j]? = some x) ∧
      (∀ x ∈ pre, ∃ j, j < i ∧ l[j]? = some x) ∧
      (∀ j x, i < j → j < c → l[j]? = some x → x ∈ mid) := by
  obtain ⟨pre, rest, rfl, hl⟩ := split_at hi
  have hc' : rest[c - i - 1]? = some b := by
    rw [List.getElem?_append_right (by omega)] at hc
    rw [hl] at hc
    have : c - i = (c - i - 1) + 1 := by omega
    rw [this, List.getElem?_cons_succ] at hc
    exact hc
  obtain ⟨mid, post, rfl, hm⟩ := split_at hc'
  refine ⟨pre, mid, post, rfl, hl, by omega, ?_, ?_, ?_⟩
  · intro x hx
    obtain ⟨j, hj, e⟩ := mem_getElem?_lt (post := b :: post) hx
    refine ⟨i + 1 + j, by omega, by omega, ?_⟩
    rw [List.getElem?_append_right (by omega)]
    have : i + 1 + j - pre.length = j + 1 := by omega
    rw [this, List.getElem?_cons_succ]; exact e
  · intro x hx
    obtain ⟨j, hj, e⟩ := mem_getElem?_lt (post := a :: (mid ++ b :: post)) hx
    exact ⟨j, by omega, e⟩
  · intro j x h1 h2 hx
    rw [List.getElem?_append_right (by omega)] at hx
    have : j - pre.length = (j - i - 1) + 1 := by omega
    rw [this, List.getElem?_cons_succ, List.getElem?_append_left (by omega)] at hx
    exact List.mem_of_getElem? hx

end NodisVerif.Proofs.Proto
