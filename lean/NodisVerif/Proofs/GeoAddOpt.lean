import NodisVerif.Model.Handler4
import NodisVerif.Proofs.C15Opt
import NodisVerif.Proofs.C15Upper
/-
  GEOADD with NX / XX as argument 1 (or 2) never reaches `execCommand`: `readOptions` records the word's
  index, but the handler leaves the word in front of the items, where it is parsed as a longitude.
-/
namespace NodisVerif.Proofs.GeoAddOpt
open NodisVerif NodisVerif.Resp NodisVerif.Handler NodisVerif.Handler3 NodisVerif.Handler4
open NodisVerif.Proofs.C15 NodisVerif.Spec.RespEnc

/-- the three option words GEOADD's handler looks at; none takes a value -/
def words : List String := ["NX", "XX", "CH"]

theorem words_plus (w : String) (hw : w ∈ words) : optPlus w = 0 := by
  simp only [words, List.mem_cons, List.not_mem_nil, or_false] at hw
  rcases hw with rfl | rfl | rfl <;> decide

theorem words_in_table (w : String) (hw : w ∈ words) : (w, false) ∈ optionTable := by
  simp only [words, List.mem_cons, List.not_mem_nil, or_false] at hw
  rcases hw with rfl | rfl | rfl <;> decide

/-- a non-zero option index points at an argument that is the word -/
theorem opt_points (args : List Bytes) (w : String) (hw : w ∈ words) (i : Int) (h : opt args w = i) (hi : i ≠ 0) :
    ∃ pre a post, args = pre ++ a :: post ∧ (pre.length : Int) = i ∧ upper a = Bytes.ofString w := by
  rw [opt_eq_optScan, words_plus w hw] at h
  rcases last_match_split (Bytes.ofString w) args with hno | ⟨pre, a, post, rfl, ha, hpost⟩
  · rw [optScan_none _ _ _ _ _ hno] at h; exact absurd h.symm hi
  · rw [optScan_last _ _ pre a post 0 ha hpost] at h
    exact ⟨pre, a, post, rfl, by omega, ha⟩

theorem upperByte_cases : ∀ n < 256, ∀ x ∈ [(78 : UInt8), 88, 67, 72],
    asciiUpperByte (UInt8.ofNat n) = x → n = x.toNat ∨ n = x.toNat + 32 := by decide +kernel

/-- a two-letter option word in any letter case is not a number -/
theorem word_cases : ∀ x ∈ [(78 : UInt8), 88, 67], ∀ y ∈ [(88 : UInt8), 72], ∀ c1 ∈ [x, x + 32], ∀ c2 ∈ [y, y + 32],
    (match GeoText.redisFloat [c1, c2] with | some none => true | _ => false) = true := by decide +kernel

theorem floatG_word (a : Bytes) (w : String) (hw : w ∈ words) (h : upper a = Bytes.ofString w) : floatG a = .err := by
  have hasc : ∀ b ∈ a, b < 128 := by
    intro b hb
    by_cases hlt : b < 128
    · exact hlt
    · exact absurd h (upper_nonascii_ne_word a ⟨b, hb, by simpa [UInt8.not_lt] using hlt⟩ (w, false) (words_in_table w hw))
  rw [upper_ascii' a hasc] at h
  have key : ∀ x ∈ [(78 : UInt8), 88, 67], ∀ y ∈ [(88 : UInt8), 72], asciiUpper a = [x, y] → floatG a = .err := by
    intro x hx y hy he
    unfold asciiUpper at he
    match a, he with
    | [c1, c2], he =>
      simp only [List.map_cons, List.map_nil, List.cons.injEq, and_true] at he
      obtain ⟨e1, e2⟩ := he
      have h1 := upperByte_cases c1.toNat c1.toNat_lt x (by simp at hx ⊢; rcases hx with rfl | rfl | rfl <;> simp) (by rw [UInt8.ofNat_toNat]; exact e1)
      have h2 := upperByte_cases c2.toNat c2.toNat_lt y (by simp at hy ⊢; rcases hy with rfl | rfl <;> simp) (by rw [UInt8.ofNat_toNat]; exact e2)
      have m1 : c1 ∈ [x, x + 32] := by
        simp only [List.mem_cons, List.not_mem_nil, or_false]
        rcases h1 with h1 | h1
        · exact Or.inl (UInt8.toNat_inj.mp h1)
        · refine Or.inr (UInt8.toNat_inj.mp ?_)
          simp at hx; rcases hx with rfl | rfl | rfl <;> simpa using h1
      have m2 : c2 ∈ [y, y + 32] := by
        simp only [List.mem_cons, List.not_mem_nil, or_false]
        rcases h2 with h2 | h2
        · exact Or.inl (UInt8.toNat_inj.mp h2)
        · refine Or.inr (UInt8.toNat_inj.mp ?_)
          simp at hy; rcases hy with rfl | rfl <;> simpa using h2
      have := word_cases x hx y hy c1 m1 c2 m2
      unfold floatG
      split at this <;> simp_all
  simp only [words, List.mem_cons, List.not_mem_nil, or_false] at hw
  rcases hw with rfl | rfl | rfl
  · exact key 78 (by simp) 88 (by simp) (h.trans (by decide +kernel))
  · exact key 88 (by simp) 88 (by simp) (h.trans (by decide +kernel))
  · exact key 67 (by simp) 72 (by simp) (h.trans (by decide +kernel))

/-- the item loop stops at a first longitude that is an option word -/
theorem parseItems_word (a : Bytes) (t : List Bytes) (w : String) (hw : w ∈ words) (h : upper a = Bytes.ofString w) :
    (parseItems (a :: t)) = .err ∨ parseItems (a :: t) = .ok [] := by
  match t with
  | la :: m :: rest =>
    left
    unfold parseItems
    rw [floatG_word a w hw h]; rfl
  | [] => right; unfold parseItems; rfl
  | [_] => right; unfold parseItems; rfl

theorem errReply_ne_exec (b : Body) : errReply ≠ HRes.exec b := fun h => nomatch h

/-- whatever follows: items that start with an option word never get as far as `execCommand` -/
theorem items_not_exec (rest : List Bytes) (a : Bytes) (post : List Bytes) (hr : rest = a :: post)
    (w : String) (hw : w ∈ words) (ha : upper a = Bytes.ofString w) (k : List (Bytes × F64 × F64) → Pre HRes) (b : Body) :
    (if rest.length < 3 then errReply else if rest.length % 3 ≠ 0 then errReply else Pre.run (parseItems rest >>= k)) ≠ .exec b := by
  subst hr
  split
  · exact errReply_ne_exec b
  · split
    · exact errReply_ne_exec b
    · next h3 _ =>
      match post, h3 with
      | la :: m :: rest', _ =>
        have : parseItems (a :: la :: m :: rest') = .err := by
          unfold parseItems
          rw [floatG_word a w hw ha]; rfl
        rw [this]
        exact errReply_ne_exec b
      | [], h3 => exact absurd (by simp) h3
      | [_], h3 => exact absurd (by simp) h3

theorem drop_of_split (pre : List Bytes) (a : Bytes) (post : List Bytes) (n : Nat) (h : (pre.length : Int) = n) :
    (pre ++ a :: post).drop n = a :: post := by
  have : pre.length = n := by omega
  rw [← this]; simp

/-- GEOADD with NX or XX as argument 1 never reaches `execCommand` -/
theorem geoAddH_opt_not_exec (args : List Bytes) (h : opt args "NX" = 1 ∨ opt args "XX" = 1) (b : Body) :
    Handler4.geoAddH args ≠ .exec b := by
  unfold Handler4.geoAddH
  split
  · exact errReply_ne_exec b
  · split
    · exact errReply_ne_exec b
    · next _ key t _ =>
      dsimp only
      by_cases h2 : opt (key :: t) "NX" = 2 ∨ opt (key :: t) "XX" = 2
      · rw [if_pos h2]
        rcases h2 with h2 | h2
        · obtain ⟨pre, a, post, e, hl, ha⟩ := opt_points _ "NX" (by simp [words]) 2 h2 (by decide)
          exact items_not_exec _ a post (by rw [e]; exact drop_of_split pre a post 2 hl) "NX" (by simp [words]) ha _ b
        · obtain ⟨pre, a, post, e, hl, ha⟩ := opt_points _ "XX" (by simp [words]) 2 h2 (by decide)
          exact items_not_exec _ a post (by rw [e]; exact drop_of_split pre a post 2 hl) "XX" (by simp [words]) ha _ b
      · rw [if_neg h2, if_pos h]
        by_cases hc : opt (key :: t) "CH" = 2
        · rw [if_pos hc]
          obtain ⟨pre, a, post, e, hl, ha⟩ := opt_points _ "CH" (by simp [words]) 2 hc (by decide)
          exact items_not_exec _ a post (by rw [e]; exact drop_of_split pre a post 2 hl) "CH" (by simp [words]) ha _ b
        · rw [if_neg hc]
          rcases h with h1 | h1
          · obtain ⟨pre, a, post, e, hl, ha⟩ := opt_points _ "NX" (by simp [words]) 1 h1 (by decide)
            exact items_not_exec _ a post (by rw [e]; exact drop_of_split pre a post 1 hl) "NX" (by simp [words]) ha _ b
          · obtain ⟨pre, a, post, e, hl, ha⟩ := opt_points _ "XX" (by simp [words]) 1 h1 (by decide)
            exact items_not_exec _ a post (by rw [e]; exact drop_of_split pre a post 1 hl) "XX" (by simp [words]) ha _ b

end NodisVerif.Proofs.GeoAddOpt
