import NodisVerif.Proofs.C09Table2
/-
  C09 (WATCH soundness), the handler table of Model/Handler2.lean, second part: the set handlers
  (SADD … SREM, SDIFF/SINTER/SUNION and their *STORE forms) and the table theorems for `Handler2.table2`.
-/
set_option linter.unusedSectionVars false
set_option linter.unusedVariables false

namespace NodisVerif.Proofs.C08Step
open Resp Server
open NodisVerif NodisVerif.Store NodisVerif.Api
open NodisVerif.Proofs.C09Writers

/-! ## sets -/

theorem signals_sAddH (args : List Bytes) (b : Body) (h : Handler2.sAddH args = .exec b) : SignalsChanges b := by
  unfold Handler2.sAddH at h
  exec_cases
  one_call
  exact frame_sadd st hp now _ _

/-- SMOVE: source and destination are both signalled by `Api.smove` (`frame_smove`); when the member is
    not in the source, the value written back is the value that was there -/
theorem signals_sMoveH (args : List Bytes) (b : Body) (h : Handler2.sMoveH args = .exec b) : SignalsChanges b := by
  unfold Handler2.sMoveH at h
  exec_cases
  one_call
  exact frame_smove st hp now _ _ _

theorem signals_sPopH (args : List Bytes) (b : Body) (h : Handler2.sPopH args = .exec b) : SignalsChanges b := by
  unfold Handler2.sPopH at h
  split at h
  · cases h
  · obtain ⟨_, rfl⟩ := ite_exec2 h
    one_call
    exact frame_spop st hp now _ _ _

theorem signals_sCardH (args : List Bytes) (b : Body) (h : Handler2.sCardH args = .exec b) : SignalsChanges b := by
  unfold Handler2.sCardH at h
  exec_cases
  one_call
  exact frame_scard st now _

/-- SDIFF / SINTER / SUNION, for any read-only operation -/
theorem signals_sOpH (op : MState → Int → List Bytes → Api.R) (hop : ReadOnly op) (args : List Bytes) (b : Body)
    (h : Handler2.sOpH op args = .exec b) : SignalsChanges b := by
  unfold Handler2.sOpH at h
  exec_cases
  one_call
  exact hop st now _ hp

/-- S*STORE, for any read-only operation: one call of the store; an empty result deletes the destination,
    which `Api.del` signals -/
theorem signals_sStoreH (op : MState → Int → List Bytes → Api.R) (hop : ReadOnly op) (all : Bool)
    (args : List Bytes) (b : Body) (h : Handler2.sStoreH op all args = .exec b) : SignalsChanges b := by
  unfold Handler2.sStoreH at h
  split at h
  · cases h
    exact signals_of_frame fun st now ch hp =>
      frame_call _ _ (fun _ _ => rfl) (frame_sstore op hop st hp now _ _)
  · cases h

theorem signals_sIsMemberH (args : List Bytes) (b : Body) (h : Handler2.sIsMemberH args = .exec b) :
    SignalsChanges b := by
  unfold Handler2.sIsMemberH at h
  exec_cases
  one_call
  exact frame_sismember st now _ _

theorem signals_sMembersH (args : List Bytes) (b : Body) (h : Handler2.sMembersH args = .exec b) :
    SignalsChanges b := by
  unfold Handler2.sMembersH at h
  exec_cases
  one_call
  exact frame_smembers st now _

theorem signals_sRandMemberH (args : List Bytes) (b : Body) (h : Handler2.sRandMemberH args = .exec b) :
    SignalsChanges b := by
  unfold Handler2.sRandMemberH at h
  split at h
  · cases h
  · obtain ⟨_, rfl⟩ := ite_exec2 h
    one_call
    exact frame_srandmember st now _ _ _

theorem signals_sRemH (args : List Bytes) (b : Body) (h : Handler2.sRemH args = .exec b) : SignalsChanges b := by
  unfold Handler2.sRemH at h
  exec_cases
  one_call
  exact frame_srem st hp now _ _

/-! ## the table -/

/-- `Handler2.table2` without the commands for which `SignalsChanges` is false or unproved: there are
    none, the exclusion list is empty -/
def table2Excluded : List String := []

def table2Safe : Table := fun name args =>
  if name ∈ table2Excluded then none else Handler2.table2 name args

theorem table2_signals_partial (name : String) (args : List Bytes) (b : Body)
    (h : Handler2.table2 name args = some (.exec b)) (hn : name ∉ table2Excluded) : SignalsChanges b := by
  unfold Handler2.table2 at h
  split at h
  all_goals first
    | cases h; done
    | skip
  all_goals injection h with h
  · exact signals_pushH _ _ _ h
  · exact signals_pushH _ _ _ h
  · exact signals_popH _ _ _ h
  · exact signals_popH _ _ _ h
  · exact signals_llenH _ _ h
  · exact signals_lIndexH _ _ h
  · exact signals_lInsertH _ _ h
  · exact signals_lPushxH _ _ h
  · exact signals_rPushxH _ _ h
  · exact signals_lRemH _ _ h
  · exact signals_lTrimH _ _ h
  · exact signals_lSetH _ _ h
  · exact signals_lRangeH _ _ h
  · exact signals_rotateH _ _ _ h
  · exact signals_rotateH _ _ _ h
  · exact signals_hSetH _ _ h
  · exact signals_hGetH _ _ h
  · exact signals_hDelH _ _ h
  · exact signals_hLenH _ _ h
  · exact signals_hKeysH _ _ h
  · exact signals_hExistsH _ _ h
  · exact signals_hGetAllH _ _ h
  · exact signals_hIncrByH _ _ h
  · exact signals_hIncrByFloatH _ _ h
  · exact signals_hSetNXH _ _ h
  · exact signals_hMGetH _ _ h
  · exact signals_hMSetH _ _ h
  · exact signals_hClearH _ _ h
  · exact signals_hStrLenH _ _ h
  · exact signals_hValsH _ _ h
  · exact signals_sAddH _ _ h
  · exact signals_sMoveH _ _ h
  · exact signals_sCardH _ _ h
  · exact signals_sPopH _ _ h
  · exact signals_sOpH _ readOnly_sdiff _ _ h
  · exact signals_sStoreH _ readOnly_sdiff _ _ _ h
  · exact signals_sOpH _ readOnly_sinter _ _ h
  · exact signals_sStoreH _ readOnly_sinter _ _ _ h
  · exact signals_sOpH _ readOnly_sunion _ _ h
  · exact signals_sStoreH _ readOnly_sunion _ _ _ h
  · exact signals_sIsMemberH _ _ h
  · exact signals_sMembersH _ _ h
  · exact signals_sRandMemberH _ _ h
  · exact signals_sRemH _ _ h

/-- the full table statement holds: every closure of `Handler2.table2` signals what it changes -/
theorem table2_signals : TableSignals Handler2.table2 :=
  fun name args b h => table2_signals_partial name args b h (fun hm => nomatch hm)

theorem table2Safe_eq : table2Safe = Handler2.table2 := by
  funext name args
  simp [table2Safe, table2Excluded]

theorem table2Safe_signals : TableSignals table2Safe := by
  rw [table2Safe_eq]; exact table2_signals

/-- non-vacuity: closures exist (`RPOPLPUSH a b`, `HINCRBYFLOAT k f 3`, `SINTERSTORE d a b`) -/
example : ∃ b, Handler2.table2 "RPOPLPUSH" [[97], [98]] = some (.exec b) := ⟨_, rfl⟩
example : ∃ b, Handler2.table2 "SINTERSTORE" [[100], [97], [98]] = some (.exec b) := ⟨_, rfl⟩
example : ∃ b, Handler2.table2 "HINCRBYFLOAT" [[107], [102], [51]] = some (.exec b) := by
  -- the increment text goes through the decimal parser (Model/FloatDec.lean): evaluated by the kernel
  have h : (match Handler2.table2 "HINCRBYFLOAT" [[107], [102], [51]] with | some (.exec _) => true | _ => false) = true := by
    decide +kernel
  split at h
  · next b heq => exact ⟨b, heq⟩
  · cases h

/-
  NO FINDING in this table. The cases checked on purpose:
  * HINCRBY / HINCRBYFLOAT on a fresh key with a failing increment: `Api.hincrby` runs
    `signalModifiedKey` on both exits (`frame_hincrby`), so the hash that was created (and stays empty)
    is reported. `Api.hincrbyfloat` on a fresh hash finds the field absent and stores the increment itself;
    the only unsignalled exit after a creation is the model's `.unsupported` (increment not formattable),
    which the handler cannot reach (`floatArg_formattable`).
  * LINSERT / LSET / LREM / LPUSHX / LTRIM / HDEL / SREM / SPOP on a missing key: `writeKey` with a nil
    constructor creates nothing (`frame_writeKey_none`).
  * LSET: `LLen` is a pure read, the `LSet` of the second call signals when it writes.
  * SMOVE with the member absent: `setVal` writes back the same value (`frame_setVal_same`).
  * RPOPLPUSH / SMOVE with a wrong-typed destination: the source was already signalled before the
    destination is looked up; a live destination of another type is not altered by `writeKey`, the call
    panics with the store unchanged beyond the signalled source.
  * S*STORE with an empty result: the destination is deleted by `Api.del`, which signals it.

  UNPROVED: nothing. Every handler of `Handler2.table2` is covered, the exclusion list is empty.
-/

end NodisVerif.Proofs.C08Step
