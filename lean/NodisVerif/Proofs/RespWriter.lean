import NodisVerif.Spec.RespWriterSpec
/-
  The primitive layer of redis/resp.go's Writer: grow, writeByte, the loop, writeBytes — each, from a state
  satisfying `WriterInv`, succeeds and appends exactly its bytes to the pending bytes, touches neither the sink nor
  the flag, keeps `WriterInv`, never shrinks the array and grows it within the policy's bound.
-/
namespace NodisVerif.Proofs.RespWriter
open NodisVerif.RespWriter NodisVerif.Spec.RespWriterSpec

/-! ### lists -/

theorem take_set_succ (l : Bytes) (w : Nat) (b : UInt8) (h : w < l.length) :
    (l.set w b).take (w + 1) = l.take w ++ [b] := by
  rw [List.take_add_one]
  simp [List.take_set_of_le, h]

/-! ### `Wrote s s' bs`: s' is s after appending bs to the pending bytes -/

structure Wrote (s s' : Writer) (bs : Bytes) : Prop where
  w : s'.w = s.w + bs.length
  inv : WriterInv s'
  pending : (abs s').pending = (abs s).pending ++ bs
  sink : s'.sink = s.sink
  err : s'.err = s.err
  mono : s.buf.size ≤ s'.buf.size
  bound : s'.buf.size ≤ max s.buf.size (defaultSize + 2 * s'.w)

theorem Wrote.refl (s : Writer) (h : WriterInv s) : Wrote s s [] :=
  ⟨by simp, h, by simp, rfl, rfl, Nat.le_refl _, by omega⟩

theorem Wrote.trans {s s' s'' : Writer} {a b : Bytes} (h1 : Wrote s s' a) (h2 : Wrote s' s'' b) :
    Wrote s s'' (a ++ b) := by
  refine ⟨?_, h2.inv, ?_, ?_, ?_, ?_, ?_⟩
  · rw [h2.w, h1.w, List.length_append]; omega
  · rw [h2.pending, h1.pending, List.append_assoc]
  · rw [h2.sink, h1.sink]
  · rw [h2.err, h1.err]
  · exact Nat.le_trans h1.mono h2.mono
  · have := h1.bound; have := h2.bound; have := h1.w; have := h2.w; omega

/-! ### grow -/

theorem grow_w (s : Writer) (n : Nat) : (grow s n).w = s.w := rfl
theorem grow_err (s : Writer) (n : Nat) : (grow s n).err = s.err := rfl
theorem grow_sink (s : Writer) (n : Nat) : (grow s n).sink = s.sink := rfl
theorem grow_size (s : Writer) (n : Nat) : (grow s n).buf.size = s.buf.size + n := by
  simp [grow]
theorem grow_pending (s : Writer) (n : Nat) (h : WriterInv s) : (abs (grow s n)).pending = (abs s).pending := by
  simp only [abs, grow, Array.toList_append]
  exact List.take_append_of_le_length (by simpa [WriterInv] using h)

/-- `grow` copies the whole old array and appends zeroes -/
theorem grow_buf (s : Writer) (n : Nat) : (grow s n).buf.toList = s.buf.toList ++ List.replicate n 0 := by
  simp [grow]

/-! ### writeByte -/

theorem defaultSize_pos : 0 < defaultSize := by decide

theorem writeByte_ok (s : Writer) (b : UInt8) (h : WriterInv s) :
    ∃ s', writeByte s b = .ok s' ∧ Wrote s s' [b] ∧
      (s'.buf.size = s.buf.size ∨ (s.w = s.buf.size ∧ s'.buf.size = s.buf.size + defaultSize)) := by
  obtain ⟨buf, w, err, sink⟩ := s
  simp only [WriterInv] at h
  have hD := defaultSize_pos
  by_cases hg : w ≥ buf.size
  · -- full: grow by defaultSize
    have hw : w = buf.size := by omega
    have hlt : w < (buf ++ Array.replicate defaultSize 0).size := by
      rw [Array.size_append, Array.size_replicate]; omega
    refine ⟨⟨(buf ++ Array.replicate defaultSize 0).set w b hlt, w + 1, err, sink⟩, ?_, ?_, ?_⟩
    · simp only [writeByte, hg, if_true, grow]
      rw [dif_pos hlt]
    · refine ⟨rfl, ?_, ?_, rfl, rfl, ?_, ?_⟩
      · show w + 1 ≤ (Array.set _ w b hlt).size
        rw [Array.size_set, Array.size_append, Array.size_replicate]; omega
      · have := take_set_succ (buf ++ Array.replicate defaultSize 0).toList w b
          (by rw [Array.length_toList, Array.size_append, Array.size_replicate]; omega)
        simp only [abs, Array.toList_set]
        rw [this, Array.toList_append, List.take_append_of_le_length (by simpa using h)]
      · show buf.size ≤ (Array.set _ w b hlt).size
        rw [Array.size_set, Array.size_append, Array.size_replicate]; omega
      · show (Array.set _ w b hlt).size ≤ max buf.size (defaultSize + 2 * (w + 1))
        rw [Array.size_set, Array.size_append, Array.size_replicate]; omega
    · right; refine ⟨hw, ?_⟩
      show (Array.set _ w b hlt).size = _
      rw [Array.size_set, Array.size_append, Array.size_replicate]
  · have hlt : w < buf.size := by omega
    refine ⟨⟨buf.set w b hlt, w + 1, err, sink⟩, ?_, ?_, ?_⟩
    · simp only [writeByte, hg, if_false]
      rw [dif_pos hlt]
    · refine ⟨rfl, ?_, ?_, rfl, rfl, ?_, ?_⟩
      · show w + 1 ≤ (Array.set buf w b hlt).size
        rw [Array.size_set]; omega
      · have := take_set_succ buf.toList w b (by simpa using hlt)
        simp only [abs, Array.toList_set]
        exact this
      · show buf.size ≤ (Array.set buf w b hlt).size
        rw [Array.size_set]; omega
      · show (Array.set buf w b hlt).size ≤ max buf.size (defaultSize + 2 * (w + 1))
        rw [Array.size_set]; omega
    · left; show (Array.set buf w b hlt).size = _
      rw [Array.size_set]

/-! ### the loop -/

theorem writeLoop_ok (bs : Bytes) : ∀ (s : Writer), WriterInv s → ∃ s', writeLoop s bs = .ok s' ∧ Wrote s s' bs := by
  induction bs with
  | nil => intro s h; exact ⟨s, rfl, Wrote.refl s h⟩
  | cons b bs ih =>
    intro s h
    obtain ⟨s1, e1, w1, _⟩ := writeByte_ok s b h
    obtain ⟨s2, e2, w2⟩ := ih s1 w1.inv
    refine ⟨s2, ?_, ?_⟩
    · simp only [writeLoop, e1, e2]
    · exact w1.trans w2

/-- inside writeBytes the loop never has to grow: the array is the same size after the loop as before
    (one allocation per call, made by the `grow(n)` up front) -/
theorem writeLoop_no_grow (bs : Bytes) : ∀ (s : Writer), s.w + bs.length ≤ s.buf.size →
    ∀ s', writeLoop s bs = .ok s' → s'.buf.size = s.buf.size := by
  induction bs with
  | nil => intro s _ s' e; simp only [writeLoop] at e; cases e; rfl
  | cons b bs ih =>
    intro s h s' e
    simp only [List.length_cons] at h
    obtain ⟨s1, e1, w1, hs⟩ := writeByte_ok s b (by unfold WriterInv; omega)
    simp only [writeLoop, e1] at e
    have hsz : s1.buf.size = s.buf.size := by
      rcases hs with hs | ⟨hs, _⟩
      · exact hs
      · omega
    have := ih s1 (by rw [w1.w, hsz]; simp; omega) s' e
    rw [this, hsz]

/-! ### writeBytes -/

theorem writeBytes_ok (s : Writer) (bs : Bytes) (h : WriterInv s) : ∃ s', writeBytes s bs = .ok s' ∧ Wrote s s' bs := by
  by_cases hg : s.w + bs.length ≥ s.buf.size
  · have hi : WriterInv (grow s bs.length) := by unfold WriterInv at *; rw [grow_w, grow_size]; omega
    obtain ⟨s', e, w⟩ := writeLoop_ok bs (grow s bs.length) hi
    refine ⟨s', by simp only [writeBytes, hg, if_true, e], ?_⟩
    have hsz := writeLoop_no_grow bs (grow s bs.length) (by unfold WriterInv at h; rw [grow_w, grow_size]; omega) s' e
    refine ⟨w.w, w.inv, ?_, w.sink, w.err, ?_, ?_⟩
    · rw [w.pending, grow_pending s _ h]
    · have := w.mono; rw [grow_size] at this; omega
    · have := w.w; rw [grow_w] at this
      rw [hsz, grow_size]; omega
  · obtain ⟨s', e, w⟩ := writeLoop_ok bs s h
    refine ⟨s', by simp only [writeBytes, hg, if_false, e], ?_⟩
    have hsz := writeLoop_no_grow bs s (by omega) s' e
    exact ⟨w.w, w.inv, w.pending, w.sink, w.err, w.mono, by rw [hsz]; omega⟩

/-- the exact size after `writeBytes`: grown by exactly len(bs) iff `w + len(bs) >= len(buf)`, else unchanged -/
theorem writeBytes_size (s : Writer) (bs : Bytes) (h : WriterInv s) (s' : Writer) (e : writeBytes s bs = .ok s') :
    s'.buf.size = if s.w + bs.length ≥ s.buf.size then s.buf.size + bs.length else s.buf.size := by
  unfold WriterInv at h
  by_cases hg : s.w + bs.length ≥ s.buf.size
  · simp only [writeBytes, hg, if_true] at e
    rw [if_pos hg, writeLoop_no_grow bs _ (by rw [grow_w, grow_size]; omega) s' e, grow_size]
  · simp only [writeBytes, hg, if_false] at e
    rw [if_neg hg, writeLoop_no_grow bs _ (by omega) s' e]

/-- the exact size after `writeByte`: grown by defaultSize iff `w >= len(buf)`, else unchanged; `w` advances by 1 -/
theorem writeByte_size (s : Writer) (b : UInt8) (h : WriterInv s) (s' : Writer) (e : writeByte s b = .ok s') :
    s'.buf.size = (if s.w ≥ s.buf.size then s.buf.size + defaultSize else s.buf.size) ∧ s'.w = s.w + 1 := by
  obtain ⟨s1, e1, w1, hs⟩ := writeByte_ok s b h
  rw [e1] at e; cases e
  refine ⟨?_, by simpa using w1.w⟩
  unfold WriterInv at h
  have hD := defaultSize_pos
  by_cases hg : s.w ≥ s.buf.size
  · rw [if_pos hg]
    -- the array was full: the store needs the grown array
    have := w1.inv; unfold WriterInv at this
    have := w1.w; simp only [List.length_singleton] at this
    rcases hs with hs | ⟨_, hs⟩
    · omega
    · exact hs
  · rw [if_neg hg]
    rcases hs with hs | ⟨hw, _⟩
    · exact hs
    · omega

/-- the free space after `writeBytes`: a growing call leaves exactly the free space it found -/
theorem writeBytes_free (s : Writer) (bs : Bytes) (h : WriterInv s) (s' : Writer) (e : writeBytes s bs = .ok s') :
    s'.buf.size - s'.w = if s.w + bs.length ≥ s.buf.size then s.buf.size - s.w else s.buf.size - s.w - bs.length := by
  have hsz := writeBytes_size s bs h s' e
  obtain ⟨s1, e1, w1⟩ := writeBytes_ok s bs h
  rw [e1] at e; cases e
  have := w1.w
  unfold WriterInv at h
  split at hsz <;> rename_i hg
  · rw [if_pos hg]; omega
  · rw [if_neg hg]; omega

/-! ### the `type byte, text, CRLF` shape -/

theorem writeLine_ok (s : Writer) (t : UInt8) (body : Bytes) (h : WriterInv s) :
    ∃ s', writeLine s t body = .ok s' ∧ Wrote s s' (line t body) := by
  obtain ⟨s1, e1, w1, _⟩ := writeByte_ok s t h
  obtain ⟨s2, e2, w2⟩ := writeBytes_ok s1 body w1.inv
  obtain ⟨s3, e3, w3⟩ := writeBytes_ok s2 RespWriter.crlf w2.inv
  refine ⟨s3, by simp only [writeLine, e1, Res.bind, e2, e3], ?_⟩
  have := (w1.trans w2).trans w3
  simpa [line, Spec.RespWriterSpec.crlf, RespWriter.crlf] using this

end NodisVerif.Proofs.RespWriter
