import NodisVerif.Proofs.ProtoWireBasic
/-
  C20 / wire encoding: every iteration of the two loops (Unmarshal's field loop, the group skipper)
  consumes at least one byte, so the fuel the model gives them (the length of the input) is
  sufficient: more fuel never changes a result.
-/
namespace NodisVerif.Proofs.ProtoWire
open NodisVerif Varint Codec NodisVerif.ProtoWire

theorem consumeField_le {k : Kind} {cur v : PVal} {wt : Nat} {b rest : Bytes}
    (h : consumeField k cur wt b = .ok v rest) : rest.length ≤ b.length := by
  cases k <;> simp only [consumeField] at h <;> (repeat' split at h) <;>
    first
    | (cases h; done)
    | (injection h with h1 h2; subst h2
       first
       | (have := consumeBytes_le ‹_›; omega)
       | (have := consumeVarint_lt ‹_›; omega)
       | (have := consumeFixed64_le ‹_›; omega))

theorem stepField_le : ∀ (sch : Schema) (vals : List PVal) {num wt : Nat} {b rest : Bytes} {vals' : List PVal},
    stepField sch vals num wt b = .ok vals' rest → rest.length ≤ b.length := by
  intro sch
  induction sch with
  | nil => intro vals num wt b rest vals' h; simp [stepField] at h
  | cons e sch ih =>
    intro vals num wt b rest vals' h
    obtain ⟨no, k⟩ := e
    cases vals with
    | nil => simp [stepField] at h
    | cons v vs =>
      simp only [stepField] at h
      split at h
      · split at h
        · rename_i hc
          injection h with h1 h2; subst h2
          exact consumeField_le hc
        · cases h
        · cases h
      · split at h
        · rename_i hc
          injection h with h1 h2; subst h2
          exact ih vs hc
        · cases h
        · cases h

theorem skipGroup_le : ∀ (fuel : Nat) (stack : List Nat) (b : Bytes) {rest : Bytes},
    skipGroup fuel stack b = some rest → rest.length ≤ b.length := by
  intro fuel
  induction fuel with
  | zero => intro stack b rest h; simp [skipGroup] at h
  | succ fuel ih =>
    intro stack b rest h
    simp only [skipGroup] at h
    split at h
    · cases h
    · rename_i num wt r hc
      have hlt := consumeTag_lt hc
      split at h
      · split at h
        · cases h
        · split at h
          · cases h
          · split at h
            · injection h with h; subst h; omega
            · have := ih _ _ h; omega
      · split at h
        · split at h
          · cases h
          · have := ih _ _ h; omega
        · split at h
          · cases h
          · rename_i r' hs
            have h1 := skipScalar_le hs
            have := ih _ _ h; omega

theorem skipValue_le {num wt : Nat} {b rest : Bytes} (h : skipValue num wt b = some rest) :
    rest.length ≤ b.length := by
  unfold skipValue at h
  split at h
  · exact skipGroup_le _ _ _ h
  · split at h
    · cases h
    · exact skipScalar_le h

theorem step_lt {sch : Schema} {b rest : Bytes} {m m' : Msg} (h : step sch b m = some (m', rest)) :
    rest.length < b.length := by
  unfold step at h
  split at h
  · cases h
  · rename_i t r hc
    have hlt := consumeVarint_lt hc
    simp only at h
    split at h
    · cases h
    · split at h
      · cases h
      · split at h
        · rename_i hs
          injection h with h; injection h with h1 h2; subst h2
          have := stepField_le _ _ hs; omega
        · cases h
        · split at h
          · cases h
          · rename_i hs
            injection h with h; injection h with h1 h2; subst h2
            have := skipValue_le hs; omega

/-- fuel: any amount ≥ the length of the input gives the same result -/
theorem decodeLoop_fuel (sch : Schema) : ∀ (f1 f2 : Nat) (b : Bytes) (m : Msg),
    b.length ≤ f1 → b.length ≤ f2 → decodeLoop sch f1 b m = decodeLoop sch f2 b m := by
  intro f1
  induction f1 with
  | zero =>
    intro f2 b m h1 h2
    have : b = [] := List.eq_nil_of_length_eq_zero (by omega)
    subst this
    cases f2 <;> rfl
  | succ f1 ih =>
    intro f2 b m h1 h2
    cases b with
    | nil => cases f2 <;> rfl
    | cons x xs =>
      cases f2 with
      | zero => simp at h2
      | succ f2 =>
        simp only [decodeLoop]
        cases hs : step sch (x :: xs) m with
        | none => rfl
        | some p =>
          obtain ⟨m', rest⟩ := p
          have := step_lt hs
          simp only [List.length_cons] at this h1 h2
          exact ih f2 rest m' (by omega) (by omega)

/-- the loop of Unmarshal with sufficient fuel, as a fuel-free recursion -/
def dec (sch : Schema) (b : Bytes) (m : Msg) : Option Msg := decodeLoop sch b.length b m

theorem dec_nil (sch : Schema) (m : Msg) : dec sch [] m = some m := rfl

theorem dec_step (sch : Schema) {b rest : Bytes} {m m' : Msg} (hne : b ≠ [])
    (hs : step sch b m = some (m', rest)) : dec sch b m = dec sch rest m' := by
  unfold dec
  cases b with
  | nil => exact absurd rfl hne
  | cons x xs =>
    simp only [List.length_cons, decodeLoop, hs]
    have := step_lt hs
    simp only [List.length_cons] at this
    exact decodeLoop_fuel sch _ _ _ _ (by omega) (Nat.le_refl _)

theorem dec_fail (sch : Schema) {b : Bytes} {m : Msg} (hne : b ≠ [])
    (hs : step sch b m = none) : dec sch b m = none := by
  unfold dec
  cases b with
  | nil => exact absurd rfl hne
  | cons x xs => simp only [List.length_cons, decodeLoop, hs]

/-- the group skipper: any fuel above the length of the input gives the same result -/
theorem skipGroup_fuel : ∀ (f1 f2 : Nat) (stack : List Nat) (b : Bytes),
    b.length < f1 → b.length < f2 → skipGroup f1 stack b = skipGroup f2 stack b := by
  intro f1
  induction f1 with
  | zero => intro f2 stack b h1; omega
  | succ f1 ih =>
    intro f2 stack b h1 h2
    cases f2 with
    | zero => omega
    | succ f2 =>
      simp only [skipGroup]
      cases hc : consumeTag b with
      | none => rfl
      | some p =>
        obtain ⟨num, wt, rest⟩ := p
        have hlt := consumeTag_lt hc
        simp only
        split
        · split
          · rfl
          · split
            · rfl
            · split
              · rfl
              · exact ih f2 _ rest (by omega) (by omega)
        · split
          · split
            · rfl
            · exact ih f2 _ rest (by omega) (by omega)
          · cases hs : skipScalar wt rest with
            | none => rfl
            | some rest' =>
              have := skipScalar_le hs
              exact ih f2 _ rest' (by omega) (by omega)

end NodisVerif.Proofs.ProtoWire
