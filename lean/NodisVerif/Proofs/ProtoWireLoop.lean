import NodisVerif.Proofs.ProtoWireBasic
/-
  C20 / wire encoding: every iteration of the two loops (Unmarshal's field loop, the group skipper)
  consumes at least one byte, so the fuel the model gives them (the length of the input) is
  sufficient: more fuel never changes a result.
-/
namespace NodisVerif.Proofs.ProtoWire
open NodisVerif Varint Codec NodisVerif.ProtoWire

theorem consumeField_le {k : Kind} {cur v : PVal} {wt : Nat} {b rest : Bytes}
    (h : consumeField k cur wt b = .ok v rest) : rest.length ≤ b.length := by
  cases k <;> simp only [consumeField] at h <;> (repeat' split at h) <;>
    first
    | (cases h; done)
    | (injection h with h1 h2; subst h2
       first
       | (have := consumeBytes_le ‹_›; omega)
       | (have := consumeVarint_lt ‹_›; omega)
       | (have := consumeFixed64_le ‹_›; omega))

theorem stepField_le : ∀ (sch : Schema) (vals : List PVal) {num wt : Nat} {b rest : Bytes} {vals' : List PVal},
    stepField sch vals num wt b = .ok vals' rest → rest.length ≤ b.length := by
  intro sch
  induction sch with
  | nil => intro vals num wt b rest vals' h; simp [stepField] at h
  | cons e sch ih =>
    intro vals num wt b rest vals' h
    obtain ⟨no, k⟩ := e
    cases vals with
    | nil => simp [stepField] at h
    | cons v vs =>
      simp only [stepField] at h
      split at h
      · split at h
        · rename_i hc
          injection h with h1 h2; subst h2
          exact consumeField_le hc
        · cases h
        · cases h
      · split at h
        · rename_i hc
          injection h with h1 h2; subst h2
          exact ih vs hc
        · cases h
        · cases h

theorem skipGroup_le : ∀ (fuel depth num : Nat) (b : Bytes) {rest : Bytes},
    skipGroup fuel depth num b = some rest → rest.length ≤ b.length := by
  intro fuel
  induction fuel with
  | zero => intro depth num b rest h; simp [skipGroup] at h
  | succ fuel ih =>
    intro depth num b rest h
    simp only [skipGroup] at h
    split at h
    · cases h
    · rename_i num2 wt2 r hc
      have hlt := consumeTag_lt hc
      split at h
      · split at h
        · injection h with h; subst h; omega
        · cases h
      · split at h
        · cases h
        · rename_i r' hn
          have hr' : r'.length ≤ r.length := by
            split at hn
            · split at hn
              · cases hn
              · exact ih _ _ _ hn
            · exact skipScalar_le hn
          have := ih _ _ _ h
          omega

theorem skipValue_le {num wt : Nat} {b rest : Bytes} (h : skipValue num wt b = some rest) :
    rest.length ≤ b.length := by
  unfold skipValue at h
  split at h
  · exact skipGroup_le _ _ _ _ h
  · split at h
    · cases h
    · exact skipScalar_le h

theorem step_lt {sch : Schema} {b rest : Bytes} {m m' : Msg} (h : step sch b m = some (m', rest)) :
    rest.length < b.length := by
  unfold step at h
  split at h
  · cases h
  · rename_i t r hc
    have hlt := consumeVarint_lt hc
    simp only at h
    split at h
    · cases h
    · split at h
      · cases h
      · split at h
        · rename_i hs
          injection h with h; injection h with h1 h2; subst h2
          have := stepField_le _ _ hs; omega
        · cases h
        · split at h
          · cases h
          · rename_i hs
            injection h with h; injection h with h1 h2; subst h2
            have := skipValue_le hs; omega

/-- fuel: any amount ≥ the length of the input gives the same result -/
theorem decodeLoop_fuel (sch : Schema) : ∀ (f1 f2 : Nat) (b : Bytes) (m : Msg),
    b.length ≤ f1 → b.length ≤ f2 → decodeLoop sch f1 b m = decodeLoop sch f2 b m := by
  intro f1
  induction f1 with
  | zero =>
    intro f2 b m h1 h2
    have : b = [] := List.eq_nil_of_length_eq_zero (by omega)
    subst this
    cases f2 <;> rfl
  | succ f1 ih =>
    intro f2 b m h1 h2
    cases b with
    | nil => cases f2 <;> rfl
    | cons x xs =>
      cases f2 with
      | zero => simp at h2
      | succ f2 =>
        simp only [decodeLoop]
        cases hs : step sch (x :: xs) m with
        | none => rfl
        | some p =>
          obtain ⟨m', rest⟩ := p
          have := step_lt hs
          simp only [List.length_cons] at this h1 h2
          exact ih f2 rest m' (by omega) (by omega)

/-- the loop of Unmarshal with sufficient fuel, as a fuel-free recursion -/
def dec (sch : Schema) (b : Bytes) (m : Msg) : Option Msg := decodeLoop sch b.length b m

theorem dec_nil (sch : Schema) (m : Msg) : dec sch [] m = some m := rfl

theorem dec_step (sch : Schema) {b rest : Bytes} {m m' : Msg} (hne : b ≠ [])
    (hs : step sch b m = some (m', rest)) : dec sch b m = dec sch rest m' := by
  unfold dec
  cases b with
  | nil => exact absurd rfl hne
  | cons x xs =>
    simp only [List.length_cons, decodeLoop, hs]
    have := step_lt hs
    simp only [List.length_cons] at this
    exact decodeLoop_fuel sch _ _ _ _ (by omega) (Nat.le_refl _)

theorem dec_fail (sch : Schema) {b : Bytes} {m : Msg} (hne : b ≠ [])
    (hs : step sch b m = none) : dec sch b m = none := by
  unfold dec
  cases b with
  | nil => exact absurd rfl hne
  | cons x xs => simp only [List.length_cons, decodeLoop, hs]

/-- the group skipper: any fuel above the length of the input gives the same result -/
theorem skipGroup_fuel : ∀ (f1 f2 depth num : Nat) (b : Bytes),
    b.length < f1 → b.length < f2 → skipGroup f1 depth num b = skipGroup f2 depth num b := by
  intro f1
  induction f1 with
  | zero => intro f2 depth num b h1; omega
  | succ f1 ih =>
    intro f2 depth num b h1 h2
    cases f2 with
    | zero => omega
    | succ f2 =>
      simp only [skipGroup]
      cases hc : consumeTag b with
      | none => rfl
      | some p =>
        obtain ⟨num2, wt2, rest⟩ := p
        have hlt := consumeTag_lt hc
        simp only
        split
        · rfl
        · have hin : (if wt2 = 3 then (if depth = 0 then none else skipGroup f1 (depth - 1) num2 rest)
                else skipScalar wt2 rest)
              = (if wt2 = 3 then (if depth = 0 then none else skipGroup f2 (depth - 1) num2 rest)
                else skipScalar wt2 rest) := by
            split
            · split
              · rfl
              · exact ih f2 _ _ rest (by omega) (by omega)
            · rfl
          rw [hin]
          cases hn : (if wt2 = 3 then (if depth = 0 then none else skipGroup f2 (depth - 1) num2 rest)
                else skipScalar wt2 rest) with
          | none => rfl
          | some rest' =>
            have hr' : rest'.length ≤ rest.length := by
              split at hn
              · split at hn
                · cases hn
                · exact skipGroup_le _ _ _ _ hn
              · exact skipScalar_le hn
            exact ih f2 _ _ rest' (by omega) (by omega)

end NodisVerif.Proofs.ProtoWire
