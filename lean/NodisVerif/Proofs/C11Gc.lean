import NodisVerif.Proofs.C11Ops
/-
  C11 / C12: `persist`, one step of `gc` / `flush`, `syncShared`, and the passes as folds.
-/
namespace NodisVerif.Proofs.C11
open NodisVerif.Store NodisVerif.Codec NodisVerif.Spec.Persist
open NodisVerif.Proofs.AListLemmas NodisVerif.Proofs.AListLemmas2 NodisVerif.Proofs.C11AList

/-- the entry `storage.Set` files for a hot record -/
def newEnt (s : MState) (k : Bytes) (m : Meta) (v : Val) : DiskEntry :=
  { name := k, exp := m.exp, val := v, kid := if s.pebble then 0 else m.kid, oid := if s.pebble then 0 else m.oid }

structure PersistSpec (s : MState) (k : Bytes) (m : Meta) (v : Val) (r : MState × Meta × Bool) : Prop where
  idx : r.1.index = s.index
  peb : r.1.pebble = s.pebble
  nid : r.1.nextId = s.nextId
  sorted : AList.Sorted r.1.disk
  others : ∀ dk e, e.name ≠ k → (AList.get? r.1.disk dk = some e ↔ AList.get? s.disk dk = some e)
  recEq : r.2.1 = { m with stored := r.2.1.stored }
  ok : r.2.2 = true → s.failSet = 0 ∧ r.1.failSet = 0 ∧ r.2.1.stored = some m.exp ∧
    AList.get? r.1.disk (encodeKey k m.exp) = some (newEnt s k m v) ∧
    ∀ dk e, AList.get? r.1.disk dk = some e → e.name = k → dk = encodeKey k m.exp
  /-- a failed write changes neither the backend nor the record -/
  fail : r.2.2 = false → 0 < s.failSet ∧ r.1.failSet = s.failSet - 1 ∧ r.2.1 = m ∧ r.1.disk = s.disk

/-- second step of `persist` (after the successful write): drop the entry filed under another deadline -/
def phase2 (s : MState) (k : Bytes) (m : Meta) : MState :=
  match m.stored with
  | some e => if e ≠ m.exp then diskDelete s k e else s
  | none => s

/-- a failed backend write: nothing but the fault counter changes -/
theorem persist_fail (s : MState) (k : Bytes) (m : Meta) (hf : s.failSet > 0) :
    persist s k m = ({ s with failSet := s.failSet - 1 }, m, false) := by
  unfold persist diskSet
  rw [if_pos hf]
  rfl

theorem persist_ok (s : MState) (k : Bytes) (m : Meta) (v : Val) (hf : ¬ s.failSet > 0) (hv : m.value = some v) :
    persist s k m =
      (phase2 { s with disk := AList.set s.disk (encodeKey k m.exp) (newEnt s k m v) } k m,
       { m with stored := some m.exp }, true) := by
  unfold persist diskSet phase2 newEnt
  rw [if_neg hf, hv]
  rfl

/-- whatever the record: a failed `persist` leaves the backend and the record as they were -/
theorem persist_false (s : MState) (k : Bytes) (m : Meta) (h : (persist s k m).2.2 = false) :
    persist s k m = ({ s with failSet := s.failSet - 1 }, m, false) := by
  by_cases hf : s.failSet > 0
  · exact persist_fail s k m hf
  · exfalso
    revert h
    unfold persist diskSet
    rw [if_neg hf]
    cases m.value <;> simp

theorem persist_spec {s : MState} {x : Option Bytes} {t : Int} (h : StoreInvX s x t) {k : Bytes} {m : Meta}
    (hm : AList.get? s.index k = some m) {v : Val} (hv : m.value = some v) :
    PersistSpec s k m v (persist s k m) := by
  have r := h.recs k m hm
  by_cases hf : s.failSet > 0
  · rw [persist_fail s k m hf]
    exact ⟨rfl, rfl, rfl, h.diskSorted, fun _ _ _ => Iff.rfl, by cases m; rfl, (fun c => by cases c),
      fun _ => ⟨hf, rfl, rfl, rfl⟩⟩
  · rw [persist_ok s k m v hf hv]
    have hf0 : s.failSet = 0 := by omega
    have hi : inInt64 m.exp = true := r.expR
    have so1 : AList.Sorted (AList.set s.disk (encodeKey k m.exp) (newEnt s k m v)) :=
      set_preserves_sorted _ h.diskSorted _ _
    -- the final backend: the old one with the new entry, minus the entry under another deadline
    have ph2 : ∃ s2, phase2 { s with disk := AList.set s.disk (encodeKey k m.exp) (newEnt s k m v) } k m = s2 ∧
        s2.index = s.index ∧ s2.pebble = s.pebble ∧ s2.nextId = s.nextId ∧ s2.failSet = s.failSet ∧
        AList.Sorted s2.disk ∧
        (∀ dk, AList.get? s2.disk dk =
          if dk = encodeKey k m.exp then some (newEnt s k m v)
          else if m.stored = some m.exp ∨ m.stored = none then AList.get? s.disk dk
          else if ∃ e0, m.stored = some e0 ∧ dk = encodeKey k e0 then none else AList.get? s.disk dk) := by
      cases hs : m.stored with
      | none =>
        refine ⟨{ s with disk := AList.set s.disk (encodeKey k m.exp) (newEnt s k m v) }, by simp [phase2, hs],
          rfl, rfl, rfl, rfl, so1, fun dk => ?_⟩
        simp [get?_set]
      | some e0 =>
        by_cases he : e0 = m.exp
        · subst he
          refine ⟨{ s with disk := AList.set s.disk (encodeKey k m.exp) (newEnt s k m v) }, by simp [phase2, hs],
            rfl, rfl, rfl, rfl, so1, fun dk => ?_⟩
          simp [get?_set]
        · have hi0 := h.stored_int hm hs
          have hne : encodeKey k e0 ≠ encodeKey k m.exp := fun c => he (encodeKey_inj hi0 hi c).2
          refine ⟨diskDelete { s with disk := AList.set s.disk (encodeKey k m.exp) (newEnt s k m v) } k e0,
            by simp [phase2, hs, he], rfl, rfl, rfl, rfl, erase_preserves_sorted _ so1 _, fun dk => ?_⟩
          simp only [diskDelete]
          rw [get?_erase _ so1, get?_set]
          have he' : ¬ m.exp = e0 := fun c => he c.symm
          by_cases hd : dk = encodeKey k m.exp
          · subst hd
            simp [hne.symm]
          · by_cases hd0 : dk = encodeKey k e0
            · subst hd0; simp [hne, he]
            · simp [hd, hd0, he]
    obtain ⟨s2, e2, i2, p2, n2, f2, so2, g2⟩ := ph2
    rw [e2]
    -- entries of the old backend named `k` sit under the deadline the record remembers
    have hold : ∀ dk e, AList.get? s.disk dk = some e → e.name = k →
        m.stored = some e.exp ∧ dk = encodeKey k e.exp := by
      intro dk e he hn
      have := h.ent_of_name he (by rw [hn]; exact hm)
      exact ⟨this.1, by rw [this.2, hn]⟩
    refine ⟨i2, p2, n2, so2, ?_, rfl, fun _ => ⟨hf0, by rw [f2, hf0], rfl, ?_, ?_⟩, (fun c => by cases c)⟩
    · intro dk e hn
      rw [g2]
      by_cases hd : dk = encodeKey k m.exp
      · subst hd
        simp only [if_true]
        constructor
        · intro hc; simp only [Option.some.injEq] at hc; subst hc; exact absurd rfl hn
        · intro hc
          exact absurd (h.ent_at hi hc).1 hn
      · simp only [hd, if_false]
        split
        · exact Iff.rfl
        · split
          · rename_i hex
            obtain ⟨e0, hs, hd0⟩ := hex
            constructor
            · intro hc; cases hc
            · intro hc
              rw [hd0] at hc
              exact absurd (h.ent_at (h.stored_int hm hs) hc).1 hn
          · exact Iff.rfl
    · rw [g2]; simp
    · intro dk e he hn
      rw [g2] at he
      by_cases hd : dk = encodeKey k m.exp
      · exact hd
      · exfalso
        simp only [hd, if_false] at he
        split at he
        · rename_i hst
          obtain ⟨a, b⟩ := hold dk e he hn
          rcases hst with hst | hst
          · rw [hst] at a
            have : m.exp = e.exp := by simpa using a
            exact hd (by rw [b, this])
          · rw [hst] at a; cases a
        · split at he
          · cases he
          · rename_i hex
            obtain ⟨a, b⟩ := hold dk e he hn
            exact hex ⟨e.exp, a, b⟩

/-! ### one step of a pass: the backend changes only under `k`, the record of `k` is replaced -/

theorem step_put {s s1 : MState} {t : Int} {k : Bytes} {m m'' : Meta} (h : StoreInvX s none t)
    (hm : AList.get? s.index k = some m)
    (i1 : s1.index = s.index) (p1 : s1.pebble = s.pebble) (n1 : s1.nextId = s.nextId)
    (so : AList.Sorted s1.disk)
    (others : ∀ dk e, e.name ≠ k → (AList.get? s1.disk dk = some e ↔ AList.get? s.disk dk = some e))
    (ho : m''.oid = m.oid)
    (hrec : RecInv s1.disk s1.pebble none t k m'')
    (hent : ∀ dk e, AList.get? s1.disk dk = some e → e.name = k →
      dk = encodeKey k e.exp ∧ inInt64 e.exp = true ∧ Good e.val ∧ m''.stored = some e.exp)
    (hentOid : s.pebble = false → ∀ dk e, AList.get? s1.disk dk = some e → e.name = k →
      e.oid = m.oid ∨ ∃ dk' e', AList.get? s.disk dk' = some e' ∧ e'.name = k ∧ e'.oid = e.oid) :
    StoreInvX (putMeta s1 k m'') none t := by
  apply frame (k := k) h (fun _ _ a => a)
  · exact p1
  · show s.nextId ≤ s1.nextId; omega
  · simp only [putMeta, i1]; exact set_preserves_sorted _ h.idxSorted _ _
  · exact so
  · intro k' hk; simp only [putMeta, i1, get?_set, hk, if_false]
  · intro dk e he hn; exact (others dk e hn).mpr he
  · intro dk e he hn; exact (others dk e hn).mp he
  · intro m'; simp only [putMeta, get?_set, if_true, Option.some.injEq]; intro e; subst e; exact hrec
  · intro dk e he hn
    obtain ⟨a, b, c, d⟩ := hent dk e he hn
    refine ⟨by rw [a, hn], b, c, m'', ?_, d⟩
    simp [putMeta, get?_set, hn]
  · intro hp
    have o := h.oids hp
    have fr := o.rec_fresh hm
    have rr := o.recR k m hm
    refine ⟨?_, ?_⟩
    · intro m'; simp only [putMeta, get?_set, if_true, Option.some.injEq]; intro e; subst e
      rw [ho]
      exact ⟨rr.1, by show _ < s1.nextId; omega, fr.1, fr.2⟩
    · intro dk e he hn
      rcases hentOid hp dk e he hn with h1 | ⟨dk', e', h1, h2, h3⟩
      · rw [h1]
        exact ⟨rr.1, by show _ < s1.nextId; omega, fr.1, fr.2⟩
      · have := o.entR dk' e' h1
        have f := o.ent_fresh h1 h2
        rw [← h3]
        exact ⟨this.1, by show _ < s1.nextId; omega, f.1, f.2⟩

theorem step_lookup_other {s s1 : MState} {t t' : Int} {k : Bytes} {m'' : Meta} (h : StoreInvX s none t)
    (ht : t ≤ t') (i1 : s1.index = s.index) (p1 : s1.pebble = s.pebble)
    (others : ∀ dk e, e.name ≠ k → (AList.get? s1.disk dk = some e ↔ AList.get? s.disk dk = some e))
    (k' : Bytes) (hk : k' ≠ k) : lookup (putMeta s1 k m'') t' k' = lookup s t' k' := by
  refine lookup_frame (k := k) h ht ?_ ?_ k' hk ?_
  · exact p1
  · intro dk e he hn; exact (others dk e hn).mpr he
  · simp only [putMeta, i1, get?_set, hk, if_false]

/-- `metadata.reset()` followed by the eviction test -/
def resetRec (m : Meta) : Meta :=
  let m' := { m with state := 1, count := m.count - 1 }
  if m'.count < 0 then { m' with value := none } else m'

theorem resetRec_facts (m : Meta) :
    (resetRec m).isOk = true ∧ (resetRec m).isModified = false ∧ (resetRec m).exp = m.exp ∧
    (resetRec m).stored = m.stored ∧ (resetRec m).oid = m.oid ∧ (resetRec m).vtype = m.vtype ∧
    ((resetRec m).value = m.value ∨ (resetRec m).value = none) := by
  unfold resetRec
  simp only []
  split
  · refine ⟨by simp [Meta.isOk], by simp [Meta.isModified], rfl, rfl, rfl, rfl, Or.inr rfl⟩
  · refine ⟨by simp [Meta.isOk], by simp [Meta.isModified], rfl, rfl, rfl, rfl, Or.inl rfl⟩

/-- the nil string does not survive Pebble: the finding region of the eviction theorems -/
def NilOK (pebble : Bool) (m : Meta) : Prop := pebble = true → m.value ≠ some .strNil

/-- a clean (or freshly persisted) live record may be reset and evicted -/
theorem view_reset {s1 : MState} {t' : Int} {k : Bytes} {m m1 : Meta} {v : Val} {ent : DiskEntry}
    (hv : m.value = some v) (hok : m.isOk = true) (hg : Good v) (hnil : NilOK s1.pebble m)
    (he : m1.exp = m.exp) (hv1 : m1.value = some v)
    (hent : AList.get? s1.disk (encodeKey k m.exp) = some ent) (hh : Holds s1.pebble m v ent) :
    view s1 t' k (resetRec m1) = view s1 t' k m := by
  obtain ⟨f1, _, f3, _, _, _, f7⟩ := resetRec_facts m1
  unfold view
  rw [f1, hok]
  have e2 : (resetRec m1).expired t' = m.expired t' := by simp [Meta.expired, f3, he]
  rw [e2, f3, he]
  by_cases hc : (true && !m.expired t') = true
  · rw [if_pos hc, if_pos hc]
    rcases f7 with f7 | f7
    · rw [f7, hv1, hv]
    · rw [f7, hv]
      simp only [loadValue, diskGet, f3, he, hent]
      cases hp : s1.pebble with
      | true =>
        simp only [if_true]
        have hrt : decodeEntry (encodeEntry ent.val) = some v := by
          rcases hh.peb hp with h1 | h1
          · rw [h1]; exact good_roundtrip v hg (by intro e; subst e; exact hnil hp hv)
          · exact h1
        simp [hrt]
      | false =>
        simp only [Bool.false_eq_true, if_false]
        simp [(hh.mem hp).2]
  · rw [if_neg hc, if_neg hc]

/-- the view of a hot record does not depend on the backend -/
theorem view_hot' (s : MState) (t' : Int) (k : Bytes) {m : Meta} {v : Val} (hv : m.value = some v) :
    view s t' k m = if (m.isOk && !m.expired t') = true then some (v, m.exp) else none := by
  simp only [view, hv]

theorem view_hot_congr (s s' : MState) (t' : Int) (k : Bytes) {m m' : Meta} {v : Val}
    (hv : m.value = some v) (hv' : m'.value = some v) (hs : m'.state = m.state) (he : m'.exp = m.exp) :
    view s' t' k m' = view s t' k m := by
  rw [view_hot' s t' k hv, view_hot' s' t' k hv']
  unfold Meta.isOk Meta.expired
  rw [hs, he]

theorem view_ok_congr (s : MState) (t' : Int) (k : Bytes) {m m' : Meta}
    (hv : m'.value = m.value) (hs : m'.isOk = m.isOk) (he : m'.exp = m.exp) :
    view s t' k m' = view s t' k m := by
  unfold view Meta.expired loadValue diskGet
  rw [hs, he, hv]

/-! ### gc -/

def gcStep (now : Int) (s : MState) (ent : Bytes × Meta) : MState :=
  if ent.2.expired now || !ent.2.isOk then
    { unpersist s ent.1 ent.2 with index := AList.erase (unpersist s ent.1 ent.2).index ent.1 }
  else
    let r := if ent.2.isModified then persist s ent.1 ent.2 else (s, ent.2, true)
    if !r.2.2 then putMeta r.1 ent.1 r.2.1 else putMeta r.1 ent.1 (resetRec r.2.1)

theorem gc_eq (s : MState) (now : Int) :
    gc s now = if s.closed then s else syncShared (s.index.foldl (gcStep now) s) := by
  unfold gc
  split
  · rfl
  · congr 2

/-- what one step of a pass guarantees -/
structure StepSpec (s s' : MState) (t now : Int) (k : Bytes) : Prop where
  inv : StoreInvX s' none t
  peb : s'.pebble = s.pebble
  idx : ∀ k', k' ≠ k → AList.get? s'.index k' = AList.get? s.index k'
  look : ∀ t', now ≤ t' → ∀ k', lookup s' t' k' = lookup s t' k'
  disk : ∀ dk e, e.name ≠ k → (AList.get? s'.disk dk = some e ↔ AList.get? s.disk dk = some e)
  fs0 : s.failSet = 0 → s'.failSet = 0

theorem gcStep_spec {s : MState} {t now : Int} (h : StoreInvX s none t) (ht : t ≤ now) {k : Bytes} {m : Meta}
    (hm : AList.get? s.index k = some m) (hnil : m.expired now = false → NilOK s.pebble m) :
    StepSpec s (gcStep now s (k, m)) t now k := by
  have r := h.recs k m hm
  unfold gcStep
  simp only [r.ok, Bool.not_true, Bool.or_false]
  by_cases hexp : m.expired now = true
  · -- dead: unlinked with its backend entry
    rw [if_pos hexp]
    have e1 : ({ unpersist s k m with index := AList.erase (unpersist s k m).index k } : MState).index
        = (delKey s k).index := by simp [delKey, hm]
    have e2 : ({ unpersist s k m with index := AList.erase (unpersist s k m).index k } : MState).disk
        = (delKey s k).disk := by simp [delKey, hm]
    have e3 : ({ unpersist s k m with index := AList.erase (unpersist s k m).index k } : MState).pebble
        = (delKey s k).pebble := by simp [delKey, hm]
    have e4 : ({ unpersist s k m with index := AList.erase (unpersist s k m).index k } : MState).nextId
        = (delKey s k).nextId := by simp [delKey, hm]
    have hp : (delKey s k).pebble = s.pebble := by
      simp only [delKey, hm, unpersist]; cases m.stored <;> rfl
    obtain ⟨u1, _, _, u4, _, u6⟩ := unpersist_spec h hm
    refine ⟨(inv_delKey h k (fun _ _ => by simp)).congr e1 e2 e3 e4, by rw [e3, hp], ?_, ?_, ?_, ?_⟩
    rotate_left 2
    · intro dk e hn
      show AList.get? (unpersist s k m).disk dk = some e ↔ _
      rw [u6]; exact ⟨fun a => a.1, fun a => ⟨a, hn⟩⟩
    · intro hf; show (unpersist s k m).failSet = 0; rw [u4]; exact hf
    · intro k' hk
      rw [e1]; simp only [delKey, hm]
      simp only [u1, get?_erase _ h.idxSorted, hk, if_false]
    · intro t' ht' k'
      rw [lookup_congr e1 e2 e3, lookup_delKey h (Int.le_trans ht ht')]
      by_cases hk : k' = k
      · subst hk
        simp only [if_true, lookup, getMeta, hm, Option.bind_some]
        exact (view_dead (Meta.expired_mono m ht' hexp)).symm
      · simp [hk]
  · have hexp0 : m.expired now = false := by simpa using hexp
    have hal : m.expired t = false := Meta.alive_anti m ht hexp0
    rw [if_neg hexp]
    by_cases hmod : m.isModified = true
    · -- modified: written first
      rw [if_pos hmod]
      have hsome : m.value.isSome = true := by
        simp only [Meta.isModified, Bool.and_eq_true] at hmod; exact hmod.1
      obtain ⟨v, hv⟩ := Option.isSome_iff_exists.mp hsome
      have ps := persist_spec h hm hv
      generalize persist s k m = pr at ps
      obtain ⟨s1, m1, ok⟩ := pr
      obtain ⟨i1, p1, n1, so, others, rc, pok, pfail⟩ := ps
      simp only at i1 p1 n1 so others rc pok pfail
      have hm1v : m1.value = some v := by rw [rc]; exact hv
      have hm1e : m1.exp = m.exp := by rw [rc]
      have hm1o : m1.oid = m.oid := by rw [rc]
      have hm1s : m1.state = m.state := by rw [rc]
      cases ok with
      | false =>
        -- the write failed: stays hot, stays modified
        simp only [Bool.not_false, if_true]
        obtain ⟨pf0, _, pf⟩ := pfail rfl
        have hmod1 : m1.isModified = true := by
          simp only [Meta.isModified, hm1v, hm1s, hv] at hmod ⊢; exact hmod
        have hok1 : m1.isOk = true := by
          have := r.ok; simp only [Meta.isOk, hm1s] at this ⊢; exact this
        refine ⟨?_, p1, ?_, ?_, others, fun hf => by omega⟩
        · apply step_put h hm i1 p1 n1 so others hm1o
          · refine RecInv.hot (v := v) hm1v hok1 (by rw [hm1e]; exact r.expR) (r.good v hv) ?_ (Or.inl hmod1)
            intro e he
            obtain ⟨a, b⟩ := pf
            rw [a] at he; rw [b]; exact r.stored e he
          · intro dk e he hn
            obtain ⟨a, b⟩ := pf
            rw [b] at he
            have q := h.ents dk e he
            have := h.ent_of_name he (by rw [hn]; exact hm)
            exact ⟨by rw [q.key, hn], q.expR, q.good, by rw [a]; exact this.1⟩
          · intro _ dk e he hn
            obtain ⟨_, b⟩ := pf
            rw [b] at he; exact Or.inr ⟨dk, e, he, hn, rfl⟩
        · intro k' hk; simp only [putMeta, i1, get?_set, hk, if_false]
        · intro t' ht' k'
          by_cases hk : k' = k
          · subst hk
            rw [lookup_putMeta_same]
            simp only [lookup, getMeta, hm, Option.bind_some]
            exact view_hot_congr _ _ _ _ hv hm1v hm1s hm1e
          · exact step_lookup_other h (Int.le_trans ht ht') i1 p1 others k' hk
      | true =>
        simp only [Bool.not_true, Bool.false_eq_true, if_false]
        obtain ⟨_, k0, k1, k2, k3⟩ := pok rfl
        obtain ⟨f1, f2, f3, f4, f5, _, f7⟩ := resetRec_facts m1
        have hnew : ∀ dk e, AList.get? s1.disk dk = some e → e.name = k →
            dk = encodeKey k m.exp ∧ e = newEnt s k m v := by
          intro dk e he hn
          have := k3 dk e he hn
          subst this
          rw [k2] at he
          exact ⟨rfl, by simpa using he.symm⟩
        have hholds : Holds s1.pebble m v (newEnt s k m v) := by
          refine ⟨fun _ => Or.inl rfl, fun hp => ?_⟩
          rw [p1] at hp
          simp [newEnt, hp]
        refine ⟨?_, p1, ?_, ?_, others, fun _ => k0⟩
        · apply step_put h hm i1 p1 n1 so others (by rw [f5, hm1o])
          · refine ⟨f1, by rw [f3, hm1e]; exact r.expR, ?_, ?_, ?_, ?_⟩
            · intro v' hv'
              rcases f7 with f7 | f7
              · rw [f7, hm1v] at hv'; cases hv'; exact r.good v hv
              · rw [f7] at hv'; cases hv'
            · intro e he
              rw [f4, k1] at he; cases he
              exact ⟨_, k2, rfl, rfl⟩
            · intro _ _; rw [f4, k1, f3, hm1e]
            · intro _ _ _ v' hv'
              rcases f7 with f7 | f7
              · rw [f7, hm1v] at hv'; cases hv'
                refine ⟨newEnt s k m v, by rw [f4, k1, f3, hm1e], by rw [f3, hm1e]; exact k2, ?_⟩
                exact hholds.congr (by rw [f5, hm1o])
              · rw [f7] at hv'; cases hv'
          · intro dk e he hn
            obtain ⟨a, b⟩ := hnew dk e he hn
            subst b
            exact ⟨a, r.expR, r.good v hv, by rw [f4, k1]; rfl⟩
          · intro hp dk e he hn
            obtain ⟨_, b⟩ := hnew dk e he hn
            subst b
            left; simp [newEnt, hp]
        · intro k' hk; simp only [putMeta, i1, get?_set, hk, if_false]
        · intro t' ht' k'
          by_cases hk : k' = k
          · subst hk
            rw [lookup_putMeta_same]
            simp only [lookup, getMeta, hm, Option.bind_some]
            rw [view_reset hv r.ok (r.good v hv) (by rw [p1]; exact hnil hexp0) hm1e hm1v k2 hholds]
            exact view_hot_congr _ _ _ _ hv hv rfl rfl
          · exact step_lookup_other h (Int.le_trans ht ht') i1 p1 others k' hk
    · -- not modified: reset, maybe evicted
      have hmod0 : m.isModified = false := by simpa using hmod
      rw [if_neg hmod]
      simp only [Bool.not_true, Bool.false_eq_true, if_false]
      obtain ⟨f1, f2, f3, f4, f5, _, f7⟩ := resetRec_facts m
      refine ⟨?_, rfl, ?_, ?_, fun _ _ _ => Iff.rfl, fun hf => hf⟩
      · apply inv_putMeta_same h (fun _ _ a => a) hm _ f4 f5
        refine ⟨f1, by rw [f3]; exact r.expR, ?_, by rw [f4]; exact r.stored, ?_, ?_⟩
        · intro v' hv'
          rcases f7 with f7 | f7
          · rw [f7] at hv'; exact r.good v' hv'
          · rw [f7] at hv'; cases hv'
        · intro _ _
          rw [f4, f3]
          cases hv : m.value with
          | none => exact r.cold hal hv
          | some v =>
            obtain ⟨ent, a, _⟩ := r.clean hal (by simp) hmod0 v hv
            exact a
        · intro _ _ _ v' hv'
          rcases f7 with f7 | f7
          · rw [f7] at hv'
            obtain ⟨ent, a, b, c⟩ := r.clean hal (by simp) hmod0 v' hv'
            exact ⟨ent, by rw [f4, f3]; exact a, by rw [f3]; exact b, c.congr f5⟩
          · rw [f7] at hv'; cases hv'
      · intro k' hk; simp only [putMeta, get?_set, hk, if_false]
      · intro t' ht' k'
        by_cases hk : k' = k
        · subst hk
          rw [lookup_putMeta_same]
          simp only [lookup, getMeta, hm, Option.bind_some]
          cases hv : m.value with
          | none =>
            apply view_ok_congr _ _ _ _ (by rw [f1, r.ok]) f3
            rcases f7 with f7 | f7
            · exact f7
            · rw [f7, hv]
          | some v =>
            obtain ⟨ent, a, b, c⟩ := r.clean hal (by simp) hmod0 v hv
            exact view_reset hv r.ok (r.good v hv) (hnil hexp0) rfl hv b c
        · exact lookup_putMeta_other _ _ hk

/-! ### flush -/

def flushStep (now : Int) (s : MState) (ent : Bytes × Meta) : MState :=
  if ent.2.expired now || !ent.2.isOk then
    putMeta (unpersist s ent.1 ent.2) ent.1 { ent.2 with stored := none }
  else if !ent.2.isModified then s
  else putMeta (persist s ent.1 ent.2).1 ent.1 (persist s ent.1 ent.2).2.1

theorem flush_eq (s : MState) (now : Int) :
    flush s now = syncShared (s.index.foldl (flushStep now) s) := by
  unfold flush
  congr 2

/-- the record of `k` is flushed: a dead one has nothing in the backend, a live hot one has its
    current value there under its current deadline -/
def RecFlushed (s : MState) (now : Int) (k : Bytes) : Prop :=
  ∀ m, AList.get? s.index k = some m →
    (m.expired now = true → m.stored = none) ∧
    (m.expired now = false → ∀ v, m.value = some v →
      ∃ ent, m.stored = some m.exp ∧ AList.get? s.disk (encodeKey k m.exp) = some ent ∧ Holds s.pebble m v ent)

/-- a modified hot record after `persist`, put back as it is (flush; gc when the write failed) -/
theorem put_after_persist {s : MState} {t now : Int} (h : StoreInvX s none t) (ht : t ≤ now) {k : Bytes}
    {m : Meta} (hm : AList.get? s.index k = some m) {v : Val} (hv : m.value = some v)
    (hmod : m.isModified = true) :
    StepSpec s (putMeta (persist s k m).1 k (persist s k m).2.1) t now k ∧
    ((persist s k m).2.2 = true → m.expired now = false →
      RecFlushed (putMeta (persist s k m).1 k (persist s k m).2.1) now k) := by
  have r := h.recs k m hm
  have ps := persist_spec h hm hv
  generalize persist s k m = pr at ps
  obtain ⟨s1, m1, ok⟩ := pr
  obtain ⟨i1, p1, n1, so, others, rc, pok, pfail⟩ := ps
  simp only at i1 p1 n1 so others rc pok pfail ⊢
  have hm1v : m1.value = some v := by rw [rc]; exact hv
  have hm1e : m1.exp = m.exp := by rw [rc]
  have hm1o : m1.oid = m.oid := by rw [rc]
  have hm1s : m1.state = m.state := by rw [rc]
  have hmod1 : m1.isModified = true := by
    simp only [Meta.isModified, hm1v, hm1s, hv] at hmod ⊢; exact hmod
  have hok1 : m1.isOk = true := by
    have := r.ok; simp only [Meta.isOk, hm1s] at this ⊢; exact this
  have look : ∀ t', now ≤ t' → ∀ k', lookup (putMeta s1 k m1) t' k' = lookup s t' k' := by
    intro t' ht' k'
    by_cases hk : k' = k
    · subst hk
      rw [lookup_putMeta_same]
      simp only [lookup, getMeta, hm, Option.bind_some]
      exact view_hot_congr _ _ _ _ hv hm1v hm1s hm1e
    · exact step_lookup_other h (Int.le_trans ht ht') i1 p1 others k' hk
  have idx : ∀ k', k' ≠ k → AList.get? (putMeta s1 k m1).index k' = AList.get? s.index k' := by
    intro k' hk; simp only [putMeta, i1, get?_set, hk, if_false]
  cases ok with
  | false =>
    obtain ⟨pf0, _, pf⟩ := pfail rfl
    refine ⟨⟨?_, p1, idx, look, others, fun hf => by omega⟩, fun c => by cases c⟩
    apply step_put h hm i1 p1 n1 so others hm1o
    · refine RecInv.hot (v := v) hm1v hok1 (by rw [hm1e]; exact r.expR) (r.good v hv) ?_ (Or.inl hmod1)
      intro e he
      obtain ⟨a, b⟩ := pf
      rw [a] at he; rw [b]; exact r.stored e he
    · intro dk e he hn
      obtain ⟨a, b⟩ := pf
      rw [b] at he
      have q := h.ents dk e he
      have := h.ent_of_name he (by rw [hn]; exact hm)
      exact ⟨by rw [q.key, hn], q.expR, q.good, by rw [a]; exact this.1⟩
    · intro _ dk e he hn
      obtain ⟨_, b⟩ := pf
      rw [b] at he; exact Or.inr ⟨dk, e, he, hn, rfl⟩
  | true =>
    obtain ⟨_, k0, k1, k2, k3⟩ := pok rfl
    have hnew : ∀ dk e, AList.get? s1.disk dk = some e → e.name = k →
        dk = encodeKey k m.exp ∧ e = newEnt s k m v := by
      intro dk e he hn
      have := k3 dk e he hn
      subst this
      rw [k2] at he
      exact ⟨rfl, by simpa using he.symm⟩
    have hholds : Holds s1.pebble m1 v (newEnt s k m v) := by
      refine ⟨fun _ => Or.inl rfl, fun hp => ?_⟩
      rw [p1] at hp
      simp [newEnt, hp, hm1o]
    refine ⟨⟨?_, p1, idx, look, others, fun _ => k0⟩, fun _ hexp0 => ?_⟩
    · apply step_put h hm i1 p1 n1 so others hm1o
      · refine RecInv.hot (v := v) hm1v hok1 (by rw [hm1e]; exact r.expR) (r.good v hv) ?_ (Or.inl hmod1)
        intro e he
        rw [k1] at he; cases he
        exact ⟨_, k2, rfl, rfl⟩
      · intro dk e he hn
        obtain ⟨a, b⟩ := hnew dk e he hn
        subst b
        exact ⟨a, r.expR, r.good v hv, by rw [k1]; rfl⟩
      · intro hp dk e he hn
        obtain ⟨_, b⟩ := hnew dk e he hn
        subst b
        left; simp [newEnt, hp]
    · intro m' hm'
      simp only [putMeta, get?_set, if_true, Option.some.injEq] at hm'
      subst hm'
      refine ⟨fun hd => ?_, fun _ v' hv' => ?_⟩
      · have : m1.expired now = m.expired now := by simp [Meta.expired, hm1e]
        rw [this, hexp0] at hd; cases hd
      · rw [hm1v] at hv'; cases hv'
        exact ⟨_, by rw [k1, hm1e], by rw [hm1e]; exact k2, hholds⟩

theorem flushStep_spec {s : MState} {now : Int} (h : StoreInvX s none now) {k : Bytes} {m : Meta}
    (hm : AList.get? s.index k = some m) :
    StepSpec s (flushStep now s (k, m)) now now k ∧
    (s.failSet = 0 → RecFlushed (flushStep now s (k, m)) now k) := by
  have r := h.recs k m hm
  unfold flushStep
  simp only [r.ok, Bool.not_true, Bool.or_false]
  by_cases hexp : m.expired now = true
  · rw [if_pos hexp]
    obtain ⟨u1, u2, u3, u4, u5, u6⟩ := unpersist_spec h hm
    have others : ∀ dk e, e.name ≠ k →
        (AList.get? (unpersist s k m).disk dk = some e ↔ AList.get? s.disk dk = some e) := by
      intro dk e hn; rw [u6]; exact ⟨fun a => a.1, fun a => ⟨a, hn⟩⟩
    refine ⟨⟨?_, u2, ?_, ?_, others, fun hf => by show (unpersist s k m).failSet = 0; rw [u4]; exact hf⟩, fun _ => ?_⟩
    · apply step_put (m'' := { m with stored := none }) h hm u1 u2 u3 u5 others rfl
      · refine ⟨r.ok, r.expR, r.good, (fun e he => by cases he), ?_, ?_⟩
        · intro hc; rw [show ({ m with stored := none } : Meta).expired now = m.expired now from rfl, hexp] at hc
          cases hc
        · intro hc; rw [show ({ m with stored := none } : Meta).expired now = m.expired now from rfl, hexp] at hc
          cases hc
      · intro dk e he hn; exact absurd hn ((u6 dk e).mp he).2
      · intro _ dk e he hn; exact absurd hn ((u6 dk e).mp he).2
    · intro k' hk; simp only [putMeta, u1, get?_set, hk, if_false]
    · intro t' ht' k'
      by_cases hk : k' = k
      · subst hk
        rw [lookup_putMeta_same]
        simp only [lookup, getMeta, hm, Option.bind_some]
        rw [view_dead (Meta.expired_mono m ht' hexp)]
        exact view_dead (m := { m with stored := none }) (Meta.expired_mono m ht' hexp)
      · exact step_lookup_other h ht' u1 u2 others k' hk
    · intro m' hm'
      simp only [putMeta, get?_set, if_true, Option.some.injEq] at hm'
      subst hm'
      refine ⟨fun _ => rfl, fun hc => ?_⟩
      rw [show ({ m with stored := none } : Meta).expired now = m.expired now from rfl, hexp] at hc
      cases hc
  · have hexp0 : m.expired now = false := by simpa using hexp
    rw [if_neg hexp]
    by_cases hmod : m.isModified = true
    · simp only [hmod, Bool.not_true, Bool.false_eq_true, if_false]
      have hsome : m.value.isSome = true := by
        simp only [Meta.isModified, Bool.and_eq_true] at hmod; exact hmod.1
      obtain ⟨v, hv⟩ := Option.isSome_iff_exists.mp hsome
      obtain ⟨a, b⟩ := put_after_persist h (Int.le_refl now) hm hv hmod
      refine ⟨a, fun hf => b ?_ hexp0⟩
      have ps := persist_spec h hm hv
      cases hok : (persist s k m).2.2 with
      | true => rfl
      | false => have := (ps.fail hok).1; omega
    · have hmod0 : m.isModified = false := by simpa using hmod
      simp only [hmod0, Bool.not_false, if_true]
      refine ⟨⟨h, rfl, fun _ _ => rfl, fun _ _ _ => rfl, fun _ _ _ => Iff.rfl, fun hf => hf⟩, fun _ => ?_⟩
      intro m' hm'
      rw [hm] at hm'; cases hm'
      refine ⟨(fun hc => by rw [hexp0] at hc; cases hc), fun _ v hv => ?_⟩
      exact r.clean hexp0 (by simp) hmod0 v hv

/-! ### a pass as a fold -/

theorem fold_pass (step : MState → Bytes × Meta → MState) (P : MState → Prop) (Q : MState → Bytes → Prop)
    (E : Bytes → Meta → Prop)
    (hstep : ∀ s k m, P s → E k m → AList.get? s.index k = some m →
      P (step s (k, m)) ∧ Q (step s (k, m)) k ∧
      (∀ k', k' ≠ k → AList.get? (step s (k, m)).index k' = AList.get? s.index k') ∧
      (∀ k', k' ≠ k → Q s k' → Q (step s (k, m)) k')) :
    ∀ (l : List (Bytes × Meta)), (l.map (·.1)).Nodup → (∀ p ∈ l, E p.1 p.2) → ∀ s, P s →
      (∀ p ∈ l, AList.get? s.index p.1 = some p.2) →
      P (l.foldl step s) ∧ (∀ p ∈ l, Q (l.foldl step s) p.1) ∧
      (∀ k', k' ∉ l.map (·.1) → AList.get? (l.foldl step s).index k' = AList.get? s.index k') ∧
      (∀ k', k' ∉ l.map (·.1) → Q s k' → Q (l.foldl step s) k') := by
  intro l
  induction l with
  | nil => intro _ _ s hP _; exact ⟨hP, by simp, fun _ _ => rfl, fun _ _ a => a⟩
  | cons a rest ih =>
    intro hnd hE s hP hget
    obtain ⟨k, m⟩ := a
    simp only [List.map_cons, List.nodup_cons] at hnd
    obtain ⟨hk, hnd'⟩ := hnd
    obtain ⟨p1, q1, i1, qo1⟩ := hstep s k m hP (hE (k, m) (by simp)) (hget (k, m) (by simp))
    have hget' : ∀ p ∈ rest, AList.get? (step s (k, m)).index p.1 = some p.2 := by
      intro p hp
      have hne : p.1 ≠ k := by
        intro e; apply hk; rw [← e]; exact List.mem_map.mpr ⟨p, hp, rfl⟩
      rw [i1 p.1 hne]; exact hget p (by simp [hp])
    obtain ⟨p2, q2, i2, qo2⟩ := ih hnd' (fun p hp => hE p (by simp [hp])) (step s (k, m)) p1 hget'
    simp only [List.foldl_cons]
    refine ⟨p2, ?_, ?_, ?_⟩
    · intro p hp
      rcases List.mem_cons.mp hp with rfl | hp
      · exact qo2 k hk q1
      · exact q2 p hp
    · intro k' hk'
      simp only [List.map_cons, List.mem_cons, not_or] at hk'
      rw [i2 k' hk'.2, i1 k' hk'.1]
    · intro k' hk' hq
      simp only [List.map_cons, List.mem_cons, not_or] at hk'
      exact qo2 k' hk'.2 (qo1 k' hk'.1 hq)

end NodisVerif.Proofs.C11
