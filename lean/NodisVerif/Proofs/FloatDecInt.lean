import NodisVerif.Model.FloatDec
import NodisVerif.Proofs.FloatDecRound
import NodisVerif.Model.Api
/-
  The decimal parser on integer text: `parseDec` of an optional sign and decimal digits whose value is below 2^53
  is exactly `roundPack neg n 0`, the double the integer-only model (`F64.ofInt?`, `Api.parseFloatTextInt`) returned.
  One deliberate difference: "-0" (and "-00" …) is −0 in Go and in the new model; the old model gave +0.
-/
namespace NodisVerif.Proofs.FloatDecInt
open NodisVerif NodisVerif.FloatDec
theorem digit_cases (c : UInt8) (h : isDigit c = true) :
    c = 48 ∨ c = 49 ∨ c = 50 ∨ c = 51 ∨ c = 52 ∨ c = 53 ∨ c = 54 ∨ c = 55 ∨ c = 56 ∨ c = 57 := by
  unfold isDigit at h
  simp only [decide_eq_true_eq, UInt8.le_iff_toNat_le] at h
  have h1 : (48 : UInt8).toNat = 48 := rfl
  have h2 : (57 : UInt8).toNat = 57 := rfl
  rw [h1, h2] at h
  have hc : c.toNat = 48 ∨ c.toNat = 49 ∨ c.toNat = 50 ∨ c.toNat = 51 ∨ c.toNat = 52 ∨ c.toNat = 53 ∨ c.toNat = 54 ∨
      c.toNat = 55 ∨ c.toNat = 56 ∨ c.toNat = 57 := by omega
  rcases hc with h | h | h | h | h | h | h | h | h | h
  all_goals (first
    | (left; exact UInt8.toNat_inj.mp h)
    | (right; left; exact UInt8.toNat_inj.mp h)
    | (right; right; left; exact UInt8.toNat_inj.mp h)
    | (right; right; right; left; exact UInt8.toNat_inj.mp h)
    | (right; right; right; right; left; exact UInt8.toNat_inj.mp h)
    | (right; right; right; right; right; left; exact UInt8.toNat_inj.mp h)
    | (right; right; right; right; right; right; left; exact UInt8.toNat_inj.mp h)
    | (right; right; right; right; right; right; right; left; exact UInt8.toNat_inj.mp h)
    | (right; right; right; right; right; right; right; right; left; exact UInt8.toNat_inj.mp h)
    | (right; right; right; right; right; right; right; right; right; exact UInt8.toNat_inj.mp h))

theorem digit_facts (c : UInt8) (h : isDigit c = true) :
    c ≠ 95 ∧ c ≠ 46 ∧ c ≠ 43 ∧ c ≠ 45 ∧ lower c ≠ 120 ∧ c ≠ 101 ∧ c ≠ 69 := by
  rcases digit_cases c h with h | h | h | h | h | h | h | h | h | h <;> subst h <;> decide

theorem scanMant_digits : ∀ (ds : Bytes) (m : Mant), ds.all isDigit = true → (m.nd = 0 → m.mant = 0) →
    ∃ m', scanMant ds m = ([], m') ∧ m'.mant = digitsToNat ds m.mant ∧ m'.sawdot = m.sawdot ∧ m'.under = m.under ∧
      m'.sawdigits = (m.sawdigits || !ds.isEmpty) ∧ m'.nd ≤ m.nd + ds.length ∧ (m'.nd = 0 → m'.mant = 0) := by
  intro ds
  induction ds with
  | nil => intro m _ hinv; exact ⟨m, rfl, rfl, rfl, rfl, by simp, by simp, hinv⟩
  | cons c r ih =>
    intro m hall hinv
    rw [List.all_cons, Bool.and_eq_true] at hall
    obtain ⟨hc, hr⟩ := hall
    obtain ⟨h95, h46, _, _, _, _, _⟩ := digit_facts c hc
    unfold scanMant
    rw [if_neg h95, if_neg h46, if_pos hc]
    by_cases hz : c = 48 ∧ m.nd = 0
    · rw [if_pos hz]
      obtain ⟨m', h1, h2, h3, h4, h5, h6, h7⟩ := ih { m with sawdigits := true, dp := m.dp - 1 } hr hinv
      refine ⟨m', h1, ?_, h3, h4, ?_, ?_, h7⟩
      · rw [h2]; simp only [digitsToNat]
        have hm0 := hinv hz.2
        rw [hm0, hz.1]; rfl
      · rw [h5]; simp
      · simp only [List.length_cons]; simp only at h6; omega
    · rw [if_neg hz]
      obtain ⟨m', h1, h2, h3, h4, h5, h6, h7⟩ :=
        ih { m with sawdigits := true, nd := m.nd + 1, mant := m.mant * 10 + (c.toNat - 48) } hr (by simp)
      refine ⟨m', h1, ?_, h3, h4, ?_, ?_, h7⟩
      · rw [h2]; simp only [digitsToNat]
      · rw [h5]; simp
      · simp only [List.length_cons]; simp only at h6; omega

open NodisVerif.F64 NodisVerif.Proofs.C09Float NodisVerif.Proofs.FloatDecRound

theorem hexPrefix_digits (ds : Bytes) (hall : ds.all isDigit = true) : hexPrefix ds = false := by
  unfold hexPrefix
  split
  · next c _ _ =>
    simp only [List.all_cons, Bool.and_eq_true] at hall
    have := (digit_facts c hall.2.1).2.2.2.2.1
    simp [this]
  · rfl

theorem splitSign_digits (ds : Bytes) (hne : ds ≠ []) (hall : ds.all isDigit = true) :
    splitSign ds = (false, false, ds) := by
  cases ds with
  | nil => exact absurd rfl hne
  | cons c r =>
    simp only [List.all_cons, Bool.and_eq_true] at hall
    obtain ⟨_, _, h43, h45, _⟩ := digit_facts c hall.1
    unfold splitSign
    split
    · next heq => injection heq with h _; exact absurd h.symm h43.symm |> False.elim
    · next heq => injection heq with h _; exact absurd h.symm h45.symm |> False.elim
    · rfl

theorem roundPack_zero (neg : Bool) (e : Int) : roundPack neg 0 e = zero neg := by
  unfold roundPack; simp

theorem isInf_roundPack_nat (neg : Bool) (n : Nat) (hn : n < 2 ^ 53) : isInf (roundPack neg n 0) = false := by
  by_cases h0 : n = 0
  · subst h0; rw [roundPack_zero]; cases neg <;> decide
  · have hL : n.log2 ≤ 52 := by have := (Nat.log2_lt h0).2 hn; omega
    have hlo := Nat.log2_self_le (n := n) h0
    have hhi := Nat.lt_log2_self (n := n)
    have hq1 : 2 ^ 52 ≤ n * 2 ^ (52 - n.log2) := by
      calc 2 ^ 52 = 2 ^ n.log2 * 2 ^ (52 - n.log2) := by rw [← Nat.pow_add]; congr 1; omega
        _ ≤ _ := Nat.mul_le_mul_right _ hlo
    have hq2 : n * 2 ^ (52 - n.log2) < 2 ^ 53 := by
      calc n * 2 ^ (52 - n.log2) < 2 ^ (n.log2 + 1) * 2 ^ (52 - n.log2) := Nat.mul_lt_mul_of_pos_right hhi (Nat.two_pow_pos _)
        _ = 2 ^ 53 := by rw [← Nat.pow_add]; congr 1; omega
    rw [roundPack_small neg n (by omega) hn]
    unfold isInf
    rw [expBits_pack neg _ _ (by omega) (by omega)]
    have : ¬ (n.log2 + 1023 = 0x7FF) := by omega
    simp [this]

/-- decimal digits (value below 2^53, at most 800 of them) with an optional sign: the parse is the exactly
    representable integer, i.e. the double of the integer-only model (`F64.ofInt?` = `roundPack · 0`) -/
theorem parseDec_digits (sgn : Bytes) (neg : Bool)
    (hs : (sgn = [] ∧ neg = false) ∨ (sgn = [43] ∧ neg = false) ∨ (sgn = [45] ∧ neg = true))
    (ds : Bytes) (hne : ds ≠ []) (hall : ds.all isDigit = true) (hlen : ds.length ≤ 800)
    (hn : digitsToNat ds 0 < 2 ^ 53) :
    parseDec (sgn ++ ds) = some (some (roundPack neg (digitsToNat ds 0) 0)) := by
  have hsplit : ∃ sg, splitSign (sgn ++ ds) = (sg, neg, ds) := by
    rcases hs with ⟨rfl, rfl⟩ | ⟨rfl, rfl⟩ | ⟨rfl, rfl⟩
    · exact ⟨false, splitSign_digits ds hne hall⟩
    · exact ⟨true, rfl⟩
    · exact ⟨true, rfl⟩
  obtain ⟨sg, hsplit⟩ := hsplit
  obtain ⟨m', h1, h2, h3, h4, h5, h6, h7⟩ := scanMant_digits ds {} hall (fun _ => rfl)
  have hne' : ds.isEmpty = false := by cases ds with | nil => exact absurd rfl hne | cons _ _ => rfl
  unfold parseDec
  rw [hsplit]
  simp only [hexPrefix_digits ds hall, Bool.false_eq_true, if_false, h1]
  have hsd : m'.sawdigits = true := by rw [h5, hne']; rfl
  have hdot : m'.sawdot = false := h3
  have hun : m'.under = false := h4
  simp only [hsd, hdot, hun, Bool.not_true, Bool.false_eq_true, if_false, scanExpPart, List.isEmpty_nil, Bool.or_self,
    Bool.false_and]
  have hnd : ¬ m'.nd > 800 := by simp only at h6; omega
  rw [if_neg hnd]
  have hx : (if m'.mant = 0 then zero neg else roundDec neg m'.mant ((m'.nd : Int) - (m'.nd : Int))) =
      roundPack neg (digitsToNat ds 0) 0 := by
    rw [h2]
    show (if digitsToNat ds 0 = 0 then zero neg else roundDec neg (digitsToNat ds 0) ((m'.nd : Int) - (m'.nd : Int))) = _
    by_cases h0 : digitsToNat ds 0 = 0
    · rw [if_pos h0, h0, roundPack_zero]
    · rw [if_neg h0, Int.sub_self]
      unfold roundDec
      simp only [ge_iff_le, Int.le_refl, if_true, Int.toNat_zero, Nat.pow_zero, Nat.mul_one]
      exact roundRat_nat neg _ (by omega) hn
  simp only [hx, isInf_roundPack_nat neg _ hn, Bool.false_eq_true, if_false]

/-! ### agreement with the integer-only model that preceded Model/FloatDec.lean -/

section Agree
open NodisVerif.F64

theorem digit_val_le (c : UInt8) (h : isDigit c = true) : c.toNat - 48 ≤ 9 := by
  rcases digit_cases c h with h | h | h | h | h | h | h | h | h | h <;> subst h <;> decide

theorem digitsToNat_lt : ∀ (ds : Bytes) (acc : Nat), ds.all isDigit = true →
    digitsToNat ds acc < (acc + 1) * 10 ^ ds.length := by
  intro ds
  induction ds with
  | nil => intro acc _; simp [digitsToNat]
  | cons c r ih =>
    intro acc hall
    rw [List.all_cons, Bool.and_eq_true] at hall
    have hd := digit_val_le c hall.1
    have := ih (acc * 10 + (c.toNat - 48)) hall.2
    simp only [digitsToNat, List.length_cons]
    calc digitsToNat r (acc * 10 + (c.toNat - 48)) < (acc * 10 + (c.toNat - 48) + 1) * 10 ^ r.length := this
      _ ≤ ((acc + 1) * 10) * 10 ^ r.length := Nat.mul_le_mul_right _ (by omega)
      _ = (acc + 1) * 10 ^ (r.length + 1) := by rw [Nat.mul_assoc, Nat.pow_succ, Nat.mul_comm (10 ^ r.length) 10]

theorem lowerAscii_digit_head (c : UInt8) (r : Bytes) (h : isDigit c = true) :
    ∃ t, lowerAscii (c :: r) = c :: t := by
  refine ⟨lowerAscii r, ?_⟩
  unfold lowerAscii
  rw [List.map_cons]
  congr 1
  rcases digit_cases c h with h | h | h | h | h | h | h | h | h | h <;> subst h <;> decide

/-- on sign + digits the special spellings do not apply: `parseFloat` is `parseDec` -/
theorem parseFloat_digits (sgn : Bytes) (hs : sgn = [] ∨ sgn = [43] ∨ sgn = [45])
    (ds : Bytes) (hne : ds ≠ []) (hall : ds.all isDigit = true) :
    parseFloat (sgn ++ ds) = parseDec (sgn ++ ds) := by
  have hsplit : ∃ sg neg, splitSign (sgn ++ ds) = (sg, neg, ds) := by
    rcases hs with rfl | rfl | rfl
    · exact ⟨false, false, splitSign_digits ds hne hall⟩
    · exact ⟨true, false, rfl⟩
    · exact ⟨true, true, rfl⟩
  obtain ⟨sg, neg, hsplit⟩ := hsplit
  cases ds with
  | nil => exact absurd rfl hne
  | cons c r =>
    rw [List.all_cons, Bool.and_eq_true] at hall
    obtain ⟨t, ht⟩ := lowerAscii_digit_head c r hall.1
    have h1 : Bytes.ofString "inf" = [105, 110, 102] := by decide +kernel
    have h2 : Bytes.ofString "infinity" = [105, 110, 102, 105, 110, 105, 116, 121] := by decide +kernel
    have h3 : Bytes.ofString "nan" = [110, 97, 110] := by decide +kernel
    have hc1 : c ≠ 105 := by rintro rfl; exact absurd hall.1 (by decide)
    have hc2 : c ≠ 110 := by rintro rfl; exact absurd hall.1 (by decide)
    unfold parseFloat
    rw [hsplit]
    simp only [ht, h1, h2, h3, List.cons.injEq, hc1, hc2, false_and, or_self, and_false, if_false]

theorem parseInt64_nosign (b : Bytes) (h43 : ∀ r, b = 43 :: r → False) (h45 : ∀ r, b = 45 :: r → False)
    (hne : b.isEmpty = false) (hall : b.all isDigit = true) :
    parseInt64 b = (if inInt64 (digitsToNat b 0 : Int) then some (digitsToNat b 0 : Int) else none) := by
  cases b with
  | nil => cases hne
  | cons c r =>
    unfold parseInt64
    split
    · next neg ds heq =>
      split at heq
      · next r' hb => exact (h43 _ hb).elim
      · next r' hb => exact (h45 _ hb).elim
      · cases heq
        simp [hall]

/-- the integer-only model that preceded Model/FloatDec.lean and the new model agree wherever the old one parsed
    a value — except on "-0", "-00", …: Go and the new model give −0, the old model gave +0 -/
theorem parseFloatText_agrees_int (b : Bytes) (x : F64) (h : Api.parseFloatTextInt b = some (some x))
    (hnz : ¬ (b.head? = some 45 ∧ parseInt64 b = some 0)) : Api.parseFloatText b = some (some x) := by
  unfold Api.parseFloatTextInt at h
  split at h
  · next hint =>
    -- sign + at most 15 digits
    have key : ∀ (sgn : Bytes) (neg : Bool) (ds : Bytes),
        ((sgn = [] ∧ neg = false) ∨ (sgn = [43] ∧ neg = false) ∨ (sgn = [45] ∧ neg = true)) → b = sgn ++ ds →
        (!ds.isEmpty && ds.all isDigit && decide (ds.length ≤ 15)) = true →
        parseInt64 b = (let v : Int := if neg then -(digitsToNat ds 0 : Int) else (digitsToNat ds 0 : Int);
                        if inInt64 v then some v else none) →
        Api.parseFloatText b = some (some x) := by
      intro sgn neg ds hsg hb hds hpi
      simp only [Bool.and_eq_true, Bool.not_eq_true', decide_eq_true_eq] at hds
      obtain ⟨⟨hne, hall⟩, hlen⟩ := hds
      have hne' : ds ≠ [] := by intro h0; subst h0; simp at hne
      have hlt := digitsToNat_lt ds 0 hall
      have hpow : 10 ^ ds.length ≤ 10 ^ 15 := Nat.pow_le_pow_right (by decide) hlen
      have hn : digitsToNat ds 0 < 2 ^ 53 := by
        have : (10 : Nat) ^ 15 < 2 ^ 53 := by decide
        omega
      have hsg' : sgn = [] ∨ sgn = [43] ∨ sgn = [45] := by
        rcases hsg with h | h | h
        · exact Or.inl h.1
        · exact Or.inr (Or.inl h.1)
        · exact Or.inr (Or.inr h.1)
      unfold Api.parseFloatText
      rw [hb, parseFloat_digits sgn hsg' ds hne' hall, parseDec_digits sgn neg hsg ds hne' hall (by omega) hn]
      -- the old model's value
      rw [hpi] at h
      generalize hN : digitsToNat ds 0 = N at *
      simp only at h
      have hin : inInt64 (if neg then -(N : Int) else (N : Int)) = true := by
        unfold inInt64 int64Min int64Max; simp only [decide_eq_true_eq]; split <;> omega
      rw [hin] at h
      simp only [if_true] at h
      have hx : ofInt? (if neg then -(N : Int) else (N : Int)) = some x := by
        cases ho : ofInt? (if neg then -(N : Int) else (N : Int)) with
        | none => rw [ho] at h; cases h
        | some y => rw [ho] at h; cases h; rfl
      have hA : (if neg then -(N : Int) else (N : Int)).natAbs = N := by cases neg <;> simp
      have hB : decide ((if neg then -(N : Int) else (N : Int)) < 0) = neg := by
        cases neg with
        | false => simp
        | true =>
          have hN0 : N ≠ 0 := by
            intro hN0
            apply hnz
            rcases hsg with h' | h' | h'
            · cases h'.2
            · cases h'.2
            · refine ⟨by rw [hb, h'.1]; rfl, ?_⟩
              rw [hpi, hN0]; rfl
          simp; omega
      generalize (if neg = true then -(N : Int) else (N : Int)) = v at hx hA hB
      unfold ofInt? at hx
      split at hx
      · cases hx
      · injection hx with hx
        rw [← hx, hA, hB]
    unfold Api.isIntText at hint
    split at hint
    · next ds =>
      refine key [43] false ds (Or.inr (Or.inl ⟨rfl, rfl⟩)) rfl hint ?_
      simp only [Bool.and_eq_true, Bool.not_eq_true', decide_eq_true_eq] at hint
      simp [parseInt64, hint.1.1, hint.1.2]
    · next ds =>
      refine key [45] true ds (Or.inr (Or.inr ⟨rfl, rfl⟩)) rfl hint ?_
      simp only [Bool.and_eq_true, Bool.not_eq_true', decide_eq_true_eq] at hint
      simp [parseInt64, hint.1.1, hint.1.2]
    · next h43 h45 =>
      refine key [] false b (Or.inl ⟨rfl, rfl⟩) rfl hint ?_
      simp only [Bool.and_eq_true, Bool.not_eq_true', decide_eq_true_eq] at hint
      rw [parseInt64_nosign b h43 h45 hint.1.1 hint.1.2]
      simp
  · exact absurd h (by
      split at h
      · cases h
      · exact absurd h (C09Float.parseFloatText_tail_ne _ x))



end Agree

/-- the one difference: "-0" is −0 (as in Go); the old model answered +0 -/
example : Api.parseFloatText [45, 48] = some (some 0x8000000000000000) ∧ Api.parseFloatTextInt [45, 48] = some (some 0) := by
  decide +kernel

end NodisVerif.Proofs.FloatDecInt
