import NodisVerif.Model.FloatDec
import NodisVerif.Proofs.FloatDecRound
/-
  The decimal parser on integer text: `parseDec` of an optional sign and decimal digits whose value is below 2^53
  is exactly `roundPack neg n 0`, the double the integer-only model (`F64.ofInt?`, `Api.parseFloatTextInt`) returned.
  One deliberate difference: "-0" (and "-00" …) is −0 in Go and in the new model; the old model gave +0.
-/
namespace NodisVerif.Proofs.FloatDecInt
open NodisVerif NodisVerif.FloatDec
theorem digit_cases (c : UInt8) (h : isDigit c = true) :
    c = 48 ∨ c = 49 ∨ c = 50 ∨ c = 51 ∨ c = 52 ∨ c = 53 ∨ c = 54 ∨ c = 55 ∨ c = 56 ∨ c = 57 := by
  unfold isDigit at h
  simp only [decide_eq_true_eq, UInt8.le_iff_toNat_le] at h
  have h1 : (48 : UInt8).toNat = 48 := rfl
  have h2 : (57 : UInt8).toNat = 57 := rfl
  rw [h1, h2] at h
  have hc : c.toNat = 48 ∨ c.toNat = 49 ∨ c.toNat = 50 ∨ c.toNat = 51 ∨ c.toNat = 52 ∨ c.toNat = 53 ∨ c.toNat = 54 ∨
      c.toNat = 55 ∨ c.toNat = 56 ∨ c.toNat = 57 := by omega
  rcases hc with h | h | h | h | h | h | h | h | h | h
  all_goals (first
    | (left; exact UInt8.toNat_inj.mp h)
    | (right; left; exact UInt8.toNat_inj.mp h)
    | (right; right; left; exact UInt8.toNat_inj.mp h)
    | (right; right; right; left; exact UInt8.toNat_inj.mp h)
    | (right; right; right; right; left; exact UInt8.toNat_inj.mp h)
    | (right; right; right; right; right; left; exact UInt8.toNat_inj.mp h)
    | (right; right; right; right; right; right; left; exact UInt8.toNat_inj.mp h)
    | (right; right; right; right; right; right; right; left; exact UInt8.toNat_inj.mp h)
    | (right; right; right; right; right; right; right; right; left; exact UInt8.toNat_inj.mp h)
    | (right; right; right; right; right; right; right; right; right; exact UInt8.toNat_inj.mp h))

theorem digit_facts (c : UInt8) (h : isDigit c = true) :
    c ≠ 95 ∧ c ≠ 46 ∧ c ≠ 43 ∧ c ≠ 45 ∧ lower c ≠ 120 ∧ c ≠ 101 ∧ c ≠ 69 := by
  rcases digit_cases c h with h | h | h | h | h | h | h | h | h | h <;> subst h <;> decide

theorem scanMant_digits : ∀ (ds : Bytes) (m : Mant), ds.all isDigit = true → (m.nd = 0 → m.mant = 0) →
    ∃ m', scanMant ds m = ([], m') ∧ m'.mant = digitsToNat ds m.mant ∧ m'.sawdot = m.sawdot ∧ m'.under = m.under ∧
      m'.sawdigits = (m.sawdigits || !ds.isEmpty) ∧ m'.nd ≤ m.nd + ds.length ∧ (m'.nd = 0 → m'.mant = 0) := by
  intro ds
  induction ds with
  | nil => intro m _ hinv; exact ⟨m, rfl, rfl, rfl, rfl, by simp, by simp, hinv⟩
  | cons c r ih =>
    intro m hall hinv
    rw [List.all_cons, Bool.and_eq_true] at hall
    obtain ⟨hc, hr⟩ := hall
    obtain ⟨h95, h46, _, _, _, _, _⟩ := digit_facts c hc
    unfold scanMant
    rw [if_neg h95, if_neg h46, if_pos hc]
    by_cases hz : c = 48 ∧ m.nd = 0
    · rw [if_pos hz]
      obtain ⟨m', h1, h2, h3, h4, h5, h6, h7⟩ := ih { m with sawdigits := true, dp := m.dp - 1 } hr hinv
      refine ⟨m', h1, ?_, h3, h4, ?_, ?_, h7⟩
      · rw [h2]; simp only [digitsToNat]
        have hm0 := hinv hz.2
        rw [hm0, hz.1]; rfl
      · rw [h5]; simp
      · simp only [List.length_cons]; simp only at h6; omega
    · rw [if_neg hz]
      obtain ⟨m', h1, h2, h3, h4, h5, h6, h7⟩ :=
        ih { m with sawdigits := true, nd := m.nd + 1, mant := m.mant * 10 + (c.toNat - 48) } hr (by simp)
      refine ⟨m', h1, ?_, h3, h4, ?_, ?_, h7⟩
      · rw [h2]; simp only [digitsToNat]
      · rw [h5]; simp
      · simp only [List.length_cons]; simp only at h6; omega

open NodisVerif.F64 NodisVerif.Proofs.C09Float NodisVerif.Proofs.FloatDecRound

theorem hexPrefix_digits (ds : Bytes) (hall : ds.all isDigit = true) : hexPrefix ds = false := by
  unfold hexPrefix
  split
  · next c _ _ =>
    simp only [List.all_cons, Bool.and_eq_true] at hall
    have := (digit_facts c hall.2.1).2.2.2.2.1
    simp [this]
  · rfl

theorem splitSign_digits (ds : Bytes) (hne : ds ≠ []) (hall : ds.all isDigit = true) :
    splitSign ds = (false, false, ds) := by
  cases ds with
  | nil => exact absurd rfl hne
  | cons c r =>
    simp only [List.all_cons, Bool.and_eq_true] at hall
    obtain ⟨_, _, h43, h45, _⟩ := digit_facts c hall.1
    unfold splitSign
    split
    · next heq => injection heq with h _; exact absurd h.symm h43.symm |> False.elim
    · next heq => injection heq with h _; exact absurd h.symm h45.symm |> False.elim
    · rfl

theorem roundPack_zero (neg : Bool) (e : Int) : roundPack neg 0 e = zero neg := by
  unfold roundPack; simp

theorem isInf_roundPack_nat (neg : Bool) (n : Nat) (hn : n < 2 ^ 53) : isInf (roundPack neg n 0) = false := by
  by_cases h0 : n = 0
  · subst h0; rw [roundPack_zero]; cases neg <;> decide
  · have hL : n.log2 ≤ 52 := by have := (Nat.log2_lt h0).2 hn; omega
    have hlo := Nat.log2_self_le (n := n) h0
    have hhi := Nat.lt_log2_self (n := n)
    have hq1 : 2 ^ 52 ≤ n * 2 ^ (52 - n.log2) := by
      calc 2 ^ 52 = 2 ^ n.log2 * 2 ^ (52 - n.log2) := by rw [← Nat.pow_add]; congr 1; omega
        _ ≤ _ := Nat.mul_le_mul_right _ hlo
    have hq2 : n * 2 ^ (52 - n.log2) < 2 ^ 53 := by
      calc n * 2 ^ (52 - n.log2) < 2 ^ (n.log2 + 1) * 2 ^ (52 - n.log2) := Nat.mul_lt_mul_of_pos_right hhi (Nat.two_pow_pos _)
        _ = 2 ^ 53 := by rw [← Nat.pow_add]; congr 1; omega
    rw [roundPack_small neg n (by omega) hn]
    unfold isInf
    rw [expBits_pack neg _ _ (by omega) (by omega)]
    have : ¬ (n.log2 + 1023 = 0x7FF) := by omega
    simp [this]

/-- decimal digits (value below 2^53, at most 800 of them) with an optional sign: the parse is the exactly
    representable integer, i.e. the double of the integer-only model (`F64.ofInt?` = `roundPack · 0`) -/
theorem parseDec_digits (sgn : Bytes) (neg : Bool)
    (hs : (sgn = [] ∧ neg = false) ∨ (sgn = [43] ∧ neg = false) ∨ (sgn = [45] ∧ neg = true))
    (ds : Bytes) (hne : ds ≠ []) (hall : ds.all isDigit = true) (hlen : ds.length ≤ 800)
    (hn : digitsToNat ds 0 < 2 ^ 53) :
    parseDec (sgn ++ ds) = some (some (roundPack neg (digitsToNat ds 0) 0)) := by
  have hsplit : ∃ sg, splitSign (sgn ++ ds) = (sg, neg, ds) := by
    rcases hs with ⟨rfl, rfl⟩ | ⟨rfl, rfl⟩ | ⟨rfl, rfl⟩
    · exact ⟨false, splitSign_digits ds hne hall⟩
    · exact ⟨true, rfl⟩
    · exact ⟨true, rfl⟩
  obtain ⟨sg, hsplit⟩ := hsplit
  obtain ⟨m', h1, h2, h3, h4, h5, h6, h7⟩ := scanMant_digits ds {} hall (fun _ => rfl)
  have hne' : ds.isEmpty = false := by cases ds with | nil => exact absurd rfl hne | cons _ _ => rfl
  unfold parseDec
  rw [hsplit]
  simp only [hexPrefix_digits ds hall, Bool.false_eq_true, if_false, h1]
  have hsd : m'.sawdigits = true := by rw [h5, hne']; rfl
  have hdot : m'.sawdot = false := h3
  have hun : m'.under = false := h4
  simp only [hsd, hdot, hun, Bool.not_true, Bool.false_eq_true, if_false, scanExpPart, List.isEmpty_nil, Bool.or_self,
    Bool.false_and]
  have hnd : ¬ m'.nd > 800 := by simp only at h6; omega
  rw [if_neg hnd]
  have hx : (if m'.mant = 0 then zero neg else roundDec neg m'.mant ((m'.nd : Int) - (m'.nd : Int))) =
      roundPack neg (digitsToNat ds 0) 0 := by
    rw [h2]
    show (if digitsToNat ds 0 = 0 then zero neg else roundDec neg (digitsToNat ds 0) ((m'.nd : Int) - (m'.nd : Int))) = _
    by_cases h0 : digitsToNat ds 0 = 0
    · rw [if_pos h0, h0, roundPack_zero]
    · rw [if_neg h0, Int.sub_self]
      unfold roundDec
      simp only [ge_iff_le, Int.le_refl, if_true, Int.toNat_zero, Nat.pow_zero, Nat.mul_one]
      exact roundRat_nat neg _ (by omega) hn
  simp only [hx, isInf_roundPack_nat neg _ hn, Bool.false_eq_true, if_false]

end NodisVerif.Proofs.FloatDecInt
