import NodisVerif.Model.DsStr
import NodisVerif.Spec.Str
/-
  C01 helper lemmas, data-structure level: `DsStr` (ds/str/str.go) against `Spec.Str`.
-/
namespace NodisVerif.Proofs.C01
open NodisVerif

theorem inInt64_iff (x : Int) : inInt64 x = true ↔ (-9223372036854775808 ≤ x ∧ x ≤ 9223372036854775807) := by
  unfold inInt64 int64Min int64Max
  exact decide_eq_true_iff

theorem wrap64_id (x : Int) (h : inInt64 x = true) : wrap64 x = x := by
  rw [inInt64_iff] at h
  unfold wrap64
  simp only [int64Max]
  omega

theorem slice_empty {α} (v : List α) (a c : Nat) (h : c = 0 ∨ a ≥ v.length) : (v.drop a).take c = [] := by
  rcases h with h | h
  · subst h; rfl
  · rw [List.drop_eq_nil_of_le h]; simp

theorem slice_congr {α} (v : List α) (a c a' c' : Nat) (h1 : a = a') (h2 : c = c') :
    (v.drop a).take c = (v.drop a').take c' := by subst h1; subst h2; rfl

def clampStart (n start : Int) : Int := if start < 0 then (if n + start < 0 then 0 else n + start) else start
def mStop (n stop1 : Int) : Int :=
  if (if stop1 ≤ 0 then stop1 + n else stop1) > n then n else (if stop1 ≤ 0 then stop1 + n else stop1)
def sStop (n stop : Int) : Int :=
  if (if stop < 0 then (if n + stop < 0 then 0 else n + stop) else stop) ≥ n then n - 1
  else (if stop < 0 then (if n + stop < 0 then 0 else n + stop) else stop)

theorem getRange_unfold (s : DsStr.S) (start stop : Int) :
    DsStr.getRange s start stop =
      if clampStart (DsStr.bytes s).length start ≥ (DsStr.bytes s).length then none
      else if clampStart (DsStr.bytes s).length start > mStop (DsStr.bytes s).length (wrap64 (stop + 1)) then none
      else some (((DsStr.bytes s).drop (clampStart (DsStr.bytes s).length start).toNat).take
        (mStop (DsStr.bytes s).length (wrap64 (stop + 1)) - clampStart (DsStr.bytes s).length start).toNat) := rfl

theorem normRange_unfold (n : Nat) (start stop : Int) :
    Spec.Str.normRange n start stop =
      if start < 0 ∧ stop < 0 ∧ start > stop then (0, 0)
      else if n = 0 ∨ clampStart n start > sStop n stop then (0, 0)
      else ((clampStart n start).toNat, (sStop n stop - clampStart n start + 1).toNat) := rfl

theorem getRange_agree (s : DsStr.S) (start stop : Int)
    (hw : wrap64 (stop + 1) = stop + 1)
    (hr : -(DsStr.len s) ≤ stop ∨ DsStr.len s = 0 ∨ (0 < start ∧ -(DsStr.len s) < start) ∨ (start < 0 ∧ stop < start)) :
    (DsStr.getRange s start stop).getD [] = Spec.Str.getrange (DsStr.bytes s) start stop := by
  rw [getRange_unfold, hw]
  unfold Spec.Str.getrange
  rw [normRange_unfold]
  unfold DsStr.len at hr
  generalize DsStr.bytes s = v at *
  generalize hst : clampStart v.length start = st
  generalize hem : mStop v.length (stop + 1) = em
  generalize hes : sStop v.length stop = es
  simp only [clampStart] at hst
  simp only [mStop] at hem
  simp only [sStop] at hes
  generalize hn : (v.length : Int) = n at *
  have hn1 : v.length = 0 ↔ n = 0 := by omega
  simp only [hn1]
  split
  · simp only [Option.getD_none]; symm; apply slice_empty
    split
    · left; rfl
    · split
      · left; rfl
      · simp only; omega
  · split
    · simp only [Option.getD_none]; symm; apply slice_empty
      split
      · left; rfl
      · split
        · left; rfl
        · simp only; omega
    · simp only [Option.getD_some]
      split
      · apply slice_empty; omega
      · split
        · apply slice_empty; omega
        · apply slice_congr <;> simp only <;> omega

/-- the exact disagreement region of GETRANGE for `stop < -len`: the model answers "", Redis the first byte -/
theorem getRange_differ (s : DsStr.S) (start stop : Int)
    (hw : wrap64 (stop + 1) = stop + 1)
    (h1 : stop < -(DsStr.len s)) (h2 : DsStr.len s ≠ 0) (h3 : start = 0 ∨ start ≤ stop) :
    (DsStr.getRange s start stop).getD [] = [] ∧
    Spec.Str.getrange (DsStr.bytes s) start stop = (DsStr.bytes s).take 1 := by
  rw [getRange_unfold, hw]
  unfold Spec.Str.getrange
  rw [normRange_unfold]
  unfold DsStr.len at h1 h2
  generalize DsStr.bytes s = v at *
  generalize hst : clampStart v.length start = st
  generalize hem : mStop v.length (stop + 1) = em
  generalize hes : sStop v.length stop = es
  simp only [clampStart] at hst
  simp only [mStop] at hem
  simp only [sStop] at hes
  generalize hn : (v.length : Int) = n at *
  have hn1 : v.length = 0 ↔ n = 0 := by omega
  simp only [hn1]
  constructor
  · split
    · rfl
    · split
      · rfl
      · simp only [Option.getD_some]; apply slice_empty; omega
  · rw [if_neg (by omega), if_neg (by omega)]
    simp only
    have e1 : st.toNat = 0 := by omega
    have e2 : (es - st + 1).toNat = 1 := by omega
    rw [e1, e2]; rfl

/-- the disagreement at `stop = int64 max`: `end += 1` wraps, the model answers "", Redis the tail -/
theorem getRange_differ_max (s : DsStr.S) (start : Int) (hlen : DsStr.len s ≤ int64Max) :
    (DsStr.getRange s start int64Max).getD [] = [] ∧
    Spec.Str.getrange (DsStr.bytes s) start int64Max =
      (DsStr.bytes s).drop (clampStart (DsStr.bytes s).length start).toNat := by
  have hw : wrap64 (int64Max + 1) = int64Min := by decide
  rw [getRange_unfold, hw]
  unfold Spec.Str.getrange
  rw [normRange_unfold]
  unfold DsStr.len at hlen
  generalize DsStr.bytes s = v at *
  generalize hst : clampStart v.length start = st
  generalize hem : mStop v.length int64Min = em
  generalize hes : sStop v.length int64Max = es
  have hst' := hst
  simp only [clampStart] at hst'
  simp only [mStop, int64Min] at hem
  simp only [sStop, int64Max] at hes
  simp only [int64Max] at hlen ⊢
  generalize hn : (v.length : Int) = n at *
  have hn1 : v.length = 0 ↔ n = 0 := by omega
  simp only [hn1]
  constructor
  · split
    · rfl
    · split
      · rfl
      · simp only [Option.getD_some]; apply slice_empty; omega
  · rw [if_neg (by omega)]
    split
    · next h =>
      simp only [List.drop_zero, List.take_zero]
      symm; apply List.drop_eq_nil_of_le; omega
    · next h =>
      simp only
      apply List.take_of_length_le
      rw [List.length_drop]; omega

/-! ### SETRANGE / APPEND / STRLEN -/

theorem zeros_eq (n : Nat) : DsStr.zeros n = List.replicate n 0 := rfl

theorem setRange_neg (s : DsStr.S) (offset : Int) (data : Bytes) (h : offset < 0) :
    DsStr.setRange s offset data = some (s, 0) := by
  unfold DsStr.setRange; rw [if_pos h]

/-- the growth `SetRange` asks the allocator for -/
def srGrowth (s : DsStr.S) (offset : Int) (data : Bytes) : Int :=
  offset + (data.length : Int) - ((DsStr.bytes s).length : Int)

theorem setRange_bytes (s : DsStr.S) (offset : Int) (data : Bytes) (h : 0 ≤ offset)
    (hw : inInt64 (offset + (data.length : Int)) = true) (hg : srGrowth s offset data ≤ 1073741824) :
    ∃ r, DsStr.setRange s offset data = some r ∧
    DsStr.bytes r.1 =
      (let v := DsStr.bytes s
       let v1 := v ++ List.replicate (offset.toNat + data.length - v.length) 0
       v1.take offset.toNat ++ data ++ v1.drop (offset.toNat + data.length)) ∧
    r.2 = (DsStr.bytes r.1).length := by
  unfold DsStr.setRange
  unfold srGrowth at hg
  rw [if_neg (by omega)]
  simp only [wrap64_id _ hw]
  rw [if_neg (by omega), if_neg (by
    intro hc
    simp only [Bool.not_eq_true', decide_eq_false_iff_not] at hc
    omega)]
  have hv1 : (if offset + (data.length : Int) > ((DsStr.bytes s).length : Int)
        then DsStr.bytes s ++ DsStr.zeros (offset + (data.length : Int) - ((DsStr.bytes s).length : Int)).toNat
        else DsStr.bytes s) =
      DsStr.bytes s ++ List.replicate (offset.toNat + data.length - (DsStr.bytes s).length) 0 := by
    split
    · rw [zeros_eq]; congr 2; omega
    · have : offset.toNat + data.length - (DsStr.bytes s).length = 0 := by omega
      rw [this]; simp
  simp only [hv1]
  cases s with
  | some v => exact ⟨_, rfl, rfl, rfl⟩
  | none =>
    simp only [DsStr.bytes, Option.getD_none, List.length_nil, List.nil_append]
    by_cases hgr : offset + (data.length : Int) > ((0 : Nat) : Int)
    · simp only [hgr, if_true]
      exact ⟨_, rfl, rfl, rfl⟩
    · simp only [hgr, if_false]
      have h0 : offset.toNat = 0 := by omega
      have h1 : data = [] := by
        cases data with
        | nil => rfl
        | cons a r => simp only [List.length_cons] at hgr; omega
      subst h1
      rw [h0]
      exact ⟨_, rfl, rfl, rfl⟩

/-- beyond 1 GiB of growth the model does not follow the allocator (`none`) -/
theorem setRange_huge (s : DsStr.S) (offset : Int) (data : Bytes) (h : 0 ≤ offset)
    (hw : inInt64 (offset + (data.length : Int)) = true) (hg : srGrowth s offset data > 1073741824) :
    DsStr.setRange s offset data = none := by
  unfold DsStr.setRange
  unfold srGrowth at hg
  rw [if_neg (by omega)]
  simp only [wrap64_id _ hw]
  rw [if_pos (by constructor <;> omega)]

theorem setRange_agree (s : DsStr.S) (offset : Int) (data : Bytes) (h : 0 ≤ offset)
    (hw : inInt64 (offset + (data.length : Int)) = true) (hg : srGrowth s offset data ≤ 1073741824)
    (hr : data ≠ [] ∨ offset ≤ DsStr.len s) :
    ∃ r, DsStr.setRange s offset data = some r ∧
      DsStr.bytes r.1 = Spec.Str.setrange (DsStr.bytes s) offset.toNat data ∧
      r.2 = ((Spec.Str.setrange (DsStr.bytes s) offset.toNat data).length : Nat) := by
  obtain ⟨r, e, hb, hl⟩ := setRange_bytes s offset data h hw hg
  have key : DsStr.bytes r.1 = Spec.Str.setrange (DsStr.bytes s) offset.toNat data := by
    rw [hb]
    unfold Spec.Str.setrange
    by_cases hd : data = []
    · subst hd
      rcases hr with hr | hr
      · exact absurd rfl hr
      · unfold DsStr.len at hr
        have : offset.toNat - (DsStr.bytes s).length = 0 := by omega
        simp only [List.length_nil, Nat.add_zero, this, List.replicate_zero, List.append_nil, if_true,
          List.take_append_drop]
    · rw [if_neg hd]
  exact ⟨r, e, key, by rw [hl, key]⟩

theorem append_agree (s : DsStr.S) (data : Bytes) :
    DsStr.bytes (DsStr.append s data).1 = Spec.Str.append (DsStr.bytes s) data ∧
    (DsStr.append s data).2 = ((Spec.Str.append (DsStr.bytes s) data).length : Int) := by
  cases s with
  | some v => exact ⟨rfl, rfl⟩
  | none =>
    cases data with
    | nil => exact ⟨rfl, rfl⟩
    | cons a r => exact ⟨rfl, rfl⟩


/-! ### spec sanity: SETRANGE pointwise -/

theorem spec_setrange_length (v : Bytes) (off : Nat) (data : Bytes) (hd : data ≠ []) :
    (Spec.Str.setrange v off data).length = max v.length (off + data.length) := by
  unfold Spec.Str.setrange
  rw [if_neg hd]
  simp only [List.length_append, List.length_take, List.length_drop, List.length_replicate]
  omega

theorem pad_getElem? (v : Bytes) (m i : Nat) (h : i < v.length + m) :
    (v ++ List.replicate m 0)[i]? = some (v.getD i 0) := by
  rw [List.getD_eq_getElem?_getD, List.getElem?_append]
  by_cases h1 : i < v.length
  · rw [if_pos h1, List.getElem?_eq_getElem h1]; rfl
  · rw [if_neg h1, List.getElem?_replicate, if_pos (by omega), List.getElem?_eq_none (by omega)]; rfl

theorem spec_setrange_getElem? (v : Bytes) (off : Nat) (data : Bytes) (hd : data ≠ []) (i : Nat) :
    (Spec.Str.setrange v off data)[i]? =
      if i < off then some (v.getD i 0)
      else if i < off + data.length then data[i - off]?
      else v[i]? := by
  unfold Spec.Str.setrange
  rw [if_neg hd]
  simp only []
  generalize hm : off + data.length - v.length = m
  have ht : ((v ++ List.replicate m 0).take off).length = off := by
    simp only [List.length_take, List.length_append, List.length_replicate]; omega
  rw [List.append_assoc, List.getElem?_append, ht]
  by_cases h1 : i < off
  · rw [if_pos h1, if_pos h1, List.getElem?_take, if_pos h1, pad_getElem? _ _ _ (by omega)]
  · rw [if_neg h1, if_neg h1, List.getElem?_append]
    by_cases h2 : i < off + data.length
    · rw [if_pos (by omega), if_pos h2]
    · rw [if_neg (by omega), if_neg h2, List.getElem?_drop]
      have e : off + data.length + (i - off - data.length) = i := by omega
      rw [e, List.getElem?_append]
      by_cases h3 : i < v.length
      · rw [if_pos h3]
      · rw [if_neg h3, List.getElem?_replicate, if_neg (by omega), List.getElem?_eq_none (by omega)]

/-! ### bits -/

theorem mask_test : ∀ (j : Fin 8) (b : Fin 256),
    ((UInt8.ofNat b.val &&& ((1 : UInt8) <<< UInt8.ofNat (7 - j.val))) != 0) =
      Spec.Str.bitOf (UInt8.ofNat b.val) j.val := by
  decide +kernel

theorem or_test : ∀ (j : Fin 8) (b : Fin 256),
    (UInt8.ofNat b.val ||| ((1 : UInt8) <<< UInt8.ofNat (7 - j.val))) =
      Spec.Str.withBit (UInt8.ofNat b.val) j.val true := by
  decide +kernel

theorem andnot_test : ∀ (j : Fin 8) (b : Fin 256),
    (UInt8.ofNat b.val &&& ~~~((1 : UInt8) <<< UInt8.ofNat (7 - j.val))) =
      Spec.Str.withBit (UInt8.ofNat b.val) j.val false := by
  decide +kernel

theorem withBit_test : ∀ (j j' : Fin 8) (x : Bool) (b : Fin 256),
    Spec.Str.bitOf (Spec.Str.withBit (UInt8.ofNat b.val) j.val x) j'.val =
      if j' = j then x else Spec.Str.bitOf (UInt8.ofNat b.val) j'.val := by
  decide +kernel

theorem pc_test : ∀ (b : Fin 256), DsStr.popcount8 (UInt8.ofNat b.val) = Spec.Str.popcount (UInt8.ofNat b.val) := by
  decide +kernel

theorem mask_bit (b : UInt8) (j : Nat) (hj : j < 8) :
    ((b &&& ((1 : UInt8) <<< UInt8.ofNat (7 - j))) != 0) = Spec.Str.bitOf b j := by
  have := mask_test ⟨j, hj⟩ ⟨b.toNat, b.toNat_lt⟩
  simpa only [UInt8.ofNat_toNat] using this

theorem or_mask (b : UInt8) (j : Nat) (hj : j < 8) :
    (b ||| ((1 : UInt8) <<< UInt8.ofNat (7 - j))) = Spec.Str.withBit b j true := by
  have := or_test ⟨j, hj⟩ ⟨b.toNat, b.toNat_lt⟩
  simpa only [UInt8.ofNat_toNat] using this

theorem andnot_mask (b : UInt8) (j : Nat) (hj : j < 8) :
    (b &&& ~~~((1 : UInt8) <<< UInt8.ofNat (7 - j))) = Spec.Str.withBit b j false := by
  have := andnot_test ⟨j, hj⟩ ⟨b.toNat, b.toNat_lt⟩
  simpa only [UInt8.ofNat_toNat] using this

theorem bitOf_withBit (b : UInt8) (j j' : Nat) (hj : j < 8) (hj' : j' < 8) (x : Bool) :
    Spec.Str.bitOf (Spec.Str.withBit b j x) j' = if j' = j then x else Spec.Str.bitOf b j' := by
  have := withBit_test ⟨j, hj⟩ ⟨j', hj'⟩ x ⟨b.toNat, b.toNat_lt⟩
  simp only [UInt8.ofNat_toNat, Fin.mk.injEq] at this
  exact this

theorem popcount8_eq (b : UInt8) : DsStr.popcount8 b = Spec.Str.popcount b := by
  have := pc_test ⟨b.toNat, b.toNat_lt⟩
  simpa only [UInt8.ofNat_toNat] using this

theorem bitOf_zero (j : Nat) : Spec.Str.bitOf 0 j = false := by
  unfold Spec.Str.bitOf; simp

theorem bitMask_eq (offset : Int) (h : 0 ≤ offset) :
    DsStr.bitMask offset = (1 : UInt8) <<< UInt8.ofNat (7 - offset.toNat % 8) := by
  unfold DsStr.bitMask
  have : (offset % 8).toNat = offset.toNat % 8 := by omega
  rw [this]

theorem getD_pad (v : Bytes) (m i : Nat) : (v ++ List.replicate m 0).getD i 0 = v.getD i 0 := by
  simp only [List.getD_eq_getElem?_getD, List.getElem?_append, List.getElem?_replicate]
  by_cases h : i < v.length
  · simp only [h, if_true]
  · simp only [h, if_false]
    rw [List.getElem?_eq_none (by omega)]
    split <;> rfl

theorem getBit_agree (s : DsStr.S) (offset : Int) (h : 0 ≤ offset) :
    DsStr.getBit s offset = if Spec.Str.getbit (DsStr.bytes s) offset.toNat then 1 else 0 := by
  unfold DsStr.getBit Spec.Str.getbit
  simp only []
  rw [bitMask_eq offset h, mask_bit _ _ (Nat.mod_lt _ (by decide))]
  have e : (offset / 8).toNat = offset.toNat / 8 := by omega
  rw [e]
  split
  · next hc =>
    have : (DsStr.bytes s).getD (offset.toNat / 8) 0 = 0 := by
      rw [List.getD_eq_getElem?_getD, List.getElem?_eq_none (by omega)]; rfl
    rw [this, bitOf_zero]; rfl
  · rfl

theorem getBit_neg (s : DsStr.S) (offset : Int) (h : offset < 0) : DsStr.getBit s offset = 0 := by
  unfold DsStr.getBit
  simp only []
  rw [if_pos (Or.inl h)]

theorem setBit_neg (s : DsStr.S) (offset : Int) (x : Bool) (h : offset < 0) : DsStr.setBit s offset x = (s, 0) := by
  unfold DsStr.setBit; rw [if_pos h]

theorem setBit_agree (s : DsStr.S) (offset : Int) (x : Bool) (h : 0 ≤ offset) :
    DsStr.setBit s offset x =
      (some (Spec.Str.setbit (DsStr.bytes s) offset.toNat x),
       if Spec.Str.getbit (DsStr.bytes s) offset.toNat then 1 else 0) := by
  unfold DsStr.setBit Spec.Str.setbit Spec.Str.getbit
  rw [if_neg (by omega)]
  rw [bitMask_eq offset h]
  have e : (offset / 8).toNat = offset.toNat / 8 := by omega
  rw [e]
  generalize offset.toNat / 8 = i
  have hj : offset.toNat % 8 < 8 := Nat.mod_lt _ (by decide)
  generalize offset.toNat % 8 = j at hj
  generalize hv : DsStr.bytes s = v
  have hv1 : (if (i : Int) > (v.length : Int) - 1 then v ++ DsStr.zeros (i + 1 - v.length) else v) =
      v ++ List.replicate (i + 1 - v.length) 0 := by
    split
    · rfl
    · have : i + 1 - v.length = 0 := by omega
      rw [this]; simp
  simp only [hv1]
  simp only [getD_pad, mask_bit _ _ hj, or_mask _ _ hj, andnot_mask _ _ hj]
  have hnb : (if x = true then Spec.Str.withBit (v.getD i 0) j true else Spec.Str.withBit (v.getD i 0) j false) =
      Spec.Str.withBit (v.getD i 0) j x := by cases x <;> rfl
  rw [hnb]
  congr 1
  cases s with
  | some w => split <;> rfl
  | none =>
    simp only [DsStr.bytes, Option.getD_none] at hv
    subst hv
    have : (i : Int) > (([] : Bytes).length : Int) - 1 := by simp only [List.length_nil]; omega
    rw [if_pos this]; rfl

/-! ### spec sanity: SETBIT pointwise -/

theorem spec_setbit_length (v : Bytes) (off : Nat) (x : Bool) :
    (Spec.Str.setbit v off x).length = max v.length (off / 8 + 1) := by
  unfold Spec.Str.setbit
  simp only [List.length_set, List.length_append, List.length_replicate]
  omega

theorem spec_getbit_setbit (v : Bytes) (off off' : Nat) (x : Bool) :
    Spec.Str.getbit (Spec.Str.setbit v off x) off' = if off' = off then x else Spec.Str.getbit v off' := by
  unfold Spec.Str.getbit Spec.Str.setbit
  simp only []
  rw [getD_pad]
  have hj : off % 8 < 8 := Nat.mod_lt _ (by decide)
  have hj' : off' % 8 < 8 := Nat.mod_lt _ (by decide)
  by_cases hb : off' / 8 = off / 8
  · rw [hb]
    have : ((v ++ List.replicate (off / 8 + 1 - v.length) 0).set (off / 8)
        (Spec.Str.withBit (v.getD (off / 8) 0) (off % 8) x)).getD (off / 8) 0 =
        Spec.Str.withBit (v.getD (off / 8) 0) (off % 8) x := by
      rw [List.getD_eq_getElem?_getD, List.getElem?_set]
      have : off / 8 < (v ++ List.replicate (off / 8 + 1 - v.length) 0).length := by
        simp only [List.length_append, List.length_replicate]; omega
      simp only [this, if_true]; rfl
    rw [this, bitOf_withBit _ _ _ hj hj']
    have e : (off' = off) ↔ (off' % 8 = off % 8) := by omega
    simp only [e]
  · have hne : off' ≠ off := fun e => hb (by rw [e])
    rw [if_neg hne]
    have : ((v ++ List.replicate (off / 8 + 1 - v.length) 0).set (off / 8)
        (Spec.Str.withBit (v.getD (off / 8) 0) (off % 8) x)).getD (off' / 8) 0 = v.getD (off' / 8) 0 := by
      rw [List.getD_eq_getElem?_getD, List.getElem?_set]
      have : ¬ off / 8 = off' / 8 := fun e => hb e.symm
      simp only [this, if_false]
      rw [← List.getD_eq_getElem?_getD, getD_pad]
    rw [this]


/-! ### BITCOUNT -/

theorem foldl_popcount (l : Bytes) (acc : Nat) :
    l.foldl (fun acc b => acc + DsStr.popcount8 b) acc = acc + Spec.Str.popcountBytes l := by
  induction l generalizing acc with
  | nil => simp [Spec.Str.popcountBytes]
  | cons a r ih =>
    rw [List.foldl_cons, ih]
    simp only [Spec.Str.popcountBytes, List.map_cons, List.sum_cons, popcount8_eq]
    omega

def bcStart (start : Int) : Int := if start < 0 then 0 else start
def bcStop (n stop : Int) : Int :=
  if (if stop ≤ 0 then stop + n + 1 else stop) > n then n else (if stop ≤ 0 then stop + n + 1 else stop)
def bcStop2 (n start stop : Int) : Int :=
  if bcStart start = bcStop n stop then bcStop n stop + 1 else bcStop n stop

/-- the window `BitCount` of the Go code actually counts, as (first byte, number of bytes) -/
def mbcRange (n : Nat) (start stop : Int) : Nat × Nat :=
  if bcStart start ≥ (n : Int) then (0, 0)
  else if bcStart start > bcStop n stop then (0, 0)
  else ((bcStart start).toNat, (bcStop2 n start stop - bcStart start).toNat)

theorem bitCount_unfold (s : DsStr.S) (start stop : Int) :
    DsStr.bitCount s start stop =
      if bcStart start ≥ ((DsStr.bytes s).length : Int) then (0 : Int)
      else if bcStart start > bcStop (DsStr.bytes s).length stop then (0 : Int)
      else (((((DsStr.bytes s).drop (bcStart start).toNat).take
        (bcStop2 (DsStr.bytes s).length start stop - bcStart start).toNat).foldl
          (fun acc b => acc + DsStr.popcount8 b) 0 : Nat) : Int) := rfl

/-- closed form of the model's `BitCount` -/
theorem bitCount_closed (s : DsStr.S) (start stop : Int) :
    DsStr.bitCount s start stop =
      (Spec.Str.popcountBytes (((DsStr.bytes s).drop (mbcRange (DsStr.bytes s).length start stop).1).take
        (mbcRange (DsStr.bytes s).length start stop).2) : Nat) := by
  rw [bitCount_unfold]
  unfold mbcRange
  split
  · simp [Spec.Str.popcountBytes]
  · split
    · simp [Spec.Str.popcountBytes]
    · simp only [foldl_popcount, Nat.zero_add]

/-- where the Go window and the Redis window coincide -/
theorem bitCount_agree (s : DsStr.S) (start stop : Int)
    (hs : 0 ≤ start ∨ start ≤ -(DsStr.len s))
    (hr : (-(DsStr.len s) ≤ stop ∧ stop < 0 ∧ start ≠ DsStr.len s + stop + 1) ∨ DsStr.len s ≤ stop) :
    DsStr.bitCount s start stop = (Spec.Str.bitcount (DsStr.bytes s) start stop : Nat) := by
  rw [bitCount_closed]
  unfold Spec.Str.bitcount
  congr 2
  rw [normRange_unfold]
  unfold mbcRange
  unfold DsStr.len at hs hr
  generalize DsStr.bytes s = v at *
  generalize hst : clampStart v.length start = st
  generalize hes : sStop v.length stop = es
  generalize hbe2 : bcStop2 v.length start stop = be2
  simp only [bcStop2] at hbe2
  generalize hbs : bcStart start = bs at *
  generalize hbe : bcStop v.length stop = be at *
  simp only [clampStart] at hst
  simp only [sStop] at hes
  simp only [bcStart] at hbs
  simp only [bcStop] at hbe
  generalize hn : (v.length : Int) = n at *
  have hn1 : v.length = 0 ↔ n = 0 := by omega
  simp only [hn1]
  split
  · symm; apply slice_empty
    split
    · left; rfl
    · split
      · left; rfl
      · simp only; omega
  · split
    · symm; apply slice_empty
      split
      · left; rfl
      · split
        · left; rfl
        · simp only; omega
    · split
      · apply slice_empty; simp only; omega
      · split
        · apply slice_empty; simp only; omega
        · apply slice_congr <;> simp only <;> omega

theorem bitCount_whole (s : DsStr.S) (stop : Int) (h : stop = 0 ∨ stop = -1) :
    DsStr.bitCount s 0 stop = (Spec.Str.popcountBytes (DsStr.bytes s) : Nat) := by
  rw [bitCount_closed]
  unfold mbcRange
  generalize DsStr.bytes s = v
  generalize hbe2 : bcStop2 v.length 0 stop = be2
  simp only [bcStop2] at hbe2
  generalize hbs : bcStart 0 = bs at *
  generalize hbe : bcStop v.length stop = be at *
  simp only [bcStart] at hbs
  simp only [bcStop] at hbe
  congr 2
  split
  · next h =>
    have : v = [] := List.eq_nil_of_length_eq_zero (by omega)
    subst this; rfl
  · rw [if_neg (by omega)]
    simp only
    have e1 : bs.toNat = 0 := by omega
    rw [e1, List.drop_zero]
    apply List.take_of_length_le
    omega

/-- spec sanity: the number of 1 bits of a string is the number of bit offsets at which GETBIT reads 1 -/
theorem popcountBytes_eq_bits (v : Bytes) :
    Spec.Str.popcountBytes v = ((List.range (8 * v.length)).filter fun o => Spec.Str.getbit v o).length := by
  induction v with
  | nil => rfl
  | cons a r ih =>
    have e : 8 * (a :: r).length = 8 + 8 * r.length := by simp only [List.length_cons]; omega
    rw [e, List.range_add, List.filter_append, List.length_append, List.filter_map, List.length_map]
    unfold Spec.Str.popcountBytes at ih ⊢
    rw [List.map_cons, List.sum_cons, ih]
    have hfirst : Spec.Str.popcount a =
        ((List.range 8).filter fun o => Spec.Str.getbit (a :: r) o).length := by
      unfold Spec.Str.popcount
      apply congrArg List.length
      apply List.filter_congr
      intro j hj
      have hj' : j < 8 := List.mem_range.mp hj
      unfold Spec.Str.getbit
      have h1 : j / 8 = 0 := by omega
      have h2 : j % 8 = j := by omega
      rw [h1, h2]; rfl
    have hsecond : ((List.range (8 * r.length)).filter fun o => Spec.Str.getbit r o) =
        ((List.range (8 * r.length)).filter ((fun o => Spec.Str.getbit (a :: r) o) ∘ fun x => 8 + x)) := by
      apply List.filter_congr
      intro j _
      simp only [Function.comp]
      unfold Spec.Str.getbit
      have h1 : (8 + j) / 8 = j / 8 + 1 := by omega
      have h2 : (8 + j) % 8 = j % 8 := by omega
      rw [h1, h2]
      rfl
    rw [hfirst, hsecond]

/-! ### counters -/

theorem addInt_agree (s : DsStr.S) (d : Int) :
    DsStr.addInt s d = (Spec.Str.incrby (DsStr.bytes s) d).map fun r => (some r.1, r.2) := by
  unfold DsStr.addInt Spec.Str.incrby
  have : (if (DsStr.bytes s).isEmpty = true then ([48] : Bytes) else DsStr.bytes s) =
      (if DsStr.bytes s = [] then [48] else DsStr.bytes s) := by
    cases DsStr.bytes s <;> rfl
  simp only [this]
  cases parseInt64 (if DsStr.bytes s = [] then [48] else DsStr.bytes s) with
  | none => rfl
  | some n =>
    simp only
    split <;> rfl

end NodisVerif.Proofs.C01
