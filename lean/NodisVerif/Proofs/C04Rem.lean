import NodisVerif.Proofs.C04Spec
import NodisVerif.Proofs.C04Seq
/-
  ZREMRANGEBYSCORE / ZREMRANGEBYRANK / ZREM / ZADD against the reference sorted list.
-/
namespace NodisVerif.Proofs.C04
open AListLemmas ZSetLemmas DsZSet

/-! ### monotone predicates on a sorted list -/

theorem filter_downclosed {α : Type} (R : α → α → Prop) (q : α → Bool) : ∀ (l : List α),
    l.Pairwise R → (∀ a ∈ l, ∀ b ∈ l, R a b → q b = true → q a = true) →
    l.filter q = l.takeWhile q ∧ l.filter (fun a => !q a) = l.dropWhile q := by
  intro l
  induction l with
  | nil => intro _ _; simp
  | cons a l ih =>
    intro hpw hq
    obtain ⟨h1, h2⟩ := List.pairwise_cons.mp hpw
    obtain ⟨ih1, ih2⟩ := ih h2 (fun x hx y hy => hq x (by simp [hx]) y (by simp [hy]))
    by_cases ha : q a = true
    · simp [ha, ih1, ih2]
    · have hall : ∀ b ∈ l, q b = false := by
        intro b hb
        cases hqb : q b with
        | false => rfl
        | true => exact absurd (hq a (by simp) b (by simp [hb]) (h1 b hb) hqb) ha
      have hf1 : l.filter q = [] := by
        rw [List.filter_eq_nil_iff]; intro b hb; simp [hall b hb]
      have hf2 : l.filter (fun a => !q a) = l := by
        rw [List.filter_eq_self]; intro b hb; simp [hall b hb]
      simp [ha, hf1, hf2]

theorem drop_takeWhile_length {α : Type} (p : α → Bool) : ∀ (l : List α),
    l.drop (l.takeWhile p).length = l.dropWhile p := by
  intro l
  induction l with
  | nil => rfl
  | cons a l ih =>
    by_cases h : p a = true
    · simp [h, ih]
    · simp [h]

theorem takeWhile_dropWhile_congr {α : Type} (p q : α → Bool) : ∀ (l : List α),
    (∀ a ∈ l, p a = q a) → l.takeWhile p = l.takeWhile q ∧ l.dropWhile p = l.dropWhile q := by
  intro l
  induction l with
  | nil => intro _; exact ⟨rfl, rfl⟩
  | cons a l ih =>
    intro h
    obtain ⟨h1, h2⟩ := ih (fun b hb => h b (by simp [hb]))
    simp only [List.takeWhile_cons, List.dropWhile_cons, h a (by simp), h1, h2]
    exact ⟨trivial, trivial⟩

theorem key_le_of_ilt (a b : Item) (ha : Good a) (hb : Good b) (h : ILt a b) :
    F64.key a.1 ≤ F64.key b.1 := by
  rw [ILt, itemLt_iff a b ha hb] at h
  omega

/-- mode bits as the reference's open/closed flags -/
def minOpen (mode : Nat) : Bool := decide (mode % 2 = 1)
def maxOpen (mode : Nat) : Bool := decide (mode / 2 % 2 = 1)

/-- `skiplist.removeRange` on a sorted chain with non-NaN bounds: removes exactly the items in the
    score interval -/
theorem slRemoveRange_spec (l : List Item) (hpw : l.Pairwise ILt) (hg : ∀ a ∈ l, Good a)
    (min max : F64) (hmin : F64.isNaN min = false) (hmax : F64.isNaN max = false) (mode : Nat) :
    slRemoveRange l min max mode =
      (l.filter (fun it => !Spec.ZSet.inRange min max (minOpen mode) (maxOpen mode) it),
       l.filter (Spec.ZSet.inRange min max (minOpen mode) (maxOpen mode))) := by
  -- the two walks, as predicates of the reference
  let above : Item → Bool := fun it => Spec.ZSet.aboveMin min (minOpen mode) it.1
  let below : Item → Bool := fun it => Spec.ZSet.belowMax max (maxOpen mode) it.1
  have hp1 : (fun (n : Item) => !(if mode % 2 = 1 then F64.lt min n.1 else F64.le min n.1))
      = fun n => !above n := by
    funext n
    simp only [above, Spec.ZSet.aboveMin, minOpen]
    by_cases h : mode % 2 = 1 <;> simp [h]
  have hbelow_eq : ∀ n ∈ l, (!(if mode / 2 % 2 = 1 then F64.le max n.1 else F64.lt max n.1)) = below n := by
    intro n hn
    have hnn : F64.isNaN n.1 = false := hg n hn
    simp only [below, Spec.ZSet.belowMax, maxOpen]
    by_cases h : mode / 2 % 2 = 1
    · simp only [h, if_true, decide_true, F64.le, F64.lt, hnn, hmax, Bool.not_false, Bool.true_and]
      rw [Bool.eq_iff_iff]; simp only [Bool.not_eq_true', decide_eq_false_iff_not, decide_eq_true_eq]; omega
    · simp only [h, if_false, decide_false, F64.le, F64.lt, hnn, hmax, Bool.not_false, Bool.true_and,
        Bool.false_eq_true]
      rw [Bool.eq_iff_iff]; simp only [Bool.not_eq_true', decide_eq_false_iff_not, decide_eq_true_eq]; omega
  -- monotonicity
  have habove_up : ∀ a ∈ l, ∀ b ∈ l, ILt a b → (!above b) = true → (!above a) = true := by
    intro a ha b hb hab
    have hk := key_le_of_ilt a b (hg a ha) (hg b hb) hab
    have han : F64.isNaN a.1 = false := hg a ha
    have hbn : F64.isNaN b.1 = false := hg b hb
    simp only [above, Spec.ZSet.aboveMin]
    cases minOpen mode <;>
      simp only [F64.le, F64.lt, han, hbn, hmin, Bool.not_false, Bool.true_and, if_true, if_false,
        Bool.false_eq_true, Bool.not_eq_true', decide_eq_false_iff_not] <;> omega
  have hbelow_down : ∀ a ∈ l, ∀ b ∈ l, ILt a b → below b = true → below a = true := by
    intro a ha b hb hab
    have hk := key_le_of_ilt a b (hg a ha) (hg b hb) hab
    have han : F64.isNaN a.1 = false := hg a ha
    have hbn : F64.isNaN b.1 = false := hg b hb
    simp only [below, Spec.ZSet.belowMax]
    cases maxOpen mode <;>
      simp only [F64.le, F64.lt, han, hbn, hmax, Bool.not_false, Bool.true_and, if_true, if_false,
        Bool.false_eq_true, decide_eq_true_eq] <;> omega
  obtain ⟨hA1, hA2⟩ := filter_downclosed ILt (fun n => !above n) l hpw habove_up
  simp only [Bool.not_not] at hA2
  -- the part from the first item above `min`
  have hrest_sub : (l.dropWhile fun n => !above n).Sublist l := List.dropWhile_sublist _
  have hrest_pw := hpw.sublist hrest_sub
  obtain ⟨hB1, hB2⟩ := filter_downclosed ILt below (l.dropWhile fun n => !above n) hrest_pw
    (fun a ha b hb => hbelow_down a (hrest_sub.subset ha) b (hrest_sub.subset hb))
  have hinr : (Spec.ZSet.inRange min max (minOpen mode) (maxOpen mode)) = fun it => below it && above it := by
    funext it
    simp only [Spec.ZSet.inRange, above, below, Bool.and_comm]
  unfold slRemoveRange
  simp only [hp1, drop_takeWhile_length]
  obtain ⟨htw, hdw⟩ := takeWhile_dropWhile_congr
    (fun (n : Item) => !(if mode / 2 % 2 = 1 then F64.le max n.1 else F64.lt max n.1)) below
    (l.dropWhile fun n => !above n) (fun n hn => hbelow_eq n (hrest_sub.subset hn))
  rw [htw, hdw]
  refine Prod.ext ?_ ?_
  · -- what stays
    simp only
    rw [hinr]
    conv => rhs; rw [← List.takeWhile_append_dropWhile (p := fun n => !above n) (l := l)]
    rw [List.filter_append]
    congr 1
    · rw [List.filter_eq_self.mpr]
      intro a ha
      rw [← hA1] at ha
      have := (List.mem_filter.mp ha).2
      simp only [Bool.not_eq_true'] at this
      simp [this]
    · rw [← hB2]
      rw [← hA2, List.filter_filter, List.filter_filter]
      congr 1
      funext a
      show (!below a && above a) = (!(below a && above a) && above a)
      generalize above a = x
      generalize below a = y
      cases x <;> cases y <;> rfl
  · simp only
    rw [hinr, ← hB1, ← hA2, List.filter_filter]

theorem zRemRangeByScore_spec {z : ZSet} (h : Inv z) (min max : F64)
    (hmin : F64.isNaN min = false) (hmax : F64.isNaN max = false) (mode : Nat) :
    (Spec.ZSet.sorted (zRemRangeByScore z min max mode).1, ((zRemRangeByScore z min max mode).2).toNat)
      = Spec.ZSet.remRangeByScore z min max (minOpen mode) (maxOpen mode) ∧
    0 ≤ (zRemRangeByScore z min max mode).2 := by
  have h' := inv_zRemRangeByScore h min max mode
  rw [← sl_eq_sorted h']
  unfold Spec.ZSet.remRangeByScore
  rw [← sl_eq_sorted h]
  unfold zRemRangeByScore
  rw [slRemoveRange_spec z.sl h.slPW h.good min max hmin hmax mode]
  simp

/-! ### ZREMRANGEBYRANK -/

theorem normStart_spec (n start : Int) :
    (let s := if start < 0 then n + start else start; if s < 0 then 0 else s) = normStart n start := by
  unfold normStart
  simp only
  by_cases h1 : start < 0
  · simp only [h1, if_true]
    have : n + start = start + n := by omega
    rw [this]
  · simp only [h1, if_false]

theorem normStop_spec (n stop : Int) :
    (let e := if stop < 0 then n + stop else stop; if e ≥ n then n - 1 else e) = normStop n stop := by
  unfold normStop
  simp only
  by_cases h1 : stop < 0
  · simp only [h1, if_true]
    have : n + stop = stop + n := by omega
    rw [this]
  · simp only [h1, if_false]

theorem slice_norm (l : List Item) (start stop : Int) :
    Spec.ZSet.slice l start stop =
      if normStart l.length start > normStop l.length stop ∨ normStart l.length start ≥ (l.length : Int)
      then [] else (l.drop (normStart l.length start).toNat).take
        (normStop l.length stop - normStart l.length start + 1).toNat := by
  unfold Spec.ZSet.slice
  simp only
  rw [← normStart_spec, ← normStop_spec]

theorem unslice_norm (l : List Item) (start stop : Int) :
    Spec.ZSet.unslice l start stop =
      if normStart l.length start > normStop l.length stop ∨ normStart l.length start ≥ (l.length : Int)
      then l else l.take (normStart l.length start).toNat ++ l.drop (normStop l.length stop + 1).toNat := by
  unfold Spec.ZSet.unslice
  simp only
  rw [← normStart_spec, ← normStop_spec]

theorem normStart_nonneg (n start : Int) (_hn : 0 ≤ n) : 0 ≤ normStart n start := by
  unfold normStart
  split <;> (try split) <;> omega

/-- the model's chain and count after ZREMRANGEBYRANK are the reference's -/
theorem zRemRangeByRank_sl (z : ZSet) (hlen : z.sl.length = z.dict.length) (start stop : Int) :
    (zRemRangeByRank z start stop).1.sl = Spec.ZSet.unslice z.sl start stop ∧
    (zRemRangeByRank z start stop).2 = ((Spec.ZSet.slice z.sl start stop).length : Int) := by
  rw [zRemRangeByRank_core, slice_norm, unslice_norm]
  have hc : zCard z = (z.sl.length : Int) := by unfold zCard; rw [hlen]
  rw [hc]
  have hs0 := normStart_nonneg z.sl.length start (by omega)
  generalize normStart (↑z.sl.length) start = s at hs0 ⊢
  generalize normStop (↑z.sl.length) stop = e
  unfold remByRankCore
  rw [hc]
  by_cases hcond : s > e ∨ s ≥ (z.sl.length : Int)
  · simp [hcond]
  · rw [if_neg hcond, if_neg hcond, if_neg hcond]
    unfold slRemoveRangeByRank
    simp only
    have hi0 : (if s + 1 ≤ 1 then 0 else min (s + 1 - 1).toNat z.sl.length) = s.toNat := by
      split
      · omega
      · have : s + 1 - 1 = s := by omega
        rw [this]
        omega
    rw [hi0]
    have hcnt : (if e + 1 < (s.toNat : Int) + 1 then 0 else (e + 1 - (s.toNat : Int)).toNat)
        = (e - s + 1).toNat := by
      split
      · omega
      · omega
    rw [hcnt]
    refine ⟨?_, rfl⟩
    rw [List.drop_drop]
    congr 2
    omega

theorem zRemRangeByRank_spec {z : ZSet} (h : Inv z) (start stop : Int) :
    (Spec.ZSet.sorted (zRemRangeByRank z start stop).1, ((zRemRangeByRank z start stop).2).toNat)
      = Spec.ZSet.remRangeByRank z start stop ∧ 0 ≤ (zRemRangeByRank z start stop).2 := by
  have h' := inv_zRemRangeByRank h start stop
  obtain ⟨h1, h2⟩ := zRemRangeByRank_sl z h.sameLen start stop
  rw [← sl_eq_sorted h', h1, h2]
  unfold Spec.ZSet.remRangeByRank
  rw [← sl_eq_sorted h]
  simp

/-! ### ZADD / ZREM on the reference list -/

theorem sorted_eq_of_mem {z : ZSet} (h : Inv z) (l : List Item) (hl : l.Pairwise ILt)
    (hm : ∀ s m, (s, m) ∈ l ↔ (m, s) ∈ z.dict) : Spec.ZSet.sorted z = l := by
  rw [← sl_eq_sorted h]
  apply sorted_ext (fun a b => ILt a b) _ _ _ h.slPW hl
  · rintro ⟨s, m⟩
    rw [h.mem_iff, hm]
  · intro a ha b hb hab hba
    exact itemLt_asymm a b (h.good a ha) (h.good b hb) hab hba

/-- a state whose dictionary is that of `z` with member `m` (re)bound to `s'` has the reference
    list `Spec.add z m s'` -/
theorem sorted_eq_add {z z' : ZSet} (h : Inv z) (h' : Inv z') (m : Bytes) (s' : F64)
    (hs : F64.isNaN s' = false)
    (hd : ∀ q, q ∈ z'.dict ↔ q = (m, s') ∨ (q ∈ z.dict ∧ q.1 ≠ m)) :
    Spec.ZSet.sorted z' = Spec.ZSet.add z m s' := by
  have hsub : ((Spec.ZSet.sorted z).filter fun it => decide (it.2 ≠ m)).Sublist (Spec.ZSet.sorted z) :=
    List.filter_sublist
  have hspw : (Spec.ZSet.sorted z).Pairwise ILt := by rw [← sl_eq_sorted h]; exact h.slPW
  have hsg : ∀ a ∈ Spec.ZSet.sorted z, Good a := by rw [← sl_eq_sorted h]; exact h.good
  apply sorted_eq_of_mem h'
  · unfold Spec.ZSet.add Spec.ZSet.rem
    apply insert_pairwise (s', m) hs _ (hspw.sublist hsub) (fun a ha => hsg a (hsub.subset ha))
    intro a ha
    simpa using (List.mem_filter.mp ha).2
  · intro s0 m0
    rw [hd]
    unfold Spec.ZSet.add Spec.ZSet.rem
    rw [mem_insert, List.mem_filter, mem_sorted]
    simp only [Prod.mk.injEq, ne_eq, decide_not, Bool.not_eq_eq_eq_not, Bool.not_true,
      decide_eq_false_iff_not]
    constructor
    · rintro (⟨e1, e2⟩ | e)
      · exact Or.inl ⟨e2, e1⟩
      · exact Or.inr e
    · rintro (⟨e1, e2⟩ | e)
      · exact Or.inl ⟨e2, e1⟩
      · exact Or.inr e

/-- plain ZADD: the member is placed where its (stored) score demands, nothing else changes; the
    stored score is the new one unless an IEEE-equal score was already stored (then nothing changes) -/
theorem zAdd_sorted {z : ZSet} (h : Inv z) (m : Bytes) (s : F64) (hs : F64.isNaN s = false) :
    ∃ s', zScore (zAdd z m s).1 m = some s' ∧ F64.eq s' s = true ∧
      Spec.ZSet.sorted (zAdd z m s).1 = Spec.ZSet.add z m s' := by
  have h' := inv_zAdd h m s hs
  have hss : F64.eq s s = true := by simp [F64.eq, hs]
  have hset : ∀ (z' : ZSet), Inv z' → z'.dict = AList.set z.dict m s →
      Spec.ZSet.sorted z' = Spec.ZSet.add z m s := by
    intro z' hz' hdict
    apply sorted_eq_add h hz' m s hs
    intro q
    rw [hdict]
    exact mem_set m s q z.dict h.dictPW
  unfold zScore
  revert h'
  unfold zAdd
  cases hget : AList.get? z.dict m with
  | none =>
    intro h'
    exact ⟨s, get?_set_self m s z.dict, hss, hset _ h' rfl⟩
  | some old =>
    simp only
    by_cases heq : F64.eq s old = true
    · rw [if_pos heq]
      intro _
      refine ⟨old, hget, eq_symm s old heq, ?_⟩
      apply sorted_eq_add h h m old (h.noNaN (m, old) ((get?_iff_mem m old z.dict h.dictPW).mp hget))
      intro q
      have hold : (m, old) ∈ z.dict := (get?_iff_mem m old z.dict h.dictPW).mp hget
      constructor
      · intro e
        by_cases hq : q.1 = m
        · left
          obtain ⟨k, v⟩ := q
          simp only at hq
          subst hq
          rw [pairwise_key_unique z.dict h.dictPW k v old e hold]
        · exact Or.inr ⟨e, hq⟩
      · rintro (e | ⟨e, _⟩)
        · rw [e]; exact hold
        · exact e
    · rw [if_neg heq]
      intro h'
      exact ⟨s, get?_set_self m s z.dict, hss, hset _ h' rfl⟩

theorem length_erase_of_get? {V : Type} (key : Bytes) (v : V) : ∀ (d : AList V),
    AList.get? d key = some v → (AList.erase d key).length + 1 = d.length := by
  intro d
  induction d with
  | nil => intro h; simp [AList.get?] at h
  | cons p rest ih =>
    obtain ⟨k, w⟩ := p
    intro h
    simp only [AList.get?] at h
    unfold AList.erase
    by_cases hk : k = key
    · simp [hk]
    · simp only [hk, if_false] at h ⊢
      simp only [List.length_cons]
      rw [ih h]

theorem foldl_remStep_spec : ∀ (ms : List Bytes) (acc : ZSet × Int), Inv acc.1 →
    (∀ q, q ∈ (ms.foldl remStep acc).1.dict ↔ q ∈ acc.1.dict ∧ q.1 ∉ ms) ∧
    (ms.foldl remStep acc).2 = acc.2 + ((acc.1.dict.length : Int) - (ms.foldl remStep acc).1.dict.length) := by
  intro ms
  induction ms with
  | nil => intro acc _; simp
  | cons m ms ih =>
    intro acc hacc
    obtain ⟨ih1, ih2⟩ := ih (remStep acc m) (inv_remStep hacc m)
    simp only [List.foldl_cons]
    have hstep : (∀ q, q ∈ (remStep acc m).1.dict ↔ q ∈ acc.1.dict ∧ q.1 ≠ m) ∧
        (remStep acc m).2 = acc.2 + ((acc.1.dict.length : Int) - (remStep acc m).1.dict.length) := by
      unfold remStep
      cases hget : AList.get? acc.1.dict m with
      | none =>
        simp only
        refine ⟨?_, by omega⟩
        intro q
        constructor
        · intro hq; exact ⟨hq, (get?_none_iff m acc.1.dict).mp hget q hq⟩
        · intro hq; exact hq.1
      | some sc =>
        simp only
        refine ⟨fun q => mem_erase m q acc.1.dict hacc.dictPW, ?_⟩
        have := length_erase_of_get? m sc acc.1.dict hget
        omega
    refine ⟨?_, ?_⟩
    · intro q
      rw [ih1, hstep.1]
      simp only [List.mem_cons, not_or]
      constructor
      · rintro ⟨⟨a, b⟩, c⟩; exact ⟨a, b, c⟩
      · rintro ⟨a, b, c⟩; exact ⟨⟨a, b⟩, c⟩
    · rw [ih2, hstep.2]
      omega

/-- ZREM: exactly the listed members disappear; the reply is the number of members removed -/
theorem zRem_sorted {z : ZSet} (h : Inv z) (ms : List Bytes) :
    Spec.ZSet.sorted (zRem z ms).1 = (Spec.ZSet.sorted z).filter (fun it => decide (it.2 ∉ ms)) ∧
    (zRem z ms).2 = (Spec.ZSet.card z : Int) - Spec.ZSet.card (zRem z ms).1 := by
  have h' := inv_zRem h ms
  obtain ⟨h1, h2⟩ := foldl_remStep_spec ms (z, 0) h
  rw [← zRem_eq] at h1 h2
  have hspw : (Spec.ZSet.sorted z).Pairwise ILt := by rw [← sl_eq_sorted h]; exact h.slPW
  constructor
  · apply sorted_eq_of_mem h'
    · exact hspw.sublist List.filter_sublist
    · intro s m
      rw [h1, List.mem_filter, mem_sorted]
      simp
  · rw [h2]
    unfold Spec.ZSet.card
    rw [← sl_eq_sorted h, ← sl_eq_sorted h', h.sameLen, h'.sameLen]
    simp

end NodisVerif.Proofs.C04
