import NodisVerif.Proofs.C01Store
import NodisVerif.Proofs.C01Bytes
/-
  C01 helper lemmas, API level (Model/Api.lean, string and keyspace commands).
-/
namespace NodisVerif.Proofs.C01
open NodisVerif
open NodisVerif.Proofs.AListLemmas NodisVerif.Proofs.AListLemmas2
open Store Api

/-- the value is a string object (`.str` or the never-filled `.strNil`) -/
def isStrVal : Val → Bool
  | .str _ => true
  | .strNil => true
  | _ => false

/-- the Go string object behind a string value -/
def strOf : Val → DsStr.S
  | .str v => some v
  | _ => none

/-- the bytes a string value denotes (`strNil` = empty) -/
def bytesOf (v : Val) : Bytes := DsStr.bytes (strOf v)

theorem asStr_hot {s : MState} {k : Bytes} {v : Val} {now : Int} (h : Hot s k v now) :
    asStr s k = if isStrVal v then some (strOf v) else none := by
  unfold asStr
  rw [valOf_hot h]
  cases v <;> rfl

theorem asStr_hot_str {s : MState} {k : Bytes} {v : Val} {now : Int} (h : Hot s k v now) (hs : isStrVal v = true) :
    asStr s k = some (strOf v) := by
  rw [asStr_hot h, hs]; rfl

theorem asStr_hot_other {s : MState} {k : Bytes} {v : Val} {now : Int} (h : Hot s k v now) (hs : isStrVal v = false) :
    asStr s k = none := by
  rw [asStr_hot h, hs]; rfl

theorem strVal_strOf (v : Val) (h : isStrVal v = true) : strVal (strOf v) = v := by
  cases v <;> first | rfl | cases h

theorem isStrVal_strVal (x : DsStr.S) : isStrVal (strVal x) = true := by cases x <;> rfl
theorem strOf_strVal (x : DsStr.S) : strOf (strVal x) = x := by cases x <;> rfl

theorem hotExp_of_liveExp {s : MState} {k : Bytes} {v : Val} {now : Int} {e : Int} (h : Hot s k v now)
    (he : liveExp s now k = some e) : HotExp s k e := by
  obtain ⟨m, hm, hok, hex, hv⟩ := h
  unfold liveExp at he
  rw [hm] at he
  have : resolve s k m = some v := by unfold resolve; rw [hv]
  simp [hok, hex, this] at he
  exact ⟨m, hm, he⟩

theorem liveExp_isSome_of_live {s : MState} {now : Int} {k : Bytes} {v : Val} (h : live s now k = some v) :
    ∃ e, liveExp s now k = some e := by
  rw [live_some_iff] at h
  obtain ⟨m, hm, hok, hex, hr⟩ := h
  refine ⟨m.exp, ?_⟩
  unfold liveExp
  rw [hm]
  simp [hok, hex, hr]

theorem liveExp_none_of_live {s : MState} {now : Int} {k : Bytes} (h : live s now k = none) :
    liveExp s now k = none := by
  unfold liveExp
  unfold live at h
  cases hm : getMeta s k with
  | none => rfl
  | some m =>
    rw [hm] at h
    simp only at h ⊢
    cases hc : (m.isOk && !m.expired now)
    · simp
    · rw [hc] at h; simp only [if_true] at h; simp [h]

/-- deadline of a live key is not in the past -/
theorem liveExp_future {s : MState} {now : Int} {k : Bytes} {e : Int} (h : liveExp s now k = some e) :
    e = 0 ∨ now < e := by
  unfold liveExp at h
  cases hm : getMeta s k with
  | none => rw [hm] at h; cases h
  | some m =>
    rw [hm] at h
    simp only at h
    split at h
    · next hc =>
      cases h
      simp only [Bool.and_eq_true, Bool.not_eq_true'] at hc
      have := hc.1.2
      unfold Meta.expired at this
      simp only [Bool.and_eq_false_iff, bne_eq_false_iff_eq, decide_eq_false_iff_not, Int.not_le] at this
      exact this
    · cases h

/-- every `writeKey key newStr` prefix: what the command then finds under the key -/
theorem open_str (s : MState) (now : Int) (k : Bytes) :
    (∀ v0, live s now k = some v0 →
        Hot (writeKey s now k (some (.str []))).1 k v0 now ∧
        (∀ k', lookup (writeKey s now k (some (.str []))).1 now k' = lookup s now k')) ∧
    (live s now k = none →
        Hot (writeKey s now k (some (.str []))).1 k (.str []) now ∧ HotExp (writeKey s now k (some (.str []))).1 k 0) := by
  constructor
  · intro v0 hl
    obtain ⟨_, h2, h3⟩ := writeKey_live s now k (some (.str [])) v0 hl
    exact ⟨h2, h3⟩
  · intro hl
    obtain ⟨_, m, hm, hok, he, hv⟩ := (writeKey_absent s now k (some (.str [])) hl).2 (.str []) rfl
    exact ⟨⟨m, hm, hok, expired_of_exp_zero m now he, hv⟩, ⟨m, hm, he⟩⟩

/-- the string the key holds for a string command: its live value, or a fresh nil string -/
def strAt (s : MState) (now : Int) (k : Bytes) : Val := (live s now k).getD (.str [])

theorem open_str_ok (s : MState) (now : Int) (k : Bytes) (hs : ∀ v0, live s now k = some v0 → isStrVal v0 = true) :
    Hot (writeKey s now k (some (.str []))).1 k (strAt s now k) now ∧ isStrVal (strAt s now k) = true ∧
    HotExp (writeKey s now k (some (.str []))).1 k ((liveExp s now k).getD 0) := by
  unfold strAt
  cases hl : live s now k with
  | none =>
    obtain ⟨h1, h2⟩ := (open_str s now k).2 hl
    rw [liveExp_none_of_live hl]
    exact ⟨h1, rfl, h2⟩
  | some v0 =>
    obtain ⟨h1, h2⟩ := (open_str s now k).1 v0 hl
    obtain ⟨e, he⟩ := liveExp_isSome_of_live hl
    refine ⟨h1, hs v0 hl, ?_⟩
    rw [he]
    apply hotExp_of_liveExp h1
    rw [liveExp_congr (h2 k), he]; rfl

/-- the common tail of the writing string commands -/
theorem tail_hot {s : MState} {k : Bytes} {v0 : Val} {now : Int} (h : Hot s k v0 now) (v : Val) (op : FeedOp) :
    Hot (emit (signal (setVal s k v) k) op) k v now :=
  hot_emit (hot_signal (hot_setVal h v)) op

theorem tail_hotExp {s : MState} {k : Bytes} {e : Int} (h : HotExp s k e) (v : Val) (op : FeedOp) :
    HotExp (emit (signal (setVal s k v) k) op) k e :=
  hotExp_emit (hotExp_signal (hotExp_setVal h v)) op

/-! ### GET -/

theorem get_hot {s : MState} {k : Bytes} {v : Val} {now : Int} (h : Hot s k v now) (hs : isStrVal v = true) :
    (Api.get s now k).2 = .bytes (strOf v) := by
  have hl := live_of_hot h
  obtain ⟨h1, h2⟩ := readKey_live s now k
  have h3 := h2 v hl
  unfold Api.get
  rw [show readKey s now k = ((readKey s now k).1, (readKey s now k).2) from rfl, h1, hl]
  simp only [Option.isSome_some, Bool.not_true, Bool.false_eq_true, if_false]
  rw [asStr_hot_str h3 hs]

/-! ### SET / SETOPT / GETSET / SETEX / SETPX -/

theorem set_ok (s : MState) (now : Int) (k v : Bytes) (keep : Bool)
    (hs : ∀ v0, live s now k = some v0 → isStrVal v0 = true) :
    (Api.set s now k v keep).2 = .unit ∧ Hot (Api.set s now k v keep).1 k (.str v) now ∧
    HotExp (Api.set s now k v keep).1 k (if keep then (liveExp s now k).getD 0 else 0) := by
  obtain ⟨h1, h2, h3⟩ := open_str_ok s now k hs
  unfold Api.set
  generalize writeKey s now k (some (.str [])) = w at *
  obtain ⟨s1, b⟩ := w
  simp only at h1 h3 ⊢
  rw [asStr_hot_str h1 h2]
  simp only
  cases keep with
  | true =>
    simp only [Bool.not_true, Bool.false_eq_true, if_false, if_true]
    exact ⟨trivial, tail_hot h1 _ _, tail_hotExp h3 _ _⟩
  | false =>
    simp only [Bool.not_false, if_true, Bool.false_eq_true, if_false]
    refine ⟨trivial, hot_emit (hot_signal (hot_setExp (hot_setVal h1 _) 0 (Or.inl rfl))) _, ?_⟩
    exact hotExp_emit (hotExp_signal (hotExp_setExp (hotExp_setVal h3 _) 0)) _

theorem set_wrongtype (s : MState) (now : Int) (k v : Bytes) (keep : Bool) (v0 : Val)
    (hl : live s now k = some v0) (ht : isStrVal v0 = false) :
    (Api.set s now k v keep).2 = .panic ∧
    (∀ k', lookup (Api.set s now k v keep).1 now k' = lookup s now k') := by
  obtain ⟨h1, h2⟩ := (open_str s now k).1 v0 hl
  unfold Api.set
  generalize writeKey s now k (some (.str [])) = w at *
  obtain ⟨s1, b⟩ := w
  simp only at h1 h2 ⊢
  rw [asStr_hot_other h1 ht]
  exact ⟨rfl, h2⟩

theorem setOpt_ok (s : MState) (now : Int) (k : Bytes) (v : DsStr.S) (keep : Bool)
    (hs : ∀ v0, live s now k = some v0 → isStrVal v0 = true) :
    (Api.setOpt s now k v keep).2 = .unit ∧ Hot (Api.setOpt s now k v keep).1 k (strVal v) now ∧
    HotExp (Api.setOpt s now k v keep).1 k (if keep then (liveExp s now k).getD 0 else 0) := by
  obtain ⟨h1, h2, h3⟩ := open_str_ok s now k hs
  unfold Api.setOpt
  generalize writeKey s now k (some (.str [])) = w at *
  obtain ⟨s1, b⟩ := w
  simp only at h1 h3 ⊢
  rw [asStr_hot_str h1 h2]
  simp only
  cases keep with
  | true =>
    simp only [Bool.not_true, Bool.false_eq_true, if_false, if_true]
    exact ⟨trivial, tail_hot h1 _ _, tail_hotExp h3 _ _⟩
  | false =>
    simp only [Bool.not_false, if_true, Bool.false_eq_true, if_false]
    refine ⟨trivial, hot_emit (hot_signal (hot_setExp (hot_setVal h1 _) 0 (Or.inl rfl))) _, ?_⟩
    exact hotExp_emit (hotExp_signal (hotExp_setExp (hotExp_setVal h3 _) 0)) _

theorem setOpt_wrongtype (s : MState) (now : Int) (k : Bytes) (v : DsStr.S) (keep : Bool) (v0 : Val)
    (hl : live s now k = some v0) (ht : isStrVal v0 = false) :
    (Api.setOpt s now k v keep).2 = .panic ∧
    (∀ k', lookup (Api.setOpt s now k v keep).1 now k' = lookup s now k') := by
  obtain ⟨h1, h2⟩ := (open_str s now k).1 v0 hl
  unfold Api.setOpt
  generalize writeKey s now k (some (.str [])) = w at *
  obtain ⟨s1, b⟩ := w
  simp only at h1 h2 ⊢
  rw [asStr_hot_other h1 ht]
  exact ⟨rfl, h2⟩

theorem writeKey_none_flag (s : MState) (now : Int) (k : Bytes) :
    (writeKey s now k none).2 = (live s now k).isSome := by
  cases hl : live s now k with
  | none => rw [(writeKey_absent s now k none hl).1 rfl]; rfl
  | some v => rw [(writeKey_live s now k none v hl).1]; rfl

/-- GETSET: the old string (nil when the key was missing), the new value stored, no deadline -/
theorem getSet_ok (s : MState) (now : Int) (k v : Bytes)
    (hs : ∀ v0, live s now k = some v0 → isStrVal v0 = true) :
    (Api.getSet s now k v).2 = .bytes ((live s now k).bind strOf) ∧ Hot (Api.getSet s now k v).1 k (.str v) now ∧
    HotExp (Api.getSet s now k v).1 k 0 := by
  have hf := writeKey_none_flag s now k
  cases hl : live s now k with
  | none =>
    rw [hl] at hf
    unfold Api.getSet
    generalize writeKey s now k none = w at *
    obtain ⟨s1, b⟩ := w
    simp only [Option.isSome_none] at hf
    subst hf
    simp only [Bool.not_false, if_true]
    obtain ⟨m, hm, hok, he, hv⟩ := newKeyWith_hot s1 k none (.str [])
    have h1 : Hot (newKeyWith s1 k none (.str [])) k (.str []) now := ⟨m, hm, hok, expired_of_exp_zero m now he, hv⟩
    have h3 : HotExp (newKeyWith s1 k none (.str [])) k 0 := ⟨m, hm, he⟩
    exact ⟨rfl, hot_emit (hot_signal (hot_setExp (hot_setVal h1 _) 0 (Or.inl rfl))) _,
      hotExp_emit (hotExp_signal (hotExp_setExp (hotExp_setVal h3 _) 0)) _⟩
  | some v0 =>
    obtain ⟨hf', h1, _⟩ := writeKey_live s now k none v0 hl
    have h2 := hs v0 hl
    unfold Api.getSet
    generalize writeKey s now k none = w at *
    obtain ⟨s1, b⟩ := w
    simp only at hf' h1
    subst hf'
    simp only [Bool.not_true, Bool.false_eq_true, if_false]
    rw [asStr_hot_str h1 h2]
    obtain ⟨m, hm, _⟩ := h1
    have h3 : HotExp s1 k m.exp := ⟨m, hm, rfl⟩
    exact ⟨rfl, hot_emit (hot_signal (hot_setExp (hot_setVal ⟨m, hm, ‹_›⟩ _) 0 (Or.inl rfl))) _,
      hotExp_emit (hotExp_signal (hotExp_setExp (hotExp_setVal h3 _) 0)) _⟩

theorem getSet_wrongtype (s : MState) (now : Int) (k v : Bytes) (v0 : Val)
    (hl : live s now k = some v0) (ht : isStrVal v0 = false) :
    (Api.getSet s now k v).2 = .panic ∧
    (∀ k', lookup (Api.getSet s now k v).1 now k' = lookup s now k') := by
  obtain ⟨hf, h1, h2⟩ := writeKey_live s now k none v0 hl
  unfold Api.getSet
  generalize writeKey s now k none = w at *
  obtain ⟨s1, b⟩ := w
  simp only at hf h1 h2
  subst hf
  simp only [Bool.not_true, Bool.false_eq_true, if_false]
  rw [asStr_hot_other h1 ht]
  exact ⟨rfl, h2⟩


theorem setEX_ok (s : MState) (now : Int) (k v : Bytes) (seconds : Int)
    (hs : ∀ v0, live s now k = some v0 → isStrVal v0 = true)
    (he : wrap64 (now + wrap64 (seconds * 1000)) = 0 ∨ now < wrap64 (now + wrap64 (seconds * 1000))) :
    (Api.setEX s now k v seconds).2 = .unit ∧ Hot (Api.setEX s now k v seconds).1 k (.str v) now ∧
    HotExp (Api.setEX s now k v seconds).1 k (wrap64 (now + wrap64 (seconds * 1000))) := by
  obtain ⟨h1, h2, h3⟩ := open_str_ok s now k hs
  unfold Api.setEX
  generalize writeKey s now k (some (.str [])) = w at *
  obtain ⟨s1, b⟩ := w
  simp only at h1 h3 ⊢
  rw [asStr_hot_str h1 h2]
  exact ⟨rfl, hot_emit (hot_signal (hot_setExp (hot_setVal h1 _) _ he)) _,
    hotExp_emit (hotExp_signal (hotExp_setExp (hotExp_setVal h3 _) _)) _⟩

theorem setPX_ok (s : MState) (now : Int) (k v : Bytes) (ms : Int)
    (hs : ∀ v0, live s now k = some v0 → isStrVal v0 = true)
    (he : wrap64 (now + ms) = 0 ∨ now < wrap64 (now + ms)) :
    (Api.setPX s now k v ms).2 = .unit ∧ Hot (Api.setPX s now k v ms).1 k (.str v) now ∧
    HotExp (Api.setPX s now k v ms).1 k (wrap64 (now + ms)) := by
  obtain ⟨h1, h2, h3⟩ := open_str_ok s now k hs
  unfold Api.setPX
  generalize writeKey s now k (some (.str [])) = w at *
  obtain ⟨s1, b⟩ := w
  simp only at h1 h3 ⊢
  rw [asStr_hot_str h1 h2]
  exact ⟨rfl, hot_emit (hot_signal (hot_setExp (hot_setVal h1 _) _ he)) _,
    hotExp_emit (hotExp_signal (hotExp_setExp (hotExp_setVal h3 _) _)) _⟩

theorem setEX_wrongtype (s : MState) (now : Int) (k v : Bytes) (seconds : Int) (v0 : Val)
    (hl : live s now k = some v0) (ht : isStrVal v0 = false) :
    (Api.setEX s now k v seconds).2 = .panic ∧
    (∀ k', lookup (Api.setEX s now k v seconds).1 now k' = lookup s now k') := by
  obtain ⟨h1, h2⟩ := (open_str s now k).1 v0 hl
  unfold Api.setEX
  generalize writeKey s now k (some (.str [])) = w at *
  obtain ⟨s1, b⟩ := w
  simp only at h1 h2 ⊢
  rw [asStr_hot_other h1 ht]
  exact ⟨rfl, h2⟩

theorem setPX_wrongtype (s : MState) (now : Int) (k v : Bytes) (ms : Int) (v0 : Val)
    (hl : live s now k = some v0) (ht : isStrVal v0 = false) :
    (Api.setPX s now k v ms).2 = .panic ∧
    (∀ k', lookup (Api.setPX s now k v ms).1 now k' = lookup s now k') := by
  obtain ⟨h1, h2⟩ := (open_str s now k).1 v0 hl
  unfold Api.setPX
  generalize writeKey s now k (some (.str [])) = w at *
  obtain ⟨s1, b⟩ := w
  simp only at h1 h2 ⊢
  rw [asStr_hot_other h1 ht]
  exact ⟨rfl, h2⟩

/-! ### SETNX / SETXX -/

theorem setNX_absent (s : MState) (now : Int) (k v : Bytes) (keep : Bool) (hl : live s now k = none) :
    (Api.setNX s now k v keep).2 = .bool true ∧ Hot (Api.setNX s now k v keep).1 k (.str v) now ∧
    HotExp (Api.setNX s now k v keep).1 k 0 := by
  have hf := writeKey_none_flag s now k
  rw [hl] at hf
  unfold Api.setNX
  generalize writeKey s now k none = w at *
  obtain ⟨s1, b⟩ := w
  simp only [Option.isSome_none] at hf
  subst hf
  simp only [Bool.false_eq_true, if_false]
  obtain ⟨m, hm, hok, he, hv⟩ := newKeyWith_hot s1 k none (.str [])
  have h1 : Hot (newKeyWith s1 k none (.str [])) k (.str []) now := ⟨m, hm, hok, expired_of_exp_zero m now he, hv⟩
  have h3 : HotExp (newKeyWith s1 k none (.str [])) k 0 := ⟨m, hm, he⟩
  cases keep with
  | true =>
    simp only [Bool.not_true, Bool.false_eq_true, if_false]
    exact ⟨trivial, tail_hot h1 _ _, tail_hotExp h3 _ _⟩
  | false =>
    simp only [Bool.not_false, if_true]
    exact ⟨trivial, tail_hot (hot_setExp h1 0 (Or.inl rfl)) _ _, tail_hotExp (hotExp_setExp h3 0) _ _⟩

theorem setNX_present (s : MState) (now : Int) (k v : Bytes) (keep : Bool) (v0 : Val) (hl : live s now k = some v0) :
    (Api.setNX s now k v keep).2 = .bool false ∧
    (∀ k', lookup (Api.setNX s now k v keep).1 now k' = lookup s now k') := by
  have hf := writeKey_none_flag s now k
  have hlk := lookup_writeKey_none s now k
  rw [hl] at hf
  unfold Api.setNX
  generalize writeKey s now k none = w at *
  obtain ⟨s1, b⟩ := w
  simp only [Option.isSome_some] at hf
  subst hf
  exact ⟨rfl, hlk⟩

theorem setXX_absent (s : MState) (now : Int) (k v : Bytes) (keep : Bool) (hl : live s now k = none) :
    (Api.setXX s now k v keep).2 = .bool false ∧
    (∀ k', lookup (Api.setXX s now k v keep).1 now k' = lookup s now k') := by
  have hf := writeKey_none_flag s now k
  have hlk := lookup_writeKey_none s now k
  rw [hl] at hf
  unfold Api.setXX
  generalize writeKey s now k none = w at *
  obtain ⟨s1, b⟩ := w
  simp only [Option.isSome_none] at hf
  subst hf
  exact ⟨rfl, hlk⟩

theorem setXX_present (s : MState) (now : Int) (k v : Bytes) (keep : Bool) (v0 : Val) (hl : live s now k = some v0) :
    (isStrVal v0 = true →
      (Api.setXX s now k v keep).2 = .bool true ∧ Hot (Api.setXX s now k v keep).1 k (.str v) now ∧
      HotExp (Api.setXX s now k v keep).1 k (if keep then (liveExp s now k).getD 0 else 0)) ∧
    (isStrVal v0 = false →
      (Api.setXX s now k v keep).2 = .panic ∧
      (∀ k', lookup (Api.setXX s now k v keep).1 now k' = lookup s now k')) := by
  obtain ⟨hf, h1, hlk⟩ := writeKey_live s now k none v0 hl
  obtain ⟨e, he⟩ := liveExp_isSome_of_live hl
  have h3 : HotExp (writeKey s now k none).1 k e := by
    apply hotExp_of_liveExp h1
    rw [liveExp_congr (hlk k), he]
  rw [he]
  unfold Api.setXX
  generalize writeKey s now k none = w at *
  obtain ⟨s1, b⟩ := w
  simp only at hf h1 h3 hlk
  subst hf
  simp only [Bool.not_true, Bool.false_eq_true, if_false, Option.getD_some]
  constructor
  · intro ht
    rw [asStr_hot_str h1 ht]
    simp only
    cases keep with
    | true =>
      simp only [Bool.not_true, Bool.false_eq_true, if_false, if_true]
      exact ⟨trivial, tail_hot h1 _ _, tail_hotExp h3 _ _⟩
    | false =>
      simp only [Bool.not_false, if_true, Bool.false_eq_true, if_false]
      refine ⟨trivial, hot_emit (hot_signal (hot_setExp (hot_setVal h1 _) 0 (Or.inl rfl))) _, ?_⟩
      exact hotExp_emit (hotExp_signal (hotExp_setExp (hotExp_setVal h3 _) 0)) _
  · intro ht
    rw [asStr_hot_other h1 ht]
    exact ⟨rfl, hlk⟩

/-! ### INCR / DECR / INCRBY / DECRBY -/

/-- the counter step the command performs on the string it finds -/
def counterStep (o : DsStr.S) (delta : Int) (neg : Bool) : Option (DsStr.S × Int) :=
  if neg then DsStr.decr o delta else DsStr.incr o delta

theorem addInt_ok (s : MState) (now : Int) (k : Bytes) (delta : Int) (neg sw : Bool)
    (hs : ∀ v0, live s now k = some v0 → isStrVal v0 = true) :
    match counterStep (strOf (strAt s now k)) delta neg with
    | none =>
      (Api.addInt s now k delta neg sw).2 = .many [.int 0, .err true] ∧
      (Api.addInt s now k delta neg sw).1 = (writeKey s now k (some (.str []))).1
    | some (v', n) =>
      (Api.addInt s now k delta neg sw).2 = .many [.int n, .err false] ∧
      Hot (Api.addInt s now k delta neg sw).1 k (strVal v') now ∧
      HotExp (Api.addInt s now k delta neg sw).1 k ((liveExp s now k).getD 0) := by
  obtain ⟨h1, h2, h3⟩ := open_str_ok s now k hs
  unfold Api.addInt counterStep
  generalize writeKey s now k (some (.str [])) = w at *
  obtain ⟨s1, b⟩ := w
  simp only at h1 h3 ⊢
  rw [asStr_hot_str h1 h2]
  simp only
  cases (if neg = true then DsStr.decr (strOf (strAt s now k)) delta else DsStr.incr (strOf (strAt s now k)) delta) with
  | none => exact ⟨rfl, rfl⟩
  | some p =>
    obtain ⟨v', n⟩ := p
    exact ⟨rfl, tail_hot h1 _ _, tail_hotExp h3 _ _⟩

theorem addInt_wrongtype (s : MState) (now : Int) (k : Bytes) (delta : Int) (neg sw : Bool) (v0 : Val)
    (hl : live s now k = some v0) (ht : isStrVal v0 = false) :
    (Api.addInt s now k delta neg sw).2 = .panic ∧
    (∀ k', lookup (Api.addInt s now k delta neg sw).1 now k' = lookup s now k') := by
  obtain ⟨h1, h2⟩ := (open_str s now k).1 v0 hl
  unfold Api.addInt
  generalize writeKey s now k (some (.str [])) = w at *
  obtain ⟨s1, b⟩ := w
  simp only at h1 h2 ⊢
  rw [asStr_hot_other h1 ht]
  exact ⟨rfl, h2⟩


/-! ### SETBIT / APPEND / SETRANGE -/

theorem setBit_ok (s : MState) (now : Int) (k : Bytes) (offset : Int) (value : Bool)
    (hs : ∀ v0, live s now k = some v0 → isStrVal v0 = true) :
    (Api.setBit s now k offset value).2 = .int (DsStr.setBit (strOf (strAt s now k)) offset value).2 ∧
    Hot (Api.setBit s now k offset value).1 k (strVal (DsStr.setBit (strOf (strAt s now k)) offset value).1) now ∧
    HotExp (Api.setBit s now k offset value).1 k ((liveExp s now k).getD 0) := by
  obtain ⟨h1, h2, h3⟩ := open_str_ok s now k hs
  unfold Api.setBit
  generalize writeKey s now k (some (.str [])) = w at *
  obtain ⟨s1, b⟩ := w
  simp only at h1 h3 ⊢
  rw [asStr_hot_str h1 h2]
  exact ⟨rfl, tail_hot h1 _ _, tail_hotExp h3 _ _⟩

theorem setBit_wrongtype (s : MState) (now : Int) (k : Bytes) (offset : Int) (value : Bool) (v0 : Val)
    (hl : live s now k = some v0) (ht : isStrVal v0 = false) :
    (Api.setBit s now k offset value).2 = .panic ∧
    (∀ k', lookup (Api.setBit s now k offset value).1 now k' = lookup s now k') := by
  obtain ⟨h1, h2⟩ := (open_str s now k).1 v0 hl
  unfold Api.setBit
  generalize writeKey s now k (some (.str [])) = w at *
  obtain ⟨s1, b⟩ := w
  simp only at h1 h2 ⊢
  rw [asStr_hot_other h1 ht]
  exact ⟨rfl, h2⟩

theorem append_ok (s : MState) (now : Int) (k : Bytes) (data : Bytes)
    (hs : ∀ v0, live s now k = some v0 → isStrVal v0 = true) :
    (Api.append s now k data).2 = .int (DsStr.append (strOf (strAt s now k)) data).2 ∧
    Hot (Api.append s now k data).1 k (strVal (DsStr.append (strOf (strAt s now k)) data).1) now ∧
    HotExp (Api.append s now k data).1 k ((liveExp s now k).getD 0) := by
  obtain ⟨h1, h2, h3⟩ := open_str_ok s now k hs
  unfold Api.append
  generalize writeKey s now k (some (.str [])) = w at *
  obtain ⟨s1, b⟩ := w
  simp only at h1 h3 ⊢
  rw [asStr_hot_str h1 h2]
  exact ⟨rfl, tail_hot h1 _ _, tail_hotExp h3 _ _⟩

theorem append_wrongtype (s : MState) (now : Int) (k : Bytes) (data : Bytes) (v0 : Val)
    (hl : live s now k = some v0) (ht : isStrVal v0 = false) :
    (Api.append s now k data).2 = .panic ∧
    (∀ k', lookup (Api.append s now k data).1 now k' = lookup s now k') := by
  obtain ⟨h1, h2⟩ := (open_str s now k).1 v0 hl
  unfold Api.append
  generalize writeKey s now k (some (.str [])) = w at *
  obtain ⟨s1, b⟩ := w
  simp only at h1 h2 ⊢
  rw [asStr_hot_other h1 ht]
  exact ⟨rfl, h2⟩

theorem setRange_ok (s : MState) (now : Int) (k : Bytes) (offset : Int) (data : Bytes)
    (hs : ∀ v0, live s now k = some v0 → isStrVal v0 = true) :
    match DsStr.setRange (strOf (strAt s now k)) offset data with
    | none =>
      (Api.setRange s now k offset data).2 = .panic ∧
      (Api.setRange s now k offset data).1 = (writeKey s now k (some (.str []))).1
    | some (v', n) =>
      (Api.setRange s now k offset data).2 = .int n ∧
      Hot (Api.setRange s now k offset data).1 k (strVal v') now ∧
      HotExp (Api.setRange s now k offset data).1 k ((liveExp s now k).getD 0) := by
  obtain ⟨h1, h2, h3⟩ := open_str_ok s now k hs
  unfold Api.setRange
  generalize writeKey s now k (some (.str [])) = w at *
  obtain ⟨s1, b⟩ := w
  simp only at h1 h3 ⊢
  rw [asStr_hot_str h1 h2]
  simp only
  cases DsStr.setRange (strOf (strAt s now k)) offset data with
  | none => exact ⟨rfl, rfl⟩
  | some p =>
    obtain ⟨v', n⟩ := p
    exact ⟨rfl, tail_hot h1 _ _, tail_hotExp h3 _ _⟩

theorem setRange_wrongtype (s : MState) (now : Int) (k : Bytes) (offset : Int) (data : Bytes) (v0 : Val)
    (hl : live s now k = some v0) (ht : isStrVal v0 = false) :
    (Api.setRange s now k offset data).2 = .panic ∧
    (∀ k', lookup (Api.setRange s now k offset data).1 now k' = lookup s now k') := by
  obtain ⟨h1, h2⟩ := (open_str s now k).1 v0 hl
  unfold Api.setRange
  generalize writeKey s now k (some (.str [])) = w at *
  obtain ⟨s1, b⟩ := w
  simp only at h1 h2 ⊢
  rw [asStr_hot_other h1 ht]
  exact ⟨rfl, h2⟩

/-! ### read commands -/

theorem get_live (s : MState) (now : Int) (k : Bytes)  :
    (Api.get s now k ).2 = (match live s now k with
      | none => .bytes none
      | some v => if isStrVal v then .bytes (strOf v) else .panic) ∧
    (Api.get s now k ).1 = (readKey s now k).1 := by
  obtain ⟨h1, h2⟩ := readKey_live s now k
  unfold Api.get
  rw [show readKey s now k = ((readKey s now k).1, (readKey s now k).2) from rfl, h1]
  cases hl : live s now k with
  | none => exact ⟨rfl, rfl⟩
  | some v =>
    simp only [Option.isSome_some, Bool.not_true, Bool.false_eq_true, if_false]
    rw [asStr_hot (h2 v hl)]
    cases isStrVal v <;> exact ⟨rfl, rfl⟩

theorem getBit_live (s : MState) (now : Int) (k : Bytes) (offset : Int) :
    (Api.getBit s now k offset).2 = (match live s now k with
      | none => .int 0
      | some v => if isStrVal v then .int (DsStr.getBit (strOf v) offset) else .panic) ∧
    (Api.getBit s now k offset).1 = (readKey s now k).1 := by
  obtain ⟨h1, h2⟩ := readKey_live s now k
  unfold Api.getBit
  rw [show readKey s now k = ((readKey s now k).1, (readKey s now k).2) from rfl, h1]
  cases hl : live s now k with
  | none => exact ⟨rfl, rfl⟩
  | some v =>
    simp only [Option.isSome_some, Bool.not_true, Bool.false_eq_true, if_false]
    rw [asStr_hot (h2 v hl)]
    cases isStrVal v <;> exact ⟨rfl, rfl⟩

theorem bitCount_live (s : MState) (now : Int) (k : Bytes) (start stop : Int) (bit : Bool) :
    (Api.bitCount s now k start stop bit).2 = (match live s now k with
      | none => .int 0
      | some v => if isStrVal v then .int (if bit then DsStr.bitCountByBit (strOf v) start stop else DsStr.bitCount (strOf v) start stop) else .panic) ∧
    (Api.bitCount s now k start stop bit).1 = (readKey s now k).1 := by
  obtain ⟨h1, h2⟩ := readKey_live s now k
  unfold Api.bitCount
  rw [show readKey s now k = ((readKey s now k).1, (readKey s now k).2) from rfl, h1]
  cases hl : live s now k with
  | none => exact ⟨rfl, rfl⟩
  | some v =>
    simp only [Option.isSome_some, Bool.not_true, Bool.false_eq_true, if_false]
    rw [asStr_hot (h2 v hl)]
    cases isStrVal v <;> exact ⟨rfl, rfl⟩

theorem getRange_live (s : MState) (now : Int) (k : Bytes) (start stop : Int) :
    (Api.getRange s now k start stop).2 = (match live s now k with
      | none => .bytes none
      | some v => if isStrVal v then .bytes (DsStr.getRange (strOf v) start stop) else .panic) ∧
    (Api.getRange s now k start stop).1 = (readKey s now k).1 := by
  obtain ⟨h1, h2⟩ := readKey_live s now k
  unfold Api.getRange
  rw [show readKey s now k = ((readKey s now k).1, (readKey s now k).2) from rfl, h1]
  cases hl : live s now k with
  | none => exact ⟨rfl, rfl⟩
  | some v =>
    simp only [Option.isSome_some, Bool.not_true, Bool.false_eq_true, if_false]
    rw [asStr_hot (h2 v hl)]
    cases isStrVal v <;> exact ⟨rfl, rfl⟩

theorem strLen_live (s : MState) (now : Int) (k : Bytes)  :
    (Api.strLen s now k ).2 = (match live s now k with
      | none => .int 0
      | some v => if isStrVal v then .int (DsStr.len (strOf v)) else .panic) ∧
    (Api.strLen s now k ).1 = (readKey s now k).1 := by
  obtain ⟨h1, h2⟩ := readKey_live s now k
  unfold Api.strLen
  rw [show readKey s now k = ((readKey s now k).1, (readKey s now k).2) from rfl, h1]
  cases hl : live s now k with
  | none => exact ⟨rfl, rfl⟩
  | some v =>
    simp only [Option.isSome_some, Bool.not_true, Bool.false_eq_true, if_false]
    rw [asStr_hot (h2 v hl)]
    cases isStrVal v <;> exact ⟨rfl, rfl⟩

theorem type_live (s : MState) (now : Int) (k : Bytes) :
    (Api.type_ s now k).2 = .str (Bytes.ofString (match live s now k with
      | none => "none"
      | some v => typeName v.typeCode)) ∧
    (Api.type_ s now k).1 = (readKey s now k).1 := by
  obtain ⟨h1, h2⟩ := readKey_live s now k
  unfold Api.type_
  rw [show readKey s now k = ((readKey s now k).1, (readKey s now k).2) from rfl, h1]
  cases hl : live s now k with
  | none => exact ⟨rfl, rfl⟩
  | some v =>
    simp only [Option.isSome_some, Bool.not_true, Bool.false_eq_true, if_false]
    rw [valOf_hot (h2 v hl)]
    exact ⟨rfl, rfl⟩

/-- a read leaves the logical keyspace as it was -/
theorem logical_readKey (s : MState) (now : Int) (k : Bytes) (h : IndexSorted s) :
    logical (readKey s now k).1 now = logical s now :=
  logical_ext h (readKey_sorted s now k h) (fun k' => lookup_readKey s now k k')


/-! ### EXISTS -/

def existsStep (now : Int) (acc : MState × Int) (key : Bytes) : MState × Int :=
  ((readKey acc.1 now key).1, if (readKey acc.1 now key).2 then acc.2 + 1 else acc.2)

theorem exists_eq (s : MState) (now : Int) (keys : List Bytes) :
    Api.exists_ s now keys =
      ((keys.foldl (existsStep now) (s, 0)).1, .int (keys.foldl (existsStep now) (s, 0)).2) := rfl

theorem exists_fold (now : Int) : ∀ (keys : List Bytes) (s : MState) (c : Int),
    (keys.foldl (existsStep now) (s, c)).2 = c + ((keys.filter fun k => (live s now k).isSome).length : Nat) ∧
    (∀ k', lookup (keys.foldl (existsStep now) (s, c)).1 now k' = lookup s now k') ∧
    (IndexSorted s → IndexSorted (keys.foldl (existsStep now) (s, c)).1) := by
  intro keys
  induction keys with
  | nil => intro s c; exact ⟨by simp, fun _ => rfl, fun h => h⟩
  | cons key rest ih =>
    intro s c
    rw [List.foldl_cons]
    obtain ⟨i1, i2, i3⟩ := ih (existsStep now (s, c) key).1 (existsStep now (s, c) key).2
    have hlk : ∀ k', lookup (existsStep now (s, c) key).1 now k' = lookup s now k' :=
      fun k' => lookup_readKey s now key k'
    have hlive : ∀ k', live (existsStep now (s, c) key).1 now k' = live s now k' := fun k' => live_congr (hlk k')
    refine ⟨?_, fun k' => (i2 k').trans (hlk k'), fun h => i3 (readKey_sorted s now key h)⟩
    rw [show existsStep now (s, c) key = ((existsStep now (s, c) key).1, (existsStep now (s, c) key).2) from rfl] at i1
    rw [i1]
    simp only [hlive]
    show (if (readKey s now key).2 = true then c + 1 else c) + _ = _
    rw [(readKey_live s now key).1, List.filter_cons]
    cases (live s now key).isSome
    · simp
    · simp only [if_true, List.length_cons]; omega

/-! ### DEL -/

/-- unlink the record (with its backend entry) and tell the watchers of the name -/
def delKeySig (s : MState) (key : Bytes) : MState :=
  emit { delKey s key with signalled := key :: s.signalled } { typ := 2, key := key }

theorem delKeySig_sorted (s : MState) (k : Bytes) (h : IndexSorted s) : IndexSorted (delKeySig s k) :=
  emit_sorted _ _ (delKey_sorted s k h)
theorem lookup_delKeySig (s : MState) (now : Int) (k k' : Bytes) :
    lookup (delKeySig s k) now k' = lookup (delKey s k) now k' :=
  lookup_congr (s := { delKey s k with signalled := k :: s.signalled }) (sameDisk_emit _ _) now k' (getMeta_emit _ _ k')
theorem live_delKeySig (s : MState) (now : Int) (k k' : Bytes) : live (delKeySig s k) now k' = live (delKey s k) now k' :=
  live_congr (lookup_delKeySig s now k k')

def delStep (now : Int) (acc : MState × Int) (key : Bytes) : MState × Int :=
  if !(writeKey acc.1 now key none).2 then ((writeKey acc.1 now key none).1, acc.2)
  else (delKeySig (writeKey acc.1 now key none).1 key, acc.2 + 1)

theorem del_eq (s : MState) (now : Int) (keys : List Bytes) :
    Api.del s now keys = ((keys.foldl (delStep now) (s, 0)).1, .int (keys.foldl (delStep now) (s, 0)).2) := by
  unfold Api.del
  have : (fun (acc : MState × Int) key =>
      match writeKey acc.1 now key none with
      | (s, ok) => if (!ok) = true then (s, acc.2)
        else (emit { delKey s key with signalled := key :: s.signalled } { typ := 2, key := key }, acc.2 + 1)) =
      delStep now := by
    funext acc key
    unfold delStep
    rfl
  simp only [this]

open Spec.Str in
theorem ks_get_del (ks : Keyspace) (key k : Bytes) :
    Keyspace.get (Keyspace.del ks key) k = if k = key then none else Keyspace.get ks k := by
  unfold Keyspace.get Keyspace.del
  induction ks with
  | nil => simp
  | cons a rest ih =>
    obtain ⟨ka, va⟩ := a
    by_cases h1 : ka = key
    · subst h1
      simp only [List.filter_cons, ne_eq, not_true_eq_false, decide_false, Bool.false_eq_true, if_false]
      rw [ih]
      by_cases h2 : k = ka
      · subst h2; simp
      · have : ¬ ka = k := fun e => h2 e.symm
        simp [h2, this]
    · simp only [List.filter_cons, ne_eq, h1, not_false_eq_true, decide_true, if_true]
      by_cases h2 : ka = k
      · subst h2
        simp [h1]
      · simp only [List.find?_cons, h2, decide_false]
        exact ih

open Spec.Str in
theorem ks_exists_del (ks : Keyspace) (key k : Bytes) :
    Keyspace.exists_ (Keyspace.del ks key) k = (decide (k ≠ key) && Keyspace.exists_ ks k) := by
  unfold Keyspace.exists_
  rw [ks_get_del]
  by_cases h : k = key <;> simp [h]

open Spec.Str in
theorem ks_get_set (ks : Keyspace) (key v k : Bytes) :
    Keyspace.get (Keyspace.set ks key v) k = if k = key then some v else Keyspace.get ks k := by
  unfold Keyspace.set
  by_cases h : k = key
  · subst h; simp [Keyspace.get]
  · have h' : ¬ key = k := fun e => h e.symm
    have := ks_get_del ks key k
    simp only [h, if_false] at this ⊢
    rw [← this]
    simp [Keyspace.get, h']

/-- the model keyspace and a reference keyspace agree on which keys exist -/
def SameKeys (ks : Spec.Str.Keyspace) (s : MState) (now : Int) : Prop :=
  ∀ k, Spec.Str.Keyspace.exists_ ks k = (live s now k).isSome

theorem live_delKey_same (s : MState) (now : Int) (k : Bytes) (h : IndexSorted s) : live (delKey s k) now k = none := by
  unfold live; rw [getMeta_delKey_same s k h]

theorem live_delKey_other (s : MState) (now : Int) (k k' : Bytes) (h : k' ≠ k) :
    live (delKey s k) now k' = live s now k' :=
  live_congr (lookup_delKey_other s now k k' h)

open Spec.Str in
theorem del_fold (now : Int) : ∀ (keys : List Bytes) (s : MState) (c : Int) (ks : Keyspace),
    IndexSorted s → SameKeys ks s now →
    (keys.foldl (delStep now) (s, c)).2 = c + ((Keyspace.delMany ks keys).2 : Nat) ∧
    SameKeys (Keyspace.delMany ks keys).1 (keys.foldl (delStep now) (s, c)).1 now ∧
    IndexSorted (keys.foldl (delStep now) (s, c)).1 ∧
    (∀ k', k' ∉ keys → lookup (keys.foldl (delStep now) (s, c)).1 now k' = lookup s now k') ∧
    (∀ k', k' ∈ keys → live (keys.foldl (delStep now) (s, c)).1 now k' = none) := by
  intro keys
  induction keys with
  | nil =>
    intro s c ks hs hr
    exact ⟨by simp [Keyspace.delMany], hr, hs, fun _ _ => rfl, fun _ h => by cases h⟩
  | cons key rest ih =>
    intro s c ks hs hr
    rw [List.foldl_cons]
    have hflag := writeKey_none_flag s now key
    have hlk := lookup_writeKey_none s now key
    have hsorted := writeKey_sorted s now key none hs
    -- the state and counter after the first key
    have step : ∃ s2 c2, delStep now (s, c) key = (s2, c2) ∧ IndexSorted s2 ∧
        c2 = c + (if Keyspace.exists_ ks key then 1 else 0) ∧
        SameKeys (Keyspace.del ks key) s2 now ∧
        (∀ k', k' ≠ key → lookup s2 now k' = lookup s now k') ∧ live s2 now key = none := by
      unfold delStep
      simp only
      rw [hflag, ← hr key]
      cases hex : Keyspace.exists_ ks key with
      | false =>
        simp only [Bool.not_false, if_true, Bool.false_eq_true, if_false]
        refine ⟨_, _, rfl, hsorted, by omega, ?_, fun k' _ => hlk k', ?_⟩
        · intro k
          rw [ks_exists_del, live_congr (hlk k), ← hr k]
          by_cases e : k = key
          · subst e; simp [hex]
          · simp [e]
        · rw [live_congr (hlk key)]
          have := hr key
          rw [hex] at this
          cases hl : live s now key with
          | none => rfl
          | some v => rw [hl] at this; cases this
      | true =>
        simp only [Bool.not_true, Bool.false_eq_true, if_false, if_true]
        refine ⟨_, _, rfl, delKeySig_sorted _ _ hsorted, rfl, ?_, ?_, ?_⟩
        · intro k
          rw [ks_exists_del, live_delKeySig]
          by_cases e : k = key
          · subst e; rw [live_delKey_same _ now k hsorted]; simp
          · rw [live_delKey_other _ now key k e, live_congr (hlk k), ← hr k]; simp [e]
        · intro k' hk'
          rw [lookup_delKeySig, lookup_delKey_other _ now key k' hk', hlk k']
        · rw [live_delKeySig]; exact live_delKey_same _ now key hsorted
    obtain ⟨s2, c2, e, hs2, hc2, hr2, hfr, hdead⟩ := step
    rw [e]
    obtain ⟨i1, i2, i3, i4, i5⟩ := ih s2 c2 (Keyspace.del ks key) hs2 hr2
    refine ⟨?_, i2, i3, ?_, ?_⟩
    · rw [i1, hc2]
      simp only [Keyspace.delMany]
      cases Keyspace.exists_ ks key <;> simp <;> omega
    · intro k' hk'
      have h1 : k' ≠ key := fun e => hk' (by rw [e]; exact List.mem_cons_self)
      have h2 : k' ∉ rest := fun e => hk' (List.mem_cons_of_mem _ e)
      rw [i4 k' h2, hfr k' h1]
    · intro k' hk'
      by_cases hin : k' ∈ rest
      · exact i5 k' hin
      · have : k' = key := by
          rcases List.mem_cons.mp hk' with h | h
          · exact h
          · exact absurd h hin
        subst this
        rw [live_congr (i4 k' hin)]
        exact hdead

/-! ### KEYS -/

set_option linter.unusedSimpArgs false in
theorem keys_eq (s : MState) (now : Int) (pat : Bytes) :
    Api.keys s now pat = (s, .slist (((logical s now).map (·.1)).filter (Glob.matched pat))) := by
  unfold Api.keys logical
  congr 2
  induction s.index with
  | nil => rfl
  | cons a rest ih =>
    obtain ⟨k, m⟩ := a
    simp only [List.filter_cons]
    cases h1 : Glob.matched pat k <;> cases h2 : m.expired now <;>
      simp [h1, h2, ih]


/-! ### RENAME / RENAMENX -/

theorem getMeta_modMeta_same (s : MState) (k : Bytes) (f : Meta → Meta) :
    getMeta (modMeta s k f) k = (getMeta s k).map f := by
  unfold modMeta
  cases hm : getMeta s k with
  | none => simp only [Option.map_none]; exact hm
  | some m => simp only [Option.map_some]; exact getMeta_putMeta_same s k _

theorem getMeta_modMeta_other (s : MState) (k k' : Bytes) (f : Meta → Meta) (h : k' ≠ k) :
    getMeta (modMeta s k f) k' = getMeta s k' := by
  unfold modMeta
  cases getMeta s k with
  | none => rfl
  | some m => exact getMeta_putMeta_other s k' k _ h

theorem sameDisk_modMeta (s : MState) (k : Bytes) (f : Meta → Meta) : SameDisk s (modMeta s k f) := by
  unfold modMeta
  cases getMeta s k with
  | none => exact ⟨rfl, rfl⟩
  | some m => exact ⟨rfl, rfl⟩

theorem modMeta_sorted (s : MState) (k : Bytes) (f : Meta → Meta) (h : IndexSorted s) : IndexSorted (modMeta s k f) := by
  unfold modMeta
  cases getMeta s k with
  | none => exact h
  | some m => exact putMeta_sorted _ _ _ h

/-- the part of `Rename` after both records were looked up and the source was unlinked -/
def renameTail (s3 : MState) (dok : Bool) (m : Meta) (key dst : Bytes) : MState :=
  let s :=
    if !dok then
      let (kid, s) := fresh s3
      let s := match getMeta s dst with | some dead => unpersist s dst dead | none => s
      putMeta s dst { exp := m.exp, value := none, kid := kid }
    else s3
  let s := match m.value with
    | some v => modMeta s dst fun d => ({ d with oid := m.oid }.setValue v)
    | none => s
  let s := setExp s dst m.exp
  let s := { modMeta s dst Meta.markModified with signalled := dst :: key :: s.signalled }
  emit s { typ := 32, key := key, args := [Bytes.toHex dst] }

theorem rename_unfold (s : MState) (now : Int) (key dst : Bytes) :
    Api.rename s now key dst =
      if !(writeKey s now key none).2 then ((writeKey s now key none).1, .err true) else
      match getMeta (writeKey s now key none).1 key with
      | none => ((writeKey s now key none).1, .err true)
      | some m =>
        if key = dst then ((writeKey s now key none).1, .err false) else
        (renameTail (delKey (writeKey (writeKey s now key none).1 now dst none).1 key)
          (writeKey (writeKey s now key none).1 now dst none).2 m key dst, .err false) := rfl

theorem rename_missing (s : MState) (now : Int) (key dst : Bytes) (hl : live s now key = none) :
    (Api.rename s now key dst).2 = .err true ∧
    (∀ k', lookup (Api.rename s now key dst).1 now k' = lookup s now k') := by
  rw [rename_unfold, writeKey_none_flag, hl]
  exact ⟨rfl, lookup_writeKey_none s now key⟩

theorem rename_same (s : MState) (now : Int) (key : Bytes) (v : Val) (hl : live s now key = some v) :
    (Api.rename s now key key).2 = .err false ∧
    (∀ k', lookup (Api.rename s now key key).1 now k' = lookup s now k') := by
  obtain ⟨_, ⟨m, hm, _⟩, _⟩ := writeKey_live s now key none v hl
  rw [rename_unfold, writeKey_none_flag, hl, hm]
  simp only [Option.isSome_some, Bool.not_true, Bool.false_eq_true, if_false, if_true]
  exact ⟨trivial, lookup_writeKey_none s now key⟩

theorem frameOn_modMeta {K : List Bytes} (s : MState) (k : Bytes) (f : Meta → Meta) (hk : k ∈ K) :
    FrameOn K s (modMeta s k f) :=
  frameOn_same (sameDisk_modMeta s k f) (fun k' h => getMeta_modMeta_other s k k' f (not_mem_ne hk h))

/-- the destination record as `Rename` prepares it before the value moves in -/
def renameDst (s3 : MState) (dok : Bool) (m : Meta) (dst : Bytes) : MState :=
  if !dok then
    putMeta (match getMeta ({ s3 with nextId := s3.nextId + 1 } : MState) dst with
      | some dead => unpersist { s3 with nextId := s3.nextId + 1 } dst dead
      | none => { s3 with nextId := s3.nextId + 1 }) dst { exp := m.exp, value := none, kid := s3.nextId }
  else s3

theorem renameDst_spec (s3 : MState) (dok : Bool) (m : Meta) (dst : Bytes) (K : List Bytes) (hk : dst ∈ K) :
    FrameOn K s3 (renameDst s3 dok m dst) ∧ (IndexSorted s3 → IndexSorted (renameDst s3 dok m dst)) ∧
    (dok = false → getMeta (renameDst s3 dok m dst) dst = some { exp := m.exp, value := none, kid := s3.nextId }) ∧
    (dok = true → renameDst s3 dok m dst = s3) := by
  unfold renameDst
  cases dok with
  | true => exact ⟨FrameOn.refl K s3, fun h => h, fun h => Bool.noConfusion h, fun _ => rfl⟩
  | false =>
    simp only [Bool.not_false, if_true]
    have base : FrameOn K s3 (match getMeta ({ s3 with nextId := s3.nextId + 1 } : MState) dst with
        | some dead => unpersist { s3 with nextId := s3.nextId + 1 } dst dead
        | none => { s3 with nextId := s3.nextId + 1 }) ∧
        (match getMeta ({ s3 with nextId := s3.nextId + 1 } : MState) dst with
        | some dead => unpersist { s3 with nextId := s3.nextId + 1 } dst dead
        | none => ({ s3 with nextId := s3.nextId + 1 } : MState)).index = s3.index := by
      cases getMeta ({ s3 with nextId := s3.nextId + 1 } : MState) dst with
      | none => exact ⟨⟨rfl, fun _ _ _ => rfl, fun _ _ => rfl⟩, rfl⟩
      | some dead =>
        exact ⟨FrameOn.trans (b := { s3 with nextId := s3.nextId + 1 }) ⟨rfl, fun _ _ _ => rfl, fun _ _ => rfl⟩
          (frameOn_unpersist _ dst dead hk), unpersist_index _ _ _⟩
    refine ⟨base.1.trans (frameOn_putMeta _ dst _ hk), fun h => ?_, fun _ => getMeta_putMeta_same _ _ _,
      fun h => Bool.noConfusion h⟩
    apply putMeta_sorted
    unfold IndexSorted
    rw [base.2]; exact h

theorem renameTail_eq (s3 : MState) (dok : Bool) (m : Meta) (key dst : Bytes) (v : Val) (hv : m.value = some v) :
    renameTail s3 dok m key dst =
      emit { modMeta (setExp (modMeta (renameDst s3 dok m dst) dst fun d => ({ d with oid := m.oid } : Meta).setValue v)
                dst m.exp) dst Meta.markModified with
            signalled := dst :: key ::
              (setExp (modMeta (renameDst s3 dok m dst) dst fun d => ({ d with oid := m.oid } : Meta).setValue v)
                dst m.exp).signalled }
        { typ := 32, key := key, args := [Bytes.toHex dst] } := by
  unfold renameTail renameDst fresh
  rw [hv]

theorem renameTail_spec (s3 : MState) (dok : Bool) (m : Meta) (key dst : Bytes) (v : Val) (now : Int)
    (hne : key ≠ dst) (hv : m.value = some v) (hex : m.expired now = false)
    (hd : dok = true → ∃ md, getMeta s3 dst = some md) :
    getMeta (renameTail s3 dok m key dst) key = getMeta s3 key ∧
    Hot (renameTail s3 dok m key dst) dst v now ∧
    HotExp (renameTail s3 dok m key dst) dst m.exp ∧
    FrameOn [dst] s3 (renameTail s3 dok m key dst) ∧
    (IndexSorted s3 → IndexSorted (renameTail s3 dok m key dst)) := by
  rw [renameTail_eq s3 dok m key dst v hv]
  obtain ⟨f0, srt0, g0f, g0t⟩ := renameDst_spec s3 dok m dst [dst] List.mem_cons_self
  generalize hs4 : renameDst s3 dok m dst = s4 at *
  -- the record under dst before the value moves in
  have hd4 : ∃ d4, getMeta s4 dst = some d4 := by
    cases dok with
    | false => exact ⟨_, g0f rfl⟩
    | true => rw [g0t rfl]; exact hd rfl
  obtain ⟨d4, hd4⟩ := hd4
  generalize hs5 : modMeta s4 dst (fun d => ({ d with oid := m.oid } : Meta).setValue v) = s5
  have g5 : getMeta s5 dst = some (({ d4 with oid := m.oid } : Meta).setValue v) := by
    rw [← hs5, getMeta_modMeta_same, hd4]; rfl
  have f5 : FrameOn [dst] s4 s5 := by rw [← hs5]; exact frameOn_modMeta s4 dst _ List.mem_cons_self
  generalize hs6 : setExp s5 dst m.exp = s6
  have g6 : getMeta s6 dst = some { (({ d4 with oid := m.oid } : Meta).setValue v) with exp := m.exp } := by
    rw [← hs6]; exact getMeta_setExp_same s5 dst m.exp (({ d4 with oid := m.oid } : Meta).setValue v) g5
  have f6 : FrameOn [dst] s5 s6 := by rw [← hs6]; exact frameOn_setExp s5 dst m.exp List.mem_cons_self
  have gfin : ∀ k', getMeta (emit { modMeta s6 dst Meta.markModified with signalled := dst :: key :: s6.signalled }
      { typ := 32, key := key, args := [Bytes.toHex dst] }) k' = getMeta (modMeta s6 dst Meta.markModified) k' := by
    intro k'; rw [getMeta_emit]; rfl
  have f7 : FrameOn [dst] s6 (emit { modMeta s6 dst Meta.markModified with signalled := dst :: key :: s6.signalled }
      { typ := 32, key := key, args := [Bytes.toHex dst] }) :=
    (frameOn_modMeta s6 dst _ List.mem_cons_self).trans
      (FrameOn.trans (b := { modMeta s6 dst Meta.markModified with signalled := dst :: key :: s6.signalled })
        ⟨rfl, fun _ _ _ => rfl, fun _ _ => rfl⟩ (frameOn_emit _ _))
  have fall := f0.trans (f5.trans (f6.trans f7))
  have hkd : key ∉ [dst] := by simpa using hne
  refine ⟨fall.2.2 key hkd, ?_, ?_, fall, ?_⟩
  · refine ⟨?w, ?h1, ?h2, ?h3, ?h4⟩
    case h1 => rw [gfin, getMeta_modMeta_same, g6]; rfl
    case h2 => rw [markModified_isOk]; exact setValue_isOk ({ d4 with oid := m.oid } : Meta) v
    case h3 => exact hex
    case h4 => rfl
  · refine ⟨?w2, ?i1, ?i2⟩
    case i1 => rw [gfin, getMeta_modMeta_same, g6]; rfl
    case i2 => rfl
  · intro h
    have s4s : IndexSorted s4 := srt0 h
    have s5s : IndexSorted s5 := by rw [← hs5]; exact modMeta_sorted _ _ _ s4s
    have s6s : IndexSorted s6 := by rw [← hs6]; exact setExp_sorted _ _ _ s5s
    exact emit_sorted _ _ (modMeta_sorted _ _ _ s6s)

theorem live_none_of_getMeta_none {s : MState} {now : Int} {k : Bytes} (h : getMeta s k = none) :
    live s now k = none := by unfold live; rw [h]

/-- RENAME src dst (src ≠ dst, src exists): src is gone, dst holds src's value and src's deadline,
    every other record is untouched -/
theorem rename_ok (s : MState) (now : Int) (key dst : Bytes) (v : Val) (hs : IndexSorted s)
    (hl : live s now key = some v) (hne : key ≠ dst) :
    (Api.rename s now key dst).2 = .err false ∧
    live (Api.rename s now key dst).1 now key = none ∧
    Hot (Api.rename s now key dst).1 dst v now ∧
    HotExp (Api.rename s now key dst).1 dst ((liveExp s now key).getD 0) ∧
    (∀ k', k' ≠ key → k' ≠ dst → lookup (Api.rename s now key dst).1 now k' = lookup s now k') ∧
    IndexSorted (Api.rename s now key dst).1 := by
  obtain ⟨f1, hot1, lk1⟩ := writeKey_live s now key none v hl
  have srt1 := writeKey_sorted s now key none hs
  rw [rename_unfold, f1]
  generalize (writeKey s now key none).1 = s1 at *
  obtain ⟨m, hm, hok, hex, hv⟩ := hot1
  have he1 : liveExp s now key = some m.exp := by
    rw [← liveExp_congr (lk1 key)]
    exact liveExp_of_hot ⟨m, hm, hok, hex, hv⟩ ⟨m, hm, rfl⟩
  rw [hm, he1]
  simp only [Bool.not_true, Bool.false_eq_true, if_false, hne, Option.getD_some]
  have f2 := writeKey_none_flag s1 now dst
  have lk2 := lookup_writeKey_none s1 now dst
  have srt2 := writeKey_sorted s1 now dst none srt1
  have hdst : ∀ vd, live s1 now dst = some vd → ∃ md, getMeta (writeKey s1 now dst none).1 dst = some md := by
    intro vd hvd
    obtain ⟨_, ⟨md, hmd, _⟩, _⟩ := writeKey_live s1 now dst none vd hvd
    exact ⟨md, hmd⟩
  generalize hw2 : writeKey s1 now dst none = w2 at *
  obtain ⟨s2, dok⟩ := w2
  simp only at f2 lk2 srt2 hdst ⊢
  have hne' : dst ≠ key := fun e => hne e.symm
  have hd : dok = true → ∃ md, getMeta (delKey s2 key) dst = some md := by
    intro hdok
    rw [hdok] at f2
    obtain ⟨vd, hvd⟩ := Option.isSome_iff_exists.mp f2.symm
    obtain ⟨md, hmd⟩ := hdst vd hvd
    exact ⟨md, by rw [getMeta_delKey_other s2 dst key hne', hmd]⟩
  obtain ⟨t1, t2, t3, t4, t5⟩ := renameTail_spec (delKey s2 key) dok m key dst v now hne hv hex hd
  refine ⟨trivial, ?_, t2, t3, ?_, t5 (delKey_sorted s2 key srt2)⟩
  · apply live_none_of_getMeta_none
    rw [t1, getMeta_delKey_same s2 key srt2]
  · intro k' h1 h2
    rw [frameOn_lookup t4 now k' (by simpa using h2), lookup_delKey_other s2 now key k' h1, lk2 k', lk1 k']

/-- the part of `RenameNX` after both look-ups -/
def renameNXTail (s2 : MState) (m : Meta) (key dst : Bytes) : MState :=
  let s := delKey s2 key
  let (kid, s) := fresh s
  let d : Meta := { exp := m.exp, value := none, kid := kid, oid := m.oid }
  let d := match m.value with | some v => d.setValue v | none => d
  let s := match getMeta s dst with | some dead => unpersist s dst dead | none => s
  let s := putMeta s dst d.markModified
  let s := { s with signalled := dst :: key :: s.signalled }
  emit s { typ := 32, key := key, args := [Bytes.toHex dst] }

theorem renameNX_unfold (s : MState) (now : Int) (key dst : Bytes) :
    Api.renameNX s now key dst =
      if (writeKey s now dst none).2 then ((writeKey s now dst none).1, .err true) else
      if !(writeKey (writeKey s now dst none).1 now key none).2 then
        ((writeKey (writeKey s now dst none).1 now key none).1, .err true) else
      match getMeta (writeKey (writeKey s now dst none).1 now key none).1 key with
      | none => ((writeKey (writeKey s now dst none).1 now key none).1, .err true)
      | some m => (renameNXTail (writeKey (writeKey s now dst none).1 now key none).1 m key dst, .err false) := rfl

theorem renameNX_dst_exists (s : MState) (now : Int) (key dst : Bytes) (vd : Val) (hl : live s now dst = some vd) :
    (Api.renameNX s now key dst).2 = .err true ∧
    (∀ k', lookup (Api.renameNX s now key dst).1 now k' = lookup s now k') := by
  rw [renameNX_unfold, writeKey_none_flag, hl]
  exact ⟨rfl, lookup_writeKey_none s now dst⟩

theorem renameNX_missing (s : MState) (now : Int) (key dst : Bytes) (hd : live s now dst = none)
    (hl : live s now key = none) :
    (Api.renameNX s now key dst).2 = .err true ∧
    (∀ k', lookup (Api.renameNX s now key dst).1 now k' = lookup s now k') := by
  have lk1 := lookup_writeKey_none s now dst
  have hl1 : live (writeKey s now dst none).1 now key = none := by rw [live_congr (lk1 key), hl]
  rw [renameNX_unfold, writeKey_none_flag, hd, writeKey_none_flag, hl1]
  refine ⟨rfl, fun k' => ?_⟩
  simp only [Option.isSome_none, Bool.false_eq_true, if_false, Bool.not_false, if_true]
  rw [lookup_writeKey_none, lk1]

theorem renameNXTail_spec (s2 : MState) (m : Meta) (key dst : Bytes) (v : Val) (now : Int)
    (hne : key ≠ dst) (hv : m.value = some v) (hex : m.expired now = false) (hs : IndexSorted s2) :
    getMeta (renameNXTail s2 m key dst) key = none ∧
    Hot (renameNXTail s2 m key dst) dst v now ∧
    HotExp (renameNXTail s2 m key dst) dst m.exp ∧
    FrameOn [key, dst] s2 (renameNXTail s2 m key dst) ∧
    IndexSorted (renameNXTail s2 m key dst) := by
  unfold renameNXTail fresh
  rw [hv]
  simp only
  generalize hd' : (({ exp := m.exp, value := none, kid := (delKey s2 key).nextId, oid := m.oid } : Meta).setValue v).markModified = d
  generalize hs3 : delKey s2 key = s3
  have f3 : FrameOn [key, dst] s2 s3 := by rw [← hs3]; exact frameOn_delKey s2 key List.mem_cons_self
  have g3 : getMeta s3 key = none := by rw [← hs3]; exact getMeta_delKey_same s2 key hs
  have srt3 : IndexSorted s3 := by rw [← hs3]; exact delKey_sorted s2 key hs
  have hdm : dst ∈ [key, dst] := by simp
  have base : FrameOn [key, dst] s3 (match getMeta ({ s3 with nextId := s3.nextId + 1 } : MState) dst with
      | some dead => unpersist { s3 with nextId := s3.nextId + 1 } dst dead
      | none => { s3 with nextId := s3.nextId + 1 }) ∧
      (match getMeta ({ s3 with nextId := s3.nextId + 1 } : MState) dst with
      | some dead => unpersist { s3 with nextId := s3.nextId + 1 } dst dead
      | none => ({ s3 with nextId := s3.nextId + 1 } : MState)).index = s3.index := by
    cases getMeta ({ s3 with nextId := s3.nextId + 1 } : MState) dst with
    | none => exact ⟨⟨rfl, fun _ _ _ => rfl, fun _ _ => rfl⟩, rfl⟩
    | some dead =>
      exact ⟨FrameOn.trans (b := { s3 with nextId := s3.nextId + 1 }) ⟨rfl, fun _ _ _ => rfl, fun _ _ => rfl⟩
        (frameOn_unpersist _ dst dead hdm), unpersist_index _ _ _⟩
  generalize hs4 : (match getMeta ({ s3 with nextId := s3.nextId + 1 } : MState) dst with
      | some dead => unpersist { s3 with nextId := s3.nextId + 1 } dst dead
      | none => ({ s3 with nextId := s3.nextId + 1 } : MState)) = s4 at base
  have g4 : ∀ k', getMeta s4 k' = getMeta s3 k' := by intro k'; unfold getMeta; rw [base.2]
  have gfin : ∀ k', getMeta (emit { putMeta s4 dst d with signalled := dst :: key :: (putMeta s4 dst d).signalled }
      { typ := 32, key := key, args := [Bytes.toHex dst] }) k' = getMeta (putMeta s4 dst d) k' := by
    intro k'; rw [getMeta_emit]; rfl
  have ffin : FrameOn [key, dst] s4 (emit { putMeta s4 dst d with signalled := dst :: key :: (putMeta s4 dst d).signalled }
      { typ := 32, key := key, args := [Bytes.toHex dst] }) :=
    (frameOn_putMeta s4 dst d hdm).trans
      (FrameOn.trans (b := { putMeta s4 dst d with signalled := dst :: key :: (putMeta s4 dst d).signalled })
        ⟨rfl, fun _ _ _ => rfl, fun _ _ => rfl⟩ (frameOn_emit _ _))
  refine ⟨?_, ?_, ?_, f3.trans (base.1.trans ffin), ?_⟩
  · rw [gfin, getMeta_putMeta_other _ _ _ _ hne, g4, g3]
  · refine ⟨d, by rw [gfin, getMeta_putMeta_same], ?_, ?_, ?_⟩
    · rw [← hd', markModified_isOk, setValue_isOk]
    · rw [← hd']; exact hex
    · rw [← hd']; rfl
  · exact ⟨d, by rw [gfin, getMeta_putMeta_same], by rw [← hd']; rfl⟩
  · apply emit_sorted
    apply putMeta_sorted
    unfold IndexSorted
    rw [base.2]; exact srt3

theorem renameNX_ok (s : MState) (now : Int) (key dst : Bytes) (v : Val) (hs : IndexSorted s)
    (hd : live s now dst = none) (hl : live s now key = some v) :
    (Api.renameNX s now key dst).2 = .err false ∧
    live (Api.renameNX s now key dst).1 now key = none ∧
    Hot (Api.renameNX s now key dst).1 dst v now ∧
    HotExp (Api.renameNX s now key dst).1 dst ((liveExp s now key).getD 0) ∧
    (∀ k', k' ≠ key → k' ≠ dst → lookup (Api.renameNX s now key dst).1 now k' = lookup s now k') ∧
    IndexSorted (Api.renameNX s now key dst).1 := by
  have hne : key ≠ dst := by
    intro e; subst e; rw [hl] at hd; cases hd
  have lk1 := lookup_writeKey_none s now dst
  have srt1 := writeKey_sorted s now dst none hs
  have hl1 : live (writeKey s now dst none).1 now key = some v := by rw [live_congr (lk1 key), hl]
  rw [renameNX_unfold, writeKey_none_flag, hd]
  generalize (writeKey s now dst none).1 = s1 at *
  obtain ⟨f2, hot2, lk2⟩ := writeKey_live s1 now key none v hl1
  have srt2 := writeKey_sorted s1 now key none srt1
  rw [f2]
  generalize (writeKey s1 now key none).1 = s2 at *
  obtain ⟨m, hm, hok, hex, hv⟩ := hot2
  have he : liveExp s now key = some m.exp := by
    rw [← liveExp_congr (lk1 key), ← liveExp_congr (lk2 key)]
    exact liveExp_of_hot ⟨m, hm, hok, hex, hv⟩ ⟨m, hm, rfl⟩
  rw [hm, he]
  simp only [Option.isSome_none, Bool.false_eq_true, if_false, Bool.not_true, Option.getD_some]
  obtain ⟨t1, t2, t3, t4, t5⟩ := renameNXTail_spec s2 m key dst v now hne hv hex srt2
  refine ⟨trivial, live_none_of_getMeta_none t1, t2, t3, ?_, t5⟩
  intro k' h1 h2
  rw [frameOn_lookup t4 now k' (by simp [h1, h2]), lk2 k', lk1 k']

/-! ### frame of SET on the Pebble backend, MSET -/

theorem lookup_of_hot {s : MState} {k : Bytes} {v : Val} {now : Int} {e : Int} (h : Hot s k v now) (he : HotExp s k e) :
    lookup s now k = some (some v, e, true) := by
  obtain ⟨m, hm, hok, hex, hv⟩ := h
  obtain ⟨m', hm', he'⟩ := he
  rw [hm] at hm'; cases hm'
  unfold lookup entryView resolve
  rw [hm]
  simp only [hex, Bool.false_eq_true, if_false, hv, he', hok]

theorem setVal_pebble (s : MState) (k : Bytes) (v : Val) (hp : s.pebble = true) :
    setVal s k v = match getMeta s k with
      | none => s
      | some m => putMeta s k { m with value := some v } := by
  unfold setVal
  cases getMeta s k with
  | none => rfl
  | some m =>
    simp only
    rw [if_pos (Or.inl (show (putMeta s k { m with value := some v }).pebble = true from hp))]

theorem setExp_pebble (s : MState) (k : Bytes) (e : Int) (_hp : s.pebble = true) :
    setExp s k e = match getMeta s k with
      | none => s
      | some m => putMeta s k { m with exp := e } := setExp_eq s k e

theorem frame_setVal_pebble (s : MState) (k : Bytes) (v : Val) (hp : s.pebble = true) :
    SameDisk s (setVal s k v) ∧ ∀ k', k' ≠ k → getMeta (setVal s k v) k' = getMeta s k' := by
  rw [setVal_pebble s k v hp]
  cases getMeta s k with
  | none => exact ⟨SameDisk.refl s, fun _ _ => rfl⟩
  | some m => exact ⟨sameDisk_putMeta _ _ _, fun k' h => getMeta_putMeta_other _ _ _ _ h⟩

theorem frame_setExp_pebble (s : MState) (k : Bytes) (e : Int) (hp : s.pebble = true) :
    SameDisk s (setExp s k e) ∧ ∀ k', k' ≠ k → getMeta (setExp s k e) k' = getMeta s k' := by
  rw [setExp_pebble s k e hp]
  cases getMeta s k with
  | none => exact ⟨SameDisk.refl s, fun _ _ => rfl⟩
  | some m => exact ⟨sameDisk_putMeta _ _ _, fun k' h => getMeta_putMeta_other _ _ _ _ h⟩

/-- on the Pebble backend `SET k` touches no other record -/
theorem set_frame_pebble (s : MState) (now : Int) (k v : Bytes) (keep : Bool) (hp : s.pebble = true) :
    SameDisk s (Api.set s now k v keep).1 ∧
    ∀ k', k' ≠ k → getMeta (Api.set s now k v keep).1 k' = getMeta s k' := by
  have sd1 := sameDisk_writeKey s now k (some (.str []))
  have g1 := fun k' (h : k' ≠ k) => getMeta_writeKey_other s now k (some (.str [])) k' h
  unfold Api.set
  generalize writeKey s now k (some (.str [])) = w at *
  obtain ⟨s1, b⟩ := w
  simp only at sd1 g1 ⊢
  have hp1 : s1.pebble = true := by rw [sd1.2]; exact hp
  cases asStr s1 k with
  | none => exact ⟨sd1, g1⟩
  | some o =>
    simp only
    obtain ⟨sd2, g2⟩ := frame_setVal_pebble s1 k (.str v) hp1
    have hp2 : (setVal s1 k (.str v)).pebble = true := by rw [sd2.2]; exact hp1
    cases keep with
    | true =>
      simp only [Bool.not_true, Bool.false_eq_true, if_false]
      refine ⟨sd1.trans (sd2.trans ((sameDisk_signal _ _).trans (sameDisk_emit _ _))), fun k' h => ?_⟩
      rw [getMeta_emit, getMeta_signal_other _ _ _ h, g2 k' h, g1 k' h]
    | false =>
      simp only [Bool.not_false, if_true]
      obtain ⟨sd3, g3⟩ := frame_setExp_pebble (setVal s1 k (.str v)) k 0 hp2
      refine ⟨sd1.trans (sd2.trans (sd3.trans ((sameDisk_signal _ _).trans (sameDisk_emit _ _)))), fun k' h => ?_⟩
      rw [getMeta_emit, getMeta_signal_other _ _ _ h, g3 k' h, g2 k' h, g1 k' h]

theorem set_out (s : MState) (now : Int) (k v : Bytes) (keep : Bool) :
    (Api.set s now k v keep).2 = .unit ∨ (Api.set s now k v keep).2 = .panic := by
  unfold Api.set
  generalize writeKey s now k (some (.str [])) = w
  obtain ⟨s1, b⟩ := w
  simp only
  cases asStr s1 k with
  | none => exact Or.inr rfl
  | some o => exact Or.inl rfl

/-- a key/value argument list -/
def flat : List (Bytes × Bytes) → List Bytes
  | [] => []
  | (k, v) :: rest => k :: v :: flat rest

theorem flat_length_even (kvs : List (Bytes × Bytes)) : (flat kvs).length % 2 = 0 := by
  induction kvs with
  | nil => rfl
  | cons a rest ih => obtain ⟨k, v⟩ := a; simp only [flat, List.length_cons]; omega

theorem flat_of_even : ∀ (n : Nat) (l : List Bytes), l.length = 2 * n → ∃ kvs, l = flat kvs := by
  intro n
  induction n with
  | zero => intro l h; exact ⟨[], by cases l with | nil => rfl | cons a r => simp at h⟩
  | succ n ih =>
    intro l h
    match l, h with
    | k :: v :: rest, h =>
      obtain ⟨kvs, e⟩ := ih rest (by simp only [List.length_cons] at h; omega)
      exact ⟨(k, v) :: kvs, by rw [e]; rfl⟩
    | [_], h => simp at h; omega
    | [], h => simp at h

theorem mset_eq (s : MState) (now : Int) (kvs : List (Bytes × Bytes)) :
    Api.mset s now (flat kvs) = Api.mset.go now (flat kvs) s := by
  unfold Api.mset
  rw [if_neg (by rw [flat_length_even]; simp)]

theorem mset_go_nil (s : MState) (now : Int) : Api.mset.go now (flat []) s = (s, .unit) := by
  unfold flat Api.mset.go; rfl

def isUnit : Out → Bool
  | .unit => true
  | _ => false

theorem mset_go_cons (s : MState) (now : Int) (k v : Bytes) (rest : List (Bytes × Bytes)) :
    Api.mset.go now (flat ((k, v) :: rest)) s =
      if isUnit (Api.set s now k v false).2 then Api.mset.go now (flat rest) (commit (Api.set s now k v false).1)
      else ((Api.set s now k v false).1, .panic) := by
  rw [flat, Api.mset.go]
  rcases set_out s now k v false with h | h
  · generalize Api.set s now k v false = r at *
    obtain ⟨s', o⟩ := r
    simp only at h
    subst h
    simp [isUnit]
  · generalize Api.set s now k v false = r at *
    obtain ⟨s', o⟩ := r
    simp only at h
    subst h
    simp [isUnit]

/-- the value the last pair naming `k` assigns -/
def lastVal : List (Bytes × Bytes) → Bytes → Option Bytes
  | [], _ => none
  | (k, v) :: rest, x => match lastVal rest x with
    | some w => some w
    | none => if x = k then some v else none

theorem live_commit (s : MState) (now : Int) (k : Bytes) : live (commit s) now k = live s now k := rfl
theorem lookup_commit (s : MState) (now : Int) (k : Bytes) : lookup (commit s) now k = lookup s now k := rfl

/-- MSET, any backend: it either panics (some key holds a non-string) or replies OK, and then the
    key of the last pair holds the last value -/
theorem mset_last (now : Int) : ∀ (kvs : List (Bytes × Bytes)) (s : MState) (k v : Bytes),
    ((Api.mset.go now (flat (kvs ++ [(k, v)])) s).2 = .unit ∨ (Api.mset.go now (flat (kvs ++ [(k, v)])) s).2 = .panic) ∧
    ((Api.mset.go now (flat (kvs ++ [(k, v)])) s).2 = .unit →
      lookup (Api.mset.go now (flat (kvs ++ [(k, v)])) s).1 now k = some (some (.str v), 0, true)) := by
  intro kvs
  induction kvs with
  | nil =>
    intro s k v
    rw [List.nil_append, mset_go_cons, mset_go_nil]
    rcases set_out s now k v false with hu | hu
    · rw [if_pos (by rw [hu]; rfl)]
      refine ⟨Or.inl rfl, fun _ => ?_⟩
      -- the key was a string or missing, otherwise SET would have panicked
      have hs : ∀ v0, live s now k = some v0 → isStrVal v0 = true := by
        intro v0 hl
        cases ht : isStrVal v0 with
        | true => rfl
        | false => rw [(set_wrongtype s now k v false v0 hl ht).1] at hu; cases hu
      obtain ⟨_, h2, h3⟩ := set_ok s now k v false hs
      exact lookup_of_hot (hot_commit h2) h3
    · rw [if_neg (by rw [hu]; simp [isUnit])]
      exact ⟨Or.inr rfl, fun h => by cases h⟩
  | cons a rest ih =>
    intro s k v
    obtain ⟨k0, v0⟩ := a
    rw [List.cons_append, mset_go_cons]
    rcases set_out s now k0 v0 false with hu | hu
    · rw [if_pos (by rw [hu]; rfl)]; exact ih _ k v
    · rw [if_neg (by rw [hu]; simp [isUnit])]
      exact ⟨Or.inr rfl, fun h => by cases h⟩

/-- MSET on the Pebble backend: every named key ends up holding the last value assigned to it
    (no deadline), every other record is untouched -/
theorem mset_pebble (now : Int) : ∀ (kvs : List (Bytes × Bytes)) (s : MState), s.pebble = true →
    (∀ p ∈ kvs, ∀ v0, live s now p.1 = some v0 → isStrVal v0 = true) →
    (Api.mset.go now (flat kvs) s).2 = .unit ∧
    ∀ x, lookup (Api.mset.go now (flat kvs) s).1 now x =
      match lastVal kvs x with
      | some v => some (some (.str v), 0, true)
      | none => lookup s now x := by
  intro kvs
  induction kvs with
  | nil => intro s _ _; rw [mset_go_nil]; exact ⟨rfl, fun _ => rfl⟩
  | cons a rest ih =>
    intro s hp hs
    obtain ⟨k, v⟩ := a
    have hsk : ∀ v0, live s now k = some v0 → isStrVal v0 = true := hs (k, v) List.mem_cons_self
    obtain ⟨h1, h2, h3⟩ := set_ok s now k v false hsk
    obtain ⟨sd, fr⟩ := set_frame_pebble s now k v false hp
    rw [mset_go_cons, if_pos (by rw [h1]; rfl)]
    have hk : lookup (commit (Api.set s now k v false).1) now k = some (some (.str v), 0, true) :=
      lookup_of_hot (hot_commit h2) h3
    have ho : ∀ x, x ≠ k → lookup (commit (Api.set s now k v false).1) now x = lookup s now x :=
      fun x hx => lookup_congr sd now x (fr x hx)
    have hp' : (commit (Api.set s now k v false).1).pebble = true := by
      show (Api.set s now k v false).1.pebble = true
      rw [sd.2]; exact hp
    have hs' : ∀ p ∈ rest, ∀ v0, live (commit (Api.set s now k v false).1) now p.1 = some v0 → isStrVal v0 = true := by
      intro p hpm v0 hl
      by_cases e : p.1 = k
      · rw [e, live_eq_of_lookup, hk] at hl
        cases hl; rfl
      · rw [live_congr (ho p.1 e)] at hl
        exact hs p (List.mem_cons_of_mem _ hpm) v0 hl
    obtain ⟨i1, i2⟩ := ih _ hp' hs'
    refine ⟨i1, fun x => ?_⟩
    rw [i2 x]
    simp only [lastVal]
    cases lastVal rest x with
    | some w => rfl
    | none =>
      simp only
      by_cases e : x = k
      · subst e; simp only [if_true]; exact hk
      · simp only [e, if_false]; exact ho x e


/-! ### the index stays key-sorted under every command of the family -/

theorem tail_sorted (s : MState) (k : Bytes) (v : Val) (op : FeedOp) (h : IndexSorted s) :
    IndexSorted (emit (signal (setVal s k v) k) op) :=
  emit_sorted _ _ (signal_sorted _ _ (setVal_sorted _ _ _ h))

theorem set_sorted (s : MState) (now : Int) (k : Bytes) (v : Bytes) (keep : Bool) (hs : IndexSorted s) :
    IndexSorted (Api.set s now k v keep).1 := by
  have h1 := writeKey_sorted s now k (some (.str [])) hs
  unfold Api.set
  generalize writeKey s now k (some (.str [])) = w at *
  obtain ⟨s1, b⟩ := w
  simp only at h1 ⊢
  cases asStr s1 k with
  | none => exact h1
  | some o =>
    simp only
    cases keep with
    | true => exact tail_sorted _ _ _ _ h1
    | false => exact emit_sorted _ _ (signal_sorted _ _ (setExp_sorted _ _ _ (setVal_sorted _ _ _ h1)))

theorem setOpt_sorted (s : MState) (now : Int) (k : Bytes) (v : DsStr.S) (keep : Bool) (hs : IndexSorted s) :
    IndexSorted (Api.setOpt s now k v keep).1 := by
  have h1 := writeKey_sorted s now k (some (.str [])) hs
  unfold Api.setOpt
  generalize writeKey s now k (some (.str [])) = w at *
  obtain ⟨s1, b⟩ := w
  simp only at h1 ⊢
  cases asStr s1 k with
  | none => exact h1
  | some o =>
    simp only
    cases keep with
    | true => exact tail_sorted _ _ _ _ h1
    | false => exact emit_sorted _ _ (signal_sorted _ _ (setExp_sorted _ _ _ (setVal_sorted _ _ _ h1)))

theorem getSet_sorted (s : MState) (now : Int) (k : Bytes) (v : Bytes) (hs : IndexSorted s) :
    IndexSorted (Api.getSet s now k v).1 := by
  have h1 := writeKey_sorted s now k none hs
  unfold Api.getSet
  generalize writeKey s now k none = w at *
  obtain ⟨s1, b⟩ := w
  simp only at h1 ⊢
  cases b with
  | false =>
    exact emit_sorted _ _ (signal_sorted _ _ (setExp_sorted _ _ _ (setVal_sorted _ _ _ (newKeyWith_sorted _ _ _ _ h1))))
  | true =>
    simp only [Bool.not_true, Bool.false_eq_true, if_false]
    cases asStr s1 k with
    | none => exact h1
    | some o => exact emit_sorted _ _ (signal_sorted _ _ (setExp_sorted _ _ _ (setVal_sorted _ _ _ h1)))

theorem setEX_sorted (s : MState) (now : Int) (k : Bytes) (v : Bytes) (sec : Int) (hs : IndexSorted s) :
    IndexSorted (Api.setEX s now k v sec).1 := by
  have h1 := writeKey_sorted s now k (some (.str [])) hs
  unfold Api.setEX
  generalize writeKey s now k (some (.str [])) = w at *
  obtain ⟨s1, b⟩ := w
  simp only at h1 ⊢
  cases asStr s1 k with
  | none => exact h1
  | some o => exact emit_sorted _ _ (signal_sorted _ _ (setExp_sorted _ _ _ (setVal_sorted _ _ _ h1)))

theorem setPX_sorted (s : MState) (now : Int) (k : Bytes) (v : Bytes) (ms : Int) (hs : IndexSorted s) :
    IndexSorted (Api.setPX s now k v ms).1 := by
  have h1 := writeKey_sorted s now k (some (.str [])) hs
  unfold Api.setPX
  generalize writeKey s now k (some (.str [])) = w at *
  obtain ⟨s1, b⟩ := w
  simp only at h1 ⊢
  cases asStr s1 k with
  | none => exact h1
  | some o => exact emit_sorted _ _ (signal_sorted _ _ (setExp_sorted _ _ _ (setVal_sorted _ _ _ h1)))

theorem setNX_sorted (s : MState) (now : Int) (k : Bytes) (v : Bytes) (keep : Bool) (hs : IndexSorted s) :
    IndexSorted (Api.setNX s now k v keep).1 := by
  have h1 := writeKey_sorted s now k none hs
  unfold Api.setNX
  generalize writeKey s now k none = w at *
  obtain ⟨s1, b⟩ := w
  simp only at h1 ⊢
  repeat' split
  all_goals first
    | exact h1
    | exact tail_sorted _ _ _ _ h1
    | exact tail_sorted _ _ _ _ (setExp_sorted _ _ _ h1)
    | exact emit_sorted _ _ (signal_sorted _ _ (setExp_sorted _ _ _ (setVal_sorted _ _ _ h1)))
    | exact setVal_sorted _ _ _ (emit_sorted _ _ (signal_sorted _ _ (setExp_sorted _ _ _ h1)))
    | exact setExp_sorted _ _ _ h1
    | exact emit_sorted _ _ (signal_sorted _ _ (setExp_sorted _ _ _ h1))
    | exact tail_sorted _ _ _ _ (newKeyWith_sorted _ _ _ _ h1)
    | exact tail_sorted _ _ _ _ (setExp_sorted _ _ _ (newKeyWith_sorted _ _ _ _ h1))

theorem setXX_sorted (s : MState) (now : Int) (k : Bytes) (v : Bytes) (keep : Bool) (hs : IndexSorted s) :
    IndexSorted (Api.setXX s now k v keep).1 := by
  have h1 := writeKey_sorted s now k none hs
  unfold Api.setXX
  generalize writeKey s now k none = w at *
  obtain ⟨s1, b⟩ := w
  simp only at h1 ⊢
  cases b with
  | false => exact h1
  | true =>
    simp only [Bool.not_true, Bool.false_eq_true, if_false]
    cases asStr s1 k with
    | none => exact h1
    | some o =>
      simp only
      cases keep with
      | true => exact tail_sorted _ _ _ _ h1
      | false => exact emit_sorted _ _ (signal_sorted _ _ (setExp_sorted _ _ _ (setVal_sorted _ _ _ h1)))

theorem addInt_sorted (s : MState) (now : Int) (k : Bytes) (d : Int) (neg sw : Bool) (hs : IndexSorted s) :
    IndexSorted (Api.addInt s now k d neg sw).1 := by
  have h1 := writeKey_sorted s now k (some (.str [])) hs
  unfold Api.addInt
  generalize writeKey s now k (some (.str [])) = w at *
  obtain ⟨s1, b⟩ := w
  simp only at h1 ⊢
  cases asStr s1 k with
  | none => exact h1
  | some o =>
    simp only
    cases (if neg = true then DsStr.decr o d else DsStr.incr o d) with
    | none => exact h1
    | some p => exact tail_sorted _ _ _ _ h1

theorem setBit_sorted (s : MState) (now : Int) (k : Bytes) (off : Int) (x : Bool) (hs : IndexSorted s) :
    IndexSorted (Api.setBit s now k off x).1 := by
  have h1 := writeKey_sorted s now k (some (.str [])) hs
  unfold Api.setBit
  generalize writeKey s now k (some (.str [])) = w at *
  obtain ⟨s1, b⟩ := w
  simp only at h1 ⊢
  repeat' split
  all_goals first
    | exact h1
    | exact tail_sorted _ _ _ _ h1
    | exact tail_sorted _ _ _ _ (setExp_sorted _ _ _ h1)
    | exact emit_sorted _ _ (signal_sorted _ _ (setExp_sorted _ _ _ (setVal_sorted _ _ _ h1)))
    | exact setVal_sorted _ _ _ (emit_sorted _ _ (signal_sorted _ _ (setExp_sorted _ _ _ h1)))
    | exact setExp_sorted _ _ _ h1
    | exact emit_sorted _ _ (signal_sorted _ _ (setExp_sorted _ _ _ h1))
    | exact tail_sorted _ _ _ _ (newKeyWith_sorted _ _ _ _ h1)
    | exact tail_sorted _ _ _ _ (setExp_sorted _ _ _ (newKeyWith_sorted _ _ _ _ h1))

theorem append_sorted (s : MState) (now : Int) (k : Bytes) (data : Bytes) (hs : IndexSorted s) :
    IndexSorted (Api.append s now k data).1 := by
  have h1 := writeKey_sorted s now k (some (.str [])) hs
  unfold Api.append
  generalize writeKey s now k (some (.str [])) = w at *
  obtain ⟨s1, b⟩ := w
  simp only at h1 ⊢
  repeat' split
  all_goals first
    | exact h1
    | exact tail_sorted _ _ _ _ h1
    | exact tail_sorted _ _ _ _ (setExp_sorted _ _ _ h1)
    | exact emit_sorted _ _ (signal_sorted _ _ (setExp_sorted _ _ _ (setVal_sorted _ _ _ h1)))
    | exact setVal_sorted _ _ _ (emit_sorted _ _ (signal_sorted _ _ (setExp_sorted _ _ _ h1)))
    | exact setExp_sorted _ _ _ h1
    | exact emit_sorted _ _ (signal_sorted _ _ (setExp_sorted _ _ _ h1))
    | exact tail_sorted _ _ _ _ (newKeyWith_sorted _ _ _ _ h1)
    | exact tail_sorted _ _ _ _ (setExp_sorted _ _ _ (newKeyWith_sorted _ _ _ _ h1))

theorem setRange_sorted (s : MState) (now : Int) (k : Bytes) (off : Int) (data : Bytes) (hs : IndexSorted s) :
    IndexSorted (Api.setRange s now k off data).1 := by
  have h1 := writeKey_sorted s now k (some (.str [])) hs
  unfold Api.setRange
  generalize writeKey s now k (some (.str [])) = w at *
  obtain ⟨s1, b⟩ := w
  simp only at h1 ⊢
  repeat' split
  all_goals first
    | exact h1
    | exact tail_sorted _ _ _ _ h1
    | exact tail_sorted _ _ _ _ (setExp_sorted _ _ _ h1)
    | exact emit_sorted _ _ (signal_sorted _ _ (setExp_sorted _ _ _ (setVal_sorted _ _ _ h1)))
    | exact setVal_sorted _ _ _ (emit_sorted _ _ (signal_sorted _ _ (setExp_sorted _ _ _ h1)))
    | exact setExp_sorted _ _ _ h1
    | exact emit_sorted _ _ (signal_sorted _ _ (setExp_sorted _ _ _ h1))
    | exact tail_sorted _ _ _ _ (newKeyWith_sorted _ _ _ _ h1)
    | exact tail_sorted _ _ _ _ (setExp_sorted _ _ _ (newKeyWith_sorted _ _ _ _ h1))

theorem exists_sorted (s : MState) (now : Int) (keys : List Bytes) (hs : IndexSorted s) :
    IndexSorted (Api.exists_ s now keys).1 := by
  rw [exists_eq]; exact (exists_fold now keys s 0).2.2 hs

theorem mset_go_sorted (now : Int) : ∀ (kvs : List (Bytes × Bytes)) (s : MState), IndexSorted s →
    IndexSorted (Api.mset.go now (flat kvs) s).1 := by
  intro kvs
  induction kvs with
  | nil => intro s hs; rw [mset_go_nil]; exact hs
  | cons a rest ih =>
    intro s hs
    obtain ⟨k, v⟩ := a
    rw [mset_go_cons]
    split
    · exact ih _ (set_sorted s now k v false hs)
    · exact set_sorted s now k v false hs

end NodisVerif.Proofs.C01
