import NodisVerif.Proofs.C13Recover
/-
  C13, part 3: crash safety of the call sequences.  A crash = the backend after a prefix of the
  call list; what is recovered for each name after such a prefix.
-/
namespace NodisVerif.C13
open NodisVerif NodisVerif.Store
open NodisVerif.Proofs.AListLemmas NodisVerif.Proofs.AListLemmas2 NodisVerif.Proofs.C13

/-- the backend holds for `name` exactly the entry the record says it holds (`stored`): under that
    deadline and under no other; or none at all -/
def AgreesD (d : AList DiskEntry) (name : Bytes) (stored : Option Int) : Prop :=
  match stored with
  | some x => (∃ e, (Codec.encodeKey name x, e) ∈ d) ∧ ∀ k e, (k, e) ∈ d → e.name = name → e.exp = x
  | none => ∀ k e, (k, e) ∈ d → e.name ≠ name

def DiskAgrees (s : MState) (name : Bytes) (m : Meta) : Prop := AgreesD s.disk name m.stored

/-! ### generic facts -/

/-- if a name has an entry at all, what is recovered for it is one of its entries -/
theorem recovered_is_entry {d : AList DiskEntry} (h : DiskWF d) {name k : Bytes} {e0 : DiskEntry}
    (hm : (k, e0) ∈ d) (hn : e0.name = name) :
    ∃ k' e, (k', e) ∈ d ∧ e.name = name ∧ recovered d name = some (e.exp, e.val) := by
  obtain ⟨e, he⟩ := lastFor_isSome_of_mem d name k e0 hm hn
  obtain ⟨h1, k', h2⟩ := lastFor_mem _ _ _ he
  refine ⟨k', e, h2, h1, ?_⟩
  rw [recovered_eq h, he]
  rfl

/-- two entries of one name under one deadline are one entry -/
theorem same_entry {d : AList DiskEntry} (h : DiskWF d) {k k' : Bytes} {e e' : DiskEntry}
    (hm : (k, e) ∈ d) (hm' : (k', e') ∈ d) (hn : e.name = e'.name) (hx : e.exp = e'.exp) : e = e' := by
  have a := h.2 k e hm
  have b := h.2 k' e' hm'
  rw [hn, hx, ← b] at a
  subst a
  exact val_unique d h.1 hm hm'

/-- `ent` is on disk and is the only entry of its name -/
def OnlyEntry (d : AList DiskEntry) (name : Bytes) (ent : DiskEntry) : Prop :=
  (∃ k, (k, ent) ∈ d) ∧ ∀ k e, (k, e) ∈ d → e.name = name → e = ent

theorem recovered_of_onlyEntry {d : AList DiskEntry} (h : DiskWF d) {name : Bytes} {ent : DiskEntry}
    (hn : ent.name = name) (ho : OnlyEntry d name ent) : recovered d name = some (ent.exp, ent.val) := by
  obtain ⟨⟨k, hk⟩, honly⟩ := ho
  exact recovered_of_only h hk hn honly

theorem agrees_of_onlyEntry {d : AList DiskEntry} (h : DiskWF d) {name : Bytes} {ent : DiskEntry}
    (hn : ent.name = name) (ho : OnlyEntry d name ent) : AgreesD d name (some ent.exp) := by
  obtain ⟨⟨k, hk⟩, honly⟩ := ho
  refine ⟨⟨ent, ?_⟩, ?_⟩
  · have := h.2 k ent hk
    rw [hn] at this
    rw [← this]; exact hk
  · intro k' e hm he
    rw [honly k' e hm he]

/-- the old content of a name whose record says `stored = some x` -/
theorem recovered_of_agrees_some {d : AList DiskEntry} (h : DiskWF d) {name : Bytes} {x : Int}
    (ha : AgreesD d name (some x)) {k : Bytes} {e : DiskEntry} (hm : (k, e) ∈ d) (hn : e.name = name) :
    recovered d name = some (e.exp, e.val) := by
  apply recovered_of_only h hm hn
  intro k' e' hm' hn'
  exact same_entry h hm' hm (hn'.trans hn.symm) ((ha.2 k' e' hm' hn').trans (ha.2 k e hm hn).symm)

theorem recovered_of_agrees_none {d : AList DiskEntry} (h : DiskWF d) {name : Bytes}
    (ha : AgreesD d name none) : recovered d name = none :=
  (recovered_none_iff h name).mpr ha

/-- entries of a name are neither added nor removed by a call for another name -/
theorem mem_after_other {d : AList DiskEntry} (h : DiskWF d) {pebble : Bool} {c : DiskCall}
    (hc : c.Exact pebble) {name : Bytes} (hn : c.name ≠ name) {k : Bytes} {e : DiskEntry} (he : e.name = name) :
    (k, e) ∈ diskAfter d c ↔ (k, e) ∈ d := by
  cases c with
  | set n dl ent =>
    obtain ⟨h1, h2, _⟩ := hc
    simp only [DiskCall.name] at hn
    simp only [diskAfter]
    constructor
    · intro hm
      rcases mem_set d _ _ _ hm with h3 | h3
      · simp only [Prod.mk.injEq] at h3
        rw [h3.2, h1] at he
        exact absurd he hn
      · exact h3
    · intro hm
      apply mem_set_of_mem d _ _ _ hm
      simp only
      rw [h.2 k e hm]
      intro heq
      exact hn ((encodeKey_inj heq).1.symm.trans he)
  | del n dl =>
    simp only [DiskCall.name] at hn
    simp only [diskAfter]
    constructor
    · exact mem_of_mem_erase d _ _
    · intro hm
      apply mem_erase_of_mem d _ _ hm
      simp only
      rw [h.2 k e hm]
      intro heq
      exact hn ((encodeKey_inj heq).1.symm.trans he)

theorem agrees_after_other {d : AList DiskEntry} (h : DiskWF d) {pebble : Bool} {c : DiskCall}
    (hc : c.Exact pebble) {name : Bytes} (hn : c.name ≠ name) {st : Option Int}
    (ha : AgreesD d name st) : AgreesD (diskAfter d c) name st := by
  cases st with
  | none =>
    intro k e hm he
    exact ha k e ((mem_after_other h hc hn he).mp hm) he
  | some x =>
    obtain ⟨⟨e, he⟩, h2⟩ := ha
    refine ⟨⟨e, (mem_after_other h hc hn (wf_entry h he).1).mpr he⟩, ?_⟩
    intro k e' hm hn'
    exact h2 k e' ((mem_after_other h hc hn hn').mp hm) hn'

theorem agrees_run_other {pebble : Bool} {name : Bytes} {st : Option Int} :
    ∀ (cs : List DiskCall) {d : AList DiskEntry}, DiskWF d →
    (∀ c ∈ cs, c.Exact pebble) → (∀ c ∈ cs, c.name ≠ name) → AgreesD d name st → AgreesD (runCalls d cs) name st := by
  intro cs
  induction cs with
  | nil => intro d _ _ _ ha; exact ha
  | cons c cs ih =>
    intro d h hc hn ha
    rw [runCalls_cons]
    exact ih (diskWF_after h (hc c List.mem_cons_self))
      (fun c' hc' => hc c' (List.mem_cons_of_mem _ hc')) (fun c' hc' => hn c' (List.mem_cons_of_mem _ hc'))
      (agrees_after_other h (hc c List.mem_cons_self) (hn c List.mem_cons_self) ha)

/-! ### `persist`: SET new, then DELETE old -/

section persist
variable {d : AList DiskEntry} {name : Bytes} {m : Meta} {v : Val} (pebble : Bool)

/-- after the SET of a record whose earlier entry (if any) sits under the same deadline: the new
    entry is the only one of the name -/
theorem only_after_set_same (h : DiskWF d) (ha : AgreesD d name m.stored)
    (hs : m.stored = none ∨ m.stored = some m.exp) :
    OnlyEntry (AList.set d (Codec.encodeKey name m.exp) (mkEntry pebble name m v)) name (mkEntry pebble name m v) := by
  have hwf1 : DiskWF (AList.set d (Codec.encodeKey name m.exp) (mkEntry pebble name m v)) :=
    diskWF_set h (mkEntry pebble name m v)
  refine ⟨⟨_, mem_set_self _ _ _⟩, ?_⟩
  intro k e hm hn
  rcases mem_set d _ _ _ hm with h3 | h3
  · simp only [Prod.mk.injEq] at h3
    exact h3.2
  · rcases hs with hs | hs
    · rw [hs] at ha
      exact absurd hn (ha k e h3)
    · rw [hs] at ha
      have hx := ha.2 k e h3 hn
      exact same_entry hwf1 hm (mem_set_self _ _ _) hn hx

/-- after SET and DELETE of the entry under the earlier deadline: the new entry is the only one -/
theorem only_after_set_del (h : DiskWF d) {x : Int} (ha : AgreesD d name (some x)) (hx : x ≠ m.exp) :
    OnlyEntry (AList.erase (AList.set d (Codec.encodeKey name m.exp) (mkEntry pebble name m v)) (Codec.encodeKey name x))
      name (mkEntry pebble name m v) := by
  refine ⟨⟨Codec.encodeKey name m.exp, ?_⟩, ?_⟩
  · apply mem_erase_of_mem _ _ _ (mem_set_self _ _ _)
    intro heq
    exact hx (encodeKey_inj heq).2.symm
  · intro k e hm hn
    have hwf1 : DiskWF (AList.set d (Codec.encodeKey name m.exp) (mkEntry pebble name m v)) :=
      diskWF_set h (mkEntry pebble name m v)
    have hk := key_ne_of_mem_erase _ hwf1.1 _ _ hm
    have hm1 := mem_of_mem_erase _ _ _ hm
    rcases mem_set d _ _ _ hm1 with h3 | h3
    · simp only [Prod.mk.injEq] at h3
      exact h3.2
    · exfalso
      apply hk
      simp only
      rw [h.2 k e h3, hn, ha.2 k e h3 hn]

/-- in the window between the two calls (both entries on disk) the name is recovered as the old or as
    the new entry -/
theorem window_old_or_new (h : DiskWF d) {x : Int} (ha : AgreesD d name (some x)) :
    recovered (AList.set d (Codec.encodeKey name m.exp) (mkEntry pebble name m v)) name = recovered d name
      ∨ recovered (AList.set d (Codec.encodeKey name m.exp) (mkEntry pebble name m v)) name = some (m.exp, v) := by
  have hwf1 : DiskWF (AList.set d (Codec.encodeKey name m.exp) (mkEntry pebble name m v)) :=
    diskWF_set h (mkEntry pebble name m v)
  obtain ⟨k', e, hm, hn, hr⟩ := recovered_is_entry hwf1 (name := name) (mem_set_self d (Codec.encodeKey name m.exp) (mkEntry pebble name m v)) rfl
  rcases mem_set d _ _ _ hm with h3 | h3
  · simp only [Prod.mk.injEq] at h3
    right
    rw [hr, h3.2]
    rfl
  · left
    rw [hr, recovered_of_agrees_some h ha h3 hn]

/-- **crash safety of `persist`**, on the bare backend: after any prefix of SET-then-DELETE the name
    is recovered as before or as the new (deadline, value); after the whole step as the new one,
    and the backend agrees with the updated record -/
theorem persist_crash_disk (h : DiskWF d) (ha : AgreesD d name m.stored) (hv : m.value = some v) (n : Nat) :
    (recovered (runCalls d ((setCalls pebble name m ++ delOldCalls name m).take n)) name = recovered d name
      ∨ recovered (runCalls d ((setCalls pebble name m ++ delOldCalls name m).take n)) name = some (m.exp, v))
    ∧ recovered (runCalls d (setCalls pebble name m ++ delOldCalls name m)) name = some (m.exp, v)
    ∧ AgreesD (runCalls d (setCalls pebble name m ++ delOldCalls name m)) name (some m.exp) := by
  have hset : setCalls pebble name m = [.set name m.exp (mkEntry pebble name m v)] := by
    simp only [setCalls, hv]
  have hwf1 : DiskWF (AList.set d (Codec.encodeKey name m.exp) (mkEntry pebble name m v)) :=
    diskWF_set h (mkEntry pebble name m v)
  by_cases hs : m.stored = none ∨ m.stored = some m.exp
  · have hdel : delOldCalls name m = [] := by
      rcases hs with hs | hs <;> simp [delOldCalls, hs]
    have ho := only_after_set_same (v := v) pebble h ha hs
    have hr : recovered (AList.set d (Codec.encodeKey name m.exp) (mkEntry pebble name m v)) name
        = some (m.exp, v) := recovered_of_onlyEntry hwf1 rfl ho
    have hag : AgreesD (AList.set d (Codec.encodeKey name m.exp) (mkEntry pebble name m v)) name (some m.exp) :=
      agrees_of_onlyEntry hwf1 rfl ho
    rw [hset, hdel]
    refine ⟨?_, hr, hag⟩
    rcases n with _ | n
    · left; rfl
    · right
      have ht : List.take (n + 1) ([DiskCall.set name m.exp (mkEntry pebble name m v)] ++ []) =
          [DiskCall.set name m.exp (mkEntry pebble name m v)] := by simp
      rw [ht]; exact hr
  · cases hst : m.stored with
    | none => exact absurd (Or.inl hst) hs
    | some x =>
      have hx : x ≠ m.exp := by
        intro e; apply hs; right; rw [hst, e]
      have hdel : delOldCalls name m = [.del name x] := by
        simp [delOldCalls, hst, hx]
      rw [hst] at ha
      have ho := only_after_set_del (m := m) (v := v) pebble h ha hx
      have hwf2 := diskWF_erase hwf1 (Codec.encodeKey name x)
      have hr : recovered (AList.erase (AList.set d (Codec.encodeKey name m.exp) (mkEntry pebble name m v))
          (Codec.encodeKey name x)) name = some (m.exp, v) := recovered_of_onlyEntry hwf2 rfl ho
      have hag : AgreesD (AList.erase (AList.set d (Codec.encodeKey name m.exp) (mkEntry pebble name m v))
          (Codec.encodeKey name x)) name (some m.exp) := agrees_of_onlyEntry hwf2 rfl ho
      rw [hset, hdel]
      refine ⟨?_, hr, hag⟩
      rcases n with _ | _ | n
      · left; rfl
      · exact window_old_or_new pebble h ha
      · right
        have ht : List.take (n + 1 + 1) ([DiskCall.set name m.exp (mkEntry pebble name m v)] ++ [DiskCall.del name x]) =
            [DiskCall.set name m.exp (mkEntry pebble name m v), DiskCall.del name x] := by simp
        rw [ht]; exact hr

end persist

/-! ### `unpersist`: DELETE -/

theorem unpersist_crash_disk {d : AList DiskEntry} {name : Bytes} {m : Meta}
    (h : DiskWF d) (ha : AgreesD d name m.stored) (n : Nat) :
    (recovered (runCalls d ((unpersistCalls name m).take n)) name = recovered d name
      ∨ recovered (runCalls d ((unpersistCalls name m).take n)) name = none)
    ∧ recovered (runCalls d (unpersistCalls name m)) name = none
    ∧ AgreesD (runCalls d (unpersistCalls name m)) name none := by
  cases hst : m.stored with
  | none =>
    rw [hst] at ha
    have hc : unpersistCalls name m = [] := by simp [unpersistCalls, hst]
    rw [hc]
    exact ⟨Or.inl (by cases n <;> rfl), recovered_of_agrees_none h ha, ha⟩
  | some x =>
    rw [hst] at ha
    have hc : unpersistCalls name m = [.del name x] := by simp [unpersistCalls, hst]
    rw [hc]
    have hag : AgreesD (AList.erase d (Codec.encodeKey name x)) name none := by
      intro k e hm hn
      apply key_ne_of_mem_erase _ h.1 _ _ hm
      have hm' := mem_of_mem_erase _ _ _ hm
      simp only
      rw [h.2 k e hm', hn, ha.2 k e hm' hn]
    have hr := recovered_of_agrees_none (diskWF_erase h (Codec.encodeKey name x)) hag
    refine ⟨?_, hr, hag⟩
    rcases n with _ | n
    · left; rfl
    · right
      have ht : List.take (n + 1) [DiskCall.del name x] = [DiskCall.del name x] := by simp
      rw [ht]; exact hr

/-! ### no torn entries -/

/-- every entry on disk after any prefix of any call list was on the initial disk or is the entry of
    one `set` call of the list, whole -/
theorem untorn_run : ∀ (cs : List DiskCall) (d : AList DiskEntry) (n : Nat) (k : Bytes) (e : DiskEntry),
    (k, e) ∈ runCalls d (cs.take n) → (k, e) ∈ d ∨ ∃ c ∈ cs, c.entry? = some e := by
  intro cs
  induction cs with
  | nil => intro d n k e h; left; simpa [runCalls] using h
  | cons c cs ih =>
    intro d n k e h
    cases n with
    | zero => left; exact h
    | succ n =>
      rw [List.take_succ_cons, runCalls_cons] at h
      rcases ih _ n k e h with h1 | ⟨c', hc', he'⟩
      · cases c with
        | set nm dl ent =>
          rcases mem_set d _ _ _ h1 with h2 | h2
          · simp only [Prod.mk.injEq] at h2
            right
            exact ⟨_, List.mem_cons_self, by rw [h2.2]; rfl⟩
          · left; exact h2
        | del nm dl => left; exact mem_of_mem_erase d _ _ h1
      · right; exact ⟨c', List.mem_cons_of_mem _ hc', he'⟩

/-! ### one record of a flush / gc pass -/

/-- what a completed pass leaves for a record: nothing for a dead one, the current (deadline, value)
    for a live modified one, what was there for a live unmodified one -/
def target (now : Int) (m : Meta) (old : Option (Int × Val)) : Option (Int × Val) :=
  if m.expired now || !m.isOk then none
  else if !m.isModified then old
  else m.value.map fun v => (m.exp, v)

/-- what the record will say is stored after the pass -/
def storedAfter (now : Int) (m : Meta) : Option Int :=
  if m.expired now || !m.isOk then none
  else if !m.isModified then m.stored
  else some m.exp

theorem isSome_of_modified {m : Meta} (h : m.isModified = true) : ∃ v, m.value = some v := by
  unfold Meta.isModified at h
  cases hv : m.value with
  | none => simp [hv] at h
  | some v => exact ⟨v, rfl⟩

theorem record_crash (s : MState) (now : Int) {d : AList DiskEntry} {key : Bytes} {m : Meta}
    (h : DiskWF d) (ha : AgreesD d key m.stored) (n : Nat) :
    (recovered (runCalls d ((recordCalls s now (key, m)).take n)) key = recovered d key
      ∨ recovered (runCalls d ((recordCalls s now (key, m)).take n)) key
          = recovered (runCalls d (recordCalls s now (key, m))) key)
    ∧ recovered (runCalls d (recordCalls s now (key, m))) key = target now m (recovered d key)
    ∧ AgreesD (runCalls d (recordCalls s now (key, m))) key (storedAfter now m) := by
  unfold recordCalls target storedAfter
  simp only
  split
  · obtain ⟨h1, h2, h3⟩ := unpersist_crash_disk h ha n
    refine ⟨?_, h2, h3⟩
    rw [h2]; exact h1
  · split
    · refine ⟨Or.inl (by cases n <;> rfl), rfl, ha⟩
    · rename_i _ hmod
      have hmod' : m.isModified = true := by
        revert hmod; cases m.isModified <;> simp
      obtain ⟨v, hv⟩ := isSome_of_modified hmod'
      obtain ⟨h1, h2, h3⟩ := persist_crash_disk s.pebble h ha hv n
      refine ⟨?_, ?_, h3⟩
      · unfold persistCalls; rw [h2]; exact h1
      · unfold persistCalls; rw [h2, hv]; rfl

/-! ### a whole pass, by induction over the index -/

/-- the records of a pass: distinct names, each agreeing with the backend -/
def RecordsAgree (d : AList DiskEntry) (l : List (Bytes × Meta)) : Prop :=
  (l.map (·.1)).Nodup ∧ ∀ p ∈ l, AgreesD d p.1 p.2.stored

theorem passCalls_exact (s : MState) (now : Int) (l : List (Bytes × Meta)) :
    ∀ c ∈ l.flatMap (recordCalls s now), c.Exact s.pebble := by
  intro c hc
  obtain ⟨ent, _, h⟩ := List.mem_flatMap.mp hc
  exact recordCalls_exact s now ent c h

theorem passCalls_name (s : MState) (now : Int) (l : List (Bytes × Meta)) {name : Bytes}
    (hn : ∀ p ∈ l, p.1 ≠ name) : ∀ c ∈ l.flatMap (recordCalls s now), c.name ≠ name := by
  intro c hc
  obtain ⟨ent, he, h⟩ := List.mem_flatMap.mp hc
  rw [recordCalls_name s now ent c h]
  exact hn ent he

theorem take_subset_exact {pebble : Bool} {cs : List DiskCall} (h : ∀ c ∈ cs, c.Exact pebble) (n : Nat) :
    ∀ c ∈ cs.take n, c.Exact pebble := fun c hc => h c (List.mem_of_mem_take hc)

/-- **crash safety of a pass**: after any prefix of the calls of a pass over the records `l`, every
    name is recovered as before the pass or as the completed pass leaves it -/
theorem pass_crash (s : MState) (now : Int) : ∀ (l : List (Bytes × Meta)) {d : AList DiskEntry},
    DiskWF d → RecordsAgree d l → ∀ (n : Nat) (name : Bytes),
    recovered (runCalls d ((l.flatMap (recordCalls s now)).take n)) name = recovered d name
      ∨ recovered (runCalls d ((l.flatMap (recordCalls s now)).take n)) name
          = recovered (runCalls d (l.flatMap (recordCalls s now))) name := by
  intro l
  induction l with
  | nil => intro d _ _ n name; left; simp [runCalls]
  | cons a rest ih =>
    intro d hwf hra n name
    obtain ⟨key, m⟩ := a
    obtain ⟨hnd, hag⟩ := hra
    simp only [List.map_cons, List.nodup_cons] at hnd
    obtain ⟨hkey, hnd'⟩ := hnd
    have hrest_ne : ∀ p ∈ rest, p.1 ≠ key := by
      intro p hp e; apply hkey; rw [← e]; exact List.mem_map.mpr ⟨p, hp, rfl⟩
    have hCex := recordCalls_exact s now (key, m)
    have hCname := recordCalls_name s now (key, m)
    have hRex := passCalls_exact s now rest
    have hRkey := passCalls_name s now rest hrest_ne
    have hak : AgreesD d key m.stored := hag (key, m) List.mem_cons_self
    have hwf1 : DiskWF (runCalls d (recordCalls s now (key, m))) := diskWF_run hwf _ hCex
    simp only [List.flatMap_cons, List.take_append, runCalls_append]
    -- the full pass on `key`: decided by its own calls
    have hfull_key : recovered (runCalls (runCalls d (recordCalls s now (key, m))) (rest.flatMap (recordCalls s now))) key
        = recovered (runCalls d (recordCalls s now (key, m))) key :=
      recovered_run_other _ hwf1 hRex hRkey
    by_cases hn : n ≤ (recordCalls s now (key, m)).length
    · -- the crash falls into the calls of the first record
      have h0 : n - (recordCalls s now (key, m)).length = 0 := by omega
      rw [h0, List.take_zero, runCalls_nil]
      by_cases hname : name = key
      · subst hname
        rw [hfull_key]
        exact (record_crash s now hwf hak n).1
      · left
        apply recovered_run_other _ hwf (take_subset_exact hCex n)
        intro c hc
        rw [hCname c (List.mem_of_mem_take hc)]
        exact fun e => hname e.symm
    · -- the first record is done
      rw [List.take_of_length_le (by omega)]
      have hra1 : RecordsAgree (runCalls d (recordCalls s now (key, m))) rest := by
        refine ⟨hnd', ?_⟩
        intro p hp
        apply agrees_run_other _ hwf hCex _ (hag p (List.mem_cons_of_mem _ hp))
        intro c hc
        rw [hCname c hc]
        exact fun e => hrest_ne p hp e.symm
      rcases ih hwf1 hra1 (n - (recordCalls s now (key, m)).length) name with h1 | h1
      · by_cases hname : name = key
        · subst hname
          right
          rw [h1, hfull_key]
        · left
          rw [h1]
          apply recovered_run_other _ hwf hCex
          intro c hc
          rw [hCname c hc]
          exact fun e => hname e.symm
      · right; exact h1

/-- **a completed pass**: every record of the pass is recovered as its `target`, every name without a
    record as before -/
theorem pass_full (s : MState) (now : Int) : ∀ (l : List (Bytes × Meta)) {d : AList DiskEntry},
    DiskWF d → RecordsAgree d l →
    (∀ p ∈ l, recovered (runCalls d (l.flatMap (recordCalls s now))) p.1 = target now p.2 (recovered d p.1)
      ∧ AgreesD (runCalls d (l.flatMap (recordCalls s now))) p.1 (storedAfter now p.2))
    ∧ ∀ name, (∀ p ∈ l, p.1 ≠ name) →
        recovered (runCalls d (l.flatMap (recordCalls s now))) name = recovered d name := by
  intro l
  induction l with
  | nil =>
    intro d _ _
    exact ⟨fun p hp => (by cases hp), fun name _ => rfl⟩
  | cons a rest ih =>
    intro d hwf hra
    obtain ⟨key, m⟩ := a
    obtain ⟨hnd, hag⟩ := hra
    simp only [List.map_cons, List.nodup_cons] at hnd
    obtain ⟨hkey, hnd'⟩ := hnd
    have hrest_ne : ∀ p ∈ rest, p.1 ≠ key := by
      intro p hp e; apply hkey; rw [← e]; exact List.mem_map.mpr ⟨p, hp, rfl⟩
    have hCex := recordCalls_exact s now (key, m)
    have hCname := recordCalls_name s now (key, m)
    have hRex := passCalls_exact s now rest
    have hRkey := passCalls_name s now rest hrest_ne
    have hak : AgreesD d key m.stored := hag (key, m) List.mem_cons_self
    have hwf1 : DiskWF (runCalls d (recordCalls s now (key, m))) := diskWF_run hwf _ hCex
    have hra1 : RecordsAgree (runCalls d (recordCalls s now (key, m))) rest := by
      refine ⟨hnd', ?_⟩
      intro p hp
      apply agrees_run_other _ hwf hCex _ (hag p (List.mem_cons_of_mem _ hp))
      intro c hc
      rw [hCname c hc]
      exact fun e => hrest_ne p hp e.symm
    obtain ⟨i1, i2⟩ := ih hwf1 hra1
    obtain ⟨_, r2, r3⟩ := record_crash s now hwf hak 0
    simp only [List.flatMap_cons, runCalls_append]
    constructor
    · intro p hp
      rcases List.mem_cons.mp hp with rfl | hp
      · constructor
        · rw [recovered_run_other _ hwf1 hRex hRkey]
          exact r2
        · exact agrees_run_other _ hwf1 hRex hRkey r3
      · obtain ⟨j1, j2⟩ := i1 p hp
        refine ⟨?_, j2⟩
        rw [j1]
        congr 1
        apply recovered_run_other _ hwf hCex
        intro c hc
        rw [hCname c hc]
        exact fun e => hrest_ne p hp e.symm
    · intro name hname
      rw [i2 name (fun p hp => hname p (List.mem_cons_of_mem _ hp))]
      apply recovered_run_other _ hwf hCex
      intro c hc
      rw [hCname c hc]
      exact hname (key, m) List.mem_cons_self

end NodisVerif.C13
