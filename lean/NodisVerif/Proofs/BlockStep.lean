import NodisVerif.Proofs.BlockBasic
/-
  Inversion of the local step `lstep` of the BLPOP/BRPOP wake-up protocol: for each event, exactly
  when it is allowed and what it does to the waiter.
-/
namespace NodisVerif.Proofs.Block
open NodisVerif.Block

theorem ite_none_some {α : Type} {c : Prop} [Decidable c] {x r : α} :
    (if c then none else some x) = some r ↔ ¬ c ∧ r = x := by
  by_cases h : c <;> simp [h, eq_comm]

theorem lstep_reg {o : Option WSt} {w : W} {k : Key} {r : Option WSt} :
    lstep o (.reg w k) = some r ↔
      (o.getD {}).phase = .registering ∧
      r = some { (o.getD {}) with keys := (o.getD {}).keys ++ [k], reg := (o.getD {}).reg ++ [k] } := by
  simp [lstep, @eq_comm _ r]

theorem lstep_try {o : Option WSt} {w : W} {k : Key} {got : Bool} {r : Option WSt} :
    lstep o (.try_ w k got) = some r ↔
      ∃ st i, o = some st ∧ pos st.phase = some i ∧ st.keys[i]? = some k ∧
        r = some (if got then { st with phase := .gotElem k }
                  else { st with phase := .scan (i + 1), seen := k :: st.seen }) := by
  cases o with
  | none => simp [lstep]
  | some st =>
    simp only [lstep]
    cases hp : pos st.phase with
    | none => simp [hp]
    | some i =>
      simp only
      by_cases hk : st.keys[i]? = some k
      · cases got <;> simp [hk, hp, eq_comm]
      · simp [hk, hp]

theorem lstep_block {o : Option WSt} {w : W} {t : Bool} {r : Option WSt} :
    lstep o (.block w t) = some r ↔
      ∃ st, o = some st ∧ st.phase = .scan st.keys.length ∧
        r = some { st with phase := .blocked, timed := t } := by
  cases o with
  | none => simp [lstep]
  | some st =>
    simp [lstep, @eq_comm _ r]

theorem lstep_wake {o : Option WSt} {w : W} {r : Option WSt} :
    lstep o (.wake w) = some r ↔
      ∃ st, o = some st ∧ st.phase = .blocked ∧ st.buf = true ∧
        r = some { st with phase := .scan 0, buf := false, woken := st.woken + 1 } := by
  cases o with
  | none => simp [lstep]
  | some st =>
    simp [lstep, @eq_comm _ r, and_assoc]

theorem lstep_timeout {o : Option WSt} {w : W} {r : Option WSt} :
    lstep o (.timeout w) = some r ↔
      ∃ st, o = some st ∧ st.phase = .blocked ∧ st.timed = true ∧
        r = some { st with phase := .gotNull } := by
  cases o with
  | none => simp [lstep]
  | some st =>
    simp [lstep, @eq_comm _ r, and_assoc]

theorem lstep_notify {o : Option WSt} {w : W} {k : Key} {r : Option WSt} :
    lstep o (.notify w k) = some r ↔
      ∃ st, o = some st ∧ k ∈ st.reg ∧
        r = some { st with buf := true, seen := st.seen.filter (· != k), notified := st.notified + 1 } := by
  cases o with
  | none => simp [lstep]
  | some st =>
    simp [lstep, @eq_comm _ r]

/-- the call has produced its result, or a pop attempt has panicked and the call is unwinding -/
def Returned : Phase → Prop
  | .gotElem _ | .gotNull | .aborted => True
  | _ => False

theorem returned_pos {p : Phase} (h : Returned p) : pos p = none ∧ p ≠ .blocked := by
  cases p <;> simp_all [Returned, pos]

theorem lstep_abort {o : Option WSt} {w : W} {r : Option WSt} :
    lstep o (.abort w) = some r ↔
      ∃ st, o = some st ∧ pos st.phase ≠ none ∧ r = some { st with phase := .aborted } := by
  cases o with
  | none => simp [lstep]
  | some st =>
    cases hp : st.phase <;> simp [lstep, hp, pos, @eq_comm _ r]

theorem lstep_unreg {o : Option WSt} {w : W} {k : Key} {r : Option WSt} :
    lstep o (.unreg w k) = some r ↔
      ∃ st, o = some st ∧ Returned st.phase ∧
        r = some { st with reg := st.reg.filter (· != k) } := by
  cases o with
  | none => simp [lstep]
  | some st =>
    cases hp : st.phase <;> simp [lstep, hp, Returned, @eq_comm _ r]

theorem lstep_fin {o : Option WSt} {w : W} {r : Option WSt} :
    lstep o (.fin w) = some r ↔ ∃ st, o = some st ∧ st.reg = [] ∧ r = none := by
  cases o with
  | none => simp [lstep]
  | some st =>
    simp [lstep, @eq_comm _ r]

end NodisVerif.Proofs.Block
