import NodisVerif.Proofs.GateProgDone
/-
  The watch registry of the program model (`store.watchedKeys` against the connections' `WatchKeys`): a connection is in
  the watcher list of a key only if it has a flag for that key, and watcher lists are duplicate-free.  Hence `UnWatch`
  removes the connection from every list it is in, and no later signal of anybody re-creates a flag.
-/
namespace NodisVerif.GateProg
open NodisVerif.Gate (G T GMode Ev GState)

def regOf (reg : List (Key × List Tid)) (k : Key) : List Tid := (kassoc reg k).getD []
def hasKey (w : List (Key × Bool)) (k : Key) : Bool := (kassoc w k).isSome

theorem kassoc_kput_same {β} (l : List (Key × β)) (a : Key) (b : β) : kassoc (kput l a b) a = some b := by
  simp [kassoc, kput]

theorem kassoc_kput_other {β} (l : List (Key × β)) (a a' : Key) (b : β) (h : a' ≠ a) :
    kassoc (kput l a b) a' = kassoc l a' := by
  have h' : (a == a') = false := by simpa using fun e => h e.symm
  simp only [kassoc, kput, List.find?_cons, h', List.find?_filter]
  congr 2
  funext x
  by_cases hx : x.1 = a'
  · simp [hx, h]
  · simp [hx]

theorem regOf_kput (reg : List (Key × List Tid)) (k0 k : Key) (v : List Tid) :
    regOf (kput reg k0 v) k = if k = k0 then v else regOf reg k := by
  unfold regOf
  by_cases h : k = k0
  · subst h; simp [kassoc_kput_same]
  · simp [h, kassoc_kput_other _ _ _ _ h]

theorem hasKey_kput (w : List (Key × Bool)) (k0 k : Key) (v : Bool) :
    hasKey (kput w k0 v) k = (decide (k = k0) || hasKey w k) := by
  unfold hasKey
  by_cases h : k = k0
  · subst h; simp [kassoc_kput_same]
  · simp [h, kassoc_kput_other _ _ _ _ h]

theorem hasKey_nil (k : Key) : hasKey [] k = false := rfl

/-! ### the loops -/

/-- one iteration of UnWatch's loop, on the watcher lists -/
theorem unwatch_iter (t : Tid) (reg : List (Key × List Tid)) (k0 k : Key) :
    regOf (unwatchIter t reg k0) k = if k = k0 then (regOf reg k0).erase t else regOf reg k := by
  unfold unwatchIter
  cases h : kassoc reg k0 with
  | none =>
    by_cases hk : k = k0
    · subst hk; simp [regOf, h]
    · simp [hk]
  | some cl =>
    simp only [regOf_kput]
    by_cases hk : k = k0
    · simp [hk, regOf, h]
    · simp [hk]

theorem unwatchLoop_spec (t : Tid) : ∀ (ks : List Key) (reg : List (Key × List Tid)),
    (∀ k, (regOf reg k).Nodup) →
    (∀ k, (regOf (unwatchLoop t reg ks) k).Nodup) ∧
    (∀ k t', t' ∈ regOf (unwatchLoop t reg ks) k → t' ∈ regOf reg k) ∧
    (∀ k, k ∈ ks → t ∉ regOf (unwatchLoop t reg ks) k)
  | [], reg, hn => ⟨hn, fun _ _ h => h, fun _ h => by cases h⟩
  | k0 :: ks, reg, hn => by
    simp only [unwatchLoop]
    have hit := unwatch_iter t reg k0
    generalize unwatchIter t reg k0 = reg1 at hit ⊢
    have hn1 : ∀ k, (regOf reg1 k).Nodup := by
      intro k; rw [hit]; split
      · exact (hn k0).erase t
      · exact hn k
    obtain ⟨h1, h2, h3⟩ := unwatchLoop_spec t ks reg1 hn1
    refine ⟨h1, fun k t' h => ?_, fun k hk => ?_⟩
    · have := h2 k t' h
      rw [hit] at this
      split at this
      · rename_i hk; rw [hk]; exact List.mem_of_mem_erase this
      · exact this
    · by_cases hk0 : k = k0
      · intro hm
        have := h2 k t hm
        rw [hit, if_pos hk0] at this
        exact ((hn k0).mem_erase_iff.1 this).1 rfl
      · rcases List.mem_cons.1 hk with h | h
        · exact absurd h hk0
        · exact h3 k h

/-- one iteration of Watch's loop, on the watcher lists -/
theorem watch_iter (t : Tid) (reg : List (Key × List Tid)) (k0 k : Key) :
    regOf (watchIterReg t reg k0) k =
    if k = k0 then (if t ∈ regOf reg k0 then regOf reg k0 else t :: regOf reg k0) else regOf reg k := by
  unfold watchIterReg
  cases h : kassoc reg k0 with
  | none =>
    simp only [regOf_kput]
    by_cases hk : k = k0
    · simp [hk, regOf, h]
    · simp [hk]
  | some cl =>
    by_cases hc : t ∈ cl
    · simp only [List.contains_eq_mem, hc, decide_true, if_true]
      by_cases hk : k = k0
      · subst hk; simp [regOf, h, hc]
      · simp [hk]
    · simp only [List.contains_eq_mem, hc, decide_false, Bool.false_eq_true, if_false, regOf_kput]
      by_cases hk : k = k0
      · simp [hk, regOf, h, hc]
      · simp [hk]

theorem watchLoop_spec (t : Tid) : ∀ (ks : List Key) (reg : List (Key × List Tid)) (w : List (Key × Bool)),
    (∀ k, (regOf reg k).Nodup) →
    (∀ k, (regOf (watchLoop t reg w ks).1 k).Nodup) ∧
    (∀ k, hasKey w k = true → hasKey (watchLoop t reg w ks).2 k = true) ∧
    (∀ k t', t' ∈ regOf (watchLoop t reg w ks).1 k → t' ∈ regOf reg k ∨ (t' = t ∧ hasKey (watchLoop t reg w ks).2 k = true))
  | [], reg, w, hn => ⟨hn, fun _ h => h, fun _ _ h => Or.inl h⟩
  | k0 :: ks, reg, w, hn => by
    simp only [watchLoop]
    have hit := watch_iter t reg k0
    generalize watchIterReg t reg k0 = reg1 at hit ⊢
    have hw1 : ∀ k, hasKey w k = true → hasKey (watchIterW w k0) k = true := by
      intro k hk; unfold watchIterW; split
      · exact hk
      · rw [hasKey_kput, hk]; simp
    have hk0 : hasKey (watchIterW w k0) k0 = true := by
      unfold watchIterW; split
      · rename_i h; exact h
      · rw [hasKey_kput]; simp
    generalize watchIterW w k0 = w1 at hw1 hk0 ⊢
    have hn1 : ∀ k, (regOf reg1 k).Nodup := by
      intro k; rw [hit]; split
      · split
        · exact hn k0
        · rename_i hnm; exact List.nodup_cons.2 ⟨hnm, hn k0⟩
      · exact hn k
    obtain ⟨h1, h2, h3⟩ := watchLoop_spec t ks reg1 w1 hn1
    refine ⟨h1, fun k hk => h2 k (hw1 k hk), fun k t' h => ?_⟩
    rcases h3 k t' h with h | h
    · rw [hit] at h
      split at h
      · rename_i hk
        split at h
        · left; rw [hk]; exact h
        · rcases List.mem_cons.1 h with h | h
          · right; exact ⟨h, by rw [hk]; exact h2 k0 hk0⟩
          · left; rw [hk]; exact h
      · left; exact h
    · right; exact h

/-- marking keeps every flag that is there -/
theorem markAll_hasKey (k : Key) : ∀ (cl : List Tid) (conns : List (Tid × ConnSt)) (t : Tid) (k' : Key),
    hasKey ((assoc conns t).getD {}).watch k' = true → hasKey ((assoc (markAll conns k cl) t).getD {}).watch k' = true
  | [], _, _, _, h => h
  | c :: cs, conns, t, k', h => by
    simp only [markAll]
    apply markAll_hasKey k cs
    by_cases hc : t = c
    · subst hc
      rw [assoc_put_same]
      simp only [Option.getD_some, hasKey_kput, h, Bool.or_true]
    · rw [assoc_put_other _ _ _ _ hc]; exact h

/-- marking touches only the connections in the list -/
theorem markAll_other (k : Key) : ∀ (cl : List Tid) (conns : List (Tid × ConnSt)) (t : Tid), t ∉ cl →
    (assoc (markAll conns k cl) t) = assoc conns t
  | [], _, _, _ => rfl
  | c :: cs, conns, t, h => by
    simp only [markAll]
    rw [markAll_other k cs _ t (fun hm => h (List.mem_cons_of_mem _ hm))]
    exact assoc_put_other _ _ _ _ (fun e => h (by rw [e]; exact List.mem_cons_self))

/-! ### the invariant -/

structure WInv (s : Shared) : Prop where
  /-- a connection is registered for a key only if it has a flag for it -/
  j1 : ∀ k t, t ∈ regOf s.registry k → hasKey (s.conn t).watch k = true
  j2 : ∀ k, (regOf s.registry k).Nodup

theorem winv_init : WInv {} where
  j1 := fun k t h => by cases h
  j2 := fun k => List.nodup_nil

@[simp] theorem serve_registry (s : Shared) (t : Tid) : (s.serve t).registry = s.registry := by
  unfold Shared.serve; split <;> rfl
@[simp] theorem setConn_registry (s : Shared) (t : Tid) (c : ConnSt) : (s.setConn t c).registry = s.registry := rfl

/-- every transition but the three loops leaves the registry and every connection's flags alone -/
theorem tstep_watch_frame {s : Shared} {t : Tid} {l : Loc} {ch : Choice} {s' l' evs}
    (hpc : l.pc ≠ .w2 ∧ l.pc ≠ .u2 ∧ l.pc ≠ .g2) (hs : tstep s t l ch = some (s', l', evs)) :
    s'.registry = s.registry ∧ ∀ g, (s'.conn g).watch = (s.conn g).watch := by
  obtain ⟨h1, h2, h3⟩ := hpc
  cases hp : l.pc <;> simp only [tstep, hp] at hs <;>
    (first | exact absurd hp h1 | exact absurd hp h2 | exact absurd hp h3 | skip) <;>
    (repeat' split at hs) <;> (first | (cases hs; done) | skip) <;>
    (try (injection hs with hs; injection hs with e1 e2; subst e1)) <;>
    (refine ⟨by simp, fun g => ?_⟩) <;> (by_cases hg : g = t) <;>
    (first | rfl | (subst hg; simp [ConnSt.reset]; done) | (simp [conn_setConn_other _ _ _ _ hg]; done))

theorem winv_step {s : Shared} {t : Tid} {l : Loc} {ch : Choice} {s' l' evs}
    (hw : WInv s) (hs : tstep s t l ch = some (s', l', evs)) : WInv s' := by
  by_cases hpc : l.pc ≠ .w2 ∧ l.pc ≠ .u2 ∧ l.pc ≠ .g2
  · obtain ⟨hr, hc⟩ := tstep_watch_frame hpc hs
    exact ⟨fun k g h => by rw [hc]; rw [hr] at h; exact hw.j1 k g h, fun k => by rw [hr]; exact hw.j2 k⟩
  · have hpc' : l.pc = .w2 ∨ l.pc = .u2 ∨ l.pc = .g2 := by
      by_cases a : l.pc = .w2
      · exact Or.inl a
      · by_cases b : l.pc = .u2
        · exact Or.inr (Or.inl b)
        · by_cases c : l.pc = .g2
          · exact Or.inr (Or.inr c)
          · exact absurd ⟨a, b, c⟩ hpc
    rcases hpc' with hp | hp | hp
    · -- Watch
      simp only [tstep, hp] at hs
      split at hs
      · rename_i ks hcmd
        injection hs with hs; injection hs with e1 e2; subst e1
        obtain ⟨n1, n2, n3⟩ := watchLoop_spec t ks s.registry (s.conn t).watch hw.j2
        refine ⟨fun k g h => ?_, fun k => n1 k⟩
        show hasKey ((({ s with registry := _ } : Shared).setConn t _).conn g).watch k = true
        have h' : g ∈ regOf (watchLoop t s.registry (s.conn t).watch ks).1 k := h
        by_cases hg : g = t
        · subst hg
          rw [conn_setConn_same]
          rcases n3 k g h' with h'' | h''
          · exact n2 k (hw.j1 k g h'')
          · exact h''.2
        · rw [conn_setConn_other _ _ _ _ hg]
          rcases n3 k g h' with h'' | h''
          · exact hw.j1 k g h''
          · exact absurd h''.1 hg
      · cases hs
    · -- UnWatch
      simp only [tstep, hp] at hs
      injection hs with hs; injection hs with e1 e2; subst e1
      obtain ⟨n1, n2, n3⟩ := unwatchLoop_spec t ((s.conn t).watch.map (·.1)) s.registry hw.j2
      refine ⟨fun k g h => ?_, fun k => n1 k⟩
      show hasKey ((({ s with registry := _ } : Shared).setConn t _).conn g).watch k = true
      have h' : g ∈ regOf (unwatchLoop t s.registry ((s.conn t).watch.map (·.1))) k := h
      by_cases hg : g = t
      · subst hg
        exfalso
        have hk := hw.j1 k g (n2 k g h')
        have hmem : k ∈ (s.conn g).watch.map (·.1) := by
          unfold hasKey kassoc at hk
          simp only [Option.isSome_map, List.find?_isSome, beq_iff_eq] at hk
          obtain ⟨x, hx, rfl⟩ := hk
          exact List.mem_map_of_mem hx
        exact n3 k hmem h'
      · rw [conn_setConn_other _ _ _ _ hg]
        exact hw.j1 k g (n2 k g h')
    · -- signalModifiedKey
      simp only [tstep, hp] at hs
      injection hs with hs; injection hs with e1 e2; subst e1
      refine ⟨fun k g h => ?_, hw.j2⟩
      exact markAll_hasKey l.key _ s.conns g k (hw.j1 k g h)

end NodisVerif.GateProg
