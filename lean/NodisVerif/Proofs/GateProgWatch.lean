import NodisVerif.Proofs.GateProgDone
/-
  The watch registry of the program model (`store.watchedKeys` against the connections' `WatchKeys`): a connection is in
  the watcher list of a key only if it has a flag for that key, and watcher lists are duplicate-free.  Hence `UnWatch`
  removes the connection from every list it is in, and no later signal of anybody re-creates a flag.
-/
namespace NodisVerif.GateProg
open NodisVerif.Gate (G T GMode Ev GState)

def regOf (reg : List (Key × List Tid)) (k : Key) : List Tid := (kassoc reg k).getD []
def hasKey (w : List (Key × Bool)) (k : Key) : Bool := (kassoc w k).isSome

theorem kassoc_kput_same {β} (l : List (Key × β)) (a : Key) (b : β) : kassoc (kput l a b) a = some b := by
  simp [kassoc, kput]

theorem kassoc_kput_other {β} (l : List (Key × β)) (a a' : Key) (b : β) (h : a' ≠ a) :
    kassoc (kput l a b) a' = kassoc l a' := by
  have h' : (a == a') = false := by simpa using fun e => h e.symm
  simp only [kassoc, kput, List.find?_cons, h', List.find?_filter]
  congr 2
  funext x
  by_cases hx : x.1 = a'
  · simp [hx, h]
  · simp [hx]

theorem regOf_kput (reg : List (Key × List Tid)) (k0 k : Key) (v : List Tid) :
    regOf (kput reg k0 v) k = if k = k0 then v else regOf reg k := by
  unfold regOf
  by_cases h : k = k0
  · subst h; simp [kassoc_kput_same]
  · simp [h, kassoc_kput_other _ _ _ _ h]

theorem hasKey_kput (w : List (Key × Bool)) (k0 k : Key) (v : Bool) :
    hasKey (kput w k0 v) k = (decide (k = k0) || hasKey w k) := by
  unfold hasKey
  by_cases h : k = k0
  · subst h; simp [kassoc_kput_same]
  · simp [h, kassoc_kput_other _ _ _ _ h]

theorem hasKey_nil (k : Key) : hasKey [] k = false := rfl

/-! ### the loops -/

/-- one iteration of UnWatch's loop, on the watcher lists -/
theorem unwatch_iter (t : Tid) (reg : List (Key × List Tid)) (k0 k : Key) :
    regOf (unwatchIter t reg k0) k = if k = k0 then (regOf reg k0).erase t else regOf reg k := by
  unfold unwatchIter
  cases h : kassoc reg k0 with
  | none =>
    by_cases hk : k = k0
    · subst hk; simp [regOf, h]
    · simp [hk]
  | some cl =>
    simp only [regOf_kput]
    by_cases hk : k = k0
    · simp [hk, regOf, h]
    · simp [hk]

theorem unwatchLoop_spec (t : Tid) : ∀ (ks : List Key) (reg : List (Key × List Tid)),
    (∀ k, (regOf reg k).Nodup) →
    (∀ k, (regOf (unwatchLoop t reg ks) k).Nodup) ∧
    (∀ k t', t' ∈ regOf (unwatchLoop t reg ks) k → t' ∈ regOf reg k) ∧
    (∀ k, k ∈ ks → t ∉ regOf (unwatchLoop t reg ks) k)
  | [], reg, hn => ⟨hn, fun _ _ h => h, fun _ h => by cases h⟩
  | k0 :: ks, reg, hn => by
    simp only [unwatchLoop]
    have hit := unwatch_iter t reg k0
    generalize unwatchIter t reg k0 = reg1 at hit ⊢
    have hn1 : ∀ k, (regOf reg1 k).Nodup := by
      intro k; rw [hit]; split
      · exact (hn k0).erase t
      · exact hn k
    obtain ⟨h1, h2, h3⟩ := unwatchLoop_spec t ks reg1 hn1
    refine ⟨h1, fun k t' h => ?_, fun k hk => ?_⟩
    · have := h2 k t' h
      rw [hit] at this
      split at this
      · rename_i hk; rw [hk]; exact List.mem_of_mem_erase this
      · exact this
    · by_cases hk0 : k = k0
      · intro hm
        have := h2 k t hm
        rw [hit, if_pos hk0] at this
        exact ((hn k0).mem_erase_iff.1 this).1 rfl
      · rcases List.mem_cons.1 hk with h | h
        · exact absurd h hk0
        · exact h3 k h

/-- one iteration of Watch's loop, on the watcher lists -/
theorem watch_iter (t : Tid) (reg : List (Key × List Tid)) (k0 k : Key) :
    regOf (watchIterReg t reg k0) k =
    if k = k0 then (if t ∈ regOf reg k0 then regOf reg k0 else t :: regOf reg k0) else regOf reg k := by
  unfold watchIterReg
  cases h : kassoc reg k0 with
  | none =>
    simp only [regOf_kput]
    by_cases hk : k = k0
    · simp [hk, regOf, h]
    · simp [hk]
  | some cl =>
    by_cases hc : t ∈ cl
    · simp only [List.contains_eq_mem, hc, decide_true, if_true]
      by_cases hk : k = k0
      · subst hk; simp [regOf, h, hc]
      · simp [hk]
    · simp only [List.contains_eq_mem, hc, decide_false, Bool.false_eq_true, if_false, regOf_kput]
      by_cases hk : k = k0
      · simp [hk, regOf, h, hc]
      · simp [hk]

theorem watchLoop_spec (t : Tid) : ∀ (ks : List Key) (reg : List (Key × List Tid)) (w : List (Key × Bool)),
    (∀ k, (regOf reg k).Nodup) →
    (∀ k, (regOf (watchLoop t reg w ks).1 k).Nodup) ∧
    (∀ k, hasKey w k = true → hasKey (watchLoop t reg w ks).2 k = true) ∧
    (∀ k t', t' ∈ regOf (watchLoop t reg w ks).1 k → t' ∈ regOf reg k ∨ (t' = t ∧ hasKey (watchLoop t reg w ks).2 k = true))
  | [], reg, w, hn => ⟨hn, fun _ h => h, fun _ _ h => Or.inl h⟩
  | k0 :: ks, reg, w, hn => by
    simp only [watchLoop]
    have hit := watch_iter t reg k0
    generalize watchIterReg t reg k0 = reg1 at hit ⊢
    have hw1 : ∀ k, hasKey w k = true → hasKey (watchIterW w k0) k = true := by
      intro k hk; unfold watchIterW; split
      · exact hk
      · rw [hasKey_kput, hk]; simp
    have hk0 : hasKey (watchIterW w k0) k0 = true := by
      unfold watchIterW; split
      · rename_i h; exact h
      · rw [hasKey_kput]; simp
    generalize watchIterW w k0 = w1 at hw1 hk0 ⊢
    have hn1 : ∀ k, (regOf reg1 k).Nodup := by
      intro k; rw [hit]; split
      · split
        · exact hn k0
        · rename_i hnm; exact List.nodup_cons.2 ⟨hnm, hn k0⟩
      · exact hn k
    obtain ⟨h1, h2, h3⟩ := watchLoop_spec t ks reg1 w1 hn1
    refine ⟨h1, fun k hk => h2 k (hw1 k hk), fun k t' h => ?_⟩
    rcases h3 k t' h with h | h
    · rw [hit] at h
      split at h
      · rename_i hk
        split at h
        · left; rw [hk]; exact h
        · rcases List.mem_cons.1 h with h | h
          · right; exact ⟨h, by rw [hk]; exact h2 k0 hk0⟩
          · left; rw [hk]; exact h
      · left; exact h
    · right; exact h

/-- marking keeps every flag that is there -/
theorem markAll_hasKey (k : Key) : ∀ (cl : List Tid) (conns : List (Tid × ConnSt)) (t : Tid) (k' : Key),
    hasKey ((assoc conns t).getD {}).watch k' = true → hasKey ((assoc (markAll conns k cl) t).getD {}).watch k' = true
  | [], _, _, _, h => h
  | c :: cs, conns, t, k', h => by
    simp only [markAll]
    apply markAll_hasKey k cs
    by_cases hc : t = c
    · subst hc
      rw [assoc_put_same]
      simp only [Option.getD_some, hasKey_kput, h, Bool.or_true]
    · rw [assoc_put_other _ _ _ _ hc]; exact h

/-- marking touches only the connections in the list -/
theorem markAll_other (k : Key) : ∀ (cl : List Tid) (conns : List (Tid × ConnSt)) (t : Tid), t ∉ cl →
    (assoc (markAll conns k cl) t) = assoc conns t
  | [], _, _, _ => rfl
  | c :: cs, conns, t, h => by
    simp only [markAll]
    rw [markAll_other k cs _ t (fun hm => h (List.mem_cons_of_mem _ hm))]
    exact assoc_put_other _ _ _ _ (fun e => h (by rw [e]; exact List.mem_cons_self))

end NodisVerif.GateProg
