import NodisVerif.Proofs.CodecLemmas
/-
  The skiplist chain rebuilt by `zset.SetValue` (insertion of the dictionary entries in member
  order) is the original chain, for every well-formed sorted set.
-/
namespace NodisVerif.Proofs.ZSetLemmas
open Codec CodecLemmas AListLemmas DsZSet

def Good (a : Item) : Prop := F64.isNaN a.1 = false

theorem itemLt_iff (a b : Item) (ha : Good a) (hb : Good b) :
    itemLt a b = true ↔
      F64.key a.1 < F64.key b.1 ∨ (F64.key a.1 = F64.key b.1 ∧ Bytes.lt a.2 b.2 = true) := by
  unfold Good at ha hb
  simp [itemLt, nodeLt, F64.lt, F64.eq, ha, hb]

theorem itemLt_trans (a b c : Item) (ha : Good a) (hb : Good b) (hc : Good c)
    (h1 : itemLt a b = true) (h2 : itemLt b c = true) : itemLt a c = true := by
  rw [itemLt_iff _ _ ha hb] at h1
  rw [itemLt_iff _ _ hb hc] at h2
  rw [itemLt_iff _ _ ha hc]
  rcases h1 with h1 | ⟨h1, h1'⟩ <;> rcases h2 with h2 | ⟨h2, h2'⟩
  · left; omega
  · left; omega
  · left; omega
  · right; exact ⟨by omega, lt_trans _ _ _ h1' h2'⟩

theorem itemLt_asymm (a b : Item) (ha : Good a) (hb : Good b)
    (h1 : itemLt a b = true) (h2 : itemLt b a = true) : False := by
  rw [itemLt_iff _ _ ha hb] at h1
  rw [itemLt_iff _ _ hb ha] at h2
  rcases h1 with h1 | ⟨h1, h1'⟩ <;> rcases h2 with h2 | ⟨h2, h2'⟩
  · omega
  · omega
  · omega
  · have := lt_asymm _ _ h1'
    rw [this] at h2'
    cases h2'

theorem itemLt_irrefl (a : Item) (ha : Good a) : itemLt a a = true → False :=
  fun h => itemLt_asymm a a ha ha h h

theorem itemLt_total (a b : Item) (ha : Good a) (hb : Good b)
    (h1 : itemLt a b = false) (hne : a.2 ≠ b.2) : itemLt b a = true := by
  rw [itemLt_iff _ _ hb ha]
  have h1' : ¬ (F64.key a.1 < F64.key b.1 ∨ (F64.key a.1 = F64.key b.1 ∧ Bytes.lt a.2 b.2 = true)) := by
    rw [← itemLt_iff _ _ ha hb, h1]
    simp
  by_cases hk : F64.key b.1 < F64.key a.1
  · left; exact hk
  · right
    have hk2 : ¬ F64.key a.1 < F64.key b.1 := fun h => h1' (Or.inl h)
    have heq : F64.key a.1 = F64.key b.1 := by omega
    refine ⟨heq.symm, ?_⟩
    have h3 : Bytes.lt a.2 b.2 = false := by
      cases h : Bytes.lt a.2 b.2 with
      | false => rfl
      | true => exact absurd (Or.inr ⟨heq, h⟩) h1'
    cases h4 : Bytes.lt b.2 a.2 with
    | true => rfl
    | false => exact absurd (lt_total _ _ h3 h4) hne

/-! ### insertion -/

theorem mem_slInsert (x : Item) (m : Bytes) (s : F64) : ∀ (l : List Item),
    x ∈ slInsert l m s ↔ x = (s, m) ∨ x ∈ l := by
  intro l
  induction l with
  | nil => simp [slInsert]
  | cons n rest ih =>
    unfold slInsert
    split
    · simp only [List.mem_cons, ih]
      constructor
      · rintro (h | h | h)
        · exact Or.inr (Or.inl h)
        · exact Or.inl h
        · exact Or.inr (Or.inr h)
      · rintro (h | h | h)
        · exact Or.inr (Or.inl h)
        · exact Or.inl h
        · exact Or.inr (Or.inr h)
    · simp only [List.mem_cons]

theorem slInsert_pairwise (m : Bytes) (s : F64) (hg : Good (s, m)) : ∀ (l : List Item),
    l.Pairwise (fun a b => itemLt a b = true) → (∀ a ∈ l, Good a) → (∀ a ∈ l, a.2 ≠ m) →
    (slInsert l m s).Pairwise (fun a b => itemLt a b = true) := by
  intro l
  induction l with
  | nil => intro _ _ _; simp [slInsert]
  | cons n rest ih =>
    intro hpw hgood hne
    have hn : Good n := hgood n (by simp)
    obtain ⟨hn_lt, hrest⟩ := List.pairwise_cons.mp hpw
    unfold slInsert
    by_cases hlt : nodeLt n s m = true
    · rw [if_pos hlt]
      apply List.Pairwise.cons
      · intro b hb
        rcases (mem_slInsert b m s rest).mp hb with rfl | hb
        · exact hlt
        · exact hn_lt b hb
      · exact ih hrest (fun a ha => hgood a (by simp [ha])) (fun a ha => hne a (by simp [ha]))
    · rw [if_neg hlt]
      have hlt' : itemLt n (s, m) = false := by
        simpa [itemLt] using hlt
      have hxn : itemLt (s, m) n = true :=
        itemLt_total n (s, m) hn hg hlt' (hne n (by simp))
      apply List.Pairwise.cons
      · intro b hb
        rcases List.mem_cons.mp hb with rfl | hb
        · exact hxn
        · exact itemLt_trans _ _ _ hg hn (hgood b (by simp [hb])) hxn (hn_lt b hb)
      · exact hpw

def swap (p : Bytes × F64) : Item := (p.2, p.1)

theorem mem_insAll (x : Item) : ∀ (ms : AList F64) (sl : List Item),
    x ∈ insAll sl ms ↔ x ∈ sl ∨ x ∈ ms.map swap := by
  intro ms
  induction ms with
  | nil => intro sl; simp [insAll]
  | cons p ms ih =>
    intro sl
    have e : insAll sl (p :: ms) = insAll (slInsert sl p.1 p.2) ms := rfl
    rw [e, ih, mem_slInsert]
    simp only [List.map_cons, List.mem_cons, swap]
    constructor
    · rintro ((h | h) | h)
      · exact Or.inr (Or.inl h)
      · exact Or.inl h
      · exact Or.inr (Or.inr h)
    · rintro (h | h | h)
      · exact Or.inl (Or.inr h)
      · exact Or.inl (Or.inl h)
      · exact Or.inr h

theorem insAll_pairwise : ∀ (ms : AList F64) (sl : List Item),
    sl.Pairwise (fun a b => itemLt a b = true) → (∀ a ∈ sl, Good a) →
    (∀ p ∈ ms, F64.isNaN p.2 = false) → (∀ a ∈ sl, ∀ p ∈ ms, a.2 ≠ p.1) →
    ms.Pairwise KeyLt →
    (insAll sl ms).Pairwise (fun a b => itemLt a b = true) := by
  intro ms
  induction ms with
  | nil => intro sl h _ _ _ _; exact h
  | cons p ms ih =>
    intro sl hpw hgood hnan hdisj hkeys
    have e : insAll sl (p :: ms) = insAll (slInsert sl p.1 p.2) ms := rfl
    rw [e]
    have hgp : Good (p.2, p.1) := hnan p (by simp)
    obtain ⟨hp_lt, hms⟩ := List.pairwise_cons.mp hkeys
    apply ih
    · exact slInsert_pairwise p.1 p.2 hgp sl hpw hgood (fun a ha => hdisj a ha p (by simp))
    · intro a ha
      rcases (mem_slInsert a p.1 p.2 sl).mp ha with rfl | ha
      · exact hgp
      · exact hgood a ha
    · exact fun q hq => hnan q (by simp [hq])
    · intro a ha q hq
      rcases (mem_slInsert a p.1 p.2 sl).mp ha with rfl | ha
      · exact lt_ne _ _ (hp_lt q hq)
      · exact hdisj a ha q (by simp [hq])
    · exact hms

/-! ### sorted lists with the same elements are equal -/

theorem sorted_ext {α : Type} (r : α → α → Prop) : ∀ (l1 l2 : List α),
    (∀ a ∈ l1, ∀ b ∈ l1, r a b → r b a → False) →
    l1.Pairwise r → l2.Pairwise r → (∀ x, x ∈ l1 ↔ x ∈ l2) → l1 = l2 := by
  intro l1
  induction l1 with
  | nil =>
    intro l2 _ _ _ hm
    cases l2 with
    | nil => rfl
    | cons b t => exact absurd ((hm b).mpr (by simp)) (by simp)
  | cons a t1 ih =>
    intro l2 has h1 h2 hm
    cases l2 with
    | nil => exact absurd ((hm a).mp (by simp)) (by simp)
    | cons b t2 =>
      obtain ⟨ha_lt, ht1⟩ := List.pairwise_cons.mp h1
      obtain ⟨hb_lt, ht2⟩ := List.pairwise_cons.mp h2
      have hab : a = b := by
        have h3 : a ∈ b :: t2 := (hm a).mp (by simp)
        have h4 : b ∈ a :: t1 := (hm b).mpr (by simp)
        rcases List.mem_cons.mp h3 with h3 | h3
        · exact h3
        · rcases List.mem_cons.mp h4 with h4 | h4
          · exact h4.symm
          · exact absurd (hb_lt a h3) (fun hba =>
              has a (by simp) b (by simp [h4]) (ha_lt b h4) hba)
      subst hab
      have hirr : ∀ x ∈ a :: t1, ¬ r x x := fun x hx hr => has x hx x hx hr hr
      congr 1
      apply ih t2 (fun x hx y hy => has x (by simp [hx]) y (by simp [hy])) ht1 ht2
      intro x
      constructor
      · intro hx
        rcases List.mem_cons.mp ((hm x).mp (by simp [hx])) with rfl | h
        · exact absurd (ha_lt x hx) (hirr x (by simp))
        · exact h
      · intro hx
        rcases List.mem_cons.mp ((hm x).mpr (by simp [hx])) with rfl | h
        · exact absurd (hb_lt x hx) (hirr x (by simp))
        · exact h

theorem pigeon {α : Type} [DecidableEq α] : ∀ (l1 l2 : List α),
    l1.Nodup → (∀ x ∈ l1, x ∈ l2) → l2.length ≤ l1.length → ∀ x ∈ l2, x ∈ l1 := by
  intro l1
  induction l1 with
  | nil =>
    intro l2 _ _ hlen x hx
    have : l2 = [] := List.eq_nil_of_length_eq_zero (by simpa using hlen)
    rw [this] at hx
    exact hx
  | cons a t ih =>
    intro l2 hnd hsub hlen x hx
    obtain ⟨hat, hnt⟩ := List.nodup_cons.mp hnd
    have ha2 : a ∈ l2 := hsub a (by simp)
    have hlen' : (l2.erase a).length ≤ t.length := by
      rw [List.length_erase_of_mem ha2]
      simp only [List.length_cons] at hlen
      omega
    have hsub' : ∀ y ∈ t, y ∈ l2.erase a := by
      intro y hy
      have hne : y ≠ a := fun e => hat (e ▸ hy)
      exact (List.mem_erase_of_ne hne).mpr (hsub y (by simp [hy]))
    by_cases hxa : x = a
    · simp [hxa]
    · have : x ∈ l2.erase a := (List.mem_erase_of_ne hxa).mpr hx
      exact List.mem_cons_of_mem _ (ih (l2.erase a) hnt hsub' hlen' x this)

/-! ### the chain of a well-formed sorted set -/

theorem get?_some_mem {V : Type} (key : Bytes) (v : V) : ∀ (d : AList V),
    AList.get? d key = some v → (key, v) ∈ d := by
  intro d
  induction d with
  | nil => intro h; simp [AList.get?] at h
  | cons p rest ih =>
    intro h
    obtain ⟨k, w⟩ := p
    simp only [AList.get?] at h
    by_cases hk : k = key
    · simp only [hk, if_true, Option.some.injEq] at h
      simp [hk, h]
    · simp only [hk, if_false] at h
      exact List.mem_cons_of_mem _ (ih h)

theorem chain_pairwise : ∀ (l : List Item), chainSorted l → (∀ a ∈ l, Good a) →
    l.Pairwise (fun a b => itemLt a b = true) := by
  intro l
  induction l with
  | nil => intro _ _; exact List.Pairwise.nil
  | cons a rest ih =>
    intro h hg
    cases rest with
    | nil => simp
    | cons b rest =>
      simp only [chainSorted] at h
      obtain ⟨hab, hrest⟩ := h
      have hpw := ih hrest (fun x hx => hg x (by simp [hx]))
      apply List.Pairwise.cons _ hpw
      intro c hc
      rcases List.mem_cons.mp hc with rfl | hc
      · exact hab
      · exact itemLt_trans _ _ _ (hg a (by simp)) (hg b (by simp)) (hg c (by simp [hc])) hab
          ((List.pairwise_cons.mp hpw).1 c hc)

theorem insAll_eq_chain (z : ZSet) (h : z.WF) : insAll [] z.dict = z.sl := by
  have hdpw := sorted_pairwise z.dict h.dictSorted
  have hslin : ∀ a ∈ z.sl, a ∈ z.dict.map swap := by
    intro a ha
    obtain ⟨s, m⟩ := a
    have := get?_some_mem m s z.dict (h.agree m s ha)
    exact List.mem_map.mpr ⟨(m, s), this, rfl⟩
  have hslgood : ∀ a ∈ z.sl, Good a := by
    intro a ha
    obtain ⟨p, hp, rfl⟩ := List.mem_map.mp (hslin a ha)
    exact h.noNaN p.1 p.2 hp
  have hslpw := chain_pairwise z.sl h.chainSorted hslgood
  have hnd : z.sl.Nodup := by
    unfold List.Nodup
    refine List.Pairwise.imp_of_mem ?_ hslpw
    intro a b ha _ hab e
    subst e
    exact itemLt_irrefl a (hslgood a ha) hab
  have hdin : ∀ a ∈ z.dict.map swap, a ∈ z.sl :=
    pigeon z.sl (z.dict.map swap) hnd hslin (by simp [h.sameLen])
  have hRpw := insAll_pairwise z.dict [] List.Pairwise.nil (by simp)
    (fun p hp => h.noNaN p.1 p.2 hp) (by simp) hdpw
  have hmem : ∀ x, x ∈ insAll [] z.dict ↔ x ∈ z.sl := by
    intro x
    rw [mem_insAll]
    constructor
    · rintro (h0 | h1)
      · simp at h0
      · exact hdin x h1
    · intro hx
      exact Or.inr (hslin x hx)
  apply sorted_ext _ _ _ _ hRpw hslpw hmem
  intro a ha b hb hab hba
  exact itemLt_asymm a b (hslgood a ((hmem a).mp ha)) (hslgood b ((hmem b).mp hb)) hab hba

end NodisVerif.Proofs.ZSetLemmas
