import NodisVerif.Proofs.LinCorollaries
import NodisVerif.Proofs.LinSplit
/-
  Non-vacuity of the generic development: concrete interleavings, checked by evaluation.
-/
namespace NodisVerif.Lin.Examples
open NodisVerif.Lin

/-- two increments (ids 1, 2) and a read (id 3) on a counter that starts at 10; the three operations
    overlap: all are invoked before any replies, writer 2 asks for the lock after writer 1, the reader
    gets in between the two writers -/
def ex3 : List (Ev Bool Int) :=
  [.inv 1 false, .inv 2 false, .inv 3 true,
   .acq 1, .eff 1, .rel 1,
   .acq 3, .eff 3, .rel 3,
   .acq 2, .res 1 10, .eff 2, .res 3 11, .rel 2, .res 2 11]

theorem ex3_wf : WF counter 10 ex3 := by decide

/-- its linearization: the `eff` order 1, 3, 2 with the results 10, 11, 11; the counter ends at 12 -/
theorem ex3_lin : (run counter true { σ := 10 } ex3).map (fun c => (c.lin, c.σ)) =
    some ([(1, false, 10), (3, true, 11), (2, false, 11)], 12) := by decide

theorem ex3_effOrder : effOrder ex3 = [1, 3, 2] := by decide

theorem ex3_hist : hist ex3 =
    [.inv 1 false, .inv 2 false, .inv 3 true, .res 1 10, .res 3 11, .res 2 11] := by decide

example : Linearizable counter 10 (hist ex3) := wf_linearizable _ _ _ ex3_wf

/-- the lock discipline is checked: a second writer inside the interval of the first is rejected … -/
example : ¬ WF counter 10 [.inv 1 false, .inv 2 false, .acq 1, .acq 2] := by decide
/-- … so is a writer inside a reader's interval, and a reader inside a writer's … -/
example : ¬ WF counter 10 [.inv 1 false, .inv 3 true, .acq 3, .acq 1] := by decide
example : ¬ WF counter 10 [.inv 1 false, .inv 3 true, .acq 1, .acq 3] := by decide
/-- … two readers may overlap … -/
example : WF counter 10 [.inv 3 true, .inv 4 true, .acq 3, .acq 4, .eff 4, .eff 3, .rel 3, .rel 4,
    .res 4 10, .res 3 10] := by decide
/-- … a body outside the lock, a wrong result, a reply before the release are rejected -/
example : ¬ WF counter 10 [.inv 1 false, .eff 1] := by decide
example : ¬ WF counter 10 [.inv 1 false, .acq 1, .eff 1, .rel 1, .res 1 11] := by decide
example : ¬ WF counter 10 [.inv 1 false, .acq 1, .eff 1, .res 1 10] := by decide
/-- a retry (lock taken, given back, taken again) is accepted; the body runs once -/
example : WF counter 10 [.inv 1 false, .acq 1, .rel 1, .acq 1, .eff 1, .rel 1, .res 1 10] := by decide
example : ¬ WF counter 10 [.inv 1 false, .acq 1, .eff 1, .rel 1, .acq 1, .eff 1] := by decide

/-- pops: two overlapping pops on [7, 8, 9] get 7 and 8 -/
example : WF (popper Nat) [7, 8, 9] [.inv 1 (), .inv 2 (), .acq 2, .eff 2, .rel 2, .acq 1, .eff 1, .rel 1,
    .res 1 (some 8), .res 2 (some 7)] := by decide

/-! ## split bodies -/

/-- read and write-back at different moments, other operations' events in between -/
def exSplit : List (Split.Ev Bool Int) :=
  [.inv 1 false, .inv 2 false, .inv 3 true,
   .acq 1, .rd 1, .inv 4 true, .wr 1, .rel 1,
   .acq 3, .rd 3, .acq 4, .rd 4, .wr 3, .rel 3, .wr 4, .rel 4,
   .acq 2, .res 1 10, .rd 2, .res 3 11, .wr 2, .rel 2, .res 2 11, .res 4 11]

theorem exSplit_wf : Split.WF counter 10 exSplit := by decide

example : Linearizable counter 10 (Split.hist exSplit) := Split.split_bodies_linearizable _ _ _ exSplit_wf

/-- the classic lost update: both bodies read 0, both write 1 -/
def lostUpdate : List (Split.Ev Bool Int) :=
  [.inv 1 false, .inv 2 false, .acq 1, .acq 2, .rd 1, .rd 2, .wr 1, .wr 2, .rel 1, .rel 2, .res 1 0, .res 2 0]

/-- the lock discipline rejects it … -/
theorem lostUpdate_rejected : ¬ Split.WF counter 0 lostUpdate := by decide

/-- … without the lock checks it runs, both increments return 0 and the counter ends at 1 … -/
theorem lostUpdate_runs_unlocked :
    (Split.run counter false { core := { σ := 0 } } lostUpdate).map (fun c => c.core.σ) = some 1 := by decide

theorem counter_mono (s : Int) (l : SeqHist Bool Int) : s ≤ final counter s l := by
  induction l generalizing s with
  | nil => exact Int.le_refl _
  | cons y l ih =>
    have h2 : s ≤ (counter.apply s y.2.1).1 := by cases y.2.1 <;> simp [counter] <;> omega
    exact Int.le_trans h2 (ih _)

theorem counter_result_ge {s : Int} {l : SeqHist Bool Int} (hl : Legal counter s l)
    {x : Nat × Bool × Int} (hx : x ∈ l) : s ≤ x.2.2 := by
  induction l generalizing s with
  | nil => cases hx
  | cons y l ih =>
    rcases List.mem_cons.1 hx with rfl | hx'
    · have := hl.1
      cases h : x.2.1 <;> simp [counter, h] at this <;> omega
    · have := ih hl.2 hx'
      have h2 : s ≤ (counter.apply s y.2.1).1 := by cases y.2.1 <;> simp [counter] <;> omega
      omega

theorem final_append {State Op Ret : Type} {O : Obj State Op Ret} (s : State) (a b : SeqHist Op Ret) :
    final O s (a ++ b) = final O (final O s a) b := by
  induction a generalizing s with
  | nil => rfl
  | cons x a ih => exact ih _

/-- … and that history has no linearization: two increments from 0 cannot both return 0 -/
theorem lost_update_without_lock : ¬ Linearizable counter 0 (Split.hist lostUpdate) := by
  rintro ⟨lin, h⟩
  have hist_eq : Split.hist lostUpdate = [.inv 1 false, .inv 2 false, .res 1 0, .res 2 0] := by decide
  rw [hist_eq] at h
  obtain ⟨o1, m1⟩ := h.complete 1 0 (by simp)
  obtain ⟨o2, m2⟩ := h.complete 2 0 (by simp)
  have f1 : o1 = false := by have := h.invoked _ m1; simpa using this
  have f2 : o2 = false := by have := h.invoked _ m2; simpa using this
  subst f1; subst f2
  obtain ⟨p, q, e⟩ := List.append_of_mem m1
  have hleg := h.legal
  rw [e] at hleg m2
  obtain ⟨hhead, hq⟩ := legal_append hleg
  have hp0 : final counter 0 p = 0 := by simpa [counter] using hhead
  rcases List.mem_append.1 m2 with m2 | m2
  · obtain ⟨p1, p2, e2⟩ := List.append_of_mem m2
    rw [e2, final_append] at hp0
    have h1 := counter_mono 0 p1
    have h2 := counter_mono (final counter (final counter 0 p1) [(2, false, 0)]) p2
    have h3 : final counter (final counter 0 p1) [(2, false, 0)] = final counter 0 p1 + 1 := by
      simp [final, counter]
    have h4 : final counter (final counter 0 p1) ((2, false, 0) :: p2) =
        final counter (final counter (final counter 0 p1) [(2, false, 0)]) p2 := rfl
    omega
  · rcases List.mem_cons.1 m2 with m2 | m2
    · cases m2
    · have := counter_result_ge hq m2
      rw [hp0] at this
      simp [counter] at this

end NodisVerif.Lin.Examples
