import NodisVerif.Model.Proto
/-
  Locking protocol (Model/Proto.lean): association-list lemmas, the trace fold `runAll`, the shape of
  every step. Shared by Proofs/ProtoInv.lean, ProtoWait.lean, ProtoTrace.lean (C05, C06, C07).
-/
namespace NodisVerif.Proofs.Proto
open NodisVerif.Proto

deriving instance DecidableEq for Ev

/-! ## association lists -/

section AssocLemmas
variable {α β : Type} [BEq α] [LawfulBEq α] [DecidableEq α]
set_option linter.unusedSectionVars false

theorem assoc_nil (a : α) : assoc ([] : List (α × β)) a = none := rfl

theorem assoc_cons (p : α × β) (l : List (α × β)) (a : α) :
    assoc (p :: l) a = if p.1 = a then some p.2 else assoc l a := by
  unfold assoc
  by_cases h : p.1 = a
  · simp [h]
  · simp [h]

theorem assoc_erase (l : List (α × β)) (a a' : α) :
    assoc (erase l a) a' = if a' = a then none else assoc l a' := by
  induction l with
  | nil => simp [erase, assoc]
  | cons p l ih =>
    have e : erase (p :: l) a = if p.1 = a then erase l a else p :: erase l a := by
      by_cases h : p.1 = a <;> simp [erase, h]
    rw [e]
    by_cases h : p.1 = a
    · rw [if_pos h, ih, assoc_cons]
      by_cases h' : a' = a
      · simp [h']
      · have : ¬ p.1 = a' := by intro c; exact h' (c ▸ h)
        simp [h', this]
    · rw [if_neg h, assoc_cons, assoc_cons, ih]
      by_cases h' : a' = a
      · subst h'; simp [h]
      · simp [h']

theorem assoc_put (l : List (α × β)) (a : α) (b : β) (a' : α) :
    assoc (put l a b) a' = if a' = a then some b else assoc l a' := by
  unfold put
  rw [assoc_cons, assoc_erase]
  by_cases h : a' = a
  · simp [h]
  · have : ¬ a = a' := fun c => h c.symm
    simp [h, this]

theorem mem_of_assoc {l : List (α × β)} {a : α} {b : β} (h : assoc l a = some b) : (a, b) ∈ l := by
  unfold assoc at h
  cases hf : l.find? (·.1 == a) with
  | none => simp [hf] at h
  | some p =>
    rw [hf] at h
    have h1 := List.find?_some hf
    have h2 := List.mem_of_find?_eq_some hf
    simp at h h1
    cases p with
    | mk x y => simp at h h1; subst h; subst h1; exact h2

def NodupKeys (l : List (α × β)) : Prop := (l.map Prod.fst).Nodup

theorem assoc_of_mem {l : List (α × β)} (hn : NodupKeys l) {a : α} {b : β} (h : (a, b) ∈ l) :
    assoc l a = some b := by
  induction l with
  | nil => cases h
  | cons p l ih =>
    rw [assoc_cons]
    simp only [NodupKeys, List.map_cons, List.nodup_cons] at hn
    cases List.mem_cons.1 h with
    | inl e => subst e; simp
    | inr hm =>
      have : ¬ p.1 = a := by
        intro c; apply hn.1; rw [c]; exact List.mem_map.2 ⟨(a, b), hm, rfl⟩
      rw [if_neg this]; exact ih hn.2 hm

theorem mem_erase {l : List (α × β)} {a : α} {p : α × β} : p ∈ erase l a ↔ p ∈ l ∧ p.1 ≠ a := by
  simp [erase, List.mem_filter]

theorem nodupKeys_erase {l : List (α × β)} (hn : NodupKeys l) (a : α) : NodupKeys (erase l a) := by
  induction l with
  | nil => simpa [erase] using hn
  | cons p l ih =>
    simp only [NodupKeys, List.map_cons, List.nodup_cons] at hn
    have e : erase (p :: l) a = if p.1 = a then erase l a else p :: erase l a := by
      by_cases h : p.1 = a <;> simp [erase, h]
    rw [e]
    split
    · exact ih hn.2
    · simp only [NodupKeys, List.map_cons, List.nodup_cons]
      refine ⟨?_, ih hn.2⟩
      intro hm
      obtain ⟨q, hq, e⟩ := List.mem_map.1 hm
      exact hn.1 (List.mem_map.2 ⟨q, (mem_erase.1 hq).1, e⟩)

theorem nodupKeys_put {l : List (α × β)} (hn : NodupKeys l) (a : α) (b : β) : NodupKeys (put l a b) := by
  simp only [put, NodupKeys, List.map_cons, List.nodup_cons]
  refine ⟨?_, nodupKeys_erase hn a⟩
  intro hm
  obtain ⟨q, hq, e⟩ := List.mem_map.1 hm
  exact (mem_erase.1 hq).2 e

end AssocLemmas

/-! ## the trace fold -/

/-- run a trace from `s`: `some s'` iff every step is allowed -/
def runAll (s : PState) : List Ev → Option PState
  | [] => some s
  | e :: es => (step s e).bind fun s' => runAll s' es

theorem runAll_nil (s : PState) : runAll s [] = some s := rfl
theorem runAll_cons (s : PState) (e : Ev) (es : List Ev) :
    runAll s (e :: es) = (step s e).bind fun s' => runAll s' es := rfl

theorem runAll_append (s : PState) (a b : List Ev) :
    runAll s (a ++ b) = (runAll s a).bind fun s' => runAll s' b := by
  induction a generalizing s with
  | nil => simp [runAll]
  | cons e a ih =>
    simp only [List.cons_append, runAll_cons]
    cases step s e with
    | none => rfl
    | some s1 => simpa using ih s1

theorem runAll_append_some {s s' : PState} {a b : List Ev} (h : runAll s (a ++ b) = some s') :
    ∃ s1, runAll s a = some s1 ∧ runAll s1 b = some s' := by
  rw [runAll_append] at h
  cases h1 : runAll s a with
  | none => simp [h1] at h
  | some s1 => exact ⟨s1, rfl, by simpa [h1] using h⟩

theorem runAll_cons_some {s s' : PState} {e : Ev} {es : List Ev} (h : runAll s (e :: es) = some s') :
    ∃ s1, step s e = some s1 ∧ runAll s1 es = some s' := by
  rw [runAll_cons] at h
  cases h1 : step s e with
  | none => simp [h1] at h
  | some s1 => exact ⟨s1, rfl, by simpa [h1] using h⟩

theorem runAll_single (s : PState) (e : Ev) : runAll s [e] = step s e := by
  simp [runAll]

/-- `runAll` is the model's `run` without the error report -/
theorem run_ok_iff (s s' : PState) (es : List Ev) (i : Nat) :
    run s es i = .ok s' ↔ runAll s es = some s' := by
  induction es generalizing s i with
  | nil => simp [run, runAll]
  | cons e es ih =>
    simp only [run, runAll_cons]
    cases step s e with
    | none => simp
    | some s1 => simpa using ih s1 (i + 1)

/-- the states the protocol can reach from the empty store with no transaction -/
def Reachable (s : PState) : Prop := ∃ es, runAll {} es = some s

theorem Reachable.init : Reachable {} := ⟨[], rfl⟩

theorem Reachable.next {s s' : PState} {e : Ev} (h : Reachable s) (hs : step s e = some s') :
    Reachable s' := by
  obtain ⟨es, he⟩ := h
  exact ⟨es ++ [e], by rw [runAll_append, he]; simpa [runAll] using hs⟩

theorem Reachable.trace {s s' : PState} {es : List Ev} (h : Reachable s) (hs : runAll s es = some s') :
    Reachable s' := by
  obtain ⟨es0, he⟩ := h
  exact ⟨es0 ++ es, by rw [runAll_append, he]; simpa using hs⟩

/-- induction over the trace -/
theorem Reachable.induct {P : PState → Prop} (h0 : P {})
    (hstep : ∀ s e s', Reachable s → P s → step s e = some s' → P s') :
    ∀ s, Reachable s → P s := by
  intro s ⟨es, he⟩
  suffices ∀ (n : Nat) (es : List Ev) (s : PState), es.length = n → runAll {} es = some s → P s from
    this _ es s rfl he
  intro n
  induction n with
  | zero =>
    intro es s hl he
    have : es = [] := List.length_eq_zero_iff.1 hl
    subst this
    simp [runAll] at he; subst he; exact h0
  | succ n ih =>
    intro es s hl he
    have hne : es ≠ [] := by intro c; subst c; simp at hl
    obtain ⟨e, a, rfl⟩ : ∃ e a, es = a ++ [e] :=
      ⟨es.getLast hne, es.dropLast, (List.dropLast_concat_getLast hne).symm⟩
    obtain ⟨s1, h1, h2⟩ := runAll_append_some he
    rw [runAll_single] at h2
    have hl' : a.length = n := by simp at hl; omega
    exact hstep s1 e s ⟨a, h1⟩ (ih a s1 hl' h1) h2

/-! ## transactions and holds -/

theorem tx_setTx (s : PState) (t u : Tx) (st : TxSt) :
    (s.setTx t st).tx u = if u = t then some st else s.tx u := by
  simp [PState.setTx, PState.tx, assoc_put]

theorem tx_setTx_same (s : PState) (t : Tx) (st : TxSt) : (s.setTx t st).tx t = some st := by
  simp [tx_setTx]

theorem tx_setTx_ne (s : PState) {t u : Tx} (st : TxSt) (h : u ≠ t) : (s.setTx t st).tx u = s.tx u := by
  simp [tx_setTx, h]

@[simp] theorem setTx_index (s : PState) (t : Tx) (st : TxSt) : (s.setTx t st).index = s.index := rfl
@[simp] theorem setTx_pending (s : PState) (t : Tx) (st : TxSt) : (s.setTx t st).pending = s.pending := rfl
@[simp] theorem setTx_names (s : PState) (t : Tx) (st : TxSt) : (s.setTx t st).names = s.names := rfl
@[simp] theorem setTx_lookup (s : PState) (t : Tx) (st : TxSt) (k : Key) :
    (s.setTx t st).lookup k = s.lookup k := rfl

theorem mem_setHold {st : TxSt} {h g : Hold} :
    g ∈ (st.setHold h).holds ↔ g = h ∨ (g ∈ st.holds ∧ g.rid ≠ h.rid) := by
  simp [TxSt.setHold, List.mem_filter]

theorem mem_delHold {st : TxSt} {r : Rec} {g : Hold} :
    g ∈ (st.delHold r).holds ↔ g ∈ st.holds ∧ g.rid ≠ r := by
  simp [TxSt.delHold, List.mem_filter]

@[simp] theorem setHold_waiting (st : TxSt) (h : Hold) : (st.setHold h).waiting = st.waiting := rfl
@[simp] theorem setHold_committing (st : TxSt) (h : Hold) : (st.setHold h).committing = st.committing := rfl
@[simp] theorem delHold_waiting (st : TxSt) (r : Rec) : (st.delHold r).waiting = st.waiting := rfl
@[simp] theorem delHold_committing (st : TxSt) (r : Rec) : (st.delHold r).committing = st.committing := rfl

theorem holdOf_some {st : TxSt} {r : Rec} {h : Hold} (e : st.holdOf r = some h) :
    h ∈ st.holds ∧ h.rid = r := by
  unfold TxSt.holdOf at e
  have h1 := List.find?_some e
  exact ⟨List.mem_of_find?_eq_some e, by simpa using h1⟩

theorem holdOf_none {st : TxSt} {r : Rec} : st.holdOf r = none ↔ ∀ h ∈ st.holds, h.rid ≠ r := by
  simp [TxSt.holdOf, List.find?_eq_none]

/-- the holds of one transaction are on different records -/
def NodupRids (l : List Hold) : Prop := (l.map Hold.rid).Nodup

theorem holdOf_of_mem {st : TxSt} (hn : NodupRids st.holds) {h : Hold} (hm : h ∈ st.holds) :
    st.holdOf h.rid = some h := by
  unfold TxSt.holdOf
  generalize st.holds = l at hn hm
  induction l with
  | nil => cases hm
  | cons g l ih =>
    simp only [NodupRids, List.map_cons, List.nodup_cons] at hn
    rw [List.find?_cons]
    cases List.mem_cons.1 hm with
    | inl e => subst e; simp
    | inr hm' =>
      have : ¬ g.rid = h.rid := by
        intro c; apply hn.1; rw [c]; exact List.mem_map.2 ⟨h, hm', rfl⟩
      have hb : (g.rid == h.rid) = false := by simpa using this
      simp only [hb]
      exact ih hn.2 hm'

theorem nodupRids_filter {l : List Hold} (hn : NodupRids l) (p : Hold → Bool) : NodupRids (l.filter p) := by
  unfold NodupRids at *
  induction l with
  | nil => simp
  | cons g l ih =>
    simp only [List.map_cons, List.nodup_cons] at hn
    rw [List.filter_cons]
    split
    · simp only [List.map_cons, List.nodup_cons]
      refine ⟨?_, ih hn.2⟩
      intro hm
      obtain ⟨q, hq, e⟩ := List.mem_map.1 hm
      exact hn.1 (List.mem_map.2 ⟨q, (List.mem_filter.1 hq).1, e⟩)
    · exact ih hn.2

theorem nodupRids_setHold {st : TxSt} (hn : NodupRids st.holds) (h : Hold) :
    NodupRids (st.setHold h).holds := by
  simp only [TxSt.setHold, NodupRids, List.map_cons, List.nodup_cons]
  refine ⟨?_, nodupRids_filter hn _⟩
  intro hm
  obtain ⟨q, hq, e⟩ := List.mem_map.1 hm
  have := (List.mem_filter.1 hq).2
  simp [e] at this

theorem nodupRids_delHold {st : TxSt} (hn : NodupRids st.holds) (r : Rec) :
    NodupRids (st.delHold r).holds := nodupRids_filter hn _

/-- transaction `t` is active and `h` is one of its record locks -/
def Holds (s : PState) (t : Tx) (h : Hold) : Prop := ∃ st, s.tx t = some st ∧ h ∈ st.holds

theorem mem_allHolds_of_holds {s : PState} {t : Tx} {h : Hold} (hh : Holds s t h) : (t, h) ∈ s.allHolds := by
  obtain ⟨st, h1, h2⟩ := hh
  unfold PState.allHolds
  rw [List.mem_flatMap]
  exact ⟨(t, st), mem_of_assoc h1, List.mem_map.2 ⟨h, h2, rfl⟩⟩

theorem holds_of_mem_allHolds {s : PState} (hn : NodupKeys s.txs) {t : Tx} {h : Hold}
    (hm : (t, h) ∈ s.allHolds) : Holds s t h := by
  unfold PState.allHolds at hm
  rw [List.mem_flatMap] at hm
  obtain ⟨⟨u, st⟩, h1, h2⟩ := hm
  obtain ⟨g, h3, h4⟩ := List.mem_map.1 h2
  simp at h4
  obtain ⟨rfl, rfl⟩ := h4
  exact ⟨st, assoc_of_mem hn h1, h3⟩

theorem mem_heldBy {s : PState} {r : Rec} {p : Tx × Hold} : p ∈ s.heldBy r ↔ p ∈ s.allHolds ∧ p.2.rid = r := by
  simp [PState.heldBy, List.mem_filter]

/-- a free write lock: nobody holds the record -/
theorem free_w_holds {s : PState} {r : Rec} (hf : s.free r .w = true) {t : Tx} {h : Hold}
    (hh : Holds s t h) : h.rid ≠ r := by
  intro e
  have : (t, h) ∈ s.heldBy r := mem_heldBy.2 ⟨mem_allHolds_of_holds hh, e⟩
  simp only [PState.free, List.isEmpty_iff] at hf
  rw [hf] at this; cases this

/-- a free read lock: the record is only read-held -/
theorem free_r_holds {s : PState} {r : Rec} (hf : s.free r .r = true) {t : Tx} {h : Hold}
    (hh : Holds s t h) (e : h.rid = r) : h.mode = .r := by
  have hm : (t, h) ∈ s.heldBy r := mem_heldBy.2 ⟨mem_allHolds_of_holds hh, e⟩
  simp only [PState.free, List.all_eq_true] at hf
  simpa using hf _ hm

/-- a record lock that is not free has a holder in a conflicting mode -/
theorem not_free_holder {s : PState} (hn : NodupKeys s.txs) {r : Rec} {m : Mode} (hf : s.free r m = false) :
    ∃ u h, Holds s u h ∧ h.rid = r ∧ (m = .w ∨ h.mode = .w) := by
  cases m with
  | w =>
    simp only [PState.free] at hf
    cases hl : s.heldBy r with
    | nil => simp [hl] at hf
    | cons p l =>
      have hm : p ∈ s.heldBy r := by rw [hl]; exact List.mem_cons_self
      obtain ⟨h1, h2⟩ := mem_heldBy.1 hm
      exact ⟨p.1, p.2, holds_of_mem_allHolds hn h1, h2, Or.inl rfl⟩
  | r =>
    simp only [PState.free] at hf
    have : ¬ ((s.heldBy r).all (·.2.mode == .r)) = true := by simp [hf]
    rw [List.all_eq_true] at this
    have ⟨p, hp, hq⟩ : ∃ p, p ∈ s.heldBy r ∧ ¬ (p.2.mode == Mode.r) = true := by
      apply Classical.byContradiction
      intro c
      apply this
      intro p hp
      apply Classical.byContradiction
      intro c'
      exact c ⟨p, hp, c'⟩
    obtain ⟨h1, h2⟩ := mem_heldBy.1 hp
    refine ⟨p.1, p.2, holds_of_mem_allHolds hn h1, h2, Or.inr ?_⟩
    cases hmode : p.2.mode with
    | r => simp [hmode] at hq
    | w => rfl

/-- the transaction an event belongs to (`clear` belongs to none) -/
def evTx : Ev → Option Tx
  | .begin t | .look t _ _ | .claim t _ _ _ | .wait t _ _ _ | .lock t _ _ _ | .valid t _ _ _
  | .publish t _ _ | .unlink t _ _ | .commit t | .trylock t _ _ | .drop t _ _ | .unlock t _ | .fin t => some t
  | .clear => none

end NodisVerif.Proofs.Proto
