import NodisVerif.Model.DsHashSet
import NodisVerif.Model.DsZSet
import NodisVerif.Spec.Scan
import NodisVerif.Proofs.C19Iter
/-
  C19 helpers, part 2: the positional scan of hashes / sets / sorted sets (`DsHash.posScan`)
  composed with the handler's cursor reply (`Spec.Scan.scanReply`).
-/
namespace NodisVerif.Proofs.C19Pos
open NodisVerif.Spec.Scan NodisVerif.Proofs.C19Iter

variable {α : Type}

/-- what one SSCAN / HSCAN / ZSCAN command replies: (cursor, batch) -/
def hstep (name : α → Bytes) (xs : List α) (pat : Bytes) (count : Int) (c : Int) : Int × List α :=
  let r := DsHash.posScan name xs c pat count
  (scanReply r.1 xs.length, r.2)

/-- number of calls of a full iteration over `n` elements with COUNT `count` -/
def callsNeeded (n : Nat) (count : Int) : Nat :=
  if count > 0 ∧ n > 0 then (n + count.toNat - 1) / count.toNat else 1

theorem callsNeeded_le (n : Nat) (count : Int) : callsNeeded n count ≤ n + 1 := by
  unfold callsNeeded
  split
  · rename_i h
    have hk : 0 < count.toNat := by omega
    generalize count.toNat = k at hk
    have : (n + k - 1) / k ≤ n := by
      apply Nat.div_le_of_le_mul
      have : n * 1 ≤ k * n := by rw [Nat.mul_comm k n]; exact Nat.mul_le_mul_left n hk
      have : 1 ≤ n := h.2
      have : k * 1 ≤ k * n := Nat.mul_le_mul_left k h.2
      -- n + k - 1 ≤ k * n  ⇐  (k-1)(n-1) ≥ 0
      obtain ⟨k', rfl⟩ : ∃ k', k = k' + 1 := ⟨k - 1, by omega⟩
      obtain ⟨n', rfl⟩ : ∃ n', n = n' + 1 := ⟨n - 1, by omega⟩
      have : (k' + 1) * (n' + 1) = k' * n' + k' + n' + 1 := by
        simp [Nat.add_mul, Nat.mul_add]; omega
      omega
    omega
  · omega

/-- ⌈n / k⌉ · k ≥ n, (⌈n / k⌉ − 1) · k < n : `callsNeeded` is the ceiling of n / count -/
theorem callsNeeded_ceil (n : Nat) (count : Int) (hc : count > 0) (hn : n > 0) :
    n ≤ callsNeeded n count * count.toNat ∧ (callsNeeded n count - 1) * count.toNat < n := by
  unfold callsNeeded
  rw [if_pos ⟨hc, hn⟩]
  have hk : 0 < count.toNat := by omega
  generalize count.toNat = k at hk
  have h1 := Nat.div_add_mod (n + k - 1) k
  have h2 := Nat.mod_lt (n + k - 1) hk
  generalize (n + k - 1) / k = q at h1
  generalize (n + k - 1) % k = r at h1 h2
  rw [Nat.mul_comm] at h1
  constructor
  · omega
  · obtain ⟨q', rfl⟩ | rfl : (∃ q', q = q' + 1) ∨ q = 0 := by
      cases q with | zero => right; rfl | succ q' => left; exact ⟨q', rfl⟩
    · simp only [Nat.add_sub_cancel]
      rw [Nat.add_mul] at h1
      omega
    · simp; omega

theorem posScan_nat (name : α → Bytes) (xs : List α) (p : Nat) (pat : Bytes) (count : Int) (hp : p ≤ xs.length) :
    DsHash.posScan name xs (p : Int) pat count =
      (((p + (if count > 0 then (xs.drop p).take count.toNat else xs.drop p).length : Nat) : Int),
       (if count > 0 then (xs.drop p).take count.toNat else xs.drop p).filter fun x => Glob.matched pat (name x)) := by
  unfold DsHash.posScan
  have h1 : ¬ ((p : Int) < 0) := by omega
  simp only [h1, if_false, Int.toNat_natCast]
  rw [Nat.min_eq_left hp]

/-- count ≤ 0 (or an empty collection): one call returns everything -/
theorem hstep_all (name : α → Bytes) (xs : List α) (pat : Bytes) (count : Int) (h : count ≤ 0 ∨ xs = []) :
    hstep name xs pat count 0 = (0, xs.filter fun x => Glob.matched pat (name x)) := by
  unfold hstep
  have := posScan_nat name xs 0 pat count (Nat.zero_le _)
  simp only [Int.natCast_zero] at this
  rw [this]
  rcases h with h | h
  · have : ¬ count > 0 := by omega
    simp [this, scanReply]
  · subst h; simp [scanReply]

/-- one call at position `p` with COUNT k > 0 -/
theorem hstep_pos (name : α → Bytes) (xs : List α) (pat : Bytes) (count : Int) (hc : count > 0)
    (p : Nat) (hp : p ≤ xs.length) :
    hstep name xs pat count (p : Int) =
      ((if xs.length ≤ p + count.toNat then 0 else ((p + count.toNat : Nat) : Int)),
       ((xs.drop p).take count.toNat).filter fun x => Glob.matched pat (name x)) := by
  unfold hstep
  rw [posScan_nat name xs p pat count hp]
  simp only [hc, if_true, List.length_take, List.length_drop]
  congr 1
  unfold scanReply
  by_cases hlast : xs.length ≤ p + count.toNat
  · rw [if_pos hlast, if_pos]; omega
  · rw [if_neg hlast, if_neg (by omega)]
    congr 1; omega

/-- the iteration from position `p < n` with COUNT k > 0 -/
theorem iter_pos (name : α → Bytes) (xs : List α) (pat : Bytes) (count : Int) (hc : count > 0) :
    ∀ (fuel p : Nat), p < xs.length → xs.length - p ≤ fuel * count.toNat →
      (iterateFrom (fun (_ : Unit) c => ((), hstep name xs pat count c)) fuel () (p : Int)).2 = true ∧
      (iterateFrom (fun (_ : Unit) c => ((), hstep name xs pat count c)) fuel () (p : Int)).1.flatten
        = (xs.drop p).filter (fun x => Glob.matched pat (name x)) ∧
      (iterateFrom (fun (_ : Unit) c => ((), hstep name xs pat count c)) fuel () (p : Int)).1.length
        = (xs.length - p + count.toNat - 1) / count.toNat := by
  have hk : 0 < count.toNat := by omega
  intro fuel
  induction fuel with
  | zero => intro p hp hf; simp at hf; omega
  | succ f ih =>
    intro p hp hf
    rw [iterateFrom_succ]
    simp only [hstep_pos name xs pat count hc p (by omega)]
    generalize hK : count.toNat = k at hk hf ih
    by_cases hlast : xs.length ≤ p + k
    · -- last call
      simp only [hlast, if_true, List.flatten_cons, List.flatten_nil, List.append_nil, List.length_singleton, true_and]
      constructor
      · rw [List.take_of_length_le (by simp; omega)]
      · symm
        apply Nat.div_eq_of_lt_le <;> simp <;> omega
    · have hne : ¬ (((p + k : Nat) : Int) = 0) := by omega
      simp only [hlast, hne, if_false]
      have hf' : xs.length - (p + k) ≤ f * k := by
        rw [Nat.add_mul] at hf; omega
      obtain ⟨h1, h2, h3⟩ := ih (p + k) (by omega) hf'
      refine ⟨h1, ?_, ?_⟩
      · simp only [List.flatten_cons]
        rw [h2, ← List.filter_append]
        congr 1
        rw [← List.drop_drop]
        exact List.take_append_drop k (xs.drop p)
      · simp only [List.length_cons]
        rw [h3]
        have : xs.length - p + k - 1 = (xs.length - (p + k) + k - 1) + k := by omega
        rw [this, Nat.add_div_right _ hk]

/-- the full iteration of the handler-level step over any list -/
theorem posScan_full (name : α → Bytes) (xs : List α) (pat : Bytes) (count : Int) :
    FullIteration (iterate (hstep name xs pat count)) (callsNeeded xs.length count)
      (xs.filter fun x => Glob.matched pat (name x)) := by
  intro fuel hfuel
  unfold iterate iterateS terminated calls visited
  by_cases h : count > 0 ∧ xs.length > 0
  · obtain ⟨hc, hn⟩ := h
    have hceil := (callsNeeded_ceil xs.length count hc hn).1
    have hk : 0 < count.toNat := by omega
    have := iter_pos name xs pat count hc fuel 0 hn (by
      have : callsNeeded xs.length count * count.toNat ≤ fuel * count.toNat := Nat.mul_le_mul_right _ hfuel
      omega)
    simp only [Int.natCast_zero, List.drop_zero, Nat.sub_zero] at this
    obtain ⟨h1, h2, h3⟩ := this
    refine ⟨h1, ?_, h2⟩
    rw [h3]; unfold callsNeeded; rw [if_pos ⟨hc, hn⟩]
  · have h' : count ≤ 0 ∨ xs = [] := by
      by_cases hc : count > 0
      · right; have : ¬ xs.length > 0 := fun hn => h ⟨hc, hn⟩
        exact List.eq_nil_of_length_eq_zero (by omega)
      · left; omega
    have hcn : callsNeeded xs.length count = 1 := by unfold callsNeeded; rw [if_neg h]
    rw [hcn] at hfuel ⊢
    obtain ⟨g, rfl⟩ : ∃ g, fuel = g + 1 := ⟨fuel - 1, by omega⟩
    rw [iterateFrom_succ]
    simp only [hstep_all name xs pat count h']
    simp

end NodisVerif.Proofs.C19Pos
