import NodisVerif.Proofs.LinkedListPush
/-
  LPop / RPop on the pointer structure refine DsList.lpop / DsList.rpop.
-/
namespace NodisVerif.LinkedList

theorem InvC.first {l : PList} {x : Nat} {rest : List Nat} (hi : InvC l (x :: rest)) :
    ∃ n, l.heap[x]? = some n := by
  obtain ⟨n, hx, _⟩ := hi.seg; exact ⟨n, hx⟩

/-- one iteration of LPop's loop body after `result = append(…)`: the list without its first node -/
theorem lpop_step (l : PList) (x : Nat) (rest : List Nat) (hi : InvC l (x :: rest)) (n : Node)
    (hx : l.heap[x]? = some n) :
    ∃ l1, InvC l1 rest ∧ SameData l l1 ∧
      ((n.next = none ∧ l1 = { l with head := none, tail := none, length := l.length - 1 }) ∨
       (∃ h2 heap, n.next = some h2 ∧ setPrev l.heap h2 none = .ok heap ∧
          l1 = { l with heap, head := some h2, length := l.length - 1 })) := by
  obtain ⟨n', hx', _, hnx, srest⟩ := hi.seg
  have : n' = n := by rw [hx] at hx'; cases hx'; rfl
  subst this
  have hnd := List.nodup_cons.mp hi.nodup
  cases rest with
  | nil =>
    simp only [hd_nil] at hnx
    refine ⟨{ l with head := none, tail := none, length := l.length - 1 },
      ⟨List.nodup_nil, trivial, rfl, rfl, ?_⟩, ⟨rfl, fun _ => rfl⟩, Or.inl ⟨hnx, rfl⟩⟩
    simp only; rw [hi.length]; simp
  | cons r rest' =>
    simp only [hd_cons] at hnx
    have ⟨nr, hr, _⟩ := srest
    have hrr : r ∉ rest' := (List.nodup_cons.mp hnd.2).1
    refine ⟨{ l with heap := l.heap.setIfInBounds r { nr with prev := none }, head := some r, length := l.length - 1 },
      ⟨hnd.2, ?_, rfl, ?_, ?_⟩, ⟨by simp, fun i => dataAt_set_prev _ _ _ _ hr i⟩,
      Or.inr ⟨r, _, hnx, setPrev_ok hr _, rfl⟩⟩
    · exact seg_setPrev_first _ rest' r _ none none nr hrr hr srest
    · simp only; rw [hi.tail, List.getLast?_cons_cons]
    · simp only; rw [hi.length]; simp

theorem lpopLoop_spec (fuel : Nat) (l : PList) (c : List Nat) (hi : InvC l c) (i count : Int)
    (result : Option (List Bytes)) (hf : c.length < fuel) :
    ∃ l', lpopLoop fuel l i count result =
        .ok (l', if min (count - i).toNat c.length = 0 then result
                 else some (result.getD [] ++ (c.take (min (count - i).toNat c.length)).map (dataAt l.heap))) ∧
      InvC l' (c.drop (min (count - i).toNat c.length)) ∧ SameData l l' := by
  induction fuel generalizing l c i result with
  | zero => omega
  | succ fuel ih =>
    unfold lpopLoop
    by_cases hlt : i < count
    · simp only [hlt, not_true_eq_false, ↓reduceIte]
      cases c with
      | nil =>
        have hh : l.head = none := hi.head
        simp only [hh]
        exact ⟨l, by simp, by simpa using hi, SameData.refl _⟩
      | cons x rest =>
        have hh : l.head = some x := hi.head
        obtain ⟨n, hx⟩ := hi.first
        simp only [hh, rd_ok hx, Res.bind_ok]
        obtain ⟨l1, hi1, sd1, hcase⟩ := lpop_step l x rest hi n hx
        have hk : min (count - i).toNat (x :: rest).length = min (count - (i + 1)).toNat rest.length + 1 := by
          simp only [List.length_cons]; omega
        have key : ∃ l', lpopLoop fuel l1 (i + 1) count (some (result.getD [] ++ [n.data])) =
            .ok (l', if min (count - i).toNat (x :: rest).length = 0 then result
                 else some (result.getD [] ++ ((x :: rest).take (min (count - i).toNat (x :: rest).length)).map (dataAt l.heap))) ∧
            InvC l' ((x :: rest).drop (min (count - i).toNat (x :: rest).length)) ∧ SameData l l' := by
          obtain ⟨l2, e2, hi2, sd2⟩ := ih l1 rest hi1 (i + 1) (some (result.getD [] ++ [n.data])) (by simpa using hf)
          refine ⟨l2, ?_, ?_, sd1.trans sd2⟩
          · rw [e2, hk]
            simp only [Nat.add_one_ne_zero, ↓reduceIte, List.take_succ_cons, List.map_cons, Option.getD_some,
              dataAt_of hx]
            rw [map_dataAt_congr _ _ _ (fun i _ => sd1.data i)]
            split <;> simp_all
          · rw [hk]; simpa using hi2
        rcases hcase with ⟨hnn, rfl⟩ | ⟨h2, heap, hnn, hset, rfl⟩
        · simp only [hnn]; exact key
        · simp only [hnn, hset, Res.bind_ok]; exact key
    · have hk : (count - i).toNat = 0 := by omega
      simp only [hlt, not_false_eq_true, ↓reduceIte, hk, Nat.zero_min, List.drop_zero]
      exact ⟨l, rfl, hi, SameData.refl _⟩

theorem lpop_refines (l : PList) (c : List Nat) (hi : InvC l c) (count : Int) :
    ∃ l' c', lpop l count = .ok (l', (DsList.lpop (absL l) count).2) ∧ InvC l' c' ∧
      absL l' = (DsList.lpop (absL l) count).1 ∧ l'.heap.size = l.heap.size := by
  unfold lpop
  cases c with
  | nil =>
    have hh : l.head = none := hi.head
    simp only [hh]
    refine ⟨l, [], ?_, hi, ?_, rfl⟩ <;> simp [DsList.lpop, absL_eq hi]
  | cons x rest =>
    have hh : l.head = some x := hi.head
    simp only [hh]
    obtain ⟨l', e, hi', sd⟩ := lpopLoop_spec (l.heap.size + 1) l _ hi 0 count none
      (by have := hi.length_le; omega)
    refine ⟨l', _, ?_, hi', ?_, sd.size⟩
    · rw [e]
      simp only [DsList.lpop, absL_eq hi, Int.sub_zero, List.length_map]
      simp only [List.map_cons, List.isEmpty_cons, Bool.false_eq_true, ↓reduceIte]
      split
      · rfl
      · simp [List.map_take]
    · rw [absL_eq hi']
      simp only [DsList.lpop, absL_eq hi, Int.sub_zero, List.length_map]
      simp only [List.map_cons, List.isEmpty_cons, Bool.false_eq_true, ↓reduceIte]
      rw [map_dataAt_congr _ _ _ (fun i _ => sd.data i)]
      split
      · rename_i h0; rw [h0]; simp
      · simp only [List.map_drop, List.map_cons, List.length_drop, List.length_cons]
        congr 1
        omega

/-! ### RPop -/

theorem InvC.last {l : PList} {x : Nat} {a : List Nat} (hi : InvC l (a ++ [x])) :
    ∃ n, l.heap[x]? = some n := by
  obtain ⟨n, hx, _⟩ := seg_mid _ a [] x none none hi.seg; exact ⟨n, hx⟩

theorem rpop_step (l : PList) (x : Nat) (a : List Nat) (hi : InvC l (a ++ [x])) (n : Node)
    (hx : l.heap[x]? = some n) :
    ∃ l1, InvC l1 a ∧ SameData l l1 ∧
      ((n.prev = none ∧ l1 = { l with head := none, tail := none, length := l.length - 1 }) ∨
       (∃ t2 heap, n.prev = some t2 ∧ setNext l.heap t2 none = .ok heap ∧
          l1 = { l with heap, tail := some t2, length := l.length - 1 })) := by
  obtain ⟨n', hx', hpv, _⟩ := seg_mid _ a [] x none none hi.seg
  have : n' = n := by rw [hx] at hx'; cases hx'; rfl
  subst this
  have hseg := hi.seg
  rw [seg_append] at hseg
  have sa := hseg.1
  simp only [hd_cons] at sa
  have hnd := hi.nodup
  rw [List.nodup_append] at hnd
  rcases List.eq_nil_or_concat a with rfl | ⟨a', t, rfl⟩
  · simp only [lst_nil] at hpv
    refine ⟨{ l with head := none, tail := none, length := l.length - 1 },
      ⟨List.nodup_nil, trivial, rfl, rfl, ?_⟩, ⟨rfl, fun _ => rfl⟩, Or.inl ⟨hpv, rfl⟩⟩
    simp only; rw [hi.length]; simp
  · rw [List.concat_eq_append] at *
    simp only [lst_concat] at hpv
    obtain ⟨nt, ht, _, _⟩ := seg_mid _ a' [] t none (some x) sa
    have hta : t ∉ a' := by
      have := hnd.1; rw [List.nodup_append] at this
      intro hm; exact this.2.2 t hm t (by simp) rfl
    refine ⟨{ l with heap := l.heap.setIfInBounds t { nt with next := none }, tail := some t, length := l.length - 1 },
      ⟨hnd.1, ?_, ?_, ?_, ?_⟩, ⟨by simp, fun i => dataAt_set_next _ _ _ _ ht i⟩,
      Or.inr ⟨t, _, hpv, setNext_ok ht _, rfl⟩⟩
    · exact seg_setNext_last _ a' t none _ none nt hta ht sa
    · simp only; rw [hi.head]; cases a' <;> simp
    · simp
    · simp only; rw [hi.length]; simp; omega

theorem rpopLoop_spec (fuel : Nat) (l : PList) (c : List Nat) (hi : InvC l c) (i count : Int)
    (result : Option (List Bytes)) (hf : c.length < fuel) :
    ∃ l', rpopLoop fuel l i count result =
        .ok (l', if min (count - i).toNat c.length = 0 then result
                 else some (result.getD [] ++
                   ((c.drop (c.length - min (count - i).toNat c.length)).reverse).map (dataAt l.heap))) ∧
      InvC l' (c.take (c.length - min (count - i).toNat c.length)) ∧ SameData l l' := by
  induction fuel generalizing l c i result with
  | zero => omega
  | succ fuel ih =>
    unfold rpopLoop
    by_cases hlt : i < count
    · simp only [hlt, not_true_eq_false, ↓reduceIte]
      rcases List.eq_nil_or_concat c with rfl | ⟨a, x, rfl⟩
      · have hh : l.tail = none := hi.tail
        simp only [hh]
        exact ⟨l, by simp, by simpa using hi, SameData.refl _⟩
      · rw [List.concat_eq_append] at *
        have hh : l.tail = some x := by rw [hi.tail]; simp
        obtain ⟨n, hx⟩ := hi.last
        simp only [hh, rd_ok hx, Res.bind_ok]
        obtain ⟨l1, hi1, sd1, hcase⟩ := rpop_step l x a hi n hx
        have hk : min (count - i).toNat (a ++ [x]).length = min (count - (i + 1)).toNat a.length + 1 := by
          simp only [List.length_append, List.length_cons, List.length_nil]; omega
        have key : ∃ l', rpopLoop fuel l1 (i + 1) count (some (result.getD [] ++ [n.data])) =
            .ok (l', if min (count - i).toNat (a ++ [x]).length = 0 then result
                 else some (result.getD [] ++ (((a ++ [x]).drop ((a ++ [x]).length -
                    min (count - i).toNat (a ++ [x]).length)).reverse).map (dataAt l.heap))) ∧
            InvC l' ((a ++ [x]).take ((a ++ [x]).length - min (count - i).toNat (a ++ [x]).length)) ∧
            SameData l l' := by
          obtain ⟨l2, e2, hi2, sd2⟩ := ih l1 a hi1 (i + 1) (some (result.getD [] ++ [n.data]))
            (by simp at hf; omega)
          have hm : (a ++ [x]).length - (min (count - (i + 1)).toNat a.length + 1) =
              a.length - min (count - (i + 1)).toNat a.length := by simp
          have hle : a.length - min (count - (i + 1)).toNat a.length ≤ a.length := by omega
          refine ⟨l2, ?_, ?_, sd1.trans sd2⟩
          · rw [e2, hk, hm, List.drop_append_of_le_length hle]
            simp only [Nat.add_one_ne_zero, ↓reduceIte, List.reverse_append, List.reverse_cons, List.reverse_nil,
              List.nil_append, List.cons_append, List.map_cons, Option.getD_some, dataAt_of hx]
            rw [map_dataAt_congr _ _ _ (fun i _ => sd1.data i)]
            split
            · rename_i h0; rw [h0]; simp
            · simp
          · rw [hk, hm, List.take_append_of_le_length hle]; exact hi2
        rcases hcase with ⟨hnn, rfl⟩ | ⟨h2, heap, hnn, hset, rfl⟩
        · simp only [hnn]; exact key
        · simp only [hnn, hset, Res.bind_ok]; exact key
    · have hk : (count - i).toNat = 0 := by omega
      simp only [hlt, not_false_eq_true, ↓reduceIte, hk, Nat.zero_min, Nat.sub_zero, List.take_length]
      exact ⟨l, rfl, hi, SameData.refl _⟩

theorem rpop_refines (l : PList) (c : List Nat) (hi : InvC l c) (count : Int) :
    ∃ l' c', rpop l count = .ok (l', (DsList.rpop (absL l) count).2) ∧ InvC l' c' ∧
      absL l' = (DsList.rpop (absL l) count).1 ∧ l'.heap.size = l.heap.size := by
  unfold rpop
  cases c with
  | nil =>
    have hh : l.tail = none := hi.tail
    simp only [hh]
    refine ⟨l, [], ?_, hi, ?_, rfl⟩ <;> simp [DsList.rpop, absL_eq hi]
  | cons x rest =>
    have hh : ∃ t, l.tail = some t := by
      rw [hi.tail]
      cases hl : (x :: rest).getLast? with
      | none => simp at hl
      | some t => exact ⟨t, rfl⟩
    obtain ⟨t, ht⟩ := hh
    simp only [ht]
    obtain ⟨l', e, hi', sd⟩ := rpopLoop_spec (l.heap.size + 1) l _ hi 0 count none
      (by have := hi.length_le; omega)
    refine ⟨l', _, ?_, hi', ?_, sd.size⟩
    · rw [e]
      simp only [DsList.rpop, absL_eq hi, Int.sub_zero, List.length_map]
      simp only [List.map_cons, List.isEmpty_cons, Bool.false_eq_true, ↓reduceIte]
      split
      · rfl
      · simp [List.map_drop, List.map_reverse]
    · rw [absL_eq hi']
      simp only [DsList.rpop, absL_eq hi, Int.sub_zero, List.length_map]
      simp only [List.map_cons, List.isEmpty_cons, Bool.false_eq_true, ↓reduceIte]
      rw [map_dataAt_congr _ _ _ (fun i _ => sd.data i)]
      split
      · rename_i h0; rw [h0]; simp
      · simp only [List.map_take, List.map_cons, List.length_take, List.length_cons]
        congr 1
        omega

end NodisVerif.LinkedList
