import NodisVerif.Proofs.C13Key
/-
  C13, part 1: the persistence steps of the store as sequences of atomic backend calls.

  Every `storage.Set` / `storage.Delete` of the Pebble backend is one synchronous (`pebble.Sync`),
  atomic call; a kill of the process keeps exactly the calls that have returned (plus possibly the
  one in flight).  `persistCalls`, `unpersistCalls`, `flushCalls`, `gcCalls` list the calls that
  `metadata.persist`, `metadata.unpersist`, `store.flush`, `store.gc` issue, in order, and the
  `*_eq_calls` theorems tie them to the model functions (no failing write).  A crash during a step
  is then: the backend after an arbitrary prefix (`List.take n`) of its call list.
-/
namespace NodisVerif.C13
open NodisVerif NodisVerif.Store

/-- one backend call -/
inductive DiskCall
  | set (name : Bytes) (deadline : Int) (ent : DiskEntry)   -- storage.Set(key{name,deadline}, value)
  | del (name : Bytes) (deadline : Int)                     -- storage.Delete(key{name,deadline})
deriving Repr, Inhabited

namespace DiskCall
def name : DiskCall → Bytes
  | .set n _ _ => n
  | .del n _ => n
def deadline : DiskCall → Int
  | .set _ d _ => d
  | .del _ d => d
/-- the entry a `set` call carries -/
def entry? : DiskCall → Option DiskEntry
  | .set _ _ e => some e
  | .del _ _ => none
/-- the call carries the entry exactly as the backend will hold it: addressed by its own name and
    deadline, and (Pebble stores bytes, not pointers) without object identities -/
def Exact (pebble : Bool) : DiskCall → Prop
  | .set n d e => e.name = n ∧ e.exp = d ∧ (pebble = true → e.kid = 0 ∧ e.oid = 0)
  | .del _ _ => True
end DiskCall

/-- the record handed to `storage.Set` by a `set` call -/
def metaOf (dl : Int) (ent : DiskEntry) : Meta :=
  { exp := dl, value := some ent.val, kid := ent.kid, oid := ent.oid }

/-- one call, through the model's `diskSet` (a write that succeeds) / `diskDelete` -/
def applyCall (s : MState) : DiskCall → MState
  | .set name dl ent => { s with disk := (diskSet { s with failSet := 0 } name (metaOf dl ent)).1.disk }
  | .del name dl => diskDelete s name dl

def applyCalls (s : MState) (cs : List DiskCall) : MState := cs.foldl applyCall s

/-! ### the same on the bare backend content -/

/-- the entry `diskSet` builds -/
def written (pebble : Bool) (name : Bytes) (dl : Int) (ent : DiskEntry) : DiskEntry :=
  { name := name, exp := dl, val := ent.val,
    kid := if pebble then 0 else ent.kid, oid := if pebble then 0 else ent.oid }

def diskAfterP (pebble : Bool) (d : AList DiskEntry) : DiskCall → AList DiskEntry
  | .set name dl ent => AList.set d (Codec.encodeKey name dl) (written pebble name dl ent)
  | .del name dl => AList.erase d (Codec.encodeKey name dl)

/-- effect of a call that carries its entry exactly -/
def diskAfter (d : AList DiskEntry) : DiskCall → AList DiskEntry
  | .set name dl ent => AList.set d (Codec.encodeKey name dl) ent
  | .del name dl => AList.erase d (Codec.encodeKey name dl)

def runCalls (d : AList DiskEntry) (cs : List DiskCall) : AList DiskEntry := cs.foldl diskAfter d

theorem applyCall_disk (s : MState) (c : DiskCall) : (applyCall s c).disk = diskAfterP s.pebble s.disk c := by
  cases c with
  | set n dl e => simp [applyCall, diskSet, metaOf, diskAfterP, written]
  | del n dl => rfl

theorem applyCall_pebble (s : MState) (c : DiskCall) : (applyCall s c).pebble = s.pebble := by
  cases c <;> rfl

theorem applyCall_failSet (s : MState) (c : DiskCall) : (applyCall s c).failSet = s.failSet := by
  cases c <;> rfl

theorem applyCall_index (s : MState) (c : DiskCall) : (applyCall s c).index = s.index := by
  cases c <;> rfl

theorem written_of_exact {pebble : Bool} {n : Bytes} {dl : Int} {e : DiskEntry}
    (h : (DiskCall.set n dl e).Exact pebble) : written pebble n dl e = e := by
  obtain ⟨h1, h2, h3⟩ := h
  obtain ⟨en, ee, ev, ek, eo⟩ := e
  simp only at h1 h2 h3
  subst h1 h2
  cases pebble with
  | false => simp [written]
  | true =>
    obtain ⟨a, b⟩ := h3 rfl
    subst a b
    simp [written]

theorem diskAfterP_of_exact {pebble : Bool} (d : AList DiskEntry) {c : DiskCall} (h : c.Exact pebble) :
    diskAfterP pebble d c = diskAfter d c := by
  cases c with
  | set n dl e => simp only [diskAfterP, diskAfter, written_of_exact h]
  | del n dl => rfl

theorem applyCalls_nil (s : MState) : applyCalls s [] = s := rfl
theorem applyCalls_cons (s : MState) (c : DiskCall) (cs : List DiskCall) :
    applyCalls s (c :: cs) = applyCalls (applyCall s c) cs := rfl
theorem applyCalls_append (s : MState) (a b : List DiskCall) :
    applyCalls s (a ++ b) = applyCalls (applyCalls s a) b := by
  simp [applyCalls, List.foldl_append]

theorem runCalls_nil (d : AList DiskEntry) : runCalls d [] = d := rfl
theorem runCalls_cons (d : AList DiskEntry) (c : DiskCall) (cs : List DiskCall) :
    runCalls d (c :: cs) = runCalls (diskAfter d c) cs := rfl
theorem runCalls_append (d : AList DiskEntry) (a b : List DiskCall) :
    runCalls d (a ++ b) = runCalls (runCalls d a) b := by
  simp [runCalls, List.foldl_append]

theorem applyCalls_pebble (s : MState) (cs : List DiskCall) : (applyCalls s cs).pebble = s.pebble := by
  induction cs generalizing s with
  | nil => rfl
  | cons c cs ih => rw [applyCalls_cons, ih, applyCall_pebble]

theorem applyCalls_failSet (s : MState) (cs : List DiskCall) : (applyCalls s cs).failSet = s.failSet := by
  induction cs generalizing s with
  | nil => rfl
  | cons c cs ih => rw [applyCalls_cons, ih, applyCall_failSet]

/-- the backend after a list of exact calls -/
theorem applyCalls_disk (s : MState) (cs : List DiskCall) (h : ∀ c ∈ cs, c.Exact s.pebble) :
    (applyCalls s cs).disk = runCalls s.disk cs := by
  induction cs generalizing s with
  | nil => rfl
  | cons c cs ih =>
    rw [applyCalls_cons, runCalls_cons, ih]
    · rw [applyCall_disk, diskAfterP_of_exact _ (h c List.mem_cons_self)]
    · intro c' hc'
      rw [applyCall_pebble]
      exact h c' (List.mem_cons_of_mem _ hc')

/-- the calls act on the backend only, and see of the state only the backend and its kind -/
theorem applyCalls_disk_congr (s t : MState) (cs : List DiskCall) (hd : s.disk = t.disk)
    (hp : s.pebble = t.pebble) : (applyCalls s cs).disk = (applyCalls t cs).disk := by
  induction cs generalizing s t with
  | nil => exact hd
  | cons c cs ih =>
    rw [applyCalls_cons, applyCalls_cons]
    apply ih
    · rw [applyCall_disk, applyCall_disk, hd, hp]
    · rw [applyCall_pebble, applyCall_pebble, hp]

/-! ### the call sequences of the persistence steps -/

/-- the entry `persist` writes for the record `m` of `name` holding `v` -/
def mkEntry (pebble : Bool) (name : Bytes) (m : Meta) (v : Val) : DiskEntry :=
  { name := name, exp := m.exp, val := v,
    kid := if pebble then 0 else m.kid, oid := if pebble then 0 else m.oid }

/-- `storage.Set(m.key, m.value)`: one call (none for a record without value: the model's
    `diskSet` does nothing then) -/
def setCalls (pebble : Bool) (name : Bytes) (m : Meta) : List DiskCall :=
  match m.value with
  | some v => [.set name m.exp (mkEntry pebble name m v)]
  | none => []

/-- the delete of the entry left under an earlier deadline -/
def delOldCalls (name : Bytes) (m : Meta) : List DiskCall :=
  match m.stored with
  | some e => if e ≠ m.exp then [.del name e] else []
  | none => []

/-- `metadata.persist`: SET under the current deadline, THEN DELETE of the earlier entry -/
def persistCalls (s : MState) (name : Bytes) (m : Meta) : List DiskCall :=
  setCalls s.pebble name m ++ delOldCalls name m

/-- the order before the repair: DELETE of the earlier entry, then SET -/
def persistCallsOld (s : MState) (name : Bytes) (m : Meta) : List DiskCall :=
  delOldCalls name m ++ setCalls s.pebble name m

/-- `metadata.unpersist` -/
def unpersistCalls (name : Bytes) (m : Meta) : List DiskCall :=
  match m.stored with
  | some e => [.del name e]
  | none => []

/-- what a flush / gc pass does to the backend for one index record -/
def recordCalls (s : MState) (now : Int) (ent : Bytes × Meta) : List DiskCall :=
  if ent.2.expired now || !ent.2.isOk then unpersistCalls ent.1 ent.2
  else if !ent.2.isModified then []
  else persistCalls s ent.1 ent.2

/-- `store.flush()`: the records of the index in order -/
def flushCalls (s : MState) (now : Int) : List DiskCall := s.index.flatMap (recordCalls s now)

/-- one pass of `store.gc()` -/
def gcCalls (s : MState) (now : Int) : List DiskCall :=
  if s.closed then [] else s.index.flatMap (recordCalls s now)

theorem recordCalls_congr (s t : MState) (h : s.pebble = t.pebble) (now : Int) (ent : Bytes × Meta) :
    recordCalls s now ent = recordCalls t now ent := by
  simp only [recordCalls, persistCalls, h]

/-! ### exactness / names of the calls -/

theorem setCalls_exact (pebble : Bool) (name : Bytes) (m : Meta) : ∀ c ∈ setCalls pebble name m, c.Exact pebble := by
  intro c hc
  unfold setCalls at hc
  split at hc
  · simp only [List.mem_singleton] at hc
    subst hc
    refine ⟨rfl, rfl, ?_⟩
    intro hp
    simp [mkEntry, hp]
  · cases hc

theorem delOldCalls_exact (pebble : Bool) (name : Bytes) (m : Meta) : ∀ c ∈ delOldCalls name m, c.Exact pebble := by
  intro c hc
  unfold delOldCalls at hc
  split at hc
  · split at hc
    · simp only [List.mem_singleton] at hc
      subst hc; trivial
    · cases hc
  · cases hc

theorem persistCalls_exact (s : MState) (name : Bytes) (m : Meta) : ∀ c ∈ persistCalls s name m, c.Exact s.pebble := by
  intro c hc
  rcases List.mem_append.mp hc with h | h
  · exact setCalls_exact _ _ _ c h
  · exact delOldCalls_exact _ _ _ c h

theorem persistCallsOld_exact (s : MState) (name : Bytes) (m : Meta) : ∀ c ∈ persistCallsOld s name m, c.Exact s.pebble := by
  intro c hc
  rcases List.mem_append.mp hc with h | h
  · exact delOldCalls_exact _ _ _ c h
  · exact setCalls_exact _ _ _ c h

theorem unpersistCalls_exact (pebble : Bool) (name : Bytes) (m : Meta) : ∀ c ∈ unpersistCalls name m, c.Exact pebble := by
  intro c hc
  unfold unpersistCalls at hc
  split at hc
  · simp only [List.mem_singleton] at hc
    subst hc; trivial
  · cases hc

theorem recordCalls_exact (s : MState) (now : Int) (ent : Bytes × Meta) : ∀ c ∈ recordCalls s now ent, c.Exact s.pebble := by
  intro c hc
  unfold recordCalls at hc
  split at hc
  · exact unpersistCalls_exact _ _ _ c hc
  · split at hc
    · cases hc
    · exact persistCalls_exact _ _ _ c hc

theorem flushCalls_exact (s : MState) (now : Int) : ∀ c ∈ flushCalls s now, c.Exact s.pebble := by
  intro c hc
  obtain ⟨ent, _, h⟩ := List.mem_flatMap.mp hc
  exact recordCalls_exact s now ent c h

theorem gcCalls_exact (s : MState) (now : Int) : ∀ c ∈ gcCalls s now, c.Exact s.pebble := by
  intro c hc
  unfold gcCalls at hc
  split at hc
  · cases hc
  · obtain ⟨ent, _, h⟩ := List.mem_flatMap.mp hc
    exact recordCalls_exact s now ent c h

theorem setCalls_name (pebble : Bool) (name : Bytes) (m : Meta) : ∀ c ∈ setCalls pebble name m, c.name = name := by
  intro c hc
  unfold setCalls at hc
  split at hc
  · simp only [List.mem_singleton] at hc
    subst hc; rfl
  · cases hc

theorem delOldCalls_name (name : Bytes) (m : Meta) : ∀ c ∈ delOldCalls name m, c.name = name := by
  intro c hc
  unfold delOldCalls at hc
  split at hc
  · split at hc
    · simp only [List.mem_singleton] at hc
      subst hc; rfl
    · cases hc
  · cases hc

theorem persistCalls_name (s : MState) (name : Bytes) (m : Meta) : ∀ c ∈ persistCalls s name m, c.name = name := by
  intro c hc
  rcases List.mem_append.mp hc with h | h
  · exact setCalls_name _ _ _ c h
  · exact delOldCalls_name _ _ c h

theorem unpersistCalls_name (name : Bytes) (m : Meta) : ∀ c ∈ unpersistCalls name m, c.name = name := by
  intro c hc
  unfold unpersistCalls at hc
  split at hc
  · simp only [List.mem_singleton] at hc
    subst hc; rfl
  · cases hc

theorem recordCalls_name (s : MState) (now : Int) (ent : Bytes × Meta) : ∀ c ∈ recordCalls s now ent, c.name = ent.1 := by
  intro c hc
  unfold recordCalls at hc
  split at hc
  · exact unpersistCalls_name _ _ c hc
  · split at hc
    · cases hc
    · exact persistCalls_name _ _ _ c hc

/-! ### the model functions are their call sequences -/

/-- `persist` without a failing write: the state is the one after its calls, the record remembers
    its deadline, the write is reported as done -/
theorem persist_state (s : MState) (name : Bytes) (m : Meta) (hf : s.failSet = 0) :
    persist s name m
      = ({ s with disk := (applyCalls s (persistCalls s name m)).disk }, { m with stored := some m.exp }, true) := by
  obtain ⟨idx, disk, peb, nid, cl, fs, feed, li, sg, held, hung, fl⟩ := s
  simp only at hf
  subst hf
  unfold persist persistCalls setCalls delOldCalls diskSet
  cases hv : m.value with
  | none =>
    cases hs : m.stored with
    | none => simp [applyCalls]
    | some e =>
      by_cases he : e = m.exp
      · simp [he, applyCalls]
      · simp [he, applyCalls, applyCall, diskDelete]
  | some v =>
    cases hs : m.stored with
    | none => cases peb <;> simp [applyCalls, applyCall, diskSet, metaOf, mkEntry]
    | some e =>
      by_cases he : e = m.exp
      · cases peb <;> simp [he, applyCalls, applyCall, diskSet, metaOf, mkEntry]
      · cases peb <;> simp [he, applyCalls, applyCall, diskSet, metaOf, mkEntry, diskDelete]

theorem persist_eq_calls (s : MState) (name : Bytes) (m : Meta) (hf : s.failSet = 0) :
    (persist s name m).1.disk = (applyCalls s (persistCalls s name m)).disk := by
  rw [persist_state s name m hf]

theorem unpersist_state (s : MState) (name : Bytes) (m : Meta) :
    unpersist s name m = { s with disk := (applyCalls s (unpersistCalls name m)).disk } := by
  unfold unpersist unpersistCalls
  cases m.stored with
  | none => rfl
  | some e => rfl

theorem unpersist_eq_calls (s : MState) (name : Bytes) (m : Meta) :
    (unpersist s name m).disk = (applyCalls s (unpersistCalls name m)).disk := by
  rw [unpersist_state s name m]

/-- one record of a `flush` pass -/
def flushStep (now : Int) (s : MState) (ent : Bytes × Meta) : MState :=
  let (key, m) := ent
  if m.expired now || !m.isOk then
    putMeta (unpersist s key m) key { m with stored := none }
  else if !m.isModified then s
  else
    let (s, m, _) := persist s key m
    putMeta s key m

theorem flush_eq_fold (s : MState) (now : Int) :
    flush s now = syncShared (s.index.foldl (flushStep now) s) := rfl

/-- one record of a `gc` pass -/
def gcStep (now : Int) (s : MState) (ent : Bytes × Meta) : MState :=
  let (key, m) := ent
  if m.expired now || !m.isOk then
    let s := unpersist s key m
    { s with index := AList.erase s.index key }
  else
    let (s, m, ok) := if m.isModified then persist s key m else (s, m, true)
    if !ok then putMeta s key m else
    let m' := { m with state := 1, count := m.count - 1 }
    let m' := if m'.count < 0 then { m' with value := none } else m'
    putMeta s key m'

theorem gc_eq_fold (s : MState) (now : Int) :
    gc s now = if s.closed then s else syncShared (s.index.foldl (gcStep now) s) := rfl

theorem flushStep_spec (now : Int) (s : MState) (ent : Bytes × Meta) (hf : s.failSet = 0) :
    (flushStep now s ent).disk = (applyCalls s (recordCalls s now ent)).disk
      ∧ (flushStep now s ent).failSet = 0 ∧ (flushStep now s ent).pebble = s.pebble := by
  obtain ⟨key, m⟩ := ent
  unfold flushStep recordCalls
  simp only
  split
  · rw [unpersist_state]
    exact ⟨rfl, hf, rfl⟩
  · split
    · exact ⟨rfl, hf, rfl⟩
    · rw [persist_state s key m hf]
      exact ⟨rfl, hf, rfl⟩

theorem gcStep_spec (now : Int) (s : MState) (ent : Bytes × Meta) (hf : s.failSet = 0) :
    (gcStep now s ent).disk = (applyCalls s (recordCalls s now ent)).disk
      ∧ (gcStep now s ent).failSet = 0 ∧ (gcStep now s ent).pebble = s.pebble := by
  obtain ⟨key, m⟩ := ent
  unfold gcStep recordCalls
  simp only
  split
  · rw [unpersist_state]
    exact ⟨rfl, hf, rfl⟩
  · by_cases hm : m.isModified = true
    · simp only [hm, if_true, Bool.not_true, Bool.false_eq_true, if_false]
      rw [persist_state s key m hf]
      simp only [Bool.not_true, Bool.false_eq_true, if_false]
      exact ⟨rfl, hf, rfl⟩
    · simp only [hm, if_false, Bool.not_true, Bool.false_eq_true]
      simp only [Bool.not_eq_true] at hm
      simp only [Bool.not_false, if_true]
      exact ⟨rfl, hf, rfl⟩

theorem fold_spec (now : Int) (step : MState → Bytes × Meta → MState)
    (hstep : ∀ (s : MState) (ent : Bytes × Meta), s.failSet = 0 →
      (step s ent).disk = (applyCalls s (recordCalls s now ent)).disk
        ∧ (step s ent).failSet = 0 ∧ (step s ent).pebble = s.pebble) :
    ∀ (l : List (Bytes × Meta)) (t : MState), t.failSet = 0 →
      (l.foldl step t).disk = (applyCalls t (l.flatMap (recordCalls t now))).disk
        ∧ (l.foldl step t).failSet = 0 ∧ (l.foldl step t).pebble = t.pebble := by
  intro l
  induction l with
  | nil => intro t hf; exact ⟨rfl, hf, rfl⟩
  | cons ent rest ih =>
    intro t hf
    obtain ⟨h1, h2, h3⟩ := hstep t ent hf
    obtain ⟨i1, i2, i3⟩ := ih (step t ent) h2
    simp only [List.foldl_cons, List.flatMap_cons]
    refine ⟨?_, i2, i3.trans h3⟩
    rw [i1, applyCalls_append]
    have e : rest.flatMap (recordCalls (step t ent) now) = rest.flatMap (recordCalls t now) := by
      congr 1
      funext x
      exact recordCalls_congr _ _ h3 now x
    rw [e]
    apply applyCalls_disk_congr
    · exact h1
    · rw [h3, applyCalls_pebble]

/-- `store.flush()` on the Pebble backend without a failing write: the backend is the one after
    `flushCalls` -/
theorem flush_eq_calls (s : MState) (now : Int) (hf : s.failSet = 0) (hp : s.pebble = true) :
    (flush s now).disk = (applyCalls s (flushCalls s now)).disk := by
  obtain ⟨h1, _, h3⟩ := fold_spec now (flushStep now) (flushStep_spec now) s.index s hf
  rw [flush_eq_fold, syncShared, if_pos (h3.trans hp), h1]
  rfl

/-- one pass of `store.gc()`, likewise -/
theorem gc_eq_calls (s : MState) (now : Int) (hf : s.failSet = 0) (hp : s.pebble = true) :
    (gc s now).disk = (applyCalls s (gcCalls s now)).disk := by
  rw [gc_eq_fold, gcCalls]
  by_cases hc : s.closed = true
  · simp [hc, applyCalls]
  · simp only [hc, if_false, Bool.false_eq_true]
    obtain ⟨h1, _, h3⟩ := fold_spec now (gcStep now) (gcStep_spec now) s.index s hf
    rw [syncShared, if_pos (h3.trans hp), h1]

end NodisVerif.C13
