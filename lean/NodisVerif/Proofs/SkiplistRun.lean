import NodisVerif.Proofs.SkiplistSpecs
import NodisVerif.Proofs.SkiplistInsert
import NodisVerif.Proofs.SkiplistRemove
import NodisVerif.Proofs.SkiplistRange
import NodisVerif.Proofs.SkiplistRankEx
import NodisVerif.Proofs.SkiplistInRange
/-
  The empty skiplist satisfies the invariant; runs of mutating operations from it.
-/
namespace NodisVerif.Skiplist
open NodisVerif.DsZSet (Item nodeLt)
open NodisVerif.Proofs.C04 (ILt)
open NodisVerif.Proofs.ZSetLemmas (Good)

theorem makeSkiplist_isChain : IsChain makeSkiplist [] where
  nodup := by simp
  bound := by simp
  size := by simp [makeSkiplist]
  header := by simp [makeSkiplist, height, newNode, maxLevel]
  hpos := by simp
  hle := by simp
  levelLo := by simp [makeSkiplist]
  levelHi := by simp [makeSkiplist, maxLevel]
  levelMax := by simp [makeSkiplist]
  linked := by
    refine ⟨?_, trivial⟩
    intro i l hl
    obtain ⟨nd, hn, hli⟩ := (getLevel_ok_iff _ _ _ _).1 hl
    simp [makeSkiplist] at hn
    subst hn
    simp [newNode, List.getElem?_replicate] at hli
    obtain ⟨_, rfl⟩ := hli
    simp
  back := trivial
  tail := by simp [makeSkiplist]
  length := by simp [makeSkiplist]
  sorted := by simp
  good := by simp

theorem makeSkiplist_inv : Inv makeSkiplist := ⟨[], makeSkiplist_isChain⟩


/-- the chain of a structure satisfying the invariant is strictly ordered by (score, member) and holds no NaN -/
theorem inv_sorted {sl : SL} (h : Inv sl) : (abs sl).Pairwise ILt ∧ ∀ a ∈ abs sl, Good a := by
  obtain ⟨c, hc⟩ := h
  rw [abs_eq hc]
  refine ⟨hc.sorted, ?_⟩
  intro a ha
  obtain ⟨n, hn, rfl⟩ := List.mem_map.1 ha
  exact hc.good n hn

/-- `length` is the number of nodes of the chain -/
theorem inv_length {sl : SL} (h : Inv sl) : sl.length = ((abs sl).length : Int) := by
  obtain ⟨c, hc⟩ := h
  rw [abs_eq hc, hc.length]; simp

theorem removeRange_refines_nolimit {sl : SL} (h : Inv sl) (min max : F64) (limit : Int) (hlim : limit ≤ 0) (mode : Nat) :
    ∃ sl' removed, removeRange sl min max limit mode = .ok (sl', removed) ∧ Inv sl' ∧
      (abs sl', removed) = DsZSet.slRemoveRange (abs sl) min max mode := by
  obtain ⟨sl', removed, he, hi, hr⟩ := removeRange_refines h min max limit mode
  rw [if_pos hlim] at hr
  exact ⟨sl', removed, he, hi, hr⟩


/-! ### runs -/

/-- the mutating operations of the skiplist as the sorted set calls them (`removeRange` always with limit 0) -/
inductive SlOp
  | insert (m : Bytes) (s : F64) (lvl : Nat)
  | remove (m : Bytes) (s : F64)
  | removeRange (min max : F64) (mode : Nat)
  | removeRangeByRank (start stop : Int)

/-- one operation on the pointer structure -/
def stepM (sl : SL) : SlOp → M SL
  | .insert m s lvl => insert sl m s lvl
  | .remove m s => (remove sl m s).map (·.1)
  | .removeRange a b mode => (removeRange sl a b 0 mode).map (·.1)
  | .removeRangeByRank a b => (removeRangeByRank sl a b).map (·.1)

def runM : SL → List SlOp → M SL
  | sl, [] => pure sl
  | sl, op :: ops => do
    let sl' ← stepM sl op
    runM sl' ops

/-- the same operation on the list-level model of Model/DsZSet.lean -/
def stepL (l : List Item) : SlOp → List Item
  | .insert m s _ => DsZSet.slInsert l m s
  | .remove m s => DsZSet.slRemove l m s
  | .removeRange a b mode => (DsZSet.slRemoveRange l a b mode).1
  | .removeRangeByRank a b => (DsZSet.slRemoveRangeByRank l a b).1

def runL : List Item → List SlOp → List Item
  | l, [] => l
  | l, op :: ops => runL (stepL l op) ops

/-- the sorted set's preconditions: a level in 1..16 (what `randomLevel` returns), no NaN score, the member is new
    (`zAdd` removes an existing member before it inserts) -/
def OpOk (l : List Item) : SlOp → Prop
  | .insert m s lvl => 1 ≤ lvl ∧ lvl ≤ maxLevel ∧ F64.isNaN s = false ∧ ∀ x ∈ l, x.2 ≠ m
  | _ => True

def OpsOk : List Item → List SlOp → Prop
  | _, [] => True
  | l, op :: ops => OpOk l op ∧ OpsOk (stepL l op) ops

theorem step_refines {sl : SL} (h : Inv sl) (op : SlOp) (hok : OpOk (abs sl) op) :
    ∃ sl', stepM sl op = .ok sl' ∧ Inv sl' ∧ abs sl' = stepL (abs sl) op := by
  cases op with
  | insert m s lvl =>
    obtain ⟨h1, h2, h3, h4⟩ := hok
    exact insert_refines h m s lvl h1 h2 h3 h4
  | remove m s =>
    obtain ⟨sl', b, he, hi, ha, _⟩ := remove_refines h m s
    exact ⟨sl', by simp [stepM, he, Except.map], hi, ha⟩
  | removeRange a b mode =>
    obtain ⟨sl', rem, he, hi, ha⟩ := removeRange_refines_nolimit h a b 0 (Int.le_refl 0) mode
    refine ⟨sl', by simp [stepM, he, Except.map], hi, ?_⟩
    simp only [stepL, ← ha]
  | removeRangeByRank a b =>
    obtain ⟨sl', rem, he, hi, ha⟩ := removeRangeByRank_refines h a b
    refine ⟨sl', by simp [stepM, he, Except.map], hi, ?_⟩
    simp only [stepL, ← ha]

/-- every state reachable from a state satisfying the invariant satisfies it, no operation of the run panics or runs
    out of fuel, and the abstraction of the result is the run of the list-level model -/
theorem run_refines : ∀ (ops : List SlOp) {sl : SL}, Inv sl → OpsOk (abs sl) ops →
    ∃ sl', runM sl ops = .ok sl' ∧ Inv sl' ∧ abs sl' = runL (abs sl) ops := by
  intro ops
  induction ops with
  | nil => intro sl h _; exact ⟨sl, rfl, h, rfl⟩
  | cons op ops ih =>
    intro sl h hok
    obtain ⟨hop, hrest⟩ := hok
    obtain ⟨sl1, he, hi, ha⟩ := step_refines h op hop
    rw [← ha] at hrest
    obtain ⟨sl2, he2, hi2, ha2⟩ := ih hi hrest
    refine ⟨sl2, ?_, hi2, ?_⟩
    · simp [runM, he, bind, Except.bind, he2]
    · simp [runL, ← ha, ha2]

theorem abs_makeSkiplist : abs makeSkiplist = [] := by
  rw [abs_eq makeSkiplist_isChain]; rfl

/-- from `makeSkiplist()` -/
theorem run_inv_from_empty (ops : List SlOp) (hok : OpsOk [] ops) :
    ∃ sl, runM makeSkiplist ops = .ok sl ∧ Inv sl ∧ abs sl = runL [] ops := by
  have := run_refines ops makeSkiplist_inv (by rw [abs_makeSkiplist]; exact hok)
  rw [abs_makeSkiplist] at this
  exact this

end NodisVerif.Skiplist
