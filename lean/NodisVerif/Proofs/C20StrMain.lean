import NodisVerif.Proofs.C20Str
/-
  C20, strings and counters: the main theorem for each method.
-/
namespace NodisVerif.Proofs.C20
open NodisVerif NodisVerif.Store NodisVerif.Spec.Persist NodisVerif.Proofs.C11

variable {now : Int} {p r : MState}

theorem set_replay (hs : Same now p r) (hl : p.listeners = true) (hfd : p.feed = [])
    (c : Feed.CallInfo) (hc : plainMethod c.method = true) (k v : Bytes) (keep : Bool) :
    Replay now r c (Api.set p now k v keep) := by
  rw [show Api.set p now k v keep = (setF now k v keep).run p now from
    Cmd.run_eq (.set k v keep) now trivial (fun _ _ h => nomatch h) p]
  let g : DsStr.S → Option (Option Val × Option Int × List FeedOp × Out) :=
    fun _ => some (some (Val.str v), (if keep then none else some (0 : Int)), [Api.opSet k v keep], Out.unit)
  have hrec : ∀ (s : DsStr.S) x, g s = some x → StrRec c k x := by
    intro _ x hx
    simp only [g, Option.some.injEq] at hx; subst hx
    exact ⟨v, keep, 0, rfl, by decide, by rw [emission_plain hc], by cases keep <;> rfl, fun _ => rfl⟩
  exact strWrite_main hs hl hfd c (fun out => emission_plain hc out []) (setF now k v keep) (setF_ok now k v keep)
    g (fun _ => .panic) rfl (some []) (Or.inl rfl) (fun b x hx => hrec (some b) x hx) (fun x hx => hrec (some []) x hx)
    (fun _ _ h => nomatch h)

theorem setXX_replay (hs : Same now p r) (hl : p.listeners = true) (hfd : p.feed = [])
    (c : Feed.CallInfo) (hc : plainMethod c.method = true) (k v : Bytes) (keep : Bool) :
    Replay now r c (Api.setXX p now k v keep) := by
  rw [show Api.setXX p now k v keep = ((Cmd.setXX k v keep).form now).run p now from setXX_eq p now k v keep]
  let g : DsStr.S → Option (Option Val × Option Int × List FeedOp × Out) :=
    fun _ => some (some (Val.str v), (if keep then none else some (0 : Int)), [Api.opSet k v keep], Out.bool true)
  have hrec : ∀ (s : DsStr.S) x, g s = some x → StrRec c k x := by
    intro _ x hx
    simp only [g, Option.some.injEq] at hx; subst hx
    exact ⟨v, keep, 0, rfl, by decide, by rw [emission_plain hc], by cases keep <;> rfl, fun _ => rfl⟩
  exact strWrite_main hs hl hfd c (fun out => emission_plain hc out []) ((Cmd.setXX k v keep).form now)
    (Cmd.ok (.setXX k v keep) now trivial)
    g (fun _ => .panic) rfl (some []) (Or.inr rfl) (fun b x hx => hrec (some b) x hx) (fun x hx => hrec (some []) x hx)
    (fun h => nomatch h)

theorem setEx_replay (hs : Same now p r) (hl : p.listeners = true) (hfd : p.feed = [])
    (c : Feed.CallInfo) (hc : plainMethod c.method = true) (k v : Bytes) (e : Int) (he : inInt64 e = true) :
    Replay now r c ((setExForm k v e).run p now) := by
  let g : DsStr.S → Option (Option Val × Option Int × List FeedOp × Out) :=
    fun _ => some (some (Val.str v), some e, [Api.opSet k v false e], Out.unit)
  have hrec : ∀ (s : DsStr.S) x, g s = some x → StrRec c k x := by
    intro _ x hx
    simp only [g, Option.some.injEq] at hx; subst hx
    exact ⟨v, false, e, rfl, he, by rw [emission_plain hc], rfl, fun h => nomatch h⟩
  exact strWrite_main hs hl hfd c (fun out => emission_plain hc out []) (setExForm k v e) (setExForm_ok k v e he)
    g (fun _ => .panic) rfl (some []) (Or.inl rfl) (fun b x hx => hrec (some b) x hx) (fun x hx => hrec (some []) x hx)
    (fun _ _ h => nomatch h)

theorem setEX_replay (hs : Same now p r) (hl : p.listeners = true) (hfd : p.feed = [])
    (c : Feed.CallInfo) (hc : plainMethod c.method = true) (k v : Bytes) (seconds : Int) :
    Replay now r c (Api.setEX p now k v seconds) := by
  rw [setEX_eq]; exact setEx_replay hs hl hfd c hc k v _ (inInt64_wrap64 _)

theorem setPX_replay (hs : Same now p r) (hl : p.listeners = true) (hfd : p.feed = [])
    (c : Feed.CallInfo) (hc : plainMethod c.method = true) (k v : Bytes) (ms : Int) :
    Replay now r c (Api.setPX p now k v ms) := by
  rw [setPX_eq]; exact setEx_replay hs hl hfd c hc k v _ (inInt64_wrap64 _)

theorem addInt_some' {x : DsStr.S} {d : Int} {v' : DsStr.S} {n : Int} (h : DsStr.addInt x d = some (v', n)) :
    v' = some (formatInt n) := by
  unfold DsStr.addInt at h
  simp only at h
  split at h
  · cases h
  · split at h
    · simp only [Option.some.injEq, Prod.mk.injEq] at h
      rw [← h.1, ← h.2]
    · cases h

/-- the counter fails on a key it has just created: finding region of Incr / IncrBy / Decr / DecrBy -/
def AddIntCreatesAndFails (L : Option (Val × Int)) (delta : Int) (neg : Bool) : Prop :=
  L = none ∧ (if neg then DsStr.decr (some []) delta else DsStr.incr (some []) delta) = none

instance (L : Option (Val × Int)) (delta : Int) (neg : Bool) : Decidable (AddIntCreatesAndFails L delta neg) := by
  unfold AddIntCreatesAndFails; exact inferInstance

theorem addInt_replay (hs : Same now p r) (hl : p.listeners = true) (hfd : p.feed = [])
    (c : Feed.CallInfo) (hc : Feed.keepTTLMethods.contains c.method = true) (k : Bytes) (delta : Int) (neg sw : Bool)
    (hcov : ¬ AddIntCreatesAndFails (lookup p now k) delta neg) :
    Replay now r c (Api.addInt p now k delta neg sw) := by
  rw [addInt_eq]
  let g : DsStr.S → Option (Option Val × Option Int × List FeedOp × Out) :=
    fun v => match (if neg then DsStr.decr v delta else DsStr.incr v delta) with
      | none => none
      | some (v', n) => some (some (Api.strVal v'), (none : Option Int), [Api.opSet k (formatInt n) false],
          Out.many [.int n, .err false])
  have hrec : ∀ s x, g s = some x → StrRec c k x := by
    intro s x hx
    simp only [g] at hx
    split at hx
    · cases hx
    · rename_i v' n heq
      simp only [Option.some.injEq] at hx; subst hx
      have hv : v' = some (formatInt n) := by
        cases neg
        · exact addInt_some' (by simpa [DsStr.incr] using heq)
        · exact addInt_some' (by simpa [DsStr.decr] using heq)
      subst hv
      exact ⟨formatInt n, true, 0, rfl, by decide, emission_keep hc _ _ _ _ _, rfl, fun _ => rfl⟩
  refine strWrite_main hs hl hfd c (emission_keep_nil hc) ((Cmd.incrBy k delta neg).form now)
    (Cmd.ok (.incrBy k delta neg) now trivial) g (fun _ => .many [.int 0, .err true]) rfl (some []) (Or.inl rfl)
    (fun b x hx => hrec (some b) x hx) (fun x hx => hrec (some []) x hx) ?_
  intro _ hL hg
  apply hcov
  refine ⟨hL, ?_⟩
  simp only [g] at hg
  split at hg
  · assumption
  · cases hg

theorem append_replay (hs : Same now p r) (hl : p.listeners = true) (hfd : p.feed = [])
    (c : Feed.CallInfo) (hc : Feed.keepTTLMethods.contains c.method = true) (k v : Bytes) :
    Replay now r c (Api.append p now k v) := by
  rw [append_eq]
  let g : DsStr.S → Option (Option Val × Option Int × List FeedOp × Out) :=
    fun s => some (some (Api.strVal (DsStr.append s v).1), (none : Option Int),
      [Api.opSet k (DsStr.bytes (DsStr.append s v).1) false], Out.int (DsStr.append s v).2)
  have hrec : ∀ b x, g (some b) = some x → StrRec c k x := by
    intro b x hx
    simp only [g, Option.some.injEq] at hx; subst hx
    exact ⟨b ++ v, true, 0, rfl, by decide, emission_keep hc _ _ _ _ _, rfl, fun _ => rfl⟩
  exact strWrite_main hs hl hfd c (emission_keep_nil hc) ((Cmd.append k v).form now)
    (Cmd.ok (.append k v) now trivial) g (fun _ => .panic) rfl (some []) (Or.inl rfl) hrec (hrec [])
    (fun _ _ h => nomatch h)

theorem setBit_fst_some (b : Bytes) (offset : Int) (value : Bool) :
    ∃ w, (DsStr.setBit (some b) offset value).1 = some w := by
  unfold DsStr.setBit
  split
  · exact ⟨b, rfl⟩
  · simp only
    split <;> exact ⟨_, rfl⟩

theorem setBit_replay (hs : Same now p r) (hl : p.listeners = true) (hfd : p.feed = [])
    (c : Feed.CallInfo) (hc : Feed.keepTTLMethods.contains c.method = true) (k : Bytes) (offset : Int) (value : Bool) :
    Replay now r c (Api.setBit p now k offset value) := by
  rw [setBit_eq]
  let g : DsStr.S → Option (Option Val × Option Int × List FeedOp × Out) :=
    fun s => some (some (Api.strVal (DsStr.setBit s offset value).1), (none : Option Int),
      [Api.opSet k (DsStr.bytes (DsStr.setBit s offset value).1) false], Out.int (DsStr.setBit s offset value).2)
  have hrec : ∀ b x, g (some b) = some x → StrRec c k x := by
    intro b x hx
    simp only [g, Option.some.injEq] at hx; subst hx
    obtain ⟨w, hw⟩ := setBit_fst_some b offset value
    refine ⟨w, true, 0, by simp [hw, Api.strVal], by decide, ?_, rfl, fun _ => rfl⟩
    simp only [hw, DsStr.bytes, Option.getD_some]
    exact emission_keep hc _ _ _ _ _
  exact strWrite_main hs hl hfd c (emission_keep_nil hc) (setBitF k offset value)
    (setBitF_ok k offset value) g (fun _ => .panic) rfl (some []) (Or.inl rfl) hrec (hrec [])
    (fun _ _ h => nomatch h)

theorem setRange_snd_some {b : Bytes} {offset : Int} {value : Bytes} {v' : DsStr.S} {n : Int}
    (h : DsStr.setRange (some b) offset value = some (v', n)) : ∃ w, v' = some w := by
  unfold DsStr.setRange at h
  split at h
  · simp only [Option.some.injEq, Prod.mk.injEq] at h; exact ⟨b, h.1.symm⟩
  · simp only at h
    split at h
    · cases h
    · split at h
      · cases h
      · simp only [Option.some.injEq, Prod.mk.injEq] at h; exact ⟨_, h.1.symm⟩

/-- SETRANGE panics on a key it has just created: finding region -/
def SetRangeCreatesAndPanics (L : Option (Val × Int)) (offset : Int) (value : Bytes) : Prop :=
  L = none ∧ DsStr.setRange (some []) offset value = none

instance (L : Option (Val × Int)) (offset : Int) (value : Bytes) :
    Decidable (SetRangeCreatesAndPanics L offset value) := by
  unfold SetRangeCreatesAndPanics; exact inferInstance

theorem setRange_replay (hs : Same now p r) (hl : p.listeners = true) (hfd : p.feed = [])
    (c : Feed.CallInfo) (hc : Feed.keepTTLMethods.contains c.method = true) (k : Bytes) (offset : Int) (value : Bytes)
    (hcov : ¬ SetRangeCreatesAndPanics (lookup p now k) offset value) :
    Replay now r c (Api.setRange p now k offset value) := by
  rw [setRange_eq]
  let g : DsStr.S → Option (Option Val × Option Int × List FeedOp × Out) :=
    fun s => match DsStr.setRange s offset value with
      | none => none
      | some (v', n) => some (some (Api.strVal v'), (none : Option Int), [Api.opSet k (DsStr.bytes v') false],
          Out.int n)
  have hrec : ∀ b x, g (some b) = some x → StrRec c k x := by
    intro b x hx
    simp only [g] at hx
    split at hx
    · cases hx
    · rename_i v' n heq
      simp only [Option.some.injEq] at hx; subst hx
      obtain ⟨w, rfl⟩ := setRange_snd_some heq
      exact ⟨w, true, 0, rfl, by decide, emission_keep hc _ _ _ _ _, rfl, fun _ => rfl⟩
  refine strWrite_main hs hl hfd c (emission_keep_nil hc) (setRangeF k offset value)
    (setRangeF_ok k offset value) g (fun _ => .panic) rfl (some []) (Or.inl rfl) hrec (hrec []) ?_
  intro _ hL hg
  apply hcov
  refine ⟨hL, ?_⟩
  simp only [g] at hg
  split at hg
  · assumption
  · cases hg

/-- INCRBYFLOAT leaves the model's arithmetic on a key it has just created: region excluded -/
def IncrByFloatCreatesAndFails (L : Option (Val × Int)) (delta : F64) : Prop :=
  L = none ∧ ∀ x, ibfCalc (some []) delta ≠ .inl x

theorem incrByFloat_replay (hs : Same now p r) (hl : p.listeners = true) (hfd : p.feed = [])
    (c : Feed.CallInfo) (hc : Feed.keepTTLMethods.contains c.method = true) (k : Bytes) (delta : F64)
    (hcov : ¬ IncrByFloatCreatesAndFails (lookup p now k) delta) :
    Replay now r c (Api.incrByFloat p now k delta) := by
  rw [incrByFloat_eq]
  let g : DsStr.S → Option (Option Val × Option Int × List FeedOp × Out) :=
    fun v => match ibfCalc v delta with
      | .inl (t, sum) => some (some (Val.str t), (none : Option Int), [Api.opSet k t false],
          Out.many [.f64 sum, .err false])
      | .inr _ => none
  have hrec : ∀ b x, g (some b) = some x → StrRec c k x := by
    intro b x hx
    simp only [g] at hx
    split at hx
    · simp only [Option.some.injEq] at hx; subst hx
      exact ⟨_, true, 0, rfl, by decide, emission_keep hc _ _ _ _ _, rfl, fun _ => rfl⟩
    · cases hx
  refine strWrite_main hs hl hfd c (emission_keep_nil hc) (incrByFloatF k delta)
    (incrByFloatF_ok k delta) g (fun v => match ibfCalc v delta with | .inr o => o | .inl _ => .unit) rfl
    (some []) (Or.inl rfl) hrec (hrec []) ?_
  intro _ hL hg
  apply hcov
  refine ⟨hL, fun x hx => ?_⟩
  simp only [g, hx] at hg
  cases hg

end NodisVerif.Proofs.C20
