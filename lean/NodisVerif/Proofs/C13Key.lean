import NodisVerif.Model.Store
import NodisVerif.Model.WF
import NodisVerif.Proofs.AListLemmas2
/-
  C13 helper lemmas, part 0 (self-contained): `Key.Encode` is injective on every (name, deadline)
  pair; membership in `AList.set` / `AList.erase`.
-/
namespace NodisVerif.Proofs.C13
open NodisVerif
open NodisVerif.Proofs.AListLemmas NodisVerif.Proofs.AListLemmas2

/-! ### `Key.Encode` is injective -/

theorem putUvarint_prefix_free : ∀ (n n' : Nat) (a b : Bytes),
    Varint.putUvarint n ++ a = Varint.putUvarint n' ++ b → n = n' ∧ a = b := by
  intro n
  induction n using Nat.strongRecOn with
  | _ n ih =>
    intro n' a b h
    rw [Varint.putUvarint] at h
    rw [Varint.putUvarint.eq_def n'] at h
    by_cases h1 : n < 128 <;> by_cases h2 : n' < 128
    · simp only [h1, h2, dite_true, List.cons_append, List.nil_append, List.cons.injEq] at h
      obtain ⟨e1, e2⟩ := h
      have := congrArg UInt8.toNat e1
      rw [UInt8.toNat_ofNat', UInt8.toNat_ofNat'] at this
      exact ⟨by omega, e2⟩
    · simp only [h1, h2, dite_true, dite_false, List.cons_append, List.nil_append, List.cons.injEq] at h
      have := congrArg UInt8.toNat h.1
      rw [UInt8.toNat_ofNat', UInt8.toNat_ofNat'] at this
      omega
    · simp only [h1, h2, dite_true, dite_false, List.cons_append, List.nil_append, List.cons.injEq] at h
      have := congrArg UInt8.toNat h.1
      rw [UInt8.toNat_ofNat', UInt8.toNat_ofNat'] at this
      omega
    · simp only [h1, h2, dite_false, List.cons_append, List.cons.injEq] at h
      obtain ⟨e1, e2⟩ := h
      have := congrArg UInt8.toNat e1
      rw [UInt8.toNat_ofNat', UInt8.toNat_ofNat'] at this
      obtain ⟨i1, i2⟩ := ih (n / 128) (by omega) (n' / 128) a b e2
      exact ⟨by omega, i2⟩

theorem zigzag_inj (x y : Int) (h : Varint.zigzag x = Varint.zigzag y) : x = y := by
  unfold Varint.zigzag at h
  split at h <;> split at h <;> omega

/-- distinct (name, deadline) pairs address distinct backend entries -/
theorem encodeKey_inj {n1 n2 : Bytes} {e1 e2 : Int}
    (h : Codec.encodeKey n1 e1 = Codec.encodeKey n2 e2) : n1 = n2 ∧ e1 = e2 := by
  unfold Codec.encodeKey Varint.putVarint at h
  obtain ⟨a, b⟩ := putUvarint_prefix_free _ _ _ _ h
  exact ⟨b, zigzag_inj _ _ a⟩

/-! ### membership in `set` / `erase` -/

variable {V : Type}

theorem mem_set_self (m : AList V) (k : Bytes) (v : V) : (k, v) ∈ AList.set m k v :=
  mem_of_get? _ _ _ (get?_set_same m k v)

theorem mem_set_of_mem : ∀ (m : AList V) (k : Bytes) (v : V) (b : Bytes × V),
    b ∈ m → b.1 ≠ k → b ∈ AList.set m k v := by
  intro m
  induction m with
  | nil => intro k v b h; cases h
  | cons a rest ih =>
    intro k v b hb hne
    obtain ⟨ka, va⟩ := a
    simp only [AList.set]
    by_cases h1 : ka = k
    · simp only [h1, if_true]
      rcases List.mem_cons.mp hb with rfl | hb
      · exact absurd h1 hne
      · exact List.mem_cons_of_mem _ hb
    · simp only [h1, if_false]
      by_cases h2 : Bytes.lt k ka = true
      · simp only [h2, if_true]
        exact List.mem_cons_of_mem _ hb
      · simp only [h2]
        rcases List.mem_cons.mp hb with rfl | hb
        · exact List.mem_cons_self
        · exact List.mem_cons_of_mem _ (ih k v b hb hne)

theorem mem_of_mem_erase (m : AList V) (k : Bytes) (b : Bytes × V) (h : b ∈ AList.erase m k) : b ∈ m :=
  (erase_sublist m k).subset h

theorem mem_erase_of_mem : ∀ (m : AList V) (k : Bytes) (b : Bytes × V),
    b ∈ m → b.1 ≠ k → b ∈ AList.erase m k := by
  intro m
  induction m with
  | nil => intro k b h; cases h
  | cons a rest ih =>
    intro k b hb hne
    obtain ⟨ka, va⟩ := a
    simp only [AList.erase]
    by_cases h1 : ka = k
    · simp only [h1, if_true]
      rcases List.mem_cons.mp hb with rfl | hb
      · exact absurd h1 hne
      · exact hb
    · simp only [h1, if_false]
      rcases List.mem_cons.mp hb with rfl | hb
      · exact List.mem_cons_self
      · exact List.mem_cons_of_mem _ (ih k b hb hne)

theorem key_ne_of_mem_erase (m : AList V) (hs : AList.Sorted m) (k : Bytes) (b : Bytes × V)
    (h : b ∈ AList.erase m k) : b.1 ≠ k := by
  intro e
  obtain ⟨kb, vb⟩ := b
  simp only at e
  subst e
  have h1 := get?_of_mem _ (erase_preserves_sorted m hs kb) kb vb h
  rw [get?_erase_same m hs] at h1
  cases h1

/-- in a sorted list a key occurs once -/
theorem val_unique (m : AList V) (hs : AList.Sorted m) {k : Bytes} {v w : V}
    (h1 : (k, v) ∈ m) (h2 : (k, w) ∈ m) : v = w := by
  have a := get?_of_mem m hs k v h1
  have b := get?_of_mem m hs k w h2
  rw [a] at b
  exact Option.some.inj b

end NodisVerif.Proofs.C13

