import NodisVerif.Model.DsList
import NodisVerif.Model.WF
import NodisVerif.Spec.List
/-
  Helper lemmas for property C02 (lists behave as exact sequences).
-/
namespace NodisVerif.Proofs.C02
open NodisVerif

/-- the elements whose (offset) position lies in the integer window `[lo, hi]` -/
theorem window (xs : List Bytes) (k : Nat) (lo hi : Int) :
    ((xs.zipIdx k).filter (fun p => decide (lo ≤ (p.2 : Int) ∧ (p.2 : Int) ≤ hi))).map (·.1)
      = (xs.drop (lo - k).toNat).take (hi + 1 - max lo k).toNat := by
  induction xs generalizing k with
  | nil => simp
  | cons x xs ih =>
    rw [List.zipIdx_cons, List.filter_cons]
    by_cases h1 : lo ≤ (k : Int)
    · by_cases h2 : (k : Int) ≤ hi
      · have e1 : (lo - (k : Int)).toNat = 0 := by omega
        have e2 : (hi + 1 - max lo (k : Int)).toNat = (hi + 1 - max lo ((k + 1 : Nat) : Int)).toNat + 1 := by omega
        have e3 : (lo - ((k + 1 : Nat) : Int)).toNat = 0 := by omega
        simp only [h1, h2, and_self, decide_true, if_true, List.map_cons, ih, e1, e2, e3,
          List.drop_zero, List.take_succ_cons]
      · have e1 : (hi + 1 - max lo (k : Int)).toNat = 0 := by omega
        have e2 : (hi + 1 - max lo ((k + 1 : Nat) : Int)).toNat = 0 := by omega
        have hd : decide (lo ≤ (k : Int) ∧ (k : Int) ≤ hi) = false := by simp [h2]
        simp only [hd, Bool.false_eq_true, if_false, ih, e1, e2, List.take_zero]
    · have e1 : (lo - (k : Int)).toNat = (lo - ((k + 1 : Nat) : Int)).toNat + 1 := by omega
      have e2 : max lo (k : Int) = max lo ((k + 1 : Nat) : Int) := by omega
      have hd : decide (lo ≤ (k : Int) ∧ (k : Int) ≤ hi) = false := by simp [h1]
      simp only [hd, Bool.false_eq_true, if_false, ih, e1, e2, List.drop_succ_cons]

/-- taking at least the whole list -/
theorem take_drop_clamp (xs : List Bytes) (a a' b b' : Nat)
    (h : a = a' ∧ min b (xs.length - a) = min b' (xs.length - a)) :
    (xs.drop a).take b = (xs.drop a').take b' := by
  obtain ⟨rfl, h⟩ := h
  rw [List.take_eq_take_iff, List.length_drop]; exact h

theorem forEach_eq (l : LList) (start stop : Int) :
    DsList.forEach l start stop = Spec.List.lrange l.items start stop := by
  unfold DsList.forEach DsList.size Spec.List.lrange Spec.List.absIndex
  have hw := window l.items 0
  simp only at hw ⊢
  rw [hw]
  generalize l.items = xs
  have nil_l : ∀ a b : Nat, min b (xs.length - a) = 0 → [] = (xs.drop a).take b := by
    intro a b h
    symm
    rw [← List.length_eq_zero_iff, List.length_take, List.length_drop]; exact h
  repeat' split
  all_goals first
    | rfl
    | omega
    | (apply nil_l; omega)
    | (symm; apply nil_l; omega)
    | (apply take_drop_clamp; omega)
    | skip

theorem ltrim_items (l : LList) (start stop : Int) :
    (DsList.ltrim l start stop).items = Spec.List.lrange l.items start stop := by
  unfold DsList.ltrim DsList.size Spec.List.lrange Spec.List.absIndex
  have hw := window l.items 0
  simp only at hw ⊢
  have hc : ∀ lo hi : Int, (fun (x : Bytes × Nat) => decide ¬((x.2 : Int) < lo ∨ (x.2 : Int) > hi))
      = (fun p => decide (lo ≤ (p.2 : Int) ∧ (p.2 : Int) ≤ hi)) := by
    intro lo hi; funext x; congr 1; apply propext; omega
  rw [hc, hw]
  generalize l.items = xs
  have nil_l : ∀ a b : Nat, min b (xs.length - a) = 0 → [] = (xs.drop a).take b := by
    intro a b h
    symm
    rw [← List.length_eq_zero_iff, List.length_take, List.length_drop]; exact h
  repeat' split
  all_goals first
    | rfl
    | omega
    | (apply nil_l; omega)
    | (symm; apply nil_l; omega)
    | (apply take_drop_clamp; omega)
    | skip

/-! ## cached length -/

theorem lpush_eq (l : LList) (data : List Bytes) :
    DsList.lpush l data = { items := data.reverse ++ l.items, length := l.length + data.length } := by
  unfold DsList.lpush
  induction data generalizing l with
  | nil => simp
  | cons d ds ih =>
    rw [List.foldl_cons, ih]
    simp only [List.reverse_cons, List.append_assoc, List.singleton_append, List.length_cons,
      LList.mk.injEq, true_and]
    omega

theorem rpush_eq (l : LList) (data : List Bytes) :
    DsList.rpush l data = { items := l.items ++ data, length := l.length + data.length } := by
  unfold DsList.rpush
  induction data generalizing l with
  | nil => simp
  | cons d ds ih =>
    rw [List.foldl_cons, ih]
    simp only [List.append_assoc, List.singleton_append, List.length_cons, LList.mk.injEq, true_and]
    omega

theorem insertAt_eq (xs : List Bytes) (pivot v : Bytes) (before : Bool) :
    DsList.insertAt xs pivot v before = Spec.List.linsert xs pivot v before := by
  unfold Spec.List.linsert
  induction xs with
  | nil => simp [DsList.insertAt]
  | cons x xs ih =>
    rw [DsList.insertAt, List.findIdx?_cons]
    by_cases h : x = pivot
    · cases before <;> simp [h]
    · simp only [h, if_false, decide_false, Bool.false_eq_true, ih]
      cases xs.findIdx? (fun x => decide (x = pivot)) with
      | none => simp
      | some i => cases before <;> simp

theorem insertAt_length (xs : List Bytes) (pivot v : Bytes) (before : Bool) (ys : List Bytes)
    (h : DsList.insertAt xs pivot v before = some ys) : ys.length = xs.length + 1 := by
  induction xs generalizing ys with
  | nil => simp [DsList.insertAt] at h
  | cons x xs ih =>
    rw [DsList.insertAt] at h
    split at h
    · cases before <;> simp at h <;> subst h <;> simp
    · cases hr : DsList.insertAt xs pivot v before with
      | none => simp [hr] at h
      | some zs =>
        simp [hr] at h; subst h
        simp [ih zs hr]

/-! ## LREM -/

/-- `Spec.List.occurrences` with a position offset -/
def occJ (xs : List Bytes) (v : Bytes) (j : Nat) : List Nat :=
  ((xs.zipIdx j).filter fun p => p.1 = v).map (·.2)

/-- `Spec.List.removeAt` with a position offset -/
def remJ (xs : List Bytes) (victims : List Nat) (j : Nat) : List Bytes :=
  ((xs.zipIdx j).filter fun p => !victims.contains p.2).map (·.1)

theorem occ_eq (xs : List Bytes) (v : Bytes) : Spec.List.occurrences xs v = occJ xs v 0 := rfl
theorem rem_eq (xs : List Bytes) (T : List Nat) : Spec.List.removeAt xs T = remJ xs T 0 := rfl

theorem occJ_ge (xs : List Bytes) (v : Bytes) (j i : Nat) (h : i ∈ occJ xs v j) : j ≤ i := by
  unfold occJ at h
  simp only [List.mem_map, List.mem_filter] at h
  obtain ⟨p, ⟨hp, _⟩, rfl⟩ := h
  exact List.le_snd_of_mem_zipIdx hp

theorem occJ_lt (xs : List Bytes) (v : Bytes) (j i : Nat) (h : i ∈ occJ xs v j) : i < xs.length + j := by
  unfold occJ at h
  simp only [List.mem_map, List.mem_filter] at h
  obtain ⟨p, ⟨hp, _⟩, rfl⟩ := h
  exact List.snd_lt_of_mem_zipIdx hp

theorem remJ_nil (xs : List Bytes) (j : Nat) : remJ xs [] j = xs := by
  unfold remJ
  have : ((xs.zipIdx j).filter fun p => !([] : List Nat).contains p.2) = xs.zipIdx j := by
    rw [List.filter_eq_self]; intro a _; simp
  rw [this]
  exact List.zipIdx_map_fst j xs

/-- victims outside the index range of `xs` are irrelevant -/
theorem remJ_congr (xs : List Bytes) (T T' : List Nat) (j : Nat)
    (h : ∀ i, j ≤ i → i < xs.length + j → (i ∈ T ↔ i ∈ T')) : remJ xs T j = remJ xs T' j := by
  unfold remJ
  congr 1
  apply List.filter_congr
  intro p hp
  have h1 := List.le_snd_of_mem_zipIdx hp
  have h2 := List.snd_lt_of_mem_zipIdx hp
  have := h p.2 h1 h2
  simp only [List.contains_eq_mem]
  simp only [this]

theorem removeFirst_eq (xs : List Bytes) (v : Bytes) (k j : Nat) :
    DsList.removeFirst xs v k = (remJ xs ((occJ xs v j).take k) j, ((occJ xs v j).take k).length) := by
  induction xs generalizing k j with
  | nil => cases k <;> simp [DsList.removeFirst, remJ, occJ]
  | cons x xs ih =>
    cases k with
    | zero => simp [DsList.removeFirst, remJ_nil]
    | succ k =>
      rw [DsList.removeFirst]
      by_cases hx : x = v
      · have ho : occJ (x :: xs) v j = j :: occJ xs v (j + 1) := by simp [occJ, hx]
        rw [ho, List.take_succ_cons, ih k (j + 1)]
        simp only [hx, if_true, List.length_cons, Prod.mk.injEq, and_true]
        have : remJ (v :: xs) (j :: (occJ xs v (j+1)).take k) j = remJ xs (j :: (occJ xs v (j+1)).take k) (j+1) := by
          simp [remJ]
        rw [this]
        apply remJ_congr
        intro i h1 h2
        simp only [List.mem_cons]
        constructor
        · intro h; exact Or.inr h
        · intro h; rcases h with h | h
          · omega
          · exact h
      · have ho : occJ (x :: xs) v j = occJ xs v (j + 1) := by simp [occJ, hx]
        rw [ho, ih (k + 1) (j + 1)]
        simp only [hx, if_false, Prod.mk.injEq, and_true]
        have hj : j ∉ (occJ xs v (j + 1)).take (k + 1) := by
          intro hm
          have := occJ_ge xs v (j+1) j (List.mem_of_mem_take hm)
          omega
        simp [remJ, hj]

theorem occJ_snoc (xs : List Bytes) (a v : Bytes) :
    occJ (xs ++ [a]) v 0 = occJ xs v 0 ++ (if a = v then [xs.length] else []) := by
  unfold occJ
  rw [List.zipIdx_append]
  by_cases h : a = v <;> simp [h]

theorem remJ_snoc (xs : List Bytes) (a : Bytes) (T : List Nat) :
    remJ (xs ++ [a]) T 0 = remJ xs T 0 ++ (if xs.length ∈ T then [] else [a]) := by
  unfold remJ
  rw [List.zipIdx_append]
  by_cases h : xs.length ∈ T <;> simp [h]

theorem removeFirst_reverse (ys : List Bytes) (v : Bytes) (k : Nat) :
    ((DsList.removeFirst ys v k).1.reverse, (DsList.removeFirst ys v k).2) =
      (remJ ys.reverse ((occJ ys.reverse v 0).drop ((occJ ys.reverse v 0).length - k)) 0,
       ((occJ ys.reverse v 0).drop ((occJ ys.reverse v 0).length - k)).length) := by
  induction ys generalizing k with
  | nil => cases k <;> simp [DsList.removeFirst, remJ, occJ]
  | cons a ys ih =>
    cases k with
    | zero => simp [DsList.removeFirst, remJ_nil]
    | succ k =>
      rw [DsList.removeFirst, List.reverse_cons, occJ_snoc]
      by_cases hx : a = v
      · have ih' := ih k
        rw [Prod.mk.injEq] at ih'
        obtain ⟨ih1, ih2⟩ := ih'
        generalize hocc : occJ ys.reverse v 0 = occ at *
        have hd : (occ ++ [ys.reverse.length]).drop ((occ ++ [ys.reverse.length]).length - (k + 1))
            = occ.drop (occ.length - k) ++ [ys.reverse.length] := by
          have e : (occ ++ [ys.reverse.length]).length - (k + 1) = occ.length - k := by
            rw [List.length_append, List.length_singleton]; omega
          rw [e, List.drop_append_of_le_length (by omega)]
        simp only [hx, if_true, hd, Prod.mk.injEq]
        refine ⟨?_, by simp [ih2]⟩
        rw [remJ_snoc, ih1]
        simp only [List.mem_append, List.mem_singleton, or_true, if_true, List.append_nil]
        apply remJ_congr
        intro i _ h2
        simp only [List.mem_append, List.mem_singleton]
        constructor
        · intro h; exact Or.inl h
        · intro h; rcases h with h | h
          · exact h
          · omega
      · have ih' := ih (k + 1)
        rw [Prod.mk.injEq] at ih'
        obtain ⟨ih1, ih2⟩ := ih'
        simp only [hx, if_false, List.append_nil, List.reverse_cons, Prod.mk.injEq]
        refine ⟨?_, ih2⟩
        rw [remJ_snoc, ih1]
        have hn : ys.reverse.length ∉ (occJ ys.reverse v 0).drop ((occJ ys.reverse v 0).length - (k + 1)) := by
          intro hm
          have := occJ_lt ys.reverse v 0 _ (List.mem_of_mem_drop hm)
          omega
        rw [if_neg hn]

theorem removeAll_eq (xs : List Bytes) (v : Bytes) (j : Nat) :
    remJ xs (occJ xs v j) j = xs.filter (· ≠ v) ∧
    (occJ xs v j).length = xs.length - (xs.filter (· ≠ v)).length := by
  induction xs generalizing j with
  | nil => simp [remJ, occJ]
  | cons x xs ih =>
    obtain ⟨ih1, ih2⟩ := ih (j + 1)
    have hle : (xs.filter (· ≠ v)).length ≤ xs.length := List.length_filter_le _ _
    by_cases hx : x = v
    · have ho : occJ (x :: xs) v j = j :: occJ xs v (j + 1) := by simp [occJ, hx]
      rw [ho]
      constructor
      · have : remJ (x :: xs) (j :: occJ xs v (j+1)) j = remJ xs (j :: occJ xs v (j+1)) (j+1) := by
          simp [remJ]
        rw [this, List.filter_cons_of_neg (by simp [hx]), ← ih1]
        apply remJ_congr
        intro i h1 h2
        simp only [List.mem_cons]
        constructor
        · intro h; rcases h with h | h
          · omega
          · exact h
        · intro h; exact Or.inr h
      · rw [List.filter_cons_of_neg (by simp [hx]), List.length_cons, List.length_cons, ih2]
        omega
    · have ho : occJ (x :: xs) v j = occJ xs v (j + 1) := by simp [occJ, hx]
      rw [ho]
      have hj : j ∉ occJ xs v (j + 1) := by
        intro hm
        have := occJ_ge xs v (j+1) j hm
        omega
      constructor
      · rw [List.filter_cons_of_pos (by simp [hx]), ← ih1]
        simp [remJ, hj]
      · rw [List.filter_cons_of_pos (by simp [hx]), List.length_cons, List.length_cons, ih2]
        omega

theorem lrem_eq (l : LList) (count : Int) (v : Bytes) :
    DsList.lrem l count v =
      ({ items := (Spec.List.lrem l.items count v).1,
         length := l.length - ((Spec.List.lrem l.items count v).2 : Nat) },
       (((Spec.List.lrem l.items count v).2 : Nat) : Int)) := by
  unfold DsList.lrem Spec.List.lrem
  simp only [occ_eq, rem_eq]
  by_cases h1 : count > 0
  · simp only [h1, if_true]
    rw [removeFirst_eq l.items v count.toNat 0]
  · by_cases h2 : count < 0
    · simp only [h1, h2, if_true, if_false]
      have := removeFirst_reverse l.items.reverse v (-count).toNat
      rw [List.reverse_reverse, Prod.mk.injEq] at this
      obtain ⟨e1, e2⟩ := this
      rw [← e1, ← e2]
    · simp only [h1, h2, if_false]
      obtain ⟨e1, e2⟩ := removeAll_eq l.items v 0
      rw [e1, e2]

/-! ## the cached counter -/

theorem removeFirst_length (xs : List Bytes) (v : Bytes) (k : Nat) :
    (DsList.removeFirst xs v k).1.length + (DsList.removeFirst xs v k).2 = xs.length := by
  induction xs generalizing k with
  | nil => cases k <;> simp [DsList.removeFirst]
  | cons x xs ih =>
    cases k with
    | zero => simp [DsList.removeFirst]
    | succ k =>
      rw [DsList.removeFirst]
      split
      · have := ih k; simp only [List.length_cons]; omega
      · have := ih (k + 1); simp only [List.length_cons]; omega

theorem empty_wf : DsList.empty.WF := rfl

theorem lpush_wf (l : LList) (h : l.WF) (data : List Bytes) : (DsList.lpush l data).WF := by
  unfold LList.WF at *
  rw [lpush_eq]; simp only [List.length_append, List.length_reverse]; omega

theorem rpush_wf (l : LList) (h : l.WF) (data : List Bytes) : (DsList.rpush l data).WF := by
  unfold LList.WF at *
  rw [rpush_eq]; simp only [List.length_append]; omega

theorem lpop_wf (l : LList) (h : l.WF) (count : Int) : (DsList.lpop l count).1.WF := by
  unfold LList.WF at *
  unfold DsList.lpop
  split
  · exact h
  · simp only
    split
    · exact h
    · simp only [List.length_drop]; omega

theorem rpop_wf (l : LList) (h : l.WF) (count : Int) : (DsList.rpop l count).1.WF := by
  unfold LList.WF at *
  unfold DsList.rpop
  split
  · exact h
  · simp only
    split
    · exact h
    · simp only [List.length_take]; omega

theorem linsert_wf (l : LList) (h : l.WF) (pivot v : Bytes) (before : Bool) :
    (DsList.linsert l pivot v before).1.WF := by
  unfold LList.WF at *
  unfold DsList.linsert
  split
  · exact h
  · rename_i xs hx
    simp only [insertAt_length _ _ _ _ _ hx]; omega

theorem lrem_wf (l : LList) (h : l.WF) (count : Int) (v : Bytes) : (DsList.lrem l count v).1.WF := by
  unfold LList.WF at *
  unfold DsList.lrem
  split
  · have := removeFirst_length l.items v count.toNat
    simp only; omega
  · split
    · have := removeFirst_length l.items.reverse v (-count).toNat
      simp only [List.length_reverse] at this ⊢; omega
    · have hle : (l.items.filter (· ≠ v)).length ≤ l.items.length := List.length_filter_le _ _
      simp only; omega

theorem lset_wf (l : LList) (h : l.WF) (i : Int) (v : Bytes) : (DsList.lset l i v).1.WF := by
  unfold LList.WF at *
  unfold DsList.lset
  simp only
  generalize (if i < 0 then l.length + i else i) = j
  split
  · exact h
  · simp only [List.length_set]; exact h

theorem ltrim_wf (l : LList) (h : l.WF) (start stop : Int) : (DsList.ltrim l start stop).WF := by
  unfold LList.WF at *
  unfold DsList.ltrim
  simp only [List.length_map]
  have hle := List.length_filter_le (fun (x : Bytes × Nat) => decide ¬((x.2 : Int) <
      (if start < 0 then DsList.size l + start else start) ∨ (x.2 : Int) >
      (if stop < 0 then DsList.size l + stop else stop))) l.items.zipIdx
  rw [List.length_zipIdx] at hle
  omega

/-! ## single-index commands -/

theorem lindex_eq (l : LList) (h : l.WF) (i : Int) :
    DsList.lindex l i = Spec.List.lindex l.items i := by
  unfold DsList.lindex Spec.List.lindex Spec.List.absIndex
  rw [h]

theorem lset_eq (l : LList) (h : l.WF) (i : Int) (v : Bytes) :
    DsList.lset l i v =
      match Spec.List.lset l.items i v with
      | none => (l, false)
      | some xs => ({ items := xs, length := l.length }, true) := by
  unfold DsList.lset Spec.List.lset Spec.List.absIndex
  rw [h]
  simp only
  generalize (if i < 0 then (l.items.length : Int) + i else i) = j
  split
  · rfl
  · rename_i hh
    have : j.toNat < l.items.length := by omega
    simp only [List.set_eq_take_append_cons_drop, this, if_true]

theorem linsert_eq (l : LList) (pivot v : Bytes) (before : Bool) :
    DsList.linsert l pivot v before =
      match Spec.List.linsert l.items pivot v before with
      | none => (l, -1)
      | some xs => ({ items := xs, length := l.length + 1 }, l.length + 1) := by
  unfold DsList.linsert
  rw [insertAt_eq]
  cases Spec.List.linsert l.items pivot v before <;> rfl

/-! ## pops -/

theorem lpop_eq (l : LList) (count : Int) :
    DsList.lpop l count =
      if l.items = [] ∨ count ≤ 0 then (l, none)
      else ({ items := (Spec.List.lpop l.items count.toNat).2,
              length := l.length - (min count.toNat l.items.length : Nat) },
            some (Spec.List.lpop l.items count.toNat).1) := by
  unfold DsList.lpop Spec.List.lpop
  cases hxs : l.items with
  | nil => simp
  | cons x xs =>
    simp only [List.isEmpty_cons, Bool.false_eq_true, if_false, reduceCtorEq, false_or]
    by_cases hc : count ≤ 0
    · have : min count.toNat (x :: xs).length = 0 := by simp only [List.length_cons]; omega
      simp only [hc, this, if_true]
    · have : ¬ min count.toNat (x :: xs).length = 0 := by simp only [List.length_cons]; omega
      simp only [hc, this, if_false]

theorem rpop_eq (l : LList) (count : Int) :
    DsList.rpop l count =
      if l.items = [] ∨ count ≤ 0 then (l, none)
      else ({ items := (Spec.List.rpop l.items count.toNat).2,
              length := l.length - (min count.toNat l.items.length : Nat) },
            some (Spec.List.rpop l.items count.toNat).1) := by
  unfold DsList.rpop Spec.List.rpop
  cases hxs : l.items with
  | nil => simp
  | cons x xs =>
    simp only [List.isEmpty_cons, Bool.false_eq_true, if_false, reduceCtorEq, false_or]
    by_cases hc : count ≤ 0
    · have : min count.toNat (x :: xs).length = 0 := by simp only [List.length_cons]; omega
      simp only [hc, this, if_true]
    · have : ¬ min count.toNat (x :: xs).length = 0 := by simp only [List.length_cons]; omega
      simp only [hc, this, if_false]

/-! ## round trips and rotation -/

theorem lrange_full (xs : List Bytes) : Spec.List.lrange xs 0 (-1) = xs := by
  unfold Spec.List.lrange Spec.List.absIndex
  cases xs with
  | nil => simp
  | cons x xs =>
    have e1 : ¬ ((0 : Int) < 0) := by omega
    have e2 : ((-1 : Int) < 0) := by omega
    have e3 : ¬ (((x :: xs).length : Int) + -1 ≥ ((x :: xs).length : Int)) := by omega
    have e4 : ¬ ((0 : Int) > ((x :: xs).length : Int) + -1 ∨ (0 : Int) ≥ ((x :: xs).length : Int)) := by
      simp only [List.length_cons]; omega
    simp only [e1, e2, e3, e4, if_true, if_false]
    have e5 : (((x :: xs).length : Int) + -1 - 0 + 1).toNat = (x :: xs).length := by omega
    rw [e5]
    simp

theorem rotate_left (src dst : LList) :
    let p := DsList.lpop src 1
    let dst' := DsList.rpush dst (p.2.getD [])
    (p.1.items ++ dst'.items).Perm (src.items ++ dst.items) ∧
    (src.items = [] → p = (src, none) ∧ dst' = dst) ∧
    (∀ x rest, src.items = x :: rest →
      p.1.items = rest ∧ p.2 = some [x] ∧ dst'.items = dst.items ++ [x]) := by
  intro p dst'
  cases hsrc : src.items with
  | nil =>
    have hp : p = (src, none) := by simp [p, DsList.lpop, hsrc]
    have hd : dst' = dst := by simp [dst', hp, DsList.rpush]
    refine ⟨?_, fun _ => ⟨hp, hd⟩, ?_⟩
    · rw [hd, hp]; simp [hsrc]
    · intro x rest h; cases h
  | cons x rest =>
    have hp : p = ({ items := rest, length := src.length - (1 : Nat) }, some [x]) := by
      simp [p, DsList.lpop, hsrc]
    have hd : dst'.items = dst.items ++ [x] := by simp [dst', hp, rpush_eq]
    refine ⟨?_, ?_, ?_⟩
    · rw [hd, hp]
      simp only
      rw [← List.append_assoc, List.cons_append]
      exact List.perm_append_singleton x (rest ++ dst.items)
    · intro h; cases h
    · intro x' rest' h
      simp only [List.cons.injEq] at h
      obtain ⟨rfl, rfl⟩ := h
      exact ⟨by rw [hp], by rw [hp], hd⟩

theorem rotate_right (src dst : LList) :
    let p := DsList.rpop src 1
    let dst' := DsList.lpush dst (p.2.getD [])
    (p.1.items ++ dst'.items).Perm (src.items ++ dst.items) ∧
    (src.items = [] → p = (src, none) ∧ dst' = dst) ∧
    (∀ init x, src.items = init ++ [x] →
      p.1.items = init ∧ p.2 = some [x] ∧ dst'.items = x :: dst.items) := by
  intro p dst'
  have key : ∀ init x, src.items = init ++ [x] →
      p = ({ items := init, length := src.length - (1 : Nat) }, some [x]) := by
    intro init x h
    have hne : src.items.isEmpty = false := by rw [h]; simp
    have hlen : src.items.length = init.length + 1 := by rw [h]; simp
    have hk : min (1 : Int).toNat src.items.length = 1 := by rw [hlen]; simp
    simp only [p, DsList.rpop, hne, Bool.false_eq_true, if_false, hk, Nat.one_ne_zero]
    rw [hlen, h]
    simp
  cases hsrc : src.items.reverse with
  | nil =>
    have hsrc' : src.items = [] := by simpa using hsrc
    have hp : p = (src, none) := by simp [p, DsList.rpop, hsrc']
    have hd : dst' = dst := by simp [dst', hp, DsList.lpush]
    refine ⟨?_, fun _ => ⟨hp, hd⟩, ?_⟩
    · rw [hd, hp]
    · intro init x h; rw [hsrc'] at h; simp at h
  | cons x rinit =>
    have hsrc' : src.items = rinit.reverse ++ [x] := by
      have := congrArg List.reverse hsrc; simpa using this
    have hp := key _ _ hsrc'
    have hd : dst'.items = x :: dst.items := by simp [dst', hp, lpush_eq]
    refine ⟨?_, ?_, ?_⟩
    · rw [hd, hp, hsrc']
      simp
    · intro h; rw [h] at hsrc'; simp at hsrc'
    · intro init x' h
      have hp' := key init x' h
      have hd' : dst'.items = x' :: dst.items := by simp [dst', hp', lpush_eq]
      exact ⟨by rw [hp'], by rw [hp'], hd'⟩

/-! ## command sequences -/

/-- one command on the model list, with the reply the API layer (`Model/Api.lean`, list.go) derives
    from the data-structure call: push → `llen`, pop → popped elements (nil rendered as empty),
    linsert / lrem → returned integer, lset → success flag -/
def modelStep (l : LList) : Spec.List.Cmd → LList × Spec.List.Reply
  | .lpush data => (DsList.lpush l data, .int (DsList.llen (DsList.lpush l data)))
  | .rpush data => (DsList.rpush l data, .int (DsList.llen (DsList.rpush l data)))
  | .lpop count => ((DsList.lpop l count).1, .arr ((DsList.lpop l count).2.getD []))
  | .rpop count => ((DsList.rpop l count).1, .arr ((DsList.rpop l count).2.getD []))
  | .llen => (l, .int (DsList.llen l))
  | .lindex i => (l, .bulk (DsList.lindex l i))
  | .lrange start stop => (l, .arr (DsList.lrange l start stop))
  | .linsert pivot v before =>
    ((DsList.linsert l pivot v before).1, .int (DsList.linsert l pivot v before).2)
  | .lset i v => ((DsList.lset l i v).1, .ok (DsList.lset l i v).2)
  | .lrem count v => ((DsList.lrem l count v).1, .int (DsList.lrem l count v).2)
  | .ltrim start stop => (DsList.ltrim l start stop, .unit)

theorem modelStep_refines (l : LList) (h : l.WF) (c : Spec.List.Cmd) :
    (modelStep l c).1.WF ∧
    (modelStep l c).1.items = (Spec.List.step l.items c).1 ∧
    (modelStep l c).2 = (Spec.List.step l.items c).2 := by
  have hl : l.length = l.items.length := h
  cases c with
  | lpush data =>
    refine ⟨lpush_wf l h data, ?_, ?_⟩
    · simp [modelStep, Spec.List.step, lpush_eq, Spec.List.lpush]
    · simp [modelStep, Spec.List.step, lpush_eq, DsList.llen, hl]
  | rpush data =>
    refine ⟨rpush_wf l h data, ?_, ?_⟩
    · simp [modelStep, Spec.List.step, rpush_eq, Spec.List.rpush]
    · simp [modelStep, Spec.List.step, rpush_eq, DsList.llen, hl]
  | lpop count =>
    refine ⟨lpop_wf l h count, ?_, ?_⟩
    · simp only [modelStep, Spec.List.step, lpop_eq]
      split
      · rename_i hc
        rcases hc with hc | hc
        · simp [Spec.List.lpop, hc]
        · have : count.toNat = 0 := by omega
          simp [Spec.List.lpop, this]
      · rfl
    · simp only [modelStep, Spec.List.step, lpop_eq]
      split
      · rename_i hc
        rcases hc with hc | hc
        · simp [Spec.List.lpop, hc]
        · have : count.toNat = 0 := by omega
          simp [Spec.List.lpop, this]
      · rfl
  | rpop count =>
    refine ⟨rpop_wf l h count, ?_, ?_⟩
    · simp only [modelStep, Spec.List.step, rpop_eq]
      split
      · rename_i hc
        rcases hc with hc | hc
        · simp [Spec.List.rpop, hc]
        · have : count.toNat = 0 := by omega
          simp [Spec.List.rpop, this]
      · rfl
    · simp only [modelStep, Spec.List.step, rpop_eq]
      split
      · rename_i hc
        rcases hc with hc | hc
        · simp [Spec.List.rpop, hc]
        · have : count.toNat = 0 := by omega
          simp [Spec.List.rpop, this]
      · rfl
  | llen => exact ⟨h, rfl, by simp [modelStep, Spec.List.step, DsList.llen, hl]⟩
  | lindex i => exact ⟨h, rfl, by simp [modelStep, Spec.List.step, lindex_eq l h]⟩
  | lrange start stop =>
    exact ⟨h, rfl, by simp [modelStep, Spec.List.step, DsList.lrange, forEach_eq]⟩
  | linsert pivot v before =>
    refine ⟨linsert_wf l h pivot v before, ?_, ?_⟩
    · simp only [modelStep, Spec.List.step, linsert_eq]
      cases Spec.List.linsert l.items pivot v before <;> rfl
    · have hw := linsert_wf l h pivot v before
      simp only [modelStep, Spec.List.step]
      rw [linsert_eq] at hw ⊢
      cases hs : Spec.List.linsert l.items pivot v before with
      | none => rfl
      | some ys =>
        rw [hs] at hw
        simp only [LList.WF] at hw
        simp only [hw]
  | lset i v =>
    refine ⟨lset_wf l h i v, ?_, ?_⟩
    · simp only [modelStep, Spec.List.step, lset_eq l h]
      cases Spec.List.lset l.items i v <;> rfl
    · simp only [modelStep, Spec.List.step, lset_eq l h]
      cases Spec.List.lset l.items i v <;> rfl
  | lrem count v =>
    refine ⟨lrem_wf l h count v, ?_, ?_⟩
    · simp only [modelStep, Spec.List.step, lrem_eq]
    · simp only [modelStep, Spec.List.step, lrem_eq]
  | ltrim start stop =>
    exact ⟨ltrim_wf l h start stop, ltrim_items l start stop, rfl⟩

theorem run_refines (l : LList) (h : l.WF) (cs : List Spec.List.Cmd) :
    (Spec.List.run modelStep l cs).1.WF ∧
    (Spec.List.run modelStep l cs).1.items = (Spec.List.run Spec.List.step l.items cs).1 ∧
    (Spec.List.run modelStep l cs).2 = (Spec.List.run Spec.List.step l.items cs).2 := by
  induction cs generalizing l with
  | nil => exact ⟨h, rfl, rfl⟩
  | cons c cs ih =>
    obtain ⟨h1, h2, h3⟩ := modelStep_refines l h c
    obtain ⟨i1, i2, i3⟩ := ih (modelStep l c).1 h1
    simp only [Spec.List.run]
    rw [← h2, ← h3]
    exact ⟨i1, i2, by rw [i3]⟩

/-! ## sanity of the reference semantics itself (alternative formulations) -/

/-- RPOP is LPOP on the mirrored sequence -/
theorem spec_rpop_mirror (xs : List Bytes) (k : Nat) :
    Spec.List.rpop xs k =
      ((Spec.List.lpop xs.reverse k).1, (Spec.List.lpop xs.reverse k).2.reverse) := by
  unfold Spec.List.rpop Spec.List.lpop
  simp only [List.length_reverse, Prod.mk.injEq]
  have hk : min k xs.length ≤ xs.length := Nat.min_le_right _ _
  constructor
  · rw [List.take_reverse]
  · rw [List.drop_reverse, List.reverse_reverse]

/-- LREM with a negative count is LREM with the positive count on the mirrored sequence -/
theorem spec_lrem_mirror (xs : List Bytes) (v : Bytes) (c : Int) (h : c < 0) :
    Spec.List.lrem xs c v =
      ((Spec.List.lrem xs.reverse (-c) v).1.reverse, (Spec.List.lrem xs.reverse (-c) v).2) := by
  have h1 : ¬ c > 0 := by omega
  have h2 : -c > 0 := by omega
  have e := removeFirst_reverse xs.reverse v (-c).toNat
  rw [List.reverse_reverse] at e
  have e' := removeFirst_eq xs.reverse v (-c).toNat 0
  unfold Spec.List.lrem
  simp only [h1, h, h2, if_true, if_false, occ_eq, rem_eq]
  rw [← e, e']

/-- what LREM keeps is a subsequence (nothing reordered, duplicated or altered) ... -/
theorem spec_removeAt_sublist (xs : List Bytes) (T : List Nat) :
    (Spec.List.removeAt xs T).Sublist xs := by
  unfold Spec.List.removeAt
  have h1 : ((xs.zipIdx.filter fun p => !T.contains p.2).map (·.1)).Sublist (xs.zipIdx.map (·.1)) :=
    List.Sublist.map _ List.filter_sublist
  have h2 : xs.zipIdx.map (·.1) = xs := List.zipIdx_map_fst 0 xs
  rw [h2] at h1; exact h1

/-- ... and element count is conserved: kept + removed = before -/
theorem spec_lrem_length (xs : List Bytes) (c : Int) (v : Bytes) :
    (Spec.List.lrem xs c v).1.length + (Spec.List.lrem xs c v).2 = xs.length := by
  have h := lrem_wf { items := xs, length := xs.length } rfl c v
  rw [lrem_eq] at h
  simp only [LList.WF] at h
  have hle : (Spec.List.lrem xs c v).2 ≤ xs.length := by
    unfold Spec.List.lrem
    simp only [occ_eq]
    have ho : (occJ xs v 0).length ≤ xs.length := by
      rw [(removeAll_eq xs v 0).2]; omega
    split
    · simp only [List.length_take]; omega
    · split
      · simp only [List.length_drop]; omega
      · exact ho
  omega

/-- every removed position held `v`: the other elements are untouched -/
theorem spec_lrem_others (xs : List Bytes) (c : Int) (v : Bytes) :
    (Spec.List.lrem xs c v).1.filter (· ≠ v) = xs.filter (· ≠ v) := by
  have hsub : ∀ T : List Nat, (∀ i ∈ T, i ∈ occJ xs v 0) →
      (remJ xs T 0).filter (· ≠ v) = xs.filter (· ≠ v) := by
    intro T hT
    unfold remJ
    rw [List.filter_map, List.filter_filter]
    have : (xs.zipIdx.filter fun a => ((fun x => decide (x ≠ v)) ∘ fun x => x.1) a && !T.contains a.2)
        = xs.zipIdx.filter ((fun x => decide (x ≠ v)) ∘ fun x => x.1) := by
      apply List.filter_congr
      intro p hp
      by_cases hpv : p.1 = v
      · simp [hpv]
      · have : p.2 ∉ T := by
          intro hm
          have := hT _ hm
          unfold occJ at this
          simp only [List.mem_map, List.mem_filter, decide_eq_true_eq] at this
          obtain ⟨q, ⟨hq, hqv⟩, hq2⟩ := this
          have e1 := List.mem_zipIdx_iff_getElem?.mp hq
          have e2 := List.mem_zipIdx_iff_getElem?.mp hp
          rw [hq2, e2] at e1
          simp only [Option.some.injEq] at e1
          exact hpv (e1 ▸ hqv)
        simp [this]
    rw [this, ← List.filter_map, List.zipIdx_map_fst]
  unfold Spec.List.lrem
  simp only [occ_eq, rem_eq]
  apply hsub
  intro i hi
  split at hi
  · exact List.mem_of_mem_take hi
  · split at hi
    · exact List.mem_of_mem_drop hi
    · exact hi

theorem occJ_length (xs : List Bytes) (v : Bytes) (j : Nat) : (occJ xs v j).length = xs.count v := by
  induction xs generalizing j with
  | nil => rfl
  | cons x xs ih =>
    by_cases hx : x = v
    · have ho : occJ (x :: xs) v j = j :: occJ xs v (j + 1) := by simp [occJ, hx]
      rw [ho, List.length_cons, ih, hx, List.count_cons_self]
    · have ho : occJ (x :: xs) v j = occJ xs v (j + 1) := by simp [occJ, hx]
      rw [ho, ih, List.count_cons_of_ne hx]

/-- the number LREM reports: min(|count|, occurrences), all occurrences for count 0 -/
theorem spec_lrem_count (xs : List Bytes) (c : Int) (v : Bytes) :
    (Spec.List.lrem xs c v).2 = if c = 0 then xs.count v else min c.natAbs (xs.count v) := by
  unfold Spec.List.lrem
  simp only [occ_eq]
  split
  · rename_i h
    have : ¬ c = 0 := by omega
    simp only [this, if_false, List.length_take, occJ_length]
    omega
  · split
    · rename_i h1 h2
      have : ¬ c = 0 := by omega
      simp only [this, if_false, List.length_drop, occJ_length]
      omega
    · rename_i h1 h2
      have : c = 0 := by omega
      simp only [this, if_true, occJ_length]

end NodisVerif.Proofs.C02
