import NodisVerif.Proofs.C13Crash
/-
  C13, part 4: the invariant of the crash-safety theorems — every index record agrees with the
  backend about what is stored for its name — and that `newStore` establishes it on ANY well-formed
  backend content (in particular on one with two entries for a name, left by a kill between the SET
  and the DELETE of `persist`): it deletes every shadowed entry.
-/
namespace NodisVerif.C13
open NodisVerif NodisVerif.Store
open NodisVerif.Proofs.AListLemmas NodisVerif.Proofs.AListLemmas2 NodisVerif.Proofs.C13

/-- the invariant: backend well-formed, index sorted (distinct names), every record agrees with the
    backend: the entry it says is stored is there, and no other entry of its name -/
structure StoreAgrees (s : MState) : Prop where
  diskWF : DiskWF s.disk
  idxSorted : AList.Sorted s.index
  agrees : ∀ p ∈ s.index, DiskAgrees s p.1 p.2

theorem StoreAgrees.records {s : MState} (h : StoreAgrees s) : RecordsAgree s.disk s.index :=
  ⟨keys_nodup s.index h.idxSorted, h.agrees⟩

/-! ### the scan collects every shadowed entry -/

theorem scan_complete : ∀ (l : AList DiskEntry) (acc : AList Meta × List (Bytes × Int)),
    (∀ p ∈ acc.2, p ∈ (l.foldl reopenStep acc).2)
    ∧ (∀ n x, Shadowed l n x → (n, x) ∈ (l.foldl reopenStep acc).2)
    ∧ (∀ n m x, AList.get? acc.1 n = some m → m.stored = some x → (∃ q ∈ l, q.2.name = n) →
        (n, x) ∈ (l.foldl reopenStep acc).2) := by
  intro l
  induction l with
  | nil =>
    intro acc
    refine ⟨fun p hp => hp, fun n x h => (by cases h), ?_⟩
    intro n m x _ _ h
    obtain ⟨q, hq, _⟩ := h
    cases hq
  | cons a rest ih =>
    intro acc
    obtain ⟨k, e⟩ := a
    obtain ⟨i1, i2, i3⟩ := ih (reopenStep acc (k, e))
    have hsub : ∀ p ∈ acc.2, p ∈ (reopenStep acc (k, e)).2 := by
      intro p hp
      simp only [reopenStep]
      split
      · split
        · exact List.mem_cons_of_mem _ hp
        · exact hp
      · exact hp
    simp only [List.foldl_cons]
    refine ⟨fun p hp => i1 p (hsub p hp), ?_, ?_⟩
    · intro n x h
      rcases h with ⟨h1, h2, hq⟩ | h
      · apply i3 n (coldOf e) x _ _ hq
        · simp only [reopenStep, h1, get?_set_same]
        · simp only [coldOf, h2]
      · exact i2 n x h
    · intro n m x hg hs hq
      obtain ⟨q, hq, hqn⟩ := hq
      by_cases hn : e.name = n
      · apply i1
        simp only [reopenStep, hn, hg, hs]
        exact List.mem_cons_self
      · rcases List.mem_cons.mp hq with rfl | hq
        · exact absurd hqn hn
        · apply i3 n m x _ hs ⟨q, hq, hqn⟩
          simp only [reopenStep]
          rw [get?_set_other _ _ _ _ (fun x => hn x.symm)]
          exact hg

/-- an entry of a name that is not the last one of that name is shadowed -/
theorem shadowed_of_not_last : ∀ (d : AList DiskEntry) (n : Bytes) (k : Bytes) (e' e : DiskEntry),
    (k, e') ∈ d → e'.name = n → lastFor d n = some e → e' ≠ e → Shadowed d n e'.exp := by
  intro d
  induction d with
  | nil => intro n k e' e h; cases h
  | cons a rest ih =>
    intro n k e' e hm hn hl hne
    obtain ⟨k0, e0⟩ := a
    rcases List.mem_cons.mp hm with h | h
    · simp only [Prod.mk.injEq] at h
      obtain ⟨_, h2⟩ := h
      subst h2
      left
      refine ⟨hn, rfl, ?_⟩
      simp only [lastFor] at hl
      cases hr : lastFor rest n with
      | some e'' =>
        obtain ⟨h1, k'', h2⟩ := lastFor_mem rest n e'' hr
        exact ⟨(k'', e''), h2, h1⟩
      | none =>
        rw [hr] at hl
        simp only [hn, if_true, Option.some.injEq] at hl
        exact absurd hl hne
    · right
      obtain ⟨e'', he''⟩ := lastFor_isSome_of_mem rest n k e' h hn
      have := lastFor_cons_of_some (a := (k0, e0)) he''
      rw [this] at hl
      simp only [Option.some.injEq] at hl
      subst hl
      exact ih n k e' e'' h hn he'' hne

theorem eraseAll_subset : ∀ (sh : List (Bytes × Int)) (d : AList DiskEntry) (b : Bytes × DiskEntry),
    b ∈ eraseAll d sh → b ∈ d := by
  intro sh
  induction sh with
  | nil => intro d b h; exact h
  | cons p rest ih =>
    intro d b h
    exact mem_of_mem_erase d _ b (ih _ b h)

theorem eraseAll_sorted : ∀ (sh : List (Bytes × Int)) (d : AList DiskEntry), AList.Sorted d →
    AList.Sorted (eraseAll d sh) := by
  intro sh
  induction sh with
  | nil => intro d h; exact h
  | cons p rest ih => intro d h; exact ih _ (erase_preserves_sorted d h _)

/-- a deleted key is gone -/
theorem eraseAll_gone : ∀ (sh : List (Bytes × Int)) (d : AList DiskEntry), AList.Sorted d →
    ∀ p ∈ sh, ∀ e, (Codec.encodeKey p.1 p.2, e) ∉ eraseAll d sh := by
  intro sh
  induction sh with
  | nil => intro d _ p hp; cases hp
  | cons p0 rest ih =>
    intro d hs p hp e hm
    rcases List.mem_cons.mp hp with rfl | hp
    · have := eraseAll_subset rest _ _ hm
      exact key_ne_of_mem_erase d hs _ _ this rfl
    · exact ih _ (erase_preserves_sorted d hs _) p hp e hm

/-- after `newStore` every name has one entry: the one scanned last -/
theorem reopened_only_last {d : AList DiskEntry} (h : DiskWF d) {n k : Bytes} {e' e : DiskEntry}
    (hm : (k, e') ∈ (reopened d).disk) (hn : e'.name = n) (hl : lastFor d n = some e) : e' = e := by
  apply Classical.byContradiction
  intro hne
  rw [reopened_disk] at hm
  have hmd := eraseAll_subset _ _ _ hm
  have hsh := shadowed_of_not_last d n k e' e hmd hn hl hne
  have hin : (n, e'.exp) ∈ shadowedList d := (scan_complete d ([], [])).2.1 n e'.exp hsh
  have hk : k = Codec.encodeKey n e'.exp := by rw [h.2 k e' hmd, hn]
  rw [hk] at hm
  exact eraseAll_gone _ d h.1 (n, e'.exp) hin e' hm

theorem reopened_pebble (d : AList DiskEntry) : (reopened d).pebble = true := by
  unfold reopened
  rw [reopen_eq]
  simp only
  rw [deletes_pebble]

theorem reopened_failSet (d : AList DiskEntry) : (reopened d).failSet = 0 := by
  unfold reopened
  rw [reopen_eq]
  simp only
  generalize (List.foldl reopenStep ([], []) d).2 = sh
  generalize hs : ({ disk := d, pebble := true } : MState) = s
  have : s.failSet = 0 := by rw [← hs]
  clear hs
  induction sh generalizing s with
  | nil => exact this
  | cons p rest ih => exact ih _ (by simpa [diskDelete] using this)

/-- **`newStore` establishes the invariant** on every well-formed backend content -/
theorem reopened_agrees {d : AList DiskEntry} (h : DiskWF d) : StoreAgrees (reopened d) := by
  obtain ⟨hwf', hlast⟩ := reopened_spec h
  have hsorted : AList.Sorted (reopened d).index := by
    rw [reopened_index]
    exact scan_sorted d ([], []) trivial
  refine ⟨hwf', hsorted, ?_⟩
  intro p hp
  obtain ⟨n, m⟩ := p
  have hg := get?_of_mem _ hsorted n m hp
  rw [reopened_index, scan_index] at hg
  cases hl : lastFor d n with
  | none => rw [hl] at hg; simp [AList.get?] at hg
  | some e =>
    rw [hl] at hg
    simp only [Option.some.injEq] at hg
    subst hg
    have hl' := hlast n
    rw [hl] at hl'
    obtain ⟨hn, k, hm⟩ := lastFor_mem _ _ _ hl'
    have hk := hwf'.2 k e hm
    rw [hn] at hk
    refine ⟨⟨e, by rw [← hk]; exact hm⟩, ?_⟩
    intro k' e' hm' hn'
    rw [reopened_only_last h hm' hn' hl]

/-- `Store.reopen` on any state: index and backend depend on the backend content only -/
theorem reopen_disk (s : MState) : (reopen s).disk = (reopened s.disk).disk := by
  unfold reopened
  rw [reopen_eq, reopen_eq]
  simp only
  rw [deletes_disk, deletes_disk]

theorem reopen_index (s : MState) : (reopen s).index = (reopened s.disk).index := by
  unfold reopened
  rw [reopen_eq, reopen_eq]

end NodisVerif.C13
