import NodisVerif.Proofs.C12Cmd
/-
  C12 / C11-B: the single-key commands of Model/Api.lean are key transactions (`keyTx`).
  Each equation is unconditional (pure case analysis on the value found).
-/
namespace NodisVerif.Proofs.C11
open NodisVerif.Store NodisVerif.Codec NodisVerif.Spec.Persist

/-- generic tactic-free helper: a `readKey` command -/
theorem read_shape (s : MState) (now : Int) (key : Bytes) (miss : Out) (nov : MState → Api.R) (dec : Val → Int → Act)
    (body : MState → Api.R)
    (hbody : ∀ s1, body s1 = match valOf s1 key with
      | some v => runAct s1 key (dec v (Api.expOf s1 key))
      | none => nov s1) :
    (let r := readKey s now key; if !r.2 then (r.1, miss) else body r.1) =
      keyTx false none miss nov dec s now key := by
  unfold keyTx
  simp only [Bool.false_eq_true, if_false, Option.isNone_none, Bool.and_true]
  generalize readKey s now key = r
  obtain ⟨s1, ok⟩ := r
  cases ok with
  | false => rfl
  | true => simp only [Bool.not_true, Bool.false_eq_true, if_false]; exact hbody s1

/-! ### strings -/

def decGet (v : Val) (_ : Int) : Act :=
  match v with
  | .str b => .keep (.bytes (some b))
  | .strNil => .keep (.bytes none)
  | _ => .keep .panic

theorem get_eq (s : MState) (now : Int) (key : Bytes) :
    Api.get s now key = keyTx false none (.bytes none) (fun s1 => (s1, .panic)) decGet s now key := by
  refine Eq.trans ?_ (read_shape s now key _ _ decGet (fun s1 => match Api.asStr s1 key with
    | none => (s1, .panic) | some v => (s1, .bytes v)) ?_)
  · rfl
  · intro s1; simp only [Api.asStr]
    cases valOf s1 key with
    | none => rfl
    | some v => cases v <;> rfl

/-- the string commands that only look: STRLEN, GETRANGE, GETBIT, BITCOUNT -/
def decStrRead (f : DsStr.S → Out) (v : Val) (_ : Int) : Act :=
  match v with
  | .str b => .keep (f (some b))
  | .strNil => .keep (f none)
  | _ => .keep .panic

theorem strRead_eq (f : DsStr.S → Out) (miss : Out) (s : MState) (now : Int) (key : Bytes) :
    (let r := readKey s now key
     if !r.2 then (r.1, miss) else
     match Api.asStr r.1 key with
     | none => (r.1, .panic)
     | some v => (r.1, f v)) = keyTx false none miss (fun s1 => (s1, .panic)) (decStrRead f) s now key := by
  refine read_shape s now key _ _ (decStrRead f) (fun s1 => match Api.asStr s1 key with
    | none => (s1, .panic) | some v => (s1, f v)) ?_
  intro s1; simp only [Api.asStr]
  cases valOf s1 key with
  | none => rfl
  | some v => cases v <;> rfl

theorem strLen_eq (s : MState) (now : Int) (key : Bytes) :
    Api.strLen s now key = keyTx false none (.int 0) (fun s1 => (s1, .panic)) (decStrRead fun v => .int (DsStr.len v)) s now key :=
  strRead_eq _ _ s now key

theorem getRange_eq (s : MState) (now : Int) (key : Bytes) (a b : Int) :
    Api.getRange s now key a b =
      keyTx false none (.bytes none) (fun s1 => (s1, .panic)) (decStrRead fun v => .bytes (DsStr.getRange v a b)) s now key :=
  strRead_eq _ _ s now key

theorem getBit_eq (s : MState) (now : Int) (key : Bytes) (off : Int) :
    Api.getBit s now key off =
      keyTx false none (.int 0) (fun s1 => (s1, .panic)) (decStrRead fun v => .int (DsStr.getBit v off)) s now key :=
  strRead_eq _ _ s now key

/-- a string command that creates the key if missing and always rewrites it -/
def decStrWrite (f : DsStr.S → Option (Option Val × Option Int × List FeedOp × Out)) (fail : DsStr.S → Out)
    (v : Val) (_ : Int) : Act :=
  let go (x : DsStr.S) : Act := match f x with
    | some (v', e', ops, r) => .put v' e' ops r
    | none => .keep (fail x)
  match v with
  | .str b => go (some b)
  | .strNil => go none
  | _ => .keep .panic

def decSet (key value : Bytes) (keepTTL : Bool) : Val → Int → Act :=
  decStrWrite (fun _ => some (some (.str value), if keepTTL then none else some 0,
    [Api.opSet key value keepTTL], .unit)) (fun _ => .panic)

theorem set_eq (s : MState) (now : Int) (key value : Bytes) (keepTTL : Bool) :
    Api.set s now key value keepTTL =
      keyTx true (some (.str [])) .unit (fun s1 => (s1, .panic)) (decSet key value keepTTL) s now key := by
  unfold Api.set keyTx
  simp only [if_true, Option.isNone_some, Bool.and_false, Bool.false_eq_true, if_false]
  generalize writeKey s now key (some (.str [])) = r
  obtain ⟨s1, ok⟩ := r
  simp only [Api.asStr]
  cases valOf s1 key with
  | none => rfl
  | some v => cases v <;> cases keepTTL <;> rfl

def decGetSet (key value : Bytes) : Val → Int → Act :=
  decStrWrite (fun old => some (some (.str value), some 0, [Api.opSet key value false], .bytes old))
    (fun _ => .panic)

/-- GETSET: an existing key is rewritten in place (a key transaction without constructor); a missing
    one is published as a brand-new record (as SETNX does) and there is no old value to report -/
theorem getSet_eq (s : MState) (now : Int) (key value : Bytes) :
    Api.getSet s now key value =
      if !(writeKey s now key none).2 then
        (emit (signal (Api.setExp (Api.setVal (newKeyWith (writeKey s now key none).1 key none (.str []))
            key (.str value)) key 0) key) (Api.opSet key value false), .bytes none)
      else keyTx true none (.bytes none) (fun s1 => (s1, .panic)) (decGetSet key value) s now key := by
  unfold Api.getSet keyTx
  simp only [if_true, Option.isNone_none, Bool.and_true]
  generalize writeKey s now key none = r
  obtain ⟨s1, ok⟩ := r
  cases ok with
  | false => rfl
  | true =>
    simp only [Bool.not_true, Bool.false_eq_true, if_false, Api.asStr]
    cases valOf s1 key with
    | none => rfl
    | some v => cases v <;> rfl

def decAppend (key value : Bytes) : Val → Int → Act :=
  decStrWrite (fun v => some (some (Api.strVal (DsStr.append v value).1), none,
    [Api.opSet key (DsStr.bytes (DsStr.append v value).1) false], .int (DsStr.append v value).2))
    (fun _ => .panic)

theorem append_eq (s : MState) (now : Int) (key value : Bytes) :
    Api.append s now key value = keyTx true (some (.str [])) .unit (fun s1 => (s1, .panic)) (decAppend key value) s now key := by
  unfold Api.append keyTx
  simp only [if_true, Option.isNone_some, Bool.and_false, Bool.false_eq_true, if_false]
  generalize writeKey s now key (some (.str [])) = r
  obtain ⟨s1, ok⟩ := r
  simp only [Api.asStr]
  cases valOf s1 key with
  | none => rfl
  | some v => cases v <;> rfl

def decSetXX (key value : Bytes) (keepTTL : Bool) : Val → Int → Act :=
  decStrWrite (fun _ => some (some (.str value), if keepTTL then none else some 0,
    [Api.opSet key value keepTTL], .bool true)) (fun _ => .panic)

theorem setXX_eq (s : MState) (now : Int) (key value : Bytes) (keepTTL : Bool) :
    Api.setXX s now key value keepTTL =
      keyTx true none (.bool false) (fun s1 => (s1, .panic)) (decSetXX key value keepTTL) s now key := by
  unfold Api.setXX keyTx
  simp only [if_true, Option.isNone_none, Bool.and_true]
  generalize writeKey s now key none = r
  obtain ⟨s1, ok⟩ := r
  cases ok with
  | false => rfl
  | true =>
    simp only [Bool.not_true, Bool.false_eq_true, if_false, Api.asStr]
    cases valOf s1 key with
    | none => rfl
    | some v => cases v <;> cases keepTTL <;> rfl

def decAddInt (key : Bytes) (delta : Int) (neg : Bool) : Val → Int → Act :=
  decStrWrite (fun v => match (if neg then DsStr.decr v delta else DsStr.incr v delta) with
      | none => none
      | some (v', n) => some (some (Api.strVal v'), none, [Api.opSet key (formatInt n) false],
          .many [.int n, .err false]))
    (fun _ => .many [.int 0, .err true])

theorem addInt_eq (s : MState) (now : Int) (key : Bytes) (delta : Int) (neg sw : Bool) :
    Api.addInt s now key delta neg sw =
      keyTx true (some (.str [])) .unit (fun s1 => (s1, .panic)) (decAddInt key delta neg) s now key := by
  unfold Api.addInt keyTx
  simp only [if_true, Option.isNone_some, Bool.and_false, Bool.false_eq_true, if_false]
  generalize writeKey s now key (some (.str [])) = r
  obtain ⟨s1, ok⟩ := r
  simp only [Api.asStr]
  cases valOf s1 key with
  | none => rfl
  | some v =>
    cases v <;> try rfl
    all_goals
      simp only [decAddInt, decStrWrite]
      split <;> simp_all [runAct, optSetVal, optSetExp, emits]

/-! ### deadlines -/

/-- a write command on an existing key only -/
theorem write_shape (s : MState) (now : Int) (key : Bytes) (miss : Out) (nov : MState → Api.R) (dec : Val → Int → Act)
    (body : MState → Api.R)
    (hbody : ∀ s1, body s1 = match valOf s1 key with
      | some v => runAct s1 key (dec v (Api.expOf s1 key))
      | none => nov s1) :
    (let r := writeKey s now key none; if !r.2 then (r.1, miss) else body r.1) =
      keyTx true none miss nov dec s now key := by
  unfold keyTx
  simp only [if_true, Option.isNone_none, Bool.and_true]
  generalize writeKey s now key none = r
  obtain ⟨s1, ok⟩ := r
  cases ok with
  | false => rfl
  | true => simp only [Bool.not_true, Bool.false_eq_true, if_false]; exact hbody s1

/-- a write command that creates the key when missing -/
theorem create_shape (s : MState) (now : Int) (key : Bytes) (mk : Val) (miss : Out) (nov : MState → Api.R) (dec : Val → Int → Act)
    (body : MState → Api.R)
    (hbody : ∀ s1, body s1 = match valOf s1 key with
      | some v => runAct s1 key (dec v (Api.expOf s1 key))
      | none => nov s1) :
    (let r := writeKey s now key (some mk); body r.1) =
      keyTx true (some mk) miss nov dec s now key := by
  unfold keyTx
  simp only [if_true, Option.isNone_some, Bool.and_false, Bool.false_eq_true, if_false]
  exact hbody _

/-- EXPIREAT and its conditional forms: `cond` decides from the current deadline -/
def decExpire (key : Bytes) (ts : Int) (cond : Int → Bool) (_ : Val) (e : Int) : Act :=
  if cond e then .put none (some ts) [Api.opExpire key ts] (.int 1) else .keep (.int 0)

theorem expireAt_eq (s : MState) (now : Int) (key : Bytes) (ts : Int) :
    Api.expireAt s now key ts =
      keyTx true none (.int 0) (fun s1 => (Api.applyExp s1 key ts, .int 1))
        (decExpire key ts fun _ => true) s now key := by
  refine Eq.trans ?_ (write_shape s now key _ _ _ (fun s1 => (Api.applyExp s1 key ts, .int 1)) ?_)
  · rfl
  · intro s1
    cases valOf s1 key <;> rfl

theorem expireAtCond_shape (s : MState) (now : Int) (key : Bytes) (ts : Int) (cond : Int → Bool) :
    (let r := writeKey s now key none
     if !r.2 then (r.1, Out.int 0) else
     if cond (Api.expOf r.1 key) then (Api.applyExp r.1 key ts, .int 1) else (r.1, .int 0)) =
      keyTx true none (.int 0)
        (fun s1 => if cond (Api.expOf s1 key) then (Api.applyExp s1 key ts, .int 1) else (s1, .int 0))
        (decExpire key ts cond) s now key := by
  refine write_shape s now key _ _ _ (fun s1 =>
    if cond (Api.expOf s1 key) then (Api.applyExp s1 key ts, .int 1) else (s1, .int 0)) ?_
  intro s1
  cases valOf s1 key with
  | none => rfl
  | some v =>
    simp only [decExpire]
    cases cond (Api.expOf s1 key) <;> rfl

theorem expireAtNX_eq (s : MState) (now : Int) (key : Bytes) (ts : Int) :
    Api.expireAtNX s now key ts = keyTx true none (.int 0)
      (fun s1 => if (fun e => decide (e = 0)) (Api.expOf s1 key) then (Api.applyExp s1 key ts, .int 1) else (s1, .int 0))
      (decExpire key ts fun e => decide (e = 0)) s now key := by
  refine Eq.trans ?_ (expireAtCond_shape s now key ts (fun e => decide (e = 0)))
  unfold Api.expireAtNX
  generalize writeKey s now key none = r
  obtain ⟨s1, ok⟩ := r
  cases ok <;> simp only [Bool.not_false, Bool.not_true, if_true, Bool.false_eq_true, if_false]
  by_cases h : Api.expOf s1 key = 0 <;> simp [h]

theorem expireAtXX_eq (s : MState) (now : Int) (key : Bytes) (ts : Int) :
    Api.expireAtXX s now key ts = keyTx true none (.int 0)
      (fun s1 => if (fun e => decide (e ≠ 0)) (Api.expOf s1 key) then (Api.applyExp s1 key ts, .int 1) else (s1, .int 0))
      (decExpire key ts fun e => decide (e ≠ 0)) s now key := by
  refine Eq.trans ?_ (expireAtCond_shape s now key ts (fun e => decide (e ≠ 0)))
  unfold Api.expireAtXX
  generalize writeKey s now key none = r
  obtain ⟨s1, ok⟩ := r
  cases ok <;> simp only [Bool.not_false, Bool.not_true, if_true, Bool.false_eq_true, if_false]
  by_cases h : Api.expOf s1 key = 0 <;> simp [h]

/-- EXPIRE / PEXPIRE with a non-zero duration -/
theorem expire_eq (s : MState) (now : Int) (key : Bytes) (seconds : Int) (h0 : seconds ≠ 0) :
    Api.expire s now key seconds = keyTx true none (.int 0)
      (fun s1 => (Api.applyExp s1 key (wrap64 (now + wrap64 (seconds * 1000))), .int 1))
      (decExpire key (wrap64 (now + wrap64 (seconds * 1000))) fun _ => true) s now key := by
  rw [← expireAt_eq]
  simp [Api.expire, h0, Api.expireAt]

theorem expirePX_eq (s : MState) (now : Int) (key : Bytes) (ms : Int) (h0 : ms ≠ 0) :
    Api.expirePX s now key ms = keyTx true none (.int 0)
      (fun s1 => (Api.applyExp s1 key (wrap64 (now + ms)), .int 1))
      (decExpire key (wrap64 (now + ms)) fun _ => true) s now key := by
  rw [← expireAt_eq]
  simp [Api.expirePX, h0, Api.expireAt]

def decPersist (key : Bytes) (_ : Val) (e : Int) : Act :=
  if e = 0 then .keep (.int 0) else .put none (some 0) [{ typ := 33, key := key }] (.int 1)

theorem apiPersist_eq (s : MState) (now : Int) (key : Bytes) :
    Api.persist s now key = keyTx true none (.int 0)
      (fun s1 => if Api.expOf s1 key = 0 then (s1, .int 0) else
        (emit (signal (Api.setExp s1 key 0) key) { typ := 33, key := key }, .int 1))
      (decPersist key) s now key := by
  refine Eq.trans ?_ (write_shape s now key _ _ _ (fun s1 =>
    if Api.expOf s1 key = 0 then (s1, .int 0) else
      (emit (signal (Api.setExp s1 key 0) key) { typ := 33, key := key }, .int 1)) ?_)
  · rfl
  · intro s1
    cases valOf s1 key with
    | none => rfl
    | some v =>
      simp only [decPersist]
      by_cases h : Api.expOf s1 key = 0 <;> simp only [h, if_true, if_false] <;> rfl

def ttlOut (now e : Int) : Out :=
  if e = 0 then .int (-1) else
  let dns := e * 1000000 - now * 1000000
  let d := if dns > int64Max then int64Max else dns
  let r := d % 1000000000
  if r + r < 1000000000 then .int (d - r)
  else if d + 1000000000 - r > int64Max then .int int64Max
  else .int (d + 1000000000 - r)

theorem ttl_eq (s : MState) (now : Int) (key : Bytes) :
    Api.ttl s now key = keyTx false none (.int (-2)) (fun s1 => (s1, ttlOut now (Api.expOf s1 key)))
      (fun _ e => .keep (ttlOut now e)) s now key := by
  refine Eq.trans ?_ (read_shape s now key _ _ _ (fun s1 => (s1, ttlOut now (Api.expOf s1 key))) ?_)
  · unfold Api.ttl
    generalize readKey s now key = r
    obtain ⟨s1, ok⟩ := r
    cases ok <;> simp only [Bool.not_false, Bool.not_true, if_true, Bool.false_eq_true, if_false]
    simp only [ttlOut]
    by_cases h : Api.expOf s1 key = 0
    · simp [h]
    · simp only [h, if_false]
      generalize (if Api.expOf s1 key * 1000000 - now * 1000000 > int64Max then int64Max
        else Api.expOf s1 key * 1000000 - now * 1000000) = d
      by_cases h1 : d % 1000000000 + d % 1000000000 < 1000000000
      · simp only [h1, if_true]
      · simp only [h1, if_false]
        by_cases h2 : d + 1000000000 - d % 1000000000 > int64Max
        · simp only [h2, if_true]
        · simp only [h2, if_false]
  · intro s1; cases valOf s1 key <;> rfl

theorem pttl_eq (s : MState) (now : Int) (key : Bytes) :
    Api.pttl s now key = keyTx false none (.int (-2))
      (fun s1 => (s1, if Api.expOf s1 key = 0 then .int (-1) else .int (Api.expOf s1 key - now)))
      (fun _ e => .keep (if e = 0 then .int (-1) else .int (e - now))) s now key := by
  refine Eq.trans ?_ (read_shape s now key _ _ _
    (fun s1 => (s1, if Api.expOf s1 key = 0 then .int (-1) else .int (Api.expOf s1 key - now))) ?_)
  · unfold Api.pttl
    generalize readKey s now key = r
    obtain ⟨s1, ok⟩ := r
    cases ok <;> simp only [Bool.not_false, Bool.not_true, if_true, Bool.false_eq_true, if_false]
    by_cases h : Api.expOf s1 key = 0 <;> simp [h]
  · intro s1; cases valOf s1 key <;> rfl

theorem type_eq (s : MState) (now : Int) (key : Bytes) :
    Api.type_ s now key = keyTx false none (.str (Bytes.ofString "none")) (fun s1 => (s1, .panic))
      (fun v _ => .keep (.str (Bytes.ofString (typeName v.typeCode)))) s now key := by
  refine Eq.trans ?_ (read_shape s now key _ _ _ (fun s1 => match valOf s1 key with
    | some v => (s1, .str (Bytes.ofString (typeName v.typeCode))) | none => (s1, .panic)) ?_)
  · rfl
  · intro s1; cases valOf s1 key <;> rfl

/-- EXISTS of one key -/
theorem exists1_eq (s : MState) (now : Int) (key : Bytes) :
    Api.exists_ s now [key] = keyTx false none (.int 0) (fun s1 => (s1, .int 1))
      (fun _ _ => .keep (.int 1)) s now key := by
  refine Eq.trans ?_ (read_shape s now key _ _ _ (fun s1 => (s1, .int 1)) ?_)
  · unfold Api.exists_
    simp only [List.foldl_cons, List.foldl_nil]
    generalize readKey s now key = r
    obtain ⟨s1, ok⟩ := r
    cases ok <;> rfl
  · intro s1; cases valOf s1 key <;> rfl

/-! ### lists -/

def decPush (left : Bool) (key : Bytes) (values : List Bytes) (v : Val) (_ : Int) : Act :=
  match v with
  | .list l =>
    .put (some (.list (if left then DsList.lpush l values else DsList.rpush l values))) none
      [Api.opList (if left then 14 else 21) key (values.map Bytes.toHex)]
      (.int (DsList.llen (if left then DsList.lpush l values else DsList.rpush l values)))
  | _ => .keep .panic

theorem push_eq (left : Bool) (s : MState) (now : Int) (key : Bytes) (values : List Bytes) :
    Api.push left s now key values =
      keyTx true (some (.list DsList.empty)) .unit (fun s1 => (s1, .panic)) (decPush left key values) s now key := by
  refine Eq.trans ?_ (create_shape s now key _ _ _ _ (fun s1 => match Api.asList s1 key with
    | none => (s1, .panic)
    | some l =>
      (emit (signal (Api.setVal s1 key (.list (if left then DsList.lpush l values else DsList.rpush l values))) key)
        (Api.opList (if left then 14 else 21) key (values.map Bytes.toHex)),
       .int (DsList.llen (if left then DsList.lpush l values else DsList.rpush l values)))) ?_)
  · rfl
  · intro s1; simp only [Api.asList]
    cases valOf s1 key with
    | none => rfl
    | some v => cases v <;> rfl

/-- a list command on an existing key that rewrites the list and unlinks the key when it became empty -/
def decListMut (f : LList → LList × List FeedOp × Out) (v : Val) (_ : Int) : Act :=
  match v with
  | .list l =>
    if DsList.llen (f l).1 = 0 then .drop (.list (f l).1) (f l).2.1 (f l).2.2
    else .put (some (.list (f l).1)) none (f l).2.1 (f l).2.2
  | _ => .keep .panic

theorem listMut_shape (f : LList → LList × List FeedOp × Out) (op : LList → FeedOp) (miss : Out)
    (hop : ∀ l, (f l).2.1 = [op l]) (s : MState) (now : Int) (key : Bytes) :
    (let r := writeKey s now key none
     if !r.2 then (r.1, miss) else
     match Api.asList r.1 key with
     | none => (r.1, .panic)
     | some l =>
       let s1 := Api.setVal r.1 key (.list (f l).1)
       let s2 := if DsList.llen (f l).1 = 0 then delKey s1 key else s1
       (emit (signal s2 key) (op l), (f l).2.2)) =
      keyTx true none miss (fun s1 => (s1, .panic)) (decListMut f) s now key := by
  refine write_shape s now key _ _ _ (fun s0 => match Api.asList s0 key with
     | none => (s0, .panic)
     | some l =>
       let s1 := Api.setVal s0 key (.list (f l).1)
       let s2 := if DsList.llen (f l).1 = 0 then delKey s1 key else s1
       (emit (signal s2 key) (op l), (f l).2.2)) ?_
  intro s1; simp only [Api.asList]
  cases valOf s1 key with
  | none => rfl
  | some v =>
    cases v <;> try rfl
    rename_i l
    simp only [decListMut]
    by_cases h : DsList.llen (f l).1 = 0 <;> simp only [h, if_true, if_false, runAct, hop, emits,
      List.foldl_cons, List.foldl_nil, optSetVal, optSetExp]

def popF (left : Bool) (key : Bytes) (count : Int) (l : LList) : LList × List FeedOp × Out :=
  ((if left then DsList.lpop l count else DsList.rpop l count).1,
   [Api.opList (if left then 12 else 19) key [toString count]],
   .blist (((if left then DsList.lpop l count else DsList.rpop l count).2.getD []).map some))

theorem pop_eq (left : Bool) (s : MState) (now : Int) (key : Bytes) (count : Int) :
    Api.pop left s now key count =
      keyTx true none (.blist []) (fun s1 => (s1, .panic)) (decListMut (popF left key count)) s now key := by
  refine Eq.trans ?_ (listMut_shape (popF left key count)
    (fun _ => Api.opList (if left then 12 else 19) key [toString count]) _ (fun _ => rfl) s now key)
  rfl

def lremF (key data : Bytes) (count : Int) (l : LList) : LList × List FeedOp × Out :=
  ((DsList.lrem l count data).1, [Api.opList 16 key [Bytes.toHex data, toString count]],
   .int (DsList.lrem l count data).2)

theorem lrem_eq (s : MState) (now : Int) (key data : Bytes) (count : Int) :
    Api.lrem s now key data count =
      keyTx true none (.int 0) (fun s1 => (s1, .panic)) (decListMut (lremF key data count)) s now key := by
  refine Eq.trans ?_ (listMut_shape (lremF key data count)
    (fun _ => Api.opList 16 key [Bytes.toHex data, toString count]) _ (fun _ => rfl) s now key)
  rfl

def ltrimF (key : Bytes) (start stop : Int) (l : LList) : LList × List FeedOp × Out :=
  (DsList.ltrim l start stop, [Api.opList 18 key [toString start, toString stop]], .unit)

theorem ltrim_eq (s : MState) (now : Int) (key : Bytes) (start stop : Int) :
    Api.ltrim s now key start stop =
      keyTx true none .unit (fun s1 => (s1, .panic)) (decListMut (ltrimF key start stop)) s now key := by
  refine Eq.trans ?_ (listMut_shape (ltrimF key start stop)
    (fun _ => Api.opList 18 key [toString start, toString stop]) _ (fun _ => rfl) s now key)
  rfl

def decListRead (f : LList → Out) (other : Out) (v : Val) (_ : Int) : Act :=
  match v with
  | .list l => .keep (f l)
  | _ => .keep other

theorem listRead_shape (f : LList → Out) (miss other : Out) (s : MState) (now : Int) (key : Bytes) :
    (let r := readKey s now key
     if !r.2 then (r.1, miss) else
     match Api.asList r.1 key with
     | none => (r.1, other)
     | some l => (r.1, f l)) = keyTx false none miss (fun s1 => (s1, other)) (decListRead f other) s now key := by
  refine read_shape s now key _ _ _ (fun s1 => match Api.asList s1 key with
     | none => (s1, other) | some l => (s1, f l)) ?_
  intro s1; simp only [Api.asList]
  cases valOf s1 key with
  | none => rfl
  | some v => cases v <;> rfl

theorem llen_eq (s : MState) (now : Int) (key : Bytes) :
    Api.llen s now key = keyTx false none (.int 0) (fun s1 => (s1, .int (-1)))
      (decListRead (fun l => .int (DsList.llen l)) (.int (-1))) s now key :=
  listRead_shape _ _ _ s now key

theorem lindex_eq (s : MState) (now : Int) (key : Bytes) (i : Int) :
    Api.lindex s now key i = keyTx false none (.bytes none) (fun s1 => (s1, .panic))
      (decListRead (fun l => .bytes (DsList.lindex l i)) .panic) s now key :=
  listRead_shape _ _ _ s now key

theorem lrange_eq (s : MState) (now : Int) (key : Bytes) (a b : Int) :
    Api.lrange s now key a b = keyTx false none (.blist []) (fun s1 => (s1, .panic))
      (decListRead (fun l => .blist ((DsList.lrange l a b).map some)) .panic) s now key :=
  listRead_shape _ _ _ s now key

/-! ### hashes -/

def decHset (key field value : Bytes) (v : Val) (_ : Int) : Act :=
  match v with
  | .hash h =>
    .put (some (.hash (DsHash.hset h field value).1)) none
      [{ typ := 10, key := key, args := [Bytes.toHex field, Bytes.toHex value] }]
      (.int (DsHash.hset h field value).2)
  | _ => .keep .panic

theorem hset_eq (s : MState) (now : Int) (key field value : Bytes) :
    Api.hset s now key field value =
      keyTx true (some (.hash [])) .unit (fun s1 => (s1, .panic)) (decHset key field value) s now key := by
  refine Eq.trans ?_ (create_shape s now key _ _ _ _ (fun s1 => match Api.asHash s1 key with
    | none => (s1, .panic)
    | some h =>
      (emit (signal (Api.setVal s1 key (.hash (DsHash.hset h field value).1)) key)
        { typ := 10, key := key, args := [Bytes.toHex field, Bytes.toHex value] },
       .int (DsHash.hset h field value).2)) ?_)
  · rfl
  · intro s1; simp only [Api.asHash]
    cases valOf s1 key with
    | none => rfl
    | some v => cases v <;> rfl

def decHashRead (f : AList Bytes → Out) (v : Val) (_ : Int) : Act :=
  match v with
  | .hash h => .keep (f h)
  | _ => .keep .panic

theorem hread_eq (f : AList Bytes → Out) (dflt : Out) (s : MState) (now : Int) (key : Bytes) :
    Api.hread f dflt s now key = keyTx false none dflt (fun s1 => (s1, .panic)) (decHashRead f) s now key := by
  refine Eq.trans ?_ (read_shape s now key _ _ _ (fun s1 => match Api.asHash s1 key with
     | none => (s1, .panic) | some h => (s1, f h)) ?_)
  · rfl
  · intro s1; simp only [Api.asHash]
    cases valOf s1 key with
    | none => rfl
    | some v => cases v <;> rfl

def decHdel (key : Bytes) (fields : List Bytes) (v : Val) (_ : Int) : Act :=
  match v with
  | .hash h =>
    if DsHash.hlen (DsHash.hdel h fields).1 = 0 then
      .drop (.hash (DsHash.hdel h fields).1) [{ typ := 6, key := key, args := fields.map Bytes.toHex }]
        (.int (DsHash.hdel h fields).2)
    else .put (some (.hash (DsHash.hdel h fields).1)) none
        [{ typ := 6, key := key, args := fields.map Bytes.toHex }] (.int (DsHash.hdel h fields).2)
  | _ => .keep .panic

theorem hdel_eq (s : MState) (now : Int) (key : Bytes) (fields : List Bytes) :
    Api.hdel s now key fields =
      keyTx true none (.int 0) (fun s1 => (s1, .panic)) (decHdel key fields) s now key := by
  refine Eq.trans ?_ (write_shape s now key _ _ _ (fun s0 => match Api.asHash s0 key with
     | none => (s0, .panic)
     | some h =>
       let s1 := Api.setVal s0 key (.hash (DsHash.hdel h fields).1)
       let s2 := if DsHash.hlen (DsHash.hdel h fields).1 = 0 then delKey s1 key else s1
       (emit (signal s2 key) { typ := 6, key := key, args := fields.map Bytes.toHex },
        .int (DsHash.hdel h fields).2)) ?_)
  · rfl
  · intro s1; simp only [Api.asHash]
    cases valOf s1 key with
    | none => rfl
    | some v =>
      cases v <;> try rfl
      rename_i h
      simp only [decHdel]
      by_cases hz : DsHash.hlen (DsHash.hdel h fields).1 = 0 <;>
        simp only [hz, if_true, if_false, runAct, emits, List.foldl_cons, List.foldl_nil, optSetVal, optSetExp]

/-! ### sets -/

def decSadd (key : Bytes) (members : List Bytes) (v : Val) (_ : Int) : Act :=
  match v with
  | .set st =>
    .put (some (.set (DsSet.sadd st members).1)) none
      [{ typ := 23, key := key, args := members.map Bytes.toHex }] (.int (DsSet.sadd st members).2)
  | _ => .keep .panic

theorem sadd_eq (s : MState) (now : Int) (key : Bytes) (members : List Bytes) :
    Api.sadd s now key members =
      keyTx true (some (.set [])) .unit (fun s1 => (s1, .panic)) (decSadd key members) s now key := by
  refine Eq.trans ?_ (create_shape s now key _ _ _ _ (fun s1 => match Api.asSet s1 key with
    | none => (s1, .panic)
    | some st =>
      (emit (signal (Api.setVal s1 key (.set (DsSet.sadd st members).1)) key)
        { typ := 23, key := key, args := members.map Bytes.toHex }, .int (DsSet.sadd st members).2)) ?_)
  · rfl
  · intro s1; simp only [Api.asSet]
    cases valOf s1 key with
    | none => rfl
    | some v => cases v <;> rfl

def decSetRead (f : AList Unit → Out) (v : Val) (_ : Int) : Act :=
  match v with
  | .set st => .keep (f st)
  | _ => .keep .panic

theorem sread_eq (f : AList Unit → Out) (dflt : Out) (s : MState) (now : Int) (key : Bytes) :
    Api.sread f dflt s now key = keyTx false none dflt (fun s1 => (s1, .panic)) (decSetRead f) s now key := by
  refine Eq.trans ?_ (read_shape s now key _ _ _ (fun s1 => match Api.asSet s1 key with
     | none => (s1, .panic) | some st => (s1, f st)) ?_)
  · rfl
  · intro s1; simp only [Api.asSet]
    cases valOf s1 key with
    | none => rfl
    | some v => cases v <;> rfl

def decSrem (key : Bytes) (members : List Bytes) (v : Val) (_ : Int) : Act :=
  match v with
  | .set st =>
    if DsSet.scard (DsSet.srem st members).1 = 0 then
      .drop (.set (DsSet.srem st members).1) [{ typ := 24, key := key, args := members.map Bytes.toHex }]
        (.int (DsSet.srem st members).2)
    else .put (some (.set (DsSet.srem st members).1)) none
        [{ typ := 24, key := key, args := members.map Bytes.toHex }] (.int (DsSet.srem st members).2)
  | _ => .keep .panic

theorem srem_eq (s : MState) (now : Int) (key : Bytes) (members : List Bytes) :
    Api.srem s now key members =
      keyTx true none (.int 0) (fun s1 => (s1, .panic)) (decSrem key members) s now key := by
  refine Eq.trans ?_ (write_shape s now key _ _ _ (fun s0 => match Api.asSet s0 key with
     | none => (s0, .panic)
     | some st =>
       let s1 := Api.setVal s0 key (.set (DsSet.srem st members).1)
       let s2 := if DsSet.scard (DsSet.srem st members).1 = 0 then delKey s1 key else s1
       (emit (signal s2 key) { typ := 24, key := key, args := members.map Bytes.toHex },
        .int (DsSet.srem st members).2)) ?_)
  · rfl
  · intro s1; simp only [Api.asSet]
    cases valOf s1 key with
    | none => rfl
    | some v =>
      cases v <;> try rfl
      rename_i st
      simp only [decSrem]
      by_cases hz : DsSet.scard (DsSet.srem st members).1 = 0 <;>
        simp only [hz, if_true, if_false, runAct, emits, List.foldl_cons, List.foldl_nil, optSetVal, optSetExp]

/-! ### sorted sets -/

def decZaddWith (f : ZSet → Bytes → F64 → ZSet × Int) (key m : Bytes) (sc : F64) (v : Val) (_ : Int) : Act :=
  match v with
  | .zset z => .put (some (.zset (f z m sc).1)) none [Api.opZAdd key m sc] (.int (f z m sc).2)
  | _ => .keep .panic

theorem zaddWith_eq (f : ZSet → Bytes → F64 → ZSet × Int) (s : MState) (now : Int) (key m : Bytes) (sc : F64) :
    Api.zaddWith f s now key m sc =
      keyTx true (some (.zset DsZSet.empty)) .unit (fun s1 => (s1, .panic)) (decZaddWith f key m sc) s now key := by
  refine Eq.trans ?_ (create_shape s now key _ _ _ _ (fun s1 => match Api.asZSet s1 key with
    | none => (s1, .panic)
    | some z =>
      (emit (signal (Api.setVal s1 key (.zset (f z m sc).1)) key) (Api.opZAdd key m sc), .int (f z m sc).2)) ?_)
  · rfl
  · intro s1; simp only [Api.asZSet]
    cases valOf s1 key with
    | none => rfl
    | some v => cases v <;> rfl

theorem zadd_eq (s : MState) (now : Int) (key m : Bytes) (sc : F64) :
    Api.zadd s now key m sc =
      keyTx true (some (.zset DsZSet.empty)) .unit (fun s1 => (s1, .panic))
        (decZaddWith DsZSet.zAdd key m sc) s now key := zaddWith_eq _ s now key m sc

def decZsetRead (f : ZSet → Out) (v : Val) (_ : Int) : Act :=
  match v with
  | .zset z => .keep (f z)
  | _ => .keep .panic

theorem zread_eq (f : ZSet → Out) (dflt : Out) (s : MState) (now : Int) (key : Bytes) :
    Api.zread f dflt s now key = keyTx false none dflt (fun s1 => (s1, .panic)) (decZsetRead f) s now key := by
  refine Eq.trans ?_ (read_shape s now key _ _ _ (fun s1 => match Api.asZSet s1 key with
     | none => (s1, .panic) | some z => (s1, f z)) ?_)
  · rfl
  · intro s1; simp only [Api.asZSet]
    cases valOf s1 key with
    | none => rfl
    | some v => cases v <;> rfl

end NodisVerif.Proofs.C11
