import NodisVerif.Model.Handler4
/-
  GEOADD is a ZADD of the encoded score: `Handler4.geoAdd` against `Api.zadd` / `DsZSet.zAdd`, the
  records it emits, and what the read commands of the GEO family leave alone.
-/
namespace NodisVerif.Proofs.GeoAdd
open NodisVerif NodisVerif.Store NodisVerif.Api NodisVerif.Handler4

/-- the `ZAdd` loop of `GeoAdd` on the data structure: the new value and the sum of the replies -/
def zaddAll (z : ZSet) (items : List (Bytes × F64)) : ZSet × Int :=
  items.foldl (fun (acc : ZSet × Int) it => ((DsZSet.zAdd acc.1 it.1 it.2).1, acc.2 + (DsZSet.zAdd acc.1 it.1 it.2).2)) (z, 0)

/-- the records of `geoAdded` -/
def emitAll (key : Bytes) (items : List (Bytes × F64)) (s : MState) : MState :=
  items.foldl (fun s it => emit s (opZAdd key it.1 it.2)) s

/-- GEOADD with one item IS `ZAdd(key, member, float64(hash))`: same store (index, backend, watch
    signals, change records), same reply -/
theorem geoAdd_single (s : MState) (now : Int) (key m : Bytes) (sc : F64) :
    geoAdd s now key [(m, sc)] = Api.zadd s now key m sc := by
  unfold geoAdd Api.zadd Api.zaddWith
  generalize writeKey s now key (some (.zset DsZSet.empty)) = w
  obtain ⟨s1, ok⟩ := w
  dsimp only
  cases asZSet s1 key with
  | none => rfl
  | some z => simp [List.foldl]

/-- GEOADD with any non-empty item list: ONE `writeKey`, the `ZAdd` fold on the sorted set, ONE watch
    signal, one ZADD record per item in argument order; a value of another type panics before anything
    is changed -/
theorem geoAdd_eq (s : MState) (now : Int) (key : Bytes) (it : Bytes × F64) (items : List (Bytes × F64)) :
    geoAdd s now key (it :: items) =
      (match asZSet (writeKey s now key (some (.zset DsZSet.empty))).1 key with
       | none => ((writeKey s now key (some (.zset DsZSet.empty))).1, .panic)
       | some z =>
         (emitAll key (it :: items)
            (signal (setVal (writeKey s now key (some (.zset DsZSet.empty))).1 key (.zset (zaddAll z (it :: items)).1)) key),
          .int (zaddAll z (it :: items)).2)) := by
  unfold geoAdd
  generalize writeKey s now key (some (.zset DsZSet.empty)) = w
  obtain ⟨s1, ok⟩ := w
  dsimp only
  cases asZSet s1 key <;> rfl

theorem emit_feed (s : MState) (op : FeedOp) (h : s.listeners = true) : (emit s op).feed = op :: s.feed := by
  simp [emit, h]
theorem emit_listeners (s : MState) (op : FeedOp) : (emit s op).listeners = s.listeners := by
  unfold emit; split <;> rfl

/-- the records: with a watcher attached, exactly one ZADD record (type 26) per item, in argument
    order (the feed is kept newest first), each naming the key, the member and the stored score -/
theorem emitAll_feed (key : Bytes) : ∀ (items : List (Bytes × F64)) (s : MState), s.listeners = true →
    (emitAll key items s).feed = (items.map fun it => opZAdd key it.1 it.2).reverse ++ s.feed := by
  intro items
  induction items with
  | nil => intro s _; rfl
  | cons it rest ih =>
    intro s h
    show (emitAll key rest (emit s (opZAdd key it.1 it.2))).feed = _
    rw [ih _ (by rw [emit_listeners]; exact h), emit_feed _ _ h]
    simp

/-- without a watcher nothing is recorded -/
theorem emitAll_silent (key : Bytes) : ∀ (items : List (Bytes × F64)) (s : MState), s.listeners = false →
    emitAll key items s = s := by
  intro items
  induction items with
  | nil => intro s _; rfl
  | cons it rest ih =>
    intro s h
    show emitAll key rest (emit s (opZAdd key it.1 it.2)) = s
    have : emit s (opZAdd key it.1 it.2) = s := by simp [emit, h]
    rw [this]; exact ih s h

end NodisVerif.Proofs.GeoAdd
