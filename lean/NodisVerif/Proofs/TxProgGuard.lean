import NodisVerif.Proofs.TxProgLocal
/-
  Program model of tx.go: the stronger invariant `Strong` (simulation relation + lock order + registration of
  held keys + ownership of `store.mu` inside its sections); it is inductive and implies the callers'
  conditions `Guarded`, which makes `prog_refines_proto` unconditional.
-/
namespace NodisVerif.Proofs.TxProg
open NodisVerif.Proto (Key Rec Mode Ev Hold TxSt PState assoc erase put Tx)
open NodisVerif.TxProg
open NodisVerif.Proofs.Proto

structure SF (s : Shared) (t : Tid) (l : Loc) : Prop where
  w : inW l.pc = true → s.smu.writer = some t
  r : inR l.pc = true → t ∈ s.smu.readers
  /-- delKey, between the unlink and the placeholder: nobody has registered the key -/
  d3 : l.pc = .d3 → s.lookup l.key = none
  /-- before the commit, the record registered under the name of a held record is held, too -/
  reg : grow l.pc = true → ∀ g ∈ l.held, (l.pc = .d3 → g.key ≠ l.key) → ∃ g' ∈ l.held, s.lookup g.key = some g'.rid
  vreg : l.pc = .a12 → l.okcur = true → s.lookup l.key = some l.m
  /-- gcRecord, from its validation to its unlink: the record is the indexed one -/
  gidx : (l.pc = .g6 ∨ l.pc = .g7 ∨ l.pc = .g8) → l.okcur = true → assoc s.index l.key = some l.m

structure Strong (c : Cfg) (p : PState) : Prop where
  sim : Sim c p
  swf : wfMu c.sh.smu
  lf  : ∀ t, LF (c.loc t)
  sf  : ∀ t, SF c.sh t (c.loc t)
  /-- the converse for `store.mu`: its owners are inside a section, each reader once -/
  rnd : c.sh.smu.readers.Nodup
  conv : ∀ u, (c.sh.smu.writer = some u → inW (c.loc u).pc = true) ∧ (u ∈ c.sh.smu.readers → inR (c.loc u).pc = true)

theorem Strong.init : Strong {} {} where
  sim := Sim.init
  swf := wfMu_default
  lf := fun _ => by rw [loc_default]; lf_triv
  sf := fun _ => by rw [loc_default]; constructor <;> simp [inW, inR, grow]
  rnd := List.nodup_nil
  conv := by intro u; constructor <;> intro h <;> cases h

theorem guarded_of_strong {c : Cfg} {p : PState} (h : Strong c p) (t : Tid) : Guarded c t := by
  refine ⟨?_, ?_, ?_, ?_, ?_⟩
  · intro hpc g hg
    have hr := (h.lf t).aw (by simp [hpc, afterWait])
    obtain ⟨a, _⟩ := ((h.lf t).acq (by simp [hpc, acqPc])).1 hr
    rcases a g hg with x | x
    · exact x
    · rw [hpc] at x; cases x.1
  · intro hpc _; exact (h.lf t).nk (Or.inr (Or.inr hpc))
  · intro hpc r g hidx hgo
    have hs := h.sim
    have hmem : g ∈ (c.loc t).held := List.mem_of_find?_eq_some hgo
    have hrid : g.rid = r := by have := List.find?_some hgo; simpa using this
    have hkey : g.key = (c.loc t).key := by
      have h1 := hs.holdNamed t g (by simpa [holdsOf, hpc] using hmem)
      have h2 := hs.inv.idxName (c.loc t).key r (by rw [hs.idx]; exact hidx)
      rw [hs.names, ← hrid, h1] at h2
      exact Option.some.inj h2
    exact ((h.lf t).dk (Or.inr hpc)).1 g hmem hkey
  · intro hpc; exact (h.sf t).d3 hpc
  · intro hpc
    have hf := (h.sim.thr t).facts
    simp only [Facts, hpc] at hf
    exact (h.sf t).gidx (Or.inr (Or.inr hpc)) hf.2

/-- the thread-local invariant is kept by the thread's own step -/
theorem lf_self {c : Cfg} {p : PState} {t : Tid} {ch : Choice} {s' : Shared} {l' : Loc} {e : Option Ev}
    (hst : Strong c p) (h : tstep c.sh t (c.loc t) ch = some (s', l', e)) : LF l' := by
  have hs := hst.sim
  have hlf := hst.lf t
  have hi := hs.thr t
  cases hpc : (c.loc t).pc <;> simp only [tstep, hpc] at h
  case init =>
    split at h
    · split at h <;> cases h
      rename_i hsorted
      exact lf_nextPlan (by intro _ _ _ _ _ g hg; cases hg) (by simpa [sortedPlan] using hsorted)
    · split at h <;> cases h
      lf_triv
    · cases h
  case idle =>
    split at h
    · cases h
    · cases h
    · split at h <;> cases h
      rename_i hg
      constructor <;> simp [acqPc, afterWait]
      exact hg
    · split at h <;> cases h
      rename_i hg
      constructor <;> simp [acqPc, afterWait]
      exact hg
    · split at h <;> cases h
      rename_i hg
      constructor <;> simp [acqPc, afterWait]
      simp only [holdsNameW, Bool.and_eq_true, List.all_eq_true] at hg
      refine ⟨?_, ?_⟩
      · intro g hgm hk
        have := hg.2 g hgm
        simpa [hk] using this
      · simpa [holdsName] using hg.1
    · cases h; lf_triv
  case a1 =>
    split at h <;> cases h
    exact lf_move hlf (by simp [hpc, acqPc]) (by simp [acqPc]) (by simp [afterWait]) rfl rfl rfl rfl id rfl
      (by simp [hpc]) (by simp) (by simp)
  case a2 =>
    cases h
    refine lf_move hlf (by simp [hpc, acqPc]) (by simp [acqPc]) (by simp [afterWait]) rfl rfl rfl rfl id rfl
      (by simp [hpc]) (by simp) ?_
    intro _ hne hok
    simp only at hne hok ⊢
    obtain ⟨_, _, c3⟩ := hlf.acq (by simp [hpc, acqPc])
    have hn := c3 hne
    simp only [holdsName, List.any_eq_true, beq_iff_eq] at hn
    obtain ⟨g, hg, hk⟩ := hn
    obtain ⟨g', hg', hl⟩ := (hst.sf t).reg (by simp [hpc, grow]) g hg (by simp [hpc])
    rw [hk] at hl
    simp only [hl, Option.getD_some, holdOf, List.find?_isSome]
    exact ⟨g', hg', by simp⟩
  case a3 =>
    have hf := hi.facts
    simp only [Facts, hpc] at hf
    obtain ⟨c1, c2, c3⟩ := hlf.acq (by simp [hpc, acqPc])
    have hplan : (c.loc t).ret = .plan → (∀ g ∈ (c.loc t).held, g.key < (c.loc t).key ∨ g.key = (c.loc t).key) ∧
        sortedKeys ((c.loc t).key :: (c.loc t).todo.map (·.1)) = true := by
      intro hr
      obtain ⟨a, b⟩ := c1 hr
      refine ⟨fun g hg => ?_, b⟩
      rcases a g hg with x | x
      · exact Or.inl x
      · rw [hpc] at x; cases x.1
    split at h
    · split at h <;> cases h
      · rename_i hph
        refine lf_retTo hplan ?_
        intro hr; have := (c2 hr).2; simp [this] at hph
      · exact lf_move hlf (by simp [hpc, acqPc]) (by simp [acqPc]) (by simp [afterWait]) rfl rfl rfl rfl id rfl
          (by simp [hpc]) (by simp) (by simp)
    · rename_i hok
      have hok : (c.loc t).okcur = true := by simpa using hok
      split at h
      · rename_i g hgo
        split at h <;> cases h
        · lf_triv
        · rename_i hpanic
          refine lf_retTo hplan ?_
          intro hr
          have hw := (c2 hr).1
          have hmem : g ∈ (c.loc t).held := List.mem_of_find?_eq_some hgo
          have hrid : g.rid = (c.loc t).m := by have := List.find?_some hgo; simpa using this
          have hkey : g.key = (c.loc t).key := by
            have h1 := hs.holdNamed t g (by simpa [holdsOf, hpc] using hmem)
            rw [hrid, hf hok] at h1; exact (Option.some.inj h1).symm
          have hmode : g.mode = .w := by
            cases hm : g.mode with
            | w => rfl
            | r => simp [hw, hm] at hpanic
          have hv := hi.val g hmem
          have : g = ⟨(c.loc t).m, (c.loc t).key, .w, true⟩ := by
            cases g; simp_all
          rw [← this]; exact hmem
      · rename_i hnone
        cases h
        refine lf_move hlf (by simp [hpc, acqPc]) (by simp [acqPc]) ?_ rfl rfl rfl rfl id rfl
          (by simp [hpc]) (by simp) (by simp)
        intro _
        by_cases hr : (c.loc t).ret = .plan
        · exact hr
        · have := hlf.a3 hpc hr hok
          rw [hnone] at this; cases this
  case a4 =>
    split at h <;> cases h
    exact lf_move hlf (by simp [hpc, acqPc]) (by simp [acqPc]) (by simp [afterWait]) rfl rfl rfl rfl id rfl
      (by simp [hpc]) (by simp) (by simp)
  case a5 =>
    split at h
    · cases h
      exact lf_move hlf (by simp [hpc, acqPc]) (by simp [acqPc]) (by simp [afterWait]) rfl rfl rfl rfl id rfl
        (by simp [hpc]) (by simp) (by simp)
    · split at h <;> cases h
      obtain ⟨c1, c2, c3⟩ := hlf.acq (by simp [hpc, acqPc])
      constructor <;> simp [acqPc, afterWait, holdsName]
      refine ⟨?_, c2⟩
      intro hr
      obtain ⟨a, b⟩ := c1 hr
      refine ⟨fun g hg => ?_, b⟩
      rcases a g hg with x | x
      · exact Or.inl x
      · rw [hpc] at x; cases x.1
  case a6r =>
    cases h
    exact lf_move hlf (by simp [hpc, acqPc]) (by simp [acqPc]) (by simp [afterWait]) rfl rfl rfl rfl id rfl
      (by simp [hpc]) (by simp) (by simp)
  case a6c =>
    cases h
    obtain ⟨c1, c2, c3⟩ := hlf.acq (by simp [hpc, acqPc])
    refine lf_retTo ?_ ?_
    · intro hr
      obtain ⟨a, b⟩ := c1 hr
      refine ⟨fun g hg => ?_, b⟩
      rcases a g hg with x | x
      · exact Or.inl x
      · exact Or.inr x.2
    · intro hr
      have := hlf.a6 hpc
      rwa [(c2 hr).1] at this
  case a7 =>
    cases h
    exact lf_move hlf (by simp [hpc, acqPc]) (by simp [acqPc]) (fun _ => hlf.aw (by simp [hpc, afterWait]))
      rfl rfl rfl rfl id rfl (by simp [hpc]) (by simp) (by simp)
  case a8 =>
    split at h <;> split at h <;> cases h <;>
    exact lf_move hlf (by simp [hpc, acqPc]) (by simp [acqPc]) (fun _ => hlf.aw (by simp [hpc, afterWait]))
      rfl rfl rfl rfl id rfl (by simp [hpc]) (by simp) (by simp)
  case a9 =>
    cases h
    exact lf_move hlf (by simp [hpc, acqPc]) (by simp [acqPc]) (fun _ => hlf.aw (by simp [hpc, afterWait]))
      rfl rfl rfl rfl id rfl (by simp [hpc]) (by simp) (by simp)
  case a10 =>
    split at h <;> cases h
    exact lf_move hlf (by simp [hpc, acqPc]) (by simp [acqPc]) (fun _ => hlf.aw (by simp [hpc, afterWait]))
      rfl rfl rfl rfl id rfl (by simp [hpc]) (by simp) (by simp)
  case a11 =>
    cases h
    exact lf_move hlf (by simp [hpc, acqPc]) (by simp [acqPc]) (fun _ => hlf.aw (by simp [hpc, afterWait]))
      rfl rfl rfl rfl id rfl (by simp [hpc]) (by simp) (by simp)
  case a12 =>
    have hr := hlf.aw (by simp [hpc, afterWait])
    split at h <;> cases h
    · exact lf_move hlf (by simp [hpc, acqPc]) (by simp [acqPc]) (fun _ => hr)
        rfl rfl rfl rfl id rfl (by simp [hpc]) (by simp) (by simp)
    · obtain ⟨c1, _, _⟩ := hlf.acq (by simp [hpc, acqPc])
      obtain ⟨a, b⟩ := c1 hr
      refine lf_retTo ?_ ?_
      · intro _
        refine ⟨fun g hg => ?_, b⟩
        rcases List.mem_cons.1 hg with rfl | hg
        · exact Or.inr rfl
        · rcases a g hg with x | x
          · exact Or.inl x
          · rw [hpc] at x; cases x.1
      · intro hn; simp only at hn; rw [hr] at hn; cases hn
  case a13 =>
    cases h
    exact lf_move hlf (by simp [hpc, acqPc]) (by simp [acqPc]) (fun _ => hlf.aw (by simp [hpc, afterWait]))
      rfl rfl rfl rfl id rfl (by simp [hpc]) (by simp) (by simp)
  case a14 =>
    cases h
    exact lf_move hlf (by simp [hpc, acqPc]) (by simp [acqPc]) (fun _ => hlf.aw (by simp [hpc, afterWait]))
      rfl rfl rfl rfl (by intro hw; simp [hw]) rfl (by simp [hpc]) (by simp) (by simp)
  case n1 =>
    cases h
    constructor <;> simp [acqPc, afterWait]
    exact hlf.nk (Or.inl hpc)
  case n2 =>
    split at h <;> cases h
    constructor <;> simp [acqPc, afterWait]
    exact hlf.nk (Or.inr (Or.inl hpc))
  case n3 => split at h <;> cases h <;> lf_triv
  case n4 => cases h; lf_triv
  case d1 =>
    split at h <;> cases h
    constructor <;> simp [acqPc, afterWait]
    exact hlf.dk (Or.inl hpc)
  case d2 =>
    split at h
    · cases h; lf_triv
    · split at h <;> cases h
      lf_triv
  case d3 => split at h <;> cases h; lf_triv
  case d4 => cases h; lf_triv
  case c0 => cases h; exact lf_commitNext _ _
  case c2 => cases h; lf_triv
  case c3 => cases h; exact lf_commitNext _ _
  case c4 => cases h; lf_triv
  case c5 => cases h; lf_triv
  case c6 =>
    split at h <;> cases h
    · lf_triv
    · exact lf_commitNext _ _
  case c7 => cases h; lf_triv
  case c8 => split at h <;> cases h; lf_triv
  case c9 => split at h <;> cases h <;> lf_triv
  case c10 => cases h; lf_triv
  case c11 => cases h; lf_triv
  case c12 => cases h; exact lf_commitNext _ _
  case cend => cases h; lf_triv
  case g1 => cases h; lf_triv
  case g2 => split at h <;> cases h; lf_triv
  case g3 => cases h; lf_triv
  case g4 => split at h <;> cases h; lf_triv
  case g5 => cases h; lf_triv
  case g6 => (repeat' split at h) <;> cases h <;> lf_triv
  case g7 => split at h <;> cases h; lf_triv
  case g8 => cases h; lf_triv
  case g9 => cases h; lf_triv
  case g10 => cases h; lf_triv
  case g11 => cases h; lf_triv
  case g12 => cases h; lf_triv
  case g13 => cases h; lf_triv

end NodisVerif.Proofs.TxProg
